/-
C17 — Optimizer wrappers apply exactly the optax update; metrics ignore batching.

Property theorems only (helper lemmas live in Flax/Proofs/Optim.lean and Flax/Proofs/Metrics.lean, or
are `private` here). Models: Flax/Model/Optim.lean, Flax/Model/Metrics.lean.

Reading guide
  * `Tx` is an arbitrary optax transformation (A-OPTAX: a function `(grads, state, params) ↦
    (updates, state')` that may raise); every theorem quantifies over all of them, so "stateless,
    stateful, chained, with schedules" are all instances.
  * `manualStep` / `manualLoop` are the hand-written `tx.update` + `optax.apply_updates` loop.
  * the functional train states are Lean values: "returns a new instance and keeps the old one intact"
    is what a function on values does; the in-place `nnx.Optimizer` is modelled as object-state
    before ↦ (object-state after, exception raised).
-/
import Flax.Proofs.Optim
import Flax.Proofs.Metrics

namespace Flax.C17
open Flax.Optim Flax.Metrics
open Flax.Filter (VarInfo Path)

/-! ## 1. `flax.training.train_state.TrainState` -/

/-- the TrainState a hand-loop state corresponds to -/
def ofManual (fields : List (String × X)) (m : Manual (PT α) σ) : TrainState α σ X :=
  { step := m.step, params := m.params, optState := m.optState, fields := fields }

/-- `.replace(**kwargs)` touches exactly the named fields: names and order of the fields are kept, a
field named in `kwargs` takes the (first) given value, every other field is unchanged. -/
theorem replace_fields_exact (fields kwargs fs : List (String × X)) (h : replaceFields fields kwargs = .ok fs) :
    fs.map (·.1) = fields.map (·.1) ∧
    ∀ (i : Nat) (f : String × X), fields[i]? = some f →
      fs[i]? = some (f.1, match kwargs.find? (fun kv => decide (kv.1 = f.1)) with
                          | some kv => kv.2
                          | none => f.2) := by
  unfold replaceFields at h
  split at h
  · simp only [Except.ok.injEq] at h
    subst h
    refine ⟨?_, ?_⟩
    · simp only [List.map_map]
      apply List.map_congr_left
      intro f _
      simp only [Function.comp]
      split <;> rfl
    · intro i f hf
      simp only [List.getElem?_map, hf, Option.map_some]
      cases kwargs.find? (fun kv => decide (kv.1 = f.1)) <;> rfl
  · simp at h

theorem replace_fields_none (fields : List (String × X)) : replaceFields fields [] = .ok fields := by
  simp [replaceFields]

/-- an unknown keyword (or `step`/`params`/`opt_state`, which are not in `fields`) is rejected -/
theorem replace_fields_unknown (fields kwargs : List (String × X)) (kv : String × X) (hk : kv ∈ kwargs)
    (hn : kv.1 ∉ fields.map (·.1)) : replaceFields fields kwargs = .error .unknownField := by
  unfold replaceFields
  rw [if_neg]
  simp only [List.all_eq_true, List.any_eq_true, decide_eq_true_eq]
  intro hall
  obtain ⟨f, hf, he⟩ := hall kv hk
  exact hn (by simp only [List.mem_map]; exact ⟨f, hf, he⟩)

/-- **trainstate_step** (plain params). One `apply_gradients` call is one step of the hand-written
loop on `(params, opt_state, step)`: `params := apply_updates(params, updates)`,
`opt_state := new state`, `step + 1`; it raises exactly when the hand-written step raises (same
exception), otherwise only the fields named in `kwargs` differ from the old instance. -/
theorem trainstate_step [Add α] (w : Width) (owg : String) (tx : Tx (PT α) σ) (s : TrainState α σ X) (grads : PT α)
    (kwargs : List (String × X)) (hg : grads.hasKey owg = .ok false) :
    s.applyGradients w owg tx grads kwargs =
      match manualStep w tx PT.applyUpdates ⟨s.params, s.optState, s.step⟩ grads with
      | .error e => .error e
      | .ok m =>
        match replaceFields s.fields kwargs with
        | .error e => .error e
        | .ok fs => .ok (ofManual fs m) := by
  simp only [TrainState.applyGradients, hg, manualStep]
  cases tx.update grads s.optState s.params with
  | error e => rfl
  | ok us =>
    obtain ⟨u, s'⟩ := us
    simp only
    cases s.params.applyUpdates u with
    | error e => rfl
    | ok p' =>
      simp only
      cases replaceFields s.fields kwargs <;> rfl

/-- **trainstate_step**, OVERWRITE_WITH_GRADIENT branch. When `grads` has the OWG key, only
`params['params']` goes through `tx` (with `grads['params']`), the new `params` is exactly
`{'params': apply_updates(...), OWG: grads[OWG]}`: the OWG subtree is replaced by its gradient and is
never seen by the optimizer. -/
theorem trainstate_step_owg [Add α] (w : Width) (owg : String) (tx : Tx (PT α) σ) (s : TrainState α σ X) (grads : PT α)
    (kwargs : List (String × X)) (gOpt gOwg pOpt : PT α)
    (hg : grads.hasKey owg = .ok true) (hgp : grads.get "params" = .ok gOpt) (hgo : grads.get owg = .ok gOwg)
    (hp : s.params.get "params" = .ok pOpt) :
    s.applyGradients w owg tx grads kwargs =
      match manualStep w tx PT.applyUpdates ⟨pOpt, s.optState, s.step⟩ gOpt with
      | .error e => .error e
      | .ok m =>
        match replaceFields s.fields kwargs with
        | .error e => .error e
        | .ok fs => .ok { step := m.step, params := .dict [("params", m.params), (owg, gOwg)],
                          optState := m.optState, fields := fs } := by
  simp only [TrainState.applyGradients, hg, hgp, hp, hgo, manualStep]
  cases tx.update gOpt s.optState pOpt with
  | error e => rfl
  | ok us =>
    obtain ⟨u, s'⟩ := us
    simp only
    cases pOpt.applyUpdates u with
    | error e => rfl
    | ok p' =>
      simp only
      cases replaceFields s.fields kwargs <;> rfl

/-- OWG branch, missing pieces: `grads['params']` or `self.params['params']` absent raises KeyError
before anything is computed (the error branch of the dictionary lookups). -/
theorem trainstate_step_owg_keyerror [Add α] (w : Width) (owg : String) (tx : Tx (PT α) σ) (s : TrainState α σ X) (grads : PT α)
    (kwargs : List (String × X)) (e : Optim.Err)
    (hg : grads.hasKey owg = .ok true) (hgp : grads.get "params" = .error e) :
    s.applyGradients w owg tx grads kwargs = .error e := by
  simp only [TrainState.applyGradients, hg, hgp]

/-- `TrainState.create`: step 0 and `opt_state = tx.init(params)` — of `params['params']` when the
OWG collection is present (it gets no optimizer state). -/
theorem trainstate_create (owg : String) (tx : Tx (PT α) σ) (params : PT α) (fields : List (String × X)) :
    (params.hasKey owg = .ok false →
      TrainState.create owg tx params fields = .ok (ofManual fields (manualInit tx params))) ∧
    (∀ pOpt, params.hasKey owg = .ok true → params.get "params" = .ok pOpt →
      TrainState.create owg tx params fields =
        .ok { step := 0, params := params, optState := tx.init pOpt, fields := fields }) := by
  constructor
  · intro h; simp [TrainState.create, h, ofManual, manualInit]
  · intro pOpt h hp; simp [TrainState.create, h, hp]

/-- **k_steps_eq_manual_loop** for `TrainState`: for every gradient history (plain params), `k`
calls of `apply_gradients` give exactly the hand-written loop's params / opt_state, `step + k`, the
other fields untouched; they raise exactly when (and what) the loop raises. -/
theorem trainstate_k_steps_eq_manual_loop [Add α] (w : Width) (owg : String) (tx : Tx (PT α) σ) (gs : List (PT α)) :
    ∀ (s : TrainState α σ X), (∀ g ∈ gs, g.hasKey owg = .ok false) →
    TrainState.run w owg tx s gs =
      match manualLoop w tx PT.applyUpdates ⟨s.params, s.optState, s.step⟩ gs with
      | .error e => .error e
      | .ok m => .ok (ofManual s.fields m) := by
  induction gs with
  | nil => intro s _; rfl
  | cons g gs ih =>
    intro s h
    have hg := h g (by simp)
    simp only [TrainState.run, manualLoop, trainstate_step w owg tx s g [] hg, replace_fields_none]
    cases manualStep w tx PT.applyUpdates ⟨s.params, s.optState, s.step⟩ g with
    | error e => rfl
    | ok m =>
      simp only
      exact ih (ofManual s.fields m) (fun g' hg' => h g' (by simp [hg']))

private theorem get_params_of_owgdict (owg : String) (a b : PT α) :
    (PT.dict [("params", a), (owg, b)]).get "params" = .ok a := by
  simp [PT.get]

/-- **k_steps_eq_manual_loop**, OWG histories: when every gradient has the OWG form
`{'params': gp, OWG: go}`, `k ≥ 1` calls give the hand-written loop run on `params['params']` with
the `gp`s only, and the OWG collection equals the last `go`. -/
theorem trainstate_k_steps_owg [Add α] (w : Width) (owg : String) (tx : Tx (PT α) σ) (parts : List (PT α × PT α × PT α)) :
    ∀ (s : TrainState α σ X) (p0 : PT α), s.params.get "params" = .ok p0 →
    (∀ t ∈ parts, t.1.hasKey owg = .ok true ∧ t.1.get "params" = .ok t.2.1 ∧ t.1.get owg = .ok t.2.2) →
    TrainState.run w owg tx s (parts.map (·.1)) =
      match manualLoop w tx PT.applyUpdates ⟨p0, s.optState, s.step⟩ (parts.map (·.2.1)) with
      | .error e => .error e
      | .ok m => .ok { step := m.step,
                       params := match parts.getLast? with
                                 | none => s.params
                                 | some l => .dict [("params", m.params), (owg, l.2.2)],
                       optState := m.optState, fields := s.fields } := by
  induction parts with
  | nil => intro s p0 _ _; rfl
  | cons t ts ih =>
    intro s p0 hp h
    obtain ⟨h1, h2, h3⟩ := h t (by simp)
    simp only [List.map_cons, TrainState.run, manualLoop,
      trainstate_step_owg w owg tx s t.1 [] t.2.1 t.2.2 p0 h1 h2 h3 hp, replace_fields_none]
    cases manualStep w tx PT.applyUpdates ⟨p0, s.optState, s.step⟩ t.2.1 with
    | error e => rfl
    | ok m =>
      simp only
      have := ih { step := m.step, params := .dict [("params", m.params), (owg, t.2.2)],
                   optState := m.optState, fields := s.fields } m.params
                (get_params_of_owgdict owg _ _) (fun t' ht' => h t' (by simp [ht']))
      rw [this]
      cases ts with
      | nil => simp [manualLoop]
      | cons t' ts' =>
        cases manualLoop w tx PT.applyUpdates ⟨m.params, m.optState, m.step⟩ ((t' :: ts').map (·.2.1)) with
        | error e => rfl
        | ok m' =>
          simp only [List.getLast?_cons_cons]
          cases hgl : (t' :: ts').getLast? with
          | none => simp at hgl
          | some l => rfl

/-! ## 2. `flax.nnx.TrainState` (functional) -/

/-- **nnx_trainstate_step**: `nnx.TrainState.apply_gradients` is one hand-written step on
`(params, opt_state, step)` for every pytree type `P` (a `State` in practice) and every `tx`. -/
theorem nnx_trainstate_step (w : Width) (tx : Tx P S) (applyUpd : P → P → Except Optim.Err P) (s : NTrainState P S X) (grads : P)
    (kwargs : List (String × X)) :
    s.applyGradients w tx applyUpd grads kwargs =
      match manualStep w tx applyUpd ⟨s.params, s.optState, s.step⟩ grads with
      | .error e => .error e
      | .ok m =>
        match replaceFields s.fields kwargs with
        | .error e => .error e
        | .ok fs => .ok { params := m.params, optState := m.optState, step := m.step, fields := fs } := by
  simp only [NTrainState.applyGradients, manualStep]
  cases tx.update grads s.optState s.params with
  | error e => rfl
  | ok us =>
    obtain ⟨u, s'⟩ := us
    simp only
    cases applyUpd s.params u with
    | error e => rfl
    | ok p' =>
      simp only
      cases replaceFields s.fields kwargs <;> rfl

/-- **k_steps_eq_manual_loop** for `nnx.TrainState`, every gradient history; `create` starts the
loop at `tx.init(params)` and the given step. -/
theorem nnx_trainstate_k_steps_eq_manual_loop (w : Width) (tx : Tx P S) (applyUpd : P → P → Except Optim.Err P) (gs : List P) :
    ∀ (s : NTrainState P S X),
    NTrainState.run w tx applyUpd s gs =
      match manualLoop w tx applyUpd ⟨s.params, s.optState, s.step⟩ gs with
      | .error e => .error e
      | .ok m => .ok { params := m.params, optState := m.optState, step := m.step, fields := s.fields } := by
  induction gs with
  | nil => intro s; rfl
  | cons g gs ih =>
    intro s
    simp only [NTrainState.run, manualLoop, nnx_trainstate_step, replace_fields_none]
    cases manualStep w tx applyUpd ⟨s.params, s.optState, s.step⟩ g with
    | error e => rfl
    | ok m => simp only; exact ih _

theorem nnx_trainstate_create (tx : Tx P S) (params : P) (step : Nat) (fields : List (String × X)) :
    let s := NTrainState.create tx params step fields
    s.params = params ∧ s.optState = (manualInit tx params).optState ∧ s.step = step ∧ s.fields = fields :=
  ⟨rfl, rfl, rfl, rfl⟩

/-! ## 3. `flax.nnx.Optimizer` (in place) -/

/-- **nnx_optimizer_step**, part 1: `_opt_state_variables_to_state ∘ _wrap_optimizer_state = id` and
back: what optax is handed is exactly what it returned last time (VariableState ↔ OptVariable with
the source type/metadata restored, arrays ↔ OptArray). -/
theorem optimizer_wrap_unwrap (s : List (OptLeaf α)) (w : List (OptVar α)) :
    (s.map wrapLeaf).map unwrapLeaf = s ∧ (w.map unwrapLeaf).map wrapLeaf = w := by
  constructor
  · simp [List.map_map, Function.comp_def, unwrap_wrap]
  · simp [List.map_map, Function.comp_def, wrap_unwrap]

/-- `Optimizer(model, tx, wrt)` starts the hand-written loop: step 0, the params selected by `wrt`,
`tx.init` of exactly those. -/
theorem optimizer_create_abs (tx : NTx α) (sel : Path → VarInfo → Bool) (m : Model α) :
    (Optimizer.create tx sel m).abs sel = manualInit tx (stateOf sel m) ∧
    (Optimizer.create tx sel m).model = m := by
  simp [Optimizer.create, Optimizer.abs, manualInit, List.map_map, Function.comp_def, unwrap_wrap]

/-- **nnx_optimizer_step**. For every model graph with pairwise distinct Variable paths, every `wrt`
predicate, every structure-preserving `tx` and every `grads`: if the hand-written step on
`(nnx.state(model, wrt), unwrapped opt_state, step)` succeeds with `m`, then `update` raises nothing
and afterwards
  * `nnx.state(model, wrt)` is `m.params` (= `apply_updates(params, updates)`),
  * the stored optimizer state unwraps to `m.optState`, and `step` is `step + 1` in the counter's own arithmetic (`incStep`),
  * every Variable keeps its path, type and metadata, every Variable **not** selected by `wrt` keeps
    its value, and the optimizer-state Variables keep their kinds (`Frame`). -/
theorem nnx_optimizer_step [Add α] (w : Width) (tx : NTx α) (sel : Path → VarInfo → Bool) (htx : ShapePreserving tx)
    (o : Optimizer α) (hwf : (paths o.model).Nodup) (g : NState α)
    (m : Manual (NState α) (List (OptLeaf α)))
    (hm : manualStep w tx applyUpdatesN (o.abs sel) g = .ok m) :
    ∃ o', o.update w tx sel g = (o', none) ∧
      stateOf sel o'.model = m.params ∧ o'.optState.map unwrapLeaf = m.optState ∧ o'.step = incStep w o.step ∧
      Frame sel o o' := by
  obtain ⟨o', h1, h2, h3⟩ := update_simulates w tx sel htx o hwf g m hm
  refine ⟨o', h1, ?_, ?_, ?_, h3⟩
  · simpa [Optimizer.abs] using congrArg Manual.params h2
  · simpa [Optimizer.abs] using congrArg Manual.optState h2
  · have := congrArg Manual.step h2
    simp only [Optimizer.abs] at this
    rw [this]
    simp only [manualStep, Optimizer.abs] at hm
    cases hu : tx.update g (o.optState.map unwrapLeaf) (stateOf sel o.model) with
    | error e => simp [hu] at hm
    | ok us =>
      simp only [hu] at hm
      cases ha : applyUpdatesN (stateOf sel o.model) us.1 with
      | error e => simp [ha] at hm
      | ok np => simp only [ha, Except.ok.injEq] at hm; rw [← hm]

/-- when the hand-written step raises (inside `tx.update` or `apply_updates`), `update` raises the
same exception and **nothing** was mutated: step, model and optimizer state are as before. -/
theorem nnx_optimizer_error_atomic [Add α] (w : Width) (tx : NTx α) (sel : Path → VarInfo → Bool) (o : Optimizer α)
    (g : NState α) (e : Optim.Err) (hm : manualStep w tx applyUpdatesN (o.abs sel) g = .error e) :
    o.update w tx sel g = (o, some e) :=
  update_error_atomic w tx sel o g e hm

/-- **k_steps_eq_manual_loop** for `nnx.Optimizer`: for every gradient history, the sequence of
in-place `update` calls tracks the hand-written loop started at the Optimizer's abstraction: if the
loop succeeds, so do all calls, the final selected params / optimizer state / step are the loop's,
and the frame holds between the first and the last object state; if the loop raises, so does the
history of calls (same exception). -/
theorem optimizer_k_steps_eq_manual_loop [Add α] (w : Width) (tx : NTx α) (sel : Path → VarInfo → Bool)
    (htx : ShapePreserving tx) (gs : List (NState α)) :
    ∀ (o : Optimizer α), (paths o.model).Nodup →
    match manualLoop w tx applyUpdatesN (o.abs sel) gs with
    | .ok m => ∃ o', o.run w tx sel gs = (o', none) ∧ o'.abs sel = m ∧ Frame sel o o'
    | .error e => (o.run w tx sel gs).2 = some e := by
  induction gs with
  | nil => intro o _; exact ⟨o, rfl, rfl, Frame.refl sel o⟩
  | cons g gs ih =>
    intro o hwf
    simp only [manualLoop]
    cases hs : manualStep w tx applyUpdatesN (o.abs sel) g with
    | error e =>
      simp only [Optimizer.run, update_error_atomic w tx sel o g e hs]
    | ok m1 =>
      obtain ⟨o1, h1, h2, h3⟩ := update_simulates w tx sel htx o hwf g m1 hs
      have hwf1 : (paths o1.model).Nodup := by rw [h3.paths_eq]; exact hwf
      have := ih o1 hwf1
      rw [h2] at this
      simp only [Optimizer.run, h1]
      cases hl : manualLoop w tx applyUpdatesN m1 gs with
      | error e => simp only [hl] at this ⊢; exact this
      | ok m =>
        simp only [hl] at this ⊢
        obtain ⟨o', r1, r2, r3⟩ := this
        exact ⟨o', r1, r2, h3.trans r3⟩

/-- a history in which the hand-written loop raises: the calls before the failing one all succeed,
the failing call raises the loop's exception, and the object is left exactly in the state the
hand-written loop had reached before the failing step (nothing of the failing step is applied). -/
theorem optimizer_failed_history_stops_at_last_good_state [Add α] (w : Width) (tx : NTx α) (sel : Path → VarInfo → Bool)
    (htx : ShapePreserving tx) (gs : List (NState α)) :
    ∀ (o : Optimizer α), (paths o.model).Nodup → ∀ e, manualLoop w tx applyUpdatesN (o.abs sel) gs = .error e →
    ∃ pre g post m', gs = pre ++ g :: post ∧
      manualLoop w tx applyUpdatesN (o.abs sel) pre = .ok m' ∧
      manualStep w tx applyUpdatesN m' g = .error e ∧
      (o.run w tx sel pre).2 = none ∧ (o.run w tx sel pre).1.abs sel = m' ∧
      o.run w tx sel gs = ((o.run w tx sel pre).1, some e) := by
  induction gs with
  | nil => intro o _ e h; simp [manualLoop] at h
  | cons g gs ih =>
    intro o hwf e h
    simp only [manualLoop] at h
    cases hs : manualStep w tx applyUpdatesN (o.abs sel) g with
    | error e' =>
      simp only [hs, Except.error.injEq] at h
      subst h
      refine ⟨[], g, gs, o.abs sel, rfl, rfl, hs, rfl, rfl, ?_⟩
      simp only [Optimizer.run, update_error_atomic w tx sel o g e' hs]
    | ok m1 =>
      simp only [hs] at h
      obtain ⟨o1, h1, h2, h3⟩ := update_simulates w tx sel htx o hwf g m1 hs
      have hwf1 : (paths o1.model).Nodup := by rw [h3.paths_eq]; exact hwf
      rw [← h2] at h
      obtain ⟨pre, g', post, m', r1, r2, r3, r4, r5, r6⟩ := ih o1 hwf1 e h
      refine ⟨g :: pre, g', post, m', by simp [r1], ?_, r3, ?_, ?_, ?_⟩
      · simp only [manualLoop, hs]; rw [← h2]; exact r2
      · simp only [Optimizer.run, h1]; exact r4
      · simp only [Optimizer.run, h1]; exact r5
      · simp only [Optimizer.run, h1]; exact r6

/-- the part of the frame that needs **no** assumption on `tx`: for every transformation (well
behaved or not), every `wrt`, every history of `update` calls — including calls that raise, even
half-way through `_update_opt_state` — every Variable of the model keeps its path, type and
metadata, and every Variable not selected by `wrt` keeps its value. -/
theorem optimizer_unselected_never_touched [Add α] (w : Width) (tx : NTx α) (sel : Path → VarInfo → Bool)
    (gs : List (NState α)) (o : Optimizer α) (hwf : (paths o.model).Nodup) :
    ModelFrame sel o.model (o.run w tx sel gs).1.model :=
  run_model_frame w tx sel gs o hwf

/-- a transformation whose new state changes a leaf kind makes `_update_opt_state` raise TypeError
after `step` and the model were already updated (the error branch of `optimizer_update_variables`);
with matching structure (`updateOptState_ok`) it cannot raise. -/
theorem optimizer_update_opt_state_kind_errors (s : VarInfo) (v w : α) (i : VarInfo) :
    updateOptLeaf (.optVariable s v) (.arr w) = .error .typeError ∧
    updateOptLeaf (.optArray v) (.vstate i w) = .error .typeError ∧
    updateOptLeaf (.optVariable s v) (.vstate i w) = .ok (.optVariable s w) ∧
    updateOptLeaf (.optArray v) (.arr w) = .ok (.optArray w) :=
  ⟨rfl, rfl, rfl, rfl⟩

/-! ## 3b. the step counter: "increments the step counter by one" in the counter's own arithmetic -/

/-- **step_increments_mod**. A `w`-bit counter (int32 from `jnp.asarray(step)`, the uint32 of
`Optimizer.step`, an int8/uint8/int16 passed by the caller) goes to `(old + 1) mod 2^w` — at the top
of its range it wraps to the bottom, it does not stay; this is addition of one on `BitVec w`. A Python
`int` counter (Linen `TrainState` before any array is put there) goes to `old + 1`. -/
theorem step_increments_mod (w s : Nat) :
    incStep (some w) s = (s + 1) % 2 ^ w ∧
    incStep (some w) s = (BitVec.ofNat w s + 1).toNat ∧
    incStep (some w) (2 ^ w - 1) = 0 ∧
    incStep none s = s + 1 := by
  refine ⟨rfl, ?_, ?_, rfl⟩
  · simp [incStep, BitVec.toNat_add, BitVec.toNat_ofNat]
  · have : 0 < 2 ^ w := Nat.two_pow_pos w
    simp only [incStep]
    rw [Nat.sub_add_cancel this, Nat.mod_self]

/-- the no-overflow corollary (the natural-number reading of the other theorems): below the top of
the range the counter is literally `old + 1` -/
theorem step_no_overflow (w s : Nat) (h : s + 1 < 2 ^ w) : incStep (some w) s = s + 1 := by
  simp [incStep, Nat.mod_eq_of_lt h]

private theorem manualStep_step (w : Width) (tx : Tx P S) (applyUpd : P → P → Except Optim.Err P)
    (m m' : Manual P S) (g : P) (h : manualStep w tx applyUpd m g = .ok m') : m'.step = incStep w m.step := by
  simp only [manualStep] at h
  cases hu : tx.update g m.optState m.params with
  | error e => simp [hu] at h
  | ok us =>
    simp only [hu] at h
    cases ha : applyUpd m.params us.1 with
    | error e => simp [ha] at h
    | ok p' => simp only [ha, Except.ok.injEq] at h; rw [← h]

/-- every successful call of each of the three wrappers moves its counter by exactly one `incStep`
(all branches: plain and OWG, any kwargs); a raising `Optimizer.update` leaves it where it was or one
further (the latter only when `_update_opt_state` is what raised). -/
theorem wrappers_increment_step_by_one [Add α] (w : Width) :
    (∀ (owg : String) (tx : Tx (PT α) σ) (s s' : TrainState α σ X) (g : PT α) (kw : List (String × X)),
      s.applyGradients w owg tx g kw = .ok s' → s'.step = incStep w s.step) ∧
    (∀ (tx : Tx P S) (applyUpd : P → P → Except Optim.Err P) (s s' : NTrainState P S X) (g : P) (kw : List (String × X)),
      s.applyGradients w tx applyUpd g kw = .ok s' → s'.step = incStep w s.step) ∧
    (∀ (tx : NTx α) (sel : Path → VarInfo → Bool) (o : Optimizer α) (g : NState α),
      ((o.update w tx sel g).2 = none → (o.update w tx sel g).1.step = incStep w o.step) ∧
      ((o.update w tx sel g).1.step = o.step ∨ (o.update w tx sel g).1.step = incStep w o.step)) := by
  refine ⟨?_, ?_, ?_⟩
  · intro owg tx s s' g kw h
    simp only [TrainState.applyGradients] at h
    repeat' split at h
    all_goals first | (simp only [Except.ok.injEq] at h; rw [← h]) | simp at h
  · intro tx applyUpd s s' g kw h
    simp only [NTrainState.applyGradients] at h
    repeat' split at h
    all_goals first | (simp only [Except.ok.injEq] at h; rw [← h]) | simp at h
  · intro tx sel o g
    simp only [Optimizer.update]
    cases tx.update g (o.optState.map unwrapLeaf) (stateOf sel o.model) with
    | error e => simp
    | ok us =>
      simp only
      cases applyUpdatesN (stateOf sel o.model) us.1 with
      | error e => simp
      | ok np =>
        simp only
        cases updateModel o.model np with
        | error e => simp
        | ok m => simp

/-- after `k` successful steps of the hand-written loop — hence, by the `k_steps` theorems, of each
wrapper — a `w`-bit counter holds `(start + k) mod 2^w`, a Python-int counter `start + k` -/
theorem k_steps_step_counter (tx : Tx P S) (applyUpd : P → P → Except Optim.Err P) (gs : List P) :
    ∀ (m m' : Manual P S),
    (∀ w : Nat, manualLoop (some w) tx applyUpd m gs = .ok m' → m'.step % 2 ^ w = (m.step + gs.length) % 2 ^ w) ∧
    (manualLoop none tx applyUpd m gs = .ok m' → m'.step = m.step + gs.length) := by
  induction gs with
  | nil =>
    intro m m'
    simp only [manualLoop, Except.ok.injEq, List.length_nil, Nat.add_zero]
    exact ⟨fun _ h => by rw [h], fun h => by rw [h]⟩
  | cons g gs ih =>
    intro m m'
    constructor
    · intro w h
      simp only [manualLoop] at h
      cases hs : manualStep (some w) tx applyUpd m g with
      | error e => simp [hs] at h
      | ok m1 =>
        simp only [hs] at h
        rw [(ih m1 m').1 w h, manualStep_step _ _ _ _ _ _ hs]
        simp only [incStep, List.length_cons, Nat.mod_add_mod]
        congr 1
        omega
    · intro h
      simp only [manualLoop] at h
      cases hs : manualStep none tx applyUpd m g with
      | error e => simp [hs] at h
      | ok m1 =>
        simp only [hs] at h
        rw [(ih m1 m').2 h, manualStep_step _ _ _ _ _ _ hs]
        simp only [incStep, List.length_cons]
        omega

/-! ## 4. metrics -/

/-- **average_batching_invariant**. For every list of batches (scalars, arrays, empty arrays, in any
mixture), `Average` holds `(Σ of all values, number of values)` of the concatenated stream. -/
theorem average_batching_invariant (bs : List Batch) :
    avgRun AvgState.init bs =
      { total := sum (bs.flatMap Batch.values), count := (bs.flatMap Batch.values).length } := by
  rw [avgRun_values]
  simp only [AvgState.init, Nat.zero_add]
  congr 1
  grind

/-- hence any two ways of splitting one value stream into `update` calls give the same state and the
same `compute()` -/
theorem average_partition_independent (bs bs' : List Batch)
    (h : bs.flatMap Batch.values = bs'.flatMap Batch.values) :
    avgRun AvgState.init bs = avgRun AvgState.init bs' ∧
    avgCompute (avgRun AvgState.init bs) = avgCompute (avgRun AvgState.init bs') := by
  rw [average_batching_invariant, average_batching_invariant, h]
  exact ⟨rfl, rfl⟩

/-- `Average.compute()` is the mean of everything seen (NaN, i.e. `none`, on the empty stream) -/
theorem average_compute_is_mean (bs : List Batch) :
    avgCompute (avgRun AvgState.init bs) =
      if bs.flatMap Batch.values = [] then none else some (mean (bs.flatMap Batch.values)) := by
  rw [average_batching_invariant]
  simp only [avgCompute, mean, List.length_eq_zero_iff]

/-- `reset` returns to the initial state whatever was seen before -/
theorem average_reset (s : AvgState) (bs : List Batch) :
    avgRun (avgReset s) bs = avgRun AvgState.init bs := rfl

/-- **Accuracy = Average of indicators**, multi-class: for every split of the examples into
`update(logits=…, labels=…)` calls (equal leading sizes, non-empty class axis) the state is
`(number of examples with argmax(logits) == label, number of examples)` of the whole stream. -/
theorem accuracy_batching_invariant (bs : List (List (List Rat) × List Int))
    (h : ∀ b ∈ bs, b.1.length = b.2.length ∧ ∀ r ∈ b.1, r ≠ []) :
    metricRun (.accuracy none "values" AvgState.init) (bs.map accKw) =
      .ok (.accuracy none "values"
        { total := sum (correct (bs.flatMap (·.1)) (bs.flatMap (·.2))),
          count := (bs.flatMap (·.2)).length }) := by
  rw [accuracy_run_rows bs AvgState.init h]
  simp only [AvgState.init, Nat.zero_add]
  congr 3
  grind

/-- binary (`threshold`) variant: `(logits >= threshold) == (labels > 0)` -/
theorem accuracy_binary_batching_invariant (t : Rat) (bs : List (List Rat × List Int))
    (h : ∀ b ∈ bs, b.1.length = b.2.length) :
    metricRun (.accuracy (some t) "values" AvgState.init) (bs.map accKwBin) =
      .ok (.accuracy (some t) "values"
        { total := sum (correctBin t (bs.flatMap (·.1)) (bs.flatMap (·.2))),
          count := (bs.flatMap (·.2)).length }) := by
  rw [accuracy_run_flat t bs AvgState.init h]
  simp only [AvgState.init, Nat.zero_add]
  congr 3
  grind

/-- error branches of `Accuracy.update`: wrong `ndim` for the mode is a ValueError -/
theorem accuracy_ndim_errors (t : Rat) (rs : List (List Rat)) (xs : List Rat) (ls : List Int) :
    accuracyValues (some t) (.rows rs) ls = .error .valueError ∧
    accuracyValues none (.flat xs) ls = .error .valueError := ⟨rfl, rfl⟩

/-- **welford_batching_invariant**. For every list of non-empty batches (arrays or scalars), Welford
holds exactly `count = n`, `mean = Σx / n`, `m2 = Σ (x − mean)²` of the concatenated stream `xs`
(the pairwise-merge identity `m2' = m2_a + m2_b + δ² n_a n_b / n` is what makes the step go through:
`Flax.Metrics.merge_m2`). -/
theorem welford_batching_invariant (bs : List Batch) (hne : ∀ b ∈ bs, b.values ≠ []) :
    welfordRun WState.init bs =
      some { count := (bs.flatMap Batch.values).length,
             mean := mean (bs.flatMap Batch.values),
             m2 := sqDev (mean (bs.flatMap Batch.values)) (bs.flatMap Batch.values) } := by
  obtain ⟨s', h1, h2⟩ := winv_run bs WState.init [] winv_init hne
  rw [h1]
  simp only [List.nil_append] at h2
  congr 1
  exact winv_unique h2 ⟨rfl, rfl, rfl⟩

/-- hence the Welford state, and so every statistic `compute()` derives from it, is independent of
how the stream was split -/
theorem welford_partition_independent (bs bs' : List Batch)
    (hne : ∀ b ∈ bs, b.values ≠ []) (hne' : ∀ b ∈ bs', b.values ≠ [])
    (h : bs.flatMap Batch.values = bs'.flatMap Batch.values) :
    welfordRun WState.init bs = welfordRun WState.init bs' := by
  rw [welford_batching_invariant bs hne, welford_batching_invariant bs' hne', h]

/-- `Welford.compute()`: `mean` is the stream mean and `m2 / count` is its population variance
(`standard_deviation` and `standard_error_of_mean` are `√variance` and `√variance / √count`). -/
theorem welford_compute_spec (bs : List Batch) (hne : ∀ b ∈ bs, b.values ≠ []) (s : WState)
    (hs : welfordRun WState.init bs = some s) :
    welfordCompute s =
      { mean := mean (bs.flatMap Batch.values),
        variance := if bs.flatMap Batch.values = [] then none else some (var (bs.flatMap Batch.values)),
        count := (bs.flatMap Batch.values).length } := by
  rw [welford_batching_invariant bs hne] at hs
  simp only [Option.some.injEq] at hs
  subst hs
  simp only [welfordCompute, var, List.length_eq_zero_iff]

/-- the excluded point: an empty array makes `values.mean()` NaN, which poisons the statistics until
`reset` (in the model: `none`, and `none` is absorbing for later updates) -/
theorem welford_empty_batch_poisons (s : WState) (an : String) (kw : Kwargs) (a : Arg) (hk : kw.get an = some a) :
    welfordUpdate s (.array []) = none ∧
    metricUpdate (.welford an none) kw = .ok (.welford an none) ∧
    metricReset (.welford an none) = .welford an (some WState.init) := by
  refine ⟨rfl, ?_, rfl⟩
  simp [metricUpdate, hk]

/-- **"since the last reset"**, Average: after any history of `update` and `reset` calls the state is
that of a fresh metric fed only the batches that came after the last `reset` — so by
`average_batching_invariant` it is `(Σ, n)` of exactly those values, however they were split. -/
theorem average_since_last_reset (calls : List Call) :
    avgCalls AvgState.init calls = avgRun AvgState.init (sinceReset calls) ∧
    avgCalls AvgState.init calls =
      { total := sum ((sinceReset calls).flatMap Batch.values),
        count := ((sinceReset calls).flatMap Batch.values).length } := by
  have h : avgCalls AvgState.init calls = avgRun AvgState.init (sinceReset calls) := avgCalls_acc calls []
  exact ⟨h, by rw [h, average_batching_invariant]⟩

/-- **"since the last reset"**, Welford (no hypothesis: a NaN-poisoned object is also repaired by
`reset`); with non-empty batches after the last reset the state is `(n, mean, Σ(x − mean)²)` of the
values seen since then. -/
theorem welford_since_last_reset (calls : List Call) :
    welfordCalls (some WState.init) calls = welfordRun WState.init (sinceReset calls) ∧
    ((∀ b ∈ sinceReset calls, b.values ≠ []) →
      welfordCalls (some WState.init) calls =
        some { count := ((sinceReset calls).flatMap Batch.values).length,
               mean := mean ((sinceReset calls).flatMap Batch.values),
               m2 := sqDev (mean ((sinceReset calls).flatMap Batch.values)) ((sinceReset calls).flatMap Batch.values) }) := by
  have h : welfordCalls (some WState.init) calls = welfordRun WState.init (sinceReset calls) := welfordCalls_acc calls []
  exact ⟨h, fun hne => by rw [h, welford_batching_invariant _ hne]⟩

/-- **multimetric_pointwise**. A `MultiMetric` after any history of `update(**kwargs)` calls is,
member by member, what each member would be after the same calls on its own — and it succeeds
exactly when every member does; `compute()` is the dict of the members' `compute()`. -/
theorem multimetric_pointwise (ms ms' : Multi) (kws : List Kwargs) :
    (multiRun ms kws = .ok ms' ↔ Pointwise kws ms ms') ∧
    multiCompute ms' = ms'.map (fun e => (e.1, metricCompute e.2)) :=
  ⟨multiRun_pointwise kws ms ms', rfl⟩

/-- `reset` after any history = `reset` of the fresh metric: nothing of the history survives -/
theorem metric_reset_forgets (m m' : Metric) (kws : List Kwargs) (h : metricRun m kws = .ok m') :
    metricReset m' = metricReset m :=
  metricRun_reset kws m m' h

private theorem pointwise_reset (kws : List Kwargs) : ∀ (ms ms' : Multi), Pointwise kws ms ms' →
    multiReset ms' = multiReset ms := by
  intro ms
  induction ms with
  | nil => intro ms' h; cases ms' with
    | nil => rfl
    | cons a b => simp [Pointwise] at h
  | cons a ms ih =>
    intro ms' h
    cases ms' with
    | nil => simp [Pointwise] at h
    | cons a' ms'' =>
      obtain ⟨n, m⟩ := a
      obtain ⟨n', m'⟩ := a'
      simp only [Pointwise] at h
      obtain ⟨rfl, h2, h3⟩ := h
      simp only [multiReset, List.map_cons, List.cons.injEq, Prod.mk.injEq, true_and]
      exact ⟨metricRun_reset kws m m' h2, ih ms'' h3⟩

theorem multimetric_reset_forgets (ms ms' : Multi) (kws : List Kwargs) (h : multiRun ms kws = .ok ms') :
    multiReset ms' = multiReset ms :=
  pointwise_reset kws ms ms' ((multiRun_pointwise kws ms ms').mp h)

/-- a missing keyword argument is a TypeError (the `argname not in kwargs` branch) -/
theorem metric_missing_argument (an : String) (s : AvgState) (w : Option WState) (kw : Kwargs)
    (h : kw.get an = none) :
    metricUpdate (.average an s) kw = .error .typeError ∧
    metricUpdate (.welford an w) kw = .error .typeError := by
  simp [metricUpdate, h]

/-! ## 5. non-vacuity: concrete instances satisfying the hypotheses above -/

section Examples

deriving instance DecidableEq for Except

/-- a stateful transformation on nested dicts: updates = grads ("ascent"), state = call counter -/
def exTx : Tx (PT Int) Nat := { init := fun _ => 0, update := fun g s _ => .ok (g, s + 1) }

def exParams : PT Int := .dict [("b", .leaf 10), ("w", .leaf 1)]
def exGrads : PT Int := .dict [("b", .leaf (-1)), ("w", .leaf 5)]
def exState : TrainState Int Nat Int := { step := 0, params := exParams, optState := 0, fields := [("apply_fn", 1), ("tag", 0)] }

-- `replace_fields_exact` / `replace_fields_unknown`
example : replaceFields [("apply_fn", (1 : Int)), ("tag", 0)] [("tag", 5)] = .ok [("apply_fn", 1), ("tag", 5)] := by decide
example : replaceFields [("apply_fn", (1 : Int)), ("tag", 0)] [("step", 5)] = .error .unknownField := by decide

-- `trainstate_step`: the hypothesis holds for an ordinary gradient tree, and the call computes p + g
example : exGrads.hasKey "_overwrite_with_gradient" = .ok false := by decide
example : (exState.applyGradients none "_overwrite_with_gradient" exTx exGrads [("tag", 7)]).toOption.map
    (fun s => (s.step, s.params.get "w" |>.toOption.map (fun t => match t with | .leaf a => a | _ => 0), s.optState, s.fields)) =
    some (1, some 6, 1, [("apply_fn", 1), ("tag", 7)]) := by decide

-- `trainstate_step_owg` / `trainstate_k_steps_owg`: an OWG-shaped gradient
def exOwgGrads : PT Int := .dict [("_overwrite_with_gradient", .dict [("s", .leaf 7)]), ("params", exGrads)]
def exOwgState : TrainState Int Nat Int :=
  { step := 0, params := .dict [("_overwrite_with_gradient", .dict [("s", .leaf 3)]), ("params", exParams)], optState := 0, fields := [] }

example : exOwgGrads.hasKey "_overwrite_with_gradient" = .ok true := by decide
example : (exOwgGrads.get "params").toOption.isSome ∧ (exOwgGrads.get "_overwrite_with_gradient").toOption.isSome ∧
    (exOwgState.params.get "params").toOption.isSome := by decide
example : (exOwgState.applyGradients none "_overwrite_with_gradient" exTx exOwgGrads []).toOption.map
    (fun s => (s.step, s.optState,
      (s.params.get "_overwrite_with_gradient").toOption.bind (fun t => (t.get "s").toOption.map (fun t => match t with | .leaf a => a | _ => 0)),
      (s.params.get "params").toOption.bind (fun t => (t.get "b").toOption.map (fun t => match t with | .leaf a => a | _ => 0)))) =
    some (1, 1, some 7, some 9) := by decide
-- missing `grads['params']`: KeyError (hypothesis of `trainstate_step_owg_keyerror`)
example : (PT.dict [("_overwrite_with_gradient", PT.leaf (1 : Int))]).get "params" = .error .keyError := by
  simp [PT.get]

/-- NNX: a structure-preserving stateful transformation (one trace-like leaf per param + a counter) -/
def exBump : OptLeaf Int → OptLeaf Int
  | .vstate i v => .vstate i (v + 1)
  | .arr c => .arr (c + 1)

def exNTx : NTx Int :=
  { init := fun p => p.map (fun e => OptLeaf.vstate e.2.info 0) ++ [.arr 0],
    update := fun g s _ => .ok (g, s.map exBump) }

example : ShapePreserving exNTx := by
  intro g s p u s' h
  simp only [exNTx, Except.ok.injEq, Prod.mk.injEq] at h
  obtain ⟨_, rfl⟩ := h
  simp only [List.map_map]
  apply List.map_congr_left
  intro l _
  cases l <;> rfl

def exParam : VarInfo := { types := ["Param", "Variable"], tag := none }
def exStat : VarInfo := { types := ["BatchStat", "Variable"], tag := some "x" }
def exSel : Path → VarInfo → Bool := fun _ i => decide ("Param" ∈ i.types)
def exModel : Model Int := [⟨["b"], exStat, 10⟩, ⟨["k"], exParam, 3⟩, ⟨["sub", "w"], exParam, 1⟩]
def exOpt : Optimizer Int := Optimizer.create exNTx exSel exModel
def exNGrads : NState Int := [(["k"], ⟨exParam, -1⟩), (["sub", "w"], ⟨exParam, 5⟩)]

example : (paths exOpt.model).Nodup := by decide
-- the hand-written step succeeds (hypothesis `hm` of `nnx_optimizer_step`) …
example : manualStep (some 32) exNTx applyUpdatesN (exOpt.abs exSel) exNGrads =
    .ok { params := [(["k"], ⟨exParam, 2⟩), (["sub", "w"], ⟨exParam, 6⟩)],
          optState := [.vstate exParam 1, .vstate exParam 1, .arr 1], step := 1 } := by decide
-- … and the in-place update does what the theorem says: BatchStat `b` untouched, step 1, no exception
example : exOpt.update (some 32) exNTx exSel exNGrads =
    ({ step := 1, model := [⟨["b"], exStat, 10⟩, ⟨["k"], exParam, 2⟩, ⟨["sub", "w"], exParam, 6⟩],
       optState := [.optVariable exParam 1, .optVariable exParam 1, .optArray 1] }, none) := by decide
-- the counter at the top of its range wraps (hypothesis-free instance of `step_increments_mod`), and `step_no_overflow` has instances
example : incStep (some 32) 4294967295 = 0 ∧ incStep (some 8) 255 = 0 ∧ incStep (some 32) 2147483647 = 2147483648 ∧ (12345 : Nat) + 1 < 2 ^ 32 := by decide
example : (({ exOpt with step := 4294967295 } : Optimizer Int).update (some 32) exNTx exSel exNGrads).1.step = 0 := by decide
-- two steps (`optimizer_k_steps_eq_manual_loop`)
example : (exOpt.run (some 32) exNTx exSel [exNGrads, exNGrads]).1.step = 2 ∧ (exOpt.run (some 32) exNTx exSel [exNGrads, exNGrads]).2 = none := by decide
-- a structurally wrong gradient: the hand-written step raises, `nnx_optimizer_error_atomic` applies
example : manualStep (some 32) exNTx applyUpdatesN (exOpt.abs exSel) [(["k"], ⟨exParam, -1⟩)] = .error .structureMismatch := by decide
example : exOpt.update (some 32) exNTx exSel [(["k"], ⟨exParam, -1⟩)] = (exOpt, some .structureMismatch) := by decide
-- a history whose second step fails (hypothesis of `optimizer_failed_history_stops_at_last_good_state`)
example : manualLoop (some 32) exNTx applyUpdatesN (exOpt.abs exSel) [exNGrads, [(["k"], ⟨exParam, -1⟩)]] = .error .structureMismatch := by decide
example : (exOpt.run (some 32) exNTx exSel [exNGrads, [(["k"], ⟨exParam, -1⟩)]]).1.step = 1 := by decide

/-- metrics -/
def exBatches : List Batch := [.array [1, 2, 3, 4], .scalar 3, .array [1, 2, 3, 5]]

example : ∀ b ∈ exBatches, b.values ≠ [] := by decide
example : welfordRun WState.init exBatches = some { count := 9, mean := 8 / 3, m2 := 14 } := by decide +kernel
example : welfordRun WState.init [.scalar 1, .array [2, 3, 4, 3, 1, 2, 3], .scalar 5] = welfordRun WState.init exBatches := by decide +kernel
example : avgRun AvgState.init (exBatches ++ [.array []]) = { total := 24, count := 9 } := by decide +kernel

def exAccBatches : List (List (List Rat) × List Int) := [([[1, 2], [3, 0]], [1, 1]), ([[0, 0]], [0])]
example : ∀ b ∈ exAccBatches, b.1.length = b.2.length ∧ ∀ r ∈ b.1, r ≠ [] := by decide
example : metricRun (.accuracy none "values" AvgState.init) (exAccBatches.map accKw) =
    .ok (.accuracy none "values" { total := 2, count := 3 }) := by decide +kernel
example : ∀ b ∈ ([([1, 0], [1, 0]), ([1 / 2], [2])] : List (List Rat × List Int)), b.1.length = b.2.length := by decide

def exMulti : Multi := [("loss", .average "values" AvgState.init), ("stats", .welford "values" (some WState.init))]
def exKws : List Kwargs := [[("values", .num (.array [1, 3]))], [("values", .num (.scalar 5))]]
-- hypothesis of `multimetric_reset_forgets` / `metric_reset_forgets`, and a satisfiable `Pointwise`
example : multiRun exMulti exKws =
    .ok [("loss", .average "values" { total := 9, count := 3 }), ("stats", .welford "values" (some { count := 3, mean := 3, m2 := 8 }))] := by
  decide +kernel
example : sinceReset [.update (.scalar 1), .reset, .update (.array [2, 4]), .update (.scalar 3)] = [.array [2, 4], .scalar 3] := by decide
example : ∀ b ∈ sinceReset [.update (.array []), .reset, .update (.array [2, 4]), .update (.scalar 3)], b.values ≠ [] := by decide
example : metricUpdate (.average "loss" AvgState.init) [("values", .num (.scalar 1))] = .error .typeError := by decide
-- an `Accuracy` built with a non-default argname always raises (it calls `Average.update(values=…)`)
example : metricUpdate (.accuracy none "acc" AvgState.init) (accKw ([[1, 2]], [1])) = .error .typeError := by decide +kernel

end Examples

end Flax.C17
