/-
C08 — NNX vmap / scan / grad match the loop, the stack and jax.grad of the functional form.
(work in progress: first theorem only)
-/
import Flax.Model.NnxLoop

namespace Flax.C08
open Flax.Filter Flax.LiftLoop Flax.NnxLoop

/-- `map_prefix` returns the axis of the first filter whose predicate holds and raises when none does -/
theorem state_axes_first_match (sa : StateAxes) (p : Path) (x : VarInfo) :
    mapPrefix sa p x =
      match sa[firstMatch (sa.map (·.1)) p x]? with
      | some fa => .ok fa.2
      | none => .error .noAxisFound := by
  induction sa with
  | nil => simp [mapPrefix, firstMatch]
  | cons fa rest ih =>
    obtain ⟨f, a⟩ := fa
    by_cases h : denote f p x = true
    · simp [mapPrefix, firstMatch, h]
    · simp [mapPrefix, firstMatch, h, ih]

end Flax.C08
