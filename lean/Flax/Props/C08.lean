/-
C08 — NNX vmap / scan / grad match the loop, the stack and jax.grad of the functional form.

Model: Flax/Model/NnxLoop.lean (StateAxes.map_prefix, extract.check_consistent_aliasing, to_tree / from_tree with a
shared ref_index / index_ref, _vmap_split_fn / VmapFn / vmap, _scan_split_in/_out, _scan_merge_in/_out, ScanFn, scan,
_check_out_axes, _check_carry_same_references, DiffState / GradFn / _grad_general transcribed).
Specification side: Flax/Proofs/NnxLoopSpec.lean — the reference computation stated per *Variable* (`VarId`), with no
paths, graphdefs, states, deques or merges: `vmapSpecN` (one call per index on the per-Variable slices; every Variable
left with its per-index values put together along its axis; results put together along the out axes).
Helper lemmas live in Flax/Proofs/NnxLoop*.lean; this file holds the property's theorems.

Named assumptions (DESIGN.md §5): A-VMAP (`jax.vmap` = one call per index, results stacked, `None` results unbatched —
the verdict of that check is an input), A-SCAN (`laxScanX`), A-CONV (`Arr.take/stack/toFront/fromFront`), A-AD (`AD`),
A-RNG (C09).  C04 refinement taken as a named hypothesis: the outer `from_tree` writes the returned states into the
caller's Variables by identity (`updateStore`).
-/
import Flax.Model.NnxLoop
import Flax.Proofs.NnxLoopVmapTop
import Flax.Proofs.NnxLoopReject
import Flax.Proofs.NnxLoopGrad
import Flax.Proofs.NnxLoopScanTop
import Flax.Proofs.NnxLoopVmapConv
import Flax.Proofs.NnxLoopVmapIff
import Flax.Proofs.NnxLoopScanComplete
import Flax.Proofs.LiftLoopAxes
import Flax.Proofs.LiftLoopArr
import Flax.Props.C14
import Flax.Props.C09

namespace Flax.C08
open Flax.Filter Flax.NnxLoop
open Flax.LiftLoop (Arr takeAt stackAt normAxis)

/-! ## 1. `StateAxes.map_prefix`: first match -/

/-- **`state_axes_first_match`.**  For every `StateAxes`, path and Variable: `map_prefix` returns the axis of the first
filter whose predicate holds (`firstMatch` is C14's index of the first matching predicate) and raises when none does. -/
theorem state_axes_first_match (sa : StateAxes) (p : Path) (x : VarInfo) :
    mapPrefix sa p x =
      match sa[firstMatch (sa.map (·.1)) p x]? with
      | some fa => .ok fa.2
      | none => .error .noAxisFound :=
  mapPrefix_eq sa p x

/-- … so the axis is defined exactly when some filter matches, and it is the axis paired with the *first* matching
filter: no earlier filter holds (C14 `firstMatch_spec`) -/
theorem state_axes_first_match_spec (sa : StateAxes) (p : Path) (x : VarInfo) (a : Ax)
    (h : mapPrefix sa p x = .ok a) :
    ∃ f, sa[firstMatch (sa.map (·.1)) p x]? = some (f, a) ∧ denote f p x = true ∧
      ∀ j, j < firstMatch (sa.map (·.1)) p x → ∀ g b, sa[j]? = some (g, b) → denote g p x = false := by
  rw [mapPrefix_eq] at h
  cases hs : sa[firstMatch (sa.map (·.1)) p x]? with
  | none => rw [hs] at h; cases h
  | some fa =>
    rw [hs] at h
    injection h with h
    obtain ⟨f, a'⟩ := fa
    simp only [] at h
    subst h
    have hsp := Flax.C14.firstMatch_spec (sa.map (·.1)) p x
    refine ⟨f, rfl, ?_, ?_⟩
    · exact hsp.2 f (by rw [List.getElem?_map, hs]; rfl)
    · intro j hj g b hg
      exact hsp.1 j hj g (by rw [List.getElem?_map, hg]; rfl)

/-- **Every Variable of an argument is routed to exactly one state**, the one of its first matching filter, whose
axis is what `map_prefix` answers for it (`ctx.split(x, *prefix.filters)` zipped with `prefix.axes`). -/
theorem state_axes_partition {α : Type} (p : Prefix) (flat : Flat α) (sts : List (State α))
    (h : splitFlat p flat = .ok sts) :
    sts.length = p.axes.length ∧
    (∀ x ∈ flat, ∃ s, sts[groupIdx p x.1 x.2.1]? = some s ∧ (x.1, x.2.2) ∈ s ∧
      axAt p x.1 x.2.1 = p.axes[groupIdx p x.1 x.2.1]?) ∧
    (∀ g s, sts[g]? = some s → ∀ pv ∈ s, ∃ x ∈ flat, pv = (x.1, x.2.2) ∧ groupIdx p x.1 x.2.1 = g) := by
  obtain ⟨hl, hmem, hlt⟩ := splitFlat_spec h
  refine ⟨hl, ?_, ?_⟩
  · intro x hx
    have hg := hlt x hx
    exact ⟨_, List.getElem?_eq_getElem hg, (hmem _ _ (List.getElem?_eq_getElem hg) _).2 ⟨x, hx, rfl, rfl⟩, rfl⟩
  · intro g s hs pv hpv
    exact (hmem g s hs pv).1 hpv

example : optX (mapPrefix [(.ofType "Param", .axis 0), (.pathContains "b", .bcast), (.everything, .carry)]
    ["m", "b"] ⟨["BatchStat", "Variable"], none⟩) = some .bcast := by decide
example : optX (mapPrefix [(.ofType "Param", .axis 0)] ["m", "b"] ⟨["BatchStat", "Variable"], none⟩) = none := by
  decide

/-! ## 2. aliasing under different axis specifications is rejected -/

/-- what `check_consistent_aliasing` decides: no Variable with two different prefixes -/
theorem consistent_iff_no_two_axes (np : NodePrefixes) :
    consistent np = true ↔ ∀ x ∈ np, ∀ y ∈ np, x.1 = y.1 → x.2 = y.2 :=
  consistent_iff np

/-- **`inconsistent_aliasing_rejected`** (vmap).  For all arguments, prefixes, functions: if every occurrence of every
Variable gets an axis but two occurrences of one Variable — in one argument under two paths, or in two arguments —
get different ones, `nnx.vmap` raises `InconsistentAliasing`, whatever the function: nothing is traced, nothing written. -/
theorem inconsistent_aliasing_rejected {α : Type} [Inhabited α] (inAxes outAxes : AxesSpec) (axisSize : Option Nat)
    (verdict : Bool) (args : List (Arg α)) (store : Store α) (ps : List Prefix) (npF : NodePrefixes)
    (hok : (inAxes.isBareStateAxes || inAxes.hasCarry || outAxes.hasCarry) = false)
    (hps : inAxes.expand args.length = .ok ps)
    (h : allPrefixes (ps.zip args) [] = .ok npF)
    (x y : VarId × Ax) (hx : x ∈ npF) (hy : y ∈ npF) (hid : x.1 = y.1) (hne : x.2 ≠ y.2)
    (hst : ∀ pa ∈ ps.zip args, ∀ es, pa.2 = .node es → ∀ e ∈ es, (store.lookup e.id).isSome) :
    ∀ body : Body α, nnxVmap inAxes outAxes axisSize verdict body args store = .error .inconsistentAliasing := by
  intro body
  have hnc : consistent npF = false := by
    cases hc : consistent npF with
    | false => rfl
    | true => exact absurd ((consistent_iff npF).1 hc x hx y hy hid) hne
  exact nnxVmap_inconsistent inAxes outAxes axisSize verdict body args store ps npF hok hps h hnc hst

/-- conversely, whenever `to_tree` goes through, all occurrences of every Variable agree: it is then treated as one
object (one entry of the `index_ref`, one value seen by the function — `vmap_call_sees_slices`) -/
theorem accepted_aliasing_is_consistent {α : Type} (store : Store α) (pas : List (Prefix × Arg α))
    (pure : List (PureArg α)) (h : toTree store pas [] [] = .ok pure) :
    ∃ npF, allPrefixes pas [] = .ok npF ∧ ∀ x ∈ npF, ∀ y ∈ npF, x.1 = y.1 → x.2 = y.2 := by
  obtain ⟨npF, h1, h2⟩ := toTree_ok_consistent store pas [] [] pure rfl h
  exact ⟨npF, h1, (consistent_iff npF).1 h2⟩

/-- the error of a result, if it is one -/
def errOf {β : Type} (r : Except Err β) : Option Err :=
  match r with
  | .error e => some e
  | .ok _ => none

/-- non-vacuity: one Variable (id 7) under `x/v` and `y/v` of one argument, `PathContains('x') ↦ 0`, everything else
`None` (the `within-arg` experiment on the real code raises the same error) -/
example : errOf (toTree (α := Int) [(7, ⟨[3], [([0], 1), ([1], 2), ([2], 3)]⟩)]
    [(.sa [(.pathContains "x", .axis 0), (.everything, .bcast)],
      .node [⟨["x", "v"], 7, ⟨["Param"], none⟩⟩, ⟨["y", "v"], 7, ⟨["Param"], none⟩⟩])] [] [])
    = some .inconsistentAliasing := by decide

/-! ## 3. `nnx.vmap` = one call per index on the slices, results and state stacked -/

/-- **What every index sees** (`to_tree` → per-state slicing → inner `from_tree`).  For every store, argument list
with Variables shared in any way, prefix per argument, index `i`: the traced function is called on exactly one value
per reachable Variable, in first-occurrence order — `take(value, i, axis)` if the first matching filter of its
argument's prefix gives an axis, the value itself if it gives `None` — and on the array arguments sliced likewise. -/
theorem vmap_call_sees_slices {α : Type} [Inhabited α] (store : Store α) (i : Nat) (pas : List (Prefix × Arg α))
    (pure sl : List (PureArg α)) (hwf : WFArgs pas) (ht : toTree store pas [] [] = .ok pure)
    (hs : mapX (sliceArg i) pure = .ok sl) :
    ∃ ins, mapX (sliceEntry store i) (ownedAll pas []) = .ok ins ∧ mergeAll sl [] = .ok ins ∧
      mapX (sliceArr i) (arrArgs pas) = .ok (arraysOf sl) := by
  obtain ⟨ins, h1, h2, h3⟩ := Flax.NnxLoop.vmap_call_sees_slices store i pas [] [] pure sl [] hwf ht hs rfl
  exact ⟨ins, h1, by simpa using h2, h3⟩

/-- **`vmap_eq_per_index`.**  For every function, store, argument list (aliasing included), `in_axes` / `out_axes`
(single entries or tuples of ints, `None`, `StateAxes` of arbitrary filters), `axis_size` and verdict of jax's
unbatchedness check: whenever `nnx.vmap` returns, the per-index reference `vmapSpecN` is defined for `n ≥ 1` indices
— `n` being the size of *every* mapped Variable and mapped array argument along its axis, and `axis_size` if given —
and returns the same final store and the same results.  `vmapSpecN`: index `i` is `f` on the per-Variable slices;
afterwards every Variable with an axis holds `jnp.stack` of its per-index values along that axis, every `None`
Variable the shared (index-0) value; array results are stacked along their out axis (`None`: the unbatched value), fresh
graph nodes Variable by Variable under the out prefix's first matching filter.

Hypotheses: `hwf` — paths inside one graph node are distinct; `houts` — what a single trace guarantees about results
(at every result position all indices return the same kind of thing, fresh nodes with the same Variables and distinct
paths). -/
theorem vmap_eq_per_index {α : Type} [Inhabited α] {inAxes outAxes : AxesSpec} {axisSize : Option Nat}
    {verdict : Bool} {body : Body α} {args : List (Arg α)} {store : Store α} {res : Store α × List (Out α)}
    (h : nnxVmap inAxes outAxes axisSize verdict body args store = .ok res)
    (hwf : ∀ ps, inAxes.expand args.length = .ok ps → WFArgs (ps.zip args))
    (houts : ∀ ps n calls, inAxes.expand args.length = .ok ps →
      mapX (vmapCall body store (ps.zip args)) (List.range n) = .ok calls →
      ∀ k col, column k (calls.map (·.2)) = .ok col → OutColWF col) :
    ∃ ps n, inAxes.expand args.length = .ok ps ∧ 0 < n ∧ verdict = true ∧
      inAxes.hasCarry = false ∧ outAxes.hasCarry = false ∧
      ((∀ ep ∈ ownedAll (ps.zip args) [], ∀ k, ep.2.at ep.1 = .ok (.axis k) →
          ∃ v, store.lookup ep.1.id = some v ∧ Flax.LiftLoop.dimAt k v = .ok n) ∧
        (∀ pa ∈ arrArgs (ps.zip args), ∀ k, pa.1 = .ax (.axis k) → Flax.LiftLoop.dimAt k pa.2 = .ok n) ∧
        (∀ m, axisSize = some m → m = n)) ∧
      vmapSpecN n outAxes body (ps.zip args) store = .ok res :=
  nnxVmap_sound h hwf houts

/-! ### towards the converse: when does `nnx.vmap` reject? -/

/-- **`to_tree` accepts exactly consistent aliasing.**  With a store holding every Variable: `to_tree` returns iff every
occurrence of every Variable gets an axis from its argument's prefix (`allPrefixes` defined: no `No axis found`) and
all occurrences of each Variable agree.  (→ is `accepted_aliasing_is_consistent`, ← is new: no spurious rejection.) -/
theorem to_tree_accepts_iff {α : Type} [Inhabited α] (store : Store α) (pas : List (Prefix × Arg α))
    (hst : ∀ pa ∈ pas, ∀ es, pa.2 = .node es → ∀ e ∈ es, (store.lookup e.id).isSome) :
    (∃ pure, toTree store pas [] [] = .ok pure) ↔
      ∃ npF, allPrefixes pas [] = .ok npF ∧ consistent npF = true := by
  constructor
  · rintro ⟨pure, h⟩
    exact toTree_ok_consistent store pas [] [] pure rfl h
  · rintro ⟨npF, h1, h2⟩
    exact toTree_complete store pas [] [] npF h1 h2 hst

/-- **No rejection before the calls.**  If the aliasing is consistent and, for index `i`, the reference values
(`sliceEntry` of every reachable Variable, `sliceArr` of every array argument) are defined, then `to_tree` and
jax.vmap's slicing succeed and the traced function *is* called at index `i` — on exactly those values.

What can still make `nnx.vmap` reject after the calls, and is not proved to coincide with the reference being
undefined: the function failing or dropping a Variable at some index; `out_axes` not matching the results (arity, no
axis for a Variable of a fresh node, `StateAxes` on an array); jax's unbatchedness verdict for `None` state / results;
`jnp.stack` refusing per-index values of different shapes; the common-size check of the mapped leaves.  Each of these
makes `vmapSpecN` undefined too (it uses the same `body`, `splitOut`-free `collectOut`, `collectVal`), but the
equivalence is only established by the correspondence run. -/
theorem vmap_no_rejection_before_calls {α : Type} [Inhabited α] (store : Store α) (pas : List (Prefix × Arg α))
    (npF : NodePrefixes) (hwf : WFArgs pas) (h1 : allPrefixes pas [] = .ok npF) (h2 : consistent npF = true)
    (hst : ∀ pa ∈ pas, ∀ es, pa.2 = .node es → ∀ e ∈ es, (store.lookup e.id).isSome)
    (i : Nat) (ins : Store α) (arrs : List (Arr α))
    (hins : mapX (sliceEntry store i) (ownedAll pas []) = .ok ins)
    (harrs : mapX (sliceArr i) (arrArgs pas) = .ok arrs) :
    ∃ pure sl, toTree store pas [] [] = .ok pure ∧ mapX (sliceArg i) pure = .ok sl ∧
      mergeAll sl [] = .ok ins ∧ arraysOf sl = arrs := by
  obtain ⟨pure, hp⟩ := toTree_complete store pas [] [] npF h1 h2 hst
  obtain ⟨sl, hsl⟩ := sliceArg_complete store i pas [] [] pure ins arrs hp hins harrs
  obtain ⟨ins', e1, e2, e3⟩ := Flax.NnxLoop.vmap_call_sees_slices store i pas [] [] pure sl [] hwf hp hsl rfl
  rw [hins] at e1
  injection e1 with e1
  rw [harrs] at e3
  injection e3 with e3
  exact ⟨pure, sl, hp, hsl, by simpa [e1] using e2, e3.symm⟩

/-- **`vmap_rejects_iff` (acceptance form).**  For every function, store, arguments, axes, `axis_size`, verdict: the model
of `nnx.vmap` returns **iff** `VmapAccepts` (Proofs/NnxLoopVmapIff.lean):
no `Carry` and no bare `StateAxes` in the axes specifications (jax.vmap's own TypeError); a positive unbatchedness verdict;
`in_axes` matching the arguments; every occurrence of every Variable given an axis (`No axis found` otherwise) and all
occurrences of one Variable the same axis (`Inconsistent aliasing` otherwise); every mapped Variable and array argument
of one size `n` along its axis, `axis_size = n` if given and something mapped if not (jax's size complaints otherwise);
and the per-index reference `vmapSpecN n` defined — the function total on the per-Variable slices at every index and
leaving every Variable a value, `out_axes` matching the results (arity, an axis for every Variable of a fresh node, no
`StateAxes` on an array), `jnp.stack` accepting the per-index values.  So `nnx.vmap` never rejects a call on which the
reference is defined and sizes / verdict are right, and whenever it accepts it returns the reference's result
(`vmap_eq_per_index`).  `huni`: what a single trace guarantees (all indices return equally many results, of the same
kinds, fresh nodes with the same Variables and distinct paths). -/
theorem vmap_accepts_iff {α : Type} [Inhabited α] {inAxes outAxes : AxesSpec} {axisSize : Option Nat} {verdict : Bool}
    {body : Body α} {args : List (Arg α)} {store : Store α}
    (hwf : ∀ ps, inAxes.expand args.length = .ok ps → WFArgs (ps.zip args))
    (huni : ∀ ps n calls, inAxes.expand args.length = .ok ps →
      mapX (vmapCall body store (ps.zip args)) (List.range n) = .ok calls → TraceUniform calls) :
    (∃ res, nnxVmap inAxes outAxes axisSize verdict body args store = .ok res) ↔
      VmapAccepts inAxes outAxes axisSize verdict body args store :=
  nnxVmap_accepts_iff hwf huni

/-- **`vmap_rejects_iff`.**  The model of `nnx.vmap` raises **iff** one of the conditions of `VmapAccepts` fails. -/
theorem vmap_rejects_iff {α : Type} [Inhabited α] {inAxes outAxes : AxesSpec} {axisSize : Option Nat} {verdict : Bool}
    {body : Body α} {args : List (Arg α)} {store : Store α}
    (hwf : ∀ ps, inAxes.expand args.length = .ok ps → WFArgs (ps.zip args))
    (huni : ∀ ps n calls, inAxes.expand args.length = .ok ps →
      mapX (vmapCall body store (ps.zip args)) (List.range n) = .ok calls → TraceUniform calls) :
    (∃ e, nnxVmap inAxes outAxes axisSize verdict body args store = .error e) ↔
      ¬ VmapAccepts inAxes outAxes axisSize verdict body args store :=
  nnxVmap_rejects_iff hwf huni

/-- the converse on its own, with the hypotheses spelled out: a defined reference is never rejected -/
theorem vmap_no_spurious_rejection {α : Type} [Inhabited α] {inAxes outAxes : AxesSpec} {axisSize : Option Nat}
    {body : Body α} {args : List (Arg α)} {store : Store α} {ps : List Prefix} {npF : NodePrefixes} {n : Nat}
    {res : Store α × List (Out α)}
    (hok : (inAxes.isBareStateAxes || inAxes.hasCarry || outAxes.hasCarry) = false)
    (hps : inAxes.expand args.length = .ok ps) (hal : allPrefixes (ps.zip args) [] = .ok npF)
    (hcons : consistent npF = true) (hwf : WFArgs (ps.zip args))
    (hsz1 : ∀ ep ∈ ownedAll (ps.zip args) [], ∀ k, ep.2.at ep.1 = .ok (.axis k) →
      ∃ v, store.lookup ep.1.id = some v ∧ Flax.LiftLoop.dimAt k v = .ok n)
    (hsz2 : ∀ pa ∈ arrArgs (ps.zip args), ∀ k, pa.1 = .ax (.axis k) → Flax.LiftLoop.dimAt k pa.2 = .ok n)
    (hsz3 : ∀ m, axisSize = some m → m = n) (hsz4 : axisSize = none → HasMapped (ps.zip args) [])
    (hspec : vmapSpecN n outAxes body (ps.zip args) store = .ok res)
    (huni : ∀ calls, mapX (vmapCall body store (ps.zip args)) (List.range n) = .ok calls → TraceUniform calls) :
    ∃ res', nnxVmap inAxes outAxes axisSize true body args store = .ok res' :=
  nnxVmap_complete hok hps hal hcons hwf hsz1 hsz2 hsz3 hsz4 hspec huni

/-- state side of the above on its own: the caller's Variables end as `collectVal axis [per-index values]`, written
in first-occurrence order; Variables not reachable from the arguments are untouched (`writeAll` only sets) -/
theorem vmap_state_is_stack_of_updates {α : Type} [Inhabited α] (store0 : Store α) (pas : List (Prefix × Arg α))
    (pure : List (PureArg α)) (hwf : WFArgs pas) (ht : toTree store0 pas [] [] = .ok pure)
    (a0 : Store α) (arest : List (Store α)) (rows : List (List (List (State α))))
    (hrows : mapX (fun st => mapX (splitArgOut st) pure) (a0 :: arest) = .ok rows)
    (store store' : Store α) (hwb : vmapWriteBack rows pure store = .ok store') :
    ∃ vals, mapX (collectEntry (a0 :: arest)) (ownedAll pas []) = .ok vals ∧ store' = writeAll vals store :=
  vmap_write_back store0 pas [] [] pure hwf ht a0 arest rows hrows store store' hwb

/-- the `None` case of `collectVal`: shared state is the (index-independent) value the calls left, not a stack -/
theorem vmap_none_is_shared {α : Type} [Inhabited α] (v0 : Arr α) (vs : List (Arr α)) :
    collectVal .bcast (v0 :: vs) = .ok v0 := rfl

/-- and the axis case is `jnp.stack` along the declared (possibly negative) axis, whose `i`-th slice is the value index
`i` left (C06 `stack_slice`): slicing on the way in and stacking on the way out are mutually inverse -/
theorem vmap_axis_is_stack {α : Type} [Inhabited α] [DecidableEq α] (k : Int) (v0 : Arr α) (vs : List (Arr α))
    (S : Arr α) (h : collectVal (.axis k) (v0 :: vs) = .ok S) (hwf : ∀ y ∈ v0 :: vs, Arr.WF y = true)
    (i : Nat) (hi : i < (v0 :: vs).length) : sliceVal i (.axis k) S = .ok (v0 :: vs)[i] := by
  simp only [collectVal] at h
  have h' : stackAt k v0.shape (v0 :: vs) = .ok S := liftL_ok.1 h
  unfold stackAt at h'
  cases hn : normAxis (v0.shape.length + 1) k with
  | none => simp [hn] at h'
  | some n =>
    simp only [hn] at h'
    have hrank : S.rank = v0.shape.length + 1 := by
      have hle : n ≤ v0.shape.length := by have := Flax.LiftLoop.normAxis_lt hn; omega
      simp only [Arr.stack] at h'
      split at h'
      · injection h' with h'; subst h'; simp [Arr.rank, List.length_insertIdx, hle]
      · cases h'
    simp only [sliceVal, takeAt, hrank, hn]
    rw [Flax.LiftLoop.Arr.take_stack v0.shape n (v0 :: vs) S h' hwf i hi]
    rfl

/-! non-vacuity: one graph node with a Param mapped along axis 0 and a shared BatchStat, plus a mapped array;
`f(m, x): m.w += x; m.c += 1; return sum(m.w)` as a finite function -/

def exVec (l : List Int) : Arr Int := Arr.ofFn [l.length] (fun i => l.getD (i.getD 0 0) 0)
def exScalar (v : Int) : Arr Int := Arr.ofFn [] (fun _ => v)

def exArgs : List (Arg Int) :=
  [.node [⟨["c"], 1, ⟨["BatchStat", "Variable"], none⟩⟩, ⟨["w"], 0, ⟨["Param", "Variable"], none⟩⟩], .arr (exVec [5, 7])]

def exIn : AxesSpec := .perArg [.sa [(.ofType "Param", .axis 0), (.everything, .bcast)], .ax (.axis 0)]

def exStore : Store Int := [(0, exVec [10, 20]), (1, exScalar 3)]

def exBody : Body Int := fun st arrs =>
  match st, arrs with
  | [(1, c), (0, w)], [x] =>
    .ok ([(1, exScalar (c.getD [] + 1)), (0, exScalar (w.getD [] + x.getD []))], [.arr (exScalar (w.getD [] + x.getD []))])
  | _, _ => .error (.body "KeyError")

/-- observable part of a result: the store and the array results -/
def exView (r : Except Err (Store Int × List (Out Int))) : Option (Store Int × List (Option (Arr Int))) :=
  (optX r).map (fun x => (x.1, x.2.map (fun o => match o with | .arr a => some a | _ => none)))

example : exView (nnxVmap exIn (.uniform (.ax (.axis 0))) none true exBody exArgs exStore)
    = some ([(0, exVec [15, 27]), (1, exScalar 4)], [some (exVec [15, 27])]) := by decide

example : exView (vmapSpecN 2 (.uniform (.ax (.axis 0))) exBody
    ([Prefix.sa [(.ofType "Param", .axis 0), (.everything, .bcast)], .ax (.axis 0)].zip exArgs) exStore)
    = some ([(0, exVec [15, 27]), (1, exScalar 4)], [some (exVec [15, 27])]) := by decide

/-! both sides of `vmap_rejects_iff` are inhabited: the example call above is accepted; the same call is rejected with a
negative unbatchedness verdict, with a size mismatch (`axis_size = 3` against leaves of size 2), with `Carry` in
`in_axes`, and with an `out_axes` tuple of the wrong length -/
example : errOf (nnxVmap exIn (.uniform (.ax (.axis 0))) none false exBody exArgs exStore)
    = some .unbatchedOutExpected := by decide
example : errOf (nnxVmap exIn (.uniform (.ax (.axis 0))) (some 3) true exBody exArgs exStore)
    = some (.lax .leadingAxisMismatch) := by decide
example : errOf (nnxVmap (.perArg [.sa [(.everything, .carry)], .ax (.axis 0)]) (.uniform (.ax (.axis 0))) none true
    exBody exArgs exStore) = some .invalidAxes := by decide
example : errOf (nnxVmap exIn (.perArg [.ax (.axis 0), .ax (.axis 0)]) none true exBody exArgs exStore)
    = some .prefixArity := by decide

/-! ## 4. `nnx.scan`: the set-up checks -/

/-- **`scan_out_axes_rejected`.**  `_check_out_axes` lets an `out_axes` through exactly when no entry is `None` and no
`StateAxes` entry maps a filter to `None` or `Carry`; otherwise `nnx.scan(f, …)` raises (`Cannot broadcast output
state` / `Cannot carry output state`) when it is built — whatever `in_axes`, function, arguments. -/
theorem scan_out_axes_rejected (outAxes : AxesSpec) :
    (checkOutAxes outAxes = .ok () ↔
      match outAxes with
      | .uniform p => p.okOut
      | .perArg ps => ∀ p ∈ ps, p.okOut) ∧
    (∀ e, checkOutAxes outAxes = .error e → (e = .outAxesBroadcast ∨ e = .outAxesCarry) ∧
      ∀ {α : Type} [Inhabited α] (inAxes : AxesSpec) (length : Option Nat) (reverse : Bool) (nOuts : Nat)
        (body : Body α) (args : List (Arg α)) (store : Store α),
        nnxScan inAxes outAxes length reverse nOuts body args store = .error e) := by
  constructor
  · cases outAxes with
    | uniform p => exact prefix_outOk_iff p
    | perArg ps => exact prefixesOutOk_iff ps
  · intro e he
    constructor
    · cases outAxes with
      | uniform p => exact prefix_outOk_error he
      | perArg ps => exact prefixesOutOk_error he
    · intro α _ inAxes length reverse nOuts body args store
      simp [nnxScan, scanSetup, he]

example : checkOutAxes (.perArg [.ax .carry, .ax .bcast]) = .error .outAxesBroadcast := rfl
example : checkOutAxes (.perArg [.ax .carry, .sa [(.ofType "Param", .axis 0), (.everything, .carry)]])
    = .error .outAxesCarry := rfl
example : checkOutAxes (.perArg [.ax .carry, .sa [(.ofType "Param", .axis 0), (.everything, .axis 1)]]) = .ok () := rfl

/-- **carry references must be the same objects.**  `_check_carry_same_references` accepts exactly: no carry and
nothing returned for it; an array carry and an array returned; a graph-node carry and *that very argument* returned.
A fresh graph node, another argument, or an array where a node is carried raises `carryRefs`. -/
theorem scan_carry_refs_checked {α : Type} (ca : CarryArg) (o : Option (Out α)) :
    (∃ r, checkCarryRefs ca o = .ok r) ↔
      (ca = .none ∧ o = none) ∨ (ca = .array ∧ ∃ a, o = some (.arr a)) ∨ (∃ k, ca = .node k ∧ o = some (.argRef k)) := by
  cases ca with
  | none =>
    cases o with
    | none => simp [checkCarryRefs]
    | some x => simp [checkCarryRefs]
  | array =>
    cases o with
    | none => simp [checkCarryRefs]
    | some x => cases x <;> simp [checkCarryRefs]
  | node k =>
    cases o with
    | none => simp [checkCarryRefs]
    | some x =>
      cases x with
      | arr a => simp [checkCarryRefs]
      | node vs => simp [checkCarryRefs]
      | argRef j =>
        simp only [checkCarryRefs]
        by_cases hkj : k = j
        · subst hkj; simp
        · simp [hkj]
          intro h; exact hkj h.symm

/-! ## 4b. `nnx.scan` = the Python loop -/

/-- `moveaxis(x, axis, 0)` before the loop and the leading-axis slice inside it give `take(x, i, axis)`; stacking along 0
and `moveaxis(x, 0, axis)` afterwards is stacking along `axis` — the two transposes are mutually inverse (C06
`transpose_front_inverse`, here on the leaves `nnx.scan` moves) -/
theorem scan_moveaxis_slice_stack {α : Type} [Inhabited α] (k : Int) :
    (∀ (a F : Arr α) (i : Nat), Arr.toFront k a = .ok F → F.take 0 i = takeAt k i a) ∧
    (∀ (sh : List Nat) (ls : List (Arr α)),
      Flax.LiftLoop.opt (Flax.LiftLoop.stackFront k sh ls) = Flax.LiftLoop.opt (stackAt k sh ls)) :=
  ⟨fun a F i h => Flax.LiftLoop.take_front_eq a F k h i, fun sh ls => Flax.LiftLoop.stackFront_opt k sh ls⟩

/-- **`moveaxis_inv`.**  The two `moveaxis` calls of `nnx.scan` are mutually inverse, for every rank and every axis in
`[-rank, rank)` — in particular axes `≥ 2` on rank `≥ 3` and negative axes, where `moveaxis(x, 0, k)` and
`moveaxis(x, k, 0)` differ.  Stated on what scan does with them: stack per-iteration values `ls` along 0 and
`moveaxis(·, 0, k)` (the way out: `stackFront`), then `moveaxis(·, k, 0)` (the way in: `toFront`) and take the leading
slice `i` — the result is `ls[i]` again; and the same array is `jnp.stack(ls, axis=k)`, whose slice `i` along `k` is
`ls[i]`.  (Axis arithmetic of the two permutations: C06 `transpose_front_inverse`.) -/
theorem moveaxis_inv {α : Type} [Inhabited α] [DecidableEq α] (k : Int) (sh : List Nat) (ls : List (Arr α))
    (S F : Arr α) (hout : Flax.LiftLoop.stackFront k sh ls = .ok S) (hin : Arr.toFront k S = .ok F)
    (hwf : ∀ y ∈ ls, Arr.WF y = true) (i : Nat) (hi : i < ls.length) :
    F.take 0 i = .ok ls[i] ∧ takeAt k i S = .ok ls[i] ∧ stackAt k sh ls = .ok S := by
  have hS : stackAt k sh ls = .ok S := by
    have h1 : Flax.LiftLoop.opt (Flax.LiftLoop.stackFront k sh ls) = some S := by rw [hout]; rfl
    rw [Flax.LiftLoop.stackFront_opt] at h1
    exact Flax.LiftLoop.opt_eq_some.1 h1
  have hslice : takeAt k i S = .ok ls[i] := by
    have hS' := hS
    unfold stackAt at hS'
    cases hn : normAxis (sh.length + 1) k with
    | none => simp [hn] at hS'
    | some n =>
      simp only [hn] at hS'
      have hrank : S.rank = sh.length + 1 := by
        have hle : n ≤ sh.length := by have := Flax.LiftLoop.normAxis_lt hn; omega
        simp only [Arr.stack] at hS'
        split at hS'
        · injection hS' with hS'; subst hS'; simp [Arr.rank, List.length_insertIdx, hle]
        · cases hS'
      simp only [takeAt, hrank, hn]
      exact Flax.LiftLoop.Arr.take_stack sh n ls S hS' hwf i hi
  exact ⟨by rw [Flax.LiftLoop.take_front_eq S F k hin i]; exact hslice, hslice, hS⟩

/-- the shape side of `moveaxis_inv`, both ways round, for every axis in `[-rank, rank)` (C06) -/
theorem moveaxis_inv_axes {β : Type} (xs : List β) (k : Int) (hlo : -(xs.length : Int) ≤ k) (hhi : k < xs.length) :
    (Flax.LiftLoop.axesToFront k xs >>= Flax.LiftLoop.axesFromFront k) = .ok xs ∧
    (Flax.LiftLoop.axesFromFront k xs >>= Flax.LiftLoop.axesToFront k) = .ok xs := by
  obtain ⟨n, hn⟩ := Flax.LiftLoop.normAxis_isSome hlo hhi
  obtain ⟨hlt, hto⟩ := Flax.LiftLoop.axesToFront_eq xs k n hn
  constructor
  · rw [hto]
    have hlen : (xs.eraseIdx n).length + 1 = xs.length := by
      rw [List.length_eraseIdx]; simp [hlt]; omega
    have := Flax.LiftLoop.axesFromFront_eq xs[n] (xs.eraseIdx n) k n (by rw [hlen]; exact hn)
    simp only [bind, Except.bind, this]
    congr 1
    exact Flax.LiftLoop.insertIdx_eraseIdx_self xs n hlt
  · cases xs with
    | nil => simp at hlt
    | cons y rest =>
      have hf := Flax.LiftLoop.axesFromFront_eq y rest k n (by simpa using hn)
      simp only [bind, Except.bind, hf]
      have hlen : (rest.insertIdx n y).length = (y :: rest).length := by
        rw [List.length_insertIdx]; simp at hlt ⊢; omega
      obtain ⟨hlt', hto'⟩ := Flax.LiftLoop.axesToFront_eq (rest.insertIdx n y) k n (by rw [hlen]; exact hn)
      rw [hto']
      congr 1
      rw [List.getElem_insertIdx_self, List.eraseIdx_insertIdx_self]

/-! non-vacuity on rank 3: axis 2 and axis −1 (where the two directions of `moveaxis` differ), three iterations of
shape `[2, 1]` stacked to `[2, 1, 3]`; and the swapped direction (the seeded change) gives another array -/
def exRows : List (Arr Int) :=
  [Arr.ofFn [2, 1] (fun i => (i.getD 0 0 : Int)), Arr.ofFn [2, 1] (fun i => 10 + (i.getD 0 0 : Int)),
   Arr.ofFn [2, 1] (fun i => 20 + (i.getD 0 0 : Int))]

example : (Flax.LiftLoop.stackFront 2 [2, 1] exRows).toOption.map (·.shape) = some [2, 1, 3] := by decide
example : (Flax.LiftLoop.stackFront 2 [2, 1] exRows).toOption = (stackAt (-1) [2, 1] exRows).toOption := by decide
example : ((Flax.LiftLoop.stackFront 2 [2, 1] exRows >>= Arr.toFront 2) >>= (fun F => F.take 0 1)).toOption
    = exRows[1]? := by decide
example : ((Flax.LiftLoop.stackFront (-1) [2, 1] exRows >>= Arr.toFront (-1)) >>= (fun F => F.take 0 2)).toOption
    = exRows[2]? := by decide
/-- `moveaxis(x, 2, 0)` on the way out instead of `moveaxis(x, 0, 2)`: a different shape -/
example : ((Arr.stack [2, 1] 0 exRows) >>= Arr.toFront 2).toOption.map (·.shape) = some [1, 3, 2] := by decide

/-- **What every iteration sees** (`_scan_split_in` → `lax.scan` slice → `_scan_merge_in`, three routes, three deques
popped in argument order).  For every store, arguments with any aliasing, prefixes (ints, `None`, `Carry`, `StateAxes`),
iteration index `i`, values `cur` left by the iteration processed before and array carry `carr`: the traced function is
called on exactly one value per reachable Variable, in first-occurrence order — `take(original, i, axis)` for an axis,
the *original* value for `None` (broadcast state is shared and constant), `cur`'s value for `Carry` — and on the array
arguments sliced / carried / broadcast. -/
theorem scan_iteration_sees {α : Type} [Inhabited α] (store cur : Store α) (i : Nat) (carr : Option (Arr α))
    (pas : List (Prefix × Arg α)) (si : ScanIn α) (xs : List (SPure α))
    (parts : List (Option (List (State α) × List (State α))))
    (hwf : WFArgs pas) (hs : scanSplitIn store pas [] [] = .ok si) (hx : mapX (spureAt i) si.pure = .ok xs)
    (hp : mapX (scanSplitArgOut cur) si.pure = .ok parts) :
    ∃ ins arrs, mapX (scanEntryIn store cur i) (ownedAll pas []) = .ok ins ∧
      mapX (scanArrIn carr i) (arrArgs pas) = .ok arrs ∧
      scanMergeIn xs ((parts.filterMap id).map (·.2)) si.bcastDeque si.bcastArrays carr [] = .ok (ins, arrs) := by
  obtain ⟨ins, arrs, h1, h2, h3⟩ :=
    Flax.NnxLoop.scan_iteration_sees store cur i carr pas [] [] si xs parts [] hwf hs hx hp rfl
  exact ⟨ins, arrs, h1, h2, by simpa using h3⟩

/-- **broadcast leaves are consumed first-in first-out.**  `_scan_split_in` appends the `in_axes=None` non-graph leaves to
`broadcast_arrays` in argument order and `_scan_merge_in` pops them from the *left*: with any number of broadcast
leaves — here two, `a` then `b`, around a scanned array — the traced function receives them in argument order, which is
what the reference `scanArrIn` says (`scan_iteration_sees` covers any number of them: it is stated for arbitrary
argument lists). -/
theorem scan_broadcast_leaves_fifo {α : Type} [Inhabited α] (a b x : Arr α) (k : Int) (carr : Option (Arr α)) :
    scanMergeIn [.hole, .arrX k x, .hole] [] [] [a, b] carr [] = .ok ([], [a, x, b]) ∧
    mapX (scanArrIn carr 0) [(.ax .bcast, a), (.ax .bcast, b)] = .ok [a, b] := by
  constructor <;> rfl

/-- closed counter-example for popping from the right (`broadcast_arrays.pop()`): two broadcast leaves of different
value would reach the function swapped — `[b, a]` is not what the reference hands over -/
theorem scan_broadcast_lifo_counterexample :
    let a : Arr Int := exScalar 1
    let b : Arr Int := exScalar 2
    let lifo : List (Arr Int) → List (Arr Int) := fun ba => [ba.getLastD a, ba.dropLast.getLastD a]
    lifo [a, b] = [b, a] ∧
    optX (mapX (scanArrIn (α := Int) none 0) [(.ax .bcast, a), (.ax .bcast, b)]) = some [a, b] ∧
    lifo [a, b] ≠ [a, b] := by decide

/-- **The scan of `ScanFn` is the reference loop, in either direction** (induction on the list of indices in
processing order, for `reverse = false` and `reverse = true`): carry Variables and the array carry threaded from the
iteration processed before, axis Variables sliced at the index processed, broadcast Variables constant, the same final
array carry, the final carry deque being the carry route of what the last iteration left, and record `i` of either
side being the record of the iteration that processed index `i`. -/
theorem scan_loop_threads_carry {α : Type} [Inhabited α] {body : Body α} {ca : CarryArg} {cout : CarryPos}
    {outPs : List Prefix} {store : Store α} {pas : List (Prefix × Arg α)} {si : ScanIn α} (hwf : WFArgs pas)
    (hsi : scanSplitIn store pas [] [] = .ok si) {n : Nat} {reverse : Bool} {cfin : ScanCarry α} {ys : List (ScanY α)}
    (h : laxScanX n reverse (fun i => mapX (spureAt i) si.pure)
      (scanFn body ca cout outPs si.bcastDeque si.bcastArrays) sameCarry (initCarryArr si.pure, si.carryDeque)
      = .ok (cfin, ys)) :
    ∃ fin recs, laxScanX n reverse (fun i => .ok i) (scanStepSpec body ca cout outPs store pas) (fun _ _ => true)
        (initCarrySpec (arrArgs pas), store) = .ok (fin, recs) ∧
      CarryInv si.pure cfin fin ∧ All2 (YRel si.pure outPs) recs ys :=
  scan_loop_sim hwf hsi h

/-- **What `_scan_merge_out` writes back** (the positional bookkeeping: `vectorized_states.popleft()` once per integer
axis, stack along 0 + `moveaxis(x, 0, axis)`, `carry_states.popleft()` / `broadcast_states.popleft()` while walking
`prefix.axes`, for every graph-node argument in order).  Given the values the iterations left (index order), the values
the last processed iteration left and the original values: every reachable Variable is set, once, in first-occurrence
order, to `scanFinalEntry` — axis `k`: `jnp.stack` by index of its per-iteration values along `k`; `Carry`: what the last
iteration left; `None`: its original value (writes of the body to broadcast state are dropped: recorded finding). -/
theorem scan_state_is_loop_state {α : Type} [Inhabited α] (store0 : Store α) (pas : List (Prefix × Arg α))
    (si : ScanIn α) (hwf : WFArgs pas) (hs : scanSplitIn store0 pas [] [] = .ok si)
    (r0 : Store α) (rrest : List (Store α)) (fin : Store α)
    (partsRows : List (List (Option (List (State α) × List (State α)))))
    (partsF : List (Option (List (State α) × List (State α))))
    (hrows : mapX (fun st => mapX (scanSplitArgOut st) si.pure) (r0 :: rrest) = .ok partsRows)
    (hF : mapX (scanSplitArgOut fin) si.pure = .ok partsF) (store store' : Store α)
    (hwb : scanWriteBack (partsRows.map (fun parts => (parts.filterMap id).map (·.1))) si.pure
      ((partsF.filterMap id).map (·.2)) si.bcastDeque store = .ok store') :
    ∃ vals, mapX (scanFinalEntry store0 fin (r0 :: rrest)) (ownedAll pas []) = .ok vals ∧
      store' = writeAll vals store :=
  scan_write_back store0 pas [] [] si hwf hs r0 rrest fin partsRows partsF hrows hF store store' hwb

/-- **`scan_eq_loop_nnx`.**  For every function, store, argument list (aliasing included), `in_axes` / `out_axes` (ints,
`None`, `Carry`, `StateAxes` of arbitrary filters; single entries or tuples), `length`, `reverse`: whenever `nnx.scan`
returns, the explicit Python loop `scanSpecN` (Proofs/NnxLoopSpec.lean) is defined for the same `n ≥ 1` iterations in
the same processing order and returns the same final store and the same results.  `scanSpecN`: iteration `i` is `f` on
`take(original, i, axis)` of every axis Variable, the original value of every `None` Variable and the value the
iteration processed before left in every `Carry` Variable (and the array carry it returned); afterwards every axis
Variable holds `jnp.stack` by index of what the iterations left along its axis, every carry Variable what the last
iteration left, every broadcast Variable its original value; array results are stacked by index along their out axes,
fresh graph nodes Variable by Variable under the out prefix, and the carry is put back among the results.

Hypotheses: `hwf` — paths inside one graph node are distinct; `houts` — what a single trace guarantees about results (at
every result position all iterations return the same kind of thing, fresh nodes with the same Variables and distinct
paths).  `n` is the size of *every* scanned Variable and scanned array argument along its axis, and `length` if given. -/
theorem scan_eq_loop_nnx {α : Type} [Inhabited α] {inAxes outAxes : AxesSpec} {length : Option Nat}
    {reverse : Bool} {nOuts : Nat} {body : Body α} {args : List (Arg α)} {store : Store α}
    {res : Store α × List (Out α)}
    (h : nnxScan inAxes outAxes length reverse nOuts body args store = .ok res)
    (hwf : ∀ ps, inAxes.expand args.length = .ok ps → WFArgs (ps.zip args))
    (houts : ∀ ps n ca cout outPs fin recs, inAxes.expand args.length = .ok ps →
      laxScanX n reverse (fun i => .ok i) (scanStepSpec body ca cout outPs store (ps.zip args)) (fun _ _ => true)
        (initCarrySpec (arrArgs (ps.zip args)), store) = .ok (fin, recs) →
      ∀ k col, column k (recs.map (·.2)) = .ok col → OutColWF col) :
    ∃ cin cout ps ca outPs n,
      scanSetup inAxes outAxes = .ok (cin, cout) ∧ inAxes.expand args.length = .ok ps ∧
      carryArgOf cin args = .ok ca ∧ outPrefixes outAxes cout nOuts = .ok outPs ∧ 0 < n ∧
      ((∀ ep ∈ ownedAll (ps.zip args) [], ∀ k, ep.2.at ep.1 = .ok (.axis k) →
          ∃ v, store.lookup ep.1.id = some v ∧ Flax.LiftLoop.dimAt k v = .ok n) ∧
        (∀ pa ∈ arrArgs (ps.zip args), ∀ k, pa.1 = .ax (.axis k) → Flax.LiftLoop.dimAt k pa.2 = .ok n) ∧
        (∀ m, length = some m → m = n)) ∧
      scanSpecN n reverse ca cout outPs body (ps.zip args) store = .ok res :=
  nnxScan_sound h hwf houts

/-- the loop part on its own (what `scan_eq_loop_nnx` is assembled from, together with `scan_state_is_loop_state`): the
set-up passed, and the scan of `ScanFn` is the reference loop with related per-iteration records -/
theorem scan_loop_of_nnx_scan {α : Type} [Inhabited α] {inAxes outAxes : AxesSpec} {length : Option Nat}
    {reverse : Bool} {nOuts : Nat} {body : Body α} {args : List (Arg α)} {store : Store α}
    {res : Store α × List (Out α)}
    (h : nnxScan inAxes outAxes length reverse nOuts body args store = .ok res)
    (hwf : ∀ ps, inAxes.expand args.length = .ok ps → WFArgs (ps.zip args)) :
    ∃ cin cout ps si ca outPs n cfin ys fin recs outs,
      scanSetup inAxes outAxes = .ok (cin, cout) ∧ inAxes.expand args.length = .ok ps ∧
      scanSplitIn store (ps.zip args) [] [] = .ok si ∧ carryArgOf cin args = .ok ca ∧
      outPrefixes outAxes cout nOuts = .ok outPs ∧ 0 < n ∧
      laxScanX n reverse (fun i => .ok i) (scanStepSpec body ca cout outPs store (ps.zip args)) (fun _ _ => true)
        (initCarrySpec (arrArgs (ps.zip args)), store) = .ok (fin, recs) ∧
      CarryInv si.pure cfin fin ∧ All2 (YRel si.pure outPs) recs ys ∧
      scanWriteBack (ys.map (·.1)) si.pure cfin.2 si.bcastDeque store = .ok res.1 ∧
      (∃ y0 yt, ys = y0 :: yt ∧ mapX (scanOutAt (ys.map (·.2))) ((List.range y0.2.length).zip y0.2) = .ok outs) ∧
      insertCarry cout ca fin.1 outs = .ok res.2 ∧
      ∃ dims, scanDims si.pure = .ok dims ∧ Flax.LiftLoop.jaxLength length dims = .ok n :=
  nnxScan_loop h hwf

/-! ### towards `scan_rejects_iff`: no rejection before the loop, and every call is made -/

/-- **No rejection before the loop, and the calls are made.**  If every occurrence of every Variable gets an axis and all
occurrences of one Variable agree, the store holds every Variable, array arguments carry an int / `None` / `Carry`
prefix, every scanned Variable and array has size `n` along its axis, and `length` is `n` if given (something is scanned
if not): then `_scan_split_in` accepts, lax.scan's length check finds `n`, every index `i < n` can be sliced, and the
first processed iteration — and, by `scan_iteration_sees`, every later one, whatever carry the loop has reached — calls
the traced function on the Python loop's values.

What can still make `nnx.scan` reject, and is proved only in the soundness direction (`scan_eq_loop_nnx`): the set-up
checks of `scan_out_axes_rejected` / `Carry` placement (`scanSetup`, exact by definition); inside the loop the traced
function failing, `_check_carry_same_references` (`scan_carry_refs_checked`, exact), lax.scan's carry-structure check (a
carried Variable or the array carry changing shape), `out_axes` arity / a Variable of a fresh node without axis; after
the loop `jnp.stack` refusing per-iteration values of different shapes.  Each makes `scanSpecN` undefined as well, except
the carry-structure check, which the reference loop does not have (it is stricter than the Python loop). -/
theorem scan_no_rejection_before_loop {α : Type} [Inhabited α] (store : Store α) (pas : List (Prefix × Arg α))
    (npF : NodePrefixes) (n : Nat) (length : Option Nat) (hwf : WFArgs pas)
    (hal : allPrefixes pas [] = .ok npF) (hcons : consistent npF = true)
    (hst : ∀ ep ∈ ownedAll pas [], (store.lookup ep.1.id).isSome)
    (hsz : ∀ ep ∈ ownedAll pas [], ∀ k, ep.2.at ep.1 = .ok (.axis k) →
      ∃ v, store.lookup ep.1.id = some v ∧ Flax.LiftLoop.dimAt k v = .ok n)
    (harr : ∀ pa ∈ arrArgs pas, ScanArrOK n pa)
    (hl1 : ∀ m, length = some m → m = n) (hl2 : length = none → HasMapped pas []) :
    ∃ si dims, scanSplitIn store pas [] [] = .ok si ∧ scanDims si.pure = .ok dims ∧
      Flax.LiftLoop.jaxLength length dims = .ok n ∧
      ∀ i, i < n → ∀ carr, ∃ xs parts ins arrs, mapX (spureAt i) si.pure = .ok xs ∧
        mapX (scanSplitArgOut store) si.pure = .ok parts ∧
        mapX (scanEntryIn store store i) (ownedAll pas []) = .ok ins ∧
        mapX (scanArrIn carr i) (arrArgs pas) = .ok arrs ∧
        scanMergeIn xs ((parts.filterMap id).map (·.2)) si.bcastDeque si.bcastArrays carr [] = .ok (ins, arrs) := by
  obtain ⟨si, hsi⟩ := scanSplitIn_complete store n pas [] [] npF hal hcons hst hsz harr
  have harr2 : ∀ pa ∈ arrArgs pas, ∀ k, pa.1 = .ax (.axis k) → Flax.LiftLoop.dimAt k pa.2 = .ok n := by
    intro pa hpa k hk
    rcases harr pa hpa with ⟨k', hk', hd⟩ | hb | hc
    · rw [hk] at hk'; injection hk' with hk'; injection hk' with hk'; subst hk'; exact hd
    · rw [hk] at hb; cases hb
    · rw [hk] at hc; cases hc
  obtain ⟨⟨dims, hdims, hall⟩, hslice⟩ := scanDims_complete store n pas [] [] si hsi hsz harr2
  have hjl : Flax.LiftLoop.jaxLength length dims = .ok n := by
    apply jaxLength_of_all hall hl1
    intro hnone hde
    subst hde
    rcases hl2 hnone with ⟨ep, hep, k, hk⟩ | ⟨pa, hpa, k, hk⟩
    · obtain ⟨_, d, _, _, hd⟩ := (scanDims_mem store pas [] [] si [] hsi hdims).1 ep hep k hk
      cases hd
    · obtain ⟨d, _, hd⟩ := (scanDims_mem store pas [] [] si [] hsi hdims).2 pa hpa k hk
      cases hd
  obtain ⟨⟨parts, hp1, _⟩, _⟩ := scanSplitIn_init store pas [] [] si hsi
  refine ⟨si, dims, hsi, hdims, hjl, ?_⟩
  intro i hi carr
  obtain ⟨xs, hxs⟩ := hslice i hi
  obtain ⟨ins, arrs, h1, h2, h3⟩ :=
    Flax.NnxLoop.scan_iteration_sees store store i carr pas [] [] si xs parts [] hwf hsi hxs hp1 rfl
  exact ⟨xs, parts, ins, arrs, hxs, hp1, h1, h2, by simpa using h3⟩

/-- broadcast state is constant: the step function of the reference loop reads `None` Variables from the original
store only, whatever the previous iterations wrote (this is what the code does: `broadcast_deque_out =
PytreeDeque(broadcast_deque)`; writes of the body to broadcast state are dropped — recorded finding) -/
theorem scan_broadcast_reads_original {α : Type} [Inhabited α] (store cur cur' : Store α) (i : Nat) (id : VarId) :
    scanValIn store cur i .bcast id = scanValIn store cur' i .bcast id := rfl

/-- inconsistent aliasing is rejected by `nnx.scan` too: `_scan_split_in` runs the same check leaf by leaf, and only
if all occurrences of every Variable agree does it return -/
theorem scan_accepted_aliasing_is_consistent {α : Type} [Inhabited α] (store : Store α)
    (pas : List (Prefix × Arg α)) (si : ScanIn α) (h : scanSplitIn store pas [] [] = .ok si) :
    ∃ npF, allPrefixes pas [] = .ok npF ∧ ∀ x ∈ npF, ∀ y ∈ npF, x.1 = y.1 → x.2 = y.2 := by
  have key : ∀ (pas : List (Prefix × Arg α)) (np : NodePrefixes) (seen : List VarId) (si : ScanIn α),
      consistent np = true → scanSplitIn store pas np seen = .ok si →
      ∃ npF, allPrefixes pas np = .ok npF ∧ consistent npF = true := by
    intro pas
    induction pas with
    | nil => intro np seen si hc _; exact ⟨np, rfl, hc⟩
    | cons pa rest ih =>
      intro np seen si hc ht
      obtain ⟨p, arg⟩ := pa
      cases arg with
      | arr a =>
        obtain ⟨ax, r, _, hr, _⟩ := scanSplitIn_arr_ok ht
        exact ih np seen r hc hr
      | node es =>
        obtain ⟨np', flat, sts, vec, car, bc, r, hca, _, _, _, hr, _⟩ := scanSplitIn_node_ok ht
        obtain ⟨l, hl, hnp, hcons⟩ := checkAliasing_ok hca
        obtain ⟨npF, h1, h2⟩ := ih np' _ r hcons hr
        refine ⟨npF, ?_, h2⟩
        simp only [allPrefixes, collect_eq, hl, ← hnp]
        exact h1
  obtain ⟨npF, h1, h2⟩ := key pas [] [] si rfl h
  exact ⟨npF, h1, (consistent_iff npF).1 h2⟩

/-! non-vacuity: a scan over 2 steps, `c ← c + w` with `c` carried (BatchStat under `Carry`) and `w` scanned along
axis 0, reverse direction -/

def exScanArgs : List (Arg Int) :=
  [.node [⟨["c"], 1, ⟨["BatchStat", "Variable"], none⟩⟩, ⟨["w"], 0, ⟨["Param", "Variable"], none⟩⟩]]

def exScanIn : AxesSpec := .perArg [.sa [(.ofType "Param", .axis 0), (.everything, .carry)]]

def exScanBody : Body Int := fun st _ =>
  match st with
  | [(1, c), (0, w)] => .ok ([(1, exScalar (c.getD [] + w.getD [])), (0, w)], [.arr (exScalar (c.getD []))])
  | _ => .error (.body "KeyError")

example : exView (nnxScan exScanIn (.uniform (.ax (.axis 0))) none true 1 exScanBody exScanArgs exStore)
    = some ([(0, exVec [10, 20]), (1, exScalar 33)], [some (exVec [23, 3])]) := by decide

example : exView (scanSpecN 2 true .none .none [.ax (.axis 0)] exScanBody
    ([Prefix.sa [(.ofType "Param", .axis 0), (.everything, .carry)]].zip exScanArgs) exStore)
    = some ([(0, exVec [10, 20]), (1, exScalar 33)], [some (exVec [23, 3])]) := by decide

/-! non-vacuity with TWO broadcast leaves of different value next to a scanned array and a carried node:
`f(m, s, x, t): m.c += 10·s + t + x; return m.c` -/

def exScan2Args : List (Arg Int) :=
  [.node [⟨["c"], 1, ⟨["BatchStat", "Variable"], none⟩⟩], .arr (exScalar 1), .arr (exVec [5, 7]), .arr (exScalar 2)]

def exScan2Body : Body Int := fun st arrs =>
  match st, arrs with
  | [(1, c)], [s, x, t] =>
    .ok ([(1, exScalar (c.getD [] + 10 * s.getD [] + t.getD [] + x.getD []))],
         [.arr (exScalar (c.getD [] + 10 * s.getD [] + t.getD [] + x.getD []))])
  | _, _ => .error (.body "KeyError")

example : exView (nnxScan (.perArg [.ax .carry, .ax .bcast, .ax (.axis 0), .ax .bcast])
    (.perArg [.ax .carry, .ax (.axis 0)]) none false 1
    (fun st arrs => match exScan2Body st arrs with
      | .ok (st', outs) => .ok (st', Out.argRef 0 :: outs)
      | .error e => .error e) exScan2Args [(1, exScalar 3)])
    = some ([(1, exScalar 39)], [none, some (exVec [20, 39])]) := by decide

/-! ## 5. `nnx.grad` / `nnx.value_and_grad`  (partial: A-AD) -/

/-- **`grad_state_partition`, part 1: diff ⊎ nondiff.**  For `DiffState(i, f)` (a bare integer argnum is
`DiffState(i, nnx.Param)`): `ctx.split(value, f, ...)` puts exactly the Variables of the argument that `f` matches into
`diff` — the only state handed to jax as an argument — and all others into `nondiff`, which `GradFn` closes over;
nothing is lost or duplicated (every item is in exactly one of the two). -/
theorem grad_state_partition {α : Type} (f : NFilter) (flat : Flat α) :
    ∃ diff nondiff, splitStatesX [f, .everything] flat = .ok [diff, nondiff] ∧
      (∀ pv, pv ∈ diff ↔ ∃ x ∈ flat, pv = (x.1, x.2.2) ∧ denote f x.1 x.2.1 = true) ∧
      (∀ pv, pv ∈ nondiff ↔ ∃ x ∈ flat, pv = (x.1, x.2.2) ∧ denote f x.1 x.2.1 = false) ∧
      diff.length + nondiff.length = flat.length := by
  refine ⟨_, _, split_diff_nondiff f flat, ?_, ?_, ?_⟩
  · intro pv
    simp only [List.mem_map, List.mem_filter]
    constructor
    · rintro ⟨x, ⟨hx, hd⟩, rfl⟩; exact ⟨x, hx, rfl, hd⟩
    · rintro ⟨x, hx, rfl, hd⟩; exact ⟨x, ⟨hx, hd⟩, rfl⟩
  · intro pv
    simp only [List.mem_map, List.mem_filter, Bool.not_eq_eq_eq_not, Bool.not_true]
    constructor
    · rintro ⟨x, ⟨hx, hd⟩, rfl⟩; exact ⟨x, hx, rfl, hd⟩
    · rintro ⟨x, hx, rfl, hd⟩; exact ⟨x, ⟨hx, hd⟩, rfl⟩
  · simp only [List.length_map]
    induction flat with
    | nil => rfl
    | cons x xs ih =>
      simp only [List.filter_cons]
      cases denote f x.1 x.2.1 <;> simp <;> omega

/-- **part 2: one forward pass, gradients shaped like `diff`.**  Whenever `nnx.grad` / `nnx.value_and_grad` returns:
the value and the aux are those of *one* call of `GradFn` (merge `diff` with the closed-over `nondiff`, run `f`, split
again) at the original values; the caller's Variables are what that one call left — forward-pass side effects applied
once; and the gradient returned for each differentiated position has exactly the paths and shapes of its `diff` state
(resp. the shape of the array argument): unselected state is absent, selected state present.  That the numbers are the
derivative is assumption A-AD about `jax.value_and_grad` (label: partial). -/
theorem grad_value_aux_effects_once {α : Type} {ad : AD α} {argnums : List DiffArg} {hasAux : Bool} {body : Body α}
    {args : List (Arg α)} {store : Store α} {r : GradRes α}
    (h : nnxGrad ad argnums hasAux body args store = .ok r) :
    ∃ ifl pure nondiff dins ga,
      indexFilter argnums [] = .ok ifl ∧
      gradToTree store ((argFilters ifl args.length).zip args) [] [] = .ok (pure, nondiff) ∧
      dinOf pure (argnums.map (·.argnum)) = .ok dins ∧
      gradFn body hasAux nondiff pure = .ok (r.loss, ga) ∧
      r.aux = ga.aux ∧ gradWriteBack pure ga.argsOut store = .ok r.store ∧
      r.grads.map DIn.struct = dins.map DIn.struct :=
  nnxGrad_ok h

/-- **part 2b: the forward pass is run on the caller's values, whatever is selected.**  `diff` (handed to jax) and
`nondiff` (closed over by `GradFn`) are merged again inside: at the original values the traced function sees every
reachable Variable once, in first-occurrence order, with the value the caller's object holds. -/
theorem grad_forward_sees_caller_values {α : Type} [Inhabited α] (store : Store α)
    (pas : List (Option NFilter × Arg α)) (res : List (GPure α) × List (Option (State α)))
    (hwf : WFArgsG pas) (h : gradToTree store pas [] [] = .ok res) :
    ∃ ins, mapX (fun (e : Entry) => match store.getX e.id with
        | .ok v => Except.ok (e.id, v)
        | .error err => .error err) (ownedEntries pas []) = .ok ins ∧
      gradMergeAll res.1 res.2 [] = .ok ins := by
  obtain ⟨ins, h1, h2⟩ := Flax.NnxLoop.grad_forward_sees_caller_values store pas [] [] res [] hwf h rfl
  exact ⟨ins, h1, by simpa using h2⟩

/-- **part 3 (A-AD made explicit).**  The function handed to `jax.value_and_grad` is `GradFn` with the differentiated
leaves substituted; any function extensionally equal to it — in particular "the loss written as a function of the
selected Variables' values" — yields the same value, aux and gradients. -/
theorem grad_depends_on_extension_only {α β : Type} (ad : AD α) (f g : List (DIn α) → Except Err (Arr α × β))
    (x : List (DIn α)) (hfg : ∀ y, f y = g y) : ad.vag f x = ad.vag g x :=
  ad_extensional ad f g x hfg

/-- a repeated argnum is rejected before anything else happens -/
theorem grad_repeated_argnum_rejected {α : Type} (ad : AD α) (d1 d2 : DiffArg) (rest : List DiffArg) (hasAux : Bool)
    (body : Body α) (args : List (Arg α)) (store : Store α) (h : d1.argnum = d2.argnum) :
    nnxGrad ad (d1 :: d2 :: rest) hasAux body args store = .error .repeatedArgnum := by
  simp [nnxGrad, indexFilter, h, List.lookup]

/-! ## 6. `split_rngs` / `restore_rngs` around a transform (corollary of C09) -/

/-- **`split_restore_no_replay`.**  `split_rngs` consumes exactly one draw of the stream before splitting and
`restore_rngs` restores the *post-draw* count: after the transform the stream resumes one draw later with its own key
(C09 `split_restore_resumes`); no key drawn by any lane inside the transform equals any key the original stream hands
out before or after (C09 `split_keys_fresh`); and different lanes / draws get different keys (C09 `split_lanes_distinct`). -/
theorem split_restore_no_replay (tag : String) (k : Flax.Rng.SymKey) (c : Nat) (shape : List Nat) :
    (∃ b s', Flax.Rng.Stream.splitOne { tag := tag, key := .scalar k, count := .scalar c } shape false = .ok (b, s') ∧
      Flax.Rng.restoreLoop [(tag, s')] [b] = [(tag, { tag := tag, key := .scalar k, count := .scalar (c + 1) })]) ∧
    (∀ idx t j, Flax.C09.laneKey k c shape idx t ≠ .foldIn k j) ∧
    (∀ idx₁ idx₂ t₁ t₂, idx₁ ≠ idx₂ ∨ t₁ ≠ t₂ →
      Flax.C09.laneKey k c shape idx₁ t₁ ≠ Flax.C09.laneKey k c shape idx₂ t₂) := by
  refine ⟨?_, ?_, ?_⟩
  · obtain ⟨b, s', h1, _, _, _, _, _, h7⟩ := Flax.C09.split_restore_resumes tag k c shape
    exact ⟨b, s', h1, h7⟩
  · intro idx t j; exact Flax.C09.split_keys_fresh k c shape idx t j
  · intro i1 i2 t1 t2 h; exact Flax.C09.split_lanes_distinct k c shape i1 i2 t1 t2 h

end Flax.C08
