/-
C20 — Host-side data helpers preserve values and order for any batch size and schedule.
Property theorems (public `theorem`s) + non-vacuity examples; helper lemmas are `private`.
-/
import Flax.Model.Prefetch
import Flax.Model.HostData
import Flax.Proofs.HostDataScan

namespace Flax.C20
open Flax.Prefetch

/-! # PrefetchIterator: every interleaving of producer and consumer -/

section Lts
variable {α ε : Type}

/-- the item the producer holds outside the buffer (fetched, not yet appended) -/
def pcItem : PPc α ε → List α
  | .haveItem a => [a]
  | _ => []

/-- number of `next` calls that ended in `StopIteration` or an exception -/
def terms : List (Obs α ε) → Nat
  | [] => 0
  | .item _ :: os => terms os
  | _ :: os => terms os + 1

private theorem terms_append (a b : List (Obs α ε)) : terms (a ++ b) = terms a + terms b := by
  induction a with
  | nil => simp [terms]
  | cons o os ih => cases o <;> simp [terms, ih] <;> omega

private theorem itemsOf_append (a b : List (Obs α ε)) : itemsOf (a ++ b) = itemsOf a ++ itemsOf b := by
  induction a with
  | nil => simp [itemsOf]
  | cons o os ih => cases o <;> simp [itemsOf, ih]

private theorem terms_items (d : List α) : terms (d.map (Obs.item (ε := ε))) = 0 := by
  induction d with
  | nil => rfl
  | cons x xs ih => simpa [terms] using ih

private theorem terms_replicate (m : Nat) (e : Ending ε) :
    terms (List.replicate m (e.obs : Obs α ε)) = m := by
  induction m with
  | zero => rfl
  | succ n ih => cases e <;> simp [List.replicate_succ, terms, Ending.obs] at ih ⊢ <;> exact ih

/-- The invariant of the repaired code on schedules without `close()`. -/
structure Inv (items : List α) (ending : Ending ε) (s : St α ε) : Prop where
  shape : ∃ (del : List α) (m : Nat),
    s.out = del.map Obs.item ++ List.replicate m ending.obs ∧
    del ++ s.buffer ++ pcItem s.ppc ++ s.src = items ∧
    (0 < m → s.buffer = [] ∧ s.ppc = .done) ∧
    (s.ctor < 3 → del = [] ∧ m = 0)
  act : s.active = false ↔ s.ppc = .done
  doneErr : s.ppc = .done → s.error = some ending ∧ s.src = []
  haveErr : ∀ e, s.ppc = .haveErr e → e = ending ∧ s.src = []
  notStarted : s.ctor < 2 → s.ppc = .fetch

private theorem inv_init (items : List α) (ending : Ending ε) : Inv items ending (init items) := by
  refine ⟨⟨[], 0, ?_, ?_, ?_, ?_⟩, ?_, ?_, ?_, ?_⟩ <;> simp [init, pcItem]

private theorem inv_step (items : List α) (ending : Ending ε) (bs : Nat) (l : Label) (hl : l ≠ .close)
    (s s' : St α ε) (hi : Inv items ending s) (h : step .fixed bs ending l s = some s') :
    Inv items ending s' := by
  obtain ⟨⟨del, m, hout, hsplit, hm, hc3⟩, hact, hdone, herr, hns⟩ := hi
  cases l with
  | close => exact absurd rfl hl
  | ctor =>
    simp only [step] at h
    split at h
    · next h0 =>
      cases h
      refine ⟨⟨del, m, by simpa using hout, by simpa using hsplit, by simpa using hm, ?_⟩, by simpa using hact, ?_, by simpa using herr, ?_⟩
      · intro _; exact hc3 (by omega)
      · intro hd; have := hns (by omega); simp_all
      · intro _; exact hns (by omega)
    · next h1 =>
      cases h
      refine ⟨⟨del, m, by simpa using hout, by simpa using hsplit, by simpa using hm, ?_⟩, by simpa using hact, by simpa using hdone, by simpa using herr, ?_⟩
      · intro _; exact hc3 (by omega)
      · intro hlt; simp at hlt
    · next h2 =>
      cases h
      refine ⟨⟨del, m, by simpa using hout, by simpa using hsplit, by simpa using hm, ?_⟩, by simpa using hact, by simpa using hdone, by simpa using herr, ?_⟩
      · intro hlt; simp at hlt
      · intro hlt; simp at hlt
    · cases h
  | fetch =>
    simp only [step] at h
    split at h
    · split at h
      · next x r hp hsrc =>
        cases h
        refine ⟨⟨del, m, by simpa using hout, ?_, ?_, by simpa using hc3⟩, ?_, ?_, ?_, ?_⟩
        · simp [pcItem, hp, hsrc] at hsplit ⊢; exact hsplit
        · intro hm0; have := hm hm0; simp_all
        · simp [hp] at hact ⊢; exact hact
        · simp
        · simp
        · intro hlt; simp at hlt; omega
      · next hp hsrc =>
        cases h
        refine ⟨⟨del, m, by simpa using hout, ?_, ?_, by simpa using hc3⟩, ?_, ?_, ?_, ?_⟩
        · simp [pcItem, hp, hsrc] at hsplit ⊢; exact hsplit
        · intro hm0; have := hm hm0; simp_all
        · simp [hp] at hact ⊢; exact hact
        · simp
        · intro e he; simp at he; exact ⟨he.symm, hsrc⟩
        · intro hlt; simp at hlt; omega
      · cases h
    · cases h
  | put =>
    simp only [step] at h
    split at h
    · next x hp =>
      have hm0 : m = 0 := by
        cases m with
        | zero => rfl
        | succ k => have := (hm (by omega)).2; simp_all
      have hactive : s.active = true := by
        cases ha : s.active with
        | true => rfl
        | false => have := hact.mp ha; simp_all
      have hctor : 2 ≤ s.ctor := by
        apply Decidable.byContradiction; intro hlt
        have := hns (by omega); simp_all
      split at h <;> cases h
      · refine ⟨⟨del, m, by simpa using hout, ?_, ?_, by simpa using hc3⟩, ?_, ?_, ?_, ?_⟩
        · simp [pcItem, hp, afterWait, hactive] at hsplit ⊢; exact hsplit
        · intro h0; omega
        · simp [afterWait, hactive]
        · simp [afterWait, hactive]
        · simp [afterWait, hactive]
        · intro hlt; simp at hlt; omega
      · refine ⟨⟨del, m, by simpa using hout, ?_, ?_, by simpa using hc3⟩, ?_, ?_, ?_, ?_⟩
        · simp [pcItem, hp] at hsplit ⊢; exact hsplit
        · intro h0; omega
        · simp [hactive]
        · simp
        · simp
        · intro hlt; simp at hlt; omega
    · cases h
  | wake =>
    simp only [step] at h
    split at h
    · next hp =>
      have hactive : s.active = true := by
        cases ha : s.active with
        | true => rfl
        | false => have := hact.mp ha; simp_all
      have hctor : 2 ≤ s.ctor := by
        apply Decidable.byContradiction; intro hlt
        have := hns (by omega); simp_all
      split at h <;> cases h
      refine ⟨⟨del, m, by simpa using hout, ?_, ?_, by simpa using hc3⟩, ?_, ?_, ?_, ?_⟩
      · simp [pcItem, hp, afterWait, hactive] at hsplit ⊢; exact hsplit
      · intro h0; have := (hm h0).2; simp_all
      · simp [afterWait, hactive]
      · simp [afterWait, hactive]
      · simp [afterWait, hactive]
      · intro hlt; simp at hlt; omega
    · cases h
  | fail =>
    simp only [step] at h
    split at h
    · next e hp =>
      cases h
      obtain ⟨he, hsrc⟩ := herr e hp
      have hctor : 2 ≤ s.ctor := by
        apply Decidable.byContradiction; intro hlt
        have := hns (by omega); simp_all
      refine ⟨⟨del, m, by simpa using hout, ?_, ?_, by simpa using hc3⟩, ?_, ?_, ?_, ?_⟩
      · simp [pcItem, hp] at hsplit ⊢; exact hsplit
      · intro h0; have := (hm h0).2; simp_all
      · simp
      · simp [he, hsrc]
      · simp
      · intro hlt; simp at hlt; omega
    · cases h
  | next =>
    simp only [step] at h
    split at h
    · next hc =>
      split at h
      · next x r hb =>
        cases h
        have hm0 : m = 0 := by
          cases m with
          | zero => rfl
          | succ k => have := (hm (by omega)).1; simp_all
        subst hm0
        refine ⟨⟨del ++ [x], 0, ?_, ?_, ?_, ?_⟩, by simpa using hact, by simpa using hdone, by simpa using herr, by simpa using hns⟩
        · simp at hout ⊢; simp [hout]
        · simp [hb] at hsplit ⊢; exact hsplit
        · intro h0; omega
        · intro hlt; simp at hlt; omega
      · next hb =>
        split at h
        · cases h
        · next ha =>
          have ha' : s.active = false := by simpa using ha
          have hd := hact.mp ha'
          obtain ⟨he, hsrc⟩ := hdone hd
          simp [he] at h
          cases h
          refine ⟨⟨del, m + 1, ?_, ?_, ?_, ?_⟩, by simpa using hact, fun _ => ⟨by simpa using he, by simp [hsrc]⟩, by simpa using herr, by simpa using hns⟩
          · simp [hout, List.replicate_succ']
          · simpa using hsplit
          · intro _; exact ⟨hb, hd⟩
          · intro hlt; simp at hlt; omega
    · cases h

private theorem inv_run (items : List α) (ending : Ending ε) (bs : Nat) :
    ∀ (sched : List Label), Label.close ∉ sched → ∀ (s s' : St α ε), Inv items ending s →
      run .fixed bs ending sched s = some s' → Inv items ending s' := by
  intro sched
  induction sched with
  | nil => intro _ s s' hi h; simp [run] at h; subst h; exact hi
  | cons l ls ih =>
    intro hnc s s' hi h
    simp only [run] at h
    cases hs : step .fixed bs ending l s with
    | none => simp [hs] at h
    | some s1 =>
      simp [hs] at h
      have hl : l ≠ .close := by intro hc; subst hc; simp at hnc
      exact ih (by intro hc; exact hnc (List.mem_cons_of_mem _ hc)) s1 s' (inv_step items ending bs l hl s s1 hi hs) h

private theorem prefix_take (del rest items : List α) (h : del ++ rest = items) :
    del = items.take del.length := by
  subst h; simp

/-- **All schedules (safety).**  Repaired `PrefetchIterator`, any source (`items` then `ending`, where
`ending` is `StopIteration` or an exception raised at *any* position, including the first), any
`buffer_size`, and **every** interleaving of constructor, producer and consumer steps (any schedule
of enabled steps, of any length): what the consumer's `next` calls have produced so far is a prefix
of the source's items, in order, each once, followed only by the source's own ending
(`StopIteration`, resp. exactly its exception), and the ending is seen only after *all* items. -/
theorem prefetch_iterator_all_schedules (items : List α) (ending : Ending ε) (bs : Nat)
    (sched : List Label) (hnc : Label.close ∉ sched) (s : St α ε)
    (h : run .fixed bs ending sched (init items) = some s) :
    ∃ k m, k ≤ items.length ∧
      s.out = (items.take k).map Obs.item ++ List.replicate m ending.obs ∧
      (0 < m → k = items.length) := by
  have hi := inv_run items ending bs sched hnc _ _ (inv_init items ending) h
  obtain ⟨⟨del, m, hout, hsplit, hm, _⟩, _, hdone, _, _⟩ := hi
  refine ⟨del.length, m, ?_, ?_, ?_⟩
  · rw [← hsplit]; simp
  · have := prefix_take del (s.buffer ++ pcItem s.ppc ++ s.src) items (by simpa [List.append_assoc] using hsplit)
    rw [← this]; exact hout
  · intro hm0
    obtain ⟨hb, hd⟩ := hm hm0
    have hsrc := (hdone hd).2
    rw [← hsplit]; simp [hb, hd, hsrc, pcItem]

/-- The case the pinned commit got wrong, as a corollary: the source raises on its **first**
`next()`.  Under every interleaving the consumer sees nothing but that exception (never a
`StopIteration`, never an item). -/
theorem prefetch_iterator_exception_on_first_item (e : ε) (bs : Nat) (sched : List Label)
    (hnc : Label.close ∉ sched) (s : St α ε)
    (h : run .fixed bs (.raises e) sched (init []) = some s) :
    ∃ m, s.out = List.replicate m (Obs.exc e) := by
  obtain ⟨k, m, _, hout, _⟩ := prefetch_iterator_all_schedules [] (.raises e) bs sched hnc s h
  exact ⟨m, by simpa [Ending.obs] using hout⟩

/-! ### progress: no deadlock, and a bound after which everything has been delivered -/

/-- weight of the producer's program counter in the termination measure -/
def pcw : PPc α ε → Nat
  | .done => 0
  | .haveErr _ => 1
  | .fetch => 2
  | .waiting => 3
  | .haveItem _ => 5

/-- termination measure: constructor segments left, 4 steps per unfetched item, producer position, buffered items -/
def mu (s : St α ε) : Nat := (3 - s.ctor) + 4 * s.src.length + pcw s.ppc + s.buffer.length

private theorem mu_step (v : Variant) (bs : Nat) (ending : Ending ε) (l : Label) (hl : l ≠ .close)
    (s s' : St α ε) (h : step v bs ending l s = some s') :
    mu s' + 1 + terms s.out ≤ mu s + terms s'.out := by
  cases l with
  | close => exact absurd rfl hl
  | ctor =>
    simp only [step] at h
    split at h <;> cases h <;> simp_all [mu]
    all_goals omega
  | fetch =>
    simp only [step] at h
    split at h
    · split at h <;> cases h <;> simp_all [mu, pcw]
      all_goals omega
    · cases h
  | put =>
    simp only [step] at h
    split at h
    · next x hp =>
      split at h <;> cases h
      · cases ha : s.active <;> simp [mu, afterWait, hp, pcw] <;> omega
      · simp [mu, hp, pcw]; omega
    · cases h
  | wake =>
    simp only [step] at h
    split at h
    · next hp =>
      split at h <;> cases h
      cases ha : s.active <;> simp [mu, afterWait, ha, hp, pcw] <;> omega
    · cases h
  | fail =>
    simp only [step] at h
    split at h
    · next e hp => cases h; simp [mu, hp, pcw]; omega
    · cases h
  | next =>
    simp only [step] at h
    split at h
    · split at h
      · next x r hb => cases h; simp [mu, hb, terms_append, terms]; omega
      · next hb =>
        split at h
        · cases h
        · split at h <;> cases h
          · next e he => cases e <;> simp [mu, terms_append, terms, Ending.obs] <;> omega
          · simp [mu, terms_append, terms]; omega
    · cases h

private theorem mu_run (v : Variant) (bs : Nat) (ending : Ending ε) :
    ∀ (sched : List Label), Label.close ∉ sched → ∀ (s s' : St α ε),
      run v bs ending sched s = some s' → sched.length + mu s' + terms s.out ≤ mu s + terms s'.out := by
  intro sched
  induction sched with
  | nil => intro _ s s' h; simp [run] at h; subst h; simp
  | cons l ls ih =>
    intro hnc s s' h
    simp only [run] at h
    cases hs : step v bs ending l s with
    | none => simp [hs] at h
    | some s1 =>
      simp [hs] at h
      have hl : l ≠ .close := by intro hc; subst hc; simp at hnc
      have h1 := mu_step v bs ending l hl s s1 hs
      have h2 := ih (by intro hc; exact hnc (List.mem_cons_of_mem _ hc)) s1 s' h
      simp only [List.length_cons]; omega

/-- **No deadlock.**  With `buffer_size ≥ 1`, in every state reachable under any interleaving some
thread can move (and after the end `next` keeps answering): the consumer is never stuck in
`wait_for` while the producer is stuck too. -/
theorem prefetch_iterator_no_deadlock (items : List α) (ending : Ending ε) (bs : Nat) (hbs : 1 ≤ bs)
    (sched : List Label) (hnc : Label.close ∉ sched) (s : St α ε)
    (h : run .fixed bs ending sched (init items) = some s) :
    ∃ l, l ≠ Label.close ∧ (step .fixed bs ending l s).isSome = true := by
  have hi := inv_run items ending bs sched hnc _ _ (inv_init items ending) h
  obtain ⟨⟨del, m, hout, hsplit, hm, hc3i⟩, hact, hdone, herr, hns⟩ := hi
  by_cases hc : s.ctor < 3
  · refine ⟨.ctor, by simp, ?_⟩
    simp only [step]
    split <;> simp_all
    omega
  · by_cases hc4 : s.ctor = 3
    · cases hp : s.ppc with
      | fetch =>
        refine ⟨.fetch, by simp, ?_⟩
        simp only [step, hp]
        cases s.src <;> simp [hc4]
      | haveItem x =>
        refine ⟨.put, by simp, ?_⟩
        simp only [step, hp]
        split <;> simp
      | haveErr e => exact ⟨.fail, by simp, by simp [step, hp]⟩
      | waiting =>
        by_cases hpp : prodPred bs s = true
        · exact ⟨.wake, by simp, by simp [step, hp, hpp]⟩
        · refine ⟨.next, by simp, ?_⟩
          simp only [step, hc4]
          cases hb : s.buffer with
          | nil => simp [prodPred, hb] at hpp; omega
          | cons x r => simp
      | done =>
        have ha := hact.mpr hp
        refine ⟨.next, by simp, ?_⟩
        simp only [step, hc4]
        cases hb : s.buffer with
        | cons x r => simp
        | nil => cases he : s.error <;> simp [ha]
    · -- ctor > 3 is unreachable, but `ctor` counts only up to 3 by `step`; derive it from the measure-free invariant
      exfalso
      have : s.ctor ≤ 3 := by
        clear hc hc4 hout hsplit hm hc3i hact hdone herr hns
        have aux : ∀ (sched : List Label) (s0 s1 : St α ε), s0.ctor ≤ 3 →
            run .fixed bs ending sched s0 = some s1 → s1.ctor ≤ 3 := by
          intro sched
          induction sched with
          | nil => intro s0 s1 h0 hr; simp [run] at hr; subst hr; exact h0
          | cons l ls ih =>
            intro s0 s1 h0 hr
            simp only [run] at hr
            cases hs : step .fixed bs ending l s0 with
            | none => simp [hs] at hr
            | some s2 =>
              simp [hs] at hr
              refine ih s2 s1 ?_ hr
              cases l <;> simp only [step] at hs <;> (repeat' split at hs) <;>
                first | cases hs | (cases hs; simp_all) | skip
              all_goals (try simp_all)
              all_goals (try omega)
        exact aux sched _ _ (by simp [init]) h
      omega

/-- **Everything is delivered under every interleaving.**  A schedule cannot avoid the end: after at
most `4·n + 5` steps plus one per extra `next`, the consumer has received all `n` items, in order,
and then only the source's ending.  Together with `prefetch_iterator_no_deadlock` (a run can always
be extended) this is total correctness: every maximal interleaving delivers exactly the source. -/
theorem prefetch_iterator_delivers_everything (items : List α) (ending : Ending ε) (bs : Nat)
    (sched : List Label) (hnc : Label.close ∉ sched) (s : St α ε)
    (h : run .fixed bs ending sched (init items) = some s)
    (hlen : 4 * items.length + 6 ≤ sched.length) :
    ∃ m, 1 ≤ m ∧ s.out = items.map Obs.item ++ List.replicate m ending.obs := by
  obtain ⟨k, m, hk, hout, hm⟩ := prefetch_iterator_all_schedules items ending bs sched hnc s h
  have hb := mu_run .fixed bs ending sched hnc _ _ h
  have ht : terms s.out = m := by
    rw [hout, terms_append, terms_items, terms_replicate]; simp
  simp [init, mu, pcw, terms, ht] at hb
  have hm1 : 1 ≤ m := by omega
  refine ⟨m, hm1, ?_⟩
  have := hm (by omega)
  subst this
  simpa using hout

/-! ### with `close()` anywhere in the schedule, and for both placements of `_error = None` -/

/-- Trace conformance against the source (`rem` = items not yet delivered): an item must be the next
source item; `StopIteration` may come at any time (after `close()`); an exception must be the
source's own and may only be seen once every item has been delivered. -/
def wellFormed (ending : Ending ε) : List α → List (Obs α ε) → Prop
  | _, [] => True
  | rem, .item a :: os => rem.head? = some a ∧ wellFormed ending rem.tail os
  | rem, .stop :: os => wellFormed ending rem os
  | rem, .exc e :: os => rem = [] ∧ ending = .raises e ∧ wellFormed ending rem os

private theorem wellFormed_snoc (ending : Ending ε) (o : Obs α ε) :
    ∀ (out : List (Obs α ε)) (rem : List α),
      wellFormed ending rem (out ++ [o]) ↔
        (wellFormed ending rem out ∧ wellFormed ending (rem.drop (itemsOf out).length) [o]) := by
  intro out
  induction out with
  | nil => intro rem; simp [wellFormed, itemsOf]
  | cons p ps ih =>
    intro rem
    cases p with
    | item a =>
      simp only [List.cons_append, wellFormed, itemsOf, List.length_cons, ih]
      have : rem.tail.drop (itemsOf ps).length = rem.drop ((itemsOf ps).length + 1) := by
        cases rem <;> simp
      rw [this]; constructor
      · rintro ⟨h1, h2, h3⟩; exact ⟨⟨h1, h2⟩, h3⟩
      · rintro ⟨⟨h1, h2⟩, h3⟩; exact ⟨h1, h2, h3⟩
    | stop => simp only [List.cons_append, wellFormed, itemsOf, ih]
    | exc e =>
      simp only [List.cons_append, wellFormed, itemsOf, ih]
      constructor
      · rintro ⟨h1, h2, h3, h4⟩; exact ⟨⟨h1, h2, h3⟩, h4⟩
      · rintro ⟨⟨h1, h2, h3⟩, h4⟩; exact ⟨h1, h2, h3, h4⟩

/-- invariant that survives `close()` and holds for the original constructor ordering as well -/
structure GInv (items : List α) (ending : Ending ε) (s : St α ε) : Prop where
  split : itemsOf s.out ++ s.buffer ++ pcItem s.ppc ++ s.src = items
  haveErr : ∀ e, s.ppc = .haveErr e → e = ending ∧ s.src = []
  err : ∀ e, s.error = some e → e = ending ∧ s.src = [] ∧ s.ppc = .done
  wf : wellFormed ending items s.out

private theorem ginv_init (items : List α) (ending : Ending ε) : GInv items ending (init items) := by
  refine ⟨?_, ?_, ?_, ?_⟩ <;> simp [init, pcItem, itemsOf, wellFormed]

private theorem drop_of_split (a b items : List α) (h : a ++ b = items) : items.drop a.length = b := by
  subst h; simp

private theorem ginv_step (v : Variant) (items : List α) (ending : Ending ε) (bs : Nat) (l : Label)
    (s s' : St α ε) (hi : GInv items ending s) (h : step v bs ending l s = some s') :
    GInv items ending s' := by
  obtain ⟨hsplit, herr, hE, hwf⟩ := hi
  cases l with
  | close =>
    simp only [step] at h
    split at h <;> cases h
    exact ⟨by simpa using hsplit, by simpa using herr, by simpa using hE, by simpa using hwf⟩
  | ctor =>
    simp only [step] at h
    split at h <;> cases h
    · refine ⟨by simpa using hsplit, by simpa using herr, ?_, by simpa using hwf⟩
      intro e he; simp at he; simpa using hE e he.2
    · exact ⟨by simpa using hsplit, by simpa using herr, by simpa using hE, by simpa using hwf⟩
    · refine ⟨by simpa using hsplit, by simpa using herr, ?_, by simpa using hwf⟩
      intro e he; simp at he; simpa using hE e he.2
  | fetch =>
    simp only [step] at h
    split at h
    · split at h
      · next x r hp hsrc =>
        cases h
        refine ⟨?_, by simp, ?_, by simpa using hwf⟩
        · simp [pcItem, hp, hsrc] at hsplit ⊢; exact hsplit
        · intro e he; have := hE e (by simpa using he); simp_all
      · next hp hsrc =>
        cases h
        refine ⟨?_, ?_, ?_, by simpa using hwf⟩
        · simp [pcItem, hp, hsrc] at hsplit ⊢; exact hsplit
        · intro e he; simp at he; exact ⟨he.symm, hsrc⟩
        · intro e he; have := hE e (by simpa using he); simp_all
      · cases h
    · cases h
  | put =>
    simp only [step] at h
    split at h
    · next x hp =>
      have hne : ∀ e, s.error ≠ some e := by
        intro e he; have := (hE e he).2.2; simp_all
      split at h <;> cases h
      · refine ⟨?_, ?_, ?_, by simpa using hwf⟩
        · cases ha : s.active <;> simp [pcItem, hp, afterWait, ha] at hsplit ⊢ <;> exact hsplit
        · intro e he; cases ha : s.active <;> simp [afterWait, ha] at he
        · intro e he; exact absurd (by simpa using he) (hne e)
      · refine ⟨?_, by simp, ?_, by simpa using hwf⟩
        · simp [pcItem, hp] at hsplit ⊢; exact hsplit
        · intro e he; exact absurd (by simpa using he) (hne e)
    · cases h
  | wake =>
    simp only [step] at h
    split at h
    · next hp =>
      have hne : ∀ e, s.error ≠ some e := by
        intro e he; have := (hE e he).2.2; simp_all
      split at h <;> cases h
      refine ⟨?_, ?_, ?_, by simpa using hwf⟩
      · cases ha : s.active <;> simp [pcItem, hp, afterWait, ha] at hsplit ⊢ <;> exact hsplit
      · intro e he; cases ha : s.active <;> simp [afterWait, ha] at he
      · intro e he; exact absurd (by simpa using he) (hne e)
    · cases h
  | fail =>
    simp only [step] at h
    split at h
    · next e hp =>
      cases h
      obtain ⟨he, hsrc⟩ := herr e hp
      refine ⟨?_, by simp, ?_, by simpa using hwf⟩
      · simp [pcItem, hp] at hsplit ⊢; exact hsplit
      · intro e' he'; simp at he'; subst he'; exact ⟨he, hsrc, rfl⟩
    · cases h
  | next =>
    simp only [step] at h
    split at h
    · split at h
      · next x r hb =>
        cases h
        refine ⟨?_, by simpa using herr, by simpa using hE, ?_⟩
        · simp [hb, itemsOf_append, itemsOf] at hsplit ⊢; exact hsplit
        · show wellFormed ending items (s.out ++ [Obs.item x])
          rw [wellFormed_snoc]
          refine ⟨hwf, ?_⟩
          have := drop_of_split (itemsOf s.out) (s.buffer ++ pcItem s.ppc ++ s.src) items
            (by simpa [List.append_assoc] using hsplit)
          rw [this, hb]; simp [wellFormed]
      · next hb =>
        split at h
        · cases h
        · split at h <;> cases h
          · next e he =>
            obtain ⟨hee, hsrc, hd⟩ := hE e he
            refine ⟨?_, by simpa using herr, by simpa using hE, ?_⟩
            · cases e <;> simp [itemsOf_append, itemsOf, Ending.obs] at hsplit ⊢ <;> exact hsplit
            · show wellFormed ending items (s.out ++ [e.obs])
              rw [wellFormed_snoc]
              refine ⟨hwf, ?_⟩
              have := drop_of_split (itemsOf s.out) (s.buffer ++ pcItem s.ppc ++ s.src) items
                (by simpa [List.append_assoc] using hsplit)
              rw [this, hb, hd, hsrc]
              cases e <;> simp [wellFormed, Ending.obs, pcItem, hee]
          · refine ⟨?_, by simpa using herr, by simpa using hE, ?_⟩
            · simp [itemsOf_append, itemsOf] at hsplit ⊢; exact hsplit
            · show wellFormed ending items (s.out ++ [Obs.stop])
              rw [wellFormed_snoc]
              exact ⟨hwf, by simp [wellFormed]⟩
    · cases h

private theorem ginv_run (v : Variant) (items : List α) (ending : Ending ε) (bs : Nat) :
    ∀ (sched : List Label) (s s' : St α ε), GInv items ending s →
      run v bs ending sched s = some s' → GInv items ending s' := by
  intro sched
  induction sched with
  | nil => intro s s' hi h; simp [run] at h; subst h; exact hi
  | cons l ls ih =>
    intro s s' hi h
    simp only [run] at h
    cases hs : step v bs ending l s with
    | none => simp [hs] at h
    | some s1 =>
      simp [hs] at h
      exact ih s1 s' (ginv_step v items ending bs l s s1 hi hs) h

/-- **Safety with `close()` and for either constructor ordering.**  For every schedule, including
`close()` calls at arbitrary points, and for the original as well as the repaired constructor:
items are never invented, duplicated, reordered or skipped (the delivered items are a prefix of the
source), and an exception is only ever the source's own, seen only after all items were delivered.
(What the original ordering breaks is *not* this: it is that the exception can be lost, see
`prefetch_iterator_orig_loses_exception`.) -/
theorem prefetch_iterator_close_safety (v : Variant) (items : List α) (ending : Ending ε) (bs : Nat)
    (sched : List Label) (s : St α ε) (h : run v bs ending sched (init items) = some s) :
    wellFormed ending items s.out ∧ ∃ k, itemsOf s.out = items.take k := by
  have hi := ginv_run v items ending bs sched _ _ (ginv_init items ending) h
  refine ⟨hi.wf, (itemsOf s.out).length, ?_⟩
  exact prefix_take _ (s.buffer ++ pcItem s.ppc ++ s.src) items (by simpa [List.append_assoc] using hi.split)

/-! ### the original constructor ordering loses the exception (finding F5) -/

private theorem run_append (v : Variant) (bs : Nat) (ending : Ending ε) :
    ∀ (a b : List Label) (s : St α ε),
      run v bs ending (a ++ b) s = (run v bs ending a s).bind (run v bs ending b) := by
  intro a
  induction a with
  | nil => intro b s; simp [run]
  | cons l ls ih =>
    intro b s
    simp only [List.cons_append, run]
    cases step v bs ending l s with
    | none => simp
    | some s1 => simp [ih]

private theorem orig_fill (v : Variant) (bs : Nat) (ending : Ending ε) (err : Option (Ending ε))
    (out : List (Obs α ε)) :
    ∀ (items buf : List α), buf.length + items.length < bs →
      run v bs ending (items.flatMap (fun _ => [Label.fetch, Label.put]))
          ⟨2, items, .fetch, buf, true, err, out⟩
        = some ⟨2, [], .fetch, buf ++ items, true, err, out⟩ := by
  intro items
  induction items with
  | nil => intro buf _; simp [run]
  | cons x xs ih =>
    intro buf hlt
    simp only [List.length_cons] at hlt
    have hp : prodPred bs (⟨2, xs, .haveItem x, buf ++ [x], true, err, out⟩ : St α ε) = true := by
      simp [prodPred]; omega
    simp only [List.flatMap_cons, List.cons_append, List.nil_append, run, step]
    simp [hp, afterWait]
    have := ih (buf ++ [x]) (by simp; omega)
    simpa using this

private theorem orig_drain (v : Variant) (bs : Nat) (ending : Ending ε) (err : Option (Ending ε)) :
    ∀ (items : List α) (out : List (Obs α ε)),
      run v bs ending (List.replicate items.length Label.next) ⟨3, [], .done, items, false, err, out⟩
        = some ⟨3, [], .done, [], false, err, out ++ items.map Obs.item⟩ := by
  intro items
  induction items with
  | nil => intro out; simp [run]
  | cons x xs ih =>
    intro out
    simp only [List.length_cons, List.replicate_succ, run, step]
    simp [ih]

/-- the schedule on which the pinned commit loses the source's exception: the producer runs until
it has stored the exception *before* the constructor executes its trailing `self._error = None` -/
def origSchedule (n : Nat) : List Label :=
  [.ctor, .ctor] ++ (List.replicate n ()).flatMap (fun _ => [Label.fetch, Label.put])
    ++ [.fetch, .fail, .ctor] ++ List.replicate n .next ++ [.next]

/-- **Finding F5 (fixed by the `fix:` commit), in general form.**  With the constructor as shipped at
the pinned commit (`start()` before `_error = None`), for *every* source that raises `e` after fewer
items than `buffer_size` (in particular on its very first `next()`, for every `buffer_size ≥ 1`)
there is an interleaving on which the consumer receives the items and then a clean `StopIteration`:
the exception is silently lost.  The schedule contains no `close()`. -/
theorem prefetch_iterator_orig_loses_exception (items : List α) (e : ε) (bs : Nat)
    (hlt : items.length < bs) :
    ∃ s, run .orig bs (.raises e) (origSchedule items.length) (init items) = some s ∧
      s.out = items.map Obs.item ++ [Obs.stop] ∧ Label.close ∉ origSchedule items.length := by
  refine ⟨⟨3, [], .done, [], false, none, items.map Obs.item ++ [Obs.stop]⟩, ?_, rfl, ?_⟩
  · have hfm : (List.replicate items.length ()).flatMap (fun _ => [Label.fetch, Label.put])
        = items.flatMap (fun _ => [Label.fetch, Label.put]) := by
      induction items with
      | nil => rfl
      | cons x xs ih => simp [List.replicate_succ, ih (by simp at hlt; omega)]
    have h1 : run .orig bs (.raises e) [.ctor, .ctor] (init items)
        = some ⟨2, items, .fetch, [], true, none, []⟩ := by simp [run, step, init]
    have h2 := orig_fill (α := α) .orig bs (.raises e) none [] items [] (by simpa using hlt)
    have h3 : run .orig bs (.raises e) [.fetch, .fail, .ctor] (⟨2, [], .fetch, [] ++ items, true, none, []⟩ : St α ε)
        = some ⟨3, [], .done, items, false, none, []⟩ := by simp [run, step]
    have h4 := orig_drain (α := α) .orig bs (.raises e) none items []
    have h5 : run .orig bs (.raises e) [.next] (⟨3, [], .done, [], false, none, [] ++ items.map Obs.item⟩ : St α ε)
        = some ⟨3, [], .done, [], false, none, items.map Obs.item ++ [Obs.stop]⟩ := by simp [run, step]
    rw [origSchedule, hfm, run_append, run_append, run_append, run_append, h1]
    simp only [Option.bind]
    rw [h2]; simp only [Option.bind]
    rw [h3]; simp only [Option.bind]
    rw [h4]; simp only [Option.bind]
    rw [h5]
  · simp [origSchedule]

/-- The same on the smallest instance, checked by evaluation: source raises on its first `next()`,
`buffer_size = 1`, schedule `start; next raises; store error; _error := None; consumer`. -/
theorem prefetch_iterator_orig_counterexample :
    (run .orig 1 (.raises 7) [.ctor, .ctor, .fetch, .fail, .ctor, .next] (init ([] : List Nat))).map (·.out)
      = some [Obs.stop] := by decide

/-- ... and the repaired ordering on the very same schedule delivers the exception. -/
theorem prefetch_iterator_fixed_same_schedule :
    (run .fixed 1 (.raises 7) [.ctor, .ctor, .fetch, .fail, .ctor, .next] (init ([] : List Nat))).map (·.out)
      = some [Obs.exc 7] := by decide

/-- **Finding F5b (fixed by the second `fix:` commit).**  At the pinned commit `__next__` tested the
truth value of the stored exception: a source exception whose instance is falsy was replaced by a
clean `StopIteration`; the repaired tail (`is not None`, the one the transition system uses)
re-raises every stored exception. -/
theorem next_tail_orig_drops_falsy_exception (e : ε) :
    nextTailOrig (α := α) (fun _ => false) (some (.raises e)) = Obs.stop ∧
    nextTail (α := α) (some (.raises e)) = Obs.exc e ∧
    (∀ (s s' : St α ε) (bs : Nat) (ending : Ending ε) (v : Variant), s.ctor = 3 → s.buffer = [] → s.active = false →
      step v bs ending .next s = some s' → s'.out = s.out ++ [nextTail s.error]) := by
  refine ⟨rfl, rfl, ?_⟩
  intro s s' bs ending v hc hb ha h
  simp only [step, hc, hb, ha] at h
  cases he : s.error <;> simp [he] at h <;> subst h <;> simp [nextTail]

/-- **Why `_active` must be cleared under the lock.**  In the variant whose exception handler executes
`self._active = False` before entering `with self._cond:`, the consumer can run between the two
writes: it finds the iterator inactive, the buffer empty and no error yet, and reports a clean
`StopIteration`; the source's exception only shows on a later `next()`.  (With the handler as it
is — one critical section, the `fail` step — `prefetch_iterator_all_schedules` excludes this.) -/
theorem prefetch_iterator_unlocked_active_counterexample :
    (runUnlockedActive 1 (.raises 7) [.ctor, .ctor, .ctor, .fetch, .fail, .next, .fail, .next]
        ⟨init ([] : List Nat), none⟩).map (·.s.out)
      = some [Obs.stop, Obs.exc 7] := by decide

/-- `buffer_size = 0` is an excluded point, not covered by `prefetch_iterator_no_deadlock`: after the
first item the producer waits for `len(buffer) < 0` and the consumer for an item — nothing but
`close()` can move. -/
theorem prefetch_iterator_buffer0_deadlocks :
    (run .fixed 0 (Ending.stop (ε := Nat)) [.ctor, .ctor, .ctor, .fetch, .put, .next] (init [1, 2])).map
        (fun s => (s.out, enabled .fixed 0 (Ending.stop (ε := Nat)) s))
      = some ([Obs.item 1], [Label.close]) := by decide

/-! non-vacuity: concrete complete runs satisfying the hypotheses of the theorems above -/

example : (run .fixed 1 (.raises 9) [.ctor, .ctor, .fetch, .ctor, .put, .next, .wake, .fetch, .put, .next,
      .wake, .fetch, .fail, .next, .next] (init [1, 2])).map (·.out)
    = some [Obs.item 1, Obs.item 2, Obs.exc 9, Obs.exc 9] := by decide

example : (run .fixed 2 (Ending.stop (ε := Nat)) [.ctor, .ctor, .fetch, .put, .fetch, .put, .ctor, .next, .wake,
      .fetch, .fail, .next, .next] (init [1, 2])).map (·.out)
    = some [Obs.item 1, Obs.item 2, Obs.stop] := by decide

-- a schedule of length 4·n+6 (n = 1) as required by `prefetch_iterator_delivers_everything`
example : (run .fixed 1 (.raises 9) [.ctor, .ctor, .ctor, .fetch, .put, .next, .wake, .fetch, .fail, .next]
      (init [5])).map (·.out) = some [Obs.item 5, Obs.exc 9] := by decide

-- a run with `close()` in the middle: the consumer gets a prefix and then `StopIteration`, and
-- (the producer still holding a fetched item) one more item afterwards — allowed by `wellFormed`,
-- which is why "then stop" is only claimed for schedules without `close()`
example : (run .fixed 1 (.raises 9) [.ctor, .ctor, .ctor, .fetch, .close, .next, .put, .next, .next]
      (init [5, 6])).map (·.out) = some [Obs.stop, Obs.item 5, Obs.stop] := by decide

example : wellFormed (Ending.raises 9) [5, 6] [Obs.stop, Obs.item 5, Obs.stop] := by simp [wellFormed]
example : ¬ wellFormed (Ending.raises 9) [5, 6] [Obs.item 5, Obs.exc 9] := by simp [wellFormed]
example : ¬ wellFormed (Ending.raises 9) [5, 6] [Obs.item 6] := by simp [wellFormed]

end Lts

/-! # prefetch_to_device: sequential deque invariant -/

section Ptd
variable {α ε : Type}

private theorem genRun_finished (size : Nat) (ending : Ending ε) (q src : List α) (st : Bool) :
    ∀ k, genRun size ending k ⟨st, true, q, src⟩ = List.replicate k (Obs.stop : Obs α ε) := by
  intro k
  induction k with
  | zero => rfl
  | succ k ih => simp [genRun, genNext, ih, List.replicate_succ]

private theorem enqueue_le (ending : Ending ε) :
    ∀ (n : Nat) (q src : List α), n ≤ src.length →
      enqueue ending n q src = (q ++ src.take n, src.drop n, none) := by
  intro n
  induction n with
  | zero => intro q src _; simp [enqueue]
  | succ n ih =>
    intro q src h
    cases src with
    | nil => simp at h
    | cons x r =>
      simp only [enqueue]
      rw [ih (q ++ [x]) r (by simpa using h)]
      simp

private theorem enqueue_gt (ending : Ending ε) :
    ∀ (n : Nat) (q src : List α), src.length < n →
      enqueue ending n q src = (q ++ src, [], match ending with | .stop => none | .raises e => some e) := by
  intro n
  induction n with
  | zero => intro q src h; simp at h
  | succ n ih =>
    intro q src h
    cases src with
    | nil => cases ending <;> simp [enqueue]
    | cons x r =>
      simp only [enqueue]
      rw [ih (q ++ [x]) r (by simpa using h)]
      simp

/-- the first `k` observations of the stream "`L`, then `StopIteration` for ever" -/
def firstK (L : List (Obs α ε)) (k : Nat) : List (Obs α ε) := (L ++ List.replicate k Obs.stop).take k

private theorem take_pad (s : Obs α ε) : ∀ (L : List (Obs α ε)) (k m m' : Nat), k ≤ m → k ≤ m' →
    (L ++ List.replicate m s).take k = (L ++ List.replicate m' s).take k := by
  intro L
  induction L with
  | nil => intro k m m' h h'; simp [List.take_replicate, Nat.min_eq_left h, Nat.min_eq_left h']
  | cons a t ih =>
    intro k m m' h h'
    cases k with
    | zero => simp
    | succ k => simp [ih k m m' (by omega) (by omega)]

private theorem firstK_cons (a : Obs α ε) (L : List (Obs α ε)) (k : Nat) :
    firstK (a :: L) (k + 1) = a :: firstK L k := by
  simp [firstK, take_pad Obs.stop L k (k + 1) k (by omega) (by omega)]

private theorem firstK_nil (k : Nat) : firstK ([] : List (Obs α ε)) k = List.replicate k Obs.stop := by
  simp [firstK]

private theorem firstK_zero (L : List (Obs α ε)) : firstK L 0 = [] := by simp [firstK]

/-- steady state (after the first `next`): with a source that ends normally the generator is a FIFO -/
private theorem genRun_steady_stop (size : Nat) :
    ∀ (k : Nat) (q src : List α),
      genRun size (Ending.stop (ε := ε)) k ⟨true, false, q, src⟩ = firstK ((q ++ src).map Obs.item) k := by
  intro k
  induction k with
  | zero => intro q src; simp [genRun, firstK_zero]
  | succ k ih =>
    intro q src
    cases src with
    | cons x r =>
      have he : enqueue (Ending.stop (ε := ε)) 1 q (x :: r) = (q ++ [x], r, none) := by
        simp [enqueue]
      cases q with
      | nil => simp [genRun, genNext, he, ih, firstK_cons]
      | cons h t => simp [genRun, genNext, he, ih, firstK_cons]
    | nil =>
      have he : enqueue (Ending.stop (ε := ε)) 1 q ([] : List α) = (q, [], none) := by
        simp [enqueue]
      cases q with
      | nil => simp [genRun, genNext, he, genRun_finished, firstK_nil, List.replicate_succ]
      | cons h t => simp [genRun, genNext, he, ih, firstK_cons]

/-- steady state with a raising source: one more item per item still in the source, then the exception -/
private theorem genRun_steady_raises (size : Nat) (e : ε) :
    ∀ (k : Nat) (q src : List α),
      genRun size (Ending.raises e) k ⟨true, false, q, src⟩
        = firstK ((((q ++ src).take src.length).map Obs.item) ++ [Obs.exc e]) k := by
  intro k
  induction k with
  | zero => intro q src; simp [genRun, firstK_zero]
  | succ k ih =>
    intro q src
    cases src with
    | cons x r =>
      have he : enqueue (Ending.raises e) 1 q (x :: r) = (q ++ [x], r, none) := by
        simp [enqueue]
      cases q with
      | nil => simp [genRun, genNext, he, ih, firstK_cons]
      | cons h t => simp [genRun, genNext, he, ih, firstK_cons]
    | nil =>
      have he : enqueue (Ending.raises e) 1 q ([] : List α) = (q, [], some e) := by
        simp [enqueue]
      simp [genRun, genNext, he, genRun_finished, firstK_cons, firstK_nil]

/-- **prefetch_to_device, order.**  For every source length and every buffer `size ≥ 1`, `k` calls of
`next` on the generator produce exactly the first `k` of: the source's items in order, each once,
then `StopIteration` for ever. -/
theorem prefetch_to_device_order (items : List α) (size : Nat) (hs : 1 ≤ size) (k : Nat) :
    genRun size (Ending.stop (ε := ε)) k (genInit items) = firstK (items.map Obs.item) k := by
  cases k with
  | zero => simp [genRun, firstK_zero]
  | succ k =>
    obtain ⟨s, rfl⟩ : ∃ s, size = s + 1 := ⟨size - 1, by omega⟩
    cases items with
    | nil =>
      have he : enqueue (Ending.stop (ε := ε)) (s + 1) [] ([] : List α) = ([], [], none) := by simp [enqueue]
      simp [genRun, genNext, genInit, he, genRun_finished, firstK_nil, List.replicate_succ]
    | cons x r =>
      by_cases hle : s + 1 ≤ (x :: r).length
      · have he := enqueue_le (Ending.stop (ε := ε)) (s + 1) [] (x :: r) hle
        simp [genRun, genNext, genInit, he, genRun_steady_stop, firstK_cons]
      · have he := enqueue_gt (Ending.stop (ε := ε)) (s + 1) [] (x :: r) (by omega)
        simp [genRun, genNext, genInit, he, genRun_steady_stop, firstK_cons]

/-- **prefetch_to_device delivers all.**  For *any* item type `α` — the statement is parametric, so no
value of `α` (a `None`, an empty container, a falsy scalar, an item equal to its neighbour) can act
as an end-of-stream sentinel — every source and every `size ≥ 1`: the first `n + k` calls of `next`
give exactly the `n` source items, in order, each once, and then `k` times `StopIteration`. -/
theorem prefetch_to_device_delivers_all (items : List α) (size : Nat) (hs : 1 ≤ size) (k : Nat) :
    genRun size (Ending.stop (ε := ε)) (items.length + k) (genInit items)
      = items.map Obs.item ++ List.replicate k Obs.stop := by
  rw [prefetch_to_device_order items size hs, firstK]
  have h : (items.map (Obs.item (ε := ε))).length = items.length := by simp
  rw [← h, List.take_length_add_append, List.take_replicate]
  congr 2; omega

/-- **prefetch_to_device with a raising source** (the code as it is: a generator).  The exception
surfaces at the `next` that pulled it from the source: the consumer gets the first `n + 1 - size`
items, then the source's exception, then `StopIteration`; the `min (size-1) n` items that were
already buffered are dropped.  For `size = 1` nothing is dropped. -/
theorem prefetch_to_device_exception (items : List α) (e : ε) (size : Nat) (hs : 1 ≤ size) (k : Nat) :
    genRun size (Ending.raises e) k (genInit items)
      = firstK (((items.take (items.length + 1 - size)).map Obs.item) ++ [Obs.exc e]) k := by
  cases k with
  | zero => simp [genRun, firstK_zero]
  | succ k =>
    obtain ⟨s, rfl⟩ : ∃ s, size = s + 1 := ⟨size - 1, by omega⟩
    by_cases hle : s + 1 ≤ items.length
    · cases items with
      | nil => simp at hle
      | cons x r =>
        have he := enqueue_le (Ending.raises e) (s + 1) [] (x :: r) hle
        simp only [List.length_cons] at hle
        have h1 : (x :: r).length + 1 - (s + 1) = (r.length - s) + 1 := by simp; omega
        have h2 : (List.take s r ++ List.drop s r) = r := List.take_append_drop s r
        have h3 : r.length + 1 - s = (r.length - s) + 1 := by omega
        simp [genRun, genNext, genInit, he, genRun_steady_raises, firstK_cons, h1, h2, h3]
    · have he := enqueue_gt (Ending.raises e) (s + 1) [] items (by omega)
      have h1 : items.length + 1 - (s + 1) = 0 := by omega
      simp [genRun, genNext, genInit, he, h1, genRun_finished, firstK_cons, firstK_nil]

/-- with `size = 1` the exception clause of the property holds for `prefetch_to_device` too -/
theorem prefetch_to_device_exception_size1 (items : List α) (e : ε) (k : Nat) :
    genRun 1 (Ending.raises e) k (genInit items) = firstK ((items.map Obs.item) ++ [Obs.exc e]) k := by
  have := prefetch_to_device_exception items e 1 (by omega) k
  simpa using this

/-- `size = 0` is an excluded point: the generator yields nothing, whatever the source holds. -/
theorem prefetch_to_device_size0 (items : List α) (ending : Ending ε) (k : Nat) :
    genRun 0 ending k (genInit items) = List.replicate k Obs.stop := by
  cases k with
  | zero => rfl
  | succ k => simp [genRun, genNext, genInit, enqueue, genRun_finished, List.replicate_succ]

example : genRun 2 (Ending.stop (ε := Nat)) 5 (genInit [1, 2, 3]) = [.item 1, .item 2, .item 3, .stop, .stop] := by decide
example : genRun 2 (Ending.raises 9) 5 (genInit [1, 2, 3]) = [.item 1, .item 2, .exc 9, .stop, .stop] := by decide
example : genRun 1 (Ending.raises 9) 5 (genInit [1, 2, 3]) = [.item 1, .item 2, .item 3, .exc 9, .stop] := by decide
-- a source whose second item is the distinguished "nothing" value: delivered like any other item
example : genRun 2 (Ending.stop (ε := Nat)) 4 (genInit [some 1, none, some 3])
    = [.item (some 1), .item none, .item (some 3), .stop] := by decide
example : genRun 1 (Ending.stop (ε := Nat)) 4 (genInit [(none : Option Nat), none, none])
    = [.item none, .item none, .item none, .stop] := by decide
example : firstK [Obs.item 1, Obs.exc 9] 4 = [Obs.item 1, Obs.exc 9, Obs.stop, (Obs.stop : Obs Nat Nat)] := by decide

end Ptd

/-! # pad_shard_unpad and the reshape helpers -/

section Host
open Flax.HostData
variable {α β γ : Type}

private theorem chunks_flatten : ∀ (d db : Nat) (xs : List α), (chunks d db xs).flatten = xs.take (d * db) := by
  intro d
  induction d with
  | zero => intro db xs; simp [chunks]
  | succ d ih =>
    intro db xs
    simp only [chunks, List.flatten_cons, ih]
    rw [Nat.succ_mul, Nat.add_comm (d * db) db, List.take_add]

private theorem chunks_length (d db : Nat) (xs : List α) : (chunks d db xs).length = d := by
  induction d generalizing xs with
  | zero => simp [chunks]
  | succ d ih => simp [chunks, ih]

private theorem chunks_each : ∀ (d db : Nat) (xs : List α), xs.length = d * db →
    ∀ c ∈ chunks d db xs, c.length = db := by
  intro d
  induction d with
  | zero => intro db xs _ c hc; simp [chunks] at hc
  | succ d ih =>
    intro db xs hlen c hc
    simp only [chunks, List.mem_cons] at hc
    rw [Nat.succ_mul] at hlen
    rcases hc with rfl | hc
    · simp; omega
    · exact ih db (xs.drop db) (by simp; omega) c hc

private theorem chunks_map (f : α → β) : ∀ (d db : Nat) (xs : List α),
    (chunks d db xs).map (fun c => c.map f) = chunks d db (xs.map f) := by
  intro d
  induction d with
  | zero => intro db xs; simp [chunks]
  | succ d ih => intro db xs; simp [chunks, ih, List.map_take, List.map_drop]

private theorem chunks_zipWith (f : α → β → γ) : ∀ (d db : Nat) (xs : List α) (ys : List β),
    List.zipWith (fun c e => List.zipWith f c e) (chunks d db xs) (chunks d db ys)
      = chunks d db (List.zipWith f xs ys) := by
  intro d
  induction d with
  | zero => intro db xs ys; simp [chunks]
  | succ d ih => intro db xs ys; simp [chunks, ih, List.take_zipWith, List.drop_zipWith]

/-- per-device batch after padding: `max ⌈b/d⌉ min_device_batch` -/
def paddedDb (d mdb b : Nat) : Nat := max ((b + d - 1) / d) mdb

private theorem ceil_div (b d : Nat) (hd : 1 ≤ d) :
    (b + d - 1) / d = if b % d ≠ 0 then b / d + 1 else b / d := by
  have h1 := Nat.div_add_mod b d
  have h2 := Nat.mod_lt b (by omega : d > 0)
  split
  · next hr =>
    have : b + d - 1 = (b % d - 1) + d * (b / d + 1) := by rw [Nat.mul_succ]; omega
    rw [this, Nat.add_mul_div_left _ _ (by omega : 0 < d), Nat.div_eq_of_lt (by omega)]; omega
  · next hr =>
    have hr0 : b % d = 0 := by omega
    have : b + d - 1 = (d - 1) + d * (b / d) := by omega
    rw [this, Nat.add_mul_div_left _ _ (by omega : 0 < d), Nat.div_eq_of_lt (by omega)]; omega

/-- the arithmetic of `pad`: the padded rows are the batch followed by zero rows, their number is
`d · db` with `db = max ⌈b/d⌉ min_device_batch` -/
private theorem padRows_spec (z : α) (d mdb : Nat) (hd : 1 ≤ d) (xs : List α) :
    (padRows z d mdb xs.length xs).1 = paddedDb d mdb xs.length ∧
    (padRows z d mdb xs.length xs).2 = xs ++ List.replicate (d * paddedDb d mdb xs.length - xs.length) z ∧
    xs.length ≤ d * paddedDb d mdb xs.length := by
  have h1 := Nat.div_add_mod xs.length d
  have h2 := Nat.mod_lt xs.length (by omega : d > 0)
  have hc := ceil_div xs.length d hd
  -- first padding step
  have step1 : ∀ (p1 : Nat × List α),
      p1 = (if xs.length % d ≠ 0 then (xs.length / d + 1, xs ++ List.replicate (d - xs.length % d) z) else (xs.length / d, xs)) →
      p1.1 = (xs.length + d - 1) / d ∧ p1.2 = xs ++ List.replicate (d * p1.1 - xs.length) z ∧ xs.length ≤ d * p1.1 := by
    intro p1 hp1
    by_cases hr : xs.length % d ≠ 0
    · rw [if_pos hr] at hp1; rw [if_pos hr] at hc
      subst hp1
      have e1 : d * (xs.length / d + 1) = xs.length + (d - xs.length % d) := by rw [Nat.mul_succ]; omega
      refine ⟨hc.symm, ?_, ?_⟩
      · show xs ++ _ = xs ++ _; congr 2; show d - xs.length % d = d * (xs.length / d + 1) - xs.length; omega
      · show xs.length ≤ d * (xs.length / d + 1); omega
    · rw [if_neg hr] at hp1; rw [if_neg hr] at hc
      subst hp1
      have e1 : d * (xs.length / d) = xs.length := by omega
      refine ⟨hc.symm, ?_, ?_⟩
      · show xs = xs ++ List.replicate (d * (xs.length / d) - xs.length) z; rw [e1]; simp
      · show xs.length ≤ d * (xs.length / d); omega
  -- second padding step
  have step2 : ∀ (p1 : Nat × List α), p1.2 = xs ++ List.replicate (d * p1.1 - xs.length) z → xs.length ≤ d * p1.1 →
      ∀ (p2 : Nat × List α),
      p2 = (if mdb ≠ 0 ∧ p1.1 < mdb then (mdb, p1.2 ++ List.replicate (d * (mdb - p1.1)) z) else p1) →
      p2.1 = max p1.1 mdb ∧ p2.2 = xs ++ List.replicate (d * (max p1.1 mdb) - xs.length) z ∧ xs.length ≤ d * (max p1.1 mdb) := by
    intro p1 hrows hle p2 hp2
    by_cases hm : mdb ≠ 0 ∧ p1.1 < mdb
    · rw [if_pos hm] at hp2
      subst hp2
      have hmax : max p1.1 mdb = mdb := Nat.max_eq_right (by omega)
      have e2 : d * mdb = d * p1.1 + d * (mdb - p1.1) := by rw [← Nat.mul_add]; congr 1; omega
      rw [hmax]
      refine ⟨rfl, ?_, by omega⟩
      show p1.2 ++ _ = _
      rw [hrows, List.append_assoc, List.replicate_append_replicate]; congr 2; omega
    · rw [if_neg hm] at hp2
      subst hp2
      have hmax : max p2.1 mdb = p2.1 := by
        apply Nat.max_eq_left
        by_cases h0 : mdb = 0
        · omega
        · have : ¬ p2.1 < mdb := fun h => hm ⟨h0, h⟩
          omega
      rw [hmax]
      exact ⟨rfl, hrows, hle⟩
  obtain ⟨a1, a2, a3⟩ := step1 _ rfl
  obtain ⟨b1, b2, b3⟩ := step2 _ a2 a3 _ rfl
  refine ⟨b1.trans (by rw [a1]; rfl), b2.trans (by rw [a1]; rfl), ?_⟩
  rw [a1] at b3; exact b3

/-- **What `wrapped` receives.**  For every batch size `b` (also 0), device count `d ≥ 1` and
`min_device_batch` (`0` = `None`): padding succeeds (the reshape is always legal), the result has
exactly `d` device rows of `db = max ⌈b/d⌉ min_device_batch` examples each (so the padded batch is
divisible by `d` and `db ≥ min_device_batch`), and read device-major it is the original batch
followed only by zero rows. -/
theorem pad_shape (z : α) (d mdb : Nat) (hd : 1 ≤ d) (xs : List α) :
    ∃ p, pad z d mdb xs.length xs = some p ∧ p.length = d ∧
      (∀ c ∈ p, c.length = paddedDb d mdb xs.length) ∧ mdb ≤ paddedDb d mdb xs.length ∧
      p.flatten = xs ++ List.replicate (d * paddedDb d mdb xs.length - xs.length) z := by
  obtain ⟨h1, h2, h3⟩ := padRows_spec z d mdb hd xs
  have hlen : (padRows z d mdb xs.length xs).2.length = d * (padRows z d mdb xs.length xs).1 := by
    rw [h1, h2]; simp; omega
  refine ⟨chunks d (padRows z d mdb xs.length xs).1 (padRows z d mdb xs.length xs).2, ?_, ?_, ?_, ?_, ?_⟩
  · simp [pad, reshape2, hlen]; omega
  · exact chunks_length _ _ _
  · intro c hc; rw [← h1]; exact chunks_each _ _ _ hlen c hc
  · exact Nat.le_max_right _ _
  · rw [chunks_flatten, ← hlen, List.take_length, h2]

/-- **pad_shard_unpad is the identity around a per-example function.**  For every batch (any size,
divisible by the device count or not), every device count `d ≥ 1`, every `min_device_batch` and
every per-example `f`: un-padding the result of `f` on the padded, sharded batch gives exactly `f`
on the original batch — the zero rows never reach the caller and no real row is lost or moved. -/
theorem pad_unpad_identity (z : α) (f : α → β) (d mdb : Nat) (hd : 1 ≤ d) (xs : List α) :
    padShardUnpad z f d mdb xs = some (xs.map f) := by
  obtain ⟨p, hp, _, _, _, hflat⟩ := pad_shape z d mdb hd xs
  simp only [padShardUnpad, hp, Option.map_some, unpad]
  congr 1
  have : (p.map (fun c => c.map f)).flatten = (p.flatten).map f := by
    simp [List.map_flatten]
  rw [this, hflat, List.map_append, List.take_left' (by simp)]

/-- the same for a pytree of inputs (two leaves of different row types, combined per example by
`wrapped`); nested pairs give any finite pytree.  Leaves of different batch size are rejected. -/
theorem pad_unpad_identity_two_leaves (za : α) (zb : β) (f : α → β → γ) (d mdb : Nat) (hd : 1 ≤ d)
    (xs : List α) (ys : List β) (hlen : xs.length = ys.length) :
    padShardUnpad2 za zb f d mdb xs ys = some (List.zipWith f xs ys) := by
  obtain ⟨h1, h2, h3⟩ := padRows_spec za d mdb hd xs
  obtain ⟨g1, g2, g3⟩ := padRows_spec zb d mdb hd ys
  rw [← hlen] at g1 g2 g3
  have hl1 : (padRows za d mdb xs.length xs).2.length = d * (padRows za d mdb xs.length xs).1 := by
    rw [h1, h2]; simp; omega
  have hl2 : (padRows zb d mdb xs.length ys).2.length = d * (padRows zb d mdb xs.length ys).1 := by
    rw [g1, g2]; simp; omega
  have hd0 : d ≠ 0 := by omega
  have hbs : batchSize [xs.length, ys.length] = some xs.length := by
    simp [batchSize, hlen]
  simp only [padShardUnpad2, hbs, pad, hd0, if_false, reshape2, hl1, hl2, if_true, unpad]
  congr 1
  rw [h1, g1, chunks_zipWith, chunks_flatten, h2, g2]
  rw [List.zipWith_append hlen]
  rw [List.take_take, Nat.min_eq_left h3]
  exact List.take_left' (by simp [List.length_zipWith]; omega)

theorem pad_rejects_inconsistent_batch (za : α) (zb : β) (f : α → β → γ) (d mdb : Nat)
    (xs : List α) (ys : List β) (hlen : xs.length ≠ ys.length) :
    padShardUnpad2 za zb f d mdb xs ys = none := by
  have : ¬ (ys.length = xs.length) := fun h => hlen h.symm
  simp [padShardUnpad2, batchSize, this]

example : pad (0 : Nat) 2 4 5 [1, 2, 3, 4, 5] = some [[1, 2, 3, 4], [5, 0, 0, 0]] := by decide
example : padShardUnpad (0 : Nat) (· * 2) 3 0 [1, 2, 3, 4, 5] = some [2, 4, 6, 8, 10] := by decide
example : paddedDb 3 0 5 = 2 ∧ paddedDb 2 4 5 = 4 ∧ paddedDb 4 0 8 = 2 := by decide

/-- `unreplicate ∘ replicate = id` for every device count `d ≥ 1` -/
theorem unreplicate_replicate (d : Nat) (hd : 1 ≤ d) (x : α) : unreplicate (replicate d x) = some x := by
  obtain ⟨k, rfl⟩ : ∃ k, d = k + 1 := ⟨d - 1, by omega⟩
  simp [unreplicate, replicate, List.replicate_succ]

/-- `shard` is the reshape `(d, b/d, …)`: defined exactly when `d ∣ b` (for `b, d ≥ 1`), and then it
is `d` consecutive chunks of `b/d` rows whose concatenation is the batch. -/
theorem shard_spec (d : Nat) (hd : 1 ≤ d) (xs : List α) (hb : 1 ≤ xs.length) :
    (xs.length % d = 0 → ∃ p, shard d xs = some p ∧ p.length = d ∧ (∀ c ∈ p, c.length = xs.length / d) ∧ p.flatten = xs) ∧
    (xs.length % d ≠ 0 → shard d xs = none) := by
  constructor
  · intro h
    have hmul : xs.length = d * (xs.length / d) := by
      have := Nat.div_add_mod xs.length d; omega
    refine ⟨chunks d (xs.length / d) xs, ?_, chunks_length _ _ _, chunks_each _ _ _ hmul, ?_⟩
    · have h0 : d ≠ 0 := by omega
      have hne : xs ≠ [] := by intro hx; simp [hx] at hb
      simp [shard, h0, hne, h]
    · rw [chunks_flatten, ← hmul, List.take_length]
  · intro h
    simp [shard, h]

/-- `stack_forest` stacks leaf-wise: leaf `p` of the result, position `i`, is leaf `p` of tree `i`
(for a non-empty forest of trees with the same number of leaves). -/
theorem stack_forest_spec (t : List α) (ts : List (List α)) (h : ∀ u ∈ ts, u.length = t.length) :
    ∃ r, stackForest (t :: ts) = some r ∧ r.length = t.length ∧
      ∀ (p i : Nat), p < t.length →
        (r[p]?.bind (fun (row : List α) => row[i]?)) = ((t :: ts)[i]?.bind (fun (u : List α) => u[p]?)) := by
  have hall : ts.all (fun u => decide (u.length = t.length)) = true := by
    simpa [List.all_eq_true] using h
  refine ⟨(List.range t.length).map (fun p => (t :: ts).filterMap (fun u => u[p]?)), ?_, by simp, ?_⟩
  · simp only [stackForest, hall, if_true]
  intro p i hp
  simp only [List.getElem?_map, List.getElem?_range hp, Option.map_some, Option.bind_some]
  have hfm : ∀ (us : List (List α)), (∀ u ∈ us, p < u.length) →
      ∀ (i : Nat), (us.filterMap (fun u => u[p]?))[i]? = us[i]?.bind (fun (u : List α) => u[p]?) := by
    intro us
    induction us with
    | nil => intro _ i; simp
    | cons u us ih =>
      intro hus i
      have hu : p < u.length := hus u (by simp)
      have : u[p]? = some u[p] := List.getElem?_eq_getElem hu
      simp only [List.filterMap_cons, this]
      cases i with
      | zero => simp [this]
      | succ i => simpa using ih (fun v hv => hus v (List.mem_cons_of_mem _ hv)) i
  exact hfm (t :: ts) (by
    intro u hu
    simp only [List.mem_cons] at hu
    rcases hu with rfl | hu
    · exact hp
    · rw [h u hu]; exact hp) i

theorem stack_forest_rejects_mismatch (t : List α) (ts : List (List α)) (u : List α) (hu : u ∈ ts)
    (hne : u.length ≠ t.length) : stackForest (t :: ts) = none := by
  have : ¬ (ts.all (fun u => decide (u.length = t.length)) = true) := by
    simp only [List.all_eq_true, decide_eq_true_eq]; intro h; exact hne (h u hu)
  simp [stackForest, this]

/-- `get_metrics` on metrics replicated over `d ≥ 1` devices is `stack_forest` of the metrics -/
theorem get_metrics_spec (d : Nat) (hd : 1 ≤ d) (steps : List (List α)) :
    getMetrics (steps.map (fun tree => tree.map (replicate d))) = stackForest steps := by
  have h1 : ∀ (tree : List α), (tree.map (replicate d)).mapM unreplicate = some tree := by
    intro tree
    induction tree with
    | nil => simp
    | cons x xs ih => simp [List.mapM_cons, unreplicate_replicate d hd, ih]
  have h2 : ∀ (ss : List (List α)),
      (ss.map (fun tree => tree.map (replicate d))).mapM (fun tree => tree.mapM unreplicate) = some ss := by
    intro ss
    induction ss with
    | nil => simp
    | cons x xs ih => simp [List.mapM_cons, h1, ih]
  simp [getMetrics, h2]

/-- `onehot` is the indicator: entry `(j, c)` is `on` iff `labels[j] = c`, for `c < num_classes`;
labels outside `[0, num_classes)` give an all-`off` row. -/
theorem onehot_indicator (labels : List Int) (n : Nat) (on off : β) (j c : Nat) (hc : c < n) :
    ((onehot labels n on off)[j]?.bind (fun (row : List β) => row[c]?)) = labels[j]?.map (fun l => if l = Int.ofNat c then on else off) := by
  simp only [onehot, List.getElem?_map]
  cases labels[j]? with
  | none => simp
  | some l => simp [List.getElem?_range hc]

/-- … and nothing else ever appears in the result: every element **is** `on` or `off` (the model is
parametric in the value type, so no arithmetic can be performed on the two values: `0 / -inf`
masks, label-smoothing constants and extreme magnitudes come out exactly as given). -/
theorem onehot_values_exact (labels : List Int) (n : Nat) (on off : β) :
    ∀ row ∈ onehot labels n on off, ∀ v ∈ row, v = on ∨ v = off := by
  intro row hrow v hv
  simp only [onehot, List.mem_map] at hrow
  obtain ⟨l, _, rfl⟩ := hrow
  simp only [List.mem_map] at hv
  obtain ⟨c, _, rfl⟩ := hv
  split
  · exact Or.inl rfl
  · exact Or.inr rfl

theorem onehot_shape (labels : List Int) (n : Nat) (on off : β) :
    (onehot labels n on off).length = labels.length ∧ ∀ row ∈ onehot labels n on off, row.length = n := by
  constructor
  · simp [onehot]
  · intro row h; simp only [onehot, List.mem_map] at h; obtain ⟨l, _, rfl⟩ := h; simp

example : onehot [0, 2, -1, 5] 3 (1 : Nat) 0 = [[1, 0, 0], [0, 0, 1], [0, 0, 0], [0, 0, 0]] := by decide
example : stackForest [[1, 2], [3, 4], [5, 6]] = some [[1, 3, 5], [2, 4, 6]] := by decide
example : shard 2 [1, 2, 3, 4] = some [[1, 2], [3, 4]] ∧ shard 3 [1, 2, 3, 4] = none := by decide

end Host

/-! # scan_in_dim: permutation algebra and the nested loop -/

section Scan
open Flax.HostData
variable {α β γ : Type}

/-- **`_invert_perm` is the inverse permutation**, for every permutation of `0 .. n-1`:
`inv[perm[k]] = k`, `perm[inv[m]] = m`, and `inv` is a permutation again. -/
theorem invert_perm_inverse (perm : List Nat) (hp : IsPerm perm) :
    (invertPerm perm).length = perm.length ∧ IsPerm (invertPerm perm) ∧
    (∀ k (hk : k < perm.length), (invertPerm perm)[perm[k]]? = some k) ∧
    (∀ m, m < perm.length → ∃ k, (invertPerm perm)[m]? = some k ∧ perm[k]? = some m) := by
  refine ⟨invertPerm_length perm hp, invertPerm_isPerm perm hp, invertPerm_left perm hp, ?_⟩
  intro m hm
  obtain ⟨k, _, h1, h2⟩ := invertPerm_right perm hp m hm
  exact ⟨k, h1, h2⟩

/-- **The permutation `axis + delete(arange(ndim), axis)` is a permutation of `0 .. ndim-1`** for every
tuple of distinct in-range axes, in any order: the scanned axes first (in the given order), then
the remaining axes in increasing order. -/
theorem scan_perm_is_permutation (axis : List Nat) (ndim : Nat) (h : ValidAxes axis ndim) :
    IsPerm (scanPerm axis ndim) ∧ (scanPerm axis ndim).length = ndim ∧
    scanPerm axis ndim = axis ++ restAxes axis ndim :=
  ⟨scanPerm_isPerm axis ndim h, scanPerm_length axis ndim h, rfl⟩

/-- **`transpose_out ∘ transpose_in = id`** on every array and for every valid axis tuple: same
shape, same element at every index. -/
theorem transpose_out_in_id (axis : List Nat) (x : Arr α) (h : ValidAxes axis x.shape.length) :
    (transposeOut axis (transposeIn axis x)).shape = x.shape ∧
    ∀ idx, idx.length = x.shape.length → (transposeOut axis (transposeIn axis x)).get idx = x.get idx :=
  ⟨transposeOut_transposeIn_shape axis x h, transposeOut_transposeIn_get axis x h⟩

/-- **`_scan_nd` is the nested loop**: scanning the `k+1` leading axes visits the multi-indices in
row-major (`itertools.product`) order threading the carry, and stacks the outputs:
`ys[m ++ r] = y_m[r]`. (`lax.scan` itself is assumption A-SCAN, rendered by `scan1`.) -/
theorem scan_nd_eq_nested_fold (body : γ → Arr α → γ × Arr β) (k : Nat) (init : γ) (x : Arr α)
    (hr : k + 1 ≤ x.shape.length) :
    (scanNd body k init x).1
        = (runLoop (fun c m => body c (x.sliceAt m)) (allIdx (x.shape.take (k + 1))) init).1 ∧
    (∀ m y, (m, y) ∈ (runLoop (fun c m => body c (x.sliceAt m)) (allIdx (x.shape.take (k + 1))) init).2 →
      ∀ r, (scanNd body k init x).2.get (m ++ r) = y.get r) ∧
    (scanNd body k init x).2.shape
        = x.shape.take (k + 1) ++ (body init (x.sliceAt (List.replicate (k + 1) 0))).2.shape :=
  ⟨(scanNd_runLoop body k init x hr).1, (scanNd_runLoop body k init x hr).2, scanNd_shape body k init x hr⟩

/-- the index into an array of rank `n` that is `m` on the scanned axes and `r` on the other axes -/
def fullIdx (axis : List Nat) (n : Nat) (m r : List Nat) : List Nat := srcIdx n (scanPerm axis n) (m ++ r)

/-- `xs[…, m_j at axis_j, …]` with the scanned axes removed: what one iteration of the nested Python
loop hands to the body (`keepdims=False`) -/
def sliceAxes (x : Arr α) (axis m : List Nat) : Arr α :=
  { shape := gather (restAxes axis x.shape.length) x.shape,
    get := fun r => x.get (fullIdx axis x.shape.length m r) }

/-- `fullIdx` really is "`m` on the scanned axes": position `axis[j]` holds `m[j]` … -/
theorem fullIdx_on_axis (axis : List Nat) (n : Nat) (h : ValidAxes axis n) (m r : List Nat)
    (hm : m.length = axis.length) (j : Nat) (hj : j < axis.length) :
    (fullIdx axis n m r)[axis[j]]? = some (m.getD j 0) := by
  have hlt : axis[j] < n := h.lt _ (List.getElem_mem _)
  have hidx : (scanPerm axis n).idxOf axis[j] = j := by
    rw [scanPerm_eq, List.idxOf_append]
    simp [h.nodup.idxOf_getElem j hj]
  simp only [fullIdx, srcIdx, List.getElem?_map, List.getElem?_range hlt, Option.map_some, hidx]
  rw [List.getD_eq_getElem?_getD, List.getD_eq_getElem?_getD, List.getElem?_append_left (by omega)]

/-- … and position `rest[i]` (the `i`-th non-scanned axis) holds `r[i]`. -/
theorem fullIdx_on_rest (axis : List Nat) (n : Nat) (h : ValidAxes axis n) (m r : List Nat)
    (hm : m.length = axis.length) (i : Nat) (hi : i < (restAxes axis n).length) :
    (fullIdx axis n m r)[(restAxes axis n)[i]]? = some (r.getD i 0) := by
  have hmem : (restAxes axis n)[i] ∈ restAxes axis n := List.getElem_mem _
  have hmem2 : (restAxes axis n)[i] ∈ (List.range n).filter (fun a => !decide (a ∈ axis)) := hmem
  obtain ⟨h1, h2⟩ := List.mem_filter.mp hmem2
  have h1' : (restAxes axis n)[i] < n := List.mem_range.mp h1
  have h2' : (restAxes axis n)[i] ∉ axis := by simpa using h2
  have hnd : (restAxes axis n).Nodup := List.Nodup.sublist List.filter_sublist List.nodup_range
  have hidx : (scanPerm axis n).idxOf (restAxes axis n)[i] = i + axis.length := by
    rw [scanPerm_eq, List.idxOf_append, if_neg h2', hnd.idxOf_getElem i hi]
  simp only [fullIdx, srcIdx, List.getElem?_map, List.getElem?_range h1', Option.map_some, hidx]
  rw [List.getD_eq_getElem?_getD, List.getD_eq_getElem?_getD, List.getElem?_append_right (by omega)]
  rw [hm, Nat.add_sub_cancel]

/-- **scan_in_dim equals the nested Python loop over the chosen axes** (`keepdims=False`), for
every array, every non-empty tuple of distinct axes *in any order*, every body and initial carry:

* the final carry is the carry of `for m in itertools.product(*[range(xs.shape[a]) for a in axis]):
  c, y = body(c, xs[m on the axes])`;
* the scanned axes return to their positions `axis` in the result, whose rank `n'` is
  `len(axis) + rank(y)`: `ys[idx] = y_m[idx on the other axes]` with `m = idx on the scanned axes`
  (provided the axes fit into that rank — NumPy raises otherwise);
* the result's shape, read through the same permutation, is the scanned extents followed by `y.shape`. -/
theorem scan_in_dim_eq_nested_loop_nokeep (body : γ → Arr α → γ × Arr β) (init : γ) (xs : Arr α)
    (axis : List Nat) (hne : axis ≠ []) (hv : ValidAxes axis xs.shape.length) :
    (scanInDim body init xs axis false).1
        = (runLoop (fun c m => body c (sliceAxes xs axis m)) (allIdx (gather axis xs.shape)) init).1 ∧
    ∀ n', n' = axis.length + (body init (sliceAxes xs axis (List.replicate axis.length 0))).2.shape.length →
      ValidAxes axis n' →
      (∀ m y, (m, y) ∈ (runLoop (fun c m => body c (sliceAxes xs axis m)) (allIdx (gather axis xs.shape)) init).2 →
        ∀ idx, idx.length = n' → gather axis idx = m →
          (scanInDim body init xs axis false).2.get idx = y.get (gather (restAxes axis n') idx)) ∧
      gather (scanPerm axis n') (scanInDim body init xs axis false).2.shape
        = gather axis xs.shape ++ (body init (sliceAxes xs axis (List.replicate axis.length 0))).2.shape := by
  obtain ⟨k, hk⟩ : ∃ k, axis.length = k + 1 := by
    cases axis with
    | nil => exact absurd rfl hne
    | cons a t => exact ⟨t.length, rfl⟩
  have hkn := axis_length_le axis _ hv
  have hrank := transposeIn_rank axis xs hv
  have hshape : (transposeIn axis xs).shape = gather axis xs.shape ++ gather (restAxes axis xs.shape.length) xs.shape := by
    rw [transposeIn_shape, scanPerm_eq, gather_append]
  have htake : (transposeIn axis xs).shape.take (k + 1) = gather axis xs.shape := by
    rw [hshape, List.take_left' (by rw [gather_length]; exact hk)]
  have hslice : ∀ m : List Nat, m.length = axis.length → (transposeIn axis xs).sliceAt m = sliceAxes xs axis m := by
    intro m hm
    simp only [Arr.sliceAt, sliceAxes, hshape]
    congr 1
    rw [List.drop_left' (by rw [gather_length]; exact hm.symm)]
  have hcongr : ∀ c, runLoop (fun c m => body c ((transposeIn axis xs).sliceAt m)) (allIdx (gather axis xs.shape)) c
      = runLoop (fun c m => body c (sliceAxes xs axis m)) (allIdx (gather axis xs.shape)) c := by
    apply runLoop_congr
    intro m hm c
    rw [hslice m (by rw [allIdx_length _ m hm, gather_length])]
  have hbw : scanInDim body init xs axis false
      = ((scanNd body k init (transposeIn axis xs)).1, transposeOut axis (scanNd body k init (transposeIn axis xs)).2) := by
    simp only [scanInDim, hk, Nat.add_sub_cancel]
    rfl
  obtain ⟨hc, hy, hsh⟩ := scan_nd_eq_nested_fold body k init (transposeIn axis xs) (by rw [hrank]; omega)
  rw [htake] at hc hy hsh
  rw [hcongr] at hc hy
  have hs0 : (transposeIn axis xs).sliceAt (List.replicate (k + 1) 0) = sliceAxes xs axis (List.replicate axis.length 0) := by
    rw [← hk]; exact hslice _ (by simp)
  rw [hs0] at hsh
  refine ⟨by rw [hbw]; exact hc, ?_⟩
  intro n' hn' hv'
  have hylen : (scanNd body k init (transposeIn axis xs)).2.shape.length = n' := by
    rw [hsh, List.length_append, gather_length, hn']
  have hp' := scanPerm_isPerm axis n' hv'
  have hpl' := scanPerm_length axis n' hv'
  refine ⟨?_, ?_⟩
  · intro m y hmy idx hidx hgm
    rw [hbw]
    show (scanNd body k init (transposeIn axis xs)).2.get
        (srcIdx (scanNd body k init (transposeIn axis xs)).2.shape.length
          (invertPerm (scanPerm axis (scanNd body k init (transposeIn axis xs)).2.shape.length)) idx) = _
    rw [hylen]
    have e1 := srcIdx_invert (scanPerm axis n') idx hp'
    rw [hpl'] at e1
    rw [e1, scanPerm_eq, gather_append, hgm]
    exact hy m y hmy _
  · rw [hbw]
    show gather (scanPerm axis n') (gather (invertPerm (scanPerm axis
        (scanNd body k init (transposeIn axis xs)).2.shape.length)) (scanNd body k init (transposeIn axis xs)).2.shape) = _
    rw [hylen, gather_gather_invert _ _ hp' (by rw [hpl', hylen]), hsh]

-- non-vacuity: a concrete array, a cyclic axis order, a body whose carry depends on the visiting order
example : ValidAxes [2, 0] 3 := ⟨by decide, by decide⟩
example : IsPerm [2, 0, 1] := ⟨by decide, by decide, by decide⟩
example : invertPerm [2, 0, 1] = [1, 2, 0] ∧ scanPerm [2, 0] 3 = [2, 0, 1] ∧ restAxes [2, 0] 3 = [1] := by decide
example : fullIdx [2, 0] 3 [7, 8] [9] = [8, 9, 7] := by decide
example :
    let xs : Arr Nat := Arr.ofFlat [2, 3, 2] #[0, 1, 2, 3, 4, 5, 6, 7, 8, 9, 10, 11]
    let body : Nat → Arr Nat → Nat × Arr Nat := fun c x => (c * 3 + x.get [0] + 1, { shape := x.shape, get := fun i => x.get i + c })
    let r := scanInDim body 0 xs [2, 0] false
    (r.1, r.2.shape, r.2.toFlat) = (104, [2, 3, 2], [0, 11, 2, 13, 4, 15, 7, 39, 9, 41, 11, 43]) := by decide

/-! ### `keepdims=True` -/

/-- what the body receives with `keepdims=True`: the slice with the scanned axes kept as size-1 axes
(`x.reshape((1,)*k + x.shape)` followed by `transpose_out`) -/
def sliceAxesKeep (x : Arr α) (axis m : List Nat) : Arr α :=
  transposeOut axis ((sliceAxes x axis m).addLeadingOnes axis.length)

/-- what happens to the body's output with `keepdims=True`: `transpose_in`, then the `k` leading
(size-1) axes are reshaped away -/
def unkeep (axis : List Nat) (y : Arr β) : Arr β := (transposeIn axis y).dropLeading axis.length

/-- one iteration of the nested Python loop, for either value of `keepdims` -/
def loopStep (body : γ → Arr α → γ × Arr β) (xs : Arr α) (axis : List Nat) (keepdims : Bool) :
    γ → List Nat → γ × Arr β :=
  fun c m =>
    if keepdims then ((body c (sliceAxesKeep xs axis m)).1, unkeep axis (body c (sliceAxesKeep xs axis m)).2)
    else body c (sliceAxes xs axis m)

/-- `sliceAxesKeep` is the slice `xs[…, m_j : m_j+1, …]`: extent 1 on the scanned axes, the original
extents elsewhere, and it reads `xs` at `m` on the scanned axes and at `idx` on the others. -/
theorem slice_keep_spec (x : Arr α) (axis m : List Nat) (hv : ValidAxes axis x.shape.length) :
    gather (scanPerm axis x.shape.length) (sliceAxesKeep x axis m).shape
        = List.replicate axis.length 1 ++ gather (restAxes axis x.shape.length) x.shape ∧
    ∀ idx, (sliceAxesKeep x axis m).get idx
        = x.get (fullIdx axis x.shape.length m (gather (restAxes axis x.shape.length) idx)) := by
  have hkn := axis_length_le axis _ hv
  have hrl := restAxes_length axis _ hv
  have hp := scanPerm_isPerm axis _ hv
  have hpl := scanPerm_length axis _ hv
  have hrank : ((sliceAxes x axis m).addLeadingOnes axis.length).shape.length = x.shape.length := by
    simp only [Arr.addLeadingOnes, sliceAxes, List.length_append, List.length_replicate, gather_length, hrl]; omega
  refine ⟨?_, ?_⟩
  · show gather _ (gather (invertPerm (scanPerm axis ((sliceAxes x axis m).addLeadingOnes axis.length).shape.length))
      ((sliceAxes x axis m).addLeadingOnes axis.length).shape) = _
    rw [hrank, gather_gather_invert _ _ hp (by rw [hpl, hrank])]
    rfl
  · intro idx
    show ((sliceAxes x axis m).addLeadingOnes axis.length).get
        (srcIdx ((sliceAxes x axis m).addLeadingOnes axis.length).shape.length
          (invertPerm (scanPerm axis ((sliceAxes x axis m).addLeadingOnes axis.length).shape.length)) idx) = _
    rw [hrank]
    have e1 := srcIdx_invert (scanPerm axis x.shape.length) idx hp
    rw [hpl] at e1
    rw [e1, scanPerm_eq, gather_append]
    show (sliceAxes x axis m).get ((gather axis idx ++ gather (restAxes axis x.shape.length) idx).drop axis.length) = _
    rw [List.drop_left' (by rw [gather_length])]
    rfl

/-- `unkeep` reads the body's output at index 0 on the (size-1) scanned axes -/
theorem unkeep_spec (axis : List Nat) (y : Arr β) :
    (unkeep axis y).shape = (gather (scanPerm axis y.shape.length) y.shape).drop axis.length ∧
    ∀ r, (unkeep axis y).get r = y.get (fullIdx axis y.shape.length (List.replicate axis.length 0) r) :=
  ⟨rfl, fun _ => rfl⟩

/-- **scan_in_dim equals the nested Python loop over the chosen axes, for every axis tuple and both
values of `keepdims`.**  Same statement as `scan_in_dim_eq_nested_loop_nokeep`, with the loop body
`loopStep`: for `keepdims=True` the body sees `xs[…, m_j:m_j+1, …]` (`slice_keep_spec`) and its
output is read at 0 on the kept axes (`unkeep_spec`). -/
theorem scan_in_dim_eq_nested_loop (body : γ → Arr α → γ × Arr β) (init : γ) (xs : Arr α)
    (axis : List Nat) (keepdims : Bool) (hne : axis ≠ []) (hv : ValidAxes axis xs.shape.length) :
    (scanInDim body init xs axis keepdims).1
        = (runLoop (loopStep body xs axis keepdims) (allIdx (gather axis xs.shape)) init).1 ∧
    ∀ n', n' = axis.length + (loopStep body xs axis keepdims init (List.replicate axis.length 0)).2.shape.length →
      ValidAxes axis n' →
      (∀ m y, (m, y) ∈ (runLoop (loopStep body xs axis keepdims) (allIdx (gather axis xs.shape)) init).2 →
        ∀ idx, idx.length = n' → gather axis idx = m →
          (scanInDim body init xs axis keepdims).2.get idx = y.get (gather (restAxes axis n') idx)) ∧
      gather (scanPerm axis n') (scanInDim body init xs axis keepdims).2.shape
        = gather axis xs.shape ++ (loopStep body xs axis keepdims init (List.replicate axis.length 0)).2.shape := by
  cases keepdims with
  | false => exact scan_in_dim_eq_nested_loop_nokeep body init xs axis hne hv
  | true =>
    have hw : scanInDim body init xs axis true
        = scanInDim (fun c s => ((body c (transposeOut axis (s.addLeadingOnes axis.length))).1,
            unkeep axis (body c (transposeOut axis (s.addLeadingOnes axis.length))).2)) init xs axis false := rfl
    rw [hw]
    exact scan_in_dim_eq_nested_loop_nokeep _ init xs axis hne hv

example :
    let xs : Arr Nat := Arr.ofFlat [2, 3, 2] #[0, 1, 2, 3, 4, 5, 6, 7, 8, 9, 10, 11]
    (sliceAxesKeep xs [2, 0] [1, 1]).shape = [1, 3, 1] ∧ (sliceAxesKeep xs [2, 0] [1, 1]).toFlat = [7, 9, 11] ∧
    (sliceAxes xs [2, 0] [1, 1]).shape = [3] ∧ (sliceAxes xs [2, 0] [1, 1]).toFlat = [7, 9, 11] := by decide

/-! ### negative axis entries (NumPy semantics `-k ≡ rank-k`)

`scan_in_dim` hands `axis` on as it is; `np.delete`, `transpose` and the negative list indexing in
`_invert_perm` each normalise on their own.  `scanInDimI` transcribes that; the theorems below say
that it is the `Nat` model on the normalised axes, so that every theorem above applies verbatim
with `axis.map (normAxis rank)`. -/

/-- **`_invert_perm` with negative entries**: writing `perm_inv[j] = i` with Python's negative
indexing is `_invert_perm` of the normalised permutation — hence (by `invert_perm_inverse`) the true
inverse whenever the normalised entries form a permutation. -/
theorem invert_perm_negative_entries (perm : List Int) :
    invertPermI perm = invertPerm (perm.map (normAxis perm.length)) ∧
    (IsPerm (perm.map (normAxis perm.length)) →
      ∀ k (hk : k < perm.length), (invertPermI perm)[normAxis perm.length perm[k]]? = some k) := by
  refine ⟨invertPermI_eq perm, ?_⟩
  intro hp k hk
  rw [invertPermI_eq]
  have := invertPerm_left _ hp k (by simpa using hk)
  simpa using this

/-- the permutation `axis + delete(arange(ndim), axis)` with negative axes, normalised, is the
permutation of the normalised axes; its `_invert_perm` is the inverse of that permutation -/
theorem scan_perm_negative_axes (axis : List Int) (ndim : Nat) :
    (scanPermI axis ndim).map (normAxis ndim) = scanPerm (axis.map (normAxis ndim)) ndim ∧
    (ValidAxes (axis.map (normAxis ndim)) ndim →
      invertPermI (scanPermI axis ndim) = invertPerm (scanPerm (axis.map (normAxis ndim)) ndim)) := by
  refine ⟨scanPermI_norm axis ndim, ?_⟩
  intro h
  rw [invertPermI_eq, scanPermI_length, scanPerm_length _ _ h, scanPermI_norm]

private theorem transposeInI_eq' (axis : List Int) (x : Arr α) (n : Nat) (hn : x.shape.length = n) :
    transposeInI axis x = transposeIn (axis.map (normAxis n)) x := by
  subst hn; exact transposeInI_eq axis x

private theorem transposeOutI_eq' (axis : List Int) (x : Arr α) (n : Nat) (hn : x.shape.length = n)
    (h : ValidAxes (axis.map (normAxis n)) n) :
    transposeOutI axis x = transposeOut (axis.map (normAxis n)) x := by
  subst hn; exact transposeOutI_eq axis x h

private theorem transposeOut_rank (axis : List Nat) (x : Arr α) (h : ValidAxes axis x.shape.length) :
    (transposeOut axis x).shape.length = x.shape.length := by
  show (gather (invertPerm (scanPerm axis x.shape.length)) x.shape).length = _
  rw [gather_length, invertPerm_length _ (scanPerm_isPerm axis _ h), scanPerm_length axis _ h]

private theorem sliceAt_transposeIn (xs : Arr α) (axis m : List Nat) (hm : m.length = axis.length) :
    (transposeIn axis xs).sliceAt m = sliceAxes xs axis m := by
  have hshape : (transposeIn axis xs).shape = gather axis xs.shape ++ gather (restAxes axis xs.shape.length) xs.shape := by
    rw [transposeIn_shape, scanPerm_eq, gather_append]
  simp only [Arr.sliceAt, sliceAxes, hshape]
  congr 1
  rw [List.drop_left' (by rw [gather_length]; exact hm.symm)]

private theorem scanInDim_false_unfold (body : γ → Arr α → γ × Arr β) (init : γ) (xs : Arr α)
    (axis : List Nat) (k : Nat) (hk : axis.length = k + 1) :
    scanInDim body init xs axis false
      = ((scanNd body k init (transposeIn axis xs)).1, transposeOut axis (scanNd body k init (transposeIn axis xs)).2) := by
  simp only [scanInDim, hk, Nat.add_sub_cancel]
  rfl

private theorem scanInDimI_false_unfold (body : γ → Arr α → γ × Arr β) (init : γ) (xs : Arr α)
    (axis : List Int) (k : Nat) (hk : axis.length = k + 1) :
    scanInDimI body init xs axis false
      = ((scanNd body k init (transposeInI axis xs)).1, transposeOutI axis (scanNd body k init (transposeInI axis xs)).2) := by
  simp only [scanInDimI, hk, Nat.add_sub_cancel]
  rfl

/-- **scan_in_dim with negative / mixed axis entries, `keepdims=False`**: the code as it is equals
the model on the normalised axes (so `scan_in_dim_eq_nested_loop` applies: it is the nested loop
over the axes `rank + a` for `a < 0`), whenever the normalised axes are distinct axes of `xs` and
the result has the rank of `xs` (a negative entry is relative to the array a transpose is applied
to, and `transpose_out` is applied to the result). -/
theorem scan_in_dim_negative_axes (body : γ → Arr α → γ × Arr β) (init : γ) (xs : Arr α)
    (axis : List Int) (hne : axis ≠ [])
    (hv : ValidAxes (axis.map (normAxis xs.shape.length)) xs.shape.length)
    (hrank : axis.length + (body init (sliceAxes xs (axis.map (normAxis xs.shape.length))
        (List.replicate axis.length 0))).2.shape.length = xs.shape.length) :
    scanInDimI body init xs axis false
      = scanInDim body init xs (axis.map (normAxis xs.shape.length)) false := by
  obtain ⟨k, hk⟩ : ∃ k, axis.length = k + 1 := by
    cases axis with
    | nil => exact absurd rfl hne
    | cons a t => exact ⟨t.length, rfl⟩
  have hkN : (axis.map (normAxis xs.shape.length)).length = k + 1 := by simpa using hk
  have hkn := axis_length_le _ _ hv
  rw [scanInDimI_false_unfold body init xs axis k hk, scanInDim_false_unfold body init xs _ k hkN,
    transposeInI_eq]
  have hres : (scanNd body k init (transposeIn (axis.map (normAxis xs.shape.length)) xs)).2.shape.length
      = xs.shape.length := by
    rw [scanNd_result_rank body k init _ (by rw [transposeIn_rank _ xs hv]; omega),
      sliceAt_transposeIn xs _ _ (by simp [hk]), ← hk]
    have : List.replicate axis.length 0 = List.replicate (axis.length) 0 := rfl
    exact hrank
  rw [transposeOutI_eq' axis _ xs.shape.length hres hv]

/-- **… and `keepdims=True`**, for bodies that keep the rank (as `keepdims` requires). -/
theorem scan_in_dim_negative_axes_keepdims (body : γ → Arr α → γ × Arr β) (init : γ) (xs : Arr α)
    (axis : List Int) (hne : axis ≠ [])
    (hv : ValidAxes (axis.map (normAxis xs.shape.length)) xs.shape.length)
    (hbody : ∀ c s, s.shape.length = xs.shape.length → (body c s).2.shape.length = xs.shape.length) :
    scanInDimI body init xs axis true
      = scanInDim body init xs (axis.map (normAxis xs.shape.length)) true := by
  obtain ⟨k, hk⟩ : ∃ k, axis.length = k + 1 := by
    cases axis with
    | nil => exact absurd rfl hne
    | cons a t => exact ⟨t.length, rfl⟩
  have hkN : (axis.map (normAxis xs.shape.length)).length = k + 1 := by simpa using hk
  have hkn := axis_length_le _ _ hv
  have hpl := scanPerm_length _ _ hv
  -- both sides as `keepdims=False` scans of their body wrappers
  have hL : scanInDimI body init xs axis true
      = scanInDimI (fun c s => ((body c (transposeOutI axis (s.addLeadingOnes axis.length))).1,
          (transposeInI axis (body c (transposeOutI axis (s.addLeadingOnes axis.length))).2).dropLeading axis.length))
          init xs axis false := rfl
  have hR : scanInDim body init xs (axis.map (normAxis xs.shape.length)) true
      = scanInDim (fun c s => ((body c (transposeOut (axis.map (normAxis xs.shape.length))
            (s.addLeadingOnes (axis.map (normAxis xs.shape.length)).length))).1,
          (transposeIn (axis.map (normAxis xs.shape.length)) (body c (transposeOut (axis.map (normAxis xs.shape.length))
            (s.addLeadingOnes (axis.map (normAxis xs.shape.length)).length))).2).dropLeading
              (axis.map (normAxis xs.shape.length)).length))
          init xs (axis.map (normAxis xs.shape.length)) false := rfl
  rw [hL, hR, scanInDimI_false_unfold _ init xs axis k hk, scanInDim_false_unfold _ init xs _ k hkN, transposeInI_eq]
  simp only [List.length_map]
  -- the two wrappers agree on every slice that is visited
  have hwrap : ∀ (c : γ) (s : Arr α),
      s.shape.length + (k + 1) = (transposeIn (axis.map (normAxis xs.shape.length)) xs).shape.length →
      ((body c (transposeOutI axis (s.addLeadingOnes axis.length))).1,
        (transposeInI axis (body c (transposeOutI axis (s.addLeadingOnes axis.length))).2).dropLeading axis.length)
      = ((body c (transposeOut (axis.map (normAxis xs.shape.length)) (s.addLeadingOnes axis.length))).1,
        (transposeIn (axis.map (normAxis xs.shape.length)) (body c (transposeOut (axis.map (normAxis xs.shape.length))
          (s.addLeadingOnes axis.length))).2).dropLeading axis.length) := by
    intro c s hs
    rw [transposeIn_rank _ xs hv] at hs
    have hr1 : (s.addLeadingOnes axis.length).shape.length = xs.shape.length := by
      simp only [Arr.addLeadingOnes, List.length_append, List.length_replicate]; omega
    rw [transposeOutI_eq' axis _ xs.shape.length hr1 hv]
    have hr2 : (transposeOut (axis.map (normAxis xs.shape.length)) (s.addLeadingOnes axis.length)).shape.length
        = xs.shape.length := by
      rw [transposeOut_rank _ _ (by rw [hr1]; exact hv), hr1]
    rw [transposeInI_eq' axis _ xs.shape.length (hbody c _ hr2)]
  have hsc := scanNd_congr _ _ k init (transposeIn (axis.map (normAxis xs.shape.length)) xs)
    (by rw [transposeIn_rank _ xs hv]; omega) hwrap
  rw [hsc]
  -- rank of the stacked result
  have hres : (scanNd (fun c s => ((body c (transposeOut (axis.map (normAxis xs.shape.length)) (s.addLeadingOnes axis.length))).1,
        (transposeIn (axis.map (normAxis xs.shape.length)) (body c (transposeOut (axis.map (normAxis xs.shape.length))
          (s.addLeadingOnes axis.length))).2).dropLeading axis.length)) k init
        (transposeIn (axis.map (normAxis xs.shape.length)) xs)).2.shape.length = xs.shape.length := by
    rw [scanNd_result_rank _ k init _ (by rw [transposeIn_rank _ xs hv]; omega)]
    have hs0 : ((transposeIn (axis.map (normAxis xs.shape.length)) xs).sliceAt (List.replicate (k + 1) 0)).shape.length + (k + 1)
        = xs.shape.length := by
      simp only [Arr.sliceAt, List.length_drop, List.length_replicate, transposeIn_rank _ xs hv]; omega
    have hr1 : (((transposeIn (axis.map (normAxis xs.shape.length)) xs).sliceAt (List.replicate (k + 1) 0)).addLeadingOnes
        axis.length).shape.length = xs.shape.length := by
      simp only [Arr.addLeadingOnes, List.length_append, List.length_replicate]; omega
    have hr2 := transposeOut_rank (axis.map (normAxis xs.shape.length)) _ (by rw [hr1]; exact hv)
    rw [hr1] at hr2
    have hy := hbody init _ hr2
    show (k + 1) + ((gather (scanPerm (axis.map (normAxis xs.shape.length)) _) _).drop axis.length).length = _
    rw [List.length_drop, gather_length, hy, hpl]; omega
  rw [transposeOutI_eq' axis _ xs.shape.length hres hv]

-- non-vacuity: axis (-1, 0) of a rank-3 array is the valid axis tuple (2, 0)
example : [(-1 : Int), 0].map (normAxis 3) = [2, 0] ∧ ValidAxes ([(-1 : Int), 0].map (normAxis 3)) 3 :=
  ⟨by decide, ⟨by decide, by decide⟩⟩
example : invertPermI [-1, 0, 1] = [1, 2, 0] ∧ scanPermI [-1, 0] 3 = [-1, 0, 1] := by decide
example :
    let xs : Arr Nat := Arr.ofFlat [2, 3, 2] #[0, 1, 2, 3, 4, 5, 6, 7, 8, 9, 10, 11]
    let body : Nat → Arr Nat → Nat × Arr Nat := fun c x => (c * 3 + x.get [0] + 1, { shape := x.shape, get := fun i => x.get i + c })
    let r := scanInDimI body 0 xs [-1, 0] false
    (r.1, r.2.shape, r.2.toFlat) = (104, [2, 3, 2], [0, 11, 2, 13, 4, 15, 7, 39, 9, 41, 11, 43]) := by decide

end Scan

end Flax.C20
