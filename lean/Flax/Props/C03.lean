/-
C03 — NNX split/merge round-trips any object graph, preserving sharing and cycles.

Property theorems over `Flax/Model/{Heap,Graph}.lean`.  Heavy lemmas live in `Flax/Proofs/Graph*.lean`
(order and sorting, the flatten/unflatten simulation, path resolution, first-match buckets, the visit
invariant); this file states the clauses of the property and derives them.

Hypotheses used
* `Heap.wf h`, `root.wf`: every `vars(obj)` / `dict` has pairwise distinct keys (a fact about Python dicts).
  Needed exactly where distinctness of paths matters (sortedness, merge in any order, `state`); the
  round-trip isomorphism itself needs no hypothesis at all.
* `flatten h root = .ok …`: the traversal terminated within its budget and met no dangling address.
-/
import Flax.Model.Heap
import Flax.Model.Graph
import Flax.Proofs.GraphOrder
import Flax.Proofs.GraphFlatten
import Flax.Proofs.GraphIso
import Flax.Proofs.GraphPaths
import Flax.Proofs.GraphSplit
import Flax.Proofs.GraphVisit
import Flax.Proofs.GraphUpdate
import Flax.Proofs.GraphUpdateFrame
import Flax.Proofs.GraphPop
import Flax.Proofs.GraphPopOut
import Flax.Proofs.GraphTotal
import Flax.Proofs.GraphFirst
import Flax.Proofs.GraphPopFirst
import Flax.Proofs.GraphPopAny
import Flax.Proofs.GraphPopOrder
import Flax.Proofs.GraphPytree
import Flax.Proofs.GraphUpdateValues

namespace Flax.C03
open Flax.Heap Flax.Graph
open Flax.Filter (NFilter)

/-- the address map of a round trip: the object `flatten` registered under index `i` ↦ the object
`unflatten` created for index `i` (read off `ref_index` and `index_ref`) -/
abbrev addrMap (idx : RefIndex) (ir : IndexRef) : Addr → Option Addr := phi idx ir

/-! ## the round trip is an isomorphism -/

/-- **unflatten ∘ flatten rebuilds an isomorphic rooted heap, out of fresh objects only.**
For every heap (any aliasing, cycles and self references included) and every root on which `flatten`
succeeds: `unflatten` succeeds on its output, the old heap is an initial segment of the new one (g is
untouched), every object of the rebuilt graph is new (`≥ h.length`), and the rebuilt graph is isomorphic
to the original via the injective map `addrMap idx ir`: same classes, static attributes, array leaves,
Variable types / values / metadata, and references correspond. -/
theorem roundtrip_iso (h : Heap) (root : PVal) (gd : GDef) (ls : FlatState) (idx : RefIndex)
    (hf : flatten h root = .ok (gd, ls, idx)) :
    ∃ root' h' ir, unflatten gd (ls.map (·.2)) h = .ok (root', h', ir) ∧
      Extends h h' ∧
      (∀ (a b : Nat), addrMap idx ir a = some b → h.length ≤ b ∧ b < h'.length) ∧
      Iso h root h' root' (addrMap idx ir) := by
  unfold flatten at hf
  split at hf
  · next hroot =>
    obtain ⟨v', H', ir', hu, g', p', hr⟩ :=
      (sim h h.length (fuelFor h root)).1 [] root [] gd ls idx hf h [] [] (Good.nil _ _) (Nat.le_refl _)
    simp only [List.append_nil] at hu
    refine ⟨v', H', ir', ?_, p'.ext, fun a b hab => phi_lt g' hab, ⟨hr, fun a b c h1 h2 => phi_inj g' h1 h2, ?_⟩⟩
    · -- the wrapper only rejects graphdefs that are not nodes / variables / references
      have hgd : (∀ s, gd ≠ .static s) ∧ gd ≠ .array := by
        cases root with
        | static s => simp [isRootable] at hroot
        | array d => simp [isRootable] at hroot
        | none => simp [fuelFor, flattenVal] at hf; obtain ⟨rfl, _, _⟩ := hf; simp
        | seq t xs =>
          simp only [fuelFor, flattenVal] at hf
          split at hf
          · cases hf
          · simp at hf; obtain ⟨rfl, _, _⟩ := hf; simp
        | dict kvs =>
          simp only [fuelFor, flattenVal] at hf
          split at hf
          · cases hf
          · simp at hf; obtain ⟨rfl, _, _⟩ := hf; simp
        | ref a =>
          simp only [fuelFor, flattenVal] at hf
          split at hf
          · simp at hf; obtain ⟨rfl, _, _⟩ := hf; simp
          · split at hf
            · cases hf
            · simp at hf; obtain ⟨rfl, _, _⟩ := hf; simp
            · split at hf
              · cases hf
              · simp at hf; obtain ⟨rfl, _, _⟩ := hf; simp
      unfold unflatten
      cases gd with
      | static s => exact absurd rfl (hgd.1 s)
      | array => exact absurd rfl hgd.2
      | ref ty i => simp only [hu]
      | var ty i md => simp only [hu]
      | node k i as => simp only [hu]
    · intro a b hab
      have hmem : a ∈ idx := by
        unfold addrMap phi at hab
        split at hab
        · next i hi => exact indexOf?_mem hi
        · cases hab
      obtain ⟨o, o', b', ho, hphi, hH, hrel⟩ := p'.obj a hmem (by simp)
      have : b' = b := by
        rw [show addrMap idx ir' a = phi idx ir' a from rfl] at hab
        rw [hphi] at hab; exact Option.some.inj hab
      subst this
      exact ⟨o, o', ho, hH, hrel⟩
  · cases hf

/-- isomorphic rooted heaps resolve every attribute path alike: both fail, or both succeed with
corresponding values -/
theorem iso_resolve {h h' : Heap} {r r' : PVal} {φ : Addr → Option Addr} (iso : Iso h r h' r' φ) (p : Path) :
    (resolve h r p = Option.none ∧ resolve h' r' p = Option.none) ∨
      ∃ v v', resolve h r p = some v ∧ resolve h' r' p = some v' ∧ ValRel φ v v' :=
  resolve_corr iso p iso.root

/-- **sharing is preserved, in both directions**: two paths reach the same object after the round trip
exactly when they did before (shared references and cycles included) -/
theorem iso_alias_iff {h h' : Heap} {r r' : PVal} {φ : Addr → Option Addr} (iso : Iso h r h' r' φ) (p q : Path)
    (a b : Addr) (hp : resolve h r p = some (.ref a)) (hq : resolve h r q = some (.ref b)) :
    ∃ a' b', resolve h' r' p = some (.ref a') ∧ resolve h' r' q = some (.ref b') ∧ (a = b ↔ a' = b') := by
  rcases iso_resolve iso p with ⟨e, _⟩ | ⟨v, v', e1, e2, hv⟩
  · rw [hp] at e; cases e
  rcases iso_resolve iso q with ⟨e, _⟩ | ⟨w, w', f1, f2, hw⟩
  · rw [hq] at e; cases e
  rw [hp] at e1; cases e1
  rw [hq] at f1; cases f1
  cases hv with
  | ref ha =>
    cases hw with
    | ref hb =>
      rename_i a' b'
      refine ⟨a', b', e2, f2, ?_, ?_⟩
      · intro e; subst e; rw [ha] at hb; exact Option.some.inj hb
      · intro e; subst e; exact iso.inj _ _ _ ha hb

/-- and a path that reaches an object on the rebuilt side reaches one on the original side -/
theorem iso_alias_back {h h' : Heap} {r r' : PVal} {φ : Addr → Option Addr} (iso : Iso h r h' r' φ) (p : Path)
    (a' : Addr) (hp : resolve h' r' p = some (.ref a')) : ∃ a, resolve h r p = some (.ref a) ∧ φ a = some a' := by
  rcases iso_resolve iso p with ⟨_, e⟩ | ⟨v, v', e1, e2, hv⟩
  · rw [hp] at e; cases e
  rw [hp] at e2; cases e2
  cases hv with
  | ref ha => exact ⟨_, e1, ha⟩

/-! ## generic pytree containers (NamedTuple, OrderedDict, registered dataclasses)

`_flatten_pytree` visits the children sorted by key and records each key's declared position;
`_unflatten_pytree` sorts them back by that position (`pyFlatten` / `pyUnflatten`, Proofs/GraphPytree.lean). -/

/-- **unflatten ∘ flatten is the identity on a generic pytree node for every declared order** — every
permutation of the sorted key order, 3-cycles included: each child comes back under its own field -/
theorem pytree_unflatten_flatten_id {α : Type} (decl : List (Key × α)) (hn : keysNodup decl) :
    pyUnflatten (pyFlatten decl).1 (pyFlatten decl).2 = decl :=
  Flax.Graph.pytree_unflatten_flatten_id decl hn

/-- applying the permutation in the inverse direction is wrong on a 3-cycle: `Affine(weight, bias, child)` -/
theorem pytree_inverse_permutation_wrong :
    let decl : List (Key × Nat) := [(.str "weight", 1), (.str "bias", 2), (.str "child", 3)]
    pyUnflatten (pyFlatten decl).1 (pyFlatten decl).2 = decl ∧
    pyUnflattenInv (pyFlatten decl).1 (pyFlatten decl).2 ≠ decl :=
  Flax.Graph.pytree_inverse_permutation_wrong

example : keysNodup ([(.str "weight", 1), (.str "bias", 2), (.str "child", 3)] : List (Key × Nat)) := by decide

/-! ## leaves come out sorted; merging works in any argument order -/

/-- the paths emitted by `flatten` are strictly increasing in the order `sorted` uses (hence pairwise
distinct) -/
theorem leaves_sorted_distinct (h : Heap) (root : PVal) (hw : Heap.wf h = true) (hr : root.wf = true)
    (gd : GDef) (ls : FlatState) (idx : RefIndex) (hf : flatten h root = .ok (gd, ls, idx)) :
    SSorted Path.lt ls := by
  unfold flatten at hf
  split at hf
  · exact ((flatten_sorted_aux h hw _).1 [] root [] gd ls idx hr hf).1
  · cases hf

/-- **merge in any order, of any partition**: whatever way the leaves are distributed over states and
whatever the order of the states, `_merge_to_flat_state` returns the leaves in emission order -/
theorem merge_any_order (h : Heap) (root : PVal) (hw : Heap.wf h = true) (hr : root.wf = true)
    (gd : GDef) (ls : FlatState) (idx : RefIndex) (hf : flatten h root = .ok (gd, ls, idx))
    (states : List FlatState) (hp : states.flatten.Perm ls) :
    mergeFlat states = .ok (ls.map (·.2)) :=
  mergeFlat_of_perm hp (leaves_sorted_distinct h root hw hr gd ls idx hf)

/-! ## splitting with filters is a first-match partition -/

/-- every leaf lands in the state of the first filter that matches it and in no other: bucket `i` of
`_split_state` holds exactly the leaves whose first matching predicate is `i` (`i = n`: none matched) -/
theorem split_first_match_partition (preds : List NFilter) (fs : FlatState) (i : Nat) (it : Path × Leaf) :
    it ∈ (splitFlat preds fs).getD i [] ↔ (it ∈ fs ∧ bucketOf preds it = i) :=
  mem_splitFlat preds fs i it

/-- nothing is lost and nothing duplicated: the buckets together are a permutation of the leaves -/
theorem split_perm (preds : List NFilter) (fs : FlatState) : (splitFlat preds fs).flatten.Perm fs :=
  splitFlat_perm preds fs

/-- the states returned by `nnx.split` are a partition (up to order) of the leaves of `flatten`, and
state `i` is the first-match bucket `i` -/
theorem split_states (h : Heap) (root : PVal) (filters : List NFilter) (gd : GDef) (states : List FlatState)
    (hs : split h root filters = .ok (gd, states)) :
    ∃ ls idx, flatten h root = .ok (gd, ls, idx) ∧ states.flatten.Perm ls ∧
      (filters ≠ [] → states.length = filters.length ∧
        ∀ i, i < filters.length → ∀ it, it ∈ states.getD i [] ↔ (it ∈ ls ∧ bucketOf filters it = i)) := by
  unfold split at hs
  split at hs
  · cases hs
  · next gd' ls idx hf =>
    refine ⟨ls, idx, ?_⟩
    cases filters with
    | nil =>
      simp at hs; obtain ⟨rfl, rfl⟩ := hs
      exact ⟨hf, by simp, fun hne => absurd rfl hne⟩
    | cons f fs' =>
      simp only at hs
      split at hs
      · cases hs
      · next states' hse =>
        simp at hs; obtain ⟨rfl, rfl⟩ := hs
        unfold splitExhaustive at hse
        split at hse
        · cases hse
        · split at hse
          · next hempty =>
            simp at hse; subst hse
            have hlast : ls.filter (fun it => bucketOf (f :: fs') it == (f :: fs').length) = [] :=
              List.isEmpty_iff.mp hempty
            refine ⟨hf, take_flatten_of_last_empty (f :: fs') ls hlast, fun _ => ⟨by simp [splitFlat], ?_⟩⟩
            intro i hi it
            rw [← mem_splitFlat (f :: fs') ls i it]
            simp only [List.length_cons] at hi
            simp [List.getD_eq_getElem?_getD, hi]
          · cases hse

/-- **merge(split(g)) ≅ g for every tuple of filters and every argument order of the states** -/
theorem split_merge_iso (h : Heap) (root : PVal) (hw : Heap.wf h = true) (hr : root.wf = true)
    (filters : List NFilter) (gd : GDef) (states : List FlatState)
    (hs : split h root filters = .ok (gd, states)) (states' : List FlatState) (hp : states'.Perm states) :
    ∃ root' h' ir idx, merge gd states' h = .ok (root', h', ir) ∧
      Extends h h' ∧
      (∀ (a b : Nat), addrMap idx ir a = some b → h.length ≤ b ∧ b < h'.length) ∧
      Iso h root h' root' (addrMap idx ir) := by
  obtain ⟨ls, idx, hf, hperm, _⟩ := split_states h root filters gd states hs
  obtain ⟨root', h', ir, hu, hext, hfresh, hiso⟩ := roundtrip_iso h root gd ls idx hf
  have hm : mergeFlat states' = .ok (ls.map (·.2)) :=
    merge_any_order h root hw hr gd ls idx hf states' ((List.Perm.flatten hp).trans hperm)
  exact ⟨root', h', ir, idx, by simp [merge, hm, hu], hext, hfresh, hiso⟩

/-! ## g itself is left untouched -/

/-- `split` has no heap output at all (`flatten` cannot write: its model has no way to).  And after
`merge(split(g))` — any filters, any argument order — every object of `g` is exactly as before: the old
heap is an initial segment of the new one. -/
theorem flatten_frame (h : Heap) (root : PVal) (hw : Heap.wf h = true) (hr : root.wf = true)
    (filters : List NFilter) (gd : GDef) (states : List FlatState)
    (hs : split h root filters = .ok (gd, states)) (states' : List FlatState) (hp : states'.Perm states)
    (root' : PVal) (h' : Heap) (ir : IndexRef) (hm : merge gd states' h = .ok (root', h', ir)) :
    ∀ (a : Nat), a < h.length → h'[a]? = h[a]? := by
  obtain ⟨r2, h2, ir2, _, hm2, hext, _, _⟩ := split_merge_iso h root hw hr filters gd states hs states' hp
  rw [hm2] at hm
  simp at hm
  obtain ⟨_, rfl, _⟩ := hm
  exact fun a ha => hext.get a ha

/-- **clone shares nothing mutable with the original and is isomorphic to it**: every graph node and
Variable of the clone is a new object, the original heap is an unchanged initial segment -/
theorem clone_disjoint (h : Heap) (root : PVal) (hw : Heap.wf h = true) (hr : root.wf = true)
    (root' : PVal) (h' : Heap) (ir : IndexRef) (hc : clone h root = .ok (root', h', ir)) :
    ∃ idx, Extends h h' ∧ (∀ (a b : Nat), addrMap idx ir a = some b → h.length ≤ b ∧ b < h'.length) ∧
      Iso h root h' root' (addrMap idx ir) := by
  unfold clone at hc
  split at hc
  · cases hc
  · next gd states hs =>
    obtain ⟨r2, h2, ir2, idx, hm, hext, hfresh, hiso⟩ :=
      split_merge_iso h root hw hr [] gd states hs states (List.Perm.refl _)
    rw [hm] at hc
    simp at hc
    obtain ⟨rfl, rfl, rfl⟩ := hc
    exact ⟨idx, hext, hfresh, hiso⟩

/-! ## the hypotheses are always satisfiable: flatten is total -/

/-- **`flatten` succeeds on every closed heap** (no dangling address — always true of real Python
objects), for any aliasing pattern and any number of cycles: the traversal budget `fuelFor` suffices
because a node is registered before its attributes are visited. -/
theorem flatten_total (h : Heap) (root : PVal) (hc : HeapClosed h) (hr : ValClosed h root)
    (hroot : isRootable root = true) : ∃ gd ls idx, flatten h root = .ok (gd, ls, idx) :=
  Flax.Graph.flatten_total h root hc hr hroot

/-- **`clone` (= merge ∘ split) never fails on a well-formed closed heap**, and what it returns is an
isomorphic copy made of fresh objects -/
theorem clone_total (h : Heap) (root : PVal) (hc : HeapClosed h) (hr : ValClosed h root)
    (hroot : isRootable root = true) (hw : Heap.wf h = true) (hrw : root.wf = true) :
    ∃ root' h' ir idx, clone h root = .ok (root', h', ir) ∧ Extends h h' ∧
      (∀ (a b : Nat), addrMap idx ir a = some b → h.length ≤ b ∧ b < h'.length) ∧
      Iso h root h' root' (addrMap idx ir) := by
  obtain ⟨gd, ls, idx, hf⟩ := flatten_total h root hc hr hroot
  have hs : split h root [] = .ok (gd, [ls]) := by simp [split, hf]
  obtain ⟨root', h', ir, idx', hm, hext, hfresh, hiso⟩ :=
    split_merge_iso h root hw hrw [] gd [ls] hs [ls] (List.Perm.refl _)
  exact ⟨root', h', ir, idx', by simp [clone, hs, hm], hext, hfresh, hiso⟩

/-! ## state lists every Variable once, sorted -/

/-- `nnx.state(node)` (no filter): the leaves are strictly sorted by path; every Variable leaf sits at a
path that resolves to a Variable of exactly that type / value / metadata; no Variable is listed twice;
every Variable reachable from the root is listed; array leaves sit at paths resolving to that array. -/
theorem state_once_sorted (h : Heap) (root : PVal) (hw : Heap.wf h = true) (hr : root.wf = true)
    (fs : FlatState) (hs : state h root [] = .ok [fs]) :
    SSorted Path.lt fs ∧
    (∀ p ty val md, (p, Leaf.vstate ty val md) ∈ fs → ∃ a, resolve h root p = some (.ref a) ∧ h[a]? = some (.var ty val md)) ∧
    (∀ p q ty val md ty' val' md' a, (p, Leaf.vstate ty val md) ∈ fs → (q, Leaf.vstate ty' val' md') ∈ fs →
        resolve h root p = some (.ref a) → resolve h root q = some (.ref a) → p = q) ∧
    (∀ q a ty val md, resolve h root q = some (.ref a) → h[a]? = some (.var ty val md) →
        ∃ p, (p, Leaf.vstate ty val md) ∈ fs ∧ resolve h root p = some (.ref a)) ∧
    (∀ p d, (p, Leaf.arr d) ∈ fs → resolve h root p = some (.array d)) := by
  unfold state at hs
  split at hs
  · cases hs
  · next gd ls idx hf =>
    split at hs
    · cases hs
    · simp at hs; subst hs
      have hsorted := leaves_sorted_distinct h root hw hr gd ls idx hf
      obtain ⟨root', h', ir, _, _, _, hiso⟩ := roundtrip_iso h root gd ls idx hf
      unfold flatten at hf
      split at hf
      · have vis := (visit_aux h hw root _).1 [] root [] gd ls idx hr rfl hf List.nodup_nil
        refine ⟨hsorted, ?_, ?_, ?_, vis.leafArr⟩
        · intro p ty val md hm
          obtain ⟨a, h1, _, _, h2⟩ := vis.leafVar p ty val md hm
          exact ⟨a, h1, h2⟩
        · exact vis.once
        · intro q a ty val md hq hv
          -- reachable objects are exactly the registered ones: the isomorphism is defined on them
          obtain ⟨a', _, hphi⟩ : ∃ a', resolve h' root' q = some (.ref a') ∧ addrMap idx ir a = some a' := by
            rcases iso_resolve hiso q with ⟨e, _⟩ | ⟨v, v', e1, e2, hv'⟩
            · rw [hq] at e; cases e
            · rw [hq] at e1; cases e1
              cases hv' with
              | ref ha => exact ⟨_, e2, ha⟩
          have hmem : a ∈ idx := by
            unfold addrMap phi at hphi
            split at hphi
            · next i hi => exact indexOf?_mem hi
            · cases hphi
          exact vis.hasLeaf a hmem (by simp) ty val md hv
      · cases hf

/-- `m.w = m.v = Param(5, tag='x')` -/
def exHeapU : Heap := [.node "A" [(.str "w", .ref 1), (.str "v", .ref 1)], .var ["Param"] 5 [("tag", "s:x")]]

/-! ### "under its first path": the DFS order of `flatten`, made explicit

`trace h root` (Proofs/GraphFirst.lean) repeats the recursion of `flatten` — same budget, same `ref_index`,
children in sorted-key order — and records every *encounter* `(a, path)` (each time the traversal stands
on a reference to `a`) and every *registration* (the encounters at which `a` entered `ref_index`). -/

/-- **every Variable leaf of `flatten` (hence of `split` and `state`) sits at the path by which the DFS
first reached its Variable**: the explicit DFS ends with the same `ref_index`; its registrations are that
`ref_index` in order; every encounter `(a, q)` is real (`q` resolves to `a`); every registration happened
at the first encounter of its address; and each Variable leaf `(p, ·)` resolves to a Variable `a` whose
first encounter is `p`. -/
theorem flatten_first_path (h : Heap) (root : PVal) (hw : Heap.wf h = true) (hr : root.wf = true)
    (gd : GDef) (ls : FlatState) (idx : RefIndex) (hf : flatten h root = .ok (gd, ls, idx)) :
    ∃ enc reg, trace h root = .ok (enc, reg, idx) ∧ reg.map (·.1) = idx ∧
      (∀ e ∈ enc, resolve h root e.2 = some (.ref e.1)) ∧
      (∀ e ∈ reg, firstOcc e.1 enc = some e.2) ∧
      ∀ p ty val md, (p, Leaf.vstate ty val md) ∈ ls →
        ∃ a, resolve h root p = some (.ref a) ∧ h[a]? = some (.var ty val md) ∧ firstOcc a enc = some p :=
  flatten_first h root hw hr gd ls idx hf

/-- `nnx.state(node)` lists every Variable under its first path -/
theorem state_first_path (h : Heap) (root : PVal) (hw : Heap.wf h = true) (hr : root.wf = true)
    (fs : FlatState) (hs : state h root [] = .ok [fs]) :
    ∃ enc reg idx, trace h root = .ok (enc, reg, idx) ∧
      ∀ p ty val md, (p, Leaf.vstate ty val md) ∈ fs →
        ∃ a, resolve h root p = some (.ref a) ∧ h[a]? = some (.var ty val md) ∧ firstOcc a enc = some p := by
  unfold state at hs
  split at hs
  · cases hs
  · next gd ls idx hf =>
    split at hs
    · cases hs
    · simp at hs; subst hs
      obtain ⟨enc, reg, ht, _, _, _, hl⟩ := flatten_first h root hw hr gd ls idx hf
      exact ⟨enc, reg, idx, ht, hl⟩

/-- the states of `nnx.split` (any filters) list every Variable under its first path -/
theorem split_first_path (h : Heap) (root : PVal) (hw : Heap.wf h = true) (hr : root.wf = true)
    (filters : List NFilter) (gd : GDef) (states : List FlatState) (hs : split h root filters = .ok (gd, states)) :
    ∃ enc reg idx, trace h root = .ok (enc, reg, idx) ∧
      ∀ st ∈ states, ∀ p ty val md, (p, Leaf.vstate ty val md) ∈ st →
        ∃ a, resolve h root p = some (.ref a) ∧ h[a]? = some (.var ty val md) ∧ firstOcc a enc = some p := by
  obtain ⟨ls, idx, hf, hperm, _⟩ := split_states h root filters gd states hs
  obtain ⟨enc, reg, ht, _, _, _, hl⟩ := flatten_first h root hw hr gd ls idx hf
  refine ⟨enc, reg, idx, ht, ?_⟩
  intro st hst p ty val md hm
  exact hl p ty val md (hperm.mem_iff.mp (List.mem_flatten.mpr ⟨st, hst, hm⟩))

/-- `nnx.state(node, *filters)`: state `i` holds exactly the leaves whose first matching filter is `i`;
leaves matched by no filter are dropped; each state keeps the sorted emission order -/
theorem state_filtered (h : Heap) (root : PVal) (filters : List NFilter) (hne : filters ≠ []) (sts : List FlatState)
    (hs : state h root filters = .ok sts) :
    ∃ gd ls idx, flatten h root = .ok (gd, ls, idx) ∧ sts.length = filters.length ∧
      ∀ i, i < filters.length → sts.getD i [] = ls.filter (fun it => bucketOf filters it == i) := by
  unfold state at hs
  split at hs
  · cases hs
  · next gd ls idx hf =>
    refine ⟨gd, ls, idx, hf, ?_⟩
    split at hs
    · cases hs
    · cases filters with
      | nil => exact absurd rfl hne
      | cons f fs =>
        simp only at hs
        split at hs
        · cases hs
        · simp at hs; subst hs
          refine ⟨by simp [splitFlat], ?_⟩
          intro i hi
          simp only [List.length_cons] at hi
          simp [List.getD_eq_getElem?_getD, splitFlat, hi]

/-! ## update changes values in place, keeping object identity -/

/-- **`update` keeps object identity**: for every state tree, `update` allocates nothing
(`h'.length = h.length`) and every address still holds the same object up to mutable payloads — a
Variable keeps its class (only its value / metadata can change), a graph node keeps its class, its
attribute names in order and every attribute value except array leaves; in particular every reference
(every edge of the object graph, every alias) is exactly as before. -/
theorem update_identity (h : Heap) (root : PVal) (s : STree) (h' : Heap) (hu : update h root s = .ok h') :
    SameShape h h' :=
  updateVal_shape s h root h' hu

/-- **`update` writes nothing but what the state addresses**: an object that no leaf path of the state
(and no parent of a leaf path — the owner of an array attribute) leads to is left exactly as it was -/
theorem update_frame (h : Heap) (root : PVal) (s : STree) (h' : Heap) (hu : update h root s = .ok h') (a : Nat)
    (hun : Untouched a h root (leafPaths s)) : h'[a]? = h[a]? :=
  updateVal_frame s h root h' hu a hun

/-- **the Variable at a state path takes the new value and metadata, in place**: for any path `p` that
reaches a Variable (through whatever nodes, containers, shared or cyclic structure), updating with the
state that has a single `VariableState` leaf at `p` rewrites exactly that Variable object, keeping its
address and class -/
theorem update_sets_path (h : Heap) (root : PVal) (p : Path) (a : Addr) (ty : VType) (val : Data) (md : Meta)
    (ty' : VType) (val' : Data) (md' : Meta)
    (hr : resolve h root p = some (.ref a)) (hg : h[a]? = some (.var ty val md)) :
    update h root (chain p (.vstate ty' val' md')) = .ok (write h a (.var ty val' md')) :=
  update_chain h ty' val' md' p root a ty val md hr hg

/-- **`update` with an arbitrary state — last write wins**: every Variable `a` ends up as the result of
applying, in the order `_graph_update_dynamic` visits them, exactly those leaves of the state whose path
reaches `a` (several leaves may alias one Variable; a `VariableState` leaf sets value and metadata, a raw
leaf sets the value only; the class never changes), and is unchanged when no leaf reaches it -/
theorem update_values (h : Heap) (root : PVal) (s : STree) (h' : Heap) (hu : update h root s = .ok h')
    (a : Nat) (o : Obj) (ho : h[a]? = some o) (hv : isVarObj o = true) :
    h'[a]? = some (applyAll o (hits h root a (leavesOf s))) :=
  updateVal_values s h root h' hu a o ho hv

/-- two leaves aliasing one Variable (`m.w` and `m.v` are the same `Param`): the later one wins -/
example : (update exHeapU (.ref 0) (.node [(.str "w", .leaf (.vstate ["Param"] 7 [])), (.str "v", .leaf (.arr 9))])).toOption =
    some [.node "A" [(.str "w", .ref 1), (.str "v", .ref 1)], .var ["Param"] 9 []] := by decide

/-- **a raw leaf at the path of an array attribute rewrites exactly that attribute and nothing else**: for
any path `p` reaching a graph node `a0` whose attribute `k` holds an array, updating with the state that
has the single raw leaf `d` at `p ++ [k]` yields `setAttr h a0 k (array d)` — and `setAttr_spec` /
`lookupKV_setKV` / `setKV_keys` say what that is: same heap length, every other object untouched, `a0`
keeps its class, its keys in order and every other attribute value; only the slot `k` now holds `d`. -/
theorem update_sets_array (h : Heap) (root : PVal) (p : Path) (k : Key) (a0 : Addr) (cls : String)
    (attrs : List (Key × PVal)) (d0 d : Data)
    (hr : resolve h root p = some (.ref a0)) (hg : h[a0]? = some (.node cls attrs))
    (hl : lookupKV k attrs = some (.array d0)) :
    update h root (chain (p ++ [k]) (.arr d)) = .ok (setAttr h a0 k (.array d)) ∧
    (setAttr h a0 k (.array d)).length = h.length ∧
    (setAttr h a0 k (.array d))[a0]? = some (.node cls (setKV k (.array d) attrs)) ∧
    (∀ (b : Nat), b ≠ a0 → (setAttr h a0 k (.array d))[b]? = h[b]?) ∧
    (setKV k (PVal.array d) attrs).map (·.1) = attrs.map (·.1) ∧
    ∀ k', lookupKV k' (setKV k (PVal.array d) attrs) = if k' = k then some (.array d) else lookupKV k' attrs := by
  obtain ⟨s1, s2, s3⟩ := setAttr_spec k (.array d) hg
  refine ⟨update_array_chain h k d p root a0 cls attrs d0 hr hg hl, s1, s2, s3, setKV_keys k _ attrs, ?_⟩
  intro k'
  rw [lookupKV_setKV]
  by_cases e : k' = k
  · simp [e, hl]
  · simp [e]

/-- a Variable addressed by a one-leaf state takes the new value and metadata, in place -/
example : (update exHeapU (.ref 0) (.node [(.str "w", .leaf (.vstate ["Param"] 7 []))])).toOption =
    some [.node "A" [(.str "w", .ref 1), (.str "v", .ref 1)], .var ["Param"] 7 []] := by decide

/-! ## pop removes the selected Variables -/

/-- **after `pop`, none of the selected Variables is reachable from the node** — for every heap (shared
Variables, cycles), every root and every tuple of filters that do not look at the path (Variable types,
tags, and their Any / All / Not combinations: `pathIndep_of_pathFree`).  Moreover `pop` only removes
attributes: nothing is allocated, Variables are untouched, every node keeps its class and a sub-list of
its attributes (`PShape`).  This is about the *repaired* `_graph_pop` (fix commit for finding F12). -/
theorem pop_removes_selected (preds : List NFilter) (hPI : PathIndep preds) (h : Heap) (root : PVal)
    (h' : Heap) (outs : List FlatState) (hp : pop true h root preds = .ok (h', outs)) :
    PShape h h' ∧ ∀ (p : Path) (b : Addr), resolve h' root p = some (.ref b) → ¬ sel preds h' b :=
  pop_clean_paths hPI h root h' outs hp

/-- **pop removes exactly the selected Variables** (`PopExact`): one state per filter; every returned
entry is a Variable of the graph, under a path that reaches it, in the state of its first matching
filter; no Variable is returned twice, even when it is shared; every selected Variable reachable from the
node is returned; afterwards none of them is reachable; nothing is allocated, Variables are untouched,
and no attribute other than a reference to a selected Variable is removed. -/
theorem pop_exact (preds : List NFilter) (hPI : PathIndep preds) (h : Heap) (root : PVal)
    (hw : Heap.wf h = true) (hrw : root.wf = true) (h' : Heap) (outs : List FlatState)
    (hp : pop true h root preds = .ok (h', outs)) : PopExact preds h root h' outs :=
  pop_exact_aux hPI h root hw hrw h' outs hp

/-- **`pop` returns each Variable — shared or not — under the path by which the DFS of `flatten` first
reaches it** (the same first path `state` and `split` use) -/
theorem pop_first_path (preds : List NFilter) (hPI : PathIndep preds) (h : Heap) (root : PVal)
    (hw : Heap.wf h = true) (hrw : root.wf = true) (h' : Heap) (outs : List FlatState)
    (hp : pop true h root preds = .ok (h', outs))
    (gd : GDef) (ls : FlatState) (idx : RefIndex) (hf : flatten h root = .ok (gd, ls, idx)) :
    ∃ enc reg, trace h root = .ok (enc, reg, idx) ∧
      ∀ i, ∀ it ∈ outs.getD i [], ∃ b, resolve h root it.1 = some (.ref b) ∧ firstOcc b enc = some it.1 :=
  Flax.Graph.pop_first_path hPI h root hw hrw h' outs hp gd ls idx hf

/-- **`pop` with arbitrary filters, path-dependent ones (PathContains / PathIn) included** (`PopAny`).
For such filters "selected" is a property of the *encounter* `(path, Variable)`, not of the Variable:
the code evaluates the predicates at each encounter inside the attribute loop of a node it visits, pops
the Variable at the first encounter where some predicate matches — the returned entry carries that path,
and its state is the first filter matching that `(path, Variable)` pair —, never returns a Variable twice,
only removes attributes, and every attribute it removes is a reference to a returned Variable.  What is
*not* true for path-dependent filters (and is not claimed): a reference met *before* the matching
encounter is kept (`pop_path_filter_keeps_earlier_alias`), so the Variable can stay reachable; a
reference met *after* it is removed even though no filter matches there (`pop_path_filter_removes_later_alias`). -/
theorem pop_any_filters (preds : List NFilter) (h : Heap) (root : PVal) (hw : Heap.wf h = true) (hrw : root.wf = true)
    (h' : Heap) (outs : List FlatState) (hp : pop true h root preds = .ok (h', outs)) : PopAny preds h root h' outs :=
  pop_any_aux h root hw hrw h' outs hp

/-- **`pop` with arbitrary filters, in DFS order** (`PopOrdered`).  `enc` is the encounter sequence of the
DFS of `flatten` (`trace`), which is also the order in which `_graph_pop` meets references; an encounter
`(b, q)` *matches* when some filter holds for the Variable `b` at path `q` (`encMatches`).  Then: every
returned entry sits at the FIRST matching encounter of its Variable (`firstM`); every Variable that has a
matching encounter is returned; and the reference of every encounter at or after a matching encounter of
the same Variable no longer resolves to it in the heap `pop` leaves behind — including later encounters
at which no filter matches.  (References met *before* the first matching encounter are kept:
`pop_path_filter_keeps_earlier_alias`; so "unreachable afterwards" is exactly `pop_exact`'s
path-independent case.) -/
theorem pop_first_match (preds : List NFilter) (h : Heap) (root : PVal) (hw : Heap.wf h = true) (hrw : root.wf = true)
    (h' : Heap) (outs : List FlatState) (hp : pop true h root preds = .ok (h', outs))
    (gd : GDef) (ls : FlatState) (idx : RefIndex) (hf : flatten h root = .ok (gd, ls, idx)) :
    ∃ enc reg, trace h root = .ok (enc, reg, idx) ∧ (∀ e ∈ enc, resolve h root e.2 = some (.ref e.1)) ∧
      PopOrdered preds h root h' outs enc :=
  pop_ordered_aux h root hw hrw h' outs hp gd ls idx hf

/-- non-vacuity: three aliases `a`, `b`, `c` of one Variable, filter `PathContains('b')`: the encounters are
`a`, `b`, `c`; the first matching one is `b`; `a` is kept, `b` and `c` are removed -/
example :
    let h : Heap := [.node "M" [(.str "a", .ref 1), (.str "b", .ref 1), (.str "c", .ref 1)], .var ["Param"] 1 []]
    (trace h (.ref 0)).toOption.map (·.1) = some [(0, []), (1, [.str "a"]), (1, [.str "b"]), (1, [.str "c"])] ∧
    firstM [.pathContains "$b"] h [(0, []), (1, [.str "a"]), (1, [.str "b"]), (1, [.str "c"])] 1 = some [.str "b"] ∧
    (pop true h (.ref 0) [.pathContains "$b"]).toOption =
      some ([.node "M" [(.str "a", .ref 1)], .var ["Param"] 1 []], [[([.str "b"], .vstate ["Param"] 1 [])]]) := by
  decide

/-- `m.a = m.b = v`, `pop(m, PathContains('b'))`: no match at the first encounter `('a',)`, popped at
`('b',)`; the earlier alias `a` stays -/
theorem pop_path_filter_keeps_earlier_alias :
    (pop true [.node "M" [(.str "a", .ref 1), (.str "b", .ref 1)], .var ["Param"] 1 []] (.ref 0) [.pathContains "$b"]).toOption =
      some ([.node "M" [(.str "a", .ref 1)], .var ["Param"] 1 []], [[([.str "b"], .vstate ["Param"] 1 [])]]) := by decide

/-- `pop(m, PathContains('a'))`: popped at `('a',)`; the later alias `b` is removed too although the
filter does not match `('b',)` -/
theorem pop_path_filter_removes_later_alias :
    (pop true [.node "M" [(.str "a", .ref 1), (.str "b", .ref 1)], .var ["Param"] 1 []] (.ref 0) [.pathContains "$a"]).toOption =
      some ([.node "M" [], .var ["Param"] 1 []], [[([.str "a"], .vstate ["Param"] 1 [])]]) := by decide

/-- the filters `nnx.pop(m, nnx.Intermediate, nnx.Cache | 'tag')` are of the covered kind -/
example : PathIndep [.ofType "Intermediate", .any [.ofType "Cache", .withTag "x"], .not (.ofType "Param")] :=
  pathIndep_of_pathFree _ (by decide)

/-- the shipped `_graph_pop` violates `pop_removes_selected`: after popping `Intermediate` from
`m.a = m.b = Intermediate(..)` the path `('b',)` still reaches the selected Variable (finding F12) -/
theorem pop_orig_violates :
    let h : Heap := [.node "M" [(.str "a", .ref 1), (.str "b", .ref 1)], .var ["Intermediate"] 1 []]
    ∃ h' outs, pop false h (.ref 0) [.ofType "Intermediate"] = .ok (h', outs) ∧
      resolve h' (.ref 0) [.str "b"] = some (.ref 1) ∧ sel [.ofType "Intermediate"] h' 1 := by
  refine ⟨[.node "M" [(.str "b", .ref 1)], .var ["Intermediate"] 1 []], [[([.str "a"], .vstate ["Intermediate"] 1 [])]], ?_, ?_, ?_⟩
  · rfl
  · decide
  · exact ⟨["Intermediate"], 1, [], by decide, by decide⟩

/-! ## finding F12: the shipped `_graph_pop` left a popped Variable reachable -/

/-- with `m.a = m.b = Intermediate(..)`, the shipped definition removes only `a`: `b` still references
the popped Variable … -/
theorem pop_orig_leaves_shared_reference :
    let h : Heap := [.node "M" [(.str "a", .ref 1), (.str "b", .ref 1)], .var ["Intermediate"] 1 []]
    (pop false h (.ref 0) [.ofType "Intermediate"]).toOption.map (fun r => r.1[0]?) =
      some (some (.node "M" [(.str "b", .ref 1)])) := by
  decide

/-- … the repaired definition removes both -/
theorem pop_fixed_removes_shared_reference :
    let h : Heap := [.node "M" [(.str "a", .ref 1), (.str "b", .ref 1)], .var ["Intermediate"] 1 []]
    (pop true h (.ref 0) [.ofType "Intermediate"]).toOption.map (fun r => r.1[0]?) =
      some (some (.node "M" [])) := by
  decide

/-! ## non-vacuity: a cyclic graph with a shared Variable and nested containers -/

/-- `m.self = m`, `m.child.parent = m`, one `Param` shared by `m.w`, `m.child.w` and `m.xs[0]`, a dict
inside a list, an array attribute -/
def exHeap : Heap :=
  [ .node "A" [(.str "self", .ref 0), (.str "child", .ref 1), (.str "w", .ref 2),
               (.str "xs", .seq false [.ref 2, .static "i:3", .none, .dict [(.str "k", .array 4)]])],
    .node "B" [(.str "parent", .ref 0), (.str "w", .ref 2), (.str "arr", .array 9)],
    .var ["Param", "Variable"] 5 [("tag", "s:x")] ]

example : Heap.wf exHeap = true ∧ (PVal.ref 0).wf = true := by decide

example : HeapClosed exHeap ∧ ValClosed exHeap (.ref 0) := by
  constructor
  · intro a cls attrs hg b hb
    match a, hg with
    | 0, hg => simp [exHeap] at hg; obtain ⟨_, rfl⟩ := hg; simp [deepRefsKV, deepRefs, deepRefsL] at hb; rcases hb with rfl | rfl | rfl | rfl <;> decide
    | 1, hg => simp [exHeap] at hg; obtain ⟨_, rfl⟩ := hg; simp [deepRefsKV, deepRefs] at hb; rcases hb with rfl | rfl <;> decide
    | 2, hg => simp [exHeap] at hg
    | n + 3, hg => simp [exHeap] at hg
  · intro b hb; simp [deepRefs] at hb; subst hb; decide

example : (flatten exHeap (.ref 0)).toOption.map (fun r => (r.2.1.map (·.1), r.2.2)) =
    some ([[.str "child", .str "arr"], [.str "child", .str "w"], [.str "xs", .int 3, .str "k"]], [0, 1, 2]) := by
  decide

example : (clone exHeap (.ref 0)).toOption.map (fun r => (r.1, r.2.1.length)) = some (.ref 3, 6) := by decide

example : (split exHeap (.ref 0) [.ofType "Param", .everything]).toOption.map (fun r => r.2.map (·.map (·.1))) =
    some [[[.str "child", .str "w"]], [[.str "child", .str "arr"], [.str "xs", .int 3, .str "k"]]] := by
  decide

example : (state exHeap (.ref 0) []).toOption.map (·.map (·.map (·.1))) =
    some [[[.str "child", .str "arr"], [.str "child", .str "w"], [.str "xs", .int 3, .str "k"]]] := by decide

/-- a cycle `m.child.parent = m` and one `Intermediate` shared by `m.i`, `m.child.i` and `m.child.j` -/
def exHeapP : Heap :=
  [ .node "A" [(.str "child", .ref 1), (.str "i", .ref 2), (.str "w", .ref 3)],
    .node "B" [(.str "parent", .ref 0), (.str "j", .ref 2), (.str "i", .ref 2)],
    .var ["Intermediate", "Variable"] 5 [],
    .var ["Param", "Variable"] 7 [] ]

example : Heap.wf exHeapP = true := by decide

/-- `pop_exact`'s hypothesis holds here; all three references to the shared Variable are removed, it is
returned once, under `('child', 'i')` -/
example : (pop true exHeapP (.ref 0) [.ofType "Intermediate"]).toOption =
    some ([ .node "A" [(.str "child", .ref 1), (.str "w", .ref 3)], .node "B" [(.str "parent", .ref 0)],
            .var ["Intermediate", "Variable"] 5 [], .var ["Param", "Variable"] 7 [] ],
          [[([.str "child", .str "i"], .vstate ["Intermediate", "Variable"] 5 [])]]) := by decide

/-- non-vacuity: `m.child.arr = array(9)` rewritten through the path `('child', 'arr')` -/
example : (update exHeap (.ref 0) (chain [.str "child", .str "arr"] (.arr 11))).toOption.map (·[1]?) =
    some (some (.node "B" [(.str "parent", .ref 0), (.str "w", .ref 2), (.str "arr", .array 11)])) := by decide

end Flax.C03
