/-
C15 — FrozenDict and struct dataclasses are immutable values and faithful pytrees.

Property theorems over `Model/Frozen.lean` (heap model of flax/core/frozen_dict.py) and
`Model/Struct.lean` (flax/struct.py).  Helper lemmas are `private`.
-/
import Lean.Elab.Tactic
import Flax.Model.Frozen
import Flax.Model.Struct
import Flax.Model.FrozenList

namespace Flax.C15
open Flax.Frozen

/-! ## heap extension: API calls only allocate -/

/-- `h'` is `h` with freshly allocated objects appended -/
def Ext (h h' : Heap) : Prop := ∃ ext, h' = h ++ ext

private theorem Ext.refl (h : Heap) : Ext h h := ⟨[], by simp⟩

private theorem Ext.trans {a b c : Heap} (h1 : Ext a b) (h2 : Ext b c) : Ext a c := by
  obtain ⟨e1, rfl⟩ := h1
  obtain ⟨e2, rfl⟩ := h2
  exact ⟨e1 ++ e2, by simp⟩

private theorem Ext.append (h : Heap) (e : List Obj) : Ext h (h ++ e) := ⟨e, rfl⟩

private theorem Ext.get {h h' : Heap} (e : Ext h h') {a : Addr} {o : Obj} (hg : h[a]? = some o) :
    h'[a]? = some o := by
  obtain ⟨ext, rfl⟩ := e
  have hlt : a < h.length := by
    rcases Nat.lt_or_ge a h.length with h1 | h1
    · exact h1
    · rw [List.getElem?_eq_none h1] at hg; cases hg
  rw [List.getElem?_append_left hlt]; exact hg

private theorem mapKvs_ext (f : Heap → Val → Except Err (Heap × Val))
    (hf : ∀ h v h' v', f h v = .ok (h', v') → Ext h h') :
    ∀ kvs h h' kvs', mapKvs f h kvs = .ok (h', kvs') → Ext h h' := by
  intro kvs
  induction kvs with
  | nil => intro h h' kvs' hm; simp [mapKvs] at hm; rw [hm.1]; exact Ext.refl _
  | cons p rest ih =>
    intro h h' kvs' hm
    obtain ⟨k, v⟩ := p
    simp only [mapKvs] at hm
    split at hm
    · cases hm
    · rename_i h1 v1 hfv
      split at hm
      · cases hm
      · rename_i h2 rest' hrest
        simp at hm
        rw [← hm.1]
        exact (hf _ _ _ _ hfv).trans (ih _ _ _ hrest)

private theorem deep_ext : ∀ (n : Nat) (m : Mode) (own : Bool) (h : Heap) (v : Val) (h' : Heap) (v' : Val),
    deep m own n h v = .ok (h', v') → Ext h h' := by
  intro n
  induction n with
  | zero =>
    intro m own h v h' v' hd
    cases v with
    | leaf l => simp [deep] at hd; rw [hd.1]; exact Ext.refl _
    | ref a => simp [deep] at hd
  | succ n ih =>
    intro m own h v h' v' hd
    cases v with
    | leaf l => simp [deep] at hd; rw [hd.1]; exact Ext.refl _
    | ref a =>
      simp only [deep] at hd
      split at hd
      · cases hd
      · rename_i o kvs hget
        split at hd
        · cases hd
        · rename_i h1 kvs' hm
          simp at hd
          rw [← hd.1]
          exact (mapKvs_ext _ (fun h v h' v' => ih m own h v h' v') _ _ _ _ hm).trans (Ext.append _ _)
      · rename_i i hget
        cases m with
        | prepare => simp at hd; rw [hd.1]; exact Ext.refl _
        | unfreeze => exact ih _ _ _ _ _ _ hd
        | tree =>
          simp only at hd
          split at hd
          · cases hd
          · rename_i h1 j hr
            simp at hd
            rw [← hd.1]
            exact (ih _ _ _ _ _ _ hr).trans (Ext.append _ _)
          · cases hd

private theorem mkFrozen_ext {h : Heap} {kvs : List (Key × Val)} {h' : Heap} {v' : Val}
    (hm : mkFrozen h kvs = .ok (h', v')) : Ext h h' := by
  simp only [mkFrozen] at hm
  split at hm
  · cases hm
  · rename_i h1 kvs' hk
    simp at hm
    rw [← hm.1]
    exact (mapKvs_ext _ (fun h v h' v' => deep_ext _ _ _ h v h' v') _ _ _ _ hk).trans (Ext.append _ _)

private theorem wrapVal_ext {h : Heap} {v : Val} {h' : Heap} {v' : Val}
    (hm : wrapVal h v = .ok (h', v')) : Ext h h' := by
  cases v with
  | leaf l => simp [wrapVal] at hm; rw [hm.1]; exact Ext.refl _
  | ref a =>
    simp only [wrapVal] at hm
    split at hm
    · cases hm
    · exact mkFrozen_ext hm
    · simp at hm; rw [hm.1]; exact Ext.refl _

private theorem dictOf_ext {h : Heap} {x : Val} {h' : Heap} {kvs : List (Key × Val)}
    (hm : dictOf h x = .ok (h', kvs)) : Ext h h' := by
  cases x with
  | leaf l => simp [dictOf] at hm
  | ref a =>
    simp only [dictOf] at hm
    split at hm
    · cases hm
    · simp at hm; rw [hm.1]; exact Ext.refl _
    · split at hm
      · cases hm
      · exact mapKvs_ext _ (fun h v h' v' => wrapVal_ext) _ _ _ _ hm

private theorem mapDeep_ext {m own n h kvs h' kvs'}
    (hm : mapKvs (deep m own n) h kvs = .ok (h', kvs')) : Ext h h' :=
  mapKvs_ext _ (fun h v h' v' => deep_ext _ _ _ h v h' v') _ _ _ _ hm

private theorem mapWrap_ext {h kvs h' kvs'}
    (hm : mapKvs wrapVal h kvs = .ok (h', kvs')) : Ext h h' :=
  mapKvs_ext _ (fun _ _ _ _ => wrapVal_ext) _ _ _ _ hm

private theorem deep_ext' {m own n h v h' v'} (hm : deep m own n h v = .ok (h', v')) : Ext h h' :=
  deep_ext _ _ _ _ _ _ _ hm

open Lean Elab Tactic Meta in
/-- adds `Ext h h'` for every hypothesis that records a successful allocation-only call -/
elab "ext_facts" : tactic => withMainContext do
  let lctx ← getLCtx
  for d in lctx do
    if d.isImplementationDetail then continue
    for lem in [``dictOf_ext, ``mkFrozen_ext, ``wrapVal_ext, ``deep_ext', ``mapDeep_ext, ``mapWrap_ext] do
      try
        let pf ← mkAppM lem #[d.toExpr]
        let t ← inferType pf
        liftMetaTactic fun g => do
          let g ← g.assert `e t pf
          let (_, g) ← g.intro1
          return [g]
      catch _ => pure ()

syntax "ext_chain" : tactic
macro_rules
  | `(tactic| ext_chain) => `(tactic| first
      | exact Ext.refl _
      | assumption
      | exact Ext.append _ _
      | (refine Ext.trans ‹Ext _ _› ?_; ext_chain))

/-- **No API call mutates anything**: every operation other than the user's own dict writes leaves
every existing heap object exactly as it was (the new heap is the old one plus fresh objects) and
only adds to the values the user holds.  Unconditional: no invariant is needed. -/
theorem api_only_allocates (w w' : World) (op : Op) (hop : op.isUserWrite = false)
    (hs : step w op = .ok w') : Ext w.heap w'.heap ∧ ∃ new, w'.roots = w.roots ++ new := by
  cases op <;> simp [Op.isUserWrite] at hop <;> simp only [step] at hs <;>
    (repeat' split at hs) <;> (first | cases hs | skip) <;> simp only <;>
    (refine ⟨?_, ⟨_, rfl⟩⟩) <;> ext_facts <;> ext_chain

private theorem deep_of_dict {m : Mode} {own : Bool} {n : Nat} {h : Heap} {a : Addr} {o : Bool}
    {kvs : List (Key × Val)} {h1 : Heap} {v' : Val} (hg : h[a]? = some (.dict o kvs))
    (hd : deep m own n h (.ref a) = .ok (h1, v')) :
    ∃ j kvs', v' = .ref j ∧ h1[j]? = some (.dict own kvs') := by
  cases n with
  | zero => simp [deep] at hd
  | succ n =>
    simp only [deep, hg] at hd
    split at hd
    · cases hd
    · rename_i h2 kvs' _
      simp at hd
      obtain ⟨rfl, rfl⟩ := hd
      exact ⟨h2.length, kvs', rfl, by simp⟩

private theorem lt_length_of_get {h : Heap} {a : Nat} {o : Obj} (hg : h[a]? = some o) : a < h.length := by
  rcases Nat.lt_or_ge a h.length with h1 | h1
  · exact h1
  · rw [List.getElem?_eq_none h1] at hg; cases hg

/-! ## the separation invariant

`Obj.dict`'s ghost flag says whether a dict was allocated as (part of) a FrozenDict's `_dict`.  The
invariant is local: owned dicts only point to owned dicts, user dicts only to user dicts and FrozenDict
objects, the `_dict` of every FrozenDict is owned, and everything the user holds is a user dict, a
FrozenDict object or a leaf.  `frozen_separation` below restates the consequence without the flag. -/

def isUser (h : Heap) (a : Addr) : Prop := ∃ kvs, h[a]? = some (.dict false kvs)
def isOwned (h : Heap) (a : Addr) : Prop := ∃ kvs, h[a]? = some (.dict true kvs)
def isFrozen (h : Heap) (a : Addr) : Prop := ∃ i, h[a]? = some (.frozen i)

/-- values a user may hold / a user dict may contain -/
def UserVal (h : Heap) : Val → Prop
  | .leaf _ => True
  | .ref a => isUser h a ∨ isFrozen h a

/-- values a FrozenDict's inner dicts may contain: leaves, owned dicts, and FrozenDict *objects*
(`tree_unflatten` stores its children as they are, so a FrozenDict child stays a FrozenDict inside `_dict`) -/
def OwnedVal (h : Heap) : Val → Prop
  | .leaf _ => True
  | .ref a => isOwned h a ∨ isFrozen h a

structure HeapInv (h : Heap) : Prop where
  frozen_inner : ∀ (f i : Addr), h[f]? = some (Obj.frozen i) → isOwned h i
  owned_closed : ∀ (a : Addr) (kvs : List (Key × Val)), h[a]? = some (Obj.dict true kvs) → ∀ p ∈ kvs, OwnedVal h p.2
  user_closed : ∀ (a : Addr) (kvs : List (Key × Val)), h[a]? = some (Obj.dict false kvs) → ∀ p ∈ kvs, UserVal h p.2
  /-- a FrozenDict object is allocated after its `_dict` -/
  frozen_down : ∀ (f i : Nat), h[f]? = some (Obj.frozen i) → i < f
  /-- a dict has distinct keys -/
  keys_nodup : ∀ (a : Addr) (o : Bool) (kvs : List (Key × Val)), h[a]? = some (Obj.dict o kvs) → (kvs.map (·.1)).Nodup
  /-- owned dicts are built bottom-up: they only point to older objects (so a FrozenDict is never cyclic) -/
  owned_down : ∀ (a : Nat) (kvs : List (Key × Val)), h[a]? = some (Obj.dict true kvs) →
    ∀ p ∈ kvs, ∀ b : Nat, p.2 = Val.ref b → b < a

/-- the separation invariant of a world -/
structure Sep (w : World) : Prop where
  heap : HeapInv w.heap
  roots : ∀ v ∈ w.roots, UserVal w.heap v

private def Cls : Bool → Heap → Val → Prop
  | true => OwnedVal
  | false => UserVal

private def AnyVal (h : Heap) (v : Val) : Prop := UserVal h v ∨ OwnedVal h v

private theorem UserVal.mono {h h' : Heap} (e : Ext h h') {v : Val} (hv : UserVal h v) : UserVal h' v := by
  cases v with
  | leaf l => trivial
  | ref a =>
    rcases hv with ⟨kvs, hk⟩ | ⟨i, hi⟩
    · exact Or.inl ⟨kvs, e.get hk⟩
    · exact Or.inr ⟨i, e.get hi⟩

private theorem OwnedVal.mono {h h' : Heap} (e : Ext h h') {v : Val} (hv : OwnedVal h v) : OwnedVal h' v := by
  cases v with
  | leaf l => trivial
  | ref a =>
    rcases hv with ⟨kvs, hk⟩ | ⟨i, hk⟩
    · exact Or.inl ⟨kvs, e.get hk⟩
    · exact Or.inr ⟨i, e.get hk⟩

private theorem isOwned_mono {h h' : Heap} (e : Ext h h') {a : Addr} (hv : isOwned h a) : isOwned h' a := by
  obtain ⟨kvs, hk⟩ := hv; exact ⟨kvs, e.get hk⟩

private theorem Cls.mono {own : Bool} {h h' : Heap} (e : Ext h h') {v : Val} (hv : Cls own h v) : Cls own h' v := by
  cases own
  · exact UserVal.mono e hv
  · exact OwnedVal.mono e hv

private theorem AnyVal.mono {h h' : Heap} (e : Ext h h') {v : Val} (hv : AnyVal h v) : AnyVal h' v := by
  rcases hv with hv | hv
  · exact Or.inl (UserVal.mono e hv)
  · exact Or.inr (OwnedVal.mono e hv)

private theorem get_append_one {h : Heap} {o x : Obj} {a : Addr} (hg : (h ++ [o])[a]? = some x) :
    h[a]? = some x ∨ (a = h.length ∧ x = o) := by
  rcases Nat.lt_trichotomy a h.length with h1 | h1 | h1
  · rw [List.getElem?_append_left h1] at hg; exact Or.inl hg
  · subst h1; simp at hg; exact Or.inr ⟨rfl, hg.symm⟩
  · rw [List.getElem?_eq_none (by simp; omega)] at hg; cases hg

private theorem HeapInv.alloc_dict {h : Heap} (hi : HeapInv h) (own : Bool) (kvs : List (Key × Val))
    (hk : ∀ p ∈ kvs, Cls own h p.2) (hn : (kvs.map (·.1)).Nodup) : HeapInv (h ++ [.dict own kvs]) := by
  have e : Ext h (h ++ [.dict own kvs]) := Ext.append _ _
  refine ⟨?_, ?_, ?_, ?_, ?_, ?_⟩
  · intro f i hf
    rcases get_append_one hf with h1 | ⟨_, h2⟩
    · exact isOwned_mono e (hi.frozen_inner f i h1)
    · cases h2
  · intro a kvs' ha p hp
    rcases get_append_one ha with h1 | ⟨_, h2⟩
    · exact OwnedVal.mono e (hi.owned_closed a kvs' h1 p hp)
    · cases h2; exact OwnedVal.mono e (hk p hp)
  · intro a kvs' ha p hp
    rcases get_append_one ha with h1 | ⟨_, h2⟩
    · exact UserVal.mono e (hi.user_closed a kvs' h1 p hp)
    · cases h2; exact UserVal.mono e (hk p hp)
  · intro f i hf
    rcases get_append_one hf with h1 | ⟨_, h2⟩
    · exact hi.frozen_down f i h1
    · cases h2
  · intro a o' kvs' ha
    rcases get_append_one ha with h1 | ⟨_, h2⟩
    · exact hi.keys_nodup a o' kvs' h1
    · cases h2; exact hn
  · intro a kvs' ha p hp b hb
    rcases get_append_one ha with h1 | ⟨h3, h2⟩
    · exact hi.owned_down a kvs' h1 p hp b hb
    · cases h2
      have := hk p hp
      rw [hb] at this
      rw [h3]
      rcases this with ⟨k1, hk1⟩ | ⟨k1, hk1⟩
      · exact lt_length_of_get hk1
      · exact lt_length_of_get hk1

private theorem HeapInv.alloc_frozen {h : Heap} (hi : HeapInv h) (j : Addr) (hj : isOwned h j) :
    HeapInv (h ++ [.frozen j]) := by
  have e : Ext h (h ++ [.frozen j]) := Ext.append _ _
  refine ⟨?_, ?_, ?_, ?_, ?_, ?_⟩
  · intro f i hf
    rcases get_append_one hf with h1 | ⟨_, h2⟩
    · exact isOwned_mono e (hi.frozen_inner f i h1)
    · cases h2; exact isOwned_mono e hj
  · intro a kvs' ha p hp
    rcases get_append_one ha with h1 | ⟨_, h2⟩
    · exact OwnedVal.mono e (hi.owned_closed a kvs' h1 p hp)
    · cases h2
  · intro a kvs' ha p hp
    rcases get_append_one ha with h1 | ⟨_, h2⟩
    · exact UserVal.mono e (hi.user_closed a kvs' h1 p hp)
    · cases h2
  · intro f i hf
    rcases get_append_one hf with h1 | ⟨h3, h2⟩
    · exact hi.frozen_down f i h1
    · cases h2
      obtain ⟨k1, hk1⟩ := hj
      rw [h3]; exact lt_length_of_get hk1
  · intro a o' kvs' ha
    rcases get_append_one ha with h1 | ⟨_, h2⟩
    · exact hi.keys_nodup a o' kvs' h1
    · cases h2
  · intro a kvs' ha p hp b hb
    rcases get_append_one ha with h1 | ⟨_, h2⟩
    · exact hi.owned_down a kvs' h1 p hp b hb
    · cases h2

private theorem get_len_append {h : Heap} (o : Obj) (rest : List Obj) : (h ++ o :: rest)[h.length]? = some o := by
  simp

private theorem mapKvs_spec (f : Heap → Val → Except Err (Heap × Val)) (Pin Q : Heap → Val → Prop)
    (pin_mono : ∀ h h' v, Ext h h' → Pin h v → Pin h' v)
    (q_mono : ∀ h h' v, Ext h h' → Q h v → Q h' v)
    (f_ext : ∀ h v h' v', f h v = .ok (h', v') → Ext h h')
    (hf : ∀ h v h' v', HeapInv h → Pin h v → f h v = .ok (h', v') → HeapInv h' ∧ Q h' v') :
    ∀ kvs h h' kvs', HeapInv h → (∀ p ∈ kvs, Pin h p.2) → mapKvs f h kvs = .ok (h', kvs') →
      HeapInv h' ∧ (∀ p ∈ kvs', Q h' p.2) := by
  intro kvs
  induction kvs with
  | nil =>
    intro h h' kvs' hi _ hm
    simp [mapKvs] at hm
    obtain ⟨rfl, rfl⟩ := hm
    exact ⟨hi, by simp⟩
  | cons p rest ih =>
    intro h h' kvs' hi hp hm
    obtain ⟨k, v⟩ := p
    simp only [mapKvs] at hm
    split at hm
    · cases hm
    · rename_i h1 v1 hfv
      split at hm
      · cases hm
      · rename_i h2 rest' hrest
        simp at hm
        obtain ⟨rfl, rfl⟩ := hm
        have e1 := f_ext _ _ _ _ hfv
        obtain ⟨i1, q1⟩ := hf _ _ _ _ hi (hp (k, v) (by simp)) hfv
        obtain ⟨i2, q2⟩ := ih _ _ _ i1 (fun p hp' => pin_mono _ _ _ e1 (hp p (by simp [hp']))) hrest
        have e2 := mapKvs_ext f f_ext _ _ _ _ hrest
        refine ⟨i2, ?_⟩
        intro p hp'
        simp at hp'
        rcases hp' with rfl | hp'
        · exact q_mono _ _ _ e2 q1
        · exact q2 p hp'

private theorem mem_insertKv {α : Type} {q p : Key × α} {l : List (Key × α)} :
    p ∈ insertKv q l ↔ p = q ∨ p ∈ l := by
  induction l with
  | nil => simp [insertKv]
  | cons r rest ih =>
    simp only [insertKv]
    split
    · simp
    · simp [ih]; grind

private theorem mem_sortKvs_iff {α : Type} {kvs : List (Key × α)} {p : Key × α} : p ∈ sortKvs kvs ↔ p ∈ kvs := by
  induction kvs with
  | nil => simp [sortKvs]
  | cons q rest ih =>
    have : sortKvs (q :: rest) = insertKv q (sortKvs rest) := rfl
    rw [this, mem_insertKv, ih]; simp

private theorem mem_sortKvs {α : Type} {kvs : List (Key × α)} {p : Key × α} (hp : p ∈ sortKvs kvs) : p ∈ kvs :=
  mem_sortKvs_iff.mp hp

private theorem mem_ord {α : Type} {c : Prop} [Decidable c] {kvs : List (Key × α)} {p : Key × α}
    (hp : p ∈ (if c then sortKvs kvs else kvs)) : p ∈ kvs := by
  split at hp
  · exact mem_sortKvs hp
  · exact hp

private theorem insertKv_perm {α : Type} (p : Key × α) (l : List (Key × α)) : (insertKv p l).Perm (p :: l) := by
  induction l with
  | nil => simp [insertKv]
  | cons q r ih =>
    simp only [insertKv]
    split
    · exact List.Perm.refl _
    · exact (List.Perm.cons q ih).trans (List.Perm.swap p q r)

private theorem sortKvs_perm {α : Type} (l : List (Key × α)) : (sortKvs l).Perm l := by
  induction l with
  | nil => exact List.Perm.refl _
  | cons q r ih =>
    have : sortKvs (q :: r) = insertKv q (sortKvs r) := rfl
    rw [this]
    exact (insertKv_perm q _).trans (List.Perm.cons q ih)

private theorem mapKvs_keys (f : Heap → Val → Except Err (Heap × Val)) :
    ∀ (kvs : List (Key × Val)) (h h' : Heap) (kvs' : List (Key × Val)),
      mapKvs f h kvs = .ok (h', kvs') → kvs'.map (·.1) = kvs.map (·.1) := by
  intro kvs
  induction kvs with
  | nil => intro h h' kvs' hm; simp [mapKvs] at hm; rw [hm.2]
  | cons p rest ih =>
    intro h h' kvs' hm
    obtain ⟨k, v⟩ := p
    simp only [mapKvs] at hm
    split at hm
    · cases hm
    · split at hm
      · cases hm
      · rename_i h2 rest' hrest
        simp at hm
        rw [← hm.2]
        simp [ih _ _ _ hrest]

private theorem nodup_sortKvs {α : Type} {l : List (Key × α)} (hn : (l.map (·.1)).Nodup) :
    ((sortKvs l).map (·.1)).Nodup :=
  (((sortKvs_perm l).map (·.1)).nodup_iff).mpr hn

private theorem nodup_ord {α : Type} {c : Prop} [Decidable c] {l : List (Key × α)} (hn : (l.map (·.1)).Nodup) :
    ((if c then sortKvs l else l).map (·.1)).Nodup := by
  split
  · exact nodup_sortKvs hn
  · exact hn

private theorem mem_kvSet' {α : Type} {kvs : List (Key × α)} {k : Key} {v : α} {p : Key × α}
    (hp : p ∈ kvSet kvs k v) : p ∈ kvs ∨ p = (k, v) := by
  induction kvs with
  | nil => simp [kvSet] at hp; exact Or.inr hp
  | cons q rest ih =>
    obtain ⟨k', v'⟩ := q
    simp only [kvSet] at hp
    split at hp
    · simp at hp
      rcases hp with h1 | h1
      · exact Or.inr h1
      · exact Or.inl (by simp [h1])
    · simp at hp
      rcases hp with h1 | h1
      · exact Or.inl (by simp [h1])
      · rcases ih h1 with h2 | h2
        · exact Or.inl (by simp [h2])
        · exact Or.inr h2

private theorem kvSet_keys_mem {α : Type} {l : List (Key × α)} {k : Key} {v : α} {x : Key}
    (hx : x ∈ (kvSet l k v).map (·.1)) : x ∈ l.map (·.1) ∨ x = k := by
  obtain ⟨p, hp, rfl⟩ := List.mem_map.mp hx
  rcases mem_kvSet' hp with h1 | h1
  · exact Or.inl (List.mem_map.mpr ⟨p, h1, rfl⟩)
  · subst h1; exact Or.inr rfl

private theorem nodup_kvSet {α : Type} {l : List (Key × α)} (k : Key) (v : α) (hn : (l.map (·.1)).Nodup) :
    ((kvSet l k v).map (·.1)).Nodup := by
  induction l with
  | nil => simp [kvSet]
  | cons q r ih =>
    obtain ⟨k', v'⟩ := q
    simp only [List.map_cons, List.nodup_cons] at hn
    simp only [kvSet]
    split
    · rename_i hk; subst hk
      simp only [List.map_cons, List.nodup_cons]; exact hn
    · rename_i hk
      simp only [List.map_cons, List.nodup_cons]
      refine ⟨?_, ih hn.2⟩
      intro hx
      rcases kvSet_keys_mem hx with h1 | h1
      · exact hn.1 h1
      · exact hk h1

private theorem nodup_kvErase {α : Type} {l : List (Key × α)} (k : Key) (hn : (l.map (·.1)).Nodup) :
    ((kvErase l k).map (·.1)).Nodup := by
  have : ((kvErase l k).map (·.1)).Sublist (l.map (·.1)) := by
    simp only [kvErase]; exact (List.filter_sublist).map _
  exact this.nodup hn

private theorem nodup_kvUpdate {α : Type} {ys xs : List (Key × α)} (hn : (xs.map (·.1)).Nodup) :
    ((kvUpdate xs ys).map (·.1)).Nodup := by
  induction ys generalizing xs with
  | nil => simpa [kvUpdate] using hn
  | cons q r ih =>
    simp only [kvUpdate, List.foldl_cons]
    exact ih (nodup_kvSet q.1 q.2 hn)

/-- the source may be anything valid, except that a walk allocating owned dicts in tree mode only
ever runs over owned dicts (it copies the `_dict` of a FrozenDict) -/
private def DeepPre (m : Mode) (own : Bool) (h : Heap) (v : Val) : Prop :=
  AnyVal h v ∧ (m = .tree → own = true → OwnedVal h v)

private theorem DeepPre.mono {m : Mode} {own : Bool} {h h' : Heap} (e : Ext h h') {v : Val}
    (hv : DeepPre m own h v) : DeepPre m own h' v :=
  ⟨AnyVal.mono e hv.1, fun h1 h2 => OwnedVal.mono e (hv.2 h1 h2)⟩

private theorem deep_spec : ∀ (n : Nat) (m : Mode) (own : Bool) (h : Heap) (v : Val) (h' : Heap) (v' : Val),
    (m = .prepare → own = true) → (m = .unfreeze → own = false) →
    HeapInv h → DeepPre m own h v →
    deep m own n h v = .ok (h', v') → HeapInv h' ∧ Cls own h' v' := by
  intro n
  induction n with
  | zero =>
    intro m own h v h' v' _ _ hi _ hd
    cases v with
    | leaf l =>
      simp [deep] at hd; obtain ⟨rfl, rfl⟩ := hd
      exact ⟨hi, by cases own <;> trivial⟩
    | ref a => simp [deep] at hd
  | succ n ih =>
    intro m own h v h' v' hm1 hm2 hi hpre hd
    cases v with
    | leaf l =>
      simp [deep] at hd; obtain ⟨rfl, rfl⟩ := hd
      exact ⟨hi, by cases own <;> trivial⟩
    | ref a =>
      simp only [deep] at hd
      split at hd
      · cases hd
      · rename_i o kvs hget
        split at hd
        · cases hd
        · rename_i h1 kvs' hmap
          simp at hd
          obtain ⟨rfl, rfl⟩ := hd
          have hchild : ∀ p ∈ (if m = .tree then sortKvs kvs else kvs), DeepPre m own h p.2 := by
            intro p hp
            have hp := mem_ord hp
            cases o with
            | true =>
              have := hi.owned_closed a kvs hget p hp
              exact ⟨Or.inr this, fun _ _ => this⟩
            | false =>
              refine ⟨Or.inl (hi.user_closed a kvs hget p hp), ?_⟩
              intro h1 h2
              rcases hpre.2 h1 h2 with ⟨kvs2, hk2⟩ | ⟨j2, hk2⟩ <;> (rw [hget] at hk2; cases hk2)
          obtain ⟨i1, q1⟩ := mapKvs_spec (deep m own n) (DeepPre m own) (Cls own)
            (fun _ _ _ e => DeepPre.mono e) (fun _ _ _ e => Cls.mono e)
            (fun h v h' v' => deep_ext n m own h v h' v')
            (fun h v h' v' hi hp hd => ih m own h v h' v' hm1 hm2 hi hp hd) _ _ _ _ hi hchild hmap
          have hkeys := mapKvs_keys _ _ _ _ _ hmap
          refine ⟨HeapInv.alloc_dict i1 own kvs' q1 (by rw [hkeys]; exact nodup_ord (hi.keys_nodup a o kvs hget)), ?_⟩
          cases own
          · exact Or.inl ⟨kvs', by simp⟩
          · exact Or.inl ⟨kvs', by simp⟩
      · rename_i i hget
        have hinner : isOwned h i := hi.frozen_inner a i hget
        cases m with
        | prepare =>
          simp at hd; obtain ⟨rfl, rfl⟩ := hd
          rw [hm1 rfl]
          exact ⟨hi, Or.inl hinner⟩
        | unfreeze =>
          simp only at hd
          exact ih .tree own h (.ref i) h' v' (by simp) (by simp) hi
            ⟨Or.inr (Or.inl hinner), fun _ _ => Or.inl hinner⟩ hd
        | tree =>
          simp only at hd
          split at hd
          · cases hd
          · rename_i h1 j hr
            simp at hd
            obtain ⟨rfl, rfl⟩ := hd
            obtain ⟨i1, _⟩ := ih .tree true h (.ref i) h1 (.ref j) (by simp) (by simp) hi
              ⟨Or.inr (Or.inl hinner), fun _ _ => Or.inl hinner⟩ hr
            obtain ⟨kvsi, hgi⟩ := hinner
            obtain ⟨j', kvsj, hj1, hj2⟩ := deep_of_dict hgi hr
            injection hj1 with hj1
            subst hj1
            refine ⟨HeapInv.alloc_frozen i1 j ⟨kvsj, hj2⟩, ?_⟩
            cases own
            · exact Or.inr ⟨j, by simp⟩
            · exact Or.inr ⟨j, by simp⟩
          · cases hd

private theorem mem_kvSet {α : Type} {kvs : List (Key × α)} {k : Key} {v : α} {p : Key × α}
    (hp : p ∈ kvSet kvs k v) : p ∈ kvs ∨ p = (k, v) := by
  induction kvs with
  | nil => simp [kvSet] at hp; exact Or.inr hp
  | cons q rest ih =>
    obtain ⟨k', v'⟩ := q
    simp only [kvSet] at hp
    split at hp
    · simp at hp
      rcases hp with h1 | h1
      · exact Or.inr h1
      · exact Or.inl (by simp [h1])
    · simp at hp
      rcases hp with h1 | h1
      · exact Or.inl (by simp [h1])
      · rcases ih h1 with h2 | h2
        · exact Or.inl (by simp [h2])
        · exact Or.inr h2

private theorem mem_kvErase {α : Type} {kvs : List (Key × α)} {k : Key} {p : Key × α}
    (hp : p ∈ kvErase kvs k) : p ∈ kvs := by
  simp [kvErase] at hp; exact hp.1

private theorem mem_kvUpdate {α : Type} {ys xs : List (Key × α)} {p : Key × α}
    (hp : p ∈ kvUpdate xs ys) : p ∈ xs ∨ p ∈ ys := by
  induction ys generalizing xs with
  | nil => simp [kvUpdate] at hp; exact Or.inl hp
  | cons q rest ih =>
    simp only [kvUpdate, List.foldl_cons] at hp
    rcases ih (xs := kvSet xs q.1 q.2) hp with h1 | h1
    · rcases mem_kvSet h1 with h2 | h2
      · exact Or.inl h2
      · exact Or.inr (by simp [h2])
    · exact Or.inr (by simp [h1])

private theorem kvGet_mem {α : Type} {kvs : List (Key × α)} {k : Key} {v : α}
    (hg : kvGet kvs k = some v) : (k, v) ∈ kvs := by
  induction kvs with
  | nil => simp [kvGet] at hg
  | cons q rest ih =>
    obtain ⟨k', v'⟩ := q
    simp only [kvGet] at hg
    split at hg
    · rename_i hk; simp at hg; simp [hk, hg]
    · simp [ih hg]

private theorem mapPrepare_spec {h : Heap} {kvs : List (Key × Val)} {n : Nat} {h1 : Heap}
    {kvs' : List (Key × Val)} (hi : HeapInv h) (hk : ∀ p ∈ kvs, AnyVal h p.2)
    (hm : mapKvs (deep .prepare true n) h kvs = .ok (h1, kvs')) :
    HeapInv h1 ∧ ∀ p ∈ kvs', OwnedVal h1 p.2 :=
  mapKvs_spec (deep .prepare true n) (DeepPre .prepare true) OwnedVal
    (fun _ _ _ e => DeepPre.mono e) (fun _ _ _ e => OwnedVal.mono e)
    (fun h v h' v' => deep_ext n _ _ h v h' v')
    (fun h v h' v' hi hp hd => deep_spec n .prepare true h v h' v' (by simp) (by simp) hi hp hd)
    _ _ _ _ hi (fun p hp => ⟨hk p hp, by simp⟩) hm

private theorem mapTree_spec {h : Heap} {kvs : List (Key × Val)} {n : Nat} {h1 : Heap}
    {kvs' : List (Key × Val)} (hi : HeapInv h) (hk : ∀ p ∈ kvs, AnyVal h p.2)
    (hm : mapKvs (deep .tree false n) h kvs = .ok (h1, kvs')) :
    HeapInv h1 ∧ ∀ p ∈ kvs', UserVal h1 p.2 :=
  mapKvs_spec (deep .tree false n) (DeepPre .tree false) UserVal
    (fun _ _ _ e => DeepPre.mono e) (fun _ _ _ e => UserVal.mono e)
    (fun h v h' v' => deep_ext n _ _ h v h' v')
    (fun h v h' v' hi hp hd => deep_spec n .tree false h v h' v' (by simp) (by simp) hi hp hd)
    _ _ _ _ hi (fun p hp => ⟨hk p hp, by simp⟩) hm

private theorem mkFrozen_spec {h : Heap} {kvs : List (Key × Val)} {h' : Heap} {v' : Val}
    (hi : HeapInv h) (hk : ∀ p ∈ kvs, AnyVal h p.2) (hn : (kvs.map (·.1)).Nodup)
    (hm : mkFrozen h kvs = .ok (h', v')) :
    HeapInv h' ∧ UserVal h' v' := by
  simp only [mkFrozen] at hm
  split at hm
  · cases hm
  · rename_i h1 kvs' hmap
    simp at hm
    obtain ⟨rfl, rfl⟩ := hm
    obtain ⟨i1, q1⟩ := mapPrepare_spec hi hk hmap
    have i2 := HeapInv.alloc_dict i1 true kvs' q1 (by rw [mapKvs_keys _ _ _ _ _ hmap]; exact hn)
    have i3 := HeapInv.alloc_frozen i2 h1.length ⟨kvs', by simp⟩
    have heq : h1 ++ [Obj.dict true kvs', Obj.frozen h1.length]
        = (h1 ++ [Obj.dict true kvs']) ++ [Obj.frozen h1.length] := by simp
    rw [heq]
    refine ⟨i3, Or.inr ⟨h1.length, ?_⟩⟩
    have : (h1 ++ [Obj.dict true kvs']).length = h1.length + 1 := by simp
    rw [← this]; simp

private theorem wrapVal_spec {h : Heap} {v : Val} {h' : Heap} {v' : Val}
    (hi : HeapInv h) (hv : AnyVal h v) (hm : wrapVal h v = .ok (h', v')) :
    HeapInv h' ∧ UserVal h' v' := by
  cases v with
  | leaf l => simp [wrapVal] at hm; obtain ⟨rfl, rfl⟩ := hm; exact ⟨hi, trivial⟩
  | ref a =>
    simp only [wrapVal] at hm
    split at hm
    · cases hm
    · rename_i o kvs hget
      refine mkFrozen_spec hi ?_ (hi.keys_nodup a o kvs hget) hm
      intro p hp
      cases o with
      | true => exact Or.inr (hi.owned_closed a kvs hget p hp)
      | false => exact Or.inl (hi.user_closed a kvs hget p hp)
    · rename_i i hget
      simp at hm; obtain ⟨rfl, rfl⟩ := hm
      exact ⟨hi, Or.inr ⟨i, hget⟩⟩

private theorem innerKvs_owned {h : Heap} {f i : Addr} {kvs : List (Key × Val)} (hi : HeapInv h)
    (hf : h[f]? = some (.frozen i)) (hk : innerKvs h i = .ok kvs) : ∀ p ∈ kvs, OwnedVal h p.2 := by
  obtain ⟨kvs0, h0⟩ := hi.frozen_inner f i hf
  simp [innerKvs, h0] at hk
  subst hk
  exact hi.owned_closed i kvs0 h0

private theorem mapWrap_spec {h : Heap} {kvs : List (Key × Val)} {h1 : Heap}
    {kvs' : List (Key × Val)} (hi : HeapInv h) (hk : ∀ p ∈ kvs, AnyVal h p.2)
    (hm : mapKvs wrapVal h kvs = .ok (h1, kvs')) :
    HeapInv h1 ∧ ∀ p ∈ kvs', UserVal h1 p.2 :=
  mapKvs_spec wrapVal AnyVal UserVal
    (fun _ _ _ e => AnyVal.mono e) (fun _ _ _ e => UserVal.mono e)
    (fun _ _ _ _ => wrapVal_ext)
    (fun _ _ _ _ hi hp hd => wrapVal_spec hi hp hd)
    _ _ _ _ hi hk hm

private theorem dictOf_spec {h : Heap} {x : Val} {h' : Heap} {kvs : List (Key × Val)}
    (hi : HeapInv h) (hx : UserVal h x) (hm : dictOf h x = .ok (h', kvs)) :
    HeapInv h' ∧ ∀ p ∈ kvs, UserVal h' p.2 := by
  cases x with
  | leaf l => simp [dictOf] at hm
  | ref a =>
    simp only [dictOf] at hm
    split at hm
    · cases hm
    · rename_i o kvs0 hget
      simp at hm; obtain ⟨rfl, rfl⟩ := hm
      refine ⟨hi, ?_⟩
      rcases hx with ⟨kvs1, h1⟩ | ⟨i, h1⟩
      · rw [hget] at h1; cases h1
        exact hi.user_closed a _ hget
      · rw [hget] at h1; cases h1
    · rename_i i hget
      split at hm
      · cases hm
      · rename_i kvs0 hin
        exact mapWrap_spec hi (fun p hp => Or.inr (innerKvs_owned hi hget hin p hp)) hm

private theorem dictOf_nodup {h : Heap} {x : Val} {h' : Heap} {kvs : List (Key × Val)}
    (hi : HeapInv h) (hm : dictOf h x = .ok (h', kvs)) : (kvs.map (·.1)).Nodup := by
  cases x with
  | leaf l => simp [dictOf] at hm
  | ref a =>
    simp only [dictOf] at hm
    split at hm
    · cases hm
    · rename_i o kvs0 hget
      simp at hm; obtain ⟨rfl, rfl⟩ := hm
      exact hi.keys_nodup a o _ hget
    · rename_i i hget
      split at hm
      · cases hm
      · rename_i kvs0 hin
        rw [mapKvs_keys _ _ _ _ _ hm]
        obtain ⟨kvs1, h1⟩ := hi.frozen_inner a i hget
        simp [innerKvs, h1] at hin
        subst hin
        exact hi.keys_nodup i true _ h1

/-! ### user writes -/

private theorem get_set_ne {h : Heap} {a b : Addr} {o : Obj} (hne : a ≠ b) : (h.set a o)[b]? = h[b]? := by
  simp [hne]

private theorem get_set_eq {h : Heap} {a : Addr} {o x : Obj} (hg : h[a]? = some x) : (h.set a o)[a]? = some o := by
  have hlt : a < h.length := by
    rcases Nat.lt_or_ge a h.length with h1 | h1
    · exact h1
    · rw [List.getElem?_eq_none h1] at hg; cases hg
  simp [hlt]

private theorem UserVal.set {h : Heap} {a : Addr} {kvs kvs' : List (Key × Val)} {v : Val}
    (hg : h[a]? = some (.dict false kvs)) (hv : UserVal h v) : UserVal (h.set a (.dict false kvs')) v := by
  cases v with
  | leaf l => trivial
  | ref b =>
    by_cases hab : a = b
    · subst hab; exact Or.inl ⟨kvs', get_set_eq hg⟩
    · rcases hv with ⟨k1, h1⟩ | ⟨i, h1⟩
      · exact Or.inl ⟨k1, by rw [get_set_ne hab]; exact h1⟩
      · exact Or.inr ⟨i, by rw [get_set_ne hab]; exact h1⟩

private theorem OwnedVal.set {h : Heap} {a : Addr} {kvs kvs' : List (Key × Val)} {v : Val}
    (hg : h[a]? = some (.dict false kvs)) (hv : OwnedVal h v) : OwnedVal (h.set a (.dict false kvs')) v := by
  cases v with
  | leaf l => trivial
  | ref b =>
    rcases hv with ⟨k1, h1⟩ | ⟨k1, h1⟩
    · have hab : a ≠ b := by intro hab; subst hab; rw [hg] at h1; cases h1
      exact Or.inl ⟨k1, by rw [get_set_ne hab]; exact h1⟩
    · have hab : a ≠ b := by intro hab; subst hab; rw [hg] at h1; cases h1
      exact Or.inr ⟨k1, by rw [get_set_ne hab]; exact h1⟩

private theorem isOwned_set {h : Heap} {a b : Addr} {kvs kvs' : List (Key × Val)}
    (hg : h[a]? = some (.dict false kvs)) (hv : isOwned h b) : isOwned (h.set a (.dict false kvs')) b := by
  obtain ⟨k1, h1⟩ := hv
  have hab : a ≠ b := by intro hab; subst hab; rw [hg] at h1; cases h1
  exact ⟨k1, by rw [get_set_ne hab]; exact h1⟩

private theorem HeapInv.set_user {h : Heap} {a : Addr} {kvs kvs' : List (Key × Val)} (hi : HeapInv h)
    (hg : h[a]? = some (.dict false kvs)) (hk : ∀ p ∈ kvs', UserVal h p.2)
    (hn : (kvs'.map (·.1)).Nodup) :
    HeapInv (h.set a (.dict false kvs')) := by
  refine ⟨?_, ?_, ?_, ?_, ?_, ?_⟩
  · intro f i hf
    have hne : a ≠ f := by intro e; subst e; rw [get_set_eq hg] at hf; cases hf
    rw [get_set_ne hne] at hf
    exact isOwned_set hg (hi.frozen_inner f i hf)
  · intro b kvs2 hb p hp
    have hne : a ≠ b := by intro e; subst e; rw [get_set_eq hg] at hb; cases hb
    rw [get_set_ne hne] at hb
    exact OwnedVal.set hg (hi.owned_closed b kvs2 hb p hp)
  · intro b kvs2 hb p hp
    by_cases hab : a = b
    · subst hab
      rw [get_set_eq hg] at hb; cases hb
      exact UserVal.set hg (hk p hp)
    · rw [get_set_ne hab] at hb
      exact UserVal.set hg (hi.user_closed b kvs2 hb p hp)
  · intro f i hf
    have hne : a ≠ f := by intro e; subst e; rw [get_set_eq hg] at hf; cases hf
    rw [get_set_ne hne] at hf
    exact hi.frozen_down f i hf
  · intro b o2 kvs2 hb
    by_cases hab : a = b
    · subst hab
      rw [get_set_eq hg] at hb; cases hb
      exact hn
    · rw [get_set_ne hab] at hb
      exact hi.keys_nodup b o2 kvs2 hb
  · intro b kvs2 hb p hp c hc
    have hne : a ≠ b := by intro e; subst e; rw [get_set_eq hg] at hb; cases hb
    rw [get_set_ne hne] at hb
    exact hi.owned_down b kvs2 hb p hp c hc

private theorem root_valid {w : World} (hs : Sep w) {i : Nat} {v : Val} (hr : w.roots[i]? = some v) :
    UserVal w.heap v := hs.roots v (List.mem_of_getElem? hr)

/-- a held reference to a dict object is a reference to a *user* dict -/
private theorem root_dict_user {w : World} (hs : Sep w) {i : Nat} {a : Addr} {o : Bool}
    {kvs : List (Key × Val)} (hr : w.roots[i]? = some (.ref a)) (hg : w.heap[a]? = some (.dict o kvs)) :
    o = false := by
  rcases root_valid hs hr with ⟨k1, h1⟩ | ⟨j, h1⟩
  · rw [hg] at h1; cases h1; rfl
  · rw [hg] at h1; cases h1

private theorem roots_ok {w : World} {h' : Heap} {new : List Val} (hs : Sep w) (e : Ext w.heap h')
    (hn : ∀ v ∈ new, UserVal h' v) : ∀ v ∈ w.roots ++ new, UserVal h' v := by
  intro v hv
  rcases List.mem_append.mp hv with h1 | h1
  · exact UserVal.mono e (hs.roots v h1)
  · exact hn v h1

private theorem vals_of_kvs {h : Heap} {kvs : List (Key × Val)} (hk : ∀ p ∈ kvs, UserVal h p.2) :
    ∀ v ∈ kvs.map (·.2), UserVal h v := by
  intro v hv
  obtain ⟨p, hp, rfl⟩ := List.mem_map.mp hv
  exact hk p hp

private theorem sep_user_write {w : World} (hs : Sep w) {d : Nat} {a : Addr} {o : Bool}
    {kvs kvs' : List (Key × Val)} (hr : w.roots[d]? = some (.ref a))
    (hg : w.heap[a]? = some (.dict o kvs)) (hk : ∀ p ∈ kvs', UserVal w.heap p.2)
    (hn : (kvs'.map (·.1)).Nodup) :
    Sep ⟨w.heap.set a (.dict o kvs'), w.roots⟩ := by
  have ho := root_dict_user hs hr hg
  subst ho
  exact ⟨HeapInv.set_user hs.heap hg hk hn, fun v hv => UserVal.set hg (hs.roots v hv)⟩

/-! ### every operation preserves the invariant -/

private theorem sep_newDict {w w' : World} (hs : Sep w) (h : step w .newDict = .ok w') : Sep w' := by
  simp only [step] at h
  cases h
  refine ⟨HeapInv.alloc_dict hs.heap false [] (by simp) (by simp), roots_ok hs (Ext.append _ _) ?_⟩
  intro v hv
  simp at hv; subst hv
  exact Or.inl ⟨[], by simp⟩

private theorem sep_newLeaf {w w' : World} {l : Leaf} (hs : Sep w) (h : step w (.newLeaf l) = .ok w') : Sep w' := by
  simp only [step] at h
  cases h
  refine ⟨hs.heap, roots_ok hs (Ext.refl _) ?_⟩
  intro v hv
  simp at hv; subst hv; trivial

private theorem sep_setKey {w w' : World} {d : Nat} {k : Key} {src : Nat} (hs : Sep w)
    (h : step w (.setKey d k src) = .ok w') : Sep w' := by
  simp only [step] at h
  repeat' split at h
  all_goals first | cases h | skip
  rename_i a v hr hsrc _ o kvs hg
  refine sep_user_write hs hr hg ?_ (nodup_kvSet _ _ (hs.heap.keys_nodup a o kvs hg))
  intro p hp
  have ho := root_dict_user hs hr hg
  subst ho
  rcases mem_kvSet hp with h1 | h1
  · exact hs.heap.user_closed a kvs hg p h1
  · subst h1; exact root_valid hs hsrc

private theorem sep_delKey {w w' : World} {d : Nat} {k : Key} (hs : Sep w)
    (h : step w (.delKey d k) = .ok w') : Sep w' := by
  simp only [step] at h
  repeat' split at h
  all_goals first | cases h | skip
  rename_i a hr _ o kvs hg _
  refine sep_user_write hs hr hg ?_ (nodup_kvErase _ (hs.heap.keys_nodup a o kvs hg))
  intro p hp
  have ho := root_dict_user hs hr hg
  subst ho
  exact hs.heap.user_closed a kvs hg p (mem_kvErase hp)

private theorem sep_getitem {w w' : World} {x : Nat} {k : Key} (hs : Sep w)
    (h : step w (.getitem x k) = .ok w') : Sep w' := by
  simp only [step] at h
  repeat' split at h
  all_goals first | cases h | skip
  · rename_i a hr _ o kvs hg _ v hk
    have ho := root_dict_user hs hr hg
    subst ho
    refine ⟨hs.heap, roots_ok hs (Ext.refl _) ?_⟩
    intro u hu
    simp at hu; subst hu
    exact hs.heap.user_closed a kvs hg _ (kvGet_mem hk)
  · rename_i a hr _ i hg _ kvs hin _ v hk _ h1 v' hw
    obtain ⟨i1, u1⟩ := wrapVal_spec hs.heap (Or.inr (innerKvs_owned hs.heap hg hin _ (kvGet_mem hk))) hw
    refine ⟨i1, roots_ok hs (wrapVal_ext hw) ?_⟩
    intro u hu
    simp at hu; subst hu
    exact u1

private theorem single_ok {h : Heap} {r : Val} (hr : UserVal h r) : ∀ v ∈ [r], UserVal h v := by
  intro v hv; simp at hv; subst hv; exact hr

private theorem sep_get {w w' : World} {x : Nat} {k : Key} {dflt : Leaf} (hs : Sep w)
    (h : step w (.get x k dflt) = .ok w') : Sep w' := by
  simp only [step] at h
  repeat' split at h
  all_goals first | cases h | skip
  · rename_i a hr _ o kvs hg _ v hk
    have ho := root_dict_user hs hr hg
    subst ho
    refine ⟨hs.heap, roots_ok hs (Ext.refl _) ?_⟩
    intro u hu
    simp at hu; subst hu
    exact hs.heap.user_closed a kvs hg _ (kvGet_mem hk)
  · exact ⟨hs.heap, roots_ok hs (Ext.refl _) (single_ok trivial)⟩
  · exact ⟨hs.heap, roots_ok hs (Ext.refl _) (single_ok trivial)⟩
  · rename_i a hr _ i hg _ kvs hin _ v hk _ h1 v' hw
    obtain ⟨i1, u1⟩ := wrapVal_spec hs.heap (Or.inr (innerKvs_owned hs.heap hg hin _ (kvGet_mem hk))) hw
    exact ⟨i1, roots_ok hs (wrapVal_ext hw) (single_ok u1)⟩

private theorem sep_items {w w' : World} {x : Nat} (hs : Sep w)
    (h : step w (.items x) = .ok w') : Sep w' := by
  simp only [step] at h
  repeat' split at h
  all_goals first | cases h | skip
  · rename_i a hr _ o kvs hg
    have ho := root_dict_user hs hr hg
    subst ho
    exact ⟨hs.heap, roots_ok hs (Ext.refl _) (vals_of_kvs (hs.heap.user_closed a kvs hg))⟩
  · rename_i a hr _ i hg _ h1 kvs hd
    obtain ⟨i1, u1⟩ := dictOf_spec hs.heap (root_valid hs hr) hd
    exact ⟨i1, roots_ok hs (dictOf_ext hd) (vals_of_kvs u1)⟩

private theorem sep_freeze {w w' : World} {x : Nat} (hs : Sep w)
    (h : step w (.freeze x) = .ok w') : Sep w' := by
  simp only [step] at h
  repeat' split at h
  all_goals first | cases h | skip
  rename_i v hr _ h1 xs hd _ h2 r hm
  obtain ⟨i1, u1⟩ := dictOf_spec hs.heap (root_valid hs hr) hd
  obtain ⟨i2, u2⟩ := mkFrozen_spec i1 (fun p hp => Or.inl (u1 p hp)) (dictOf_nodup hs.heap hd) hm
  exact ⟨i2, roots_ok hs ((dictOf_ext hd).trans (mkFrozen_ext hm)) (single_ok u2)⟩

private theorem deep_user_spec {n : Nat} {m : Mode} {h : Heap} {v : Val} {h' : Heap} {v' : Val}
    (hm : m ≠ .prepare) (hi : HeapInv h) (hv : UserVal h v)
    (hd : deep m false n h v = .ok (h', v')) : HeapInv h' ∧ UserVal h' v' :=
  deep_spec n m false h v h' v' (fun e => absurd e hm) (fun _ => rfl) hi ⟨Or.inl hv, by simp⟩ hd

private theorem sep_unfreeze {w w' : World} {x : Nat} (hs : Sep w)
    (h : step w (.unfreeze x) = .ok w') : Sep w' := by
  simp only [step] at h
  repeat' split at h
  all_goals first | cases h | skip
  rename_i v hr _ h1 r hd
  obtain ⟨i1, u1⟩ := deep_user_spec (by simp) hs.heap (root_valid hs hr) hd
  exact ⟨i1, roots_ok hs (deep_ext' hd) (single_ok u1)⟩

private theorem sep_treeMap {w w' : World} {x : Nat} (hs : Sep w)
    (h : step w (.treeMap x) = .ok w') : Sep w' := by
  simp only [step] at h
  repeat' split at h
  all_goals first | cases h | skip
  rename_i v hr _ h1 r hd
  obtain ⟨i1, u1⟩ := deep_user_spec (by simp) hs.heap (root_valid hs hr) hd
  exact ⟨i1, roots_ok hs (deep_ext' hd) (single_ok u1)⟩

private theorem sep_pickle {w w' : World} {x : Nat} (hs : Sep w)
    (h : step w (.pickle x) = .ok w') : Sep w' := by
  simp only [step] at h
  repeat' split at h
  all_goals first | cases h | skip
  rename_i a hr _ i hg _ h1 u hd _ h2 xs hdo _ h3 r hm
  obtain ⟨i1, u1⟩ := deep_user_spec (by simp) hs.heap (root_valid hs hr) hd
  obtain ⟨i2, u2⟩ := dictOf_spec i1 u1 hdo
  obtain ⟨i3, u3⟩ := mkFrozen_spec i2 (fun p hp => Or.inl (u2 p hp)) (dictOf_nodup i1 hdo) hm
  exact ⟨i3, roots_ok hs (((deep_ext' hd).trans (dictOf_ext hdo)).trans (mkFrozen_ext hm)) (single_ok u3)⟩

private theorem pair_ok {h : Heap} {r1 r2 : Val} (h1 : UserVal h r1) (h2 : UserVal h r2) :
    ∀ v ∈ [r1, r2], UserVal h v := by
  intro v hv; simp at hv; rcases hv with rfl | rfl
  · exact h1
  · exact h2

private theorem sep_pop {w w' : World} {x : Nat} {k : Key} (hs : Sep w)
    (h : step w (.pop x k) = .ok w') : Sep w' := by
  simp only [step] at h
  repeat' split at h
  all_goals first | cases h | skip
  · rename_i a hr _ i hg _ kvs hin _ v hk _ h1 value hw _ h2 r hm
    have hown := innerKvs_owned hs.heap hg hin
    obtain ⟨i1, u1⟩ := wrapVal_spec hs.heap (Or.inr (hown _ (kvGet_mem hk))) hw
    have e1 := wrapVal_ext hw
    obtain ⟨i2, u2⟩ := mkFrozen_spec i1
      (fun p hp => Or.inr (OwnedVal.mono e1 (hown p (mem_kvErase hp))))
      (nodup_kvErase _ (by
        obtain ⟨kv0, h0⟩ := hs.heap.frozen_inner a i hg
        simp [innerKvs, h0] at hin; subst hin
        exact hs.heap.keys_nodup i true _ h0)) hm
    have e2 := mkFrozen_ext hm
    exact ⟨i2, roots_ok hs (e1.trans e2) (pair_ok u2 (UserVal.mono e2 u1))⟩
  · rename_i a hr _ o kvs hg _ h1 kvs' hmap _ value hk
    have ho := root_dict_user hs hr hg
    subst ho
    obtain ⟨i1, u1⟩ := mapTree_spec hs.heap
      (fun p hp => Or.inl (hs.heap.user_closed a kvs hg p (mem_sortKvs hp))) hmap
    have e1 := mapDeep_ext hmap
    have i2 := HeapInv.alloc_dict i1 false (kvErase kvs' k) (fun p hp => u1 p (mem_kvErase hp))
      (nodup_kvErase _ (by rw [mapKvs_keys _ _ _ _ _ hmap]; exact nodup_sortKvs (hs.heap.keys_nodup a false kvs hg)))
    have e2 : Ext h1 (h1 ++ [Obj.dict false (kvErase kvs' k)]) := Ext.append _ _
    refine ⟨i2, roots_ok hs (e1.trans e2) (pair_ok (Or.inl ⟨kvErase kvs' k, by simp⟩) (UserVal.mono e2 (u1 _ (kvGet_mem hk))))⟩

private theorem sep_copy {w w' : World} {x : Nat} {add : Option Nat} (hs : Sep w)
    (h : step w (.copy x add) = .ok w') : Sep w' := by
  simp only [step] at h
  repeat' split at h
  all_goals first | cases h | skip
  · rename_i a hr _ i hg _ h1 xs hd _ _ h2 r hm
    obtain ⟨i1, u1⟩ := dictOf_spec hs.heap (root_valid hs hr) hd
    obtain ⟨i2, u2⟩ := mkFrozen_spec i1 (fun p hp => Or.inl (u1 p hp)) (dictOf_nodup hs.heap hd) hm
    exact ⟨i2, roots_ok hs ((dictOf_ext hd).trans (mkFrozen_ext hm)) (single_ok u2)⟩
  · rename_i a hr _ i hg _ h1 xs hd _ ai _ av hadd _ h2 u hdeep _ h3 ys hd2 _ h4 r hm
    obtain ⟨i1, u1⟩ := dictOf_spec hs.heap (root_valid hs hr) hd
    have e1 := dictOf_ext hd
    obtain ⟨i2, u2⟩ := deep_user_spec (by simp) i1 (UserVal.mono e1 (root_valid hs hadd)) hdeep
    have e2 := deep_ext' hdeep
    obtain ⟨i3, u3⟩ := dictOf_spec i2 u2 hd2
    have e3 := dictOf_ext hd2
    obtain ⟨i4, u4⟩ := mkFrozen_spec i3 (kvs := kvUpdate xs ys) (by
      intro p hp
      rcases mem_kvUpdate hp with h5 | h5
      · exact Or.inl (UserVal.mono (e2.trans e3) (u1 p h5))
      · exact Or.inl (u3 p h5)) (nodup_kvUpdate (dictOf_nodup hs.heap hd)) hm
    exact ⟨i4, roots_ok hs (((e1.trans e2).trans e3).trans (mkFrozen_ext hm)) (single_ok u4)⟩
  · rename_i a hr _ o kvs hg _ h1 kvs' hmap _
    have ho := root_dict_user hs hr hg
    subst ho
    obtain ⟨i1, u1⟩ := mapTree_spec hs.heap
      (fun p hp => Or.inl (hs.heap.user_closed a kvs hg p (mem_sortKvs hp))) hmap
    have i2 := HeapInv.alloc_dict i1 false kvs' u1
      (by rw [mapKvs_keys _ _ _ _ _ hmap]; exact nodup_sortKvs (hs.heap.keys_nodup a false kvs hg))
    exact ⟨i2, roots_ok hs ((mapDeep_ext hmap).trans (Ext.append _ _)) (single_ok (Or.inl ⟨kvs', by simp⟩))⟩
  · rename_i a hr _ o kvs hg _ h1 kvs' hmap _ ai _ av hadd _ h2 ys hd
    have ho := root_dict_user hs hr hg
    subst ho
    obtain ⟨i1, u1⟩ := mapTree_spec hs.heap
      (fun p hp => Or.inl (hs.heap.user_closed a kvs hg p (mem_sortKvs hp))) hmap
    have e1 := mapDeep_ext hmap
    obtain ⟨i2, u2⟩ := dictOf_spec i1 (UserVal.mono e1 (root_valid hs hadd)) hd
    have e2 := dictOf_ext hd
    have i3 := HeapInv.alloc_dict i2 false (kvUpdate kvs' ys) (by
      intro p hp
      rcases mem_kvUpdate hp with h5 | h5
      · exact UserVal.mono e2 (u1 p h5)
      · exact u2 p h5)
      (nodup_kvUpdate (by rw [mapKvs_keys _ _ _ _ _ hmap]; exact nodup_sortKvs (hs.heap.keys_nodup a false kvs hg)))
    exact ⟨i3, roots_ok hs ((e1.trans e2).trans (Ext.append _ _))
      (single_ok (Or.inl ⟨kvUpdate kvs' ys, by simp⟩))⟩

private theorem sep_copyView {w w' : World} {x ai : Nat} (hs : Sep w)
    (h : step w (.copyView x ai) = .ok w') : Sep w' := by
  simp only [step] at h
  repeat' split at h
  all_goals first | cases h | skip
  · rename_i a av hr hadd _ i hg _ h1 xs hd _ h2 ys hd2 _ h3 r hm
    obtain ⟨i1, u1⟩ := dictOf_spec hs.heap (root_valid hs hr) hd
    have e1 := dictOf_ext hd
    obtain ⟨i2, u2⟩ := dictOf_spec i1 (UserVal.mono e1 (root_valid hs hadd)) hd2
    have e2 := dictOf_ext hd2
    obtain ⟨i3, u3⟩ := mkFrozen_spec i2 (kvs := kvUpdate xs ys) (by
      intro p hp
      rcases mem_kvUpdate hp with h5 | h5
      · exact Or.inl (UserVal.mono e2 (u1 p h5))
      · exact Or.inl (u2 p h5)) (nodup_kvUpdate (dictOf_nodup hs.heap hd)) hm
    exact ⟨i3, roots_ok hs ((e1.trans e2).trans (mkFrozen_ext hm)) (single_ok u3)⟩
  · rename_i a av hr hadd _ o kvs hg _ h1 kvs' hmap _ h2 ys hd
    have ho := root_dict_user hs hr hg
    subst ho
    obtain ⟨i1, u1⟩ := mapTree_spec hs.heap
      (fun p hp => Or.inl (hs.heap.user_closed a kvs hg p (mem_sortKvs hp))) hmap
    have e1 := mapDeep_ext hmap
    obtain ⟨i2, u2⟩ := dictOf_spec i1 (UserVal.mono e1 (root_valid hs hadd)) hd
    have e2 := dictOf_ext hd
    have i3 := HeapInv.alloc_dict i2 false (kvUpdate kvs' ys) (by
      intro p hp
      rcases mem_kvUpdate hp with h5 | h5
      · exact UserVal.mono e2 (u1 p h5)
      · exact u2 p h5)
      (nodup_kvUpdate (by rw [mapKvs_keys _ _ _ _ _ hmap]; exact nodup_sortKvs (hs.heap.keys_nodup a false kvs hg)))
    exact ⟨i3, roots_ok hs ((e1.trans e2).trans (Ext.append _ _))
      (single_ok (Or.inl ⟨kvUpdate kvs' ys, by simp⟩))⟩

private theorem sep_unflatten {w w' : World} {ks : List (Key × Nat)} (hs : Sep w)
    (h : step w (.unflatten ks) = .ok w') : Sep w' := by
  simp only [step] at h
  split at h
  · cases h
  · rename_i kvs hres
    split at h
    · rename_i hok
      cases h
      simp only [Bool.and_eq_true, List.all_eq_true, decide_eq_true_eq] at hok
      have hch : ∀ p ∈ kvs, Cls true w.heap p.2 := by
        intro p hp
        have := hok.1 p hp
        cases hv : p.2 with
        | leaf l => trivial
        | ref a =>
          rw [hv] at this
          simp only [childOk] at this
          split at this
          · rename_i i hf; exact Or.inr ⟨i, hf⟩
          · cases this
      have i2 := HeapInv.alloc_dict hs.heap true kvs hch hok.2
      have i3 := HeapInv.alloc_frozen i2 w.heap.length ⟨kvs, by simp⟩
      have heq : w.heap ++ [Obj.dict true kvs, Obj.frozen w.heap.length]
          = (w.heap ++ [Obj.dict true kvs]) ++ [Obj.frozen w.heap.length] := by simp
      rw [heq]
      refine ⟨i3, roots_ok hs ((Ext.append _ _).trans (Ext.append _ _)) (single_ok (Or.inr ⟨w.heap.length, ?_⟩))⟩
      have : (w.heap ++ [Obj.dict true kvs]).length = w.heap.length + 1 := by simp
      rw [← this]; simp
    · cases h

/-- **The separation invariant is preserved by every operation**: every API call and every mutation
the user can perform on a dict they hold. -/
theorem step_preserves_sep (w w' : World) (op : Op) (hs : Sep w) (h : step w op = .ok w') : Sep w' := by
  cases op with
  | newDict => exact sep_newDict hs h
  | newLeaf l => exact sep_newLeaf hs h
  | setKey d k src => exact sep_setKey hs h
  | delKey d k => exact sep_delKey hs h
  | getitem x k => exact sep_getitem hs h
  | get x k d => exact sep_get hs h
  | items x => exact sep_items hs h
  | freeze x => exact sep_freeze hs h
  | unfreeze x => exact sep_unfreeze hs h
  | copy x add => exact sep_copy hs h
  | copyView x add => exact sep_copyView hs h
  | pop x k => exact sep_pop hs h
  | pickle x => exact sep_pickle hs h
  | treeMap x => exact sep_treeMap hs h
  | unflatten ks => exact sep_unflatten hs h

/-- the empty world satisfies the invariant -/
theorem sep_init : Sep World.init :=
  ⟨⟨by intro f i h; simp [World.init] at h, by intro a k h; simp [World.init] at h,
    by intro a k h; simp [World.init] at h, by intro f i h; simp [World.init] at h,
    by intro a o k h; simp [World.init] at h, by intro a k h; simp [World.init] at h⟩,
   by intro v hv; simp [World.init] at hv⟩

/-- the invariant holds after every history -/
theorem sep_run (ops : List Op) : ∀ w, Sep w → Sep (run w ops) := by
  induction ops with
  | nil => intro w hs; exact hs
  | cons op ops ih =>
    intro w hs
    simp only [run]
    split
    · rename_i w' hw; exact ih w' (step_preserves_sep w w' op hs hw)
    · exact ih w hs

/-! ## a FrozenDict never changes -/

/-- every owned dict and every FrozenDict object of `h` is still the same object in `h'` -/
private def Stable (h h' : Heap) : Prop := ∀ a, (isOwned h a ∨ isFrozen h a) → h'[a]? = h[a]?

private theorem Stable.of_ext {h h' : Heap} (e : Ext h h') : Stable h h' := by
  intro a ha
  rcases ha with ⟨k, hk⟩ | ⟨i, hk⟩
  · rw [hk]; exact e.get hk
  · rw [hk]; exact e.get hk

private theorem Stable.of_set {h : Heap} {a : Addr} {kvs : List (Key × Val)} (o : Obj)
    (hg : h[a]? = some (.dict false kvs)) : Stable h (h.set a o) := by
  intro b hb
  have hne : a ≠ b := by
    intro e; subst e
    rcases hb with ⟨k, hk⟩ | ⟨i, hk⟩ <;> (rw [hg] at hk; cases hk)
  exact get_set_ne hne

private theorem step_stable {w w' : World} {op : Op} (hs : Sep w) (h : step w op = .ok w') :
    Stable w.heap w'.heap := by
  by_cases hop : op.isUserWrite = false
  · exact Stable.of_ext (api_only_allocates w w' op hop h).1
  · cases op <;> simp [Op.isUserWrite] at hop
    · simp only [step] at h
      repeat' split at h
      all_goals first | cases h | skip
      rename_i a v hr hsrc _ o kvs hg
      have ho := root_dict_user hs hr hg
      subst ho
      exact Stable.of_set _ hg
    · simp only [step] at h
      repeat' split at h
      all_goals first | cases h | skip
      rename_i a hr _ o kvs hg _
      have ho := root_dict_user hs hr hg
      subst ho
      exact Stable.of_set _ hg

private theorem absKvs_congr {f g : Val → Option Tree} {kvs : List (Key × Val)}
    (h : ∀ p ∈ kvs, f p.2 = g p.2) : absKvs f kvs = absKvs g kvs := by
  induction kvs with
  | nil => rfl
  | cons p rest ih =>
    obtain ⟨k, v⟩ := p
    simp only [absKvs]
    rw [h (k, v) (by simp), ih (fun p hp => h p (by simp [hp]))]

private theorem abs_owned_stable {h h' : Heap} (hi : HeapInv h) (st : Stable h h') :
    ∀ (n : Nat) (fz : Bool) (v : Val), OwnedVal h v → absVal fz n h' v = absVal fz n h v := by
  intro n
  induction n with
  | zero => intro fz v _; cases v <;> simp [absVal]
  | succ n ih =>
    intro fz v hv
    cases v with
    | leaf l => simp [absVal]
    | ref a =>
      rcases hv with ⟨kvs, hk⟩ | ⟨i, hf⟩
      · simp only [absVal]
        rw [st a (Or.inl ⟨kvs, hk⟩), hk]
        simp only
        rw [absKvs_congr (fun p hp => ih fz p.2 (hi.owned_closed a kvs hk p hp))]
      · obtain ⟨kvs, hk⟩ := hi.frozen_inner a i hf
        simp only [absVal]
        rw [st a (Or.inr ⟨i, hf⟩), hf]
        simp only
        rw [st i (Or.inl ⟨kvs, hk⟩), hk]
        simp only
        rw [absKvs_congr (fun p hp => ih true p.2 (hi.owned_closed i kvs hk p hp))]

private theorem abs_frozen_stable {h h' : Heap} (hi : HeapInv h) (st : Stable h h') {f i : Addr}
    (hf : h[f]? = some (.frozen i)) (fz : Bool) (n : Nat) :
    absVal fz n h' (.ref f) = absVal fz n h (.ref f) :=
  abs_owned_stable hi st n fz (.ref f) (Or.inr ⟨i, hf⟩)

/-- **A FrozenDict never changes.**  Take any world satisfying the invariant (in particular any world
reached from the empty one, `sep_run`), any FrozenDict `f` in it, and *any* further history of API calls
interleaved with user mutations of source dicts and of returned values: `f` is still the same object
and denotes the same abstract value (for every fuel, so also "undefined" is preserved). -/
theorem frozen_never_changes (ops : List Op) : ∀ (w : World), Sep w → ∀ (f i : Addr),
    w.heap[f]? = some (Obj.frozen i) →
    (run w ops).heap[f]? = some (Obj.frozen i) ∧
    ∀ fz n, absVal fz n (run w ops).heap (.ref f) = absVal fz n w.heap (.ref f) := by
  induction ops with
  | nil => intro w _ f i hf; exact ⟨hf, fun _ _ => rfl⟩
  | cons op ops ih =>
    intro w hs f i hf
    simp only [run]
    split
    · rename_i w' hw
      have st := step_stable hs hw
      have hf' : w'.heap[f]? = some (Obj.frozen i) := by rw [st f (Or.inr ⟨i, hf⟩)]; exact hf
      obtain ⟨h1, h2⟩ := ih w' (step_preserves_sep w w' op hs hw) f i hf'
      exact ⟨h1, fun fz n => by rw [h2 fz n, abs_frozen_stable hs.heap st hf]⟩
    · exact ih w hs f i hf

/-- the same, from the very beginning: whatever was done before (`pre`) and whatever is done after (`post`) -/
theorem frozen_never_changes_any_history (pre post : List Op) (f i : Addr)
    (hf : (run World.init pre).heap[f]? = some (Obj.frozen i)) (fz : Bool) (n : Nat) :
    absVal fz n (run (run World.init pre) post).heap (.ref f) = absVal fz n (run World.init pre).heap (.ref f) :=
  (frozen_never_changes post _ (sep_run pre _ sep_init) f i hf).2 fz n

/-- writes through a FrozenDict handle raise, whatever the world -/
theorem frozen_write_raises (w : World) (d : Nat) (k : Key) (src : Nat) (f i : Addr) (v : Val)
    (hd : w.roots[d]? = some (.ref f)) (hf : w.heap[f]? = some (Obj.frozen i))
    (hsrc : w.roots[src]? = some v) :
    step w (.setKey d k src) = .error .immutable ∧ step w (.delKey d k) = .error .immutable := by
  simp [step, hd, hf, hsrc]

/-! ## separation, stated with reachability (no ghost flag) -/

/-- `c` is reachable from `a` through values of dict objects -/
inductive Reach (h : Heap) : Addr → Addr → Prop where
  | refl (a : Addr) : Reach h a a
  | step {a b c : Addr} {o : Bool} {kvs : List (Key × Val)} {k : Key} :
      h[a]? = some (Obj.dict o kvs) → (k, Val.ref b) ∈ kvs → Reach h b c → Reach h a c

private theorem reach_owned {h : Heap} (hi : HeapInv h) {a c : Addr} (hr : Reach h a c) :
    (isOwned h a ∨ isFrozen h a) → (isOwned h c ∨ isFrozen h c) := by
  induction hr with
  | refl a => exact id
  | step hg hm _ ih =>
    intro ha
    rcases ha with ⟨k1, h1⟩ | ⟨j, h1⟩
    · rw [hg] at h1; cases h1
      exact ih (hi.owned_closed _ _ hg _ hm)
    · rw [hg] at h1; cases h1

private theorem reach_user {h : Heap} (hi : HeapInv h) {a c : Addr} (hr : Reach h a c) :
    (isUser h a ∨ isFrozen h a) → (isUser h c ∨ isFrozen h c) := by
  induction hr with
  | refl a => exact id
  | step hg hm _ ih =>
    intro ha
    rcases ha with ⟨k1, h1⟩ | ⟨j, h1⟩
    · rw [hg] at h1; cases h1
      exact ih (hi.user_closed _ _ hg _ hm)
    · rw [hg] at h1; cases h1

/-- **Separation**: no *dict* (the only mutable kind of object) reachable from the `_dict` of any
FrozenDict `f` (that dict itself included) is reachable from any value the user holds — the sources a
FrozenDict was built from, and everything any API call ever returned, are all among the held values.
(A FrozenDict object is terminal for `Reach`: nobody can walk into it, `__getitem__`/iteration hand
out copies; FrozenDict objects themselves may be shared — `tree_unflatten` keeps a FrozenDict child as
it is — which is harmless because they never change.) -/
theorem frozen_separation (w : World) (hs : Sep w) (f i r c : Addr) (o : Bool) (kvs : List (Key × Val))
    (hf : w.heap[f]? = some (Obj.frozen i)) (hr : Val.ref r ∈ w.roots)
    (hc : w.heap[c]? = some (Obj.dict o kvs))
    (h1 : Reach w.heap i c) (h2 : Reach w.heap r c) : False := by
  have e1 := reach_owned hs.heap h1 (Or.inl (hs.heap.frozen_inner f i hf))
  have e2 := reach_user hs.heap h2 (hs.roots _ hr)
  rcases e1 with ⟨k1, e1⟩ | ⟨j, e1⟩
  · rw [hc] at e1; cases e1
    rcases e2 with ⟨k2, e2⟩ | ⟨j, e2⟩ <;> (rw [hc] at e2; cases e2)
  · rw [hc] at e1; cases e1

/-- separation after every history from the empty world -/
theorem frozen_separation_any_history (ops : List Op) (f i r c : Addr) (o : Bool) (kvs : List (Key × Val))
    (hf : (run World.init ops).heap[f]? = some (Obj.frozen i)) (hr : Val.ref r ∈ (run World.init ops).roots)
    (hc : (run World.init ops).heap[c]? = some (Obj.dict o kvs))
    (h1 : Reach (run World.init ops).heap i c) (h2 : Reach (run World.init ops).heap r c) : False :=
  frozen_separation _ (sep_run ops _ sep_init) f i r c o kvs hf hr hc h1 h2

/-! ### non-vacuity: a concrete history -/

/-- `src = {'b': inner}`, `inner = {'z': 5}`, `fd = freeze(src)` -/
private def demoPre : List Op :=
  [.newDict, .newLeaf (.atom 5), .newDict, .setKey 2 "z" 1, .setKey 0 "b" 2, .freeze 0]

/-- mutate the nested source dict, index the FrozenDict, delete from the source, unfreeze, mutate the result -/
private def demoPost : List Op :=
  [.setKey 2 "q" 1, .getitem 3 "b", .delKey 0 "b", .unfreeze 3, .setKey 5 "z" 0, .setKey 3 "z" 1]

example : (run World.init demoPre).heap[4]? = some (Obj.frozen 3) := by decide
example : (run World.init demoPre).roots[3]? = some (Val.ref 4) := by decide
/-- the hypotheses of `frozen_never_changes_any_history` hold for it, and the value is a real one -/
example : (match absVal false 10 (run (run World.init demoPre) demoPost).heap (.ref 4) with
    | some (.node true [("b", .node true [("z", .leaf (.atom 5))])]) => true
    | _ => false) = true := by decide
/-- while the source did change -/
example : (match absVal false 10 (run (run World.init demoPre) demoPost).heap (.ref 0) with
    | some (.node false []) => true
    | _ => false) = true := by decide
/-- `frozen_write_raises` applies to the last operation of `demoPost` -/
example : (match step (run World.init demoPre) (.setKey 3 "z" 1) with
    | .error .immutable => true
    | _ => false) = true := by decide
/-- `frozen_separation` is not vacuous: the FrozenDict's `_dict` reaches a nested dict, the user's
source reaches a nested dict, and they are different objects -/
example : Reach (run World.init demoPre).heap 3 2 ∧ Reach (run World.init demoPre).heap 0 1 :=
  ⟨.step (k := "b") (o := true) (kvs := [("b", .ref 2)]) (by decide) (by decide) (.refl 2),
   .step (k := "b") (o := false) (kvs := [("b", .ref 1)]) (by decide) (by decide) (.refl 1)⟩

/-! ## equality and hash do not depend on insertion order -/

mutual
  /-- equal contents as finite maps, recursively: at every level the entries of the right-hand side
  are a permutation of entries with the same keys and (recursively) equal values.  The
  dict/FrozenDict tag is ignored. -/
  inductive MapEq : Tree → Tree → Prop where
    | leaf (l : Leaf) : MapEq (.leaf l) (.leaf l)
    | node {f1 f2 : Bool} {k1 k2 k2' : List (Key × Tree)} :
        k2.Perm k2' → KvsEq k1 k2' → MapEq (.node f1 k1) (.node f2 k2)
  inductive KvsEq : List (Key × Tree) → List (Key × Tree) → Prop where
    | nil : KvsEq [] []
    | cons {k : Key} {t1 t2 : Tree} {r1 r2 : List (Key × Tree)} :
        MapEq t1 t2 → KvsEq r1 r2 → KvsEq ((k, t1) :: r1) ((k, t2) :: r2)
end

private theorem kvsHash_cons (H : HashFns) (p : Key × Tree) (r : List (Key × Tree)) :
    kvsHash H (p :: r) =
      match treeHash H p.2, kvsHash H r with
      | some a, some b => some (b ^^^ H.pair (H.hk p.1) a)
      | _, _ => none := by
  obtain ⟨k, t⟩ := p
  simp only [kvsHash]
  rfl

private theorem kvsHash_perm (H : HashFns) {l1 l2 : List (Key × Tree)} (hp : l1.Perm l2) :
    kvsHash H l1 = kvsHash H l2 := by
  induction hp with
  | nil => rfl
  | cons x _ ih => rw [kvsHash_cons, kvsHash_cons, ih]
  | swap x y l =>
    simp only [kvsHash_cons]
    cases treeHash H x.2 <;> cases treeHash H y.2 <;> cases kvsHash H l <;> simp
    rw [Nat.xor_assoc, Nat.xor_assoc, Nat.xor_comm (H.pair _ _)]
  | trans _ _ ih1 ih2 => rw [ih1, ih2]

mutual
  private theorem hash_mapEq (H : HashFns) : ∀ {t1 t2 : Tree}, MapEq t1 t2 → treeHash H t1 = treeHash H t2
    | _, _, .leaf l => rfl
    | _, _, .node hp hk => by
      simp only [treeHash]
      rw [hash_kvsEq H hk, kvsHash_perm H hp]
  private theorem hash_kvsEq (H : HashFns) : ∀ {k1 k2 : List (Key × Tree)}, KvsEq k1 k2 → kvsHash H k1 = kvsHash H k2
    | _, _, .nil => rfl
    | _, _, .cons ht hr => by
      simp only [kvsHash]
      rw [hash_mapEq H ht, hash_kvsEq H hr]
end

/-- **Equal contents hash equal, whatever the insertion orders** (at every nesting level), for every
choice of Python's key hash, leaf hash and tuple-hash combiner; this includes the error case: one
raises TypeError (unhashable leaf) iff the other does. -/
theorem hash_order_independent (H : HashFns) (t1 t2 : Tree) (h : MapEq t1 t2) :
    treeHash H t1 = treeHash H t2 := hash_mapEq H h

mutual
  /-- keys are distinct at every level (true of every Python dict) -/
  def wfTree : Tree → Bool
    | .leaf _ => true
    | .node _ kvs => decide ((kvs.map (·.1)).Nodup) && wfKvs kvs
  def wfKvs : List (Key × Tree) → Bool
    | [] => true
    | (_, t) :: r => wfTree t && wfKvs r
end

private theorem wfKvs_mem {kvs : List (Key × Tree)} (h : wfKvs kvs = true) : ∀ p ∈ kvs, wfTree p.2 = true := by
  induction kvs with
  | nil => intro p hp; cases hp
  | cons q r ih =>
    obtain ⟨k, t⟩ := q
    simp only [wfKvs, Bool.and_eq_true] at h
    intro p hp
    simp at hp
    rcases hp with rfl | hp
    · exact h.1
    · exact ih h.2 p hp

private theorem lookupT_of_mem {kvs : List (Key × Tree)} {k : Key} {t : Tree}
    (hn : (kvs.map (·.1)).Nodup) (hm : (k, t) ∈ kvs) : lookupT k kvs = some t := by
  induction kvs with
  | nil => cases hm
  | cons q r ih =>
    obtain ⟨k', t'⟩ := q
    simp only [List.map_cons, List.nodup_cons] at hn
    simp only [lookupT]
    simp at hm
    rcases hm with ⟨rfl, rfl⟩ | hm
    · simp
    · have hne : k' ≠ k := by
        intro e; subst e
        exact hn.1 (List.mem_map.mpr ⟨(k', t), hm, rfl⟩)
      simp [hne, ih hn.2 hm]

private theorem kvsEq_length : ∀ {k1 k2 : List (Key × Tree)}, KvsEq k1 k2 → k1.length = k2.length
  | _, _, .nil => rfl
  | _, _, .cons _ hr => by simp [kvsEq_length hr]

mutual
  private theorem eq_mapEq : ∀ {t1 t2 : Tree}, MapEq t1 t2 → wfTree t2 = true → treeEq t1 t2 = true
    | _, _, .leaf l, _ => by simp [treeEq]
    | _, _, .node (k1 := k1) (k2 := k2) (k2' := k2') hp hk, hw => by
      simp only [wfTree, Bool.and_eq_true, decide_eq_true_eq] at hw
      simp only [treeEq, Bool.and_eq_true, decide_eq_true_eq]
      refine ⟨by rw [kvsEq_length hk, hp.length_eq], ?_⟩
      exact eq_kvsEq hk
        (fun p hp' => lookupT_of_mem hw.1 (hp.mem_iff.mpr hp'))
        (fun p hp' => wfKvs_mem hw.2 p (hp.mem_iff.mpr hp'))
  private theorem eq_kvsEq : ∀ {r1 r2 k2 : List (Key × Tree)}, KvsEq r1 r2 →
      (∀ p ∈ r2, lookupT p.1 k2 = some p.2) → (∀ p ∈ r2, wfTree p.2 = true) → kvsSub r1 k2 = true
    | _, _, _, .nil, _, _ => rfl
    | _, _, _, .cons (k := k) (t2 := t2) ht hr, hl, hw => by
      simp only [kvsSub, hl (k, t2) (by simp), Bool.and_eq_true]
      exact ⟨eq_mapEq ht (hw (k, t2) (by simp)),
        eq_kvsEq hr (fun p hp => hl p (by simp [hp])) (fun p hp => hw p (by simp [hp]))⟩
end

/-- **Equal contents compare equal, whatever the insertion orders** (`Mapping.__eq__`), between
FrozenDicts and between a FrozenDict and a dict. -/
theorem eq_order_independent (t1 t2 : Tree) (h : MapEq t1 t2) (hw : wfTree t2 = true) :
    treeEq t1 t2 = true := eq_mapEq h hw

/-- non-vacuity: two insertion orders of `{'a': 1, 'b': {'x': 2, 'y': 3}}`, one a FrozenDict, one a dict -/
private def exT1 : Tree := .node true [("a", .leaf (.atom 1)), ("b", .node true [("x", .leaf (.atom 2)), ("y", .leaf (.atom 3))])]
private def exT2 : Tree := .node false [("b", .node false [("y", .leaf (.atom 3)), ("x", .leaf (.atom 2))]), ("a", .leaf (.atom 1))]

example : MapEq exT1 exT2 ∧ wfTree exT2 = true :=
  ⟨.node (k2' := [("a", .leaf (.atom 1)), ("b", .node false [("y", .leaf (.atom 3)), ("x", .leaf (.atom 2))])])
      (List.Perm.swap _ _ _)
      (.cons (.leaf _) (.cons (.node (k2' := [("x", .leaf (.atom 2)), ("y", .leaf (.atom 3))]) (List.Perm.swap _ _ _)
        (.cons (.leaf _) (.cons (.leaf _) .nil))) .nil)),
   by decide⟩

/-- `hash` is cached in `_hash` on first use.  Because a FrozenDict's abstract value never changes,
a hash computed at any point of a history is the hash at every later point: the cache cannot go stale. -/
theorem hash_cache_never_stale (H : HashFns) (pre post : List Op) (f i : Addr)
    (hf : (run World.init pre).heap[f]? = some (Obj.frozen i)) (n : Nat) :
    (absVal false n (run (run World.init pre) post).heap (.ref f)).bind (treeHash H)
      = (absVal false n (run World.init pre).heap (.ref f)).bind (treeHash H) := by
  rw [frozen_never_changes_any_history pre post f i hf]

/-! ## pytree flatten / unflatten -/

mutual
  private theorem unflatten_flatten : ∀ (t : Tree) (rest : List Leaf),
      unflatten (flatten t).2 ((flatten t).1 ++ rest) = some (t, rest)
    | .leaf l, rest => by simp [flatten, unflatten]
    | .node fz kvs, rest => by
      simp only [flatten, unflatten]
      rw [unflattenKvs_flattenKvs kvs rest]
  private theorem unflattenKvs_flattenKvs : ∀ (kvs : List (Key × Tree)) (rest : List Leaf),
      unflattenKvs (flattenKvs kvs).2 ((flattenKvs kvs).1 ++ rest) = some (kvs, rest)
    | [], rest => by simp [flattenKvs, unflattenKvs]
    | (k, t) :: r, rest => by
      simp only [flattenKvs, unflattenKvs, List.append_assoc]
      rw [unflatten_flatten t _]
      simp only
      rw [unflattenKvs_flattenKvs r rest]
end

mutual
  private theorem mapEq_sortTree : ∀ (t : Tree), MapEq t (sortTree t)
    | .leaf l => by simp only [sortTree]; exact .leaf l
    | .node fz kvs => by
      simp only [sortTree]
      exact .node (k2' := sortTreeKvs kvs) (sortKvs_perm _) (kvsEq_sortTreeKvs kvs)
  private theorem kvsEq_sortTreeKvs : ∀ (kvs : List (Key × Tree)), KvsEq kvs (sortTreeKvs kvs)
    | [] => by simp only [sortTreeKvs]; exact .nil
    | (k, t) :: r => by
      simp only [sortTreeKvs]
      exact .cons (mapEq_sortTree t) (kvsEq_sortTreeKvs r)
end

/-- **flatten then unflatten gives an equal value**: `tree_unflatten(*tree_flatten(fd))` consumes
exactly the leaves and rebuilds a value with the same contents (keys in sorted order) -/
theorem pytree_roundtrip (t : Tree) :
    ∃ t', unflatten (flattenS t).2 (flattenS t).1 = some (t', []) ∧ MapEq t t' := by
  refine ⟨sortTree t, ?_, mapEq_sortTree t⟩
  have := unflatten_flatten (sortTree t) []
  simpa [flattenS] using this

/-- unflatten is exact on whatever flatten produced, with any leaves that follow left untouched
(this is what lets jax flatten several arguments into one leaf list) -/
theorem unflatten_flatten_exact (t : Tree) (rest : List Leaf) :
    unflatten (flatten t).2 ((flatten t).1 ++ rest) = some (t, rest) := unflatten_flatten t rest

/-! ## struct.dataclass / PyTreeNode -/

open Flax.Struct (PV SDef)

private theorem s_flatten_not_static (v : PV) : (match (Struct.flatten v).2 with | .static _ => false | _ => true) = true := by
  cases v <;> simp [Struct.flatten]

mutual
  private theorem s_unflatten_flatten : ∀ (x : PV) (rest : List Int),
      Struct.unflatten (Struct.flatten x).2 ((Struct.flatten x).1 ++ rest) = some (x, rest)
    | .leaf n, rest => by simp [Struct.flatten, Struct.unflatten]
    | .inst cls fr fs, rest => by
      simp only [Struct.flatten, Struct.unflatten]
      rw [s_unflattenFs_flattenFs fs rest]
  private theorem s_unflattenFs_flattenFs : ∀ (fs : List (String × Bool × PV)) (rest : List Int),
      Struct.unflattenFs (Struct.flattenFs fs).2 ((Struct.flattenFs fs).1 ++ rest) = some (fs, rest)
    | [], rest => by simp [Struct.flattenFs, Struct.unflattenFs]
    | (name, true, v) :: r, rest => by
      simp only [Struct.flattenFs, Struct.unflattenFs, List.append_assoc]
      rw [s_unflatten_flatten v _]
      simp only
      rw [s_unflattenFs_flattenFs r rest]
      have hns := s_flatten_not_static v
      cases hv : (Struct.flatten v).2 <;> simp_all
    | (name, false, v) :: r, rest => by
      simp only [Struct.flattenFs, Struct.unflattenFs, Struct.unflatten]
      rw [s_unflattenFs_flattenFs r rest]
end

/-- **tree_unflatten ∘ tree_flatten is the identity on struct instances**: same class, same `frozen`
setting, same fields in the same order, same static values, same data. -/
theorem struct_roundtrip (x : PV) : Struct.unflattenAll (Struct.flatten x).2 (Struct.flatten x).1 = .ok x := by
  have := s_unflatten_flatten x []
  simp only [List.append_nil] at this
  simp [Struct.unflattenAll, this]

mutual
  /-- the specification of the leaves: the values of the fields *not* marked `pytree_node=False`, in
  field order, recursively; a static field contributes nothing, whatever it holds -/
  def dataLeaves : PV → List Int
    | .leaf n => [n]
    | .inst _ _ fs => dataLeavesFs fs
  def dataLeavesFs : List (String × Bool × PV) → List Int
    | [] => []
    | (_, node, v) :: r => (if node then dataLeaves v else []) ++ dataLeavesFs r
end

mutual
  private theorem s_leaves : ∀ (x : PV), (Struct.flatten x).1 = dataLeaves x
    | .leaf n => by simp [Struct.flatten, dataLeaves]
    | .inst cls fr fs => by simp only [Struct.flatten, dataLeaves]; exact s_leavesFs fs
  private theorem s_leavesFs : ∀ (fs : List (String × Bool × PV)), (Struct.flattenFs fs).1 = dataLeavesFs fs
    | [] => by simp [Struct.flattenFs, dataLeavesFs]
    | (name, true, v) :: r => by
      simp only [Struct.flattenFs, dataLeavesFs, if_true]
      rw [s_leaves v, s_leavesFs r]
    | (name, false, v) :: r => by
      simp only [Struct.flattenFs, dataLeavesFs]
      rw [s_leavesFs r]; simp
end

/-- **the pytree leaves are exactly the fields not marked `pytree_node=False`**, in field order -/
theorem struct_leaves (x : PV) : (Struct.flatten x).1 = dataLeaves x := s_leaves x

/-- **static fields travel in the treedef**: if two values have the same treedef, the second is the
first with its data leaves replaced — class, `frozen`, field layout and every static value coincide.
Contrapositive: changing a `pytree_node=False` field changes the treedef (a jit cache miss, A-JIT). -/
theorem struct_static_in_treedef (x y : PV) (h : (Struct.flatten x).2 = (Struct.flatten y).2) :
    Struct.unflattenAll (Struct.flatten x).2 (Struct.flatten y).1 = .ok y := by
  rw [h]; exact struct_roundtrip y

/-- a concrete instance of the contrapositive: same class, same data, different static value ⇒ different treedef -/
theorem struct_static_change_changes_treedef :
    (Struct.flatten (.inst "A" true [("x", true, .leaf 1), ("m", false, .leaf 7)])).2
      ≠ (Struct.flatten (.inst "A" true [("x", true, .leaf 1), ("m", false, .leaf 8)])).2 := by
  simp [Struct.flatten, Struct.flattenFs]

mutual
  private theorem s_map_def (f : Int → Int) : ∀ (x : PV),
      Struct.flatten (Struct.mapLeaves f x) = (((Struct.flatten x).1).map f, (Struct.flatten x).2)
    | .leaf n => by simp [Struct.flatten, Struct.mapLeaves]
    | .inst cls fr fs => by
      simp only [Struct.flatten, Struct.mapLeaves]
      rw [s_map_defFs f fs]
  private theorem s_map_defFs (f : Int → Int) : ∀ (fs : List (String × Bool × PV)),
      Struct.flattenFs (Struct.mapLeavesFs f fs) = (((Struct.flattenFs fs).1).map f, (Struct.flattenFs fs).2)
    | [] => by simp [Struct.flattenFs, Struct.mapLeavesFs]
    | (name, true, v) :: r => by
      simp only [Struct.flattenFs, Struct.mapLeavesFs]
      rw [s_map_def f v, s_map_defFs f r]; simp
    | (name, false, v) :: r => by
      simp only [Struct.flattenFs, Struct.mapLeavesFs]
      rw [s_map_defFs f r]
end

/-- **tree_map (hence jit / vmap / grad outputs, which are rebuilt by tree_unflatten from the same
treedef) keeps the class and the static fields**: the treedef is unchanged and the leaves are mapped;
so changing only data never changes the treedef (no retrace). -/
theorem struct_tree_map (f : Int → Int) (x : PV) :
    (Struct.flatten (Struct.mapLeaves f x)).2 = (Struct.flatten x).2 ∧
    (Struct.flatten (Struct.mapLeaves f x)).1 = ((Struct.flatten x).1).map f := by
  rw [s_map_def f x]; exact ⟨rfl, rfl⟩

/-- **instances are frozen**: attribute assignment raises (unless the caller explicitly asked for
`frozen=False`, which `struct.dataclass` honours) -/
theorem struct_setattr_raises (cls : String) (fs : List (String × Bool × PV)) (name : String) (v : PV) :
    Struct.setattr (.inst cls true fs) name v = .error .frozenInstance := by
  simp [Struct.setattr]

private theorem setField_spec {fs fs' : List (String × Bool × PV)} {name : String} {x : PV}
    (h : Struct.setField fs name x = some fs') :
    fs'.map (fun p => (p.1, p.2.1)) = fs.map (fun p => (p.1, p.2.1)) ∧
    Struct.getField fs' name = some x ∧
    ∀ other, other ≠ name → Struct.getField fs' other = Struct.getField fs other := by
  induction fs generalizing fs' with
  | nil => simp [Struct.setField] at h
  | cons q r ih =>
    obtain ⟨n, b, v⟩ := q
    simp only [Struct.setField] at h
    split at h
    · rename_i hn
      simp at h; subst h; subst hn
      refine ⟨by simp, by simp [Struct.getField], ?_⟩
      intro other ho
      simp [Struct.getField, Ne.symm ho]
    · rename_i hn
      cases hr : Struct.setField r name x with
      | none => simp [hr] at h
      | some r' =>
        simp [hr] at h; subst h
        obtain ⟨h1, h2, h3⟩ := ih hr
        refine ⟨by simp [h1], by simp [Struct.getField, hn, h2], ?_⟩
        intro other ho
        simp only [Struct.getField]
        split
        · rfl
        · exact h3 other ho

/-- **replace changes only the named fields**: the result has the same field names and
`pytree_node` flags in the same order; a field that is not named keeps its value; with distinct
names every named field holds the given value; an unknown name is an error (nothing is returned). -/
theorem struct_replace_spec (ups : List (String × PV)) : ∀ (fs fs' : List (String × Bool × PV)),
    Struct.replaceFs fs ups = .ok fs' →
    fs'.map (fun p => (p.1, p.2.1)) = fs.map (fun p => (p.1, p.2.1)) ∧
    (∀ other, other ∉ ups.map (·.1) → Struct.getField fs' other = Struct.getField fs other) ∧
    ((ups.map (·.1)).Nodup → ∀ p ∈ ups, Struct.getField fs' p.1 = some p.2) := by
  induction ups with
  | nil =>
    intro fs fs' h
    simp [Struct.replaceFs] at h; subst h
    exact ⟨rfl, fun _ _ => rfl, fun _ p hp => by cases hp⟩
  | cons u rest ih =>
    intro fs fs' h
    obtain ⟨n, v⟩ := u
    simp only [Struct.replaceFs] at h
    split at h
    · cases h
    · rename_i fs1 hset
      obtain ⟨a1, a2, a3⟩ := setField_spec hset
      obtain ⟨b1, b2, b3⟩ := ih fs1 fs' h
      refine ⟨b1.trans a1, ?_, ?_⟩
      · intro other ho
        simp at ho
        rw [b2 other (by simpa using ho.2), a3 other ho.1]
      · intro hnd p hp
        simp only [List.map_cons, List.nodup_cons] at hnd
        simp at hp
        rcases hp with rfl | hp
        · rw [b2 _ hnd.1]; exact a2
        · exact b3 hnd.2 p hp

/-- `replace` returns an instance of the same class (and same `frozen` setting) and leaves its argument alone
(the model is functional: `x` is still `x`); an unknown field name raises -/
theorem struct_replace_same_class (cls : String) (fr : Bool) (fs : List (String × Bool × PV))
    (ups : List (String × PV)) (y : PV) (h : Struct.replace (.inst cls fr fs) ups = .ok y) :
    ∃ fs', y = .inst cls fr fs' ∧ Struct.replaceFs fs ups = .ok fs' := by
  simp only [Struct.replace] at h
  split at h
  · rename_i fs' hr; simp at h; exact ⟨fs', h.symm, hr⟩
  · cases h

theorem struct_replace_unknown_raises (fs : List (String × Bool × PV)) (name : String) (v : PV)
    (rest : List (String × PV)) (h : Struct.getField fs name = none) :
    Struct.replaceFs fs ((name, v) :: rest) = .error .typeError := by
  have : Struct.setField fs name v = none := by
    induction fs with
    | nil => rfl
    | cons q r ih =>
      obtain ⟨n, b, x⟩ := q
      simp only [Struct.getField] at h
      split at h
      · cases h
      · rename_i hn; simp [Struct.setField, hn, ih h]
  simp [Struct.replaceFs, this]

/-- non-vacuity: a nested layout with data and static fields -/
private def exS : PV :=
  .inst "Model" true [("params", true, .inst "P" true [("w", true, .leaf 3), ("b", true, .leaf 4)]),
                      ("apply_fn", false, .leaf 99), ("step", true, .leaf 0)]

example : Struct.flatten exS = ([3, 4, 0], .inst "Model" true
    [("params", .inst "P" true [("w", .leaf), ("b", .leaf)]), ("apply_fn", .static (.leaf 99)), ("step", .leaf)]) := by
  simp [exS, Struct.flatten, Struct.flattenFs]
example : (match Struct.replace exS [("step", .leaf 1)] with
    | .ok (.inst "Model" true [(_, _, _), ("apply_fn", false, .leaf 99), ("step", true, .leaf 1)]) => true
    | _ => false) = true := by decide

/-! ## copies are faithful: every API result has the same contents as its source

`canon` forgets the dict/FrozenDict tag and sorts the keys at every level, so "same contents" is an
equality and composes. -/

mutual
  def canon : Tree → Tree
    | .leaf l => .leaf l
    | .node _ kvs => .node false (sortKvs (canonKvs kvs))
  def canonKvs : List (Key × Tree) → List (Key × Tree)
    | [] => []
    | (k, t) :: r => (k, canon t) :: canonKvs r
end

/-- equal contents (as finite maps with sorted keys, tags ignored) -/
def SameContent (t1 t2 : Tree) : Prop := canon t1 = canon t2

private def SortedK {α : Type} (l : List (Key × α)) : Prop := l.Pairwise (fun a b => a.1 ≤ b.1)

private theorem insertKv_sorted {α : Type} (p : Key × α) (l : List (Key × α)) (hl : SortedK l) :
    SortedK (insertKv p l) := by
  induction l with
  | nil => simp [insertKv, SortedK]
  | cons q r ih =>
    simp only [SortedK, List.pairwise_cons] at hl
    simp only [insertKv]
    split
    · rename_i hle
      simp only [SortedK, List.pairwise_cons]
      refine ⟨?_, hl.1, hl.2⟩
      intro b hb
      simp at hb
      rcases hb with rfl | hb
      · exact hle
      · exact String.le_trans hle (hl.1 b hb)
    · rename_i hnle
      have hqp : q.1 ≤ p.1 := by
        rcases String.le_total p.1 q.1 with h1 | h1
        · exact absurd h1 hnle
        · exact h1
      simp only [SortedK, List.pairwise_cons]
      refine ⟨?_, ih hl.2⟩
      intro b hb
      rcases mem_insertKv.mp hb with rfl | hb
      · exact hqp
      · exact hl.1 b hb

private theorem sortKvs_sorted {α : Type} (l : List (Key × α)) : SortedK (sortKvs l) := by
  induction l with
  | nil => simp [sortKvs, SortedK]
  | cons q r ih =>
    have : sortKvs (q :: r) = insertKv q (sortKvs r) := rfl
    rw [this]; exact insertKv_sorted q _ ih

private theorem sortKvs_of_sorted {α : Type} (l : List (Key × α)) (hl : SortedK l) : sortKvs l = l := by
  induction l with
  | nil => rfl
  | cons q r ih =>
    simp only [SortedK, List.pairwise_cons] at hl
    have : sortKvs (q :: r) = insertKv q (sortKvs r) := rfl
    rw [this, ih hl.2]
    cases r with
    | nil => rfl
    | cons q2 r2 => simp [insertKv, hl.1 q2 (by simp)]

private theorem sortKvs_idem {α : Type} (l : List (Key × α)) : sortKvs (sortKvs l) = sortKvs l :=
  sortKvs_of_sorted _ (sortKvs_sorted l)

/-- mapping the values (keeping the keys) commutes with sorting by key -/
private theorem insertKv_mapVal {α β : Type} (g : α → β) (p : Key × α) (l : List (Key × α)) :
    (insertKv p l).map (fun q => (q.1, g q.2)) = insertKv (p.1, g p.2) (l.map (fun q => (q.1, g q.2))) := by
  induction l with
  | nil => rfl
  | cons q r ih =>
    simp only [insertKv, List.map_cons]
    split
    · simp
    · simp [ih]

private theorem sortKvs_mapVal {α β : Type} (g : α → β) (l : List (Key × α)) :
    (sortKvs l).map (fun q => (q.1, g q.2)) = sortKvs (l.map (fun q => (q.1, g q.2))) := by
  induction l with
  | nil => rfl
  | cons q r ih =>
    have h1 : sortKvs (q :: r) = insertKv q (sortKvs r) := rfl
    have h2 : sortKvs ((q :: r).map (fun q => (q.1, g q.2)))
        = insertKv (q.1, g q.2) (sortKvs (r.map (fun q => (q.1, g q.2)))) := rfl
    rw [h1, h2, insertKv_mapVal, ih]

private theorem canonKvs_eq_map (l : List (Key × Tree)) : canonKvs l = l.map (fun q => (q.1, canon q.2)) := by
  induction l with
  | nil => rfl
  | cons q r ih => obtain ⟨k, t⟩ := q; simp [canonKvs, ih]

private theorem canonKvs_sort (l : List (Key × Tree)) : canonKvs (sortKvs l) = sortKvs (canonKvs l) := by
  rw [canonKvs_eq_map, canonKvs_eq_map, sortKvs_mapVal]

private theorem absKvs_cons_some {f : Val → Option Tree} {k : Key} {v : Val} {r : List (Key × Val)}
    {ts : List (Key × Tree)} :
    absKvs f ((k, v) :: r) = some ts ↔ ∃ t ts0, f v = some t ∧ absKvs f r = some ts0 ∧ ts = (k, t) :: ts0 := by
  simp only [absKvs]
  cases hv : f v with
  | none => simp
  | some t =>
    cases hr : absKvs f r with
    | none => simp
    | some ts0 => simp; exact eq_comm

private theorem absKvs_canon {f g : Val → Option Tree} : ∀ {kvs : List (Key × Val)} {ts : List (Key × Tree)},
    (∀ p ∈ kvs, ∀ t, f p.2 = some t → ∃ t', g p.2 = some t' ∧ canon t' = canon t) →
    absKvs f kvs = some ts → ∃ ts', absKvs g kvs = some ts' ∧ canonKvs ts' = canonKvs ts := by
  intro kvs
  induction kvs with
  | nil => intro ts _ h; simp [absKvs] at h; subst h; exact ⟨[], rfl, rfl⟩
  | cons p r ih =>
    intro ts hfg h
    obtain ⟨k, v⟩ := p
    obtain ⟨t, ts0, hv, hr, rfl⟩ := absKvs_cons_some.mp h
    obtain ⟨t', hv', hc⟩ := hfg (k, v) (by simp) t hv
    obtain ⟨ts0', hr', hc'⟩ := ih (fun p hp => hfg p (by simp [hp])) hr
    exact ⟨(k, t') :: ts0', absKvs_cons_some.mpr ⟨t', ts0', hv', hr', rfl⟩, by simp [canonKvs, hc, hc']⟩

private theorem absKvs_mono {f g : Val → Option Tree} : ∀ {kvs : List (Key × Val)} {ts : List (Key × Tree)},
    (∀ p ∈ kvs, ∀ t, f p.2 = some t → g p.2 = some t) → absKvs f kvs = some ts → absKvs g kvs = some ts := by
  intro kvs
  induction kvs with
  | nil => intro ts _ h; simpa [absKvs] using h
  | cons p r ih =>
    intro ts hfg h
    obtain ⟨k, v⟩ := p
    obtain ⟨t, ts0, hv, hr, rfl⟩ := absKvs_cons_some.mp h
    exact absKvs_cons_some.mpr ⟨t, ts0, hfg (k, v) (by simp) t hv, ih (fun p hp => hfg p (by simp [hp])) hr, rfl⟩

private theorem absVal_ext {h h' : Heap} (e : Ext h h') : ∀ (k : Nat) (fz : Bool) (v : Val) (t : Tree),
    absVal fz k h v = some t → absVal fz k h' v = some t := by
  intro k
  induction k with
  | zero => intro fz v t ha; cases v <;> simp [absVal] at ha ⊢; exact ha
  | succ k ih =>
    intro fz v t ha
    cases v with
    | leaf l => simpa [absVal] using ha
    | ref a =>
      simp only [absVal] at ha ⊢
      cases hg : h[a]? with
      | none => simp [hg] at ha
      | some o =>
        rw [hg] at ha
        rw [e.get hg]
        cases o with
        | dict own kvs =>
          simp only [Option.map_eq_some_iff] at ha ⊢
          obtain ⟨ts, h1, rfl⟩ := ha
          exact ⟨ts, absKvs_mono (fun p _ t ht => ih fz p.2 t ht) h1, rfl⟩
        | frozen i =>
          simp only at ha ⊢
          cases hi : h[i]? with
          | none => simp [hi] at ha
          | some oi =>
            rw [hi] at ha
            rw [e.get hi]
            cases oi with
            | dict own kvs =>
              simp only [Option.map_eq_some_iff] at ha ⊢
              obtain ⟨ts, h1, rfl⟩ := ha
              exact ⟨ts, absKvs_mono (fun p _ t ht => ih true p.2 t ht) h1, rfl⟩
            | frozen j => simp at ha

private theorem canon_node (f : Bool) (ts : List (Key × Tree)) : canon (.node f ts) = .node false (sortKvs (canonKvs ts)) := by
  simp [canon]

/-- the tag under which a value is read does not matter for its contents -/
private theorem abs_retag (h : Heap) : ∀ (k : Nat) (fz fz' : Bool) (v : Val) (t : Tree),
    absVal fz k h v = some t → ∃ t', absVal fz' k h v = some t' ∧ canon t' = canon t := by
  intro k
  induction k with
  | zero =>
    intro fz fz' v t ha
    cases v with
    | leaf l => simp [absVal] at ha ⊢; subst ha; rfl
    | ref a => simp [absVal] at ha
  | succ k ih =>
    intro fz fz' v t ha
    cases v with
    | leaf l => simp [absVal] at ha ⊢; subst ha; rfl
    | ref a =>
      simp only [absVal] at ha ⊢
      cases hg : h[a]? with
      | none => simp [hg] at ha
      | some o =>
        rw [hg] at ha
        cases o with
        | dict own kvs =>
          simp only [Option.map_eq_some_iff] at ha
          obtain ⟨ts, h1, rfl⟩ := ha
          obtain ⟨ts', h2, hc⟩ := absKvs_canon (g := absVal fz' k h) (fun p _ t ht => ih fz fz' p.2 t ht) h1
          exact ⟨.node fz' ts', by simp [h2], by simp [canon_node, hc]⟩
        | frozen i =>
          simp only at ha ⊢
          exact ⟨t, ha, rfl⟩

private theorem mapKvs_content (f : Heap → Val → Except Err (Heap × Val))
    (f_ext : ∀ h v h' v', f h v = .ok (h', v') → Ext h h')
    (hf : ∀ h v h1 v1, f h v = .ok (h1, v1) → ∀ (fz fz' : Bool) (k : Nat) (t : Tree),
      absVal fz k h v = some t → ∃ t', absVal fz' k h1 v1 = some t' ∧ canon t' = canon t) :
    ∀ (kvs : List (Key × Val)) (h h2 : Heap) (kvs' : List (Key × Val)), mapKvs f h kvs = .ok (h2, kvs') →
      ∀ (fz fz' : Bool) (k : Nat) (ts : List (Key × Tree)), absKvs (absVal fz k h) kvs = some ts →
        ∃ ts', absKvs (absVal fz' k h2) kvs' = some ts' ∧ canonKvs ts' = canonKvs ts := by
  intro kvs
  induction kvs with
  | nil =>
    intro h h2 kvs' hm fz fz' k ts ha
    simp [mapKvs] at hm; obtain ⟨rfl, rfl⟩ := hm
    simp [absKvs] at ha; subst ha
    exact ⟨[], rfl, rfl⟩
  | cons p rest ih =>
    intro h h2 kvs' hm fz fz' k ts ha
    obtain ⟨key, v⟩ := p
    simp only [mapKvs] at hm
    split at hm
    · cases hm
    · rename_i h1 v1 hfv
      split at hm
      · cases hm
      · rename_i h2' rest' hrest
        simp at hm; obtain ⟨rfl, rfl⟩ := hm
        obtain ⟨t, ts0, hv, hr, rfl⟩ := absKvs_cons_some.mp ha
        have e1 := f_ext _ _ _ _ hfv
        have e2 := mapKvs_ext f f_ext _ _ _ _ hrest
        obtain ⟨t', hv', hc⟩ := hf _ _ _ _ hfv fz fz' k t hv
        have hr1 : absKvs (absVal fz k h1) rest = some ts0 :=
          absKvs_mono (fun p _ t ht => absVal_ext e1 k fz p.2 t ht) hr
        obtain ⟨ts0', hr', hc'⟩ := ih _ _ _ hrest fz fz' k ts0 hr1
        exact ⟨(key, t') :: ts0', absKvs_cons_some.mpr ⟨t', ts0', absVal_ext e2 k fz' v1 t' hv', hr', rfl⟩,
          by simp [canonKvs, hc, hc']⟩

private theorem absKvs_insert {f : Val → Option Tree} {k : Key} {v : Val} {t : Tree} (hv : f v = some t) :
    ∀ {l : List (Key × Val)} {ts : List (Key × Tree)}, absKvs f l = some ts →
      absKvs f (insertKv (k, v) l) = some (insertKv (k, t) ts) := by
  intro l
  induction l with
  | nil => intro ts h; simp [absKvs] at h; subst h; simp [insertKv, absKvs, hv]
  | cons q r ih =>
    intro ts h
    obtain ⟨k2, v2⟩ := q
    obtain ⟨t2, ts0, hv2, hr, rfl⟩ := absKvs_cons_some.mp h
    simp only [insertKv]
    split
    · exact absKvs_cons_some.mpr ⟨t, _, hv, h, rfl⟩
    · exact absKvs_cons_some.mpr ⟨t2, _, hv2, ih hr, rfl⟩

private theorem absKvs_sort {f : Val → Option Tree} : ∀ {l : List (Key × Val)} {ts : List (Key × Tree)},
    absKvs f l = some ts → absKvs f (sortKvs l) = some (sortKvs ts) := by
  intro l
  induction l with
  | nil => intro ts h; simp [absKvs] at h; subst h; rfl
  | cons q r ih =>
    intro ts h
    obtain ⟨k, v⟩ := q
    obtain ⟨t, ts0, hv, hr, rfl⟩ := absKvs_cons_some.mp h
    have h1 : sortKvs ((k, v) :: r) = insertKv (k, v) (sortKvs r) := rfl
    have h2 : sortKvs ((k, t) :: ts0) = insertKv (k, t) (sortKvs ts0) := rfl
    rw [h1, h2]
    exact absKvs_insert hv (ih hr)

/-- unfolding of `absVal` at a dict object -/
private theorem absVal_dict {fz : Bool} {k : Nat} {h : Heap} {a : Addr} {o : Bool} {kvs : List (Key × Val)}
    (hg : h[a]? = some (.dict o kvs)) :
    absVal fz (k + 1) h (.ref a) = (absKvs (absVal fz k h) kvs).map (Tree.node fz) := by
  simp [absVal, hg]

/-- unfolding of `absVal` at a FrozenDict object -/
private theorem absVal_frozen {fz : Bool} {k : Nat} {h : Heap} {a i : Addr} {o : Bool} {kvs : List (Key × Val)}
    (hg : h[a]? = some (.frozen i)) (hi : h[i]? = some (.dict o kvs)) :
    absVal fz (k + 1) h (.ref a) = (absKvs (absVal true k h) kvs).map (Tree.node true) := by
  simp [absVal, hg, hi]

/-- a FrozenDict with a defined value has a dict as `_dict` -/
private theorem absVal_frozen_inv {fz : Bool} {k : Nat} {h : Heap} {a i : Addr} {t : Tree}
    (hg : h[a]? = some (.frozen i)) (ha : absVal fz k h (.ref a) = some t) :
    ∃ k0 o kvs ts, k = k0 + 1 ∧ h[i]? = some (.dict o kvs) ∧ absKvs (absVal true k0 h) kvs = some ts ∧ t = .node true ts := by
  cases k with
  | zero => simp [absVal] at ha
  | succ k0 =>
    simp only [absVal, hg] at ha
    cases hi : h[i]? with
    | none => simp [hi] at ha
    | some oi =>
      cases oi with
      | frozen j => simp [hi] at ha
      | dict o kvs =>
        simp only [hi, Option.map_eq_some_iff] at ha
        obtain ⟨ts, h1, rfl⟩ := ha
        exact ⟨k0, o, kvs, ts, rfl, rfl, h1, rfl⟩

private theorem deep_content : ∀ (n : Nat) (m : Mode) (own : Bool) (h : Heap) (v : Val) (h' : Heap) (v' : Val),
    deep m own n h v = .ok (h', v') → ∀ (fz fz' : Bool) (k : Nat) (t : Tree),
      absVal fz k h v = some t → ∃ t', absVal fz' k h' v' = some t' ∧ canon t' = canon t := by
  intro n
  induction n with
  | zero =>
    intro m own h v h' v' hd fz fz' k t ha
    cases v with
    | leaf l =>
      simp [deep] at hd; obtain ⟨rfl, rfl⟩ := hd
      exact abs_retag _ k fz fz' _ t ha
    | ref a => simp [deep] at hd
  | succ n ih =>
    intro m own h v h' v' hd fz fz' k t ha
    cases v with
    | leaf l =>
      simp [deep] at hd; obtain ⟨rfl, rfl⟩ := hd
      exact abs_retag _ k fz fz' _ t ha
    | ref a =>
      simp only [deep] at hd
      split at hd
      · cases hd
      · rename_i o kvs hget
        split at hd
        · cases hd
        · rename_i h1 kvs' hmap
          simp at hd
          obtain ⟨rfl, rfl⟩ := hd
          cases k with
          | zero => simp [absVal] at ha
          | succ k =>
            rw [absVal_dict hget] at ha
            simp only [Option.map_eq_some_iff] at ha
            obtain ⟨ts, hts, rfl⟩ := ha
            have hsrc : absKvs (absVal fz k h) (if m = .tree then sortKvs kvs else kvs)
                = some (if m = .tree then sortKvs ts else ts) := by
              split
              · exact absKvs_sort hts
              · exact hts
            obtain ⟨ts', h2, hc⟩ := mapKvs_content (deep m own n)
              (fun h v h' v' => deep_ext n m own h v h' v')
              (fun h v h1 v1 hd => ih m own h v h1 v1 hd) _ _ _ _ hmap fz fz' k _ hsrc
            have hnew : (h1 ++ [Obj.dict own kvs'])[h1.length]? = some (Obj.dict own kvs') := by simp
            refine ⟨.node fz' ts', ?_, ?_⟩
            · rw [absVal_dict hnew]
              rw [absKvs_mono (fun p _ t ht => absVal_ext (Ext.append h1 _) k fz' p.2 t ht) h2]
              rfl
            · rw [canon_node, canon_node, hc]
              split
              · rw [canonKvs_sort, sortKvs_idem]
              · rfl
      · rename_i i hget
        obtain ⟨k0, oi, kvsi, ts, rfl, hi, hts, rfl⟩ := absVal_frozen_inv hget ha
        have hinner : absVal true (k0 + 1) h (.ref i) = some (.node true ts) := by
          rw [absVal_dict hi, hts]; rfl
        cases m with
        | prepare =>
          simp at hd; obtain ⟨rfl, rfl⟩ := hd
          exact abs_retag _ (k0 + 1) true fz' _ _ hinner
        | unfreeze =>
          simp only at hd
          exact ih .tree own h (.ref i) h' v' hd true fz' (k0 + 1) _ hinner
        | tree =>
          simp only at hd
          split at hd
          · cases hd
          · rename_i h1 j hr
            simp at hd
            obtain ⟨rfl, rfl⟩ := hd
            obtain ⟨t1, ht1, hc1⟩ := ih .tree true h (.ref i) h1 (.ref j) hr true true (k0 + 1) _ hinner
            obtain ⟨j', kvsj, hj1, hj2⟩ := deep_of_dict hi hr
            injection hj1 with hj1
            subst hj1
            rw [absVal_dict hj2] at ht1
            simp only [Option.map_eq_some_iff] at ht1
            obtain ⟨tsj, htsj, rfl⟩ := ht1
            have e : Ext h1 (h1 ++ [Obj.frozen j]) := Ext.append _ _
            have hnew : (h1 ++ [Obj.frozen j])[h1.length]? = some (Obj.frozen j) := by simp
            refine ⟨.node true tsj, ?_, hc1⟩
            rw [absVal_frozen hnew (e.get hj2)]
            rw [absKvs_mono (fun p _ t ht => absVal_ext e k0 true p.2 t ht) htsj]
            rfl
          · cases hd

private theorem mkFrozen_content {h : Heap} {kvs : List (Key × Val)} {h' : Heap} {r : Val}
    (hm : mkFrozen h kvs = .ok (h', r)) (fz fz' : Bool) (k : Nat) (ts : List (Key × Tree))
    (ha : absKvs (absVal fz k h) kvs = some ts) :
    ∃ t', absVal fz' (k + 1) h' r = some t' ∧ canon t' = canon (.node fz ts) := by
  simp only [mkFrozen] at hm
  split at hm
  · cases hm
  · rename_i h1 kvs' hmap
    simp at hm
    obtain ⟨rfl, rfl⟩ := hm
    obtain ⟨ts', h2, hc⟩ := mapKvs_content (deep .prepare true (fuelOf h))
      (fun h v h' v' => deep_ext _ _ _ h v h' v')
      (fun h v h1 v1 hd => deep_content _ _ _ h v h1 v1 hd) _ _ _ _ hmap fz true k ts ha
    have e : Ext h1 (h1 ++ [Obj.dict true kvs', Obj.frozen h1.length]) := Ext.append _ _
    have hinner : (h1 ++ [Obj.dict true kvs', Obj.frozen h1.length])[h1.length]? = some (Obj.dict true kvs') := by simp
    have hfro : (h1 ++ [Obj.dict true kvs', Obj.frozen h1.length])[h1.length + 1]? = some (Obj.frozen h1.length) := by
      rw [List.getElem?_append_right (by omega)]; simp
    refine ⟨.node true ts', ?_, by rw [canon_node, canon_node, hc]⟩
    rw [absVal_frozen hfro hinner]
    rw [absKvs_mono (fun p _ t ht => absVal_ext e k true p.2 t ht) h2]
    rfl

private theorem wrapVal_content {h : Heap} {v : Val} {h' : Heap} {v' : Val}
    (hm : wrapVal h v = .ok (h', v')) (fz fz' : Bool) (k : Nat) (t : Tree)
    (ha : absVal fz k h v = some t) : ∃ t', absVal fz' k h' v' = some t' ∧ canon t' = canon t := by
  cases v with
  | leaf l =>
    simp [wrapVal] at hm; obtain ⟨rfl, rfl⟩ := hm
    exact abs_retag _ k fz fz' _ t ha
  | ref a =>
    simp only [wrapVal] at hm
    split at hm
    · cases hm
    · rename_i o kvs hget
      cases k with
      | zero => simp [absVal] at ha
      | succ k =>
        rw [absVal_dict hget] at ha
        simp only [Option.map_eq_some_iff] at ha
        obtain ⟨ts, hts, rfl⟩ := ha
        exact mkFrozen_content hm fz fz' k ts hts
    · simp at hm; obtain ⟨rfl, rfl⟩ := hm
      exact abs_retag _ k fz fz' _ t ha

private theorem dictOf_content {h : Heap} {x : Val} {h' : Heap} {kvs : List (Key × Val)}
    (hm : dictOf h x = .ok (h', kvs)) (fz fz' : Bool) (k : Nat) (t : Tree)
    (ha : absVal fz (k + 1) h x = some t) :
    ∃ ts, absKvs (absVal fz' k h') kvs = some ts ∧ canon (.node false ts) = canon t := by
  cases x with
  | leaf l => simp [dictOf] at hm
  | ref a =>
    simp only [dictOf] at hm
    split at hm
    · cases hm
    · rename_i o kvs0 hget
      simp at hm; obtain ⟨rfl, rfl⟩ := hm
      rw [absVal_dict hget] at ha
      simp only [Option.map_eq_some_iff] at ha
      obtain ⟨ts, hts, rfl⟩ := ha
      obtain ⟨ts', h2, hc⟩ := absKvs_canon (g := absVal fz' k h) (fun p _ t ht => abs_retag h k fz fz' p.2 t ht) hts
      exact ⟨ts', h2, by rw [canon_node, canon_node, hc]⟩
    · rename_i i hget
      split at hm
      · cases hm
      · rename_i kvsi hin
        obtain ⟨k0, oi, kvsi', ts, hk, hi, hts, rfl⟩ := absVal_frozen_inv hget ha
        have hk : k0 = k := by omega
        subst hk
        have : kvsi' = kvsi := by simp [innerKvs, hi] at hin; exact hin
        subst this
        obtain ⟨ts', h2, hc⟩ := mapKvs_content wrapVal (fun _ _ _ _ => wrapVal_ext)
          (fun h v h1 v1 hd fz fz' k t => wrapVal_content hd fz fz' k t) _ _ _ _ hm true fz' k0 ts hts
        exact ⟨ts', h2, by rw [canon_node, canon_node, hc]⟩

private theorem absKvs_get {f : Val → Option Tree} : ∀ {kvs : List (Key × Val)} {ts : List (Key × Tree)} {key : Key} {v : Val},
    absKvs f kvs = some ts → kvGet kvs key = some v → ∃ tc, lookupT key ts = some tc ∧ f v = some tc := by
  intro kvs
  induction kvs with
  | nil => intro ts key v _ hg; simp [kvGet] at hg
  | cons p r ih =>
    intro ts key v ha hg
    obtain ⟨k, v0⟩ := p
    obtain ⟨t, ts0, hv, hr, rfl⟩ := absKvs_cons_some.mp ha
    simp only [kvGet] at hg
    simp only [lookupT]
    split at hg
    · rename_i hk; simp at hg; subst hg; simp [hk, hv]
    · rename_i hk; simp [hk]; exact ih hr hg

/-- **`freeze(x)` / `FrozenDict(x)` has the contents of `x`** (a dict or a FrozenDict), at every depth -/
theorem freeze_same_content (w w' : World) (x : Nat) (v : Val) (k : Nat) (t : Tree)
    (hs : step w (.freeze x) = .ok w') (hx : w.roots[x]? = some v)
    (ha : absVal false (k + 1) w.heap v = some t) :
    ∃ r t', w'.roots = w.roots ++ [r] ∧ absVal false (k + 1) w'.heap r = some t' ∧ SameContent t' t := by
  simp only [step, hx] at hs
  split at hs
  · cases hs
  · rename_i h1 xs hd
    split at hs
    · cases hs
    · rename_i h2 r hm
      cases hs
      obtain ⟨ts, hts, hc⟩ := dictOf_content hd false false k t ha
      obtain ⟨t', ht', hc'⟩ := mkFrozen_content hm false false k ts hts
      exact ⟨r, t', rfl, ht', hc'.trans hc⟩

/-- **`unfreeze(x)` has the contents of `x`** -/
theorem unfreeze_same_content (w w' : World) (x : Nat) (v : Val) (k : Nat) (t : Tree)
    (hs : step w (.unfreeze x) = .ok w') (hx : w.roots[x]? = some v)
    (ha : absVal false k w.heap v = some t) :
    ∃ r t', w'.roots = w.roots ++ [r] ∧ absVal false k w'.heap r = some t' ∧ SameContent t' t := by
  simp only [step, hx] at hs
  split at hs
  · cases hs
  · rename_i h1 r hd
    cases hs
    obtain ⟨t', ht', hc⟩ := deep_content _ _ _ _ _ _ _ hd false false k t ha
    exact ⟨r, t', rfl, ht', hc⟩

/-- **flatten followed by unflatten (`tree_map` with the identity) returns an equal value**, on the
heap: FrozenDicts nested inside dicts are rebuilt as FrozenDicts with the same contents -/
theorem treeMap_same_content (w w' : World) (x : Nat) (v : Val) (k : Nat) (t : Tree)
    (hs : step w (.treeMap x) = .ok w') (hx : w.roots[x]? = some v)
    (ha : absVal false k w.heap v = some t) :
    ∃ r t', w'.roots = w.roots ++ [r] ∧ absVal false k w'.heap r = some t' ∧ SameContent t' t := by
  simp only [step, hx] at hs
  split at hs
  · cases hs
  · rename_i h1 r hd
    cases hs
    obtain ⟨t', ht', hc⟩ := deep_content _ _ _ _ _ _ _ hd false false k t ha
    exact ⟨r, t', rfl, ht', hc⟩

/-- **pickling returns an equal value**: `__reduce__` = `FrozenDict(self.unfreeze())` -/
theorem pickle_same_content (w w' : World) (x : Nat) (v : Val) (k : Nat) (t : Tree)
    (hs : step w (.pickle x) = .ok w') (hx : w.roots[x]? = some v)
    (ha : absVal false (k + 1) w.heap v = some t) :
    ∃ r t', w'.roots = w.roots ++ [r] ∧ absVal false (k + 1) w'.heap r = some t' ∧ SameContent t' t := by
  cases v with
  | leaf l => simp [step, hx] at hs
  | ref a =>
  simp only [step, hx] at hs
  repeat' split at hs
  all_goals first | cases hs | skip
  rename_i i hg _ h1 u hd _ h2 xs hdo _ h3 r hm
  obtain ⟨t1, ht1, hc1⟩ := deep_content _ _ _ _ _ _ _ hd false false (k + 1) t ha
  obtain ⟨ts, hts, hc2⟩ := dictOf_content hdo false false k t1 ht1
  obtain ⟨t', ht', hc3⟩ := mkFrozen_content hm false false k ts hts
  exact ⟨r, t', rfl, ht', (hc3.trans hc2).trans hc1⟩

/-- **indexing a FrozenDict returns the contents stored under the key** (as a fresh FrozenDict when
it is a nested dict: `frozen_separation`), and a missing key raises KeyError -/
theorem getitem_same_content (w w' : World) (x : Nat) (key : Key) (f i : Addr) (k : Nat) (ts : List (Key × Tree))
    (hs : step w (.getitem x key) = .ok w') (hx : w.roots[x]? = some (.ref f))
    (hf : w.heap[f]? = some (Obj.frozen i))
    (ha : absVal false (k + 1) w.heap (.ref f) = some (.node true ts)) :
    ∃ r tc t', w'.roots = w.roots ++ [r] ∧ lookupT key ts = some tc ∧
      absVal false k w'.heap r = some t' ∧ SameContent t' tc := by
  simp only [step, hx, hf] at hs
  repeat' split at hs
  all_goals first | cases hs | skip
  rename_i kvs hin _ v hget _ h1 r hw
  obtain ⟨k0, oi, kvsi, ts0, hk, hi, hts, hnode⟩ := absVal_frozen_inv hf ha
  have hk : k0 = k := by omega
  subst hk
  injection hnode with _ hnode
  subst hnode
  have : kvsi = kvs := by simp [innerKvs, hi] at hin; exact hin
  subst this
  obtain ⟨tc, hl, hv⟩ := absKvs_get hts hget
  obtain ⟨t', ht', hc⟩ := wrapVal_content hw true false k0 tc hv
  exact ⟨r, tc, t', rfl, hl, ht', hc⟩

/-- same contents ⇒ same hash (so a round trip through unfreeze/freeze, pickle or tree_map keeps the hash) -/
theorem hash_of_same_content (H : HashFns) (t1 t2 : Tree) (h : SameContent t1 t2) :
    treeHash H (canon t1) = treeHash H (canon t2) := by rw [h]

/-! ## the value of a FrozenDict is always defined (it is never cyclic) -/

private theorem absVal_fuel_succ (h : Heap) : ∀ (k : Nat) (fz : Bool) (v : Val) (t : Tree),
    absVal fz k h v = some t → absVal fz (k + 1) h v = some t := by
  intro k
  induction k with
  | zero =>
    intro fz v t ha
    cases v with
    | leaf l => simpa [absVal] using ha
    | ref a => simp [absVal] at ha
  | succ k ih =>
    intro fz v t ha
    cases v with
    | leaf l => simpa [absVal] using ha
    | ref a =>
      cases hg : h[a]? with
      | none => simp [absVal, hg] at ha
      | some o =>
        cases o with
        | dict own kvs =>
          rw [absVal_dict hg] at ha ⊢
          simp only [Option.map_eq_some_iff] at ha ⊢
          obtain ⟨ts, h1, rfl⟩ := ha
          exact ⟨ts, absKvs_mono (fun p _ t ht => ih fz p.2 t ht) h1, rfl⟩
        | frozen i =>
          obtain ⟨k0, oi, kvsi, ts, hk, hi, hts, rfl⟩ := absVal_frozen_inv hg ha
          have hk : k0 = k := by omega
          subst hk
          rw [absVal_frozen hg hi]
          rw [absKvs_mono (fun p _ t ht => ih true p.2 t ht) hts]
          rfl

private theorem absVal_fuel_le (h : Heap) {k k' : Nat} (hle : k ≤ k') (fz : Bool) (v : Val) (t : Tree)
    (ha : absVal fz k h v = some t) : absVal fz k' h v = some t := by
  induction hle with
  | refl => exact ha
  | step _ ih => exact absVal_fuel_succ h _ fz v t ih

private theorem absKvs_total {f : Val → Option Tree} : ∀ {kvs : List (Key × Val)},
    (∀ p ∈ kvs, ∃ t, f p.2 = some t) → ∃ ts, absKvs f kvs = some ts := by
  intro kvs
  induction kvs with
  | nil => intro _; exact ⟨[], rfl⟩
  | cons p r ih =>
    intro hf
    obtain ⟨k, v⟩ := p
    obtain ⟨t, ht⟩ := hf (k, v) (by simp)
    obtain ⟨ts, hts⟩ := ih (fun p hp => hf p (by simp [hp]))
    exact ⟨(k, t) :: ts, absKvs_cons_some.mpr ⟨t, ts, ht, hts, rfl⟩⟩

private theorem owned_children_defined {h : Heap} (hi : HeapInv h) : ∀ (n : Nat) (a : Nat), a ≤ n →
    ∀ kvs, h[a]? = some (Obj.dict true kvs) → ∃ ts, absKvs (absVal true a h) kvs = some ts := by
  intro n
  induction n with
  | zero =>
    intro a ha kvs hg
    have : a = 0 := by omega
    subst this
    refine absKvs_total ?_
    intro p hp
    cases hv : p.2 with
    | leaf l => exact ⟨.leaf l, by simp [absVal]⟩
    | ref b =>
      exact absurd (hi.owned_down 0 kvs hg p hp b hv) (Nat.not_lt_zero _)
  | succ n ih =>
    intro a ha kvs hg
    refine absKvs_total ?_
    intro p hp
    cases hv : p.2 with
    | leaf l => exact ⟨.leaf l, by cases a <;> simp [absVal]⟩
    | ref b =>
      have hb : @LT.lt Nat _ b a := hi.owned_down a kvs hg p hp b hv
      have hown := hi.owned_closed a kvs hg p hp
      rw [hv] at hown
      rcases hown with ⟨kvsb, hgb⟩ | ⟨ib, hfb⟩
      · obtain ⟨tsb, htsb⟩ := ih b (by omega) kvsb hgb
        refine ⟨.node true tsb, absVal_fuel_le h (k := b + 1) (by omega) true _ _ ?_⟩
        rw [absVal_dict hgb, htsb]; rfl
      · obtain ⟨kvsi, hgi⟩ := hi.frozen_inner b ib hfb
        have hib : @LT.lt Nat _ ib b := hi.frozen_down b ib hfb
        obtain ⟨tsi, htsi⟩ := ih ib (by omega) kvsi hgi
        refine ⟨.node true tsi, absVal_fuel_le h (k := ib + 1) (by omega) true _ _ ?_⟩
        rw [absVal_frozen hfb hgi, htsi]; rfl

/-- **Every FrozenDict denotes a value**: with the fuel the driver uses (`fuelOf`), `absVal` of a
FrozenDict is defined in every world satisfying the invariant — so `frozen_never_changes` compares
real values, never `none = none`. -/
theorem frozen_value_defined (w : World) (hs : Sep w) (f i : Addr) (hf : w.heap[f]? = some (Obj.frozen i))
    (fz : Bool) : ∃ ts, absVal fz (fuelOf w.heap) w.heap (.ref f) = some (.node true ts) := by
  obtain ⟨kvs, hg⟩ := hs.heap.frozen_inner f i hf
  obtain ⟨ts, hts⟩ := owned_children_defined hs.heap i i (Nat.le_refl _) kvs hg
  have hlt : @LT.lt Nat _ i w.heap.length := by
    rcases Nat.lt_or_ge i w.heap.length with h1 | h1
    · exact h1
    · rw [List.getElem?_eq_none h1] at hg; cases hg
  refine ⟨ts, absVal_fuel_le w.heap (k := i + 1) (by simp [fuelOf]; omega) fz _ _ ?_⟩
  rw [absVal_frozen hf hg, hts]; rfl

/-! ### non-vacuity of the content theorems -/

private def demoW : World :=
  run World.init [.newDict, .newLeaf (.atom 5), .newDict, .setKey 2 "z" 1, .setKey 0 "b" 2, .setKey 0 "a" 1]

example : (match step demoW (.freeze 0) with | .ok _ => true | _ => false) = true := by decide
example : demoW.roots[0]? = some (.ref 0) ∧ (absVal false 3 demoW.heap (.ref 0)).isSome = true := by decide
example : (match step (run World.init demoPre) (.pickle 3), step (run World.init demoPre) (.unfreeze 3),
    step (run World.init demoPre) (.treeMap 3), step (run World.init demoPre) (.getitem 3 "b") with
    | .ok _, .ok _, .ok _, .ok _ => true
    | _, _, _, _ => false) = true := by decide
example : (absVal false 3 (run World.init demoPre).heap (.ref 4)).isSome = true := by decide

private theorem absKvs_erase {f : Val → Option Tree} (key : Key) : ∀ {kvs : List (Key × Val)} {ts : List (Key × Tree)},
    absKvs f kvs = some ts → absKvs f (kvErase kvs key) = some (kvErase ts key) := by
  intro kvs
  induction kvs with
  | nil => intro ts ha; simp [absKvs] at ha; subst ha; rfl
  | cons p r ih =>
    intro ts ha
    obtain ⟨k, v⟩ := p
    obtain ⟨t, ts0, hv, hr, rfl⟩ := absKvs_cons_some.mp ha
    have h1 := ih hr
    simp only [kvErase] at h1 ⊢
    by_cases hk : k = key
    · simp [hk, h1]
    · simp only [List.filter_cons, hk, decide_false, Bool.not_false, if_true]
      exact absKvs_cons_some.mpr ⟨t, _, hv, h1, rfl⟩

/-- **`fd.pop(key)` returns a FrozenDict with exactly the other entries, and the contents stored
under `key`** -/
theorem pop_same_content (w w' : World) (x : Nat) (key : Key) (f i : Addr) (k : Nat) (ts : List (Key × Tree))
    (hs : step w (.pop x key) = .ok w') (hx : w.roots[x]? = some (.ref f))
    (hf : w.heap[f]? = some (Obj.frozen i))
    (ha : absVal false (k + 1) w.heap (.ref f) = some (.node true ts)) :
    ∃ rest value tc t1 t2, w'.roots = w.roots ++ [rest, value] ∧ lookupT key ts = some tc ∧
      absVal false (k + 1) w'.heap rest = some t1 ∧ SameContent t1 (.node true (kvErase ts key)) ∧
      absVal false k w'.heap value = some t2 ∧ SameContent t2 tc := by
  simp only [step, hx, hf] at hs
  repeat' split at hs
  all_goals first | cases hs | skip
  rename_i kvs hin _ v hget _ h1 value hw _ h2 rest hm
  obtain ⟨k0, oi, kvsi, ts0, hk, hi, hts, hnode⟩ := absVal_frozen_inv hf ha
  have hk : k0 = k := by omega
  subst hk
  injection hnode with _ hnode
  subst hnode
  have : kvsi = kvs := by simp [innerKvs, hi] at hin; exact hin
  subst this
  obtain ⟨tc, hl, hv⟩ := absKvs_get hts hget
  obtain ⟨t2, ht2, hc2⟩ := wrapVal_content hw true false k0 tc hv
  have e1 := wrapVal_ext hw
  have e2 := mkFrozen_ext hm
  have herase :=
    absKvs_mono (g := absVal true k0 h1) (fun p _ t ht => absVal_ext e1 k0 true p.2 t ht) (absKvs_erase key hts)
  obtain ⟨t1, ht1, hc1⟩ := mkFrozen_content hm true false k0 _ herase
  exact ⟨rest, value, tc, t1, t2, rfl, hl, ht1, hc1, absVal_ext e2 k0 false value t2 ht2, hc2⟩

/-- **`fd.copy()` (no additions) is an equal FrozenDict** -/
theorem copy_same_content (w w' : World) (x : Nat) (f i : Addr) (k : Nat) (t : Tree)
    (hs : step w (.copy x none) = .ok w') (hx : w.roots[x]? = some (.ref f))
    (hf : w.heap[f]? = some (Obj.frozen i))
    (ha : absVal false (k + 1) w.heap (.ref f) = some t) :
    ∃ r t', w'.roots = w.roots ++ [r] ∧ absVal false (k + 1) w'.heap r = some t' ∧ SameContent t' t := by
  simp only [step, hx, hf] at hs
  repeat' split at hs
  all_goals first | cases hs | skip
  rename_i h1 xs hd _ h2 r hm
  obtain ⟨ts, hts, hc⟩ := dictOf_content hd false false k t ha
  obtain ⟨t', ht', hc'⟩ := mkFrozen_content hm false false k ts hts
  exact ⟨r, t', rfl, ht', hc'.trans hc⟩

/-! ## equal contents flatten identically, whatever the insertion order -/

private theorem eq_of_mem_of_key_eq {α : Type} : ∀ {l : List (Key × α)} {a b : Key × α},
    (l.map (·.1)).Nodup → a ∈ l → b ∈ l → a.1 = b.1 → a = b := by
  intro l
  induction l with
  | nil => intro a b _ ha; cases ha
  | cons q r ih =>
    intro a b hn ha hb hk
    simp only [List.map_cons, List.nodup_cons] at hn
    simp at ha hb
    rcases ha with rfl | ha <;> rcases hb with rfl | hb
    · rfl
    · exact absurd (List.mem_map.mpr ⟨b, hb, hk.symm⟩) hn.1
    · exact absurd (List.mem_map.mpr ⟨a, ha, hk⟩) hn.1
    · exact ih hn.2 ha hb hk

private theorem sorted_perm_eq {α : Type} {l1 l2 : List (Key × α)} (hp : l1.Perm l2)
    (hn : (l1.map (·.1)).Nodup) (s1 : SortedK l1) (s2 : SortedK l2) : l1 = l2 := by
  refine List.Perm.eq_of_pairwise (le := fun (a b : Key × α) => a.1 ≤ b.1) ?_ s1 s2 hp
  intro a b ha hb h1 h2
  exact eq_of_mem_of_key_eq hn ha (hp.mem_iff.mpr hb) (String.le_antisymm h1 h2)

private theorem sortKvs_perm_eq {α : Type} {l1 l2 : List (Key × α)} (hp : l1.Perm l2)
    (hn : (l1.map (·.1)).Nodup) : sortKvs l1 = sortKvs l2 := by
  have p1 := sortKvs_perm l1
  have p2 := sortKvs_perm l2
  refine sorted_perm_eq ((p1.trans hp).trans p2.symm) ?_ (sortKvs_sorted l1) (sortKvs_sorted l2)
  exact ((p1.map (·.1)).nodup_iff).mpr hn

private theorem canonKvs_keys (l : List (Key × Tree)) : (canonKvs l).map (·.1) = l.map (·.1) := by
  rw [canonKvs_eq_map]; simp

mutual
  private theorem canon_mapEq : ∀ {t1 t2 : Tree}, MapEq t1 t2 → wfTree t2 = true → canon t1 = canon t2
    | _, _, .leaf l, _ => rfl
    | _, _, .node (k1 := k1) (k2 := k2) (k2' := k2') hp hk, hw => by
      simp only [wfTree, Bool.and_eq_true, decide_eq_true_eq] at hw
      rw [canon_node, canon_node]
      have h1 : canonKvs k1 = canonKvs k2' :=
        canonKvs_kvsEq hk (fun p hp' => wfKvs_mem hw.2 p (hp.mem_iff.mpr hp'))
      have h2 : (canonKvs k2).Perm (canonKvs k2') := by
        rw [canonKvs_eq_map, canonKvs_eq_map]; exact hp.map _
      rw [h1, sortKvs_perm_eq h2 (by rw [canonKvs_keys]; exact hw.1)]
  private theorem canonKvs_kvsEq : ∀ {r1 r2 : List (Key × Tree)}, KvsEq r1 r2 →
      (∀ p ∈ r2, wfTree p.2 = true) → canonKvs r1 = canonKvs r2
    | _, _, .nil, _ => rfl
    | _, _, .cons (k := k) (t2 := t2) ht hr, hw => by
      simp only [canonKvs]
      rw [canon_mapEq ht (hw (k, t2) (by simp)), canonKvs_kvsEq hr (fun p hp => hw p (by simp [hp]))]
end

/-- the declarative notion (equal as finite maps, any insertion orders) implies the computational
one (identical sorted forms): the content theorems above therefore compose with `eq_order_independent`
and `hash_order_independent` -/
theorem mapEq_same_content (t1 t2 : Tree) (h : MapEq t1 t2) (hw : wfTree t2 = true) : SameContent t1 t2 :=
  canon_mapEq h hw

mutual
  private def untag : Tree → Tree
    | .leaf l => .leaf l
    | .node _ kvs => .node false (untagKvs kvs)
  private def untagKvs : List (Key × Tree) → List (Key × Tree)
    | [] => []
    | (k, t) :: r => (k, untag t) :: untagKvs r
end

mutual
  /-- the treedef with the dict/FrozenDict node kinds forgotten -/
  def untagDef : TDef → TDef
    | .leaf => .leaf
    | .node _ kvs => .node false (untagDefKvs kvs)
  def untagDefKvs : List (Key × TDef) → List (Key × TDef)
    | [] => []
    | (k, d) :: r => (k, untagDef d) :: untagDefKvs r
end

private theorem untagKvs_eq_map (l : List (Key × Tree)) : untagKvs l = l.map (fun q => (q.1, untag q.2)) := by
  induction l with
  | nil => rfl
  | cons q r ih => obtain ⟨k, t⟩ := q; simp [untagKvs, ih]

mutual
  private theorem canon_eq_untag_sort : ∀ (t : Tree), canon t = untag (sortTree t)
    | .leaf l => by simp [canon, sortTree, untag]
    | .node fz kvs => by
      simp only [canon, sortTree, untag, sortT]
      rw [untagKvs_eq_map, sortKvs_mapVal, ← untagKvs_eq_map, canonKvs_eq_untag_sort kvs]
  private theorem canonKvs_eq_untag_sort : ∀ (kvs : List (Key × Tree)), canonKvs kvs = untagKvs (sortTreeKvs kvs)
    | [] => by simp [canonKvs, sortTreeKvs, untagKvs]
    | (k, t) :: r => by
      simp only [canonKvs, sortTreeKvs, untagKvs]
      rw [canon_eq_untag_sort t, canonKvs_eq_untag_sort r]
end

mutual
  private theorem flatten_untag : ∀ (t : Tree),
      flatten (untag t) = ((flatten t).1, untagDef (flatten t).2)
    | .leaf l => by simp [flatten, untag, untagDef]
    | .node fz kvs => by
      simp only [flatten, untag, untagDef]
      rw [flattenKvs_untag kvs]
  private theorem flattenKvs_untag : ∀ (kvs : List (Key × Tree)),
      flattenKvs (untagKvs kvs) = ((flattenKvs kvs).1, untagDefKvs (flattenKvs kvs).2)
    | [] => by simp [flattenKvs, untagKvs, untagDefKvs]
    | (k, t) :: r => by
      simp only [flattenKvs, untagKvs, untagDefKvs]
      rw [flatten_untag t, flattenKvs_untag r]
end

/-- **Equal contents flatten identically**: two values with equal contents built in any insertion
orders (e.g. two equal FrozenDicts) give the same leaves in the same order and the same key
structure — tree_flatten sorts the keys — so `tree_map`/`jit` treat them alike. -/
theorem flatten_order_independent (t1 t2 : Tree) (h : MapEq t1 t2) (hw : wfTree t2 = true) :
    (flattenS t1).1 = (flattenS t2).1 ∧ untagDef (flattenS t1).2 = untagDef (flattenS t2).2 := by
  have hc : untag (sortTree t1) = untag (sortTree t2) := by
    rw [← canon_eq_untag_sort, ← canon_eq_untag_sort]; exact canon_mapEq h hw
  have h1 := flatten_untag (sortTree t1)
  have h2 := flatten_untag (sortTree t2)
  rw [hc] at h1
  rw [h1] at h2
  simp only [flattenS]
  exact ⟨(Prod.mk.inj h2).1, (Prod.mk.inj h2).2⟩

example : (flattenS exT1).1 = [.atom 1, .atom 2, .atom 3] ∧ (flattenS exT2).1 = [.atom 1, .atom 2, .atom 3] := by
  decide

/-! ## fuel sufficiency: the walks never run out of fuel on acyclic structures

`Depth h v n`: everything reachable from `v` exists and lies within `n` levels.  `deep` with fuel `n`
succeeds on such a value, in any mode, with no invariant at all (`deep_total`).  Under the invariant
every FrozenDict has depth at most `fuelOf h` (its dicts are built bottom-up), so with the fuel the
driver and `step` use, no API call on a FrozenDict can return `Recursion` or `Dangling`
(`frozen_api_total`).  User dicts can be made cyclic by the user (`d['a'] = d`); Python then raises
RecursionError and the model `Recursion` — for them `Depth` is the hypothesis "acyclic". -/

inductive Depth (h : Heap) : Val → Nat → Prop where
  | leaf (l : Leaf) (n : Nat) : Depth h (.leaf l) n
  | dict {a : Addr} {o : Bool} {kvs : List (Key × Val)} {n : Nat} :
      h[a]? = some (Obj.dict o kvs) → (∀ p ∈ kvs, Depth h p.2 n) → Depth h (.ref a) (n + 1)
  | frozen {a i : Addr} {n : Nat} :
      h[a]? = some (Obj.frozen i) → Depth h (.ref i) n → Depth h (.ref a) (n + 1)

private theorem Depth.mono_ext {h h' : Heap} (e : Ext h h') {v : Val} {n : Nat} (d : Depth h v n) : Depth h' v n := by
  induction d with
  | leaf l n => exact .leaf l n
  | dict hg _ ih => exact .dict (e.get hg) ih
  | frozen hg _ ih => exact .frozen (e.get hg) ih

private theorem Depth.mono_fuel {h : Heap} {v : Val} {n : Nat} (d : Depth h v n) : ∀ {m : Nat}, n ≤ m → Depth h v m := by
  induction d with
  | leaf l n => intro m _; exact .leaf l m
  | dict hg _ ih =>
    intro m hm
    cases m with
    | zero => omega
    | succ m => exact .dict hg (fun p hp => ih p hp (by omega))
  | frozen hg _ ih =>
    intro m hm
    cases m with
    | zero => omega
    | succ m => exact .frozen hg (ih (by omega))

private theorem deep_ref_result {m : Mode} {own : Bool} {n : Nat} {h : Heap} {a : Addr} {h' : Heap} {v' : Val}
    (hd : deep m own n h (.ref a) = .ok (h', v')) : ∃ j, v' = .ref j := by
  cases n with
  | zero => simp [deep] at hd
  | succ n =>
    simp only [deep] at hd
    split at hd
    · cases hd
    · split at hd
      · cases hd
      · simp at hd; exact ⟨_, hd.2.symm⟩
    · cases m with
      | prepare => simp at hd; exact ⟨_, hd.2.symm⟩
      | unfreeze => exact deep_ref_result hd
      | tree =>
        simp only at hd
        split at hd
        · cases hd
        · simp at hd; exact ⟨_, hd.2.symm⟩
        · cases hd

private theorem mapKvs_total (f : Heap → Val → Except Err (Heap × Val))
    (f_ext : ∀ h v h' v', f h v = .ok (h', v') → Ext h h') :
    ∀ (kvs : List (Key × Val)) (h : Heap),
      (∀ h1, Ext h h1 → ∀ p ∈ kvs, ∃ r, f h1 p.2 = .ok r) → ∃ r, mapKvs f h kvs = .ok r := by
  intro kvs
  induction kvs with
  | nil => intro h _; exact ⟨_, rfl⟩
  | cons p rest ih =>
    intro h hf
    obtain ⟨k, v⟩ := p
    obtain ⟨⟨h1, v1⟩, hv⟩ := hf h (Ext.refl _) (k, v) (by simp)
    have e1 := f_ext _ _ _ _ hv
    obtain ⟨⟨h2, rest'⟩, hr⟩ := ih h1 (fun h2 e2 p hp => hf h2 (e1.trans e2) p (by simp [hp]))
    simp only [mapKvs, hv, hr]
    exact ⟨_, rfl⟩

/-- **Fuel sufficiency**: a walk with fuel `n` over a value of depth `n` never fails (no `Recursion`,
no `Dangling`), in every mode. -/
theorem deep_total : ∀ (n : Nat) (m : Mode) (own : Bool) (h : Heap) (v : Val),
    Depth h v n → ∃ r, deep m own n h v = .ok r := by
  intro n
  induction n with
  | zero =>
    intro m own h v d
    cases d with
    | leaf l => simp only [deep]; exact ⟨_, rfl⟩
  | succ n ih =>
    intro m own h v d
    cases d with
    | leaf l => simp only [deep]; exact ⟨_, rfl⟩
    | dict hg hk =>
      rename_i a o kvs
      obtain ⟨⟨h1, kvs'⟩, hm⟩ := mapKvs_total (deep m own n) (fun h v h' v' => deep_ext n m own h v h' v')
        (if m = .tree then sortKvs kvs else kvs) h
        (fun h1 e p hp => ih m own h1 p.2 (Depth.mono_ext e (hk p (mem_ord hp))))
      simp only [deep, hg, hm]
      exact ⟨_, rfl⟩
    | frozen hg di =>
      rename_i a i
      cases m with
      | prepare => simp only [deep, hg]; exact ⟨_, rfl⟩
      | unfreeze =>
        obtain ⟨r, hr⟩ := ih .tree own h (.ref i) di
        simp only [deep, hg]; exact ⟨r, hr⟩
      | tree =>
        obtain ⟨⟨h1, v1⟩, hr⟩ := ih .tree true h (.ref i) di
        obtain ⟨j, rfl⟩ := deep_ref_result hr
        simp only [deep, hg, hr]; exact ⟨_, rfl⟩

private theorem depth_owned {h : Heap} (hi : HeapInv h) : ∀ (n : Nat) (a : Nat), a ≤ n →
    isOwned h a → Depth h (.ref a) (a + 1) := by
  intro n
  induction n with
  | zero =>
    intro a ha ⟨kvs, hg⟩
    have : a = 0 := by omega
    subst this
    refine .dict hg ?_
    intro p hp
    cases hv : p.2 with
    | leaf l => exact .leaf l _
    | ref b => exact absurd (hi.owned_down 0 kvs hg p hp b hv) (Nat.not_lt_zero _)
  | succ n ih =>
    intro a ha ⟨kvs, hg⟩
    refine .dict hg ?_
    intro p hp
    cases hv : p.2 with
    | leaf l => exact .leaf l _
    | ref b =>
      have hb : @LT.lt Nat _ b a := hi.owned_down a kvs hg p hp b hv
      have hown := hi.owned_closed a kvs hg p hp
      rw [hv] at hown
      rcases hown with hob | ⟨ib, hfb⟩
      · exact (ih b (by omega) hob).mono_fuel (by omega)
      · have hib : @LT.lt Nat _ ib b := hi.frozen_down b ib hfb
        have d := ih ib (by omega) (hi.frozen_inner b ib hfb)
        exact (Depth.frozen hfb d).mono_fuel (by omega)

/-- under the invariant an owned value fits in the fuel `fuelOf h - 1`, a FrozenDict in `fuelOf h` -/
private theorem depth_ownedVal {h : Heap} (hi : HeapInv h) {v : Val} (hv : OwnedVal h v) : Depth h v h.length := by
  cases v with
  | leaf l => exact .leaf l _
  | ref a =>
    rcases hv with ⟨kvs, hg⟩ | ⟨i, hf⟩
    · have := lt_length_of_get hg
      exact (depth_owned hi a a (Nat.le_refl _) ⟨kvs, hg⟩).mono_fuel (by omega)
    · have h1 := lt_length_of_get hf
      have h2 : @LT.lt Nat _ i a := hi.frozen_down a i hf
      exact (Depth.frozen hf (depth_owned hi i i (Nat.le_refl _) (hi.frozen_inner a i hf))).mono_fuel (by omega)

theorem frozen_depth (w : World) (hs : Sep w) (f i : Addr) (hf : w.heap[f]? = some (Obj.frozen i)) :
    Depth w.heap (.ref f) (fuelOf w.heap) :=
  .frozen hf (depth_ownedVal hs.heap (v := .ref i) (Or.inl (hs.heap.frozen_inner f i hf)))

private theorem Ext.length_le {h h' : Heap} (e : Ext h h') : h.length ≤ h'.length := by
  obtain ⟨ext, rfl⟩ := e; simp

private theorem mapKvs_depth (f : Heap → Val → Except Err (Heap × Val)) (k : Nat)
    (f_ext : ∀ h v h' v', f h v = .ok (h', v') → Ext h h')
    (hf : ∀ h v h1 v1, f h v = .ok (h1, v1) → Depth h v k → Depth h1 v1 k) :
    ∀ (kvs : List (Key × Val)) (h h2 : Heap) (kvs' : List (Key × Val)), mapKvs f h kvs = .ok (h2, kvs') →
      (∀ p ∈ kvs, Depth h p.2 k) → ∀ p ∈ kvs', Depth h2 p.2 k := by
  intro kvs
  induction kvs with
  | nil => intro h h2 kvs' hm _; simp [mapKvs] at hm; obtain ⟨rfl, rfl⟩ := hm; simp
  | cons q rest ih =>
    intro h h2 kvs' hm hd
    obtain ⟨key, v⟩ := q
    simp only [mapKvs] at hm
    split at hm
    · cases hm
    · rename_i h1 v1 hfv
      split at hm
      · cases hm
      · rename_i h2' rest' hrest
        simp at hm; obtain ⟨rfl, rfl⟩ := hm
        have e1 := f_ext _ _ _ _ hfv
        have e2 := mapKvs_ext f f_ext _ _ _ _ hrest
        intro p hp
        simp at hp
        rcases hp with rfl | hp
        · exact (hf _ _ _ _ hfv (hd (key, v) (by simp))).mono_ext e2
        · exact ih _ _ _ hrest (fun p hp' => (hd p (by simp [hp'])).mono_ext e1) p hp

/-- a copy is no deeper than its source -/
private theorem deep_depth : ∀ (n : Nat) (m : Mode) (own : Bool) (h : Heap) (v : Val) (h' : Heap) (v' : Val),
    deep m own n h v = .ok (h', v') → ∀ k, Depth h v k → Depth h' v' k := by
  intro n
  induction n with
  | zero =>
    intro m own h v h' v' hd k d
    cases v with
    | leaf l => simp [deep] at hd; obtain ⟨rfl, rfl⟩ := hd; exact d
    | ref a => simp [deep] at hd
  | succ n ih =>
    intro m own h v h' v' hd k d
    cases v with
    | leaf l => simp [deep] at hd; obtain ⟨rfl, rfl⟩ := hd; exact d
    | ref a =>
      simp only [deep] at hd
      split at hd
      · cases hd
      · rename_i o kvs hget
        split at hd
        · cases hd
        · rename_i h1 kvs' hmap
          simp at hd
          obtain ⟨rfl, rfl⟩ := hd
          cases d with
          | frozen hg _ => rw [hget] at hg; cases hg
          | dict hg hk =>
            rename_i k0
            rw [hget] at hg; cases hg
            have hc := mapKvs_depth (deep m own n) k0 (fun h v h' v' => deep_ext n m own h v h' v')
              (fun h v h1 v1 hd => ih m own h v h1 v1 hd k0) _ _ _ _ hmap (fun p hp => hk p (mem_ord hp))
            exact .dict (o := own) (kvs := kvs') (by simp)
              (fun p hp => (hc p hp).mono_ext (Ext.append _ _))
      · rename_i i hget
        cases d with
        | dict hg _ => rw [hget] at hg; cases hg
        | frozen hg di =>
          rename_i k0
          rw [hget] at hg; cases hg
          cases m with
          | prepare =>
            simp at hd; obtain ⟨rfl, rfl⟩ := hd
            exact di.mono_fuel (by omega)
          | unfreeze =>
            simp only at hd
            exact (ih .tree own h (.ref i) h' v' hd k0 di).mono_fuel (by omega)
          | tree =>
            simp only at hd
            split at hd
            · cases hd
            · rename_i h1 j hr
              simp at hd
              obtain ⟨rfl, rfl⟩ := hd
              have dj := ih .tree true h (.ref i) h1 (.ref j) hr k0 di
              exact .frozen (i := j) (by simp) (dj.mono_ext (Ext.append _ _))
            · cases hd

private theorem mkFrozen_total {h : Heap} {kvs : List (Key × Val)}
    (hk : ∀ p ∈ kvs, Depth h p.2 (fuelOf h)) : ∃ r, mkFrozen h kvs = .ok r := by
  obtain ⟨⟨h1, kvs'⟩, hm⟩ := mapKvs_total (deep .prepare true (fuelOf h))
    (fun h v h' v' => deep_ext _ _ _ h v h' v') kvs h
    (fun h1 e p hp => deep_total _ _ _ h1 p.2 ((hk p hp).mono_ext e))
  simp only [mkFrozen, hm]
  exact ⟨_, rfl⟩

private theorem wrapVal_total {h : Heap} {v : Val} (d : Depth h v (fuelOf h + 1)) : ∃ r, wrapVal h v = .ok r := by
  cases d with
  | leaf l => simp only [wrapVal]; exact ⟨_, rfl⟩
  | dict hg hk =>
    simp only [wrapVal, hg]
    exact mkFrozen_total hk
  | frozen hg _ => simp only [wrapVal, hg]; exact ⟨_, rfl⟩

/-- values that are leaves or FrozenDict objects (what `__getitem__` and iteration hand out) -/
private def FrozenVal (h : Heap) : Val → Prop
  | .leaf _ => True
  | .ref a => isFrozen h a

private theorem FrozenVal.mono {h h' : Heap} (e : Ext h h') {v : Val} (hv : FrozenVal h v) : FrozenVal h' v := by
  cases v with
  | leaf l => trivial
  | ref a => obtain ⟨i, hi⟩ := hv; exact ⟨i, e.get hi⟩

private theorem FrozenVal.user {h : Heap} {v : Val} (hv : FrozenVal h v) : UserVal h v := by
  cases v with
  | leaf l => trivial
  | ref a => exact Or.inr hv

private theorem depth_frozenVal {h : Heap} (hi : HeapInv h) {v : Val} (hv : FrozenVal h v) :
    Depth h v (fuelOf h) := by
  cases v with
  | leaf l => exact .leaf l _
  | ref a =>
    obtain ⟨i, hf⟩ := hv
    exact .frozen hf (depth_ownedVal hi (v := .ref i) (Or.inl (hi.frozen_inner a i hf)))

private theorem mkFrozen_frozenVal {h : Heap} {kvs : List (Key × Val)} {h' : Heap} {v' : Val}
    (hm : mkFrozen h kvs = .ok (h', v')) : FrozenVal h' v' := by
  simp only [mkFrozen] at hm
  split at hm
  · cases hm
  · rename_i h1 kvs' _
    simp at hm
    obtain ⟨rfl, rfl⟩ := hm
    exact ⟨h1.length, by rw [List.getElem?_append_right (by omega)]; simp⟩

private theorem wrapVal_frozenVal {h : Heap} {v : Val} {h' : Heap} {v' : Val}
    (hm : wrapVal h v = .ok (h', v')) : FrozenVal h' v' := by
  cases v with
  | leaf l => simp [wrapVal] at hm; obtain ⟨rfl, rfl⟩ := hm; trivial
  | ref a =>
    simp only [wrapVal] at hm
    split at hm
    · cases hm
    · exact mkFrozen_frozenVal hm
    · rename_i i hg; simp at hm; obtain ⟨rfl, rfl⟩ := hm; exact ⟨i, hg⟩

private theorem mapWrap_frozenVal : ∀ (kvs : List (Key × Val)) (h h2 : Heap) (kvs' : List (Key × Val)),
    mapKvs wrapVal h kvs = .ok (h2, kvs') → ∀ p ∈ kvs', FrozenVal h2 p.2 := by
  intro kvs
  induction kvs with
  | nil => intro h h2 kvs' hm; simp [mapKvs] at hm; obtain ⟨rfl, rfl⟩ := hm; simp
  | cons q rest ih =>
    intro h h2 kvs' hm
    obtain ⟨key, v⟩ := q
    simp only [mapKvs] at hm
    split at hm
    · cases hm
    · rename_i h1 v1 hfv
      split at hm
      · cases hm
      · rename_i h2' rest' hrest
        simp at hm; obtain ⟨rfl, rfl⟩ := hm
        intro p hp
        simp at hp
        rcases hp with rfl | hp
        · exact (wrapVal_frozenVal hfv).mono (mapWrap_ext hrest)
        · exact ih _ _ _ hrest p hp

/-- `dict(fd)` / iteration over a FrozenDict never fails under the invariant -/
private theorem dictOf_frozen_total {h : Heap} (hi : HeapInv h) {f i : Addr} (hf : h[f]? = some (Obj.frozen i)) :
    ∃ h1 xs, dictOf h (.ref f) = .ok (h1, xs) := by
  obtain ⟨kvs, hg⟩ := hi.frozen_inner f i hf
  have hin : innerKvs h i = .ok kvs := by simp [innerKvs, hg]
  obtain ⟨⟨h1, xs⟩, hm⟩ := mapKvs_total wrapVal (fun _ _ _ _ => wrapVal_ext) kvs h (by
    intro h1 e p hp
    refine wrapVal_total ?_
    have d := depth_ownedVal hi (hi.owned_closed i kvs hg p hp)
    have := e.length_le
    exact (d.mono_ext e).mono_fuel (by simp [fuelOf]; omega))
  exact ⟨h1, xs, by simp only [dictOf, hf, hin]; exact hm⟩

/-- **No API call on a FrozenDict runs out of fuel** (or meets a dangling reference): with the fuel
`step` uses, under the invariant, `unfreeze`, `tree_map`, `freeze`, `copy()`, iteration and pickling
of a held FrozenDict succeed, and indexing / `pop` succeed or raise KeyError. -/
theorem frozen_api_total (w : World) (hs : Sep w) (x : Nat) (f i : Addr)
    (hx : w.roots[x]? = some (.ref f)) (hf : w.heap[f]? = some (Obj.frozen i)) :
    (∃ w', step w (.unfreeze x) = .ok w') ∧ (∃ w', step w (.treeMap x) = .ok w') ∧
    (∃ w', step w (.items x) = .ok w') ∧ (∃ w', step w (.freeze x) = .ok w') ∧
    (∃ w', step w (.copy x none) = .ok w') ∧ (∃ w', step w (.pickle x) = .ok w') ∧
    (∀ key, (∃ w', step w (.getitem x key) = .ok w') ∨ step w (.getitem x key) = .error .keyError) ∧
    (∀ key, (∃ w', step w (.pop x key) = .ok w') ∨ step w (.pop x key) = .error .keyError) := by
  have dF := frozen_depth w hs f i hf
  obtain ⟨kvs, hg⟩ := hs.heap.frozen_inner f i hf
  have hin : innerKvs w.heap i = .ok kvs := by simp [innerKvs, hg]
  have hown := hs.heap.owned_closed i kvs hg
  obtain ⟨h1, xs, hd⟩ := dictOf_frozen_total hs.heap hf
  have hxs : ∀ p ∈ xs, FrozenVal h1 p.2 := by
    simp only [dictOf, hf, hin] at hd
    exact mapWrap_frozenVal _ _ _ _ hd
  obtain ⟨i1, _⟩ := dictOf_spec hs.heap (x := .ref f) (Or.inr ⟨i, hf⟩) hd
  obtain ⟨⟨h2, r⟩, hm⟩ := mkFrozen_total (h := h1) (kvs := xs) (fun p hp => depth_frozenVal i1 (hxs p hp))
  refine ⟨?_, ?_, ?_, ?_, ?_, ?_, ?_, ?_⟩
  · obtain ⟨⟨h', r'⟩, hr⟩ := deep_total _ .unfreeze false _ _ dF
    simp only [step, hx, hr]
    exact ⟨_, rfl⟩
  · obtain ⟨⟨h', r'⟩, hr⟩ := deep_total _ .tree false _ _ dF
    simp only [step, hx, hr]
    exact ⟨_, rfl⟩
  · simp only [step, hx, hf, hd]
    exact ⟨_, rfl⟩
  · simp only [step, hx, hd, hm]
    exact ⟨_, rfl⟩
  · simp only [step, hx, hf, hd, hm]
    exact ⟨_, rfl⟩
  · -- pickle: FrozenDict(unfreeze(fd))
    obtain ⟨⟨hu, u⟩, hr⟩ := deep_total _ .unfreeze false _ _ dF
    have du := deep_depth _ _ _ _ _ _ _ hr _ dF
    have eu := deep_ext' hr
    -- the result of unfreezing a FrozenDict is a reference to a fresh dict
    have hr' := hr
    simp only [fuelOf, deep, hf] at hr'
    obtain ⟨j, kvsj, hj1, hj2⟩ := deep_of_dict hg hr'
    subst hj1
    have hdo : dictOf hu (.ref j) = .ok (hu, kvsj) := by simp [dictOf, hj2]
    have hdj : ∀ p ∈ kvsj, Depth hu p.2 (fuelOf hu) := by
      cases du with
      | frozen hg' _ => rw [hj2] at hg'; cases hg'
      | dict hg' hk =>
        rw [hj2] at hg'; cases hg'
        intro p hp
        have := eu.length_le
        exact (hk p hp).mono_fuel (by simp [fuelOf]; omega)
    obtain ⟨⟨h3, r3⟩, hm3⟩ := mkFrozen_total hdj
    simp only [step, hx, hf, hr, hdo, hm3]
    exact ⟨_, rfl⟩
  · intro key
    cases hk : kvGet kvs key with
    | none => exact Or.inr (by simp only [step, hx, hf, hin, hk])
    | some v =>
      obtain ⟨⟨h', v'⟩, hw⟩ := wrapVal_total (h := w.heap) (v := v)
        ((depth_ownedVal hs.heap (hown _ (kvGet_mem hk))).mono_fuel (by simp [fuelOf]; omega))
      refine Or.inl ?_
      simp only [step, hx, hf, hin, hk, hw]
      exact ⟨_, rfl⟩
  · intro key
    cases hk : kvGet kvs key with
    | none => exact Or.inr (by simp only [step, hx, hf, hin, hk])
    | some v =>
      obtain ⟨⟨h', v'⟩, hw⟩ := wrapVal_total (h := w.heap) (v := v)
        ((depth_ownedVal hs.heap (hown _ (kvGet_mem hk))).mono_fuel (by simp [fuelOf]; omega))
      have e1 := wrapVal_ext hw
      obtain ⟨⟨h3, r3⟩, hm3⟩ := mkFrozen_total (h := h') (kvs := kvErase kvs key) (by
        intro p hp
        have := e1.length_le
        exact ((depth_ownedVal hs.heap (hown p (mem_kvErase hp))).mono_ext e1).mono_fuel (by simp [fuelOf]; omega))
      refine Or.inl ?_
      simp only [step, hx, hf, hin, hk, hw, hm3]
      exact ⟨_, rfl⟩

/-! ## more content theorems: iteration, and `copy` / `pop` on plain dicts -/

private theorem mkFrozen_fresh {h : Heap} {kvs : List (Key × Val)} {h' : Heap} {v' : Val}
    (hm : mkFrozen h kvs = .ok (h', v')) : ∃ b, v' = .ref b ∧ h.length ≤ b := by
  simp only [mkFrozen] at hm
  split at hm
  · cases hm
  · rename_i h1 kvs' hmap
    simp at hm
    obtain ⟨rfl, rfl⟩ := hm
    have := (mapDeep_ext hmap).length_le
    exact ⟨h1.length + 1, rfl, by omega⟩

private theorem mapWrap_fresh : ∀ (kvs : List (Key × Val)) (h h2 : Heap) (kvs' : List (Key × Val)),
    mapKvs wrapVal h kvs = .ok (h2, kvs') →
    (∀ p ∈ kvs, ∀ a, p.2 = Val.ref a → (∃ o kv, h[a]? = some (Obj.dict o kv)) ∨ isFrozen h a) →
    ∀ p ∈ kvs', ∀ b, p.2 = Val.ref b → h.length ≤ b ∨ isFrozen h b := by
  intro kvs
  induction kvs with
  | nil => intro h h2 kvs' hm _; simp [mapKvs] at hm; obtain ⟨rfl, rfl⟩ := hm; simp
  | cons q rest ih =>
    intro h h2 kvs' hm hd
    obtain ⟨key, v⟩ := q
    simp only [mapKvs] at hm
    split at hm
    · cases hm
    · rename_i h1 v1 hfv
      split at hm
      · cases hm
      · rename_i h2' rest' hrest
        simp at hm; obtain ⟨rfl, rfl⟩ := hm
        have e1 := wrapVal_ext hfv
        intro p hp b hb
        simp at hp
        rcases hp with rfl | hp
        · cases v with
          | leaf l => simp [wrapVal] at hfv; obtain ⟨_, rfl⟩ := hfv; cases hb
          | ref a =>
            rcases hd (key, .ref a) (by simp) a rfl with ⟨o, kv, hg⟩ | ⟨j, hg⟩
            · simp only [wrapVal, hg] at hfv
              obtain ⟨b', hb1, hb2⟩ := mkFrozen_fresh hfv
              simp at hb
              rw [hb1] at hb; cases hb; exact Or.inl hb2
            · simp only [wrapVal, hg] at hfv
              simp at hfv
              obtain ⟨_, rfl⟩ := hfv
              simp at hb; subst hb
              exact Or.inr ⟨j, hg⟩
        · rcases ih _ _ _ hrest (fun p hp' a ha => by
            rcases hd p (by simp [hp']) a ha with ⟨o, kv, hg⟩ | ⟨j, hg⟩
            · exact Or.inl ⟨o, kv, e1.get hg⟩
            · exact Or.inr ⟨j, e1.get hg⟩) p hp b hb with h5 | ⟨j, h5⟩
          · have := e1.length_le
            exact Or.inl (by omega)
          · -- a FrozenDict object of the intermediate heap: either it was already there or it is fresh
            rcases Nat.lt_or_ge b h.length with h6 | h6
            · obtain ⟨ext, rfl⟩ := e1
              rw [List.getElem?_append_left h6] at h5
              exact Or.inr ⟨j, h5⟩
            · exact Or.inl h6

/-- **Iterating a FrozenDict (`items()`, `values()`, `dict(fd)`, `{**fd}`) yields, key by key, the
stored contents; every nested dict comes out as a *fresh* FrozenDict object** (allocated by this
call), never as the stored dict itself; a stored FrozenDict object (possible after `tree_unflatten`)
comes out as that same immutable object. -/
theorem items_same_content (w w' : World) (hsep : Sep w) (x : Nat) (f i : Addr) (k : Nat) (ts : List (Key × Tree))
    (hs : step w (.items x) = .ok w') (hx : w.roots[x]? = some (.ref f))
    (hf : w.heap[f]? = some (Obj.frozen i))
    (ha : absVal false (k + 1) w.heap (.ref f) = some (.node true ts)) :
    ∃ kvs' ts', w'.roots = w.roots ++ kvs'.map (·.2) ∧
      absKvs (absVal false k w'.heap) kvs' = some ts' ∧ canonKvs ts' = canonKvs ts ∧
      ∀ p ∈ kvs', ∀ b, p.2 = Val.ref b →
        (w.heap.length ≤ b ∨ ∃ j, w.heap[b]? = some (Obj.frozen j)) ∧ ∃ j, w'.heap[b]? = some (Obj.frozen j) := by
  simp only [step, hx, hf] at hs
  split at hs
  · cases hs
  · rename_i h1 kvs' hd
    cases hs
    obtain ⟨k0, oi, kvsi, ts0, hk, hi, hts, hnode⟩ := absVal_frozen_inv hf ha
    have hk : k0 = k := by omega
    subst hk
    injection hnode with _ hnode
    subst hnode
    simp only [dictOf, hf, innerKvs, hi] at hd
    obtain ⟨ts', h2, hc⟩ := mapKvs_content wrapVal (fun _ _ _ _ => wrapVal_ext)
      (fun h v h1 v1 hd fz fz' k t => wrapVal_content hd fz fz' k t) _ _ _ _ hd true false k0 ts hts
    refine ⟨kvs', ts', rfl, h2, hc, ?_⟩
    intro p hp b hb
    have hown := hsep.heap.owned_closed i kvsi (by
      obtain ⟨kv, hkv⟩ := hsep.heap.frozen_inner f i hf
      rw [hi] at hkv; cases hkv; exact hi)
    refine ⟨mapWrap_fresh _ _ _ _ hd (fun p hp a ha => ?_) p hp b hb, ?_⟩
    · have := hown p hp
      rw [ha] at this
      rcases this with ⟨kv, hkv⟩ | hfz
      · exact Or.inl ⟨true, kv, hkv⟩
      · exact Or.inr hfz
    · have := mapWrap_frozenVal _ _ _ _ hd p hp
      rw [hb] at this
      exact this

/-- **module-level `copy(d)` on a plain dict returns a dict with the same contents** -/
theorem copy_dict_same_content (w w' : World) (x : Nat) (a : Addr) (o : Bool) (kvs : List (Key × Val))
    (k : Nat) (t : Tree)
    (hs : step w (.copy x none) = .ok w') (hx : w.roots[x]? = some (.ref a))
    (hg : w.heap[a]? = some (Obj.dict o kvs))
    (ha : absVal false k w.heap (.ref a) = some t) :
    ∃ r t', w'.roots = w.roots ++ [r] ∧ absVal false k w'.heap r = some t' ∧ SameContent t' t := by
  simp only [step, hx, hg] at hs
  split at hs
  · cases hs
  · rename_i h1 kvs' hmap
    cases hs
    have hdeep : deep .tree false (fuelOf w.heap + 1) w.heap (.ref a)
        = .ok (h1 ++ [Obj.dict false kvs'], .ref h1.length) := by
      simp only [deep, hg, if_true, hmap]
    obtain ⟨t', ht', hc⟩ := deep_content _ _ _ _ _ _ _ hdeep false false k t ha
    exact ⟨_, t', rfl, ht', hc⟩

private theorem canonKvs_erase (l : List (Key × Tree)) (key : Key) :
    canonKvs (kvErase l key) = kvErase (canonKvs l) key := by
  induction l with
  | nil => rfl
  | cons q r ih =>
    obtain ⟨k, t⟩ := q
    simp only [kvErase] at ih ⊢
    by_cases hk : k = key
    · simp [canonKvs, hk, ih]
    · simp [canonKvs, hk, ih]

private theorem lookupT_canonKvs (l : List (Key × Tree)) (key : Key) :
    lookupT key (canonKvs l) = (lookupT key l).map canon := by
  induction l with
  | nil => rfl
  | cons q r ih =>
    obtain ⟨k, t⟩ := q
    simp only [canonKvs, lookupT]
    split
    · rfl
    · exact ih

/-- **module-level `pop(d, key)` on a plain dict**: jax rebuilds the copy with sorted keys, so the
statement is relative to the sorted entries of `d`: the returned dict has the contents of those
entries without `key`, the returned value the contents stored under `key`. -/
theorem pop_dict_same_content (w w' : World) (x : Nat) (key : Key) (a : Addr) (o : Bool)
    (kvs : List (Key × Val)) (k : Nat) (ts : List (Key × Tree))
    (hs : step w (.pop x key) = .ok w') (hx : w.roots[x]? = some (.ref a))
    (hg : w.heap[a]? = some (Obj.dict o kvs))
    (ha : absVal false (k + 1) w.heap (.ref a) = some (.node false ts)) :
    ∃ rest value t1 t2 tc, w'.roots = w.roots ++ [rest, value] ∧
      absVal false (k + 1) w'.heap rest = some t1 ∧
      SameContent t1 (.node false (kvErase (sortKvs ts) key)) ∧
      lookupT key (sortKvs ts) = some tc ∧
      absVal false k w'.heap value = some t2 ∧ SameContent t2 tc := by
  simp only [step, hx, hg] at hs
  repeat' split at hs
  all_goals first | cases hs | skip
  rename_i h1 kvs' hmap _ value hget
  rw [absVal_dict hg] at ha
  simp only [Option.map_eq_some_iff] at ha
  obtain ⟨ts0, hts, hnode⟩ := ha
  injection hnode with _ hnode
  subst hnode
  obtain ⟨ts', h2, hc⟩ := mapKvs_content (deep .tree false (fuelOf w.heap))
    (fun h v h' v' => deep_ext _ _ _ h v h' v')
    (fun h v h1 v1 hd => deep_content _ _ _ h v h1 v1 hd) _ _ _ _ hmap false false k _ (absKvs_sort hts)
  have e : Ext h1 (h1 ++ [Obj.dict false (kvErase kvs' key)]) := Ext.append _ _
  have hnew : (h1 ++ [Obj.dict false (kvErase kvs' key)])[h1.length]? = some (Obj.dict false (kvErase kvs' key)) := by simp
  obtain ⟨tc', hl', hv'⟩ := absKvs_get h2 hget
  have hl : lookupT key (canonKvs ts') = some (canon tc') := by rw [lookupT_canonKvs, hl']; rfl
  rw [hc, lookupT_canonKvs] at hl
  cases hlk : lookupT key (sortKvs ts0) with
  | none => rw [hlk] at hl; cases hl
  | some tc =>
    rw [hlk] at hl
    simp at hl
    refine ⟨_, value, .node false (kvErase ts' key), tc', tc, rfl, ?_, ?_, rfl, absVal_ext e k false value tc' hv', hl.symm⟩
    · rw [absVal_dict hnew]
      rw [absKvs_mono (fun p _ t ht => absVal_ext e k false p.2 t ht) (absKvs_erase key h2)]
      rfl
    · show canon _ = canon _
      rw [canon_node, canon_node, canonKvs_erase, hc, ← canonKvs_erase]

/-! ## distinct keys come from the heap invariant, not from a hypothesis -/

private theorem absKvs_keys {f : Val → Option Tree} : ∀ {kvs : List (Key × Val)} {ts : List (Key × Tree)},
    absKvs f kvs = some ts → ts.map (·.1) = kvs.map (·.1) := by
  intro kvs
  induction kvs with
  | nil => intro ts h; simp [absKvs] at h; subst h; rfl
  | cons p r ih =>
    intro ts h
    obtain ⟨k, v⟩ := p
    obtain ⟨t, ts0, _, hr, rfl⟩ := absKvs_cons_some.mp h
    simp [ih hr]

private theorem absKvs_mem {f : Val → Option Tree} : ∀ {kvs : List (Key × Val)} {ts : List (Key × Tree)},
    absKvs f kvs = some ts → ∀ q ∈ ts, ∃ p ∈ kvs, f p.2 = some q.2 := by
  intro kvs
  induction kvs with
  | nil => intro ts h; simp [absKvs] at h; subst h; simp
  | cons p r ih =>
    intro ts h
    obtain ⟨k, v⟩ := p
    obtain ⟨t, ts0, hv, hr, rfl⟩ := absKvs_cons_some.mp h
    intro q hq
    simp at hq
    rcases hq with rfl | hq
    · exact ⟨(k, v), by simp, hv⟩
    · obtain ⟨p, hp, hfp⟩ := ih hr q hq
      exact ⟨p, by simp [hp], hfp⟩

private theorem wfKvs_of_forall : ∀ {ts : List (Key × Tree)}, (∀ q ∈ ts, wfTree q.2 = true) → wfKvs ts = true := by
  intro ts
  induction ts with
  | nil => intro _; rfl
  | cons q r ih =>
    intro h
    obtain ⟨k, t⟩ := q
    simp only [wfKvs, Bool.and_eq_true]
    exact ⟨h (k, t) (by simp), ih (fun q hq => h q (by simp [hq]))⟩

/-- **Every abstract value read off a heap satisfying the invariant has distinct keys at every
level** — so `eq_order_independent`, `flatten_order_independent` and `mapEq_same_content` apply to
all values the model can produce without any side condition (next theorem). -/
theorem abs_wfTree (h : Heap) (hi : HeapInv h) : ∀ (k : Nat) (fz : Bool) (v : Val) (t : Tree),
    absVal fz k h v = some t → wfTree t = true := by
  intro k
  induction k with
  | zero =>
    intro fz v t ha
    cases v with
    | leaf l => simp [absVal] at ha; subst ha; rfl
    | ref a => simp [absVal] at ha
  | succ k ih =>
    intro fz v t ha
    cases v with
    | leaf l => simp [absVal] at ha; subst ha; rfl
    | ref a =>
      cases hg : h[a]? with
      | none => simp [absVal, hg] at ha
      | some o =>
        cases o with
        | dict own kvs =>
          rw [absVal_dict hg] at ha
          simp only [Option.map_eq_some_iff] at ha
          obtain ⟨ts, hts, rfl⟩ := ha
          simp only [wfTree, Bool.and_eq_true, decide_eq_true_eq]
          refine ⟨by rw [absKvs_keys hts]; exact hi.keys_nodup a own kvs hg, wfKvs_of_forall ?_⟩
          intro q hq
          obtain ⟨p, _, hfp⟩ := absKvs_mem hts q hq
          exact ih fz p.2 q.2 hfp
        | frozen i =>
          obtain ⟨k0, oi, kvsi, ts, hk, hgi, hts, rfl⟩ := absVal_frozen_inv hg ha
          have hk : k0 = k := by omega
          subst hk
          simp only [wfTree, Bool.and_eq_true, decide_eq_true_eq]
          refine ⟨by rw [absKvs_keys hts]; exact hi.keys_nodup i oi kvsi hgi, wfKvs_of_forall ?_⟩
          intro q hq
          obtain ⟨p, _, hfp⟩ := absKvs_mem hts q hq
          exact ih true p.2 q.2 hfp

/-- **Equal contents compare, hash and flatten equal regardless of insertion order — for every two
values of every reachable world**, no side condition: the distinct-keys hypothesis of the tree-level
theorems is discharged by the invariant. -/
theorem heap_values_order_independent (H : HashFns) (ops : List Op) (v1 v2 : Val) (k1 k2 : Nat)
    (fz1 fz2 : Bool) (t1 t2 : Tree)
    (h1 : absVal fz1 k1 (run World.init ops).heap v1 = some t1)
    (h2 : absVal fz2 k2 (run World.init ops).heap v2 = some t2) (hm : MapEq t1 t2) :
    treeEq t1 t2 = true ∧ treeHash H t1 = treeHash H t2 ∧ SameContent t1 t2 ∧
    (flattenS t1).1 = (flattenS t2).1 ∧ untagDef (flattenS t1).2 = untagDef (flattenS t2).2 := by
  have hw := abs_wfTree _ (sep_run ops _ sep_init).heap k2 fz2 v2 t2 h2
  exact ⟨eq_order_independent t1 t2 hm hw, hash_order_independent H t1 t2 hm, mapEq_same_content t1 t2 hm hw,
    (flatten_order_independent t1 t2 hm hw).1, (flatten_order_independent t1 t2 hm hw).2⟩

/-- user structures too: on any acyclic value (depth within the fuel) `unfreeze` and `tree_map` succeed -/
theorem acyclic_api_total (w : World) (x : Nat) (v : Val) (hx : w.roots[x]? = some v)
    (d : Depth w.heap v (fuelOf w.heap)) :
    (∃ w', step w (.unfreeze x) = .ok w') ∧ (∃ w', step w (.treeMap x) = .ok w') := by
  obtain ⟨⟨h1, r1⟩, hr1⟩ := deep_total _ .unfreeze false _ _ d
  obtain ⟨⟨h2, r2⟩, hr2⟩ := deep_total _ .tree false _ _ d
  refine ⟨?_, ?_⟩
  · simp only [step, hx, hr1]; exact ⟨_, rfl⟩
  · simp only [step, hx, hr2]; exact ⟨_, rfl⟩

/-! ## `x.copy(add_or_replace)`: the entries of `x` overridden / extended by those of `add` -/

private theorem lookupT_kvSet (l : List (Key × Tree)) (k key : Key) (t : Tree) :
    lookupT key (kvSet l k t) = if k = key then some t else lookupT key l := by
  induction l with
  | nil => simp [kvSet, lookupT]
  | cons q r ih =>
    obtain ⟨k', t'⟩ := q
    simp only [kvSet]
    split
    · rename_i hk; subst hk
      simp only [lookupT]
      split <;> rfl
    · rename_i hk
      simp only [lookupT, ih]
      by_cases h1 : k' = key
      · have : k ≠ key := by intro e; exact hk (h1.trans e.symm)
        simp [h1, this]
      · simp [h1]

private theorem lookupT_none_iff {l : List (Key × Tree)} {key : Key} :
    lookupT key l = none ↔ key ∉ l.map (·.1) := by
  induction l with
  | nil => simp [lookupT]
  | cons q r ih =>
    obtain ⟨k', t'⟩ := q
    simp only [lookupT]
    by_cases h1 : k' = key
    · simp [h1]
    · have h2 : ¬ key = k' := fun e => h1 e.symm
      simp [h1, h2, ih]

private theorem lookupT_mem {l : List (Key × Tree)} {key : Key} {t : Tree} (h : lookupT key l = some t) : (key, t) ∈ l := by
  induction l with
  | nil => simp [lookupT] at h
  | cons q r ih =>
    obtain ⟨k', t'⟩ := q
    simp only [lookupT] at h
    split at h
    · rename_i hk; simp at h; simp [hk, h]
    · simp [ih h]

private theorem lookupT_kvUpdate {b : List (Key × Tree)} (hn : (b.map (·.1)).Nodup) (key : Key) :
    ∀ (a : List (Key × Tree)), lookupT key (kvUpdate a b) =
      match lookupT key b with
      | some t => some t
      | none => lookupT key a := by
  induction b with
  | nil => intro a; simp [kvUpdate, lookupT]
  | cons q r ih =>
    intro a
    obtain ⟨k', t'⟩ := q
    simp only [List.map_cons, List.nodup_cons] at hn
    have : kvUpdate a ((k', t') :: r) = kvUpdate (kvSet a k' t') r := rfl
    rw [this, ih hn.2, lookupT_kvSet]
    simp only [lookupT]
    by_cases h1 : k' = key
    · subst h1
      rw [lookupT_none_iff.mpr hn.1]
      simp
    · simp [h1]

private theorem lookupT_sortKvs {l : List (Key × Tree)} (hn : (l.map (·.1)).Nodup) (key : Key) :
    lookupT key (sortKvs l) = lookupT key l := by
  cases h : lookupT key l with
  | none =>
    rw [lookupT_none_iff] at h ⊢
    intro hm
    exact h (((sortKvs_perm l).map (·.1)).mem_iff.mp hm)
  | some t =>
    exact lookupT_of_mem (nodup_sortKvs hn) (mem_sortKvs_iff.mpr (lookupT_mem h))

private theorem canonKvs_kvSet (l : List (Key × Tree)) (k : Key) (t : Tree) :
    canonKvs (kvSet l k t) = kvSet (canonKvs l) k (canon t) := by
  induction l with
  | nil => rfl
  | cons q r ih =>
    obtain ⟨k', t'⟩ := q
    simp only [kvSet, canonKvs]
    split <;> simp [canonKvs, ih]

private theorem canonKvs_kvUpdate (b : List (Key × Tree)) : ∀ (a : List (Key × Tree)),
    canonKvs (kvUpdate a b) = kvUpdate (canonKvs a) (canonKvs b) := by
  induction b with
  | nil => intro a; rfl
  | cons q r ih =>
    intro a
    obtain ⟨k', t'⟩ := q
    have h1 : kvUpdate a ((k', t') :: r) = kvUpdate (kvSet a k' t') r := rfl
    have h2 : kvUpdate (canonKvs a) (canonKvs ((k', t') :: r)) = kvUpdate (kvSet (canonKvs a) k' (canon t')) (canonKvs r) := rfl
    rw [h1, h2, ih, canonKvs_kvSet]

private theorem absKvs_kvSet {f : Val → Option Tree} {k : Key} {v : Val} {t : Tree} (hv : f v = some t) :
    ∀ {l : List (Key × Val)} {ts : List (Key × Tree)}, absKvs f l = some ts →
      absKvs f (kvSet l k v) = some (kvSet ts k t) := by
  intro l
  induction l with
  | nil => intro ts h; simp [absKvs] at h; subst h; simp [kvSet, absKvs, hv]
  | cons q r ih =>
    intro ts h
    obtain ⟨k2, v2⟩ := q
    obtain ⟨t2, ts0, hv2, hr, rfl⟩ := absKvs_cons_some.mp h
    simp only [kvSet]
    split
    · exact absKvs_cons_some.mpr ⟨t, ts0, hv, hr, rfl⟩
    · exact absKvs_cons_some.mpr ⟨t2, _, hv2, ih hr, rfl⟩

private theorem absKvs_kvUpdate {f : Val → Option Tree} : ∀ {ys : List (Key × Val)} {b : List (Key × Tree)}
    {xs : List (Key × Val)} {a : List (Key × Tree)}, absKvs f xs = some a → absKvs f ys = some b →
      absKvs f (kvUpdate xs ys) = some (kvUpdate a b) := by
  intro ys
  induction ys with
  | nil => intro b xs a hx hy; simp [absKvs] at hy; subst hy; exact hx
  | cons q r ih =>
    intro b xs a hx hy
    obtain ⟨k, v⟩ := q
    obtain ⟨t, b0, hv, hr, rfl⟩ := absKvs_cons_some.mp hy
    have h1 : kvUpdate xs ((k, v) :: r) = kvUpdate (kvSet xs k v) r := rfl
    have h2 : kvUpdate a ((k, t) :: b0) = kvUpdate (kvSet a k t) b0 := rfl
    rw [h1, h2]
    exact ih (absKvs_kvSet hv hx) hr

private theorem getC_of_canon_eq {f1 f2 : Bool} {l1 l2 : List (Key × Tree)}
    (hc : canon (.node f1 l1) = canon (.node f2 l2)) (n1 : (l1.map (·.1)).Nodup) (n2 : (l2.map (·.1)).Nodup)
    (key : Key) : (lookupT key l1).map canon = (lookupT key l2).map canon := by
  rw [canon_node, canon_node] at hc
  injection hc with _ hc
  rw [← lookupT_canonKvs, ← lookupT_canonKvs,
    ← lookupT_sortKvs (l := canonKvs l1) (by rw [canonKvs_keys]; exact n1),
    ← lookupT_sortKvs (l := canonKvs l2) (by rw [canonKvs_keys]; exact n2), hc]

private theorem nodup_of_wf {f : Bool} {l : List (Key × Tree)} (h : wfTree (.node f l) = true) : (l.map (·.1)).Nodup := by
  simp only [wfTree, Bool.and_eq_true, decide_eq_true_eq] at h; exact h.1

/-- **`fd.copy(add)` has exactly the entries of `fd` overridden / extended by the entries of `add`**
(a dict or a FrozenDict), each with the same contents as in its source: for every key, the result's
entry is `add`'s entry when `add` has the key, otherwise `fd`'s entry (absent when neither has it).
All of it deep-copied: `frozen_separation` applies to the result. -/
theorem copy_add_content (w w' : World) (hsep : Sep w) (x ai : Nat) (f i : Addr) (av : Val) (k : Nat)
    (fa : Bool) (tsx tsa : List (Key × Tree))
    (hs : step w (.copy x (some ai)) = .ok w') (hx : w.roots[x]? = some (.ref f))
    (hf : w.heap[f]? = some (Obj.frozen i)) (hadd : w.roots[ai]? = some av)
    (hax : absVal false (k + 1) w.heap (.ref f) = some (.node true tsx))
    (haa : absVal false (k + 1) w.heap av = some (.node fa tsa)) :
    ∃ r fr tsr, w'.roots = w.roots ++ [r] ∧ absVal false (k + 1) w'.heap r = some (.node fr tsr) ∧
      ∀ key, (lookupT key tsr).map canon =
        match (lookupT key tsa).map canon with
        | some c => some c
        | none => (lookupT key tsx).map canon := by
  have hsep' := step_preserves_sep w w' _ hsep hs
  simp only [step, hx, hf, hadd] at hs
  repeat' split at hs
  all_goals first | cases hs | skip
  rename_i h1 xs hd _ h2 u hdeep _ h3 ys hd2 _ h4 r hm
  -- invariants of the intermediate heaps
  obtain ⟨i1, u1⟩ := dictOf_spec hsep.heap (x := .ref f) (Or.inr ⟨i, hf⟩) hd
  have e1 := dictOf_ext hd
  obtain ⟨i2, u2⟩ := deep_user_spec (by simp) i1 (UserVal.mono e1 (root_valid hsep hadd)) hdeep
  have e2 := deep_ext' hdeep
  have e3 := dictOf_ext hd2
  -- contents
  obtain ⟨ts1, hts1, hc1⟩ := dictOf_content hd false false k _ hax
  obtain ⟨tu, htu, hcu⟩ := deep_content _ _ _ _ _ _ _ hdeep false false (k + 1) _
    (absVal_ext e1 (k + 1) false av _ haa)
  obtain ⟨ts2, hts2, hc2⟩ := dictOf_content hd2 false false k tu htu
  have hts1' : absKvs (absVal false k h3) xs = some ts1 :=
    absKvs_mono (fun p _ t ht => absVal_ext (e2.trans e3) k false p.2 t ht) hts1
  obtain ⟨t', ht', hc'⟩ := mkFrozen_content hm false false k _ (absKvs_kvUpdate hts1' hts2)
  -- distinct keys everywhere
  have n1 : (ts1.map (·.1)).Nodup := by rw [absKvs_keys hts1]; exact dictOf_nodup hsep.heap hd
  have n2 : (ts2.map (·.1)).Nodup := by rw [absKvs_keys hts2]; exact dictOf_nodup i2 hd2
  have nx := nodup_of_wf (abs_wfTree _ hsep.heap _ _ _ _ hax)
  have na := nodup_of_wf (abs_wfTree _ hsep.heap _ _ _ _ haa)
  cases t' with
  | leaf l => rw [canon_node] at hc'; simp [canon] at hc'
  | node fr tsr =>
    have nr := nodup_of_wf (abs_wfTree _ hsep'.heap _ _ _ _ ht')
    refine ⟨r, fr, tsr, rfl, ht', ?_⟩
    intro key
    rw [getC_of_canon_eq hc' nr (nodup_kvUpdate n1) key, ← lookupT_canonKvs, canonKvs_kvUpdate,
      lookupT_kvUpdate (by rw [canonKvs_keys]; exact n2), lookupT_canonKvs, lookupT_canonKvs,
      getC_of_canon_eq (hc2.trans hcu) n2 na key, getC_of_canon_eq hc1 n1 nx key]

/-! ## the `_hash` cache never goes stale (cache modelled explicitly) -/

/-- every cached hash is the hash one would compute now -/
def CacheOk (H : HashFns) (hw : HWorld) : Prop :=
  Sep hw.w ∧ ∀ f c, (f, c) ∈ hw.cache →
    (∃ i, hw.w.heap[f]? = some (Obj.frozen i)) ∧ freshHash H hw.w.heap f = some c

private theorem cacheGet_mem {cache : List (Addr × Nat)} {f : Addr} {c : Nat} (h : cacheGet cache f = some c) :
    (f, c) ∈ cache := by
  induction cache with
  | nil => simp [cacheGet] at h
  | cons q r ih =>
    obtain ⟨a, c'⟩ := q
    simp only [cacheGet] at h
    split at h
    · rename_i ha; simp at h; simp [ha, h]
    · simp [ih h]

private theorem step_length_le {w w' : World} {op : Op} (h : step w op = .ok w') : w.heap.length ≤ w'.heap.length := by
  by_cases hop : op.isUserWrite = false
  · exact (api_only_allocates w w' op hop h).1.length_le
  · cases op <;> simp [Op.isUserWrite] at hop <;>
      (simp only [step] at h; repeat' split at h) <;> (first | cases h | skip) <;> simp

private theorem freshHash_step {H : HashFns} {w w' : World} {op : Op} (hs : Sep w) (h : step w op = .ok w')
    {f i : Addr} (hf : w.heap[f]? = some (Obj.frozen i)) : freshHash H w'.heap f = freshHash H w.heap f := by
  obtain ⟨ts, hts⟩ := frozen_value_defined w hs f i hf false
  have hnc := (frozen_never_changes [op] w hs f i hf).2 false
  simp only [run, h] at hnc
  have hle := step_length_le h
  simp only [freshHash]
  rw [hnc, hts, absVal_fuel_le w.heap (k := fuelOf w.heap) (by simp [fuelOf]; omega) false _ _ hts]

theorem cacheOk_init (H : HashFns) : CacheOk H HWorld.init :=
  ⟨sep_init, by intro f c h; simp [HWorld.init] at h⟩

/-- the cache invariant is preserved by every operation, `hash` included -/
theorem hstep_preserves_cacheOk (H : HashFns) (hw hw' : HWorld) (op : HOp) (r : Option Nat)
    (hc : CacheOk H hw) (h : hstep H hw op = .ok (hw', r)) : CacheOk H hw' := by
  cases op with
  | base op =>
    simp only [hstep] at h
    split at h
    · rename_i w' hw1
      simp at h; obtain ⟨rfl, _⟩ := h
      refine ⟨step_preserves_sep _ _ _ hc.1 hw1, ?_⟩
      intro f c hm
      obtain ⟨⟨i, hf⟩, hh⟩ := hc.2 f c hm
      have st := step_stable hc.1 hw1
      exact ⟨⟨i, by rw [st f (Or.inr ⟨i, hf⟩)]; exact hf⟩, by rw [freshHash_step hc.1 hw1 hf]; exact hh⟩
    · cases h
  | hash x =>
    simp only [hstep] at h
    repeat' split at h
    all_goals first | cases h | skip
    · exact hc
    · rename_i f _ _ i hf _ _ _ c hfresh
      refine ⟨hc.1, ?_⟩
      intro f' c' hm
      simp at hm
      rcases hm with ⟨rfl, rfl⟩ | hm
      · exact ⟨⟨i, hf⟩, hfresh⟩
      · exact hc.2 f' c' hm
    · exact hc

/-- the invariant holds after every history of API calls, user mutations and `hash` calls -/
theorem cacheOk_hrun (H : HashFns) (ops : List HOp) : ∀ hw, CacheOk H hw → CacheOk H (hrun H hw ops) := by
  induction ops with
  | nil => intro hw hc; exact hc
  | cons op ops ih =>
    intro hw hc
    simp only [hrun]
    split
    · rename_i hw' r hst; exact ih hw' (hstep_preserves_cacheOk H hw hw' op r hc hst)
    · exact ih hw hc

/-- **The hash cache never goes stale**: at any point of any history, whatever `hash(fd)` returns —
computed now or read from `_hash`, however long ago it was stored and whatever mutations of sources
and returned values happened since — is the hash of `fd`'s value computed afresh. -/
theorem hash_returns_fresh_hash (H : HashFns) (ops : List HOp) (x : Nat) (f i : Addr) (hw' : HWorld) (c : Nat)
    (hx : (hrun H HWorld.init ops).w.roots[x]? = some (.ref f))
    (hf : (hrun H HWorld.init ops).w.heap[f]? = some (Obj.frozen i))
    (h : hstep H (hrun H HWorld.init ops) (.hash x) = .ok (hw', some c)) :
    freshHash H (hrun H HWorld.init ops).w.heap f = some c := by
  have hc := cacheOk_hrun H ops _ (cacheOk_init H)
  simp only [hstep, hx, hf] at h
  split at h
  · rename_i c' hget
    simp at h
    rw [← h.2]
    exact (hc.2 f c' (cacheGet_mem hget)).2
  · split at h
    · rename_i c' hfresh; simp at h; rw [← h.2]; exact hfresh
    · cases h

/-- non-vacuity: hash, mutate the source and a returned copy, hash again — the second call is served
from the cache and the hypotheses of `hash_returns_fresh_hash` hold -/
private def exH : HashFns := ⟨fun s => s.length, fun l => match l with | .atom n => some n.toNat | .opq _ => none, fun a b => a * 31 + b⟩

private def exHOps : List HOp :=
  (demoPre.map HOp.base) ++ [.hash 3, .base (.setKey 2 "q" 1), .base (.unfreeze 3), .base (.setKey 4 "b" 1)]

example : (hrun exH HWorld.init exHOps).w.roots[3]? = some (.ref 4) ∧
    (hrun exH HWorld.init exHOps).w.heap[4]? = some (Obj.frozen 3) ∧
    (hrun exH HWorld.init exHOps).cache.length = 1 ∧
    (match hstep exH (hrun exH HWorld.init exHOps) (.hash 3) with
     | .ok (_, some _) => true
     | _ => false) = true := by decide

/-- **`fd.copy(M)` where `M` is a Mapping that is neither a dict nor a FrozenDict**
(`types.MappingProxyType` — the type of the parameter's own default —, `collections.ChainMap`,
`collections.UserDict`, … viewing a held dict or FrozenDict): `unfreeze(M)` hands `M` back unchanged,
so the nested dicts of `M` reach `{**self, **M}` *by reference*; it is the copying constructor that
makes the result safe.  The result has `fd`'s entries overridden / extended by `M`'s, equal in
content; `step_preserves_sep` / `frozen_separation` / `frozen_never_changes` cover the operation like
every other one (it is a constructor of `Op`), so later mutations of `M`'s nested dicts cannot reach it. -/
theorem copyView_add_content (w w' : World) (hsep : Sep w) (x ai : Nat) (f i : Addr) (av : Val) (k : Nat)
    (fa : Bool) (tsx tsa : List (Key × Tree))
    (hs : step w (.copyView x ai) = .ok w') (hx : w.roots[x]? = some (.ref f))
    (hf : w.heap[f]? = some (Obj.frozen i)) (hadd : w.roots[ai]? = some av)
    (hax : absVal false (k + 1) w.heap (.ref f) = some (.node true tsx))
    (haa : absVal false (k + 1) w.heap av = some (.node fa tsa)) :
    ∃ r fr tsr, w'.roots = w.roots ++ [r] ∧ absVal false (k + 1) w'.heap r = some (.node fr tsr) ∧
      ∀ key, (lookupT key tsr).map canon =
        match (lookupT key tsa).map canon with
        | some c => some c
        | none => (lookupT key tsx).map canon := by
  have hsep' := step_preserves_sep w w' _ hsep hs
  simp only [step, hx, hf, hadd] at hs
  repeat' split at hs
  all_goals first | cases hs | skip
  rename_i h1 xs hd _ h2 ys hd2 _ h3 r hm
  obtain ⟨i1, u1⟩ := dictOf_spec hsep.heap (x := .ref f) (Or.inr ⟨i, hf⟩) hd
  have e1 := dictOf_ext hd
  have e2 := dictOf_ext hd2
  obtain ⟨ts1, hts1, hc1⟩ := dictOf_content hd false false k _ hax
  obtain ⟨ts2, hts2, hc2⟩ := dictOf_content hd2 false false k _ (absVal_ext e1 (k + 1) false av _ haa)
  have hts1' : absKvs (absVal false k h2) xs = some ts1 :=
    absKvs_mono (fun p _ t ht => absVal_ext e2 k false p.2 t ht) hts1
  obtain ⟨t', ht', hc'⟩ := mkFrozen_content hm false false k _ (absKvs_kvUpdate hts1' hts2)
  have n1 : (ts1.map (·.1)).Nodup := by rw [absKvs_keys hts1]; exact dictOf_nodup hsep.heap hd
  have n2 : (ts2.map (·.1)).Nodup := by rw [absKvs_keys hts2]; exact dictOf_nodup i1 hd2
  have nx := nodup_of_wf (abs_wfTree _ hsep.heap _ _ _ _ hax)
  have na := nodup_of_wf (abs_wfTree _ hsep.heap _ _ _ _ haa)
  cases t' with
  | leaf l => rw [canon_node] at hc'; simp [canon] at hc'
  | node fr tsr =>
    have nr := nodup_of_wf (abs_wfTree _ hsep'.heap _ _ _ _ ht')
    refine ⟨r, fr, tsr, rfl, ht', ?_⟩
    intro key
    rw [getC_of_canon_eq hc' nr (nodup_kvUpdate n1) key, ← lookupT_canonKvs, canonKvs_kvUpdate,
      lookupT_kvUpdate (by rw [canonKvs_keys]; exact n2), lookupT_canonKvs, lookupT_canonKvs,
      getC_of_canon_eq hc2 n2 na key, getC_of_canon_eq hc1 n1 nx key]

/-! ## pickling across processes: the hash function changes, the cache must not travel -/

private theorem cacheGet_none_of_not_mem {cache : List (Addr × Nat)} {g : Addr}
    (h : ∀ f c, (f, c) ∈ cache → f ≠ g) : cacheGet cache g = none := by
  induction cache with
  | nil => rfl
  | cons q r ih =>
    obtain ⟨a, c⟩ := q
    simp only [cacheGet]
    have : a ≠ g := h a c (by simp)
    simp [this]
    exact ih (fun f c hm => h f c (by simp [hm]))

/-- **The object rebuilt by pickling has an empty `_hash`** (it is built by the constructor): right after
`pickle`, the new FrozenDict has no cache entry — in the same process. -/
theorem pickle_result_uncached (H : HashFns) (hw hw' : HWorld) (x : Nat) (r : Option Nat)
    (hc : CacheOk H hw) (h : hstep H hw (.base (.pickle x)) = .ok (hw', r)) :
    ∃ g, hw'.w.roots = hw.w.roots ++ [.ref g] ∧ cacheGet hw'.cache g = none := by
  simp only [hstep] at h
  split at h
  · rename_i w' hst
    simp at h; obtain ⟨rfl, _⟩ := h
    simp only [step] at hst
    repeat' split at hst
    all_goals first | cases hst | skip
    rename_i a _ _ i hg _ h1 u hd _ h2 xs hdo _ h3 rr hm
    obtain ⟨g, hg1, hg2⟩ := mkFrozen_fresh hm
    subst hg1
    refine ⟨g, rfl, cacheGet_none_of_not_mem ?_⟩
    intro f c hmem e
    obtain ⟨⟨j, hf⟩, _⟩ := hc.2 f c hmem
    have h4 := lt_length_of_get hf
    have h5 := (deep_ext' hd).length_le
    have h6 := (dictOf_ext hdo).length_le
    subst e
    omega
  · cases h

/-- **In whatever process a pickle is loaded, `hash` computes afresh with that process's hash
function**: after `loadedElsewhere` (any heap, any new `H'`) the first `hash` of a FrozenDict returns
`freshHash H'` — equal contents therefore hash equal there (`hash_order_independent`). -/
theorem hash_after_load_is_fresh (H' : HashFns) (hw hw' : HWorld) (x : Nat) (f i : Addr) (c : Nat)
    (hx : hw.w.roots[x]? = some (.ref f)) (hf : hw.w.heap[f]? = some (Obj.frozen i))
    (h : hstep H' hw.loadedElsewhere (.hash x) = .ok (hw', some c)) :
    freshHash H' hw.w.heap f = some c := by
  simp only [hstep, HWorld.loadedElsewhere, hx, hf, cacheGet] at h
  split at h
  · rename_i c' hfresh; simp at h; rw [← h.2]; exact hfresh
  · cases h

/-- **Counter-example for a `__reduce__` that carries `_hash`** (`carryCacheOrig`, not the model's
behaviour): hash `{'a': 1}` under one hash function, pickle, give the rebuilt object the old cache
entry, and ask for its hash in a process with another hash function: the answer is the stale value,
not the hash of its contents — although it equals a freshly built FrozenDict, whose hash differs. -/
theorem carried_cache_is_stale_counterexample :
    ∃ (H H' : HashFns) (hw : HWorld) (x : Nat) (g : Addr) (c c' : Nat),
      CacheOk H hw ∧ hw.w.roots[x]? = some (.ref g) ∧
      (match hstep H' (hw.carryCacheOrig 2 5) (.hash x) with
       | .ok (_, some v) => decide (v = c)
       | _ => false) = true ∧
      freshHash H' hw.w.heap g = some c' ∧ c ≠ c' := by
  let H : HashFns := ⟨fun s => s.length, fun l => match l with | .atom n => some n.toNat | .opq _ => none, fun a b => a * 31 + b⟩
  let H' : HashFns := ⟨fun s => s.length + 7, fun l => match l with | .atom n => some n.toNat | .opq _ => none, fun a b => a * 31 + b⟩
  let ops : List HOp := [.base .newDict, .base (.newLeaf (.atom 1)), .base (.setKey 0 "a" 1), .base (.freeze 0),
    .hash 2, .base (.pickle 2)]
  refine ⟨H, H', hrun H HWorld.init ops, 3, 5, 32, 249, cacheOk_hrun H ops _ (cacheOk_init H), ?_, ?_, ?_, ?_⟩
  · decide
  · decide
  · decide
  · decide

/-! ## the hash of a FrozenDict depends only on its abstract value — also when `_dict` holds FrozenDict objects -/

/-- **`tree_unflatten` / `tree_map` results**: the new FrozenDict's `_dict` holds its children as they
are (FrozenDict children stay FrozenDict *objects* — a heap shape no other operation produces), and
its abstract value is the node of the children's values: exactly the value of the FrozenDict obtained
by freezing the corresponding plain nested dict. -/
theorem unflatten_content (w w' : World) (ks : List (Key × Nat)) (k : Nat) (hs : step w (.unflatten ks) = .ok w') :
    ∃ kvs g, resolveKs w.roots ks = some kvs ∧ w'.roots = w.roots ++ [.ref g] ∧
      w'.heap[g]? = some (Obj.frozen w.heap.length) ∧ w'.heap[w.heap.length]? = some (Obj.dict true kvs) ∧
      ∀ ts, absKvs (absVal true k w.heap) kvs = some ts →
        absVal false (k + 1) w'.heap (.ref g) = some (.node true ts) := by
  simp only [step] at hs
  split at hs
  · cases hs
  · rename_i kvs hres
    split at hs
    · cases hs
      have e : Ext w.heap (w.heap ++ [Obj.dict true kvs, Obj.frozen w.heap.length]) := Ext.append _ _
      have hinner : (w.heap ++ [Obj.dict true kvs, Obj.frozen w.heap.length])[w.heap.length]? = some (Obj.dict true kvs) := by simp
      have hfro : (w.heap ++ [Obj.dict true kvs, Obj.frozen w.heap.length])[w.heap.length + 1]? = some (Obj.frozen w.heap.length) := by
        rw [List.getElem?_append_right (by omega)]; simp
      refine ⟨kvs, w.heap.length + 1, hres, rfl, hfro, hinner, ?_⟩
      intro ts hts
      rw [absVal_frozen hfro hinner, absKvs_mono (fun p _ t ht => absVal_ext e k true p.2 t ht) hts]
      rfl
    · cases hs

/-- **`hash` of a FrozenDict depends only on its abstract value**: two FrozenDicts — in the same heap or in
different ones, whatever their `_dict`s look like inside (raw nested dicts, or FrozenDict objects put
there by `tree_unflatten`) — with the same abstract value have the same hash.  (In the model `__hash__`
goes through `items()`, i.e. through the abstract value, by construction; a `__hash__` that walks the raw
`_dict` instead does not have this property.) -/
theorem hash_abs_only (H : HashFns) (h h' : Heap) (a b : Addr)
    (hab : absVal false (fuelOf h) h (.ref a) = absVal false (fuelOf h') h' (.ref b)) :
    freshHash H h a = freshHash H h' b := by
  simp only [freshHash, hab]

/-- and with equal *contents* in any insertion orders (different `_dict` shapes included) the hashes agree too -/
theorem hash_content_only (H : HashFns) (h h' : Heap) (a b : Addr) (t1 t2 : Tree)
    (h1 : absVal false (fuelOf h) h (.ref a) = some t1) (h2 : absVal false (fuelOf h') h' (.ref b) = some t2)
    (hm : MapEq t1 t2) : freshHash H h a = freshHash H h' b := by
  simp only [freshHash, h1, h2, Option.bind_some]
  exact hash_order_independent H t1 t2 hm

/-- non-vacuity: `fd = freeze({'a': 1})`, `u = tree_unflatten(keys ('k',), [fd])` holds the FrozenDict
object `fd` inside its `_dict`; `p = freeze({'k': {'a': 1}})` holds a raw dict.  Same abstract value. -/
private def exU : World :=
  run World.init [.newDict, .newLeaf (.atom 1), .setKey 0 "a" 1, .freeze 0, .unflatten [("k", 2)],
    .newDict, .setKey 4 "k" 0, .freeze 4]

example : exU.heap[3]? = some (Obj.dict true [("k", .ref 2)]) ∧ exU.heap[2]? = some (Obj.frozen 1) ∧
    exU.roots[3]? = some (.ref 4) ∧ exU.roots[5]? = some (.ref 8) ∧
    exU.heap[7]? = some (Obj.dict true [("k", .ref 6)]) ∧ exU.heap[6]? = some (Obj.dict true [("a", .leaf (.atom 1))]) := by
  decide
example : (match absVal false (fuelOf exU.heap) exU.heap (.ref 4), absVal false (fuelOf exU.heap) exU.heap (.ref 8) with
    | some (.node true [("k", .node true [("a", .leaf (.atom 1))])]),
      some (.node true [("k", .node true [("a", .leaf (.atom 1))])]) => true
    | _, _ => false) = true := by decide

/-! ## `struct.field`: the data / static partition follows each field's own flag, whatever metadata dicts are shared -/

private theorem metaGet_metaSet_same (m : Struct.Meta) (key : String) (v : Int) :
    Struct.metaGet (Struct.metaSet m key v) key = some v := by
  induction m with
  | nil => simp [Struct.metaSet, Struct.metaGet]
  | cons q r ih =>
    obtain ⟨k, x⟩ := q
    simp only [Struct.metaSet]
    split
    · rename_i hk; simp [Struct.metaGet, hk]
    · rename_i hk; simp [Struct.metaGet, hk, ih]

private theorem metaGet_metaSet_other (m : Struct.Meta) (key other : String) (v : Int) (hne : other ≠ key) :
    Struct.metaGet (Struct.metaSet m key v) other = Struct.metaGet m other := by
  induction m with
  | nil => simp [Struct.metaSet, Struct.metaGet, Ne.symm hne]
  | cons q r ih =>
    obtain ⟨k, x⟩ := q
    simp only [Struct.metaSet]
    split
    · rename_i hk
      simp only [Struct.metaGet]
      have : ¬ k = other := by rw [hk]; exact Ne.symm hne
      simp [this]
    · simp only [Struct.metaGet, ih]

/-- **The partition into leaves and static fields is by each field's own `pytree_node` argument only**:
independent of which metadata dict objects the caller passed, of whether one dict object is shared by
several fields with different flags, and of any stale `'pytree_node'` entry in those dicts. -/
theorem declare_by_flag_only (store : List Struct.Meta) (fs : List Struct.FieldSpec) :
    Struct.declare store fs = fs.map (fun f => (f.name, f.node)) := by
  simp only [Struct.declare]
  refine List.map_congr_left ?_
  intro f _
  simp only [Struct.metaFlag, Struct.fieldMeta, metaGet_metaSet_same]
  cases f.node <;> simp

/-- the caller's other metadata entries reach the field unchanged (and the caller's dict is not an output
of `declare` at all: nothing writes to it) -/
theorem fieldMeta_keeps_user_entries (store : List Struct.Meta) (f : Struct.FieldSpec) (key : String)
    (hne : key ≠ "pytree_node") :
    Struct.metaGet (Struct.fieldMeta store f) key = Struct.metaGet (Struct.callerMeta store f.metaId) key := by
  simp only [Struct.fieldMeta]
  exact metaGet_metaSet_other _ _ _ _ hne

/-- counter-example for a `field` that writes into the caller's dict (`declareMutatingOrig`, not the
model's behaviour): one dict shared by a data field and a static field — the last flag wins for both,
and the caller's dict has changed -/
theorem mutating_field_counterexample :
    (Struct.declareMutatingOrig [[("units", 7)]] [⟨"origin", true, some 0⟩, ⟨"size", false, some 0⟩]).2
      = [("origin", false), ("size", false)] ∧
    (Struct.declareMutatingOrig [[("units", 7)]] [⟨"origin", true, some 0⟩, ⟨"size", false, some 0⟩]).1
      ≠ [[("units", 7)]] ∧
    Struct.declare [[("units", 7)]] [⟨"origin", true, some 0⟩, ⟨"size", false, some 0⟩]
      = [("origin", true), ("size", false)] := by decide

/-! ## `unfreeze` shares no mutable container with the FrozenDict — lists and tuples included

Over `Model/FrozenList.lean`: heap objects dict / list / tuple / FrozenDict; `unfreeze(fd)` =
`tree_map(lambda y: y, fd._dict)` rebuilds every pytree node. -/

/-- `c` is reachable from `a` through any container (dict values, list / tuple items, a FrozenDict's `_dict`) -/
inductive ReachL (h : FrozenL.Heap) : Nat → Nat → Prop where
  | refl (a : Nat) : ReachL h a a
  | step {a b c : Nat} {o : FrozenL.Obj} :
      h[a]? = some o → FrozenL.Val.ref b ∈ o.children → ReachL h b c → ReachL h a c

/-- every object allocated at or above `base` refers only to objects at or above `base` -/
private def NewClosed (base : Nat) (h : FrozenL.Heap) : Prop :=
  ∀ (a : Nat) (o : FrozenL.Obj), base ≤ a → h[a]? = some o → ∀ b : Nat, FrozenL.Val.ref b ∈ o.children → base ≤ b

private theorem getL_append_one {h : FrozenL.Heap} {o x : FrozenL.Obj} {a : Nat} (hg : (h ++ [o])[a]? = some x) :
    h[a]? = some x ∨ (a = h.length ∧ x = o) := by
  rcases Nat.lt_trichotomy a h.length with h1 | h1 | h1
  · rw [List.getElem?_append_left h1] at hg; exact Or.inl hg
  · subst h1; simp at hg; exact Or.inr ⟨rfl, hg.symm⟩
  · rw [List.getElem?_eq_none (by simp; omega)] at hg; cases hg

private theorem NewClosed.alloc {base : Nat} {h : FrozenL.Heap} (hc : NewClosed base h) (o : FrozenL.Obj)
    (ho : ∀ b : Nat, FrozenL.Val.ref b ∈ o.children → base ≤ b) : NewClosed base (h ++ [o]) := by
  intro a x ha hg b hb
  rcases getL_append_one hg with h1 | ⟨_, h2⟩
  · exact hc a x ha h1 b hb
  · subst h2; exact ho b hb

/-- what a successful walk guarantees, relative to a base address -/
private def WalkOk (base : Nat) (h : FrozenL.Heap) (r : FrozenL.Heap × FrozenL.Val) : Prop :=
  (∃ ext, r.1 = h ++ ext) ∧ NewClosed base r.1 ∧ ∀ b : Nat, r.2 = FrozenL.Val.ref b → h.length ≤ b

private theorem mapVals_fresh (f : FrozenL.Heap → FrozenL.Val → Option (FrozenL.Heap × FrozenL.Val)) (base : Nat)
    (hf : ∀ h v r, base ≤ h.length → NewClosed base h → f h v = some r → WalkOk base h r) :
    ∀ (vs : List FrozenL.Val) (h h' : FrozenL.Heap) (vs' : List FrozenL.Val), base ≤ h.length → NewClosed base h →
      FrozenL.mapVals f h vs = some (h', vs') →
      (∃ ext, h' = h ++ ext) ∧ NewClosed base h' ∧ ∀ b : Nat, FrozenL.Val.ref b ∈ vs' → base ≤ b := by
  intro vs
  induction vs with
  | nil =>
    intro h h' vs' _ hc hm
    simp [FrozenL.mapVals] at hm; obtain ⟨rfl, rfl⟩ := hm
    exact ⟨⟨[], by simp⟩, hc, by simp⟩
  | cons v rest ih =>
    intro h h' vs' hb hc hm
    simp only [FrozenL.mapVals] at hm
    split at hm
    · cases hm
    · rename_i h1 v1 hfv
      split at hm
      · cases hm
      · rename_i h2 rest' hrest
        simp at hm; obtain ⟨rfl, rfl⟩ := hm
        obtain ⟨⟨e1, he1⟩, c1, f1⟩ := hf h v (h1, v1) hb hc hfv
        simp only at he1 c1 f1
        have hb1 : base ≤ h1.length := by rw [he1]; simp; omega
        obtain ⟨⟨e2, he2⟩, c2, f2⟩ := ih h1 _ _ hb1 c1 hrest
        refine ⟨⟨e1 ++ e2, by rw [he2, he1]; simp⟩, c2, ?_⟩
        intro b hbm
        simp at hbm
        rcases hbm with hbm | hbm
        · have := f1 b hbm.symm; omega
        · exact f2 b hbm

private theorem mem_zip_snd {ks : List String} {vs : List FrozenL.Val} {p : String × FrozenL.Val}
    (hp : p ∈ ks.zip vs) : p.2 ∈ vs := (List.of_mem_zip hp).2

private theorem walkOk_alloc {base : Nat} {h h1 e1 : FrozenL.Heap} (he1 : h1 = h ++ e1) (c1 : NewClosed base h1)
    (o : FrozenL.Obj) (ho : ∀ b : Nat, FrozenL.Val.ref b ∈ o.children → base ≤ b) :
    WalkOk base h (h1 ++ [o], .ref h1.length) := by
  refine ⟨⟨e1 ++ [o], by rw [he1]; simp⟩, c1.alloc o ho, ?_⟩
  intro b hb
  injection hb with hb
  rw [← hb, he1]; simp

private theorem rebuild_fresh (base : Nat) : ∀ (n : Nat) (h : FrozenL.Heap) (v : FrozenL.Val) (r : FrozenL.Heap × FrozenL.Val),
    base ≤ h.length → NewClosed base h → FrozenL.rebuild .all n h v = some r → WalkOk base h r := by
  intro n
  induction n with
  | zero =>
    intro h v r _ hc hr
    cases v with
    | leaf k => simp [FrozenL.rebuild] at hr; subst hr; exact ⟨⟨[], by simp⟩, hc, by simp⟩
    | ref a => simp [FrozenL.rebuild] at hr
  | succ n ih =>
    intro h v r hb hc hr
    cases v with
    | leaf k => simp [FrozenL.rebuild] at hr; subst hr; exact ⟨⟨[], by simp⟩, hc, by simp⟩
    | ref a =>
      simp only [FrozenL.rebuild] at hr
      split at hr
      · cases hr
      · rename_i kvs hg
        split at hr
        · cases hr
        · rename_i h1 vs hm
          simp at hr; subst hr
          obtain ⟨⟨e1, he1⟩, c1, f1⟩ := mapVals_fresh _ base (fun h v r hb hc hr => ih h v r hb hc hr) _ _ _ _ hb hc hm
          refine walkOk_alloc he1 c1 _ ?_
          intro b hbm
          simp only [FrozenL.Obj.children, List.mem_map] at hbm
          obtain ⟨p, hp, hp2⟩ := hbm
          exact f1 b (hp2 ▸ mem_zip_snd hp)
      · rename_i xs hg
        split at hr
        · cases hr
        · rename_i h1 vs hm
          simp at hr; subst hr
          obtain ⟨⟨e1, he1⟩, c1, f1⟩ := mapVals_fresh _ base (fun h v r hb hc hr => ih h v r hb hc hr) _ _ _ _ hb hc hm
          exact walkOk_alloc he1 c1 _ (fun b hbm => f1 b (by simpa [FrozenL.Obj.children] using hbm))
      · rename_i xs hg
        split at hr
        · cases hr
        · rename_i h1 vs hm
          simp at hr; subst hr
          obtain ⟨⟨e1, he1⟩, c1, f1⟩ := mapVals_fresh _ base (fun h v r hb hc hr => ih h v r hb hc hr) _ _ _ _ hb hc hm
          exact walkOk_alloc he1 c1 _ (fun b hbm => f1 b (by simpa [FrozenL.Obj.children] using hbm))
      · rename_i i hg
        split at hr
        · cases hr
        · rename_i h1 j hrec
          simp at hr; subst hr
          obtain ⟨⟨e1, he1⟩, c1, f1⟩ := ih h (.ref i) (h1, .ref j) hb hc hrec
          simp only at he1 c1 f1
          refine walkOk_alloc he1 c1 _ ?_
          intro b hbm
          simp [FrozenL.Obj.children] at hbm
          have := f1 b (by rw [hbm]); omega
        · cases hr

private theorem reachL_stays_new {base : Nat} {h : FrozenL.Heap} (hc : NewClosed base h) {a c : Nat}
    (hr : ReachL h a c) : base ≤ a → base ≤ c := by
  induction hr with
  | refl a => exact id
  | step hg hm _ ih => intro ha; exact ih (hc _ _ ha hg _ hm)

/-- **`unfreeze(fd)` shares no mutable container with `fd` (nor with anything else)**: the old heap is
untouched and *every* container reachable from the returned value — dicts, lists, tuples, at every depth,
through lists of dicts, dicts inside lists inside dicts, tuples of lists, nested FrozenDicts — was
allocated by this very call.  So mutating the result in place (setitem, append, del, at any depth) cannot
reach an object `fd` is made of. -/
theorem unfreeze_shares_no_mutable_container (h h' : FrozenL.Heap) (f : Nat) (v' : FrozenL.Val)
    (hu : FrozenL.unfreeze .all h f = some (h', v')) :
    (∃ ext, h' = h ++ ext) ∧ ∀ b c : Nat, v' = FrozenL.Val.ref b → ReachL h' b c → h.length ≤ c := by
  simp only [FrozenL.unfreeze] at hu
  split at hu
  · rename_i i hf
    have hc0 : NewClosed h.length h := by
      intro a o ha hg
      rw [List.getElem?_eq_none ha] at hg; cases hg
    obtain ⟨he, c1, f1⟩ := rebuild_fresh h.length _ h (.ref i) (h', v') (Nat.le_refl _) hc0 hu
    exact ⟨he, fun b c hb hr => reachL_stays_new c1 hr (f1 b hb)⟩
  · cases hu

/-- counter-example for a walk that treats every non-dict as a leaf (`Walk.dictsOnly`, not the model's
`unfreeze`): `fd = freeze({'layers': [{'w': 1}]})` — the result's `'layers'` is the very list object
(address 1) stored in `fd`, and through it the dict (address 0) inside. -/
theorem unfreeze_dictsOnly_counterexample :
    let h : FrozenL.Heap := [.dict [("w", .leaf 1)], .list [.ref 0], .dict [("layers", .ref 1)], .frozen 2]
    (match FrozenL.unfreeze .dictsOnly h 3 with
     | some (h', v') => decide (1 ∈ FrozenL.reachList 5 h' v' ∧ 0 ∈ FrozenL.reachList 5 h' v')
     | none => false) = true ∧
    (match FrozenL.unfreeze .all h 3 with
     | some (h', v') => (FrozenL.reachList 5 h' v').all (fun a => decide (4 ≤ a))
     | none => false) = true := by decide

/-! ## the class style is a parameter nothing depends on -/

/-- **For every class style** (`slots=True`, `kw_only=True`, `frozen=` either way, a subclass of another
struct dataclass, any combination) the class registered as a pytree is the class the user gets, and the
leaves / static partition is by each field's own flag. -/
theorem struct_dataclass_style_independent (kw : Struct.StyleKw) (clz fresh : Nat) (store : List Struct.Meta)
    (fs : List Struct.FieldSpec) :
    (Struct.structDataclass kw clz fresh store fs).registered = (Struct.structDataclass kw clz fresh store fs).returned ∧
    (Struct.structDataclass kw clz fresh store fs).partition = fs.map (fun f => (f.name, f.node)) :=
  ⟨rfl, declare_by_flag_only store fs⟩

/-- counter-example for registering the class that was passed in (`structDataclassRegistersArgOrig`): with
`slots=True` the user's class is a new object that was never registered — its instances are opaque leaves -/
theorem registers_argument_counterexample :
    (Struct.structDataclassRegistersArgOrig ⟨true, false, true, false⟩ 0 1 [] [⟨"x", true, none⟩]).registered
      ≠ (Struct.structDataclassRegistersArgOrig ⟨true, false, true, false⟩ 0 1 [] [⟨"x", true, none⟩]).returned ∧
    (Struct.structDataclassRegistersArgOrig ⟨false, true, true, true⟩ 0 1 [] [⟨"x", true, none⟩]).registered
      = (Struct.structDataclassRegistersArgOrig ⟨false, true, true, true⟩ 0 1 [] [⟨"x", true, none⟩]).returned := by
  decide

/-- **`fd.get(k, default)` shares nothing mutable with `fd`**: it is `__getitem__`-or-default, so a nested dict
comes back as a FrozenDict object — a *fresh* one (allocated by this call) wrapping a fresh copy — never as
the stored dict; a missing key gives the default.  Being an `Op`, `get` is covered by `step_preserves_sep`,
`frozen_separation` and `frozen_never_changes` like every other call. -/
theorem get_shares_nothing (w w' : World) (hsep : Sep w) (x : Nat) (key : Key) (dflt : Leaf) (f i : Addr)
    (hs : step w (.get x key dflt) = .ok w') (hx : w.roots[x]? = some (.ref f))
    (hf : w.heap[f]? = some (Obj.frozen i)) :
    ∃ r, w'.roots = w.roots ++ [r] ∧
      ((∃ l, r = .leaf l) ∨
       (∃ b, r = .ref b ∧ (∃ j, w'.heap[b]? = some (Obj.frozen j)) ∧
          (w.heap.length ≤ b ∨ ∃ j, w.heap[b]? = some (Obj.frozen j)))) := by
  simp only [step, hx, hf] at hs
  repeat' split at hs
  all_goals first | cases hs | skip
  · exact ⟨_, rfl, Or.inl ⟨dflt, rfl⟩⟩
  · rename_i kvs hin _ v hk _ h1 v' hw
    refine ⟨v', rfl, ?_⟩
    have hown := innerKvs_owned hsep.heap hf hin _ (kvGet_mem hk)
    have hfv := wrapVal_frozenVal hw
    cases v' with
    | leaf l => exact Or.inl ⟨l, rfl⟩
    | ref b =>
      refine Or.inr ⟨b, rfl, hfv, ?_⟩
      cases v with
      | leaf l => simp [wrapVal] at hw
      | ref a =>
        rcases hown with ⟨kv, hkv⟩ | ⟨j, hj⟩
        · simp only [wrapVal, hkv] at hw
          obtain ⟨b', hb1, hb2⟩ := mkFrozen_fresh hw
          injection hb1 with hb1; subst hb1; exact Or.inl hb2
        · simp only [wrapVal, hj] at hw
          simp at hw
          obtain ⟨_, rfl⟩ := hw
          exact Or.inr ⟨j, hj⟩

end Flax.C15
