/-
C05 — Lifted jit / remat / cond / switch / while_loop / identity map_variables act like the plain code.

Property theorems over the model `Flax/Model/Lift.lean` (helper lemmas: `Flax/Proofs/Lift.lean`).
`Agree plain lifted` (Proofs/Lift.lean) = same outputs (values and drawn keys), same variables, same rng
counters and same static scope data on success, the same error kind otherwise.

Named assumptions (DESIGN.md §5): A-JIT / A-REMAT (jax.jit / jax.checkpoint are the identity on the traced
function; the jit cache is keyed by static arguments and input structure), A-COND / A-WHILE (`laxSwitch`,
`laxCond`, `laxWhile` in the model are the functional specifications of `lax.switch/cond/while_loop`, including
"every branch is traced" and "the loop body is traced once before the loop runs"), A-RNG (keys are free terms),
A-PY (variable trees are dicts: `VarsWF`).
-/
import Flax.Proofs.Lift
import Flax.Proofs.LiftWhile
import Flax.Proofs.LiftCounters
import Flax.Proofs.ModScopes

namespace Flax.C05
open Flax.Filter Flax.Lift

/-! ## `pack` is transparent -/

/-- **pack_transparent.** For every body, every outer scope, every list of in / out / rng filters and every
`mutable_filter`: if every collection the body touches is matched by an in-filter, every collection it may write
that is mutable outside is matched by an out-filter and by `mutable_filter`, and the rng streams it can draw from
are lifted, then running the body through `pack` (group, freeze, inner scope, run, repack, publish) and running it
directly on the scope agree on outputs, drawn keys, every variable of every collection, rng counters, and on
whether and how they fail.  `jit` (cache aside), `remat` and identity `map_variables` are instances. -/
theorem pack_transparent (inF outF rngF : List LFilter) (mf : LFilter) (attrs : List (String × Int)) (f : Fn)
    (args : List Int) (s : ScopeSt) (hwf : VarsWF s.vars) (hfz : s.FrozenOk)
    (hin : ∀ c, c ∈ cols f.body → anyMatch inF c = true)
    (hout : ∀ c, c ∈ wcols f.body → inFilter s.mutable c = true → anyMatch outF c = true ∧ inFilter mf c = true)
    (hrng : ∀ r, r ∈ rngDeps f.body → (alookup r s.rngs).isSome = true → anyMatch rngF r = true) :
    Agree (runFn attrs f args s) (liftId inF outF rngF mf attrs f args s) :=
  liftId_agree inF outF rngF mf attrs f args s hwf hfz hin hout hrng

private theorem aux_inChild (ch : String) (p : Prog) :
    cols (inChild ch p) = cols p ∧ wcols (inChild ch p) = wcols p ∧ rngNames (inChild ch p) = rngNames p := by
  induction p <;> simp_all [inChild, cols, wcols, rngNames]

/-- **pack_transparent for bodies that run on a child scope.** A child module bound under the name `ch` (in
`setup` or earlier in the compact method) and used inside the transformed code touches the parent's collections at
the child's path, draws from the parent's streams with the child's name in the key suffix, and counts its draws in
the dict nested under the child token of the parent's counter dict (`inChild`, `Prog.rngAt`, `makeRngAt`).  `pack`
is transparent for such bodies under exactly the hypotheses of `pack_transparent` on the collections and streams the
child's body names — for any mix of own and child instructions, since `pack_transparent` quantifies over every body. -/
theorem pack_transparent_child (ch : String) (inF outF rngF : List LFilter) (mf : LFilter) (attrs : List (String × Int))
    (f : Fn) (args : List Int) (s : ScopeSt) (hwf : VarsWF s.vars) (hfz : s.FrozenOk)
    (hin : ∀ c, c ∈ cols f.body → anyMatch inF c = true)
    (hout : ∀ c, c ∈ wcols f.body → inFilter s.mutable c = true → anyMatch outF c = true ∧ inFilter mf c = true)
    (hrng : ∀ r, r ∈ rngDeps f.body → (alookup r s.rngs).isSome = true → anyMatch rngF r = true) :
    Agree (runFn attrs ⟨inChild ch f.body, f.ret⟩ args s)
      (liftId inF outF rngF mf attrs ⟨inChild ch f.body, f.ret⟩ args s) := by
  have h := aux_inChild ch f.body
  apply liftId_agree
  · exact hwf
  · exact hfz
  · intro c hc; exact hin c (by simpa [h.1] using hc)
  · intro c hc; exact hout c (by simpa [h.2.1] using hc)
  · intro r hr; exact hrng r (by simpa [rngDeps, h.2.2] using hr)

/-- the same for a descendant at any depth (`Top → mid → … → counter`): `inPath path` nests `inChild` -/
theorem pack_transparent_path (path : List String) (inF outF rngF : List LFilter) (mf : LFilter)
    (attrs : List (String × Int)) (f : Fn) (args : List Int) (s : ScopeSt) (hwf : VarsWF s.vars) (hfz : s.FrozenOk)
    (hin : ∀ c, c ∈ cols f.body → anyMatch inF c = true)
    (hout : ∀ c, c ∈ wcols f.body → inFilter s.mutable c = true → anyMatch outF c = true ∧ inFilter mf c = true)
    (hrng : ∀ r, r ∈ rngDeps f.body → (alookup r s.rngs).isSome = true → anyMatch rngF r = true) :
    Agree (runFn attrs ⟨inPath path f.body, f.ret⟩ args s)
      (liftId inF outF rngF mf attrs ⟨inPath path f.body, f.ret⟩ args s) := by
  have h : cols (inPath path f.body) = cols f.body ∧ wcols (inPath path f.body) = wcols f.body ∧
      rngNames (inPath path f.body) = rngNames f.body := by
    induction path with
    | nil => exact ⟨rfl, rfl, rfl⟩
    | cons ch rest ih =>
      have := aux_inChild ch (inPath rest f.body)
      simp only [inPath, List.foldr_cons] at this ih ⊢
      exact ⟨this.1.trans ih.1, this.2.1.trans ih.2.1, this.2.2.trans ih.2.2⟩
  apply liftId_agree
  · exact hwf
  · exact hfz
  · intro c hc; exact hin c (by simpa [h.1] using hc)
  · intro c hc; exact hout c (by simpa [h.2.1] using hc)
  · intro r hr; exact hrng r (by simpa [rngDeps, h.2.2] using hr)

-- a child's draw: the key carries the child's name and its own counter; the parent's counter is untouched
example : (runFn [] ⟨inChild "d" (.seq (.rng "dropout") (.rng "dropout")), []⟩ []
      { vars := [], mutable := .ff, frozen := [], rngs := [("dropout", ⟨.seed "dropout", []⟩)],
        counters := [("dropout", 4)] }).toOption.map (fun r => (r.1.keys, r.2.counters)) =
    some ([.fold (.seed "dropout") [.s "d", .n 1], .fold (.seed "dropout") [.s "d", .n 2]],
      [("dropout", 4), ("d/dropout", 2)]) := by decide

/-- `nn.remat` / `nn.checkpoint` with lifting filters `variables`, `rngs` -/
theorem remat_transparent (variables rngs : LFilter) (attrs : List (String × Int)) (f : Fn)
    (args : List Int) (s : ScopeSt) (hwf : VarsWF s.vars) (hfz : s.FrozenOk)
    (hin : ∀ c, c ∈ cols f.body → inFilter variables c = true)
    (hrng : ∀ r, r ∈ rngDeps f.body → (alookup r s.rngs).isSome = true → inFilter rngs r = true) :
    Agree (runFn attrs f args s) (remat variables rngs attrs f args s) := by
  apply liftId_agree
  · exact hwf
  · exact hfz
  · intro c hc; simp [anyMatch, hin c hc]
  · intro c hc _; simp [anyMatch, hin c (wcols_sub_cols _ c hc), inFilter]
  · intro r hr hs; simp [anyMatch, hrng r hr hs]

/-- **remat_rng_identical.** The keys drawn inside `remat b` are those of `b` (same stream, same suffix, same
counter values), and the counters end where the plain code leaves them. -/
theorem remat_rng_identical (variables rngs : LFilter) (attrs : List (String × Int)) (f : Fn)
    (args : List Int) (s : ScopeSt) (hwf : VarsWF s.vars) (hfz : s.FrozenOk)
    (hin : ∀ c, c ∈ cols f.body → inFilter variables c = true)
    (hrng : ∀ r, r ∈ rngDeps f.body → (alookup r s.rngs).isSome = true → inFilter rngs r = true)
    (y y' : Out) (s1 s1' : ScopeSt) (h1 : runFn attrs f args s = .ok (y, s1))
    (h2 : remat variables rngs attrs f args s = .ok (y', s1')) :
    y.keys = y'.keys ∧ s1.counters = s1'.counters := by
  have h := remat_transparent variables rngs attrs f args s hwf hfz hin hrng
  rw [h1, h2] at h
  simp only [Agree] at h
  exact ⟨by rw [h.1], h.2.2.1⟩

/-- identity `nn.map_variables(…, init=False)`: transparent when the body does not write mapped collections
(they are read-only unless `mutable=True`) -/
theorem map_variables_id_transparent (mapped rngs variables : LFilter) (mutable : Bool)
    (attrs : List (String × Int)) (f : Fn) (args : List Int) (s : ScopeSt) (hwf : VarsWF s.vars) (hfz : s.FrozenOk)
    (hin : ∀ c, c ∈ cols f.body → (inFilter mapped c || inFilter variables c) = true)
    (hout : ∀ c, c ∈ wcols f.body → inFilter s.mutable c = true → mutable = false → inFilter mapped c = false)
    (hrng : ∀ r, r ∈ rngDeps f.body → (alookup r s.rngs).isSome = true → inFilter rngs r = true) :
    Agree (runFn attrs f args s) (mapVariablesId mapped false mutable rngs variables attrs f args s) := by
  have key : mapVariablesId mapped false mutable rngs variables attrs f args s =
      liftId [mapped, variables]
        (if mutable then [mapped, variables] else [LFilter.ff, subtract variables mapped]) [rngs]
        (if mutable then LFilter.tt else subtract LFilter.tt mapped) attrs f args s := by
    simp [mapVariablesId, mapVariablesIdGen, liftId, pack, partialPack, groupBy]
  rw [key]
  apply liftId_agree
  · exact hwf
  · exact hfz
  · intro c hc; simpa [anyMatch] using hin c hc
  · intro c hc hm
    have h1 := hin c (wcols_sub_cols _ c hc)
    cases hmu : mutable with
    | true => simpa [anyMatch, inFilter] using h1
    | false =>
      have h2 := hout c hc hm hmu
      simp only [h2, Bool.false_or] at h1
      simp [anyMatch, inFilter, Flax.C14.in_subtract, h1, h2]
  · intro r hr hs; simp [anyMatch, hrng r hr hs]

private theorem aux_union_tt (a : LFilter) : union a .tt = .tt := by unfold union; cases a <;> rfl
private theorem aux_intersect_tt (a : LFilter) : intersect a .tt = a := by unfold intersect; cases a <;> rfl

/-- finding F15 (fixed in /repo acbaa69): as shipped, identity `map_variables(init=True)` replaced the target group
by what `repack` returned after the initialisation pass — only the *mutable* collections — so a read-only mapped
collection (`params` while only `stats` is mutable) vanished from the transformed function's scope; the repaired
code keeps it and the function computes what the plain code computes. -/
theorem map_variables_init_orig_drops_readonly :
    mapVariablesIdOrig (.name "params") true false .tt .tt [] ⟨.get "params" "w", [.reg 0]⟩ []
      { vars := [("params", [("w", 3)]), ("stats", [("n", 1)])], mutable := .name "stats", frozen := [], rngs := [],
        counters := [] } = .error .notFound ∧
    (mapVariablesId (.name "params") true false .tt .tt [] ⟨.get "params" "w", [.reg 0]⟩ []
      { vars := [("params", [("w", 3)]), ("stats", [("n", 1)])], mutable := .name "stats", frozen := [], rngs := [],
        counters := [] }).toOption.map (·.1.vals) = some [3] := by
  constructor <;>
  simp [mapVariablesId, mapVariablesIdOrig, mapVariablesIdGen, pack, partialPack, groupBy, runInner, runFn, eval,
    evalRets, evalExpr, scopeFn, repack, frozenNames, anyMatch, inFilter, keys, getVar, alookup, M.push, unionAll,
    aux_union_tt, aux_intersect_tt, isFilterEmpty, mergeVars, publish, publishAll, publishColl, Except.toOption,
    ScopeSt.put]

/-! ## what `pack` keeps away from the body -/

/-- **repack_never_unmapped.** Whatever the body did, `repack_fn` finds no "unmapped output variables": the
inner scope's `mutable` is contained in the union of the out filters.  (Any scope, filters, groups, mutable
filter; any body.) -/
theorem repack_never_unmapped (s : ScopeSt) (outF : List LFilter) (fz : List String) (vg : List Vars)
    (rg : List Rngs) (mf : LFilter) (ctr : Counters) (env : Env) (b : Prog) (regs : List Int) (m' : M)
    (h : eval env b ⟨regs, [], scopeFn s outF fz vg rg mf ctr⟩ = .ok m') :
    ∃ gs, repack outF m'.sc = .ok gs := by
  refine ⟨_, repack_ok outF m'.sc ?_⟩
  intro c hc
  rw [(eval_static _ _ _ _ h).1, inFilter_scopeFn] at hc
  simp only [Bool.and_eq_true] at hc
  exact hc.1.2

private theorem aux_no_frozenWrite (env : Env) (b : Prog) : ∀ (m : M), m.sc.FrozenOk →
    eval env b m ≠ .error .frozenWrite := by
  induction b with
  | skip => intro m _; simp [eval]
  | seq p q ihp ihq =>
    intro m hf
    simp only [eval]
    cases hp : eval env p m with
    | error e => intro h; cases h; exact ihp m hf hp
    | ok m1 =>
      have hs := eval_static _ _ _ _ hp
      exact ihq m1 (by intro c hc; rw [hs.1]; exact hf c (by rw [← hs.2.1]; exact hc))
  | get c n => intro m _; simp only [eval]; split <;> simp
  | has c n => intro m _; simp [eval]
  | put c n e =>
    intro m hf
    simp only [eval]
    cases evalExpr env m.regs e with
    | none => simp
    | some v =>
      cases hm : inFilter m.sc.mutable c with
      | false => simp [put_of_immutable _ _ _ _ hm]
      | true => simp [put_of_mutable _ hf _ _ _ hm]
  | decl c n e =>
    intro m hf
    simp only [eval]
    cases getVar m.sc.vars c n with
    | some v => simp
    | none =>
      cases hm : inFilter m.sc.mutable c with
      | false => simp
      | true =>
        cases evalExpr env m.regs e with
        | none => simp
        | some v => simp [put_of_mutable _ hf _ _ _ hm]
  | rng st =>
    intro m _
    simp only [eval]
    cases h : m.sc.makeRng st with
    | ok r => simp
    | error e =>
      simp only
      intro he; cases he
      unfold ScopeSt.makeRng at h
      split at h
      · cases h
      · split at h <;> cases h
  | rngAt pth st =>
    intro m _
    simp only [eval]
    cases h : m.sc.makeRngAt pth st with
    | ok r => simp
    | error e =>
      simp only
      intro he; cases he
      unfold ScopeSt.makeRngAt at h
      split at h
      · cases h
      · split at h
        · cases h
        · split at h
          · cases h
          · split at h <;> cases h

/-- **freeze_unreachable.** `_partial_pack` freezes in-only collections, but a body never gets as far as
assigning into a FrozenDict: those collections are already immutable by the inner scope's filter, so the write
fails with `ModifyScopeVariableError` (never with FrozenDict's own error). -/
theorem freeze_unreachable (s : ScopeSt) (inF outF rngF : List LFilter) (mf : LFilter) (ctr : Counters)
    (env : Env) (b : Prog) (regs : List Int) :
    eval env b ⟨regs, [], (partialPack inF outF rngF s).scopeFn (partialPack inF outF rngF s).varGroups
      (partialPack inF outF rngF s).rngGroups mf ctr⟩ ≠ .error .frozenWrite := by
  apply aux_no_frozenWrite
  intro c hc
  simp only [partialPack] at hc ⊢
  rw [inFilter_scopeFn]
  simp only [scopeFn, frozenNames, List.mem_filter] at hc
  have : anyMatch outF c = false := by simpa using hc.2
  simp [this]

/-- **nonlifted_frame (1): invisible inside.** A collection matched by no in-filter does not exist in the inner
scope: every read of it finds nothing. -/
theorem nonlifted_invisible (s : ScopeSt) (inF outF rngF : List LFilter) (mf : LFilter) (ctr : Counters)
    (c n : String) (hc : anyMatch inF c = false) :
    getVar ((partialPack inF outF rngF s).scopeFn (partialPack inF outF rngF s).varGroups
      (partialPack inF outF rngF s).rngGroups mf ctr).vars c n = none := by
  simp [partialPack, scopeFn, getVar, alookup_groupBy_flatten, hc]

/-- **nonlifted_frame (2): writes still raise.** If a collection is not mutable outside, or is matched by no
out-filter, or is excluded by `mutable_filter`, then a `put_variable` on it inside the transform raises
`ModifyScopeVariableError`. -/
theorem nonlifted_write_raises (s : ScopeSt) (inF outF rngF : List LFilter) (mf : LFilter) (ctr : Counters)
    (c n : String) (v : Int)
    (hc : (inFilter s.mutable c && anyMatch outF c && inFilter mf c) = false) :
    ((partialPack inF outF rngF s).scopeFn (partialPack inF outF rngF s).varGroups
      (partialPack inF outF rngF s).rngGroups mf ctr).put c n v = .error .modifyImmutable := by
  apply put_of_immutable
  simp only [partialPack]
  rw [inFilter_scopeFn]; exact hc

/-- **nonlifted_frame (3): unchanged outside.** For *every* body (no hypothesis on what it touches): a
collection that is not mutable outside, or matched by no out-filter, or excluded by `mutable_filter`, has
exactly its old variables after the lifted call. -/
theorem nonlifted_frame (inF outF rngF : List LFilter) (mf : LFilter) (attrs : List (String × Int)) (f : Fn)
    (args : List Int) (s s' : ScopeSt) (y : Out) (hwf : VarsWF s.vars) (hfz : s.FrozenOk)
    (h : liftId inF outF rngF mf attrs f args s = .ok (y, s'))
    (c : String) (hc : (inFilter s.mutable c && anyMatch outF c && inFilter mf c) = false) :
    ∀ n, getVar s'.vars c n = getVar s.vars c n := by
  intro n
  simp only [liftId, pack, partialPack, runInner, runFn] at h
  split at h
  · cases h
  · rename_i y0 out ctr hin
    split at hin
    · cases hin
    · rename_i y1 i' hrun
      split at hrun
      · cases hrun
      · rename_i m' hev
        split at hrun
        · cases hrun
        · rename_i vs hvs
          cases hrun
          have hst := eval_static _ _ _ _ hev
          simp only at hst
          have hrep := repack_ok outF m'.sc (by
            intro c' hc'
            rw [hst.1, inFilter_scopeFn] at hc'
            simp only [Bool.and_eq_true] at hc'
            exact hc'.1.2)
          rw [hrep] at hin
          cases hin
          have hwf' : VarsWF (groupBy (m'.sc.vars.filter (fun kv => inFilter m'.sc.mutable kv.1)) outF).flatten :=
            varsWF_groupBy_flatten _ _ (varsWF_filter _ _ (eval_wf _ _ _ _ hev (varsWF_groupBy_flatten inF s.vars hwf)))
          obtain ⟨p, hpub, _, _, _, _, p5⟩ := publishAll_spec _ { s with counters := m'.sc.counters } hfz hwf'
          simp only [publish, hpub] at h
          cases h
          rw [p5, getVar_repacked]
          have hmu : inFilter m'.sc.mutable c = false := by rw [hst.1, inFilter_scopeFn]; exact hc
          simp [hmu]

/-! ## lifted control flow -/

/-- the domain on which `lax.cond` / `lax.switch` can run at all (A-COND): every branch traces without error on
the packed scope and all branches produce the same tree structure -/
def BranchesTrace (variables rngs : LFilter) (attrs : List (String × Int)) (branches : List Fn) (args : List Int)
    (s : ScopeSt) : Prop :=
  ∃ sh, ∀ b, b ∈ branches → ∃ v,
    runInner attrs b args .tt (partialPack [variables] [variables] [rngs] s)
      (partialPack [variables] [variables] [rngs] s).varGroups
      (partialPack [variables] [variables] [rngs] s).rngGroups s.counters = .ok v ∧ shapeOf v = sh

private theorem aux_sequence_ok {β : Type} (rs : List (Except Err β)) (P : β → Prop)
    (h : ∀ r, r ∈ rs → ∃ v, r = .ok v ∧ P v) :
    ∃ vs, sequence rs = .ok vs ∧ vs.length = rs.length ∧ (∀ v, v ∈ vs → P v) ∧
      ∀ k : Nat, rs[k]? = (vs[k]?).map (fun v => Except.ok v) := by
  induction rs with
  | nil => exact ⟨[], rfl, rfl, by simp, by simp⟩
  | cons r rs ih =>
    obtain ⟨v, hv, hp⟩ := h r List.mem_cons_self
    obtain ⟨vs, h1, h2, h3, h4⟩ := ih (fun r' hr' => h r' (List.mem_cons_of_mem _ hr'))
    subst hv
    refine ⟨v :: vs, by simp [sequence, h1], by simp [h2], ?_, ?_⟩
    · intro w hw
      rcases List.mem_cons.mp hw with e | e
      · subst e; exact hp
      · exact h3 w e
    · intro k
      cases k with
      | zero => simp
      | succ k => simpa using h4 k

private theorem aux_laxSwitch (i : Int) (rs : List (Except Err (Out × List Vars × Counters)))
    (sh : Nat × List (List (String × List String)))
    (h : ∀ r, r ∈ rs → ∃ v, r = .ok v ∧ shapeOf v = sh) (hne : rs ≠ []) :
    some (laxSwitch i rs) = rs[clampIdx i rs.length]? := by
  obtain ⟨vs, h1, h2, h3, h4⟩ := aux_sequence_ok rs (fun v => shapeOf v = sh) h
  unfold laxSwitch
  rw [h1]
  cases vs with
  | nil => simp at h2; exact absurd (List.length_eq_zero_iff.mp h2.symm) hne
  | cons v0 vs' =>
    have hall : ((v0 :: vs').all fun v => decide (shapeOf v = shapeOf v0)) = true := by
      simp only [List.all_eq_true, decide_eq_true_eq]
      intro v hv
      rw [h3 v hv, h3 v0 List.mem_cons_self]
    simp only [hall, ↓reduceIte]
    rw [h4, h2]
    have hlt : clampIdx i rs.length < (v0 :: vs').length := by
      rw [h2]
      have hpos : 0 < rs.length := List.length_pos_iff.mpr hne
      unfold clampIdx
      split
      · exact hpos
      · split <;> omega
    rw [← h2] at hlt ⊢
    rw [List.getElem?_eq_getElem hlt]
    simp

/-- **switch_eq_nth.** On the domain where `lax.switch` runs (`BranchesTrace`), `nn.switch(index, branches, …)`
agrees with calling `branches[clamp(index)]` directly on the module — for every index (negative and too large
ones are clamped as `lax.switch` does), every branch list and every lifting filter that covers what the chosen
branch touches. -/
theorem switch_eq_nth (variables rngs : LFilter) (attrs : List (String × Int)) (index : Int) (branches : List Fn)
    (args : List Int) (s : ScopeSt) (hwf : VarsWF s.vars) (hfz : s.FrozenOk) (hne : branches ≠ [])
    (htr : BranchesTrace variables rngs attrs branches args s)
    (hin : ∀ b, b ∈ branches → ∀ c, c ∈ cols b.body → inFilter variables c = true)
    (hrng : ∀ b, b ∈ branches → ∀ r, r ∈ rngDeps b.body → (alookup r s.rngs).isSome = true →
      inFilter rngs r = true) :
    Agree (pySwitch attrs index branches args s) (liftSwitch variables rngs attrs index branches args s) := by
  obtain ⟨sh, hsh⟩ := htr
  have hlt : clampIdx index branches.length < branches.length := by
    have hpos : 0 < branches.length := List.length_pos_iff.mpr hne
    unfold clampIdx
    split
    · exact hpos
    · split <;> omega
  -- the branch both sides select
  have hsel : branches[clampIdx index branches.length]? = some (branches[clampIdx index branches.length]) :=
    List.getElem?_eq_getElem hlt
  have hmem : branches[clampIdx index branches.length] ∈ branches := List.getElem_mem hlt
  -- lifted side: `lax.switch` returns the selected branch's traced result
  have hlax := aux_laxSwitch index
    (branches.map (fun b => runInner attrs b args .tt (partialPack [variables] [variables] [rngs] s)
      (partialPack [variables] [variables] [rngs] s).varGroups
      (partialPack [variables] [variables] [rngs] s).rngGroups s.counters)) sh
    (by
      intro r hr
      obtain ⟨b, hb, rfl⟩ := List.mem_map.mp hr
      exact hsh b hb)
    (by simpa using hne)
  simp only [List.length_map, List.getElem?_map, hsel, Option.map_some, Option.some.injEq] at hlax
  have hkey : liftSwitch variables rngs attrs index branches args s =
      liftId [variables] [variables] [rngs] .tt attrs (branches[clampIdx index branches.length]) args s := by
    simp only [liftSwitch, liftId, pack]
    rw [hlax]
  rw [hkey]
  simp only [pySwitch, hsel]
  apply liftId_agree
  · exact hwf
  · exact hfz
  · intro c hc; simp [anyMatch, hin _ hmem c hc]
  · intro c hc _; simp [anyMatch, hin _ hmem c (wcols_sub_cols _ c hc), inFilter]
  · intro r hr hs; simp [anyMatch, hrng _ hmem r hr hs]

/-- **cond_eq_ite.** `nn.cond(pred, t, f, mdl, …)` agrees with `t(mdl, …) if pred else f(mdl, …)`, for either
value of the predicate, on the domain where `lax.cond` runs. -/
theorem cond_eq_ite (variables rngs : LFilter) (attrs : List (String × Int)) (pred : Bool) (t f : Fn)
    (args : List Int) (s : ScopeSt) (hwf : VarsWF s.vars) (hfz : s.FrozenOk)
    (htr : BranchesTrace variables rngs attrs [t, f] args s)
    (hin : ∀ b, b ∈ [t, f] → ∀ c, c ∈ cols b.body → inFilter variables c = true)
    (hrng : ∀ b, b ∈ [t, f] → ∀ r, r ∈ rngDeps b.body → (alookup r s.rngs).isSome = true →
      inFilter rngs r = true) :
    Agree (pyCond attrs pred t f args s) (liftCond variables rngs attrs pred t f args s) := by
  obtain ⟨sh, hsh⟩ := htr
  obtain ⟨vt, ht, st⟩ := hsh t (by simp)
  obtain ⟨vf, hf, sf⟩ := hsh f (by simp)
  have hkey : liftCond variables rngs attrs pred t f args s =
      liftId [variables] [variables] [rngs] .tt attrs (if pred then t else f) args s := by
    simp only [liftCond, liftId, pack, laxCond, ht, hf, st, sf, ↓reduceIte]
    cases pred <;> simp [ht, hf]
  rw [hkey]
  have hmem : (if pred then t else f) ∈ [t, f] := by cases pred <;> simp
  have hpy : pyCond attrs pred t f args s = runFn attrs (if pred then t else f) args s := by
    cases pred <;> simp [pyCond]
  rw [hpy]
  apply liftId_agree
  · exact hwf
  · exact hfz
  · intro c hc; simp [anyMatch, hin _ hmem c hc]
  · intro c hc _; simp [anyMatch, hin _ hmem c (wcols_sub_cols _ c hc), inFilter]
  · intro r hr hs; simp [anyMatch, hrng _ hmem r hr hs]

/-- **cond_numeric_pred.** A numeric predicate is read as `pred != 0` on both sides: `nn.cond(p, t, f, …)` agrees with
`t(…) if p else f(…)` for every integer `p` — negative values take the true branch.  Reading it as `p > 0` (seeded
change C05_g) differs exactly on the negative predicates. -/
theorem cond_numeric_pred (variables rngs : LFilter) (attrs : List (String × Int)) (p : Int) (t f : Fn)
    (args : List Int) (s : ScopeSt) (hwf : VarsWF s.vars) (hfz : s.FrozenOk)
    (htr : BranchesTrace variables rngs attrs [t, f] args s)
    (hin : ∀ b, b ∈ [t, f] → ∀ c, c ∈ cols b.body → inFilter variables c = true)
    (hrng : ∀ b, b ∈ [t, f] → ∀ r, r ∈ rngDeps b.body → (alookup r s.rngs).isSome = true →
      inFilter rngs r = true) :
    Agree (if p ≠ 0 then runFn attrs t args s else runFn attrs f args s)
      (liftCond variables rngs attrs (predOfInt p) t f args s) ∧
    (predOfInt p ≠ decide (p > 0) ↔ p < 0) := by
  refine ⟨?_, ?_⟩
  · have h := cond_eq_ite variables rngs attrs (predOfInt p) t f args s hwf hfz htr hin hrng
    by_cases hp : p = 0
    · subst hp; simpa [pyCond, predOfInt] using h
    · simpa [pyCond, predOfInt, hp] using h
  · simp only [predOfInt, ne_eq, decide_not]
    by_cases h0 : p = 0
    · subst h0; simp
    · by_cases hpos : p > 0
      · simp [h0, hpos]; omega
      · simp [h0, hpos]; omega

/-- what A-COND costs: a branch that is *not* selected still has to trace.  If it raises, the lifted form raises
although the Python `if` would not have run it (documented in `lift.cond`'s docstring). -/
theorem cond_traces_both_branches (variables rngs : LFilter) (attrs : List (String × Int)) (t f : Fn)
    (args : List Int) (s : ScopeSt) (e : Err) (vt : Out × List Vars × Counters)
    (ht : runInner attrs t args .tt (partialPack [variables] [variables] [rngs] s)
      (partialPack [variables] [variables] [rngs] s).varGroups
      (partialPack [variables] [variables] [rngs] s).rngGroups s.counters = .ok vt)
    (hf : runInner attrs f args .tt (partialPack [variables] [variables] [rngs] s)
      (partialPack [variables] [variables] [rngs] s).varGroups
      (partialPack [variables] [variables] [rngs] s).rngGroups s.counters = .error e) :
    liftCond variables rngs attrs true t f args s = .error e := by
  simp [liftCond, pack, laxCond, ht, hf]

/-! ### while_loop -/

/-- the domain on which `lax.while_loop` can run (A-WHILE): condition and body trace once on the initial loop state
without error, and the body returns a loop state of the same tree structure -/
def LoopTraces (carryF bcF : LFilter) (attrs : List (String × Int)) (condFn bodyFn : Fn) (init : List Int)
    (s : ScopeSt) : Prop :=
  (∃ b, whileCondInner attrs condFn (partialPack [carryF, bcF] [carryF] [] s) (wBroadcast s carryF bcF) s.counters
      (wCarry0 s carryF, init) = .ok b) ∧
  (∃ c1, whileBodyInner attrs bodyFn (partialPack [carryF, bcF] [carryF] [] s) (wBroadcast s carryF bcF) s.counters
      (wCarry0 s carryF, init) = .ok c1 ∧ loopShape c1 = loopShape (wCarry0 s carryF, init))

private theorem aux_wInner (s : ScopeSt) (carryF bcF : LFilter) (cv : Vars) (mf : LFilter) :
    (partialPack [carryF, bcF] [carryF] [] s).scopeFn [cv, wBroadcast s carryF bcF]
      (partialPack [carryF, bcF] [carryF] [] s).rngGroups mf s.counters = wInner s carryF bcF cv mf := by
  simp [partialPack, wInner, groupBy, wCarry0, wBroadcast]

private theorem aux_while_core (s : ScopeSt) (carryF bcF : LFilter) (attrs : List (String × Int)) (condFn bodyFn : Fn)
    (hwf : VarsWF s.vars) (hfz : s.FrozenOk)
    (hcarry : ∀ c, c ∈ keys s.vars → inFilter carryF c = true → inFilter s.mutable c = true)
    (hcD : ∀ c, c ∈ cols condFn.body → (inFilter carryF c || inFilter bcF c) = true)
    (hcW : wcols condFn.body = []) (hcR : rngNames condFn.body = [])
    (hbD : ∀ c, c ∈ cols bodyFn.body → (inFilter carryF c || inFilter bcF c) = true)
    (hbW : ∀ c, c ∈ wcols bodyFn.body → inFilter s.mutable c = true → inFilter carryF c = true)
    (hbR : rngNames bodyFn.body = []) :
    ∀ (fuel : Nat) (cv : Vars) (sk : ScopeSt) (carry : List Int), WInv s carryF cv sk →
    match pyWhile attrs condFn bodyFn fuel carry sk,
      iterate (whileCondInner attrs condFn (partialPack [carryF, bcF] [carryF] [] s) (wBroadcast s carryF bcF) s.counters)
        (whileBodyInner attrs bodyFn (partialPack [carryF, bcF] [carryF] [] s) (wBroadcast s carryF bcF) s.counters)
        fuel (cv, carry) with
    | .ok (c1, s1), .ok (cv1, c2) => c1 = c2 ∧ WInv s carryF cv1 s1
    | .error e, .error e' => e = e'
    | _, _ => False := by
  intro fuel
  induction fuel with
  | zero => intro cv sk carry _; simp [pyWhile, iterate]
  | succ fuel ih =>
    intro cv sk carry hinv
    have hc := wcond_step (bcF := bcF) attrs condFn hfz hcarry hcD hcW hcR hinv carry
    simp only [pyWhile, iterate, whileCondInner, aux_wInner]
    cases hp : runFn attrs condFn carry sk with
    | error e =>
      cases hq : runFn attrs condFn carry (wInner s carryF bcF cv .ff) with
      | error e' => simp only [hp, hq] at hc; simp only; exact hc
      | ok r => obtain ⟨y', i1⟩ := r; simp [hp, hq] at hc
    | ok r0 =>
      obtain ⟨y, s1⟩ := r0
      cases hq : runFn attrs condFn carry (wInner s carryF bcF cv .ff) with
      | error e' => simp [hp, hq] at hc
      | ok r =>
        obtain ⟨y', i1⟩ := r
        simp only [hp, hq] at hc
        obtain ⟨hy, hinv1⟩ := hc
        subst hy
        simp only
        cases hv : y.vals with
        | nil => simp
        | cons v rest =>
          simp only
          by_cases hpos : v > 0
          · simp only [hpos, ↓reduceIte, decide_true]
            have hb := wbody_step (bcF := bcF) attrs bodyFn hwf hfz hcarry hbD hbW hbR hinv1 carry
            simp only [whileBodyInner, runInner, aux_wInner]
            cases hp2 : runFn attrs bodyFn carry s1 with
            | error e =>
              cases hq2 : runFn attrs bodyFn carry (wInner s carryF bcF cv .tt) with
              | error e' => simp only [hp2, hq2] at hb; simp only; exact hb
              | ok r => obtain ⟨y2', i2⟩ := r; simp [hp2, hq2] at hb
            | ok r2 =>
              obtain ⟨y2, s2⟩ := r2
              cases hq2 : runFn attrs bodyFn carry (wInner s carryF bcF cv .tt) with
              | error e' => simp [hp2, hq2] at hb
              | ok r =>
                obtain ⟨y2', i2⟩ := r
                simp only [hp2, hq2] at hb
                obtain ⟨hy2, hrep, hinv2⟩ := hb
                subst hy2
                have hrep' : (partialPack [carryF, bcF] [carryF] [] s).repack i2 = repack [carryF] i2 := rfl
                simp only [hrep', hrep]
                exact ih _ s2 y2.vals hinv2
          · simp only [hpos, ↓reduceIte, decide_false]
            exact ⟨trivial, hinv1⟩

/-- **while_eq_iterate.** For every fuel (trip-count bound), initial carry, condition and body: on the domain where
`lax.while_loop` runs (`LoopTraces`), with the condition read-only, the body writing only carried collections, every
carried collection of the scope mutable, and no rng draws, `nn.while_loop(cond_fn, body_fn, mdl, init,
carry_variables, broadcast_variables)` and the Python loop `while cond_fn(mdl, c): c = body_fn(mdl, c)` agree on
the final carry, on every variable of every collection, on the rng counters, and on failure (including running out
of fuel). -/
theorem while_eq_iterate (carryF bcF : LFilter) (attrs : List (String × Int)) (condFn bodyFn : Fn) (fuel : Nat)
    (init : List Int) (s : ScopeSt) (hwf : VarsWF s.vars) (hfz : s.FrozenOk)
    (hcarry : ∀ c, c ∈ keys s.vars → inFilter carryF c = true → inFilter s.mutable c = true)
    (hcD : ∀ c, c ∈ cols condFn.body → (inFilter carryF c || inFilter bcF c) = true)
    (hcW : wcols condFn.body = []) (hcR : rngNames condFn.body = [])
    (hbD : ∀ c, c ∈ cols bodyFn.body → (inFilter carryF c || inFilter bcF c) = true)
    (hbW : ∀ c, c ∈ wcols bodyFn.body → inFilter s.mutable c = true → inFilter carryF c = true)
    (hbR : rngNames bodyFn.body = [])
    (htr : LoopTraces carryF bcF attrs condFn bodyFn init s) :
    match pyWhile attrs condFn bodyFn fuel init s, liftWhile carryF bcF attrs condFn bodyFn fuel init s with
    | .ok (c1, s1), .ok (c2, s2) => c1 = c2 ∧ SameVars s1.vars s2.vars ∧ s1.counters = s2.counters
    | .error e, .error e' => e = e'
    | _, _ => False := by
  have hcore := aux_while_core s carryF bcF attrs condFn bodyFn hwf hfz hcarry hcD hcW hcR hbD hbW hbR fuel
    (wCarry0 s carryF) s init (winv_init hwf hcarry)
  obtain ⟨⟨b, hb⟩, ⟨c1, hc1, hsh⟩⟩ := htr
  have hgroups : (partialPack [carryF, bcF] [carryF] [] s).varGroups = [wCarry0 s carryF, wBroadcast s carryF bcF] := by
    simp [partialPack, groupBy, wCarry0, wBroadcast]
  simp only [liftWhile, pack, hgroups, laxWhile, hb, hc1, hsh, ↓reduceIte]
  cases hp : pyWhile attrs condFn bodyFn fuel init s with
  | error e =>
    cases hq : iterate (whileCondInner attrs condFn (partialPack [carryF, bcF] [carryF] [] s) (wBroadcast s carryF bcF) s.counters)
        (whileBodyInner attrs bodyFn (partialPack [carryF, bcF] [carryF] [] s) (wBroadcast s carryF bcF) s.counters)
        fuel (wCarry0 s carryF, init) with
    | error e' => simp only [hp, hq] at hcore; simp only; exact hcore
    | ok r => obtain ⟨cv1, c2⟩ := r; simp [hp, hq] at hcore
  | ok r0 =>
    obtain ⟨c1', s1⟩ := r0
    cases hq : iterate (whileCondInner attrs condFn (partialPack [carryF, bcF] [carryF] [] s) (wBroadcast s carryF bcF) s.counters)
        (whileBodyInner attrs bodyFn (partialPack [carryF, bcF] [carryF] [] s) (wBroadcast s carryF bcF) s.counters)
        fuel (wCarry0 s carryF, init) with
    | error e' => simp [hp, hq] at hcore
    | ok r =>
      obtain ⟨cv1, c2⟩ := r
      simp only [hp, hq] at hcore
      obtain ⟨hcc, hinv⟩ := hcore
      simp only
      have hwf' : VarsWF ([cv1].flatten) := by simpa using hinv.wfcv
      obtain ⟨p, hpub, _, _, _, p4, p5⟩ := publishAll_spec _ { s with counters := s.counters } hfz hwf'
      simp only [publish, hpub]
      refine ⟨hcc, ?_, by rw [p4]; exact hinv.ctr⟩
      intro c n
      rw [p5, hinv.view]
      simp only [List.flatten_cons, List.flatten_nil, List.append_nil]
      cases hm : inFilter s.mutable c with
      | false => simp
      | true =>
        cases hcf : inFilter carryF c with
        | true => simp only [Bool.and_self, ↓reduceIte]; rfl
        | false =>
          have : alookup c cv1 = none := by
            rw [alookup_none_iff]
            intro hk
            have := (hinv.cvkeys c hk).1
            simp [hcf] at this
          simp [getVar, this]

/-! ## nn.jit: fingerprint soundness, no stale trace -/

/-- `_hashable_filter` does not change which collections a filter selects -/
theorem hashable_filter_sem (f : LFilter) (c : String) : inFilter (hashableFilter f) c = inFilter f c := by
  induction f with
  | tt => rfl
  | ff => rfl
  | name s => simp [hashableFilter, inFilter]
  | names xs => rfl
  | deny f ih => simp [hashableFilter, inFilter, ih]

/-- **jit_fingerprint_sound.** Two calls with equal fingerprints denote the same traced function: for all
dynamic inputs (variable values, rng keys, arguments) the function traced under one environment returns what
tracing under the other would return.  The parts of the module that are not fingerprinted (`name`, parent path)
cannot influence it. -/
theorem jit_fingerprint_sound (variables rngs : LFilter) (f : Fn) (e e' : JitEnv)
    (h : fingerprint variables e = fingerprint variables e') (i : JitIn) :
    traceJit variables rngs f e i = traceJit variables rngs f e' i := by
  have ha : e.attrs = e'.attrs := congrArg Fingerprint.attrs h
  have hm : e.mutable = e'.mutable := congrArg Fingerprint.scopeMutable h
  have hc : e.counters = e'.counters := congrArg Fingerprint.counters h
  simp [traceJit, jitScope, ha, hm, hc]

/-- conversely: a changed module attribute, a changed mutability of any collection, or changed rng counters
change the fingerprint (so the call is retraced) -/
theorem fingerprint_detects_change (variables : LFilter) (e e' : JitEnv) :
    (e.attrs ≠ e'.attrs → fingerprint variables e ≠ fingerprint variables e') ∧
    ((∃ c, inFilter e.mutable c ≠ inFilter e'.mutable c) → fingerprint variables e ≠ fingerprint variables e') ∧
    (e.counters ≠ e'.counters → fingerprint variables e ≠ fingerprint variables e') ∧
    (e.state ≠ e'.state → fingerprint variables e ≠ fingerprint variables e') ∧
    (e.cls ≠ e'.cls → fingerprint variables e ≠ fingerprint variables e') := by
  refine ⟨?_, ?_, ?_, ?_, ?_⟩
  · intro h1 h2; exact h1 (congrArg Fingerprint.attrs h2)
  · rintro ⟨c, hc⟩ h2
    have : e.mutable = e'.mutable := congrArg Fingerprint.scopeMutable h2
    rw [this] at hc; exact hc rfl
  · intro h1 h2; exact h1 (congrArg Fingerprint.counters h2)
  · intro h1 h2; exact h1 (congrArg Fingerprint.state h2)
  · intro h1 h2; exact h1 (congrArg Fingerprint.cls h2)

/-- the first component of the fingerprint alone (the tuple of hashable inner `mutable` filters) already
determines which collections are writable inside the trace -/
theorem fingerprint_inner_mutable (variables : LFilter) (e e' : JitEnv)
    (h : (fingerprint variables e).innerMutable = (fingerprint variables e').innerMutable) (c : String) :
    inFilter (jitInnerMutable variables e.mutable) c = inFilter (jitInnerMutable variables e'.mutable) c := by
  have := congrArg (fun f => inFilter f c) h
  simpa [fingerprint, hashable_filter_sem] using this

/-- finding B1 (fixed in /repo cfc8239): compared by hash only, the attribute values `-1` and `-2` are the same key
(`hash(-1) == hash(-2)` in CPython) although the fingerprints differ and the jitted body computes different values —
the second call reused the first call's trace. -/
theorem hash_only_compare_counterexample :
    attrsHashOrig [("k", -1)] = attrsHashOrig [("k", -2)] ∧
    fingerprint .tt ⟨"M", [("k", -1)], default, .ff, [], [], [], none, []⟩ ≠
      fingerprint .tt ⟨"M", [("k", -2)], default, .ff, [], [], [], none, []⟩ ∧
    evalExpr ⟨[5], [("k", -1)]⟩ [] (.mul (.attr "k") (.arg 0)) ≠ evalExpr ⟨[5], [("k", -2)]⟩ [] (.mul (.attr "k") (.arg 0)) :=
  ⟨by decide, (fingerprint_detects_change .tt _ _).1 (by decide), by decide⟩

private def CacheOk (variables rngs : LFilter) (f : Fn) (cache : TraceCache) : Prop :=
  ∀ k t, cache.find k = some t → ∀ e i, (fingerprint variables e, i.shape) = k → t i = traceJit variables rngs f e i

private theorem aux_history (variables rngs : LFilter) (f : Fn) : ∀ (h : List (JitEnv × JitIn)) (cache : TraceCache),
    CacheOk variables rngs f cache →
    (jitHistory variables rngs f cache h).1 = h.map (fun ei => traceJit variables rngs f ei.1 ei.2) := by
  intro h
  induction h with
  | nil => intro cache _; rfl
  | cons x rest ih =>
    obtain ⟨e, i⟩ := x
    intro cache hok
    simp only [jitHistory, jitCall, List.map_cons]
    cases hf : cache.find (fingerprint variables e, i.shape) with
    | some t =>
      simp only
      rw [ih cache hok, hok _ t hf e i rfl]
    | none =>
      simp only
      rw [ih _ (by
        intro k t hk e' i' hk'
        simp only [TraceCache.find] at hk
        split at hk
        · rename_i heq
          cases hk
          have : fingerprint variables e = fingerprint variables e' := by
            rw [← hk'] at heq; exact (Prod.mk.inj heq).1
          exact jit_fingerprint_sound variables rngs f e e' this i'
        · exact hok k t hk e' i' hk')]

/-- **no_stale_trace.** Over *any* call history of one jitted method — attributes, mutability, counters, state
flags, variable structure and values, arguments all free to change between calls — call `k` returns exactly what
an uncached execution of call `k` returns. -/
theorem no_stale_trace (variables rngs : LFilter) (f : Fn) (h : List (JitEnv × JitIn)) :
    (jitHistory variables rngs f [] h).1 = h.map (fun ei => traceJit variables rngs f ei.1 ei.2) :=
  aux_history variables rngs f h [] (by intro k t hk; simp [TraceCache.find] at hk)

/-- the uncached jitted call is the plain call (A-JIT + `pack_transparent`) -/
theorem jit_uncached_transparent (variables rngs : LFilter) (f : Fn) (e : JitEnv) (i : JitIn)
    (hwf : VarsWF i.vars)
    (hin : ∀ c, c ∈ cols f.body → inFilter variables c = true)
    (hrng : ∀ r, r ∈ rngDeps f.body → (alookup r i.rngs).isSome = true → inFilter rngs r = true) :
    Agree (runFn e.attrs f i.args (jitScope e i)) (traceJit variables rngs f e i) := by
  apply liftId_agree
  · exact hwf
  · intro c hc; simp [jitScope] at hc
  · intro c hc; simp [anyMatch, hin c hc]
  · intro c hc _; simp [anyMatch, hin c (wcols_sub_cols _ c hc), inFilter]
  · intro r hr hs; simp [anyMatch, hrng r hr hs]

/-! ## rng under nn.jit -/

/-- **jit_rng_callsite.** `nn.jit` first draws one key per stream from the module's own scope (`fork_rngs`): stream
`nm` with rng `r` and counter `k` is replaced by the key `fold(r.key, r.suffix ++ [k+1])` — the key the module would
have drawn at this call site — and its counter becomes `k+1`.  A draw inside the jitted method then yields
`fold(fold(r.key, r.suffix ++ [k+1]), [k+2])`: a function of the call site's own draw alone (stream, path suffix,
counter), hence reproducible, and — `SymKey` being free (A-RNG) — different from every key of another call site. -/
theorem jit_rng_callsite (s : ScopeSt) (hnd : (keys s.rngs).Nodup)
    (hctr : ∀ nm, nm ∈ keys s.rngs → ∃ k, alookup nm s.counters = some k)
    (nm : String) (r : LazyRng) (k : Nat) (hr : alookup nm s.rngs = some r) (hk : alookup nm s.counters = some k) :
    ∃ s1, forkRngs s = .ok s1 ∧ s1.vars = s.vars ∧ s1.mutable = s.mutable ∧
      alookup nm s1.rngs = some (forkedRng r k) ∧ alookup nm s1.counters = some (k + 1) ∧
      ∃ s2, s1.makeRng nm =
        .ok (foldStatic (foldStatic r.key (r.suffix ++ [Datum.n (k + 1)])) [Datum.n (k + 2)], s2) := by
  have hmem : nm ∈ keys s.rngs := by
    have := mem_of_alookup hr
    exact List.mem_map.mpr ⟨(nm, r), this, rfl⟩
  obtain ⟨s1, h1, h2, h3, _, h5, h6⟩ := forkGo_spec (keys s.rngs) s [] hnd (by
    intro x hx
    obtain ⟨k', hk'⟩ := hctr x hx
    cases hx' : alookup x s.rngs with
    | none => exact absurd hx ((alookup_none_iff x s.rngs).mp hx')
    | some r' => exact ⟨r', k', rfl, hk'⟩)
  have hr1 : alookup nm s1.rngs = some (forkedRng r k) := by
    rw [h6 nm (by simp [alookup])]; simp [hmem, hr, hk]
  have hk1 : alookup nm s1.counters = some (k + 1) := by
    rw [h5 nm]; simp [hmem, hk]
  refine ⟨s1, h1, h2, h3, hr1, hk1, { s1 with counters := ainsert nm (k + 1 + 1) s1.counters }, ?_⟩
  rw [makeRng_present s1 nm _ _ hr1 hk1]
  simp [forkedRng]

/-- finding F11 (fixed in /repo 493d5c1): with the counter-delta cache keyed by the fingerprint alone and shared by
all jitted functions (`keyByFn = false`, the code as shipped), a second jitted function reached with an equal
fingerprint gets the *first* function's delta replayed over the counters its own trace had just advanced; with one
cache per transformed function (`keyByFn = true`, the repaired code) its counters stay where its trace left them. -/
theorem delta_cache_shared_counterexample :
    let fp0 : Fingerprint := ⟨.tt, "M", [], default, .tt, [], [("dropout", 1)], []⟩
    let old : Counters := [("dropout", 1)]
    -- function 1 draws one key while tracing, function 2 draws three
    (restoreCounters false 2 fp0 (restoreCounters false 1 fp0 [] old [("dropout", 2)]).2 old [("dropout", 4)]).1
      = [("dropout", 2)] ∧
    (restoreCounters true 2 fp0 (restoreCounters true 1 fp0 [] old [("dropout", 2)]).2 old [("dropout", 4)]).1
      = [("dropout", 4)] := by
  decide

/-- on a later call of the *same* function with the same fingerprint and the same counters before the call (a jit
cache hit: the python body does not run), the recorded delta puts the counters where the trace had put them -/
theorem counter_delta_restore_partial (keyByFn : Bool) (fid : Nat) (fp : Fingerprint) (old now : Counters)
    (nm : String) (k k' : Nat) (hold : old = [(nm, k)]) (hnow : now = [(nm, k')]) (hle : k ≤ k') :
    (restoreCounters keyByFn fid fp (restoreCounters keyByFn fid fp [] old now).2 old old).1 = now := by
  subst hold; subst hnow
  simp [restoreCounters, DeltaCache.find, countsSub, countsRestore, alookup, ainsert]
  omega

/-! ## the counter replay on a cache hit, with nested dicts shared by reference -/

/-- `now` can be what an execution leaves behind when it starts from the counter heap `h`: Python dicts (distinct
keys), and no stream or child dict disappears (counters are only created and incremented) -/
structure Extends (h : CHeap) (now : CVal) : Prop where
  rn : (keys now.root).Nodup
  kn : (keys now.kids).Nodup
  cn : ∀ k c, alookup k now.kids = some c → (keys c).Nodup
  root : ∀ s, (alookup s h.root).isSome = true → (alookup s now.root).isSome = true
  kids : ∀ k a, alookup k h.kids = some a → ∃ c, alookup k now.kids = some c ∧
    ∀ s, (alookup s (h.obj a)).isSome = true → (alookup s c).isSome = true

/-- **counter_delta_restore.** The rng counters are a nested dict whose child dicts are shared *by reference* with
the already-bound child scopes.  Let `now` be the counts an actual execution of the jitted body leaves when started
from counts `h.read`, and `now - h.read` the delta recorded when the body was traced.  On a cache hit
`_restore_rng_counters` (flatten, `add` the delta to the counts captured before the call, `unflat`,
`set_from_dict`) leaves:
* the scope's own counts exactly at `now`;
* every child token that was bound before the call **at the same dict object** (same address), and that object's
  counts exactly at `now`'s — so a child scope bound outside the jitted code reads, through its own reference,
  what the execution would have left;
* child dicts first created inside the jitted code stored with `now`'s counts.
For every heap, every `now`, every number of streams and children. -/
theorem counter_delta_restore (h : CHeap) (hw : h.WF) (now : CVal) (hx : Extends h now) :
    (∀ s, alookup s (restoreHeap h (now.sub h.read)).root = alookup s now.root) ∧
    (∀ k a, alookup k h.kids = some a →
      alookup k (restoreHeap h (now.sub h.read)).kids = some a ∧
      ∀ s, alookup s ((restoreHeap h (now.sub h.read)).obj a) = alookup s (kidGet now k)) ∧
    (∀ k c, alookup k h.kids = none → alookup k now.kids = some c →
      ∃ a, alookup k (restoreHeap h (now.sub h.read)).kids = some a ∧ (restoreHeap h (now.sub h.read)).obj a = c) := by
  have hw0 : ({ h with root := mergeInto h.root now.root } : CHeap).WF := ⟨hw.kn, hw.an, hw.ab⟩
  obtain ⟨_, r, e, n⟩ := setKids_spec now.kids { h with root := mergeInto h.root now.root } hw0 hx.kn
  simp only [restoreHeap, sub_add_cancel, setFromDict]
  refine ⟨?_, ?_, ?_⟩
  · intro s
    rw [r]
    simp only
    rw [alookup_mergeInto _ _ hx.rn]
    cases hn : alookup s now.root with
    | some v => rfl
    | none =>
      simp only
      cases ho : alookup s h.root with
      | none => rfl
      | some v => have := hx.root s (by simp [ho]); simp [hn] at this
  · intro k a hk
    obtain ⟨h1, h2⟩ := e k a hk
    refine ⟨h1, ?_⟩
    intro s
    obtain ⟨c, hc, hext⟩ := hx.kids k a hk
    rw [h2, hc]
    simp only [kidGet, hc]
    have hobj : ({ h with root := mergeInto h.root now.root } : CHeap).obj a = h.obj a := rfl
    rw [hobj, alookup_mergeInto _ _ (hx.cn k c hc)]
    cases hn : alookup s c with
    | some v => rfl
    | none =>
      simp only
      cases ho : alookup s (h.obj a) with
      | none => rfl
      | some v => have := hext s (by simp [ho]); simp [hn] at this
  · intro k c hk hc
    exact n k c hk hc

/-- the aliasing requirement is real (seeded change `set_from_dict := original.update(updates)`): with the
non-recursive update every *value* of the counter dict is right — reading the dict from the scope gives `now` — but
the child token now points to a fresh object, and the dict object an already-bound child scope holds (address 0) still
has the stale count, so that child's next draw repeats a key. -/
theorem dict_update_breaks_child_reference :
    let h : CHeap := ⟨[("dropout", 1)], [("child", 0)], [[("dropout", 1)]]⟩
    let now : CVal := ⟨[("dropout", 2)], [("child", [("dropout", 3)])]⟩
    (restoreHeapUpdate h (now.sub h.read)).read = now ∧
    (restoreHeapUpdate h (now.sub h.read)).obj 0 = [("dropout", 1)] ∧
    (restoreHeap h (now.sub h.read)).obj 0 = [("dropout", 3)] ∧
    alookup "child" (restoreHeap h (now.sub h.read)).kids = some 0 := by
  decide

example : (⟨[("dropout", 1)], [("child", 0)], [[("dropout", 1)]]⟩ : CHeap).WF :=
  ⟨by decide, by decide, by intro ka hka; simp at hka; subst hka; decide⟩

example : Extends ⟨[("dropout", 1)], [("child", 0)], [[("dropout", 1)]]⟩
    ⟨[("dropout", 2)], [("child", [("dropout", 3)]), ("fresh", [("dropout", 1)])]⟩ where
  rn := by decide
  kn := by decide
  cn := by
    intro k c hc
    simp only [alookup] at hc
    split at hc
    · cases hc; decide
    · split at hc
      · cases hc; decide
      · cases hc
  root := by intro s hs; simp only [alookup] at hs ⊢; split <;> simp_all
  kids := by
    intro k a hk
    simp only [alookup] at hk
    split at hk
    · cases hk
      rename_i hkk; subst hkk
      refine ⟨[("dropout", 3)], by decide, ?_⟩
      intro s hs
      by_cases e : "dropout" = s
      · simp [alookup, e]
      · simp [CHeap.obj, alookup, e] at hs
    · cases hk

/-! ## several scopes: `get_module_scopes` / `set_module_scopes`, `_dedup_scopes` / `_dup_scopes` -/

section modscopes
open Flax.ModScopes

/-- **set_get_module_scopes_id.** For every module tree — any declaration order of the dataclass fields, any nesting of
dicts / lists / tuples, unbound modules, Variables, sub-modules shared between several attributes (memoized by id), any
depth — and every replacement `ρ` of outer scopes by inner scopes: handing `set_module_scopes` the scopes that
`get_module_scopes` collected (each replaced by its inner scope) gives every bound sub-module and every Variable the
inner scope **of its own** scope, in the same order, and `assert len(scopes) == idx` holds.  (`ord` = the order in
which both functions visit a module's fields: sorted names in the code, because `attrs` is a dict.) -/
theorem set_get_module_scopes_id (ord : List (String × Node) → List (String × Node)) (m : Node) (ρ : Nat → Nat) :
    setAssign ord m ((getOwners ord m).map (fun o => ρ o.scope)) =
      ((getOwners ord m).map (fun o => (o, some (ρ o.scope))), true) :=
  setAssign_getOwners ord m ρ

/-- flattening a dict visits its entries in sorted key order, whatever the insertion (declaration) order, and loses
or duplicates none -/
theorem dict_flatten_order (l : List (String × Node)) :
    (sortKeys l).Pairwise (fun a b => a.1 ≤ b.1) ∧ (sortKeys l).Perm l :=
  ⟨sortKeys_sorted l, sortKeys_perm l⟩

private theorem aux_leaf_fold : ∀ (l : List (String × Node)) (f : Nat) (g : GSt),
    (∀ kv, kv ∈ l → ∃ i s, kv.2 = Node.mod i (some s) []) →
    ∀ (ids : List (Nat × Nat)), l.map (·.2) = ids.map (fun p => Node.mod p.1 (some p.2) []) →
    (ids.map (·.1)).Nodup → (∀ p, p ∈ ids → p.1 ∉ g.seen) →
    ((l.map (·.2)).foldl (fun st x => getNode sortKeys (f + 1) x st) g).out = g.out ++ ids.map (fun p => Owner.m p.1 p.2) := by
  intro l
  induction l with
  | nil => intro f g _ ids hi _ _; cases ids <;> simp_all
  | cons kv r ih =>
    intro f g hl ids hi hn hs
    cases ids with
    | nil => simp at hi
    | cons p ps =>
      simp only [List.map_cons, List.cons.injEq] at hi
      simp only [List.map_cons, List.nodup_cons] at hn
      simp only [List.map_cons, List.foldl_cons, hi.1]
      have hp : p.1 ∉ g.seen := hs p List.mem_cons_self
      have hstep : getNode sortKeys (f + 1) (Node.mod p.1 (some p.2) []) g =
          { seen := p.1 :: g.seen, out := g.out ++ [Owner.m p.1 p.2] } := by
        simp [getNode, hp, sortKeys]
      rw [hstep]
      have := ih f { seen := p.1 :: g.seen, out := g.out ++ [Owner.m p.1 p.2] }
        (fun kv hkv => hl kv (List.mem_cons_of_mem _ hkv)) ps hi.2 hn.2
        (by
          intro q hq
          simp only [List.mem_cons, not_or]
          refine ⟨?_, hs q (List.mem_cons_of_mem _ hq)⟩
          intro e
          exact hn.1 (List.mem_map.mpr ⟨q, hq, e⟩))
      rw [this]
      simp

/-- **get_module_scopes_order_spec.** For a module whose attributes are (distinct) bound sub-modules: the scopes are
collected in the order of the **sorted attribute names** — not the declaration order — each sub-module before its
parent, the module's own scope last. -/
theorem get_module_scopes_order_spec (id sc : Nat) (fields : List (String × Node)) (ids : List (Nat × Nat))
    (hf : (sortKeys fields).map (·.2) = ids.map (fun p => Node.mod p.1 (some p.2) []))
    (hn : (ids.map (·.1)).Nodup) :
    getScopes sortKeys (Node.mod id (some sc) fields) = ids.map (·.2) ++ [sc] := by
  have hl : ∀ kv, kv ∈ sortKeys fields → ∃ i s, kv.2 = Node.mod i (some s) [] := by
    intro kv hkv
    have : kv.2 ∈ (sortKeys fields).map (·.2) := List.mem_map.mpr ⟨kv, hkv, rfl⟩
    rw [hf] at this
    obtain ⟨p, _, hp⟩ := List.mem_map.mp this
    exact ⟨p.1, p.2, hp.symm⟩
  have hfold := aux_leaf_fold (sortKeys fields) (Node.depth.depthFields fields) ⟨[], []⟩ hl ids hf hn (by intro p _; simp)
  simp only [getScopes, getOwners, Node.depth, Nat.add_comm 1, getNode, List.not_mem_nil, ↓reduceIte, hfold]
  simp [Owner.scope, Function.comp_def]

/-- seeded changes C05_e / C07_f: if `get_module_scopes` visits the fields in declaration order while
`set_module_scopes` consumes in sorted order, a module declaring `scale` before `bias` binds each sub-module to its
sibling's scope (the count assert still passes) -/
theorem decl_order_variant_swaps_siblings :
    let m := Node.mod 0 (some 100) [("scale", Node.mod 1 (some 10) []), ("bias", Node.mod 2 (some 20) [])]
    getScopes id m = [10, 20, 100] ∧ getScopes sortKeys m = [20, 10, 100] ∧
    setAssign sortKeys m (getScopes id m) =
      ([(Owner.m 2 20, some 10), (Owner.m 1 10, some 20), (Owner.m 0 100, some 100)], true) := by
  decide

/-- **dup_dedup_id.** `_dedup_scopes` reduces a scope list (duplicates, a scope together with its descendants, any
order) to roots and `(root, path)` entries, one entry per listed scope in order, and `_dup_scopes` pushes the path
names back onto the root: with the roots mapped to themselves the original list comes back, and with the roots
replaced by inner root scopes `ρ` every listed scope becomes the descendant of `ρ root` with the same relative path. -/
theorem dup_dedup_id (scopes : List ModScopes.Path) (ρ : ModScopes.Path → ModScopes.Path) :
    dupScopes id (dedupScopes scopes).2 = scopes ∧
    dupScopes ρ (dedupScopes scopes).2 = (dedupScopes scopes).2.map (fun rp => ρ rp.1 ++ rp.2) ∧
    (dedupScopes scopes).2.length = scopes.length := by
  have h := dedupLoop_recon scopes scopes.eraseDups []
  refine ⟨?_, rfl, ?_⟩
  · simpa [dupScopes, dedupScopes] using h
  · have := congrArg List.length h
    simpa [dedupScopes] using this

-- a scope listed twice and a parent listed together with its child and grandchild: one root, paths kept
example : dedupScopes [["a", "b"], ["a"], ["a", "b"], ["a", "b", "c"], ["z"]] =
    ([["a"], ["z"]], [(["a"], ["b"]), (["a"], []), (["a"], ["b"]), (["a"], ["b", "c"]), (["z"], [])]) := by decide

-- a shared sub-module (same id under two attributes) is collected once; nested containers are traversed in
-- flattening order
example : getScopes sortKeys (Node.mod 0 (some 9) [("z", Node.mod 1 (some 5) []),
    ("a", Node.dict [("y", Node.mod 1 (some 5) []), ("x", Node.seq [Node.mod 2 (some 7) [], Node.var (some 3)])])]) =
    [7, 3, 5, 9] := by decide

end modscopes

/-! ## non-vacuity: concrete instances of the hypotheses -/

/-- a scope with a mutable counter collection, immutable params, and a dropout stream -/
def exScope : ScopeSt :=
  { vars := [("params", [("w", 3)]), ("stats", [("n", 5)]), ("cache", [("k", 1)])]
    mutable := .names ["stats", "cache"], frozen := []
    rngs := [("dropout", ⟨.seed "dropout", [.s "sub"]⟩)], counters := [("dropout", 0)] }

/-- `n += w * x; draw dropout; return old n * x` -/
def exFn : Fn :=
  { body := .seq (.get "stats" "n") (.seq (.get "params" "w")
      (.seq (.put "stats" "n" (.add (.reg 0) (.mul (.reg 1) (.arg 0)))) (.rng "dropout")))
    ret := [.mul (.reg 0) (.arg 0)] }

example : VarsWF exScope.vars := by
  refine ⟨by decide, ?_⟩
  intro c coll h
  simp [exScope] at h
  rcases h with h | h | h <;> (cases h.2; decide)

example : exScope.FrozenOk := by intro c hc; simp [exScope] at hc

-- every hypothesis of `pack_transparent` holds for this scope and body with filters that lift exactly what the
-- body touches; the plain run succeeds with a non-trivial result, hence so does the lifted one, identically
example : Agree (runFn [] exFn [7] exScope)
    (liftId [.name "stats", .names ["params"]] [.names ["stats", "zzz"]] [.name "dropout"] .tt [] exFn [7] exScope) :=
  pack_transparent _ _ _ _ _ _ _ _
    ⟨by decide, by
      intro c coll h
      simp [exScope] at h
      rcases h with h | h | h <;> (cases h.2; decide)⟩
    (by intro c hc; simp [exScope] at hc) (by decide) (by decide) (by decide)

example : (runFn [] exFn [7] exScope).toOption.map (fun r => (r.1.vals, getVar r.2.vars "stats" "n", r.1.keys)) =
    some ([35], some 26, [.fold (.seed "dropout") [.s "sub", .n 1]]) := by decide

-- a write to the immutable collection fails outside; `nonlifted_write_raises` gives the same error inside
example : runFn [] ⟨.put "params" "w" (.lit 0), []⟩ [] exScope = .error .modifyImmutable := by decide

example : (inFilter exScope.mutable "params" && anyMatch [LFilter.tt] "params" && inFilter .tt "params") = false := by
  decide

-- BranchesTrace is satisfiable: two branches updating the same variable trace with the same structure
example : BranchesTrace .tt .tt [] [⟨.put "stats" "n" (.lit 1), [.lit 0]⟩, ⟨.put "stats" "n" (.lit 2), [.lit 1]⟩] [] exScope := by
  refine ⟨(1, [[("stats", ["n"]), ("cache", ["k"])]]), ?_⟩
  intro b hb
  simp only [List.mem_cons, List.not_mem_nil, or_false] at hb
  rcases hb with rfl | rfl <;>
    simp [runInner, runFn, eval, evalExpr, evalRets, partialPack, ScopeSt.put, inFilter_scopeFn, repack, groupBy,
      exScope, inFilter, anyMatch, frozenNames, scopeFn, keys, shapeOf, putVar, alookup, ainsert,
      Flax.C14.in_intersect, inFilter_unionAll]

-- LoopTraces and the other hypotheses of `while_eq_iterate` hold for a counting loop over the carried collection
example : LoopTraces (.name "stats") .tt [] ⟨.get "stats" "n", [.add (.lit 7) (.mul (.lit (-1)) (.reg 0))]⟩
    ⟨.seq (.get "stats" "n") (.put "stats" "n" (.add (.reg 0) (.lit 1))), [.add (.arg 0) (.reg 0)]⟩ [0] exScope := by
  refine ⟨⟨true, ?_⟩, ⟨([("stats", [("n", 6)])], [5]), ?_, ?_⟩⟩ <;>
    simp [whileCondInner, whileBodyInner, runInner, runFn, eval, evalExpr, evalRets, partialPack, ScopeSt.put, repack,
      groupBy, exScope, inFilter, anyMatch, frozenNames, scopeFn, keys, loopShape, putVar, alookup, ainsert, getVar,
      M.push, wBroadcast, wCarry0, Flax.C14.in_intersect, inFilter_unionAll]

example : ∀ c, c ∈ keys exScope.vars → inFilter (LFilter.name "stats") c = true → inFilter exScope.mutable c = true := by
  decide

-- a changed attribute is a different fingerprint
example : fingerprint .tt ⟨"M", [("k", 2)], default, .ff, [], [], [], none, []⟩ ≠
    fingerprint .tt ⟨"M", [("k", 3)], default, .ff, [], [], [], none, []⟩ :=
  (fingerprint_detects_change .tt _ _).1 (by decide)

end Flax.C05
