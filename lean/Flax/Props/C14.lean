/-
C14 — Filters form a Boolean algebra; grouping by filters is a first-match partition.
Property theorems only (helper lemmas are local and prefixed `aux_`).
-/
import Flax.Model.Filter

namespace Flax.C14
open Flax.Filter Flax.Filter.LFilter

/-! ## Linen: union / intersection / subtraction are or / and / and-not -/

/-- joint statement, by strong induction on the number of leading DenyLists of both operands -/
private theorem aux_algebra (n : Nat) : ∀ (a b : LFilter), depth a + depth b ≤ n → ∀ c : String,
    (inFilter (union a b) c = (inFilter a c || inFilter b c)) ∧
    (inFilter (subtract a b) c = (inFilter a c && !(inFilter b c))) ∧
    (inFilter (intersect a b) c = (inFilter a c && inFilter b c)) := by
  induction n with
  | zero =>
    intro a b h c
    have ha : depth a = 0 := by omega
    have hb : depth b = 0 := by omega
    cases a <;> cases b <;> simp_all [depth] <;>
      (refine ⟨?_, ?_, ?_⟩ <;> (first | (unfold union; skip) | (unfold subtract; skip) | (unfold intersect; skip)) <;>
        simp [inFilter, toSetD, toSet, List.mem_filter] <;> grind)
  | succ n ih =>
    intro a b h c
    cases a with
    | deny da =>
      cases b with
      | deny db =>
        have h1 := ih da db (by simp only [depth] at h; omega) c
        have h2 := ih db da (by simp only [depth] at h; omega) c
        refine ⟨?_, ?_, ?_⟩
        · unfold union; simp [inFilter, h1.2.2]
        · unfold subtract; simp [inFilter, h2.2.1]; grind
        · unfold intersect; simp [inFilter, h2.1]; grind
      | tt => refine ⟨?_, ?_, ?_⟩ <;> (first | (unfold union; skip) | (unfold subtract; skip) | (unfold intersect; skip)) <;> simp [inFilter]
      | ff =>
        have h1 := ih da ff (by simp only [depth] at h ⊢; omega) c
        have h2 := ih ff da (by simp only [depth] at h ⊢; omega) c
        refine ⟨?_, ?_, ?_⟩
        · unfold union; simp [inFilter, h1.2.1]
        · unfold subtract; simp [inFilter, h1.1]
        · unfold intersect; simp [inFilter, h2.2.1]
      | name s =>
        have h1 := ih da (name s) (by simp only [depth] at h ⊢; omega) c
        have h2 := ih (name s) da (by simp only [depth] at h ⊢; omega) c
        refine ⟨?_, ?_, ?_⟩
        · unfold union; simp [inFilter, h1.2.1]
        · unfold subtract; simp [inFilter, h1.1]
        · unfold intersect; simp [inFilter, h2.2.1]; grind
      | names xs =>
        have h1 := ih da (names xs) (by simp only [depth] at h ⊢; omega) c
        have h2 := ih (names xs) da (by simp only [depth] at h ⊢; omega) c
        refine ⟨?_, ?_, ?_⟩
        · unfold union; simp [inFilter, h1.2.1]
        · unfold subtract; simp [inFilter, h1.1]
        · unfold intersect; simp [inFilter, h2.2.1]; grind
    | tt =>
      refine ⟨?_, ?_, ?_⟩
      · unfold union; simp [inFilter]
      · cases b <;> (unfold subtract; simp [inFilter])
      · cases b <;> (unfold intersect; simp [inFilter])
    | ff =>
      cases b with
      | deny db =>
        have h1 := ih db ff (by simp only [depth] at h ⊢; omega) c
        have h2 := ih ff db (by simp only [depth] at h ⊢; omega) c
        refine ⟨?_, ?_, ?_⟩
        · unfold union; simp [inFilter, h1.2.1]
        · unfold subtract; simp [inFilter, h2.2.2]
        · unfold intersect; simp [inFilter, h2.2.1]
      | _ => exact ih _ _ (by simp [depth]) c
    | name s =>
      cases b with
      | deny db =>
        have h1 := ih db (name s) (by simp only [depth] at h ⊢; omega) c
        have h2 := ih (name s) db (by simp only [depth] at h ⊢; omega) c
        refine ⟨?_, ?_, ?_⟩
        · unfold union; simp [inFilter, h1.2.1]; grind
        · unfold subtract; simp [inFilter, h2.2.2]
        · unfold intersect; simp [inFilter, h2.2.1]
      | _ => exact ih _ _ (by simp [depth]) c
    | names xs =>
      cases b with
      | deny db =>
        have h1 := ih db (names xs) (by simp only [depth] at h ⊢; omega) c
        have h2 := ih (names xs) db (by simp only [depth] at h ⊢; omega) c
        refine ⟨?_, ?_, ?_⟩
        · unfold union; simp [inFilter, h1.2.1]; grind
        · unfold subtract; simp [inFilter, h2.2.2]
        · unfold intersect; simp [inFilter, h2.2.1]
      | _ => exact ih _ _ (by simp [depth]) c

/-- `union_filters` selects exactly `a or b`, for all filters of any nesting and every name. -/
theorem in_union (a b : LFilter) (c : String) :
    inFilter (union a b) c = (inFilter a c || inFilter b c) :=
  (aux_algebra _ a b (Nat.le_refl _) c).1

/-- `subtract_filters` selects exactly `a and not b`. -/
theorem in_subtract (a b : LFilter) (c : String) :
    inFilter (subtract a b) c = (inFilter a c && !(inFilter b c)) :=
  (aux_algebra _ a b (Nat.le_refl _) c).2.1

/-- `intersect_filters` selects exactly `a and b`. -/
theorem in_intersect (a b : LFilter) (c : String) :
    inFilter (intersect a b) c = (inFilter a c && inFilter b c) :=
  (aux_algebra _ a b (Nat.le_refl _) c).2.2


/-! ## Linen: emptiness -/

/-- does the filter mention the collection name `c` anywhere -/
def mentions : LFilter → String → Bool
  | tt, _ => false
  | ff, _ => false
  | name s, c => decide (c = s)
  | names xs, c => decide (c ∈ xs)
  | deny f, c => mentions f c

private theorem aux_len_le_sum (xs : List String) : ∀ x ∈ xs, x.length ≤ (xs.map String.length).sum := by
  induction xs with
  | nil => intro x hx; cases hx
  | cons y ys ih =>
    intro x hx
    simp only [List.mem_cons] at hx
    simp only [List.map_cons, List.sum_cons]
    rcases hx with h | h
    · subst h; omega
    · have := ih x h; omega

/-- a collection name outside any finite list of names: there are infinitely many strings -/
def fresh (xs : List String) : String :=
  String.ofList (List.replicate ((xs.map String.length).sum + 1) 'a')

theorem fresh_not_mem (xs : List String) : fresh xs ∉ xs := by
  intro h
  have h1 := aux_len_le_sum xs _ h
  simp [fresh] at h1
  omega

/-- the condition `is_filter_empty` evaluates on the inside of a `DenyList` -/
private def matchesAll : LFilter → Bool
  | deny e => isFilterEmpty e
  | f => inFilter f stub

private theorem aux_isEmpty_deny (f : LFilter) : isFilterEmpty (deny f) = matchesAll f := by
  cases f <;> simp [isFilterEmpty, matchesAll]

private theorem aux_empty (f : LFilter) (h : mentions f stub = false) :
    (isFilterEmpty f = true ↔ ∀ c, inFilter f c = false) ∧
    (matchesAll f = true ↔ ∀ c, inFilter f c = true) := by
  induction f with
  | tt => simp [isFilterEmpty, matchesAll, inFilter]
  | ff => simp [isFilterEmpty, matchesAll, inFilter]
  | name s =>
    simp only [mentions, decide_eq_false_iff_not] at h
    refine ⟨?_, ?_⟩
    · simp only [isFilterEmpty, inFilter, Bool.false_eq_true, false_iff]
      intro hc; simpa using hc s
    · simp only [matchesAll, inFilter, decide_eq_true_eq]
      constructor
      · intro hs; exact absurd hs h
      · intro hc; exact hc stub
  | names xs =>
    simp only [mentions, decide_eq_false_iff_not] at h
    refine ⟨?_, ?_⟩
    · simp only [isFilterEmpty, inFilter, decide_eq_false_iff_not]
      constructor
      · intro he c; have : xs = [] := by simpa using he
        simp [this]
      · intro hc
        cases xs with
        | nil => rfl
        | cons x xs => exact absurd (List.mem_cons_self) (hc x)
    · simp only [matchesAll, inFilter, decide_eq_true_eq]
      constructor
      · intro hs; exact absurd hs h
      · intro hc; exact absurd (hc (fresh xs)) (fresh_not_mem xs)
  | deny e ih =>
    have ih' := ih (by simpa [mentions] using h)
    refine ⟨?_, ?_⟩
    · rw [aux_isEmpty_deny, ih'.2]; simp [inFilter]
    · simp only [matchesAll, ih'.1, inFilter, Bool.not_eq_eq_eq_not, Bool.not_true]

/-- **A filter is reported empty exactly when no collection name can match it** — for every filter of
every nesting depth that does not mention the reserved probe name. This is about the *repaired*
`is_filter_empty` (fix commit for finding F1). -/
theorem empty_iff (f : LFilter) (h : mentions f stub = false) :
    isFilterEmpty f = true ↔ ∀ c, inFilter f c = false :=
  (aux_empty f h).1

/-- the definition shipped at the pinned commit violates `empty_iff`: `DenyList(DenyList('a'))`
is reported empty although it matches `'a'` (finding F1; `subtract_filters(True, DenyList('a'))`
produces exactly this filter). -/
theorem orig_empty_iff_false :
    isFilterEmptyOrig (deny (deny (name "a"))) = true ∧
    inFilter (deny (deny (name "a"))) "a" = true ∧
    subtract tt (deny (name "a")) = deny (deny (name "a")) := by
  refine ⟨by decide, by decide, ?_⟩
  unfold subtract; rfl

/-- what *was* true of the shipped definition: correct up to one level of `DenyList`. -/
theorem orig_empty_iff_partial (f : LFilter) (h : mentions f stub = false) (hd : depth f ≤ 1) :
    isFilterEmptyOrig f = true ↔ ∀ c, inFilter f c = false := by
  have key : isFilterEmptyOrig f = isFilterEmpty f := by
    cases f with
    | deny e => cases e <;> simp_all [isFilterEmptyOrig, isFilterEmpty, depth]
    | _ => simp [isFilterEmptyOrig, isFilterEmpty]
  rw [key]; exact empty_iff f h

/-- the guard of `empty_iff` is real: a filter that mentions the probe name is mis-reported -/
theorem stub_guard_needed :
    isFilterEmpty (deny (name stub)) = true ∧ inFilter (deny (name stub)) "params" = true := by
  decide

example : mentions (deny (deny (names ["a", "b"]))) stub = false ∧
    isFilterEmpty (deny (deny (names ["a", "b"]))) = false := by decide

/-! ## Linen: grouping is a first-match partition -/

/-- index of the first filter matching `c`, if any -/
def firstIdx : List LFilter → String → Option Nat
  | [], _ => none
  | f :: fs, c => if inFilter f c then some 0 else (firstIdx fs c).map (· + 1)

/-- every collection lands in the group of the first filter that matches it and in no other;
unmatched collections land in none. Stated for every key list and every filter list. -/
theorem group_first_match (fs : List LFilter) : ∀ (cols : List String) (i : Nat) (c : String),
    c ∈ (groupCollections cols fs).getD i [] ↔ (c ∈ cols ∧ firstIdx fs c = some i) := by
  induction fs with
  | nil => intro cols i c; simp [groupCollections, firstIdx]
  | cons f fs ih =>
    intro cols i c
    cases i with
    | zero =>
      simp only [groupCollections, groupStep, List.getD_cons_zero, List.mem_filter, firstIdx]
      by_cases hf : inFilter f c = true
      · simp [hf]
      · simp [hf]
    | succ i =>
      simp only [groupCollections, groupStep, List.getD_cons_succ, firstIdx]
      rw [ih]
      by_cases hf : inFilter f c = true
      · simp [hf, List.mem_filter]
      · simp [hf, List.mem_filter]

/-- one output group per filter -/
theorem group_length (fs : List LFilter) : ∀ cols, (groupCollections cols fs).length = fs.length := by
  induction fs with
  | nil => intro cols; rfl
  | cons f fs ih => intro cols; simp [groupCollections, ih]

/-- groups keep the multiplicity and order of `xs.keys()`: each group is a sublist of the keys, so
with distinct keys nothing is duplicated inside a group either -/
theorem group_sublist (fs : List LFilter) : ∀ (cols : List String) (i : Nat),
    ((groupCollections cols fs).getD i []).Sublist cols := by
  induction fs with
  | nil => intro cols i; simp [groupCollections]
  | cons f fs ih =>
    intro cols i
    cases i with
    | zero => simp [groupCollections, groupStep]
    | succ i =>
      simp only [groupCollections, List.getD_cons_succ]
      exact (ih _ i).trans (by simp [groupStep])

/-- two different groups are disjoint -/
theorem group_disjoint (fs : List LFilter) (cols : List String) (i j : Nat) (hij : i ≠ j) (c : String) :
    ¬ (c ∈ (groupCollections cols fs).getD i [] ∧ c ∈ (groupCollections cols fs).getD j []) := by
  rw [group_first_match, group_first_match]
  rintro ⟨⟨_, h1⟩, ⟨_, h2⟩⟩
  rw [h1] at h2
  exact hij (Option.some.inj h2)

example : groupCollections ["params", "cache", "stats"] [name "cache", deny (name "params"), tt]
    = [["cache"], ["stats"], ["params"]] := by decide

/-! ## NNX: filters denote predicate combinations; split is a first-match partition -/

theorem nnx_any (fs : List NFilter) (p : Path) (x : VarInfo) :
    denote (.any fs) p x = fs.any (fun f => denote f p x) := by
  simp only [denote]
  induction fs with
  | nil => simp [denoteAny]
  | cons f fs ih => simp [denoteAny, ih]

theorem nnx_all (fs : List NFilter) (p : Path) (x : VarInfo) :
    denote (.allOf fs) p x = fs.all (fun f => denote f p x) := by
  simp only [denote]
  induction fs with
  | nil => simp [denoteAll]
  | cons f fs ih => simp [denoteAll, ih]

theorem nnx_not (f : NFilter) (p : Path) (x : VarInfo) : denote (.not f) p x = !(denote f p x) := by
  simp [denote]

theorem nnx_top_bot (p : Path) (x : VarInfo) :
    denote .everything p x = true ∧ denote .nothing p x = false := by simp [denote]

theorem firstMatch_le (preds : List NFilter) (p : Path) (x : VarInfo) :
    firstMatch preds p x ≤ preds.length := by
  induction preds with
  | nil => simp [firstMatch]
  | cons f fs ih => simp only [firstMatch]; split <;> simp <;> omega

/-- the index chosen by `_split_state` is the first predicate that holds: it holds there (when the
index is a real predicate) and no earlier predicate holds -/
theorem firstMatch_spec (preds : List NFilter) (p : Path) (x : VarInfo) :
    (∀ j, j < firstMatch preds p x → ∀ f, preds[j]? = some f → denote f p x = false) ∧
    (∀ f, preds[firstMatch preds p x]? = some f → denote f p x = true) := by
  induction preds with
  | nil => simp [firstMatch]
  | cons g gs ih =>
    by_cases hg : denote g p x = true
    · simp [firstMatch, hg]
    · simp only [firstMatch, hg, Bool.false_eq_true, ↓reduceIte]
      refine ⟨?_, ?_⟩
      · intro j hj f hf
        cases j with
        | zero => simp at hf; subst hf; simpa using hg
        | succ j => exact ih.1 j (by omega) f (by simpa using hf)
      · intro f hf; exact ih.2 f (by simpa using hf)

/-- **first-match partition, nothing lost, nothing duplicated**: every item of the flat state occurs in
exactly the bucket of its first matching predicate (bucket `n` collects the unmatched), and in no other -/
theorem nnx_split_partition (preds : List NFilter) (items : List (Path × VarInfo)) (i : Nat)
    (it : Path × VarInfo) :
    it ∈ (splitStates preds items).getD i [] ↔ (it ∈ items ∧ firstMatch preds it.1 it.2 = i) := by
  have hle := firstMatch_le preds it.1 it.2
  simp only [splitStates]
  by_cases hi : i < preds.length + 1
  · rw [List.getD_eq_getElem?_getD, List.getElem?_map, List.getElem?_range hi]
    simp [List.mem_filter]
  · rw [List.getD_eq_getElem?_getD, List.getElem?_eq_none (by simp; omega)]
    simp; intro _; omega

private theorem aux_sum_add (l : List Nat) (f g : Nat → Nat) :
    (l.map (fun i => f i + g i)).sum = (l.map f).sum + (l.map g).sum := by
  induction l with
  | nil => simp
  | cons a l ih => simp [ih]; omega

private theorem aux_sum_indicator (v : Nat) (n : Nat) :
    ((List.range n).map (fun i => if v = i then 1 else 0)).sum = if v < n then 1 else 0 := by
  induction n with
  | zero => simp
  | succ n ih =>
    simp only [List.range_succ, List.map_append, List.sum_append, ih, List.map_cons, List.map_nil,
      List.sum_cons, List.sum_nil]
    by_cases h1 : v < n
    · have : v ≠ n := by omega
      simp [h1, this]; omega
    · by_cases h2 : v = n
      · simp [h2]
      · have : ¬ v < n + 1 := by omega
        simp [h1, h2, this]

private theorem aux_bucket_count {α : Type} (k : α → Nat) (n : Nat) (items : List α)
    (h : ∀ a ∈ items, k a < n) :
    ((List.range n).map (fun i => (items.filter (fun a => k a == i)).length)).sum = items.length := by
  induction items with
  | nil =>
    have : ∀ m, ((List.range m).map (fun _ => 0)).sum = 0 := by
      intro m; induction m with
      | zero => simp
      | succ m ihm => simp [List.range_succ, ihm]
    simpa using this n
  | cons a its ih =>
    have ha : k a < n := h a (by simp)
    have hfun : (fun i => ((a :: its).filter (fun a => k a == i)).length)
        = (fun i => (its.filter (fun a => k a == i)).length + (if k a = i then 1 else 0)) := by
      funext i
      simp only [List.filter_cons, beq_iff_eq]
      split <;> simp
    rw [hfun, aux_sum_add, aux_sum_indicator, ih (fun b hb => h b (by simp [hb]))]
    simp [ha]

/-- multiplicities are preserved: the buckets' sizes add up to the number of items -/
theorem nnx_split_count (preds : List NFilter) (items : List (Path × VarInfo)) :
    ((splitStates preds items).map List.length).sum = items.length := by
  simp only [splitStates, List.map_map]
  exact aux_bucket_count (fun it => firstMatch preds it.1 it.2) (preds.length + 1) items
    (fun it _ => by have := firstMatch_le preds it.1 it.2; omega)

/-- `...`/`True` may only be followed by `...`/`True` -/
theorem ellipsis_must_be_last (es : List Bool) :
    ellipsisOk es = true ↔ ∀ i j, i < j → j < es.length → es[i]? = some true → es[j]? = some true := by
  induction es with
  | nil => simp [ellipsisOk]
  | cons e rest ih =>
    cases rest with
    | nil =>
      simp only [ellipsisOk, true_iff]
      intro i j hij hj; simp at hj; omega
    | cons e2 rest2 =>
      simp only [ellipsisOk]
      cases e with
      | true =>
        simp only [↓reduceIte, List.all_eq_true, id]
        constructor
        · intro hall i j hij hj _
          cases j with
          | zero => omega
          | succ j =>
            simp only [List.length_cons] at hj
            have hj' : j < (e2 :: rest2).length := by simp; omega
            have := hall ((e2 :: rest2)[j]) (List.getElem_mem hj')
            simp [List.getElem?_eq_getElem hj', this]
        · intro h b hb
          obtain ⟨j, hj, rfl⟩ := List.getElem_of_mem hb
          have := h 0 (j+1) (by omega) (by simp at hj ⊢; omega) (by simp)
          simpa [List.getElem?_eq_getElem hj] using this
      | false =>
        simp only [Bool.false_eq_true, ↓reduceIte]
        rw [ih]
        constructor
        · intro h i j hij hj hi
          cases i with
          | zero => simp at hi
          | succ i =>
            cases j with
            | zero => omega
            | succ j => exact h i j (by omega) (by simp at hj ⊢; omega) (by simpa using hi) |> (by simpa using ·)
        · intro h i j hij hj hi
          have := h (i+1) (j+1) (by omega) (by simp at hj ⊢; omega) (by simpa using hi)
          simpa using this

example : splitStates [.ofType "Param", .any [.withTag "x", .pathContains "bias"]]
    [(["a", "kernel"], ⟨["Param", "Variable"], none⟩), (["a", "bias"], ⟨["BatchStat", "Variable"], none⟩),
     (["b"], ⟨["Cache"], some "y"⟩)]
    = [[(["a", "kernel"], ⟨["Param", "Variable"], none⟩)],
       [(["a", "bias"], ⟨["BatchStat", "Variable"], none⟩)],
       [(["b"], ⟨["Cache"], some "y"⟩)]] := by decide

end Flax.C14
