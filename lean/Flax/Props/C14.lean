/-
C14 — Filters form a Boolean algebra; grouping by filters is a first-match partition.
Property theorems only (helper lemmas are local and prefixed `aux_`).
-/
import Flax.Model.Filter

namespace Flax.C14
open Flax.Filter Flax.Filter.LFilter

/-! ## Linen: union / intersection / subtraction are or / and / and-not -/

/-- joint statement, by strong induction on the number of leading DenyLists of both operands -/
private theorem aux_algebra (n : Nat) : ∀ (a b : LFilter), depth a + depth b ≤ n → ∀ c : String,
    (inFilter (union a b) c = (inFilter a c || inFilter b c)) ∧
    (inFilter (subtract a b) c = (inFilter a c && !(inFilter b c))) ∧
    (inFilter (intersect a b) c = (inFilter a c && inFilter b c)) := by
  induction n with
  | zero =>
    intro a b h c
    have ha : depth a = 0 := by omega
    have hb : depth b = 0 := by omega
    cases a <;> cases b <;> simp_all [depth] <;>
      (refine ⟨?_, ?_, ?_⟩ <;> (first | (unfold union; skip) | (unfold subtract; skip) | (unfold intersect; skip)) <;>
        simp [inFilter, toSetD, toSet, List.mem_filter] <;> grind)
  | succ n ih =>
    intro a b h c
    cases a with
    | deny da =>
      cases b with
      | deny db =>
        have h1 := ih da db (by simp only [depth] at h; omega) c
        have h2 := ih db da (by simp only [depth] at h; omega) c
        refine ⟨?_, ?_, ?_⟩
        · unfold union; simp [inFilter, h1.2.2]
        · unfold subtract; simp [inFilter, h2.2.1]; grind
        · unfold intersect; simp [inFilter, h2.1]; grind
      | tt => refine ⟨?_, ?_, ?_⟩ <;> (first | (unfold union; skip) | (unfold subtract; skip) | (unfold intersect; skip)) <;> simp [inFilter]
      | ff =>
        have h1 := ih da ff (by simp only [depth] at h ⊢; omega) c
        have h2 := ih ff da (by simp only [depth] at h ⊢; omega) c
        refine ⟨?_, ?_, ?_⟩
        · unfold union; simp [inFilter, h1.2.1]
        · unfold subtract; simp [inFilter, h1.1]
        · unfold intersect; simp [inFilter, h2.2.1]
      | name s =>
        have h1 := ih da (name s) (by simp only [depth] at h ⊢; omega) c
        have h2 := ih (name s) da (by simp only [depth] at h ⊢; omega) c
        refine ⟨?_, ?_, ?_⟩
        · unfold union; simp [inFilter, h1.2.1]
        · unfold subtract; simp [inFilter, h1.1]
        · unfold intersect; simp [inFilter, h2.2.1]; grind
      | names xs =>
        have h1 := ih da (names xs) (by simp only [depth] at h ⊢; omega) c
        have h2 := ih (names xs) da (by simp only [depth] at h ⊢; omega) c
        refine ⟨?_, ?_, ?_⟩
        · unfold union; simp [inFilter, h1.2.1]
        · unfold subtract; simp [inFilter, h1.1]
        · unfold intersect; simp [inFilter, h2.2.1]; grind
    | tt =>
      refine ⟨?_, ?_, ?_⟩
      · unfold union; simp [inFilter]
      · cases b <;> (unfold subtract; simp [inFilter])
      · cases b <;> (unfold intersect; simp [inFilter])
    | ff =>
      cases b with
      | deny db =>
        have h1 := ih db ff (by simp only [depth] at h ⊢; omega) c
        have h2 := ih ff db (by simp only [depth] at h ⊢; omega) c
        refine ⟨?_, ?_, ?_⟩
        · unfold union; simp [inFilter, h1.2.1]
        · unfold subtract; simp [inFilter, h2.2.2]
        · unfold intersect; simp [inFilter, h2.2.1]
      | _ => exact ih _ _ (by simp [depth]) c
    | name s =>
      cases b with
      | deny db =>
        have h1 := ih db (name s) (by simp only [depth] at h ⊢; omega) c
        have h2 := ih (name s) db (by simp only [depth] at h ⊢; omega) c
        refine ⟨?_, ?_, ?_⟩
        · unfold union; simp [inFilter, h1.2.1]; grind
        · unfold subtract; simp [inFilter, h2.2.2]
        · unfold intersect; simp [inFilter, h2.2.1]
      | _ => exact ih _ _ (by simp [depth]) c
    | names xs =>
      cases b with
      | deny db =>
        have h1 := ih db (names xs) (by simp only [depth] at h ⊢; omega) c
        have h2 := ih (names xs) db (by simp only [depth] at h ⊢; omega) c
        refine ⟨?_, ?_, ?_⟩
        · unfold union; simp [inFilter, h1.2.1]; grind
        · unfold subtract; simp [inFilter, h2.2.2]
        · unfold intersect; simp [inFilter, h2.2.1]
      | _ => exact ih _ _ (by simp [depth]) c

/-- `union_filters` selects exactly `a or b`, for all filters of any nesting and every name. -/
theorem in_union (a b : LFilter) (c : String) :
    inFilter (union a b) c = (inFilter a c || inFilter b c) :=
  (aux_algebra _ a b (Nat.le_refl _) c).1

/-- `subtract_filters` selects exactly `a and not b`. -/
theorem in_subtract (a b : LFilter) (c : String) :
    inFilter (subtract a b) c = (inFilter a c && !(inFilter b c)) :=
  (aux_algebra _ a b (Nat.le_refl _) c).2.1

/-- `intersect_filters` selects exactly `a and b`. -/
theorem in_intersect (a b : LFilter) (c : String) :
    inFilter (intersect a b) c = (inFilter a c && inFilter b c) :=
  (aux_algebra _ a b (Nat.le_refl _) c).2.2


/-! ## Linen: emptiness -/

/-- does the filter mention the collection name `c` anywhere -/
def mentions : LFilter → String → Bool
  | tt, _ => false
  | ff, _ => false
  | name s, c => decide (c = s)
  | names xs, c => decide (c ∈ xs)
  | deny f, c => mentions f c

private theorem aux_len_le_sum (xs : List String) : ∀ x ∈ xs, x.length ≤ (xs.map String.length).sum := by
  induction xs with
  | nil => intro x hx; cases hx
  | cons y ys ih =>
    intro x hx
    simp only [List.mem_cons] at hx
    simp only [List.map_cons, List.sum_cons]
    rcases hx with h | h
    · subst h; omega
    · have := ih x h; omega

/-- a collection name outside any finite list of names: there are infinitely many strings -/
def fresh (xs : List String) : String :=
  String.ofList (List.replicate ((xs.map String.length).sum + 1) 'a')

theorem fresh_not_mem (xs : List String) : fresh xs ∉ xs := by
  intro h
  have h1 := aux_len_le_sum xs _ h
  simp [fresh] at h1
  omega

/-- the condition `is_filter_empty` evaluates on the inside of a `DenyList` -/
private def matchesAll : LFilter → Bool
  | deny e => isFilterEmpty e
  | f => inFilter f stub

private theorem aux_isEmpty_deny (f : LFilter) : isFilterEmpty (deny f) = matchesAll f := by
  cases f <;> simp [isFilterEmpty, matchesAll]

private theorem aux_empty (f : LFilter) (h : mentions f stub = false) :
    (isFilterEmpty f = true ↔ ∀ c, inFilter f c = false) ∧
    (matchesAll f = true ↔ ∀ c, inFilter f c = true) := by
  induction f with
  | tt => simp [isFilterEmpty, matchesAll, inFilter]
  | ff => simp [isFilterEmpty, matchesAll, inFilter]
  | name s =>
    simp only [mentions, decide_eq_false_iff_not] at h
    refine ⟨?_, ?_⟩
    · simp only [isFilterEmpty, inFilter, Bool.false_eq_true, false_iff]
      intro hc; simpa using hc s
    · simp only [matchesAll, inFilter, decide_eq_true_eq]
      constructor
      · intro hs; exact absurd hs h
      · intro hc; exact hc stub
  | names xs =>
    simp only [mentions, decide_eq_false_iff_not] at h
    refine ⟨?_, ?_⟩
    · simp only [isFilterEmpty, inFilter, decide_eq_false_iff_not]
      constructor
      · intro he c; have : xs = [] := by simpa using he
        simp [this]
      · intro hc
        cases xs with
        | nil => rfl
        | cons x xs => exact absurd (List.mem_cons_self) (hc x)
    · simp only [matchesAll, inFilter, decide_eq_true_eq]
      constructor
      · intro hs; exact absurd hs h
      · intro hc; exact absurd (hc (fresh xs)) (fresh_not_mem xs)
  | deny e ih =>
    have ih' := ih (by simpa [mentions] using h)
    refine ⟨?_, ?_⟩
    · rw [aux_isEmpty_deny, ih'.2]; simp [inFilter]
    · simp only [matchesAll, ih'.1, inFilter, Bool.not_eq_eq_eq_not, Bool.not_true]

/-- **A filter is reported empty exactly when no collection name can match it** — for every filter of
every nesting depth that does not mention the reserved probe name. This is about the *repaired*
`is_filter_empty` (fix commit for finding F1). -/
theorem empty_iff (f : LFilter) (h : mentions f stub = false) :
    isFilterEmpty f = true ↔ ∀ c, inFilter f c = false :=
  (aux_empty f h).1

/-- the definition shipped at the pinned commit violates `empty_iff`: `DenyList(DenyList('a'))`
is reported empty although it matches `'a'` (finding F1; `subtract_filters(True, DenyList('a'))`
produces exactly this filter). -/
theorem orig_empty_iff_false :
    isFilterEmptyOrig (deny (deny (name "a"))) = true ∧
    inFilter (deny (deny (name "a"))) "a" = true ∧
    subtract tt (deny (name "a")) = deny (deny (name "a")) := by
  refine ⟨by decide, by decide, ?_⟩
  unfold subtract; rfl

/-- what *was* true of the shipped definition: correct up to one level of `DenyList`. -/
theorem orig_empty_iff_partial (f : LFilter) (h : mentions f stub = false) (hd : depth f ≤ 1) :
    isFilterEmptyOrig f = true ↔ ∀ c, inFilter f c = false := by
  have key : isFilterEmptyOrig f = isFilterEmpty f := by
    cases f with
    | deny e => cases e <;> simp_all [isFilterEmptyOrig, isFilterEmpty, depth]
    | _ => simp [isFilterEmptyOrig, isFilterEmpty]
  rw [key]; exact empty_iff f h

/-- the guard of `empty_iff` is real: a filter that mentions the probe name is mis-reported -/
theorem stub_guard_needed :
    isFilterEmpty (deny (name stub)) = true ∧ inFilter (deny (name stub)) "params" = true := by
  decide

example : mentions (deny (deny (names ["a", "b"]))) stub = false ∧
    isFilterEmpty (deny (deny (names ["a", "b"]))) = false := by decide

/-! ## Linen: grouping is a first-match partition -/

/-- index of the first filter matching `c`, if any -/
def firstIdx : List LFilter → String → Option Nat
  | [], _ => none
  | f :: fs, c => if inFilter f c then some 0 else (firstIdx fs c).map (· + 1)

/-- every collection lands in the group of the first filter that matches it and in no other;
unmatched collections land in none. Stated for every key list and every filter list. -/
theorem group_first_match (fs : List LFilter) : ∀ (cols : List String) (i : Nat) (c : String),
    c ∈ (groupCollections cols fs).getD i [] ↔ (c ∈ cols ∧ firstIdx fs c = some i) := by
  induction fs with
  | nil => intro cols i c; simp [groupCollections, firstIdx]
  | cons f fs ih =>
    intro cols i c
    cases i with
    | zero =>
      simp only [groupCollections, groupStep, List.getD_cons_zero, List.mem_filter, firstIdx]
      by_cases hf : inFilter f c = true
      · simp [hf]
      · simp [hf]
    | succ i =>
      simp only [groupCollections, groupStep, List.getD_cons_succ, firstIdx]
      rw [ih]
      by_cases hf : inFilter f c = true
      · simp [hf, List.mem_filter]
      · simp [hf, List.mem_filter]

/-- one output group per filter -/
theorem group_length (fs : List LFilter) : ∀ cols, (groupCollections cols fs).length = fs.length := by
  induction fs with
  | nil => intro cols; rfl
  | cons f fs ih => intro cols; simp [groupCollections, ih]

/-- groups keep the multiplicity and order of `xs.keys()`: each group is a sublist of the keys, so
with distinct keys nothing is duplicated inside a group either -/
theorem group_sublist (fs : List LFilter) : ∀ (cols : List String) (i : Nat),
    ((groupCollections cols fs).getD i []).Sublist cols := by
  induction fs with
  | nil => intro cols i; simp [groupCollections]
  | cons f fs ih =>
    intro cols i
    cases i with
    | zero => simp [groupCollections, groupStep]
    | succ i =>
      simp only [groupCollections, List.getD_cons_succ]
      exact (ih _ i).trans (by simp [groupStep])

/-- two different groups are disjoint -/
theorem group_disjoint (fs : List LFilter) (cols : List String) (i j : Nat) (hij : i ≠ j) (c : String) :
    ¬ (c ∈ (groupCollections cols fs).getD i [] ∧ c ∈ (groupCollections cols fs).getD j []) := by
  rw [group_first_match, group_first_match]
  rintro ⟨⟨_, h1⟩, ⟨_, h2⟩⟩
  rw [h1] at h2
  exact hij (Option.some.inj h2)

example : groupCollections ["params", "cache", "stats"] [name "cache", deny (name "params"), tt]
    = [["cache"], ["stats"], ["params"]] := by decide

/-! ## NNX: filters denote predicate combinations; split is a first-match partition -/

theorem nnx_any (fs : List NFilter) (p : Path) (x : VarInfo) :
    denote (.any fs) p x = fs.any (fun f => denote f p x) := by
  simp only [denote]
  induction fs with
  | nil => simp [denoteAny]
  | cons f fs ih => simp [denoteAny, ih]

theorem nnx_all (fs : List NFilter) (p : Path) (x : VarInfo) :
    denote (.allOf fs) p x = fs.all (fun f => denote f p x) := by
  simp only [denote]
  induction fs with
  | nil => simp [denoteAll]
  | cons f fs ih => simp [denoteAll, ih]

theorem nnx_not (f : NFilter) (p : Path) (x : VarInfo) : denote (.not f) p x = !(denote f p x) := by
  simp [denote]

theorem nnx_top_bot (p : Path) (x : VarInfo) :
    denote .everything p x = true ∧ denote .nothing p x = false := by simp [denote]

theorem firstMatch_le (preds : List NFilter) (p : Path) (x : VarInfo) :
    firstMatch preds p x ≤ preds.length := by
  induction preds with
  | nil => simp [firstMatch]
  | cons f fs ih => simp only [firstMatch]; split <;> simp <;> omega

/-- the index chosen by `_split_state` is the first predicate that holds: it holds there (when the
index is a real predicate) and no earlier predicate holds -/
theorem firstMatch_spec (preds : List NFilter) (p : Path) (x : VarInfo) :
    (∀ j, j < firstMatch preds p x → ∀ f, preds[j]? = some f → denote f p x = false) ∧
    (∀ f, preds[firstMatch preds p x]? = some f → denote f p x = true) := by
  induction preds with
  | nil => simp [firstMatch]
  | cons g gs ih =>
    by_cases hg : denote g p x = true
    · simp [firstMatch, hg]
    · simp only [firstMatch, hg, Bool.false_eq_true, ↓reduceIte]
      refine ⟨?_, ?_⟩
      · intro j hj f hf
        cases j with
        | zero => simp at hf; subst hf; simpa using hg
        | succ j => exact ih.1 j (by omega) f (by simpa using hf)
      · intro f hf; exact ih.2 f (by simpa using hf)

/-- **first-match partition, nothing lost, nothing duplicated**: every item of the flat state occurs in
exactly the bucket of its first matching predicate (bucket `n` collects the unmatched), and in no other -/
theorem nnx_split_partition (preds : List NFilter) (items : List (Path × VarInfo)) (i : Nat)
    (it : Path × VarInfo) :
    it ∈ (splitStates preds items).getD i [] ↔ (it ∈ items ∧ firstMatch preds it.1 it.2 = i) := by
  have hle := firstMatch_le preds it.1 it.2
  simp only [splitStates]
  by_cases hi : i < preds.length + 1
  · rw [List.getD_eq_getElem?_getD, List.getElem?_map, List.getElem?_range hi]
    simp [List.mem_filter]
  · rw [List.getD_eq_getElem?_getD, List.getElem?_eq_none (by simp; omega)]
    simp; intro _; omega

private theorem aux_sum_add (l : List Nat) (f g : Nat → Nat) :
    (l.map (fun i => f i + g i)).sum = (l.map f).sum + (l.map g).sum := by
  induction l with
  | nil => simp
  | cons a l ih => simp [ih]; omega

private theorem aux_sum_indicator (v : Nat) (n : Nat) :
    ((List.range n).map (fun i => if v = i then 1 else 0)).sum = if v < n then 1 else 0 := by
  induction n with
  | zero => simp
  | succ n ih =>
    simp only [List.range_succ, List.map_append, List.sum_append, ih, List.map_cons, List.map_nil,
      List.sum_cons, List.sum_nil]
    by_cases h1 : v < n
    · have : v ≠ n := by omega
      simp [h1, this]; omega
    · by_cases h2 : v = n
      · simp [h2]
      · have : ¬ v < n + 1 := by omega
        simp [h1, h2, this]

private theorem aux_bucket_count {α : Type} (k : α → Nat) (n : Nat) (items : List α)
    (h : ∀ a ∈ items, k a < n) :
    ((List.range n).map (fun i => (items.filter (fun a => k a == i)).length)).sum = items.length := by
  induction items with
  | nil =>
    have : ∀ m, ((List.range m).map (fun _ => 0)).sum = 0 := by
      intro m; induction m with
      | zero => simp
      | succ m ihm => simp [List.range_succ, ihm]
    simpa using this n
  | cons a its ih =>
    have ha : k a < n := h a (by simp)
    have hfun : (fun i => ((a :: its).filter (fun a => k a == i)).length)
        = (fun i => (its.filter (fun a => k a == i)).length + (if k a = i then 1 else 0)) := by
      funext i
      simp only [List.filter_cons, beq_iff_eq]
      split <;> simp
    rw [hfun, aux_sum_add, aux_sum_indicator, ih (fun b hb => h b (by simp [hb]))]
    simp [ha]

/-- multiplicities are preserved: the buckets' sizes add up to the number of items -/
theorem nnx_split_count (preds : List NFilter) (items : List (Path × VarInfo)) :
    ((splitStates preds items).map List.length).sum = items.length := by
  simp only [splitStates, List.map_map]
  exact aux_bucket_count (fun it => firstMatch preds it.1 it.2) (preds.length + 1) items
    (fun it _ => by have := firstMatch_le preds it.1 it.2; omega)

/-- `...`/`True` may only be followed by `...`/`True` -/
theorem ellipsis_must_be_last (es : List Bool) :
    ellipsisOk es = true ↔ ∀ i j, i < j → j < es.length → es[i]? = some true → es[j]? = some true := by
  induction es with
  | nil => simp [ellipsisOk]
  | cons e rest ih =>
    cases rest with
    | nil =>
      simp only [ellipsisOk, true_iff]
      intro i j hij hj; simp at hj; omega
    | cons e2 rest2 =>
      simp only [ellipsisOk]
      cases e with
      | true =>
        simp only [↓reduceIte, List.all_eq_true, id]
        constructor
        · intro hall i j hij hj _
          cases j with
          | zero => omega
          | succ j =>
            simp only [List.length_cons] at hj
            have hj' : j < (e2 :: rest2).length := by simp; omega
            have := hall ((e2 :: rest2)[j]) (List.getElem_mem hj')
            simp [List.getElem?_eq_getElem hj', this]
        · intro h b hb
          obtain ⟨j, hj, rfl⟩ := List.getElem_of_mem hb
          have := h 0 (j+1) (by omega) (by simp at hj ⊢; omega) (by simp)
          simpa [List.getElem?_eq_getElem hj] using this
      | false =>
        simp only [Bool.false_eq_true, ↓reduceIte]
        rw [ih]
        constructor
        · intro h i j hij hj hi
          cases i with
          | zero => simp at hi
          | succ i =>
            cases j with
            | zero => omega
            | succ j => exact h i j (by omega) (by simp at hj ⊢; omega) (by simpa using hi) |> (by simpa using ·)
        · intro h i j hij hj hi
          have := h (i+1) (j+1) (by omega) (by simp at hj ⊢; omega) (by simpa using hi)
          simpa using this

example : splitStates [.ofType "Param", .any [.withTag "x", .pathContains "bias"]]
    [(["a", "kernel"], ⟨["Param", "Variable"], none⟩), (["a", "bias"], ⟨["BatchStat", "Variable"], none⟩),
     (["b"], ⟨["Cache"], some "y"⟩)]
    = [[(["a", "kernel"], ⟨["Param", "Variable"], none⟩)],
       [(["a", "bias"], ⟨["BatchStat", "Variable"], none⟩)],
       [(["b"], ⟨["Cache"], some "y"⟩)]] := by decide

/-! ## Linen: the Boolean-algebra laws (corollaries of in_union / in_subtract / in_intersect) -/

/-- membership-level laws: commutativity, associativity, absorption, distributivity, De Morgan through
`DenyList`, double negation, and subtraction as intersection with the complement — for filters of every form
and nesting depth and every collection name -/
theorem boolean_algebra_laws (a b c : LFilter) (n : String) :
    inFilter (union a b) n = inFilter (union b a) n ∧
    inFilter (intersect a b) n = inFilter (intersect b a) n ∧
    inFilter (union (union a b) c) n = inFilter (union a (union b c)) n ∧
    inFilter (intersect (intersect a b) c) n = inFilter (intersect a (intersect b c)) n ∧
    inFilter (union a (intersect a b)) n = inFilter a n ∧
    inFilter (intersect a (union a b)) n = inFilter a n ∧
    inFilter (intersect a (union b c)) n = inFilter (union (intersect a b) (intersect a c)) n ∧
    inFilter (union a (intersect b c)) n = inFilter (intersect (union a b) (union a c)) n ∧
    inFilter (deny (union a b)) n = inFilter (intersect (deny a) (deny b)) n ∧
    inFilter (deny (intersect a b)) n = inFilter (union (deny a) (deny b)) n ∧
    inFilter (deny (deny a)) n = inFilter a n ∧
    inFilter (subtract a b) n = inFilter (intersect a (deny b)) n ∧
    inFilter (union a (deny a)) n = true ∧
    inFilter (intersect a (deny a)) n = false ∧
    inFilter (union a ff) n = inFilter a n ∧
    inFilter (intersect a tt) n = inFilter a n := by
  simp only [in_union, in_intersect, in_subtract, inFilter]
  cases inFilter a n <;> cases inFilter b n <;> cases inFilter c n <;> simp

/-! ## NNX: the literal forms accepted by `to_predicate` -/

mutual
  /-- the predicate combination a literal filter stands for, written down directly (independent of
  `toPredicate`): a `str` is a tag test, a class an instance test, `True`/`...` everything, `False`/`None`
  nothing, a list/tuple/`Any` a disjunction, `All` a conjunction, `Not` a negation -/
  def sdenote : SFilter → Path → VarInfo → Bool
    | .str s, _, x => decide (x.tag = some s)
    | .type t, _, x => decide (t ∈ x.types)
    | .bool b, _, _ => b
    | .ellipsis, _, _ => true
    | .none_, _, _ => false
    | .seq fs, p, x => sdenoteAny fs p x
    | .any fs, p, x => sdenoteAny fs p x
    | .allOf fs, p, x => sdenoteAll fs p x
    | .not f, p, x => !(sdenote f p x)
    | .pred f, p, x => denote f p x
  def sdenoteAny : List SFilter → Path → VarInfo → Bool
    | [], _, _ => false
    | f :: fs, p, x => sdenote f p x || sdenoteAny fs p x
  def sdenoteAll : List SFilter → Path → VarInfo → Bool
    | [], _, _ => true
    | f :: fs, p, x => sdenote f p x && sdenoteAll fs p x
end

mutual
  /-- `to_predicate(f)` denotes the predicate combination `f` stands for, at every nesting depth -/
  theorem literal_denote : ∀ (f : SFilter) (p : Path) (x : VarInfo),
      denote (toPredicate f) p x = sdenote f p x
    | .str s, p, x => by simp [toPredicate, denote, sdenote]
    | .type t, p, x => by simp [toPredicate, denote, sdenote]
    | .bool true, p, x => by simp [toPredicate, denote, sdenote]
    | .bool false, p, x => by simp [toPredicate, denote, sdenote]
    | .ellipsis, p, x => by simp [toPredicate, denote, sdenote]
    | .none_, p, x => by simp [toPredicate, denote, sdenote]
    | .seq fs, p, x => by simp only [toPredicate, denote, sdenote]; exact literal_denote_any fs p x
    | .any fs, p, x => by simp only [toPredicate, denote, sdenote]; exact literal_denote_any fs p x
    | .allOf fs, p, x => by simp only [toPredicate, denote, sdenote]; exact literal_denote_all fs p x
    | .not f, p, x => by simp only [toPredicate, denote, sdenote, literal_denote f p x]
    | .pred f, p, x => by simp [toPredicate, sdenote]
  theorem literal_denote_any : ∀ (fs : List SFilter) (p : Path) (x : VarInfo),
      denoteAny (toPredicates fs) p x = sdenoteAny fs p x
    | [], p, x => by simp [toPredicates, denoteAny, sdenoteAny]
    | f :: fs, p, x => by
        simp only [toPredicates, denoteAny, sdenoteAny, literal_denote f p x, literal_denote_any fs p x]
  theorem literal_denote_all : ∀ (fs : List SFilter) (p : Path) (x : VarInfo),
      denoteAll (toPredicates fs) p x = sdenoteAll fs p x
    | [], p, x => by simp [toPredicates, denoteAll, sdenoteAll]
    | f :: fs, p, x => by
        simp only [toPredicates, denoteAll, sdenoteAll, literal_denote f p x, literal_denote_all fs p x]
end

/-- a list / tuple / `Any` matches iff some member matches, `All` iff every member matches -/
theorem literal_seq_any_all (fs : List SFilter) (p : Path) (x : VarInfo) :
    sdenote (.seq fs) p x = fs.any (fun f => sdenote f p x) ∧
    sdenote (.any fs) p x = fs.any (fun f => sdenote f p x) ∧
    sdenote (.allOf fs) p x = fs.all (fun f => sdenote f p x) := by
  simp only [sdenote]
  refine ⟨?_, ?_, ?_⟩
  · induction fs with
    | nil => simp [sdenoteAny]
    | cons f fs ih => simp [sdenoteAny, ih]
  · induction fs with
    | nil => simp [sdenoteAny]
    | cons f fs ih => simp [sdenoteAny, ih]
  · induction fs with
    | nil => simp [sdenoteAll]
    | cons f fs ih => simp [sdenoteAll, ih]

/-- nested sequences flatten: `(a, (b, c))` denotes the same predicate as `(a, b, c)` -/
theorem literal_nested_seq_flatten (pre inner post : List SFilter) (p : Path) (x : VarInfo) :
    denote (toPredicate (.seq (pre ++ .seq inner :: post))) p x
      = denote (toPredicate (.seq (pre ++ inner ++ post))) p x := by
  simp only [literal_denote, (literal_seq_any_all _ p x).1, List.any_append, List.any_cons, Bool.or_assoc]

theorem toPredicates_length (fs : List SFilter) : (toPredicates fs).length = fs.length := by
  induction fs with
  | nil => simp [toPredicates]
  | cons f fs ih => simp [toPredicates, ih]

theorem toPredicates_get (fs : List SFilter) (i : Nat) :
    (toPredicates fs)[i]? = (fs[i]?).map toPredicate := by
  induction fs generalizing i with
  | nil => simp [toPredicates]
  | cons f fs ih => cases i <;> simp [toPredicates, ih]

/-- `...` and `True` match everything -/
theorem catchAll_matches (f : SFilter) (h : isCatchAll f = true) (p : Path) (x : VarInfo) :
    denote (toPredicate f) p x = true := by
  cases f with
  | bool b => cases b <;> simp_all [isCatchAll, toPredicate, denote]
  | _ => simp_all [isCatchAll, toPredicate, denote]

/-- the bucket chosen for an item by a split on literal filters, in terms of what the literals stand for:
no earlier filter matches, the chosen one does, and the extra last bucket means none matches -/
theorem literal_firstMatch_spec (fs : List SFilter) (p : Path) (x : VarInfo) :
    (∀ j, j < firstMatch (toPredicates fs) p x → ∀ f, fs[j]? = some f → sdenote f p x = false) ∧
    (∀ f, fs[firstMatch (toPredicates fs) p x]? = some f → sdenote f p x = true) ∧
    (firstMatch (toPredicates fs) p x = fs.length → ∀ f ∈ fs, sdenote f p x = false) := by
  have hs := firstMatch_spec (toPredicates fs) p x
  refine ⟨?_, ?_, ?_⟩
  · intro j hj f hf
    have := hs.1 j hj (toPredicate f) (by simp [toPredicates_get, hf])
    simpa [literal_denote] using this
  · intro f hf
    have := hs.2 (toPredicate f) (by simp [toPredicates_get, hf])
    simpa [literal_denote] using this
  · intro hlen f hf
    obtain ⟨j, hj, rfl⟩ := List.getElem_of_mem hf
    have := hs.1 j (by omega) (toPredicate fs[j]) (by simp [toPredicates_get, List.getElem?_eq_getElem hj])
    simpa [literal_denote] using this

/-- **the first catch-all takes everything that is left**: when the filter list is `pre ++ [c] ++ post` with
`c` one of `...` / `True`, no item goes to a bucket after `c` — neither to the later catch-alls nor to the
bucket of the unmatched (so `split` never raises "non-exhaustive" and `post`'s groups are empty) -/
theorem first_catchAll_takes_rest (pre post : List SFilter) (c : SFilter) (hc : isCatchAll c = true)
    (p : Path) (x : VarInfo) :
    firstMatch (toPredicates (pre ++ c :: post)) p x ≤ pre.length := by
  induction pre with
  | nil => simp [toPredicates, firstMatch, catchAll_matches c hc p x]
  | cons f pre ih =>
    simp only [List.cons_append, toPredicates, firstMatch]
    split
    · omega
    · simp only [List.length_cons]; omega

theorem later_buckets_empty (pre post : List SFilter) (c : SFilter) (hc : isCatchAll c = true)
    (items : List (Path × VarInfo)) (i : Nat) (hi : pre.length < i) :
    (splitStates (toPredicates (pre ++ c :: post)) items).getD i [] = [] := by
  apply List.eq_nil_iff_forall_not_mem.mpr
  intro it hit
  have := (nnx_split_partition _ items i it).mp hit
  have hle := first_catchAll_takes_rest pre post c hc it.1 it.2
  omega

/-- every bucket keeps the order of the input state (it is a sublist of it) -/
theorem nnx_split_bucket_sublist (preds : List NFilter) (items : List (Path × VarInfo)) (i : Nat) :
    ((splitStates preds items).getD i []).Sublist items := by
  simp only [splitStates]
  by_cases hi : i < preds.length + 1
  · rw [List.getD_eq_getElem?_getD, List.getElem?_map, List.getElem?_range hi]
    simp
  · rw [List.getD_eq_getElem?_getD, List.getElem?_eq_none (by simp; omega)]
    simp

/-- `filters_to_predicates` rejects exactly the lists in which a `...`/`True` is followed by something else -/
theorem filtersToPredicates_rejects_iff (fs : List SFilter) :
    filtersToPredicates fs = Option.none ↔
      ∃ i j, i < j ∧ j < fs.length ∧ (fs[i]?.map isCatchAll) = some true ∧ (fs[j]?.map isCatchAll) ≠ some true := by
  have h := ellipsis_must_be_last (fs.map isCatchAll)
  simp only [filtersToPredicates]
  constructor
  · intro hn
    have hne : ¬ ellipsisOk (fs.map isCatchAll) = true := by
      intro hok; simp [hok] at hn
    rw [h] at hne
    apply Classical.byContradiction
    intro hno
    apply hne
    intro i j hij hj hi
    apply Classical.byContradiction
    intro hjn
    exact hno ⟨i, j, hij, by simpa using hj, by simpa using hi, by simpa using hjn⟩
  · rintro ⟨i, j, hij, hj, hi, hjn⟩
    have hne : ¬ ellipsisOk (fs.map isCatchAll) = true := by
      rw [h]; intro hall
      exact hjn (by simpa using hall i j hij (by simpa using hj) (by simpa using hi))
    simp [hne]

example : filtersToPredicates [.type "Param", .ellipsis, .bool true] ≠ Option.none ∧
    filtersToPredicates [.ellipsis, .type "Param"] = Option.none := by decide

example : splitLiteral [.type "Param", .ellipsis, .ellipsis]
    [(["a"], ⟨["Param"], none⟩), (["b"], ⟨["Cache"], none⟩), (["c"], ⟨["BatchStat"], some "x"⟩)]
    = some [[(["a"], ⟨["Param"], none⟩)],
            [(["b"], ⟨["Cache"], none⟩), (["c"], ⟨["BatchStat"], some "x"⟩)], [], []] := by decide

example : sdenote (.seq [.str "x", .seq [.type "Param", .not (.bool true)]]) ["a"] ⟨["Param"], none⟩ = true := by
  decide

end Flax.C14
