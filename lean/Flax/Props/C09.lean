/-
C09 — Random keys are deterministic, position-addressed and never reused.
Property theorems over `Flax/Model/Rng.lean` (helper lemmas: `Flax/Proofs/Rng.lean`, `Flax/Proofs/RngLinen.lean`).
Keys are symbolic terms: threefry `fold_in`/`split` and SHA-1 are free constructors (assumption A-RNG);
what is proved is about SHA-1 *preimages* and key terms.
-/
import Flax.Proofs.Rng
import Flax.Proofs.RngLinen
import Flax.Proofs.RngLinenJit
import Flax.Proofs.RngNnx
import Flax.Proofs.RngJit
import Flax.Proofs.RngNnxSplit
import Flax.Proofs.RngNnxHist
import Flax.Proofs.RngNoReuseJit
import Flax.Proofs.RngAlias
import Flax.Proofs.RngReseed
import Flax.Proofs.RngHeapSim
import Flax.Proofs.RngRankJit
import Flax.Proofs.RngJitKey

namespace Flax.C09
open Flax.Rng

/-! ## 1. the `_fold_in_static` preimage: what the separator flag buys -/

def NulFree (bs : List UInt8) : Prop := (0 : UInt8) ∉ bs

/-- **With the separator** the preimage determines the list of chunks, for NUL-free chunks. -/
theorem encode_chunks_injective_with_separator (d₁ d₂ : List Datum)
    (h₁ : ∀ d ∈ d₁, NulFree (datumBytes d)) (h₂ : ∀ d ∈ d₂, NulFree (datumBytes d))
    (h : encodeSuffix true d₁ = encodeSuffix true d₂) : d₁.map datumBytes = d₂.map datumBytes := by
  rw [encodeSuffix_true, encodeSuffix_true] at h
  apply joinZ_injective _ _ _ _ h
  · intro x hx
    obtain ⟨d, hd, rfl⟩ := List.mem_map.mp hx
    exact h₁ d hd
  · intro x hx
    obtain ⟨d, hd, rfl⟩ := List.mem_map.mp hx
    exact h₂ d hd

/-- **With the separator**, suffixes of the shape `make_rng` produces (scope path, then call count) are
encoded injectively: different paths or different counts give different SHA-1 preimages.  Hypotheses:
scope names contain no NUL character and the count's big-endian bytes contain no zero byte (true for every
count below 256, see `count_bytes_nulfree`); `separator_not_injective_beyond_65536` shows the second one is
needed. -/
theorem encode_injective_with_separator (π₁ π₂ : List String) (j₁ j₂ : Nat)
    (hπ₁ : ∀ n ∈ π₁, NulFree (strBytes n)) (hπ₂ : ∀ n ∈ π₂, NulFree (strBytes n))
    (hj₁ : NulFree (natBytes j₁)) (hj₂ : NulFree (natBytes j₂))
    (h : encodeSuffix true (suffixOf π₁ j₁) = encodeSuffix true (suffixOf π₂ j₂)) : π₁ = π₂ ∧ j₁ = j₂ := by
  have hc := encode_chunks_injective_with_separator (suffixOf π₁ j₁) (suffixOf π₂ j₂) ?_ ?_ h
  · rw [map_datumBytes_suffixOf, map_datumBytes_suffixOf] at hc
    obtain ⟨e1, e2⟩ := append_single_inj hc
    exact ⟨map_strBytes_injective e1, natBytes_injective e2⟩
  · intro d hd
    simp only [suffixOf, List.mem_append, List.mem_map, List.mem_singleton] at hd
    rcases hd with ⟨n, hn, rfl⟩ | rfl
    · exact hπ₁ n hn
    · exact hj₁
  · intro d hd
    simp only [suffixOf, List.mem_append, List.mem_map, List.mem_singleton] at hd
    rcases hd with ⟨n, hn, rfl⟩ | rfl
    · exact hπ₂ n hn
    · exact hj₂

/-- every count from 1 to 255 is one non-zero byte -/
theorem count_bytes_nulfree (j : Nat) (h1 : 1 ≤ j) (h2 : j < 256) : NulFree (natBytes j) := by
  have : natBytes j = [UInt8.ofNat j] := by
    unfold natBytes
    obtain ⟨f, rfl⟩ : ∃ f, j = f + 1 := ⟨j - 1, by omega⟩
    unfold natBytesAux
    have h0 : ¬ (f + 1 = 0) := by omega
    have hd : (f + 1) / 256 = 0 := by omega
    have hm : (f + 1) % 256 = f + 1 := by omega
    simp only [h0, if_false, hd, hm]
    cases f <;> simp [natBytesAux]
  rw [this]
  intro hm
  simp only [List.mem_singleton] at hm
  have := congrArg UInt8.toNat hm
  simp [UInt8.toNat_ofNat'] at this
  omega

/-- **Without the separator** different paths can have the same preimage: `("ab","c")` and `("a","bc")`. -/
theorem encode_collides_without_separator :
    encodeSuffix false (suffixOf ["ab", "c"] 1) = encodeSuffix false (suffixOf ["a", "bc"] 1) := by decide

/-- the same pair is separated by the flag -/
theorem separator_separates_witness :
    encodeSuffix true (suffixOf ["ab", "c"] 1) ≠ encodeSuffix true (suffixOf ["a", "bc"] 1) := by decide

/-- The excluded point of `encode_injective_with_separator`: the 65537-th draw in scope `a` and the first
draw in its child named `"\x01"` have the same preimage even with the separator (the count's bytes
`01 00 01` contain a zero byte). -/
theorem separator_not_injective_beyond_65536 :
    encodeSuffix true (suffixOf ["a"] 65537) = encodeSuffix true (suffixOf ["a", "\x01"] 1) := by decide

/-- both settings: at one scope path, different counts have different preimages -/
theorem encode_distinct_counts (sep : Bool) (π : List String) (j₁ j₂ : Nat)
    (h : encodeSuffix sep (suffixOf π j₁) = encodeSuffix sep (suffixOf π j₂)) : j₁ = j₂ := by
  simp only [suffixOf, encodeSuffix_append] at h
  have h2 := List.append_cancel_left h
  cases sep <;> simp [encodeSuffix, datumBytes] at h2 <;> exact natBytes_injective h2

/-- both settings: sibling scopes (same parent, different names) have different preimages at equal counts -/
theorem encode_distinct_sibling_names (sep : Bool) (π : List String) (a b : String) (j : Nat)
    (h : encodeSuffix sep (suffixOf (π ++ [a]) j) = encodeSuffix sep (suffixOf (π ++ [b]) j)) : a = b := by
  simp only [suffixOf, List.map_append, List.map_cons, List.map_nil, List.append_assoc, encodeSuffix_append] at h
  have h2 := List.append_cancel_left h
  have h3 : encodeSuffix sep [Datum.str a] = encodeSuffix sep [Datum.str b] := List.append_cancel_right h2
  cases sep <;> simp [encodeSuffix, datumBytes] at h3 <;> exact strBytes_injective h3

/-! ## 2. Linen: the key of a draw is a function of its position

`runTop cfg seeds p` runs the module program `p` (module tree + call sequence) on the transcription of
`Scope.push` / `Scope.make_rng` with by-reference counter dictionaries.  `p.draws []` lists its draws as
(scope path, requested stream) in execution order; `effOf` resolves the `'params'` fallback; `countPos … (take i)`
is the number of earlier draws at the same (scope path, stream after fallback). -/

private theorem aux_runTop_ok (cfg : Cfg) (seeds : List (String × SymKey)) (p : Prog) (hjf : p.jitFree)
    (ks : List SymKey) (h : runTop cfg seeds p = .ok ks) :
    ∃ c', specRun cfg seeds (fun _ _ => 0) (p.draws []) = .ok (ks, c') := by
  rw [runTop_spec cfg seeds p hjf] at h
  cases hs : specRun cfg seeds (fun _ _ => 0) (p.draws []) with
  | error e => rw [hs] at h; cases h
  | ok r =>
    obtain ⟨ks', c'⟩ := r
    rw [hs] at h
    simp only [Except.map, Except.ok.injEq] at h
    subst h
    exact ⟨c', rfl⟩

/-- **Position function.**  For every module program without `nn.jit`, every set of seeds and both flag
settings: the `i`-th key handed out is `fold_in_static(seed of the stream after fallback, scope path ++ [n])`
where `n` is the 1-based rank of the draw among the draws at the same scope path and stream after fallback.
It depends on nothing else in the program. -/
theorem linen_key_is_function_of_position (cfg : Cfg) (seeds : List (String × SymKey)) (p : Prog) (hjf : p.jitFree)
    (ks : List SymKey) (h : runTop cfg seeds p = .ok ks) :
    ks.length = (p.draws []).length ∧
    ∀ (i : Nat) (hi : i < (p.draws []).length), ∃ s' k,
      effOf cfg seeds ((p.draws [])[i]).2 = some (s', k) ∧
      ks[i]? = some (keyAt cfg.sep k ((p.draws [])[i]).1
                      (countPos cfg seeds ((p.draws [])[i]).1 s' ((p.draws []).take i) + 1)) := by
  obtain ⟨c', hs⟩ := aux_runTop_ok cfg seeds p hjf ks h
  obtain ⟨hlen, _, hkeys⟩ := specRun_closed cfg seeds _ _ _ _ hs
  refine ⟨hlen, ?_⟩
  intro i hi
  obtain ⟨s', k, he, hk⟩ := hkeys i hi
  exact ⟨s', k, he, by simpa using hk⟩

/-- A run fails exactly when some draw asks for a stream that is neither supplied nor backed by the fallback
stream, and then with `InvalidRngError`. -/
theorem linen_missing_stream_rejected (cfg : Cfg) (seeds : List (String × SymKey)) (p : Prog) (hjf : p.jitFree) (e : Err) :
    runTop cfg seeds p = .error e ↔ (e = .invalidRng ∧ ∃ d ∈ p.draws [], effOf cfg seeds d.2 = none) := by
  rw [runTop_spec cfg seeds p hjf, ← specRun_error_iff cfg seeds (p.draws []) (fun _ _ => 0) e]
  cases specRun cfg seeds (fun _ _ => 0) (p.draws []) with
  | error e' => simp [Except.map]
  | ok r => simp [Except.map]

/-- **Unrelated edits are inert.**  Two arbitrary programs with arbitrary seed sets: if draw `i` of the first and
draw `j` of the second sit at the same scope path, resolve to the same stream with the same seed key, and have the
same rank there, they receive the same key — whatever else differs (siblings added, removed or reordered, other
streams, other scopes, variables).  "Unrelated" is thereby made precise: an edit is unrelated to a draw iff it
does not change the draw's rank at its (scope path, stream after fallback). -/
theorem unrelated_edits_inert (cfg : Cfg) (seedsP seedsQ : List (String × SymKey)) (p q : Prog)
    (hp : p.jitFree) (hq : q.jitFree) (ksP ksQ : List SymKey)
    (hP : runTop cfg seedsP p = .ok ksP) (hQ : runTop cfg seedsQ q = .ok ksQ)
    (i j : Nat) (hi : i < (p.draws []).length) (hj : j < (q.draws []).length)
    (π : Path) (s' : String) (k : SymKey)
    (hπi : ((p.draws [])[i]).1 = π) (hπj : ((q.draws [])[j]).1 = π)
    (hsi : effOf cfg seedsP ((p.draws [])[i]).2 = some (s', k))
    (hsj : effOf cfg seedsQ ((q.draws [])[j]).2 = some (s', k))
    (hrank : countPos cfg seedsP π s' ((p.draws []).take i) = countPos cfg seedsQ π s' ((q.draws []).take j)) :
    ksP[i]? = ksQ[j]? := by
  obtain ⟨_, hkP⟩ := linen_key_is_function_of_position cfg seedsP p hp ksP hP
  obtain ⟨_, hkQ⟩ := linen_key_is_function_of_position cfg seedsQ q hq ksQ hQ
  obtain ⟨s1, k1, he1, h1⟩ := hkP i hi
  obtain ⟨s2, k2, he2, h2⟩ := hkQ j hj
  rw [hsi] at he1
  rw [hsj] at he2
  simp only [Option.some.injEq, Prod.mk.injEq] at he1 he2
  obtain ⟨rfl, rfl⟩ := he1
  obtain ⟨rfl, rfl⟩ := he2
  rw [h1, h2, hπi, hπj, hrank]

/-- **Fallback.**  A draw from a stream that was not supplied behaves exactly like a draw from the fallback
stream (`'params'`): same seed *and* same counter, so rewriting every such request changes no key. -/
theorem fallback_params (cfg : Cfg) (seeds : List (String × SymKey)) (p : Prog) (hjf : p.jitFree) :
    runTop cfg seeds (p.mapStreams (fun s => if (find? s seeds).isSome then s else cfg.fallback)) = runTop cfg seeds p := by
  rw [runTop_spec cfg seeds p hjf, runTop_spec cfg seeds _ (Prog.jitFree_mapStreams _ p hjf), Prog.draws_mapStreams]
  rw [specRun_congr cfg seeds (fun d => (d.1, if (find? d.2 seeds).isSome then d.2 else cfg.fallback)) (fun _ => rfl)]
  intro d
  simp only [effOf]
  cases h : find? d.2 seeds with
  | some k => simp [h]
  | none =>
    simp only [Option.isSome_none, Bool.false_eq_true, if_false]
    cases find? cfg.fallback seeds <;> rfl

/-! ### distinctness of keys at different positions -/

/-- both flag settings: different counts at one position give different keys -/
theorem distinct_counts (sep : Bool) (k : SymKey) (π : Path) (j₁ j₂ : Nat) (h : j₁ ≠ j₂) :
    keyAt sep k π j₁ ≠ keyAt sep k π j₂ := by
  intro he
  simp only [keyAt, SymKey.foldStatic.injEq, true_and] at he
  exact h (encode_distinct_counts sep π j₁ j₂ he)

/-- both flag settings: different seed keys give different keys, whatever the positions -/
theorem distinct_seeds (sep : Bool) (k₁ k₂ : SymKey) (π₁ π₂ : Path) (j₁ j₂ : Nat) (h : k₁ ≠ k₂) :
    keyAt sep k₁ π₁ j₁ ≠ keyAt sep k₂ π₂ j₂ := by
  intro he
  simp only [keyAt, SymKey.foldStatic.injEq] at he
  exact h he.1

/-- both flag settings: sibling scopes with different names give different keys at equal counts -/
theorem distinct_sibling_names (sep : Bool) (k : SymKey) (π : Path) (a b : String) (j : Nat) (h : a ≠ b) :
    keyAt sep k (π ++ [a]) j ≠ keyAt sep k (π ++ [b]) j := by
  intro he
  simp only [keyAt, SymKey.foldStatic.injEq, true_and] at he
  exact h (encode_distinct_sibling_names sep π a b j he)

/-- with the separator: any two different scope paths give different keys (NUL-free names, counts < 256) -/
theorem distinct_paths (k : SymKey) (π₁ π₂ : Path) (j₁ j₂ : Nat)
    (hπ₁ : ∀ n ∈ π₁, NulFree (strBytes n)) (hπ₂ : ∀ n ∈ π₂, NulFree (strBytes n))
    (hj₁ : 1 ≤ j₁ ∧ j₁ < 256) (hj₂ : 1 ≤ j₂ ∧ j₂ < 256) (h : π₁ ≠ π₂) :
    keyAt true k π₁ j₁ ≠ keyAt true k π₂ j₂ := by
  intro he
  simp only [keyAt, SymKey.foldStatic.injEq, true_and] at he
  exact h (encode_injective_with_separator π₁ π₂ j₁ j₂ hπ₁ hπ₂
    (count_bytes_nulfree j₁ hj₁.1 hj₁.2) (count_bytes_nulfree j₂ hj₂.1 hj₂.2) he).1

/-- without the separator the same is false: two different paths, one key -/
theorem distinct_paths_fails_without_separator (k : SymKey) :
    keyAt false k ["ab", "c"] 1 = keyAt false k ["a", "bc"] 1 := by
  simp only [keyAt, encode_collides_without_separator]

/-- **No reuse within a run (separator on).**  For every `jit`-free module program whose scope names are NUL-free,
with fewer than 256 draws, and seed keys that differ between streams: no two draws of the run return the same key. -/
theorem no_reuse_within_run (cfg : Cfg) (hsep : cfg.sep = true) (seeds : List (String × SymKey)) (p : Prog)
    (hjf : p.jitFree) (ks : List SymKey) (h : runTop cfg seeds p = .ok ks)
    (hnames : ∀ d ∈ p.draws [], ∀ n ∈ d.1, NulFree (strBytes n))
    (hsmall : (p.draws []).length < 256)
    (hseeds : (seeds.map (·.2)).Nodup)
    (i j : Nat) (hij : i < j) (hj : j < ks.length) : ks[i]? ≠ ks[j]? := by
  obtain ⟨hlen, hk⟩ := linen_key_is_function_of_position cfg seeds p hjf ks h
  have hj' : j < (p.draws []).length := by omega
  have hi' : i < (p.draws []).length := by omega
  obtain ⟨s1, k1, he1, h1⟩ := hk i hi'
  obtain ⟨s2, k2, he2, h2⟩ := hk j hj'
  intro heq
  rw [h1, h2, hsep] at heq
  simp only [Option.some.injEq, keyAt, SymKey.foldStatic.injEq] at heq
  obtain ⟨hkk, henc⟩ := heq
  have hc1 := countPos_le_length cfg seeds ((p.draws [])[i]).1 s1 ((p.draws []).take i)
  have hc2 := countPos_le_length cfg seeds ((p.draws [])[j]).1 s2 ((p.draws []).take j)
  simp only [List.length_take] at hc1 hc2
  obtain ⟨hπ, hr⟩ := encode_injective_with_separator _ _ _ _
    (hnames _ (List.getElem_mem hi')) (hnames _ (List.getElem_mem hj'))
    (count_bytes_nulfree _ (by omega) (by omega)) (count_bytes_nulfree _ (by omega) (by omega)) henc
  have hs : s1 = s2 := find?_inj_of_nodup_vals seeds hseeds s1 s2 k1 (effOf_find cfg seeds _ _ _ he1) (hkk ▸ effOf_find cfg seeds _ _ _ he2)
  subst hs
  have hlt := countPos_take_lt cfg seeds ((p.draws [])[i]).1 s1 (p.draws []) i j hij hi' rfl (by simp [he1])
  rw [hπ] at hlt hr
  omega

/-- **No reuse within a run (separator off)** holds under the extra hypothesis the property states for the weaker
guarantee: the scope paths that draw have pairwise different byte concatenations. -/
theorem no_reuse_within_run_without_separator (cfg : Cfg) (hsep : cfg.sep = false) (seeds : List (String × SymKey))
    (p : Prog) (hjf : p.jitFree) (ks : List SymKey) (h : runTop cfg seeds p = .ok ks)
    (hconcat : ∀ d ∈ p.draws [], ∀ e ∈ p.draws [], concatB (d.1.map strBytes) = concatB (e.1.map strBytes) → d.1 = e.1)
    (hsmall : (p.draws []).length < 256)
    (hseeds : (seeds.map (·.2)).Nodup)
    (i j : Nat) (hij : i < j) (hj : j < ks.length) : ks[i]? ≠ ks[j]? := by
  obtain ⟨hlen, hk⟩ := linen_key_is_function_of_position cfg seeds p hjf ks h
  have hj' : j < (p.draws []).length := by omega
  have hi' : i < (p.draws []).length := by omega
  obtain ⟨s1, k1, he1, h1⟩ := hk i hi'
  obtain ⟨s2, k2, he2, h2⟩ := hk j hj'
  intro heq
  rw [h1, h2, hsep] at heq
  simp only [Option.some.injEq, keyAt, SymKey.foldStatic.injEq] at heq
  obtain ⟨hkk, henc⟩ := heq
  have hc1 := countPos_le_length cfg seeds ((p.draws [])[i]).1 s1 ((p.draws []).take i)
  have hc2 := countPos_le_length cfg seeds ((p.draws [])[j]).1 s2 ((p.draws []).take j)
  simp only [List.length_take] at hc1 hc2
  rw [encodeSuffix_false, encodeSuffix_false, map_datumBytes_suffixOf, map_datumBytes_suffixOf,
    concatB_append, concatB_append, natBytes_small _ (by omega) (by omega), natBytes_small _ (by omega) (by omega)] at henc
  simp only [concatB, List.append_nil] at henc
  obtain ⟨hcc, hb⟩ := append_single_inj henc
  have hπ := hconcat _ (List.getElem_mem hi') _ (List.getElem_mem hj') hcc
  have hr : countPos cfg seeds ((p.draws [])[i]).1 s1 ((p.draws []).take i) + 1
      = countPos cfg seeds ((p.draws [])[j]).1 s2 ((p.draws []).take j) + 1 := by
    have := congrArg UInt8.toNat hb
    simp only [UInt8.toNat_ofNat'] at this
    omega
  have hs : s1 = s2 := find?_inj_of_nodup_vals seeds hseeds s1 s2 k1 (effOf_find cfg seeds _ _ _ he1) (hkk ▸ effOf_find cfg seeds _ _ _ he2)
  subst hs
  have hlt := countPos_take_lt cfg seeds ((p.draws [])[i]).1 s1 (p.draws []) i j hij hi' rfl (by simp [he1])
  rw [hπ] at hlt hr
  omega

/-! ## 3. NNX streams -/

/-- **Stream keys.**  `n` successive calls of a stream with key `k` and count `c` return
`fold_in(k, c), fold_in(k, c+1), …` and leave the count at `c + n`. -/
theorem nnx_stream_keys (tag : String) (k : SymKey) (c n : Nat) :
    Stream.callN { tag := tag, key := .scalar k, count := .scalar c } n =
      .ok ((List.range n).map (fun i => SymKey.foldIn k (c + i)),
           { tag := tag, key := .scalar k, count := .scalar (c + n) }) :=
  Stream.callN_scalar tag k n c

/-- distinct call counts or distinct stream keys give distinct keys -/
theorem nnx_distinct (k₁ k₂ : SymKey) (j₁ j₂ : Nat) (h : k₁ ≠ k₂ ∨ j₁ ≠ j₂) :
    SymKey.foldIn k₁ j₁ ≠ SymKey.foldIn k₂ j₂ := by
  intro he
  simp only [SymKey.foldIn.injEq] at he
  rcases h with h | h
  · exact h he.1
  · exact h he.2

/-- **Position function for `Rngs`.**  For every interleaving of calls on `Rngs(**seeds)`: the `i`-th call returns
`fold_in(key of the stream that answers, number of earlier calls answered by that stream)`; the call sequence
fails exactly when a name has neither its own stream nor the fallback stream (`'default'`).  Streams are
independent: calls answered by other streams, and streams that are added or removed without changing which stream
answers, change nothing. -/
theorem nnx_key_is_function_of_position (fb : String) (seeds : List (String × SymKey)) (names : List String) :
    (∀ e, Rngs.calls fb (Rngs.mk' seeds) names = .error e →
        e = .noStream ∧ ∃ x ∈ names, resolveOf fb seeds x = none) ∧
    (∀ ks r', Rngs.calls fb (Rngs.mk' seeds) names = .ok (ks, r') →
        ks.length = names.length ∧
        ∀ (i : Nat) (hi : i < names.length), ∃ n' k, resolveOf fb seeds (names[i]) = some (n', k) ∧
          ks[i]? = some (.foldIn k (countStream fb seeds n' (names.take i)))) := by
  obtain ⟨h1, h2⟩ := calls_closed fb seeds names (Rngs.mk' seeds) (fun _ => 0) (nrep_init seeds)
  refine ⟨h1, ?_⟩
  intro ks r' h
  obtain ⟨hlen, _, hk⟩ := h2 ks r' h
  refine ⟨hlen, ?_⟩
  intro i hi
  obtain ⟨n', k, hr, hki⟩ := hk i hi
  exact ⟨n', k, hr, by simpa using hki⟩

/-- **Fallback.**  A name without a stream of its own is answered by the fallback stream: same key, same counter. -/
theorem fallback_default (fb : String) (r : Rngs) (name : String)
    (hmissing : find? name r.streams = none) (hfb : (find? fb r.streams).isSome) :
    r.call fb name = r.call fb fb := by
  unfold Rngs.call Rngs.resolve
  simp [hmissing, hfb]

/-- without the fallback stream the call is rejected -/
theorem fallback_default_missing (fb : String) (r : Rngs) (name : String)
    (hmissing : find? name r.streams = none) (hfb : find? fb r.streams = none) :
    r.call fb name = .error .noStream := by
  unfold Rngs.call Rngs.resolve
  simp [hmissing, hfb]
  rfl

/-- **Split, then restore, resumes the stream.**  `split_rngs` on a stream `(k, c)` consumes exactly one key
(`fold_in(k, c)`), hands its `split` to the lanes with zeroed counters, and backs up `(k, c + 1)`: restoring yields
the original stream one draw later. -/
theorem split_restore_resumes (tag : String) (k : SymKey) (c : Nat) (shape : List Nat) :
    ∃ b s', Stream.splitOne { tag := tag, key := .scalar k, count := .scalar c } shape false = .ok (b, s') ∧
      s'.key = .batched (.foldIn k c) shape ∧ s'.count = .batched shape 0 ∧
      b.stream = tag ∧ b.key = .scalar k ∧ b.count = .scalar (c + 1) ∧
      restoreLoop [(tag, s')] [b] = [(tag, { tag := tag, key := .scalar k, count := .scalar (c + 1) })] := by
  refine ⟨_, _, rfl, rfl, rfl, rfl, rfl, rfl, ?_⟩
  simp [restoreLoop, find?_cons, Flax.Rng.set]

/-- the key a lane draws: lane `idx`, `t`-th call after the split of stream `(k, c)` -/
def laneKey (k : SymKey) (c : Nat) (shape idx : List Nat) (t : Nat) : SymKey :=
  .foldIn (.split (.foldIn k c) shape idx) t

/-- what a lane sees after `split_rngs`: a scalar stream keyed by its own split key, counting from 0 -/
theorem lane_stream_keys (tag : String) (k : SymKey) (c : Nat) (shape idx : List Nat) (n : Nat) :
    Stream.callN (({ tag := tag, key := .batched (.foldIn k c) shape, count := .batched shape 0 } : Stream).lane idx) n =
      .ok ((List.range n).map (fun t => laneKey k c shape idx t),
           { tag := tag, key := .scalar (.split (.foldIn k c) shape idx), count := .scalar (0 + n) }) := by
  simp only [Stream.lane, laneKey]
  have := Stream.callN_scalar tag (.split (.foldIn k c) shape idx) n 0
  simpa using this

/-- **No replay.**  No key drawn inside the transform equals a past or future key of the original stream; different
lanes or different call counts give different keys; and the resumed stream (counts `c + 1 + t`) never repeats a key
handed out before the split (counts `< c`) nor the key consumed by the split (count `c`). -/
theorem split_keys_fresh (k : SymKey) (c : Nat) (shape idx : List Nat) (t j : Nat) :
    laneKey k c shape idx t ≠ .foldIn k j := by
  intro he
  simp only [laneKey, SymKey.foldIn.injEq] at he
  exact split_foldIn_ne k c shape idx he.1

theorem split_lanes_distinct (k : SymKey) (c : Nat) (shape idx₁ idx₂ : List Nat) (t₁ t₂ : Nat)
    (h : idx₁ ≠ idx₂ ∨ t₁ ≠ t₂) : laneKey k c shape idx₁ t₁ ≠ laneKey k c shape idx₂ t₂ := by
  intro he
  simp only [laneKey, SymKey.foldIn.injEq, SymKey.split.injEq, true_and] at he
  rcases h with h | h
  · exact h he.1
  · exact h he.2

theorem resumed_keys_fresh (k : SymKey) (c t j : Nat) (hj : j ≤ c) : SymKey.foldIn k (c + 1 + t) ≠ .foldIn k j := by
  intro he
  simp only [SymKey.foldIn.injEq, true_and] at he
  omega

/-- two successive splits of the same stream hand different keys to their lanes (the first split consumed a count) -/
theorem successive_splits_distinct (k : SymKey) (c : Nat) (shape₁ shape₂ idx₁ idx₂ : List Nat) (t₁ t₂ : Nat) :
    laneKey k c shape₁ idx₁ t₁ ≠ laneKey k (c + 1) shape₂ idx₂ t₂ := by
  intro he
  simp only [laneKey, SymKey.foldIn.injEq, SymKey.split.injEq] at he
  omega

/-- **Split then restore on a whole `Rngs`** — the loops of `split_rngs` (over the streams selected by `only=`) and of
`restore_rngs` (over the backups), for every set of streams with distinct names, every counter state, every filter and
shape: afterwards every stream is scalar again with its own key; the selected streams are exactly one draw further, the
others untouched. -/
theorem split_restore_resumes_rngs (seeds : List (String × SymKey)) (hnd : (seeds.map (·.1)).Nodup) (c : String → Nat)
    (only : Option (List String)) (shape : List Nat) (bk : List (List Backup)) :
    ∃ r1, Rngs.split { streams := streamsOf seeds c, backups := bk } only shape false = .ok (bk.length, r1) ∧
      ∃ r2, r1.restore bk.length = .ok r2 ∧
        NRep seeds r2 (fun n => c n + if selectedBy only n then 1 else 0) :=
  split_restore_rngs seeds hnd c only shape bk

/-- **`only=` filter: unselected streams are completely untouched by `split_rngs` and by `restore_rngs`.**  For every set of streams
with distinct names, every counter state, filter and shape: the split leaves each unselected stream exactly as it was; and for
*any* state `streams'` the streams are in when the split is restored (unselected streams may have been drawn from inside the
window), the restore leaves each unselected stream exactly as it is then — so its draws inside the window are never rewound and
replayed — while each selected stream gets its original key back with count `c + 1`. -/
theorem split_restore_unselected_untouched (seeds : List (String × SymKey)) (hnd : (seeds.map (·.1)).Nodup) (c : String → Nat)
    (only : Option (List String)) (shape : List Nat) (bk : List (List Backup)) :
    ∃ r1, Rngs.split { streams := streamsOf seeds c, backups := bk } only shape false = .ok (bk.length, r1) ∧
      (∀ n, selectedBy only n = false → find? n r1.streams = find? n (streamsOf seeds c)) ∧
      ∀ (streams' : List (String × Stream)) (bk' : List (List Backup)),
        ∃ r2, Rngs.restore { streams := streams', backups := r1.backups ++ bk' } bk.length = .ok r2 ∧
          (∀ n, selectedBy only n = false → find? n r2.streams = find? n streams') ∧
          (∀ n k s, selectedBy only n = true → find? n seeds = some k → find? n streams' = some s →
            find? n r2.streams = some { s with key := .scalar k, count := .scalar (c n + 1) }) :=
  split_restore_only seeds hnd c only shape bk

/-- **Counter-example for a `split_rngs` that also backs up the streams it does not split** (not the shipped code): `Rngs(0, params=1)`,
split only `params`, draw from `default` inside the window, restore, draw from `default` again.  Shipped code: counts 0 then 1.
Backup-everything variant: the restore rewinds `default` to count 0 and the same key is handed out twice. -/
theorem split_backing_up_unselected_replays :
    let r0 := Rngs.mk' [("default", SymKey.seed 0), ("params", SymKey.seed 1)]
    let dflt (c : Nat) : Stream := { tag := "default", key := .scalar (.seed 0), count := .scalar c }
    (nrun "default" r0 [.split (some ["params"]) [2] false, .call "default", .restore 0, .call "default"]).map
        (fun o => match o with | .key k => some k | _ => none)
      = [none, some (.foldIn (.seed 0) 0), none, some (.foldIn (.seed 0) 1)] ∧
    (∃ bs st1, splitLoopBackupAll (some ["params"]) [2] false r0.streams = .ok (bs, st1) ∧
      find? "default" st1 = some (dflt 0) ∧
      -- the draw inside the window advanced `default` to count 1; restoring the variant's backups rewinds it to 0
      find? "default" (restoreLoop (set "default" (dflt 1) st1) bs) = some (dflt 0)) ∧
    (dflt 0).call.map (·.1) = .ok (.foldIn (.seed 0) 0) := by
  refine ⟨rfl, ⟨_, _, rfl, rfl, rfl⟩, rfl⟩

/-- **No replay along any history of a stream.**  Take any sequence of `stream()` calls, `split_rngs`, vmapped bodies in
which every lane draws, and `restore_rngs` — any number of rounds, any shapes, starting at any count — that the code accepts
(a split stream cannot be called or split outside `vmap`; `restore` needs an open split): all keys handed out, at top level
and in all lanes of all rounds, are pairwise different. -/
theorem nnx_no_replay_along_history (tag : String) (k : SymKey) (c : Nat) (ops : List SOp) (outs : List SymKey)
    (h : srun (stateOf tag k (.top c)) ops = .ok outs) : outs.Nodup :=
  (srun_nodup tag k ops (.top c) outs h).1

/-- **Reseed restarts.**  After `reseed(rngs, tag=k')` the stream has key `k'` and count 0, whatever it was before … -/
theorem reseed_restarts (name tag : String) (k k' : SymKey) (c : Nat) (newKeys : List (String × SymKey))
    (h : find? tag newKeys = some k') :
    reseedLoop newKeys [(name, { tag := tag, key := .scalar k, count := .scalar c })] =
      .ok [(name, { tag := tag, key := .scalar k', count := .scalar 0 })] := by
  simp [reseedLoop, h]
  rfl

/-- … so its next `n` keys are those of a fresh `Rngs(tag=k')` -/
theorem reseed_then_calls (tag : String) (k' : SymKey) (n : Nat) :
    Stream.callN { tag := tag, key := .scalar k', count := .scalar 0 } n =
      .ok ((List.range n).map (fun i => SymKey.foldIn k' i), { tag := tag, key := .scalar k', count := .scalar n }) := by
  have := Stream.callN_scalar tag k' n 0
  simpa using this

/-- a stream that is not named keeps key and count; a split stream cannot be reseeded -/
theorem reseed_other_untouched (name : String) (s : Stream) (newKeys : List (String × SymKey))
    (h : find? s.tag newKeys = none) : reseedLoop newKeys [(name, s)] = .ok [(name, s)] := by
  simp [reseedLoop, h]
  rfl

theorem reseed_split_rejected (name tag : String) (k k' : SymKey) (shape : List Nat) (cv : CountVal)
    (newKeys : List (String × SymKey)) (h : find? tag newKeys = some k') :
    reseedLoop newKeys [(name, { tag := tag, key := .batched k shape, count := cv })] = .error .nonScalarReseed := by
  simp [reseedLoop, h]

/-- **Reseed resets every stream carrying a requested name, regardless of multiplicity.**  A node may hold any number of distinct
`RngStream` objects with the same name (sub-modules built with their own `Rngs`); `iter_graph` lists each object once.  If no
requested stream is split, `reseed` succeeds and *every* object whose name is in the map gets the requested key and count 0, and
every other object is untouched (`reseedOne`). -/
theorem reseed_resets_every_named_stream {ι : Type} (newKeys : List (String × SymKey)) (objs : List (ι × Stream))
    (h : ∀ p ∈ objs, ¬ NamedSplit newKeys p.2) :
    reseedLoop newKeys objs = .ok (objs.map (fun p => (p.1, reseedOne newKeys p.2))) ∧
    (∀ p ∈ objs, ∀ k, find? p.2.tag newKeys = some k →
      reseedOne newKeys p.2 = { p.2 with key := .scalar k, count := .scalar 0 }) ∧
    (∀ p ∈ objs, find? p.2.tag newKeys = none → reseedOne newKeys p.2 = p.2) := by
  refine ⟨reseedLoop_ok newKeys objs h, ?_, ?_⟩
  · intro p _ k hk; simp [reseedOne, hk]
  · intro p _ hk; simp [reseedOne, hk]

/-- … and it is rejected as soon as one requested stream (any of the objects with that name) is split -/
theorem reseed_rejects_named_split_stream {ι : Type} (newKeys : List (String × SymKey)) (objs : List (ι × Stream))
    (h : ∃ p ∈ objs, NamedSplit newKeys p.2) : reseedLoop newKeys objs = .error .nonScalarReseed :=
  reseedLoop_error newKeys objs h

/-- after a reseed, every object with a requested name — reached through any attribute — draws `fold_in(new key, 0), …` -/
theorem reseed_then_calls_every_object {ι : Type} (newKeys : List (String × SymKey)) (objs : List (ι × Stream))
    (p : ι × Stream) (hp : p ∈ objs) (k : SymKey)
    (hk : find? p.2.tag newKeys = some k) (n : Nat) :
    (p.1, reseedOne newKeys p.2) ∈ (objs.map (fun q => (q.1, reseedOne newKeys q.2))) ∧
    Stream.callN (reseedOne newKeys p.2) n =
      .ok ((List.range n).map (fun i => SymKey.foldIn k i), { tag := p.2.tag, key := .scalar k, count := .scalar n }) := by
  refine ⟨List.mem_map_of_mem hp, ?_⟩
  have : reseedOne newKeys p.2 = { tag := p.2.tag, key := .scalar k, count := .scalar 0 } := by simp [reseedOne, hk]
  rw [this]
  have := Stream.callN_scalar p.2.tag k n 0
  simpa using this

/-- **Counter-example for a `reseed` that consumes each name once** (not the shipped code): two objects named `dropout`; only the
first in traversal order is reset, the second keeps its old key and count. -/
theorem reseed_once_per_name_misses_second_stream :
    let objs : List (Nat × Stream) :=
      [(0, { tag := "dropout", key := .scalar (.seed 1), count := .scalar 2 }),
       (1, { tag := "dropout", key := .scalar (.seed 2), count := .scalar 3 })]
    reseedLoop [("dropout", SymKey.seed 9)] objs =
      .ok [(0, { tag := "dropout", key := .scalar (.seed 9), count := .scalar 0 }),
           (1, { tag := "dropout", key := .scalar (.seed 9), count := .scalar 0 })] ∧
    reseedPopLoop [("dropout", SymKey.seed 9)] objs =
      .ok [(0, { tag := "dropout", key := .scalar (.seed 9), count := .scalar 0 }),
           (1, { tag := "dropout", key := .scalar (.seed 2), count := .scalar 3 })] := by
  exact ⟨rfl, rfl⟩

/-- `nnx.fork` is pure and splits the stream key itself (no draw): its lanes' keys differ from every key of
the stream it was forked from -/
theorem fork_keys_fresh (k : SymKey) (shape idx : List Nat) (t j : Nat) :
    SymKey.foldIn (.split k shape idx) t ≠ .foldIn k j := by
  intro he
  simp only [SymKey.foldIn.injEq] at he
  have := congrArg SymKey.size he.1
  simp [SymKey.size] at this

/-! ## 4. `rewound`, and what `nn.jit` does to the streams (closed witnesses of the transcribed mechanisms) -/

/-- `Scope.rewound()` keeps the counters (the next draw continues), `rewound(rewind_rngs=True)` restarts them (the next
draw *replays* the first key — the documented meaning of the flag), and a child that is pushed again under the same
name continues its counters. -/
theorem rewound_and_reentry_witness :
    lrun { sep := true, fallback := "params" } (linit [("params", .seed 0)])
      [.push 0 "A", .rng 1 "params", .rng 1 "params",   -- scope 1 = root/A: counts 1, 2
       .rewound 1 false, .rng 2 "params",                 -- rewound(): count 3
       .rewound 1 true, .rng 3 "params",                  -- rewound(rewind_rngs=True): count 1 again
       .push 0 "A", .rng 4 "params"]                      -- re-entered child: count 4
    = [.scope 1, .key (keyAt true (.seed 0) ["A"] 1), .key (keyAt true (.seed 0) ["A"] 2),
       .scope 2, .key (keyAt true (.seed 0) ["A"] 3),
       .scope 3, .key (keyAt true (.seed 0) ["A"] 1),
       .scope 4, .key (keyAt true (.seed 0) ["A"] 4)] := by rfl

/-- `nn.jit`: the jit-ted method first draws one key from *every* stream of its scope (`fork_rngs`), uses them as new
bases with an empty suffix, and shares the counters with the enclosing scope. -/
theorem jit_fork_witness :
    runTop { sep := false, fallback := "params" } [("params", .seed 0), ("dropout", .seed 1)]
      (.sub "A" (.jit (.draw "dropout" (.draw "dropout" .done)) (.draw "dropout" .done)) .done)
    = .ok [keyAt false (keyAt false (.seed 1) ["A"] 1) [] 2,
           keyAt false (keyAt false (.seed 1) ["A"] 1) [] 3,
           keyAt false (.seed 1) ["A"] 4] := by rfl

/-- **Counters are path-addressed, `nn.jit` included.**  For *every* module program — child calls, re-entered children,
jit-ted methods nested in any way — and every seed set with distinct stream names: the machine with by-reference counter
dictionaries (`push` looks the child's dictionary up in its parent's, `fork_rngs` draws once from every stream and the
jit-ted scope shares the counters) returns exactly the keys of the reference semantics `specProg`, which keeps one
pre-incremented counter per (scope path, stream after fallback), folds (names since the current bases were installed, count)
into the current base of the stream, and on `jit` replaces every base `b` by `keyAt sep b rel (count + 1)`.  So a key
depends on the seeds, the stream, and the logical position only. -/
theorem linen_counters_are_path_addressed (cfg : Cfg) (seeds : List (String × SymKey)) (hnd : (seeds.map (·.1)).Nodup)
    (p : Prog) : runTop cfg seeds p = (specProg cfg p seeds [] [] (fun _ _ => 0)).map (·.1) :=
  runTop_specProg cfg seeds hnd p

/-- **No reuse within a run, `nn.jit` included.**  For every module program — child calls, re-entered children, jit-ted
methods nested in any way — with the separator on, NUL-free scope names, fewer than 256 draws-plus-jit-ted-calls
(`p.size`, which bounds every counter), and user seeds that are distinct key atoms under distinct stream names: all keys
handed out in the run are pairwise different.  (Every draw, including the ones `fork_rngs` makes, consumes a ticket
(scope path, stream, count); counters only grow, and with the separator a key determines its ticket.)
Fork-specific hypothesis: the seeds are atoms (`SymKey.seed i`), i.e. no user seed is itself a `fold_in` of another. -/
theorem no_reuse_within_run_jit (cfg : Cfg) (hsep : cfg.sep = true) (seeds : List (String × SymKey))
    (hatoms : ∀ s k, find? s seeds = some k → ∃ i, k = .seed i)
    (hstreams : (seeds.map (·.1)).Nodup) (hseeds : (seeds.map (·.2)).Nodup)
    (p : Prog) (hnames : ∀ n ∈ p.names, NulFree (strBytes n)) (hsize : p.size < 256)
    (ks : List SymKey) (h : runTop cfg seeds p = .ok ks) : ks.Nodup := by
  rw [runTop_specProg cfg seeds hstreams p] at h
  cases hs : specProg cfg p seeds [] [] (fun _ _ => 0) with
  | error e => rw [hs] at h; cases h
  | ok r =>
    obtain ⟨ks', c'⟩ := r
    rw [hs] at h
    simp only [Except.map, Except.ok.injEq] at h
    subst h
    exact specProg_nodup cfg hsep seeds hatoms hseeds p hnames hsize ks' c' hs

/-- **Position function, `nn.jit` included.**  For every module program (nested jit-ted methods allowed; a jit-ted body is assumed to
make the same draws whenever it runs, i.e. its draw count does not depend on input shapes) under the hypotheses of
`no_reuse_within_run_jit`: list *all* counter requests of the run in execution order, `reqsN` — each user draw (handed out) and, for
each jit-ted call, one request per stream (`fork_rngs`, not handed out) — as (scope path, stream after fallback).  Then the keys
handed out correspond one-to-one, in order, to the handed-out requests; the `i`-th key `x` satisfies `Tk seeds x (π, s, j)`:
`x = fold_in_static(b, names since b was installed ++ [j])` where the base `b` descends from the seed of `s` through the enclosing
jit-ted calls (`Base`), the scope path is `π`, and **`j` is one plus the number of earlier requests at the same (π, s)** — so the
key depends on the logical position only, and `Tk.functional` says the key in turn determines (π, s, j). -/
theorem linen_key_count_is_rank_with_jit (cfg : Cfg) (hsep : cfg.sep = true) (seeds : List (String × SymKey))
    (hatoms : ∀ s k, find? s seeds = some k → ∃ i, k = .seed i) (hstreams : (seeds.map (·.1)).Nodup)
    (p : Prog) (hnames : ∀ n ∈ p.names, NulFree (strBytes n)) (hsize : p.size < 256)
    (ks : List SymKey) (h : runTop cfg seeds p = .ok ks) :
    ∃ kts : List (SymKey × Ticket), kts.map (·.1) = ks ∧ (∀ q ∈ kts, Tk seeds q.1 q.2) ∧
      kts.map (·.2) = assignH (fun _ _ => 0) (reqsN cfg (seeds.map (·.1)) p []) ∧
      ∀ t ∈ kts.map (·.2), ∃ pre post, reqsN cfg (seeds.map (·.1)) p [] = pre ++ (t.1, t.2.1, true) :: post ∧
        t.2.2 = cntR t.1 t.2.1 pre + 1 := by
  rw [runTop_specProg cfg seeds hstreams p] at h
  cases hs : specProg cfg p seeds [] [] (fun _ _ => 0) with
  | error e => rw [hs] at h; cases h
  | ok r =>
    obtain ⟨ks', c'⟩ := r
    rw [hs] at h
    simp only [Except.map, Except.ok.injEq] at h
    subst h
    have hb : ∀ π' s, c' π' s < 256 := by
      intro π' s
      have := (specProg_bounds cfg p seeds [] [] _ ks' c' hs π' s).2
      omega
    have hgood : GoodB seeds seeds [] := by
      intro s b hf
      obtain ⟨i, rfl⟩ := hatoms s b hf
      exact ⟨_, hf, Base.root i⟩
    obtain ⟨kts, h1, h2, _, _, h5⟩ := specProg_tickets cfg hsep seeds p seeds [] [] [] _ ks' c' rfl hs hgood
      (by intro m hm; simp at hm) hnames hb
    rw [specTk_assignH cfg _ hstreams] at h5
    refine ⟨kts, h1, h2, h5, ?_⟩
    intro t ht
    rw [h5] at ht
    obtain ⟨pre, post, hl, hj⟩ := (assignH_closed _ _ t).mp ht
    exact ⟨pre, post, hl, by simpa using hj⟩

/-- **The replay on a jit cache hit preserves aliasing.**  Counter dicts are heap objects; a child scope bound before the
call (`h.walk a p = some b`: the dict reached from the scope's dict `a` through the nested keys `p` *is* the object `b` the
child holds) still is the object in its parent's entry after `_restore_rng_counters` has written `old + delta` with the
in-place `set_from_dict`, and reading through the child's own reference gives the replayed count — exactly what running
the body would have left. -/
theorem replay_preserves_aliasing (h : CHeap) (hc : Canon h) (a : CRef) (ha : (find? a h.cells).isSome)
    (body : List (List String × String)) (p : List String) (b : CRef) (hbound : h.walk a p = some b) :
    (h.hitCall a (deltaOf body)).walk a p = some b ∧
    ∀ s, (h.hitCall a (deltaOf body)).read b s = (h.runBody a body).read b s := by
  obtain ⟨_, _, l1, r1⟩ := hitCall_spec h hc a ha body
  obtain ⟨_, _, _, r2⟩ := runBody_spec a body h hc ha
  exact ⟨walk_mono _ _ l1 p a b hbound, fun s => by rw [r1, r2]⟩

/-- **A rerun equals the first run**, over any call history: the first call of a jit-ted function traces (its body runs and
mutates the counters), every later call is a cache hit (in-place replay of the cached delta).  After any number of calls
every counter, read through any reference, is what actually running the body every time would have produced, and every
previously bound child scope is still aliased with its parent's entry. -/
theorem rerun_equals_first_run (h : CHeap) (hc : Canon h) (a : CRef) (ha : (find? a h.cells).isSome)
    (body : List (List String × String)) (n : Nat) :
    (∀ b t, (jitCalls a body n (h.runBody a body)).read b t = (runCalls a body (n + 1) h).read b t) ∧
    (∀ p b, h.walk a p = some b → (jitCalls a body n (h.runBody a body)).walk a p = some b) := by
  obtain ⟨c1, x1, l1, r1⟩ := runBody_spec a body h hc ha
  obtain ⟨_, _, l2, r2⟩ := jitCalls_spec a body n _ c1 x1
  obtain ⟨_, _, _, r3⟩ := runCalls_spec a body (n + 1) h hc ha
  refine ⟨?_, ?_⟩
  · intro b t
    rw [r2, r1, r3, Nat.add_mul]; omega
  · intro p b hw
    exact walk_mono _ _ (fun k v hk => l2 k v (l1 k v hk)) p a b hw

/-- **The counter heap simulates the executable scope machine** (abstraction: both states are read as the table of counts
`(scope path, stream) ↦ n`; `Rep` for the `Store` the driver runs, `HeapRep` for the heap of dict objects).  Step commutation for
`Scope.push`: neither side changes the table, and the heap's new dict object sits at the address the `Store` scope refers to. -/
theorem heap_push_commutes (B : List (String × SymKey)) (rel π : Path) (n : String) (st : Store) (h : CHeap) (c : Counts)
    (hrep : Rep B st c) (hc : Canon h) (ha : (find? ((0 : Nat), π) h.cells).isSome) (hh : HeapRep h c) :
    Rep B (push (scopeG B rel π) n st).2 c ∧ (push (scopeG B rel π) n st).1 = scopeG B (rel ++ [n]) (π ++ [n]) ∧
    HeapRep (h.pushC ((0 : Nat), π) n).1 c ∧ (h.pushC ((0 : Nat), π) n).2 = ((0 : Nat), π ++ [n]) ∧
    Canon (h.pushC ((0 : Nat), π) n).1 :=
  sim_push B rel π n st h c hrep hc ha hh

/-- step commutation for `Scope.make_rng`: both sides bump the same entry of the table (and the `Store` side returns the key) -/
theorem heap_draw_commutes (cfg : Cfg) (B : List (String × SymKey)) (rel π : Path) (s : String) (st : Store) (h : CHeap)
    (c : Counts) (hrep : Rep B st c) (hhas : (find? ((0 : Nat), π) st.dicts).isSome)
    (hc : Canon h) (ha : (find? ((0 : Nat), π) h.cells).isSome) (hh : HeapRep h c)
    (s' : String) (k : SymKey) (he : effOf cfg B s = some (s', k)) :
    ∃ st', makeRng cfg (scopeG B rel π) s st = .ok (keyAt cfg.sep k rel (c π s' + 1), st') ∧ Rep B st' (bump c π s') ∧
      HeapRep (h.applyAt ((0 : Nat), π) [] s' (· + 1)) (bump c π s') :=
  sim_draw cfg B rel π s st h c hrep hhas hc ha hh s' k he

/-- **A jit-ted call on the executable model vs. a cache hit on the heap.**  Run any `jit`-free body at scope `π` on the `Store` machine
(the traced call).  On a heap representing the same table, running that body, *or replaying its cached delta in place* (the cache-hit
branch of `_restore_rng_counters`), ends in a heap representing the table the `Store` run ends in; and every scope bound before is
still aliased.  This is what makes `replay_preserves_aliasing` and `rerun_equals_first_run` statements about the counts — hence the
keys — of the model the driver executes. -/
theorem jit_call_simulated_by_heap_replay (cfg : Cfg) (B : List (String × SymKey)) (hnd : (B.map (·.1)).Nodup)
    (rel π : Path) (st : Store) (c : Counts) (hrep : Rep B st c) (hhas : (find? ((0 : Nat), π) st.dicts).isSome)
    (h : CHeap) (hc : Canon h) (ha : (find? ((0 : Nat), π) h.cells).isSome) (hh : HeapRep h c)
    (p : Prog) (hjf : p.jitFree) (ks : List SymKey) (st' : Store)
    (hrun : runProg cfg p (scopeG B rel π) st = .ok (ks, st')) :
    ∃ c', Rep B st' c' ∧
      HeapRep (h.runBody ((0 : Nat), π) (bodyOf cfg B p)) c' ∧
      HeapRep (h.hitCall ((0 : Nat), π) (deltaOf (bodyOf cfg B p))) c' ∧
      (∀ q b, h.walk ((0 : Nat), π) q = some b →
        (h.hitCall ((0 : Nat), π) (deltaOf (bodyOf cfg B p))).walk ((0 : Nat), π) q = some b) :=
  store_run_simulated_by_heap_replay cfg B hnd rel π st c hrep hhas h hc ha hh p hjf ks st' hrun

/-- **Counter-example for the `dict.update` variant** (not the shipped code): child `k` is bound, the traced call draws once in
it (count 1); on the next call a replay by `rng_counters.update(updates)` puts a *new* dict object into the parent's entry:
the bound child still reads 1 instead of 2 (its next key repeats the previous one) and is no longer the object its parent
refers to.  The in-place replay gives 2 and keeps the object. -/
theorem replay_by_dict_update_breaks_aliasing :
    let a : CRef := (0, [])
    let body : List (List String × String) := [(["k"], "d")]
    let h1 := ((CHeap.init.pushC a "k").1).runBody a body
    h1.walk a ["k"] = some (0, ["k"]) ∧ h1.read (0, ["k"]) "d" = 1 ∧
    (h1.hitCall a (deltaOf body)).read (0, ["k"]) "d" = 2 ∧ (h1.hitCall a (deltaOf body)).walk a ["k"] = some (0, ["k"]) ∧
    (h1.hitCallUpdate a (deltaOf body)).read (0, ["k"]) "d" = 1 ∧
    (h1.hitCallUpdate a (deltaOf body)).walk a ["k"] = some (1, ["k"]) ∧
    (h1.hitCallUpdate a (deltaOf body)).readVia a ["k"] "d" = 2 := by decide

/-- **`pack` gives every kept scope its own counter dict.**  For every list of scopes lifted together (any duplicates, any
ancestor/descendant pairs, any order): each scope that survives `_dedup_scopes` is paired with *its own* `rng_counters`, so the inner
scope built for it is the same scope as far as keys go (same streams, same path, same counter dict), and a transform that neither
splits nor forks the streams (`map_variables`, `vmap` with `split_rngs=False`, `remat`, …) runs any body on it exactly as the un-lifted
program would — one counter per scope, shared by reference inside and outside the lift. -/
theorem pack_gives_each_kept_scope_its_own_counters (scopes : List Scope) :
    (packCounters scopes).map (·.1) = dedupScopes scopes ∧
    (∀ q ∈ packCounters scopes, q.2 = q.1.cref ∧ innerScope q.1 q.2 = q.1) ∧
    (∀ q ∈ packCounters scopes, ∀ (cfg : Cfg) (p : Prog) (st : Store),
      runProg cfg p (innerScope q.1 q.2) st = runProg cfg p q.1 st) := by
  have h2 : ∀ q ∈ packCounters scopes, q.2 = q.1.cref ∧ innerScope q.1 q.2 = q.1 := by
    intro q hq
    simp only [packCounters, List.mem_map] at hq
    obtain ⟨s, _, rfl⟩ := hq
    exact ⟨rfl, rfl⟩
  refine ⟨by simp [packCounters, List.map_map, Function.comp_def], h2, ?_⟩
  intro q hq cfg p st
  rw [(h2 q hq).2]

/-- **Counter-example for collecting the counters before deduplication** (not the shipped code): a transformed module (path `[]`) owning
an attribute sub-module `inner`; the scopes arrive as `[inner, outer]`, `_dedup_scopes` keeps `[outer]`, and zipping it with the
counters of the *original* list hands `outer` the dict of `inner`.  After one draw outside the lift (count 1 in `outer`'s own dict) the
draw inside the lift starts again from the untouched dict of `inner`: the same (path, count), the same key. -/
theorem pack_counters_before_dedup_replays :
    let cfg : Cfg := { sep := true, fallback := "params" }
    let seeds : List (String × SymKey) := [("dropout", .seed 0)]
    let outer := (bindRoot seeds).1
    let r := push outer "inner" (bindRoot seeds).2
    let inner := r.1
    -- shipped: outer keeps its own dict; the variant hands it the child's
    packCounters [inner, outer] = [(outer, ((0 : Nat), []))] ∧
    packCountersBeforeDedup [inner, outer] = [(outer, ((0 : Nat), ["inner"]))] ∧
    -- one draw outside the lift, then one inside it
    (∃ k st1, makeRng cfg outer "dropout" r.2 = .ok (k, st1) ∧
      (makeRng cfg (innerScope outer ((0 : Nat), ["inner"])) "dropout" st1).map (·.1) = .ok k ∧
      (makeRng cfg (innerScope outer ((0 : Nat), [])) "dropout" st1).map (·.1) = .ok (keyAt true (.seed 0) [] 2)) := by
  refine ⟨by decide, by decide, ⟨_, _, rfl, rfl, rfl⟩⟩

/-- **What `nn.jit`'s static cache key must contain.**  The jit-ted body is traced with the counters it finds and the counts are baked
into the trace; the trace may be reused for another entry iff that entry would run the body identically.  If two counter tables agree
on the module's scope `π0` *and on every descendant scope* (`AgreeBelow`: this is `scope.rng_counters`, the nested dict of own and child
counters, which `_fingerprint_recursive` puts into the key), then any body hands out the same keys (or fails the same way) from both,
and the tables still agree afterwards. -/
theorem jit_cache_key_with_descendant_counters_is_sound (cfg : Cfg) (π0 : Path) (p : Prog) (hjf : p.jitFree)
    (B : List (String × SymKey)) (rel : Path) (c1 c2 : Counts) (h : AgreeBelow π0 c1 c2) :
    (∀ e, specProg cfg p B rel π0 c1 = .error e → specProg cfg p B rel π0 c2 = .error e) ∧
    (∀ ks d1, specProg cfg p B rel π0 c1 = .ok (ks, d1) →
      ∃ d2, specProg cfg p B rel π0 c2 = .ok (ks, d2) ∧ AgreeBelow π0 d1 d2) :=
  specProg_agree cfg π0 p hjf B rel π0 c1 c2 h (List.prefix_refl π0)

/-- **Counter-example for a key that holds only the scope's own counters**: the two tables agree on the jit-ted scope `[]` itself but
the child `k` has drawn once in the second; the body (one draw in `k`) hands out different keys, so reusing the first trace for the
second entry returns the key of a different position. -/
theorem jit_cache_key_with_own_counters_only_is_unsound :
    let cfg : Cfg := { sep := true, fallback := "params" }
    let B : List (String × SymKey) := [("noise", .seed 1)]
    let body : Prog := .sub "k" (.draw "noise" .done) .done
    let c1 : Counts := fun _ _ => 0
    let c2 : Counts := bump c1 ["k"] "noise"
    (∀ s, c1 [] s = c2 [] s) ∧
    (specProg cfg body B [] [] c1).map (·.1) = .ok [keyAt true (.seed 1) ["k"] 1] ∧
    (specProg cfg body B [] [] c2).map (·.1) = .ok [keyAt true (.seed 1) ["k"] 2] := by
  refine ⟨by intro s; simp [bump], rfl, rfl⟩

/-- **`nn.jit` counters (repaired `lift.jit`, finding F11).**  With one delta cache per transformed function, every call
of every jit-ted function, in every process history (any interleaving of functions, fingerprints and counter values, traced
or served from jax's cache), leaves the counter exactly where running the body would: `c + d fn`. -/
theorem jit_delta_cache_sound (d : Nat → Nat) (calls : List (Nat × Nat × Nat)) :
    jitRun false d { traced := [], deltas := [] } calls = calls.map (fun x => x.2.2 + d x.1) :=
  jitRun_sound d calls _ (jitInv_empty d)

/-- **F11 as shipped** (one cache keyed by the fingerprint only): function 0 makes 1 draw, function 1 makes 3; after
function 0 ran once at fingerprint 7, function 1 at the same fingerprint leaves the counter at `c + 1` instead of
`c + 3`, so every later key of the scope differs from a fresh process. -/
theorem jit_delta_cache_shared_unsound :
    jitRun true (fun fn => if fn = 0 then 1 else 3) { traced := [], deltas := [] } [(0, 7, 1), (1, 7, 1)] = [2, 2] ∧
    jitRun true (fun fn => if fn = 0 then 1 else 3) { traced := [], deltas := [] } [(1, 7, 1)] = [4] := by decide

/-! ## 5. non-vacuity: the hypotheses of the theorems above are satisfiable by non-trivial instances -/

section examples

private def cfg1 : Cfg := { sep := true, fallback := "params" }
private def cfg0 : Cfg := { sep := false, fallback := "params" }
private def seeds0 : List (String × SymKey) := [("params", .seed 0), ("dropout", .seed 1)]
/-- two levels, the adversarial names, a fallback draw (`x`), a re-used stream -/
private def p0 : Prog :=
  .sub "ab" (.sub "c" (.draw "dropout" .done) (.draw "x" .done))
    (.sub "a" (.sub "bc" (.draw "dropout" .done) .done) (.draw "params" (.draw "dropout" .done)))
/-- the same with an extra sibling, an extra stream and a different order -/
private def q0 : Prog :=
  .sub "zz" (.draw "noise" .done)
    (.sub "a" (.sub "bc" (.draw "dropout" .done) .done)
      (.sub "ab" (.sub "c" (.draw "dropout" .done) (.draw "x" .done)) (.draw "params" (.draw "dropout" .done))))
private def seeds1 : List (String × SymKey) := [("noise", .seed 7), ("dropout", .seed 1), ("params", .seed 0)]

example : p0.jitFree := by simp [p0, Prog.jitFree]
example : q0.jitFree := by simp [q0, Prog.jitFree]
example : ∃ ks, runTop cfg1 seeds0 p0 = .ok ks ∧ ks.length = 5 := ⟨_, rfl, rfl⟩
example : ∃ ks, runTop cfg1 seeds1 q0 = .ok ks ∧ ks.length = 6 := ⟨_, rfl, rfl⟩
/-- hypotheses of `no_reuse_within_run` -/
example : ∀ d ∈ p0.draws [], ∀ n ∈ d.1, NulFree (strBytes n) := by unfold NulFree; decide
example : (seeds0.map (·.2)).Nodup := by decide
example : (p0.draws []).length < 256 := by decide
/-- the conclusion of `no_reuse_within_run` on that instance, and its failure without the separator (the run
contains the paths `ab/c` and `a/bc`): draws 0 and 2 collide when the flag is off -/
example : ∃ ks, runTop cfg1 seeds0 p0 = .ok ks ∧ ks.Nodup := ⟨_, rfl, by decide⟩
example : ∃ ks, runTop cfg0 seeds0 p0 = .ok ks ∧ ks[0]? = ks[2]? := ⟨_, rfl, by decide⟩
/-- hypothesis of `no_reuse_within_run_without_separator` holds for a program without colliding concatenations -/
example : ∀ d ∈ (Prog.sub "ab" (.draw "x" .done) (.sub "c" (.draw "x" .done) (.draw "x" .done))).draws [],
    ∀ e ∈ (Prog.sub "ab" (.draw "x" .done) (.sub "c" (.draw "x" .done) (.draw "x" .done))).draws [],
      concatB (d.1.map strBytes) = concatB (e.1.map strBytes) → d.1 = e.1 := by decide
/-- `unrelated_edits_inert` instance: draw 0 of `p0` and draw 2 of `q0` (scope `ab/c`, stream `dropout`, rank 1) -/
example : ((p0.draws [])[0]!).1 = ["ab", "c"] ∧ ((q0.draws [])[2]!).1 = ["ab", "c"] ∧
    effOf cfg1 seeds0 ((p0.draws [])[0]!).2 = some ("dropout", .seed 1) ∧
    effOf cfg1 seeds1 ((q0.draws [])[2]!).2 = some ("dropout", .seed 1) ∧
    countPos cfg1 seeds0 ["ab", "c"] "dropout" ((p0.draws []).take 0) =
      countPos cfg1 seeds1 ["ab", "c"] "dropout" ((q0.draws []).take 2) := by decide
/-- `linen_missing_stream_rejected`: without `params` the fallback draw `x` is rejected -/
example : runTop cfg1 [("dropout", .seed 1)] p0 = .error .invalidRng := rfl
/-- `encode_injective_with_separator` hypotheses -/
example : (∀ n ∈ ["ab", "c"], NulFree (strBytes n)) ∧ NulFree (natBytes 200) := by unfold NulFree; decide
/-- NNX: `Rngs(0, params=1)`: `dropout` falls back to `default` and shares its counter -/
example : (Rngs.calls "default" (Rngs.mk' [("default", .seed 0), ("params", .seed 1)]) ["params", "dropout", "default", "params"]).map (·.1)
    = .ok [.foldIn (.seed 1) 0, .foldIn (.seed 0) 0, .foldIn (.seed 0) 1, .foldIn (.seed 1) 1] := rfl
/-- NNX: a whole split / vmapped draws / restore / call history on the model -/
example : nrun "default" (Rngs.mk' [("default", .seed 0), ("params", .seed 1)])
      [.call "params", .split (some ["params"]) [2] false, .lanes [2] ["params", "zz"], .restore 0, .call "params"]
    = [.key (.foldIn (.seed 1) 0), .backup 0,
       .lanes [[laneKey (.seed 1) 1 [2] [0] 0, .foldIn (.seed 0) 0], [laneKey (.seed 1) 1 [2] [1] 0, .foldIn (.seed 0) 0]],
       .unit, .key (.foldIn (.seed 1) 2)] := by rfl

/-- `linen_counters_are_path_addressed`: hypothesis, on a program with a nested jit-ted method -/
example : (seeds0.map (·.1)).Nodup := by decide
example : ∃ ks, runTop cfg1 seeds0 (.sub "A" (.jit (.draw "x" (.sub "k" (.jit (.draw "dropout" .done) .done) .done))
    (.draw "dropout" .done)) (.draw "params" .done)) = .ok ks ∧ ks.length = 4 ∧ ks.Nodup := ⟨_, rfl, rfl, by decide⟩
/-- `no_reuse_within_run_jit`: hypotheses on a program with nested jit-ted methods and a re-entered child -/
example : (∀ s k, find? s seeds0 = some k → ∃ i, k = SymKey.seed i) := by
  intro s k h
  simp only [seeds0, find?_cons, find?_nil] at h
  split at h
  · exact ⟨0, by simpa using h.symm⟩
  · split at h
    · exact ⟨1, by simpa using h.symm⟩
    · cases h
example : let p : Prog := .sub "A" (.jit (.draw "x" (.sub "k" (.jit (.draw "dropout" .done) .done) .done))
      (.sub "k" (.draw "dropout" .done) (.draw "dropout" .done))) (.draw "params" .done)
    (∀ n ∈ p.names, NulFree (strBytes n)) ∧ p.size < 256 := by unfold NulFree; decide
/-- `replay_preserves_aliasing` / `rerun_equals_first_run`: the initial heap with a bound child satisfies the hypotheses -/
example : Canon (CHeap.init.pushC (0, []) "k").1 ∧ (find? ((0, []) : CRef) (CHeap.init.pushC (0, []) "k").1.cells).isSome ∧
    (CHeap.init.pushC (0, []) "k").1.walk (0, []) ["k"] = some (0, ["k"]) :=
  ⟨(pushC_spec CHeap.init canon_init (0, []) (by decide) "k").2.1, by decide, by decide⟩
/-- `reseed_resets_every_named_stream`: hypothesis on a node with two `dropout` objects and one `params` object -/
example : ∀ p ∈ ([(0, { tag := "dropout", key := .scalar (.seed 1), count := .scalar 2 }),
      (1, { tag := "params", key := .scalar (.seed 0), count := .scalar 1 }),
      (2, { tag := "dropout", key := .scalar (.seed 2), count := .scalar 3 })] : List (Nat × Stream)),
    ¬ NamedSplit [("dropout", SymKey.seed 9)] p.2 := by
  intro p hp hns
  obtain ⟨_, k, shape, hk⟩ := hns
  simp only [List.mem_cons, List.mem_nil_iff, or_false] at hp
  rcases hp with rfl | rfl | rfl <;> simp at hk
/-- `split_restore_unselected_untouched`: the filter really leaves a stream out -/
example : selectedBy (some ["params"]) "default" = false ∧ selectedBy (some ["params"]) "params" = true ∧
    selectedBy none "default" = true := by decide
/-- `linen_key_count_is_rank_with_jit`: the request list of a program with a jit-ted call (two streams ⇒ two fork requests) -/
example : reqsN cfg1 ["params", "dropout"] (.sub "A" (.jit (.draw "x" .done) (.draw "dropout" .done)) .done) [] =
    [(["A"], "params", false), (["A"], "dropout", false), (["A"], "params", true), (["A"], "dropout", true)] := by decide
/-- `pack_gives_each_kept_scope_its_own_counters`: a non-trivial scope list (a duplicate, and a descendant before its ancestor) -/
example : let outer := (bindRoot seeds0).1
    let inner := (push outer "inner" (bindRoot seeds0).2).1
    (dedupScopes [inner, outer, inner, outer]).length = 1 ∧ (packCounters [inner, outer, inner, outer]).length = 1 := by decide
/-- `jit_cache_key_with_descendant_counters_is_sound`: two different tables that agree below `["m"]` -/
example : AgreeBelow ["m"] (fun _ _ => 0) (bump (fun _ _ => 0) ["other"] "noise") := by
  intro π' s hp
  simp only [bump]
  have : ¬ (π' = ["other"]) := by
    intro e; subst e
    simp at hp
  simp [this]
/-- `jit_call_simulated_by_heap_replay`: the initial states (`bind` root / the heap with one root dict) satisfy the hypotheses -/
example : Rep seeds0 (bindRoot seeds0).2 (fun _ _ => 0) ∧ HeapRep CHeap.init (fun _ _ => 0) ∧ Canon CHeap.init ∧
    (find? (((0 : Nat), []) : CRef) CHeap.init.cells).isSome ∧ (find? (((0 : Nat), []) : CRef) (bindRoot seeds0).2.dicts).isSome := by
  refine ⟨rep_init seeds0, ?_, canon_init, by decide, by decide⟩
  intro π s
  simp only [CHeap.read, CHeap.init, find?_cons, find?_nil]
  split <;> simp_all
/-- `nnx_no_replay_along_history`: an accepted history with two split rounds (1-D and 2-D), 13 keys -/
example : ∃ outs, srun (stateOf "params" (.seed 0) (.top 0))
    [.call, .split [2], .lanes 2, .lanes 1, .restore, .call, .split [2, 2], .lanes 1, .restore, .call] = .ok outs ∧
    outs.length = 13 := ⟨_, rfl, rfl⟩
/-- and histories the code rejects: calling a split stream outside vmap, restoring twice -/
example : srun (stateOf "params" (.seed 0) (.top 0)) [.split [2], .call] = .error .batchedKey := rfl
example : srun (stateOf "params" (.seed 0) (.top 0)) [.split [2], .restore, .restore] = .error .badHandle := rfl
/-- `split_restore_resumes_rngs`: hypothesis -/
example : (([("default", .seed 0), ("params", .seed 1)] : List (String × SymKey)).map (·.1)).Nodup := by decide

end examples

end Flax.C09
