/-
C11 — Checkpoint directory survives crashes; retention and step ordering are exact.

Property theorems over `Flax/Model/Ckpt.lean` (helper lemmas: `Flax/Proofs/Ckpt.lean`).
A save is a sequence of atomic file-system steps; `crashed cfg d k` is the directory after a crash that let
exactly `k` of them happen (every `k : Nat`; `k` beyond the last step is the completed save; a torn write is the
state between `create` and `writeAll`).  Clauses of the property and where they are:

  crash: latest / restore still give a complete checkpoint, the previous latest or the new one
        `crash_safe_legacy`, `crash_safe_orbax` (hypothesis `InPlaceFree`; needed: `orbax_overwrite_crash_*`),
        `crash_safe`, `crash_safe_reachable` (every reachable directory × every save × every crash point)
  saving can continue     `retry_after_crash_legacy`, `save_later_step`, `crash_then_continue(_orbax)`
  policy after a save     `policy_after_save`, `save_preserves_inv`, meaning of `policy`: `policy_keeps_newest`,
                          `policy_overwrite_removes_newer`, `policy_subset`, `greedyKeep_gapped`, `greedyRemove_reason`
  existing step raises    `legacy_rejects_iff`, `orbax_rejects_iff`, `overwrite_never_raises`, `no_overwrite_raises_and_frame`
  latest = largest value  `latest_is_max_value`, `latest_of_max`, `latest_none_iff`   (order of names: assumption A-NAT)
  restore = what was saved `restore_after_save`, `restore_returns_saved(_from_empty)`
  AsyncManager            `async_eq_sync`, `async_reader_safe`, `async_without_wait_differs`
  repaired / known defects `f10_*` (fixed in /repo), `orbax_overwrite_*` (finding F15)
  modelling choices       `newerOf_eq_drop` (positional code = value-based model), `policy_scale` (integer step values)
  natural_sort (A-NAT for integer steps, character-level model `Model/NatSort.lean`)
                          `natural_sort_key_of_step_name`, `natural_sort_compares_by_value`, `natural_sort_orders_by_value`,
                          `natural_sort_latest_is_max`, `natural_sort_tmp_sorts_last`, `listing_is_natural_sort` (both models
                          composed), `natural_sort_sign_prefix_misorders` (finding F6)
                          floats / exponent notation: `printed_number_is_one_token`, `natural_sort_key_of_number_name`,
                          `natural_sort_compares_numbers_by_value`, `decCmp_is_value_order`, `natural_sort_orders_numbers_by_value`,
                          `natural_sort_latest_is_max_number`   (left assumed: A-FLOAT, float() orders literals as their decimal values)
  _checkpoint_path_step   `checkpoint_path_step_is_the_step`, `checkpoint_path_step_of_int`, `checkpoint_path_step_first_number_differs`
  Orbax retry             `retry_after_crash_orbax`
-/
import Flax.Model.Ckpt
import Flax.Proofs.Ckpt
import Flax.Proofs.NatSort

namespace Flax.C11
open Flax.Ckpt

/-- what holds of a directory between saves: final names in natural_sort order without ties, each one a
complete checkpoint -/
structure Inv (d : Dir) : Prop where
  sorted : d.ckpts.Sorted
  complete : d.ckpts.AllComplete

theorem inv_empty : Inv Dir.empty := ⟨List.Pairwise.nil, fun _ h => by cases h⟩

/-! ## `latest` is the numerically largest step -/

/-- `latest_checkpoint` returns a listed checkpoint whose step value bounds every listed step. -/
theorem latest_is_max_value {d : Dir} (hS : d.ckpts.Sorted) {e : Int × Content} (hl : latest d = some e) :
    e.1 ∈ listing d ∧ ∀ x ∈ listing d, x ≤ e.1 := by
  refine ⟨Files.mem_steps.mpr ⟨e, getLast?_mem hl, rfl⟩, ?_⟩
  intro x hx
  obtain ⟨e', he', rfl⟩ := Files.mem_steps.mp hx
  exact Files.getLast_max hS hl e' he'

/-- there is a latest checkpoint exactly when something is listed -/
theorem latest_none_iff (d : Dir) : latest d = none ↔ listing d = [] := by
  simp [latest, listing, Files.steps, List.getLast?_eq_none_iff]

/-- conversely: a listed step that bounds all listed steps is the one `latest_checkpoint` returns -/
theorem latest_of_max {d : Dir} (hS : d.ckpts.Sorted) {e : Int × Content} (he : e ∈ d.ckpts)
    (hmax : ∀ x ∈ listing d, x ≤ e.1) : latest d = some e :=
  Files.getLast_of_max hS he (fun x hx => hmax x.1 (Files.mem_steps.mpr ⟨x, hx, rfl⟩))

example : latest { ckpts := [(-3, .complete 1), (2, .complete 2), (10, .complete 3)] } = some (10, .complete 3) := by
  decide

/-! ## a save at an existing step without overwrite raises and changes nothing -/

private theorem aux_save_eq (cfg : Cfg) (d : Dir) :
    save cfg d = match check cfg d with
      | .error e => .error e
      | .ok () => .ok (run ((prepare cfg d ++ [commit cfg]) ++
          cleanup cfg (run (prepare cfg d ++ [commit cfg]) d)) d) := by
  cases hc : check cfg d with
  | error e => simp [save, saveSteps_err hc]
  | ok u => cases u; simp [save, saveSteps_ok hc]

/-- legacy back-end: without `overwrite` the save raises `InvalidCheckpointError` exactly when a listed step is
at or above the new one (the existing step itself, or any newer one). -/
theorem legacy_rejects_iff {cfg : Cfg} (d : Dir) (hb : cfg.backend = .legacy) (ho : cfg.overwrite = false) :
    save cfg d = .error .invalidCheckpoint ↔ ∃ x ∈ listing d, cfg.step ≤ x := by
  rw [aux_save_eq]
  by_cases h : d.ckpts.steps.any (fun x => decide (cfg.step ≤ x)) = true
  · have hc : check cfg d = .error .invalidCheckpoint := by simp [check, hb, ho, h]
    rw [hc]
    simp only [true_iff]
    simpa [listing] using h
  · have hc : check cfg d = .ok () := by simp [check, hb, ho, h]
    rw [hc]
    simp only [reduceCtorEq, false_iff]
    simpa [listing] using h

/-- Orbax back-end: without `overwrite` the save raises exactly when the step exists. -/
theorem orbax_rejects_iff {cfg : Cfg} (d : Dir) (hb : cfg.backend = .orbax) (ho : cfg.overwrite = false) :
    save cfg d = .error .destinationExists ↔ cfg.step ∈ listing d := by
  rw [aux_save_eq]
  by_cases h : (d.ckpts.get cfg.step).isSome = true
  · have hc : check cfg d = .error .destinationExists := by simp [check, hb, ho, h]
    rw [hc]
    simp only [true_iff]
    exact (Files.get_isSome_iff _ _).mp h
  · have hc : check cfg d = .ok () := by simp [check, hb, ho, h]
    rw [hc]
    simp only [reduceCtorEq, false_iff]
    exact fun hm => h ((Files.get_isSome_iff _ _).mpr hm)

/-- with `overwrite=True` a save never raises -/
theorem overwrite_never_raises {cfg : Cfg} (d : Dir) (ho : cfg.overwrite = true) : ∃ d', save cfg d = .ok d' := by
  rw [aux_save_eq]
  have hc : check cfg d = .ok () := by
    cases hb : cfg.backend <;> simp [check, hb, ho]
  rw [hc]
  exact ⟨_, rfl⟩

/-- a save that raises has performed no file-system step: whatever the crash point, the directory is the one
before the call -/
theorem no_overwrite_raises_and_frame {cfg : Cfg} {d : Dir} {e : Err} (h : save cfg d = .error e) :
    ∀ k, crashed cfg d k = d := by
  intro k
  cases hc : check cfg d with
  | error e' => simp [crashed, saveSteps_err hc]
  | ok u => cases u; rw [aux_save_eq, hc] at h; cases h

example : save { backend := .legacy, step := 3, payload := 9, keep := 2, everyN := 0, overwrite := false }
    { ckpts := [(3, .complete 1), (5, .complete 2)] } = .error .invalidCheckpoint := by rfl
example : save { backend := .legacy, step := 4, payload := 9, keep := 2, everyN := 0, overwrite := false }
    { ckpts := [(3, .complete 1), (5, .complete 2)] } = .error .invalidCheckpoint := by rfl
example : save { backend := .orbax, step := 4, payload := 9, keep := 3, everyN := 0, overwrite := false }
    { ckpts := [(3, .complete 1), (5, .complete 2)] } =
    .ok { ckpts := [(3, .complete 1), (4, .complete 9), (5, .complete 2)] } := by rfl

/-! ## after a completed save the directory holds exactly what the policy promises -/

/-- The listing after a completed save is `policy keep every_n overwrite step (listing before)`, for both
back-ends, every `keep`, `keep_every_n_steps`, `overwrite`, and every directory in natural_sort order. -/
theorem policy_after_save {cfg : Cfg} {d d' : Dir} (hS : d.ckpts.Sorted) (h : save cfg d = .ok d') :
    listing d' = policy cfg.keep cfg.everyN cfg.overwrite cfg.step (listing d) ∧ d'.ckpts.Sorted := by
  have hck := save_ok_ckpts hS h
  refine ⟨?_, ?_⟩
  · unfold listing
    rw [hck, Files.steps_delAll, Files.steps_put]
    exact filter_removals_eq_policy ((Files.sorted_iff_steps _).mp hS) _ _ _ _
  · rw [hck]
    exact Files.sorted_delAll _ (Files.sorted_put _ _ hS)

/-- a completed save keeps the invariant: every listed name is a complete checkpoint -/
theorem save_preserves_inv {cfg : Cfg} {d d' : Dir} (hI : Inv d) (h : save cfg d = .ok d') : Inv d' := by
  refine ⟨(policy_after_save hI.sorted h).2, ?_⟩
  rw [save_ok_ckpts hI.sorted h]
  intro e he
  have he1 := (Files.mem_delAll.mp he).1
  rcases (Files.mem_put_of_sorted hI.sorted e).mp he1 with h1 | ⟨h1, _⟩
  · subst h1; simp
  · exact hI.complete e h1

/-- meaning of the policy, 1: with `overwrite` nothing above the saved step survives -/
theorem policy_overwrite_removes_newer (keep : Nat) (n : Int) (s : Int) (before : List Int) :
    ∀ x ∈ policy keep n true s before, x ≤ s := by
  intro x hx
  rw [policy_eq_keptOf] at hx
  have hs : s ∈ insertStep s before := (mem_insertStep s before s).mpr (Or.inl rfl)
  have := (keptOf_sublist _ _ _).subset hx
  rw [uptoOf_of_mem hs] at this
  simpa using (List.mem_filter.mp this).2

/-- meaning of the policy, 2: nothing is invented — what is listed was listed before or is the new step -/
theorem policy_subset (keep : Nat) (n : Int) (ovw : Bool) (s : Int) (before : List Int) :
    ∀ x ∈ policy keep n ovw s before, x = s ∨ x ∈ before := by
  intro x hx
  rw [policy_eq_keptOf] at hx
  exact (mem_insertStep s before x).mp (uptoOf_subset x ((keptOf_sublist _ _ _).subset hx))

/-- meaning of the policy, 3: the `keep` newest candidates stay.  A candidate (old step or the new one; not above
`s` when `overwrite`) that has fewer than `keep` candidates above it is listed afterwards.  In particular,
without `overwrite`, steps newer than the saved one are never removed for being newer. -/
theorem policy_keeps_newest {before : List Int} (hb : Asc before) (keep : Nat) (n : Int) (ovw : Bool) (s x : Int)
    (hx : x ∈ uptoOf ovw s (insertStep s before))
    (hfew : ((uptoOf ovw s (insertStep s before)).filter (fun y => decide (x < y))).length < keep) :
    x ∈ policy keep n ovw s before := by
  rw [policy_eq_keptOf]
  have hU : Asc (uptoOf ovw s (insertStep s before)) := uptoOf_asc (asc_insertStep s hb)
  rw [mem_keptOf hU]
  refine ⟨hx, ?_⟩
  intro hr
  have hx' := greedyRemove_subset _ _ _ x hr
  generalize uptoOf ovw s (insertStep s before) = U at *
  unfold oldOf at hx'
  split at hx'
  · rename_i hlen
    split at hx'
    · simp at hx'
    · -- the `keep` last candidates all lie above `x`
      have hsub : (U.drop (U.length - keep)).Sublist (U.filter (fun y => decide (x < y))) := by
        have h1 : (U.drop (U.length - keep)).filter (fun y => decide (x < y)) = U.drop (U.length - keep) := by
          apply List.filter_eq_self.mpr
          intro y hy
          simpa using asc_take_lt_drop hU _ hx' hy
        rw [← h1]
        exact List.Sublist.filter _ (List.drop_sublist _ _)
      have := hsub.length_le
      simp only [List.length_drop] at this
      omega
  · simp at hx'

/-- the shape of the every-n recurrence: what it keeps is non-zero and spaced by at least `n` -/
def Gapped (n : Int) : Option Int → List Int → Prop
  | _, [] => True
  | none, x :: xs => x ≠ 0 ∧ Gapped n (some x) xs
  | some l, x :: xs => x ≠ 0 ∧ n ≤ x - l ∧ Gapped n (some x) xs

/-- meaning of the policy, 4: the old checkpoints retained by `keep_every_n_steps` are those of the `last_kept`
recurrence: each is non-zero and at least `n` above the previously retained one; with `n = 0` (None) none is. -/
theorem greedyKeep_gapped (n : Int) (last : Option Int) (xs : List Int) :
    Gapped n last (greedyKeep n last xs) ∧ (n = 0 → greedyKeep n last xs = []) := by
  induction xs generalizing last with
  | nil => cases last <;> simp [greedyKeep, Gapped]
  | cons a r ih =>
    simp only [greedyKeep]
    by_cases hc : keepCond n last a = true
    · simp only [hc, if_true]
      have hc' := hc
      simp only [keepCond, Bool.and_eq_true, decide_eq_true_eq] at hc'
      refine ⟨?_, fun h0 => absurd h0 hc'.1.1⟩
      cases last with
      | none => exact ⟨hc'.1.2, (ih (some a)).1⟩
      | some l => exact ⟨hc'.1.2, by simpa using hc'.2, (ih (some a)).1⟩
    · have hc' : keepCond n last a = false := by simpa using hc
      simp only [hc', Bool.false_eq_true, if_false]
      exact ih last

/-- … and what the recurrence drops fails its test against the last retained step before it -/
theorem greedyRemove_reason (n : Int) (last : Option Int) (xs : List Int) :
    ∀ x ∈ greedyRemove n last xs, n = 0 ∨ x = 0 ∨
      ∃ l, (l ∈ greedyKeep n last xs ∨ last = some l) ∧ x - l < n := by
  induction xs generalizing last with
  | nil => simp [greedyRemove]
  | cons a r ih =>
    intro x hx
    simp only [greedyRemove, greedyKeep] at hx ⊢
    by_cases hc : keepCond n last a = true
    · simp only [hc, if_true] at hx ⊢
      rcases ih (some a) x hx with h | h | ⟨l, hl, hlt⟩
      · exact Or.inl h
      · exact Or.inr (Or.inl h)
      · refine Or.inr (Or.inr ⟨l, ?_, hlt⟩)
        rcases hl with hl | hl
        · exact Or.inl (List.mem_cons_of_mem _ hl)
        · cases hl; exact Or.inl List.mem_cons_self
    · have hc' : keepCond n last a = false := by simpa using hc
      simp only [hc', Bool.false_eq_true, if_false] at hx ⊢
      rcases List.mem_cons.mp hx with e | e
      · subst e
        by_cases h0 : n = 0
        · exact Or.inl h0
        by_cases hx0 : x = 0
        · exact Or.inr (Or.inl hx0)
        cases last with
        | none => simp [keepCond, h0, hx0] at hc'
        | some l =>
          refine Or.inr (Or.inr ⟨l, Or.inr rfl, ?_⟩)
          simp [keepCond, h0, hx0] at hc'
          omega
      · exact ih last x e

example : policy 2 0 false 6 [3, 4] = [4, 6] := by decide
example : policy 2 5 false 22 [1, 3, 7, 9, 12, 21] = [1, 7, 12, 21, 22] := by decide
example : policy 1 3 false 9 [0, 2, 4, 5, 8] = [2, 5, 8, 9] := by decide   -- step 0 is never retained by every-n
example : policy 3 0 true 5 [3, 4, 5, 6, 7] = [3, 4, 5] := by decide
example : policy 0 0 false 5 [3, 4] = [3, 4, 5] := by decide           -- `keep = 0`: Python `xs[:-0]` removes nothing


/-! ## restoring a retained step returns exactly the tree saved at that step -/

/-- One completed save: the saved step restores to the new payload, every other retained step restores to
what it restored to before. -/
theorem restore_after_save {cfg : Cfg} {d d' : Dir} (hS : d.ckpts.Sorted) (h : save cfg d = .ok d') :
    (cfg.step ∈ listing d' → restoreStep d' cfg.step = .ok cfg.payload) ∧
    (∀ x ∈ listing d', x ≠ cfg.step → restoreStep d' x = restoreStep d x) := by
  have hck := save_ok_ckpts hS h
  have hS' := (policy_after_save hS h).2
  constructor
  · intro hs
    obtain ⟨e, he, hes⟩ := Files.mem_steps.mp hs
    have he' := he
    rw [hck] at he'
    have he1 := (Files.mem_delAll.mp he').1
    have : e = (cfg.step, .complete cfg.payload) := by
      rcases (Files.mem_put_of_sorted hS e).mp he1 with h1 | ⟨_, h1⟩
      · exact h1
      · exact absurd hes h1
    subst this
    have := (Files.get_eq_some_iff hS' _ _).mpr he
    simp [restoreStep, this]
  · intro x hx hne
    obtain ⟨e, he, hex⟩ := Files.mem_steps.mp hx
    have he' := he
    rw [hck] at he'
    have he1 := (Files.mem_delAll.mp he').1
    have heF : e ∈ d.ckpts := by
      rcases (Files.mem_put_of_sorted hS e).mp he1 with h1 | ⟨h1, _⟩
      · subst h1; exact absurd hex hne.symm
      · exact h1
    obtain ⟨y, c⟩ := e
    simp only at hex
    subst hex
    have g1 := (Files.get_eq_some_iff hS' _ _).mpr he
    have g2 := (Files.get_eq_some_iff hS _ _).mpr heF
    simp [restoreStep, g1, g2]

/-- payload of the last successful save at each step, along a history -/
def savedAt : List Cfg → Dir → (Int → Option Nat) → (Int → Option Nat)
  | [], _, m => m
  | c :: cs, d, m =>
    match save c d with
    | .ok d' => savedAt cs d' (fun x => if x = c.step then some c.payload else m x)
    | .error _ => savedAt cs d m

/-- Every history of save calls (any back-end, steps, keep, every-n, overwrite; calls that raise included):
each step listed at the end restores to the payload of the last successful save at that step. -/
theorem restore_returns_saved (hist : List Cfg) :
    ∀ (d0 : Dir) (m0 : Int → Option Nat), Inv d0 →
      (∀ x ∈ listing d0, ∃ p, m0 x = some p ∧ restoreStep d0 x = .ok p) →
      ∀ x ∈ listing (runHistory hist d0),
        ∃ p, savedAt hist d0 m0 x = some p ∧ restoreStep (runHistory hist d0) x = .ok p := by
  induction hist with
  | nil => intro d0 m0 _ h0 x hx; exact h0 x hx
  | cons c cs ih =>
    intro d0 m0 hI h0
    simp only [runHistory, savedAt]
    cases hs : save c d0 with
    | error e => exact ih d0 m0 hI h0
    | ok d' =>
      simp only
      apply ih d' _ (save_preserves_inv hI hs)
      intro x hx
      have hr := restore_after_save hI.sorted hs
      by_cases hxs : x = c.step
      · subst hxs
        exact ⟨c.payload, by simp, hr.1 hx⟩
      · have hxb : x ∈ listing d0 := by
          have := (policy_after_save hI.sorted hs).1
          rw [this] at hx
          rcases policy_subset _ _ _ _ _ x hx with e | e
          · exact absurd e hxs
          · exact e
        obtain ⟨p, hp1, hp2⟩ := h0 x hxb
        exact ⟨p, by simp [hxs, hp1], by rw [hr.2 x hx hxs]; exact hp2⟩

/-- … from the empty directory: no hypothesis left -/
theorem restore_returns_saved_from_empty (hist : List Cfg) :
    ∀ x ∈ listing (runHistory hist Dir.empty),
      ∃ p, savedAt hist Dir.empty (fun _ => none) x = some p ∧
        restoreStep (runHistory hist Dir.empty) x = .ok p :=
  restore_returns_saved hist Dir.empty _ inv_empty (fun x hx => by simp [listing, Dir.empty, Files.steps] at hx)

/-- every directory produced by a history of completed saves satisfies the invariant -/
theorem history_inv (hist : List Cfg) : ∀ d0, Inv d0 → Inv (runHistory hist d0) := by
  induction hist with
  | nil => intro d0 h; exact h
  | cons c cs ih =>
    intro d0 hI
    simp only [runHistory]
    cases hs : save c d0 with
    | error e => exact ih d0 hI
    | ok d' => exact ih d' (save_preserves_inv hI hs)

/-! ## crash safety -/

/-- **Legacy back-end.** From a directory satisfying the invariant, for every configuration and every number `k` of
file-system steps performed before the crash (torn writes are the states between `create` and `writeAll`):
the crashed directory again satisfies the invariant — every listed name is a complete checkpoint, temporary
names are not listed — and its latest checkpoint is the previous latest or the new one. -/
theorem crash_safe_legacy {cfg : Cfg} {d : Dir} (hI : Inv d) (hb : cfg.backend = .legacy) (k : Nat) :
    Inv (crashed cfg d k) ∧
    (latest (crashed cfg d k) = latest d ∨
      latest (crashed cfg d k) = some (cfg.step, .complete cfg.payload)) := by
  cases hc : check cfg d with
  | error e =>
    have : crashed cfg d k = d := by simp [crashed, saveSteps_err hc]
    rw [this]; exact ⟨hI, Or.inl rfl⟩
  | ok u =>
    cases u
    rcases crashed_shape hI.sorted hc (fun h => by rw [hb] at h; cases h) k with h | ⟨j, h | ⟨h, _⟩⟩
    · refine ⟨⟨by rw [h]; exact hI.sorted, by rw [h]; exact hI.complete⟩, Or.inl ?_⟩
      simp [latest, h]
    · refine ⟨⟨?_, ?_⟩, ?_⟩
      · rw [h]; exact Files.sorted_delAll _ (Files.sorted_put _ _ hI.sorted)
      · rw [h]
        intro e he
        rcases (Files.mem_put_of_sorted hI.sorted e).mp (Files.mem_delAll.mp he).1 with h1 | ⟨h1, _⟩
        · subst h1; simp
        · exact hI.complete e h1
      · simp only [latest, h]
        exact partial_cleanup_latest hI.sorted _ _ _ _ _ _
    · rw [hb] at h; cases h

/-- **Orbax back-end**, when nothing at or above the saved step has to be deleted in place
(`overwrite=False`, or nothing listed at or above the step): for every crash point the latest checkpoint is the
previous latest or the new one, complete; a listed directory can be half deleted (a non-atomic `rmtree` of an
old checkpoint) only strictly below the latest. -/
theorem crash_safe_orbax {cfg : Cfg} {d : Dir} (hI : Inv d) (_hb : cfg.backend = .orbax)
    (hf : InPlaceFree cfg d) (k : Nat) :
    (crashed cfg d k).ckpts.Sorted ∧
    (latest (crashed cfg d k) = latest d ∨
      latest (crashed cfg d k) = some (cfg.step, .complete cfg.payload)) ∧
    (∀ e ∈ (crashed cfg d k).ckpts, e.2 = .torn → ∃ m, latest (crashed cfg d k) = some m ∧ e.1 < m.1) := by
  cases hc : check cfg d with
  | error e =>
    have : crashed cfg d k = d := by simp [crashed, saveSteps_err hc]
    rw [this]; exact ⟨hI.sorted, Or.inl rfl, fun e he ht => absurd ht (hI.complete e he)⟩
  | ok u =>
    cases u
    have hcompl : ∀ j, ∀ e ∈ Files.delAll ((removals cfg.keep cfg.everyN cfg.overwrite cfg.step
        (d.ckpts.put cfg.step (.complete cfg.payload)).steps).take j)
        (d.ckpts.put cfg.step (.complete cfg.payload)), e.2 ≠ .torn := by
      intro j e he
      rcases (Files.mem_put_of_sorted hI.sorted e).mp (Files.mem_delAll.mp he).1 with h1 | ⟨h1, _⟩
      · subst h1; simp
      · exact hI.complete e h1
    rcases crashed_shape hI.sorted hc (fun _ => hf) k with h | ⟨j, h | ⟨_, x, hx, h⟩⟩
    · refine ⟨by rw [h]; exact hI.sorted, Or.inl (by simp [latest, h]), ?_⟩
      intro e he ht; rw [h] at he; exact absurd ht (hI.complete e he)
    · refine ⟨?_, ?_, ?_⟩
      · rw [h]; exact Files.sorted_delAll _ (Files.sorted_put _ _ hI.sorted)
      · simp only [latest, h]
        exact partial_cleanup_latest hI.sorted _ _ _ _ _ _
      · intro e he ht; rw [h] at he; exact absurd ht (hcompl j e he)
    · have hN := newerOf_nil_of_free hf (.complete cfg.payload)
      have hSG := Files.sorted_delAll ((removals cfg.keep cfg.everyN cfg.overwrite cfg.step
        (d.ckpts.put cfg.step (.complete cfg.payload)).steps).take j) (Files.sorted_put cfg.step (.complete cfg.payload) hI.sorted)
      have htop := partial_cleanup_top hI.sorted cfg.step (.complete cfg.payload) cfg.keep cfg.everyN cfg.overwrite hN j
      have hxlt : ∀ m, (Files.delAll ((removals cfg.keep cfg.everyN cfg.overwrite cfg.step
          (d.ckpts.put cfg.step (.complete cfg.payload)).steps).take j)
          (d.ckpts.put cfg.step (.complete cfg.payload))).getLast? = some m → x < m.1 := by
        intro m hm
        rw [htop] at hm
        exact removals_lt_top hI.sorted _ _ _ _ _ hN hm x (List.mem_of_getElem? hx)
      have hlast := Files.damage_getLast hSG x hxlt
      refine ⟨?_, ?_, ?_⟩
      · rw [h]; exact Files.sorted_damage hSG x
      · simp only [latest, h, hlast]
        exact partial_cleanup_latest hI.sorted _ _ _ _ _ _
      · intro e he ht
        rw [h] at he
        rcases Files.mem_damage hSG x e he with ⟨h1, _⟩ | ⟨h1, _⟩
        · subst h1
          cases hl : (Files.delAll ((removals cfg.keep cfg.everyN cfg.overwrite cfg.step
              (d.ckpts.put cfg.step (.complete cfg.payload)).steps).take j)
              (d.ckpts.put cfg.step (.complete cfg.payload))).getLast? with
          | none =>
            -- the new checkpoint is still there: the list is not empty
            rw [htop] at hl
            have hnew : (cfg.step, Content.complete cfg.payload) ∈ d.ckpts.put cfg.step (.complete cfg.payload) :=
              (Files.mem_put_of_sorted hI.sorted _).mpr (Or.inl rfl)
            rw [List.getLast?_eq_none_iff.mp hl] at hnew
            simp at hnew
          | some m =>
            refine ⟨m, ?_, hxlt m hl⟩
            simp only [latest, h, hlast, hl]
        · exact absurd ht (hcompl j e h1)

/-- both back-ends in one statement: after any crash `restore_checkpoint` finds the previous latest or the new
checkpoint, never a partial or temporary file -/
theorem crash_safe {cfg : Cfg} {d : Dir} (hI : Inv d) (hf : cfg.backend = .orbax → InPlaceFree cfg d) (k : Nat) :
    restoreLatest (crashed cfg d k) = restoreLatest d ∨
    restoreLatest (crashed cfg d k) = .ok (some cfg.payload) := by
  have hl : latest (crashed cfg d k) = latest d ∨
      latest (crashed cfg d k) = some (cfg.step, .complete cfg.payload) := by
    cases hb : cfg.backend with
    | legacy => exact (crash_safe_legacy hI hb k).2
    | orbax => exact (crash_safe_orbax hI hb (hf hb) k).2.1
  rcases hl with h | h
  · left; simp [restoreLatest, h]
  · right; simp [restoreLatest, h]

/-- `restore_checkpoint` on a directory satisfying the invariant never meets a partial file -/
theorem restore_complete {d : Dir} (hI : Inv d) : ∃ r, restoreLatest d = .ok r := by
  unfold restoreLatest
  cases hl : latest d with
  | none => exact ⟨none, rfl⟩
  | some e =>
    obtain ⟨x, c⟩ := e
    cases c with
    | complete p => exact ⟨some p, rfl⟩
    | torn => exact absurd rfl (hI.complete _ (getLast?_mem hl))

/-- directories reachable from the empty one by completed saves (either back-end) and by legacy saves
interrupted at any point -/
inductive Reachable : Dir → Prop
  | empty : Reachable Dir.empty
  | saved {d d' : Dir} {cfg : Cfg} : Reachable d → save cfg d = .ok d' → Reachable d'
  | crashedLegacy {d : Dir} {cfg : Cfg} (k : Nat) : Reachable d → cfg.backend = .legacy → Reachable (crashed cfg d k)

theorem reachable_inv {d : Dir} (h : Reachable d) : Inv d := by
  induction h with
  | empty => exact inv_empty
  | saved _ hs ih => exact save_preserves_inv ih hs
  | crashedLegacy k _ hb ih => exact (crash_safe_legacy ih hb k).1

/-- crash safety over every reachable directory × every next save × every crash point -/
theorem crash_safe_reachable {d : Dir} (h : Reachable d) (cfg : Cfg)
    (hf : cfg.backend = .orbax → InPlaceFree cfg d) (k : Nat) :
    (restoreLatest (crashed cfg d k) = restoreLatest d ∨
      restoreLatest (crashed cfg d k) = .ok (some cfg.payload)) ∧
    ∃ r, restoreLatest (crashed cfg d k) = .ok r := by
  have hI := reachable_inv h
  have h1 := crash_safe hI hf k
  refine ⟨h1, ?_⟩
  obtain ⟨r, hr⟩ := restore_complete hI
  rcases h1 with h2 | h2
  · exact ⟨r, by rw [h2, hr]⟩
  · exact ⟨_, h2⟩


/-! ## saving can continue after a crash -/

/-- A step above everything listed saves normally, on either back-end, from any directory in natural_sort order
(in particular from every crashed directory): no error, the listing is what the policy promises, and the new
checkpoint is the latest and restores to its payload. -/
theorem save_later_step {cfg : Cfg} {d : Dir} (hS : d.ckpts.Sorted) (htop : ∀ x ∈ listing d, x < cfg.step) :
    ∃ d', save cfg d = .ok d' ∧
      listing d' = policy cfg.keep cfg.everyN cfg.overwrite cfg.step (listing d) ∧ d'.ckpts.Sorted ∧
      latest d' = some (cfg.step, .complete cfg.payload) ∧ restoreLatest d' = .ok (some cfg.payload) := by
  have hc : check cfg d = .ok () := by
    cases hb : cfg.backend with
    | legacy =>
      have : d.ckpts.steps.any (fun x => decide (cfg.step ≤ x)) = false := by
        apply Bool.eq_false_iff.mpr
        intro h
        obtain ⟨x, hx, hle⟩ := List.any_eq_true.mp h
        have := htop x hx
        simp at hle; omega
      cases ho : cfg.overwrite <;> simp [check, hb, ho, this]
    | orbax =>
      have : (d.ckpts.get cfg.step).isSome = false := by
        cases hg : (d.ckpts.get cfg.step).isSome with
        | false => rfl
        | true => have := htop _ ((Files.get_isSome_iff _ _).mp hg); omega
      simp [check, hb, this]
  have hsave : ∃ d', save cfg d = .ok d' := by rw [aux_save_eq, hc]; exact ⟨_, rfl⟩
  obtain ⟨d', hd'⟩ := hsave
  have hpol := policy_after_save hS hd'
  have hck := save_ok_ckpts hS hd'
  have htopF : ∀ x ∈ d.ckpts, x.1 < cfg.step := fun x hx => htop x.1 (Files.mem_steps.mpr ⟨x, hx, rfl⟩)
  have hmem : (cfg.step, Content.complete cfg.payload) ∈ d'.ckpts := by
    rw [hck]
    have := new_survives_if_top hS cfg.step (.complete cfg.payload) cfg.keep cfg.everyN cfg.overwrite htopF
      (removals cfg.keep cfg.everyN cfg.overwrite cfg.step (d.ckpts.put cfg.step (.complete cfg.payload)).steps).length
    rwa [List.take_length] at this
  have hlat : latest d' = some (cfg.step, .complete cfg.payload) := by
    apply latest_of_max hpol.2 hmem
    intro x hx
    rw [hpol.1] at hx
    rcases policy_subset _ _ _ _ _ x hx with e | e
    · simp [e]
    · have := htop x e; simp only; omega
  exact ⟨d', hd', hpol.1, hpol.2, hlat, by simp [restoreLatest, hlat]⟩

/-- Retrying the interrupted call (legacy back-end): it succeeds, unless the crash came after the commit — then
the step is already there with the new payload and, without `overwrite`, the retry raises
`InvalidCheckpointError`. -/
theorem retry_after_crash_legacy {cfg : Cfg} {d d1 : Dir} (hI : Inv d) (hb : cfg.backend = .legacy)
    (hfirst : save cfg d = .ok d1) (k : Nat) :
    (∃ d'', save cfg (crashed cfg d k) = .ok d'') ∨
    (cfg.overwrite = false ∧ restoreStep (crashed cfg d k) cfg.step = .ok cfg.payload ∧
      save cfg (crashed cfg d k) = .error .invalidCheckpoint) := by
  cases ho : cfg.overwrite with
  | true => exact Or.inl (overwrite_never_raises _ ho)
  | false =>
    have hnot : ¬ ∃ x ∈ listing d, cfg.step ≤ x := by
      intro h
      have := (legacy_rejects_iff d hb ho).mpr h
      rw [this] at hfirst; cases hfirst
    have hc : check cfg d = .ok () := by
      cases hc : check cfg d with
      | error e => rw [aux_save_eq, hc] at hfirst; cases hfirst
      | ok u => rfl
    rcases crashed_shape hI.sorted hc (fun h => by rw [hb] at h; cases h) k with h | ⟨j, h | ⟨h, _⟩⟩
    · left
      have hl : listing (crashed cfg d k) = listing d := by simp [listing, h]
      have hany : (crashed cfg d k).ckpts.steps.any (fun x => decide (cfg.step ≤ x)) = false := by
        apply Bool.eq_false_iff.mpr
        intro h2
        obtain ⟨x, hx, hle⟩ := List.any_eq_true.mp h2
        exact hnot ⟨x, by rw [← hl]; exact hx, by simpa using hle⟩
      have hc2 : check cfg (crashed cfg d k) = .ok () := by simp [check, hb, ho, hany]
      rw [aux_save_eq, hc2]; exact ⟨_, rfl⟩
    · right
      have htopF : ∀ x ∈ d.ckpts, x.1 < cfg.step := by
        intro x hx
        have : ¬ cfg.step ≤ x.1 := fun hle => hnot ⟨x.1, Files.mem_steps.mpr ⟨x, hx, rfl⟩, hle⟩
        omega
      have hmem : (cfg.step, Content.complete cfg.payload) ∈ (crashed cfg d k).ckpts := by
        rw [h]; exact new_survives_if_top hI.sorted _ _ _ _ _ htopF j
      have hSd : (crashed cfg d k).ckpts.Sorted := (crash_safe_legacy hI hb k).1.sorted
      refine ⟨rfl, ?_, ?_⟩
      · have := (Files.get_eq_some_iff hSd _ _).mpr hmem
        simp [restoreStep, this]
      · apply (legacy_rejects_iff _ hb ho).mpr
        exact ⟨cfg.step, Files.mem_steps.mpr ⟨_, hmem, rfl⟩, Int.le_refl _⟩
    · rw [hb] at h; cases h

/-- Retrying the interrupted call (**Orbax back-end**, under A-ORBAX: the step sequence of `prepare`/`commit`): after a
crash at any point the retry succeeds, unless the commit rename had already happened (`k` is past the last step of
`prepare`) and the step is still listed — then, without `overwrite`, Orbax refuses the existing destination; what is
listed there is the new checkpoint, complete, or (only if the retention had already started to delete this very step
because it is older than the `keep` newest) a half-deleted directory strictly below the latest checkpoint.
No `InPlaceFree` hypothesis: with `overwrite` the retry never raises, without it nothing is deleted in place. -/
theorem retry_after_crash_orbax {cfg : Cfg} {d d1 : Dir} (hI : Inv d) (hb : cfg.backend = .orbax)
    (hfirst : save cfg d = .ok d1) (k : Nat) :
    (∃ d'', save cfg (crashed cfg d k) = .ok d'') ∨
    (cfg.overwrite = false ∧ (prepare cfg d).length < k ∧
      save cfg (crashed cfg d k) = .error .destinationExists ∧
      (restoreStep (crashed cfg d k) cfg.step = .ok cfg.payload ∨
        (restoreStep (crashed cfg d k) cfg.step = .error .corrupt ∧
          ∃ m, latest (crashed cfg d k) = some m ∧ cfg.step < m.1))) := by
  cases ho : cfg.overwrite with
  | true => exact Or.inl (overwrite_never_raises _ ho)
  | false =>
    have hf : InPlaceFree cfg d := by intro h; rw [ho] at h; cases h.1
    have hc : check cfg d = .ok () := by
      cases hc : check cfg d with
      | error e => rw [aux_save_eq, hc] at hfirst; cases hfirst
      | ok u => rfl
    have hnot : cfg.step ∉ listing d := by
      intro h
      have := (orbax_rejects_iff d hb ho).mpr h
      rw [this] at hfirst; cases hfirst
    -- if the step is not listed after the crash, the retry passes Orbax's check
    have hfree : cfg.step ∉ listing (crashed cfg d k) → ∃ d'', save cfg (crashed cfg d k) = .ok d'' := by
      intro hn
      cases hs : save cfg (crashed cfg d k) with
      | ok d'' => exact ⟨d'', rfl⟩
      | error e =>
        exfalso
        have hg : (Files.get cfg.step (crashed cfg d k).ckpts).isSome = false := by
          cases hg : (Files.get cfg.step (crashed cfg d k).ckpts).isSome with
          | false => rfl
          | true => exact absurd ((Files.get_isSome_iff _ _).mp hg) hn
        have hc2 : check cfg (crashed cfg d k) = .ok () := by simp [check, hb, ho, hg]
        rw [aux_save_eq, hc2] at hs; cases hs
    by_cases hk : k ≤ (prepare cfg d).length
    · left
      apply hfree
      have := crashed_before_commit hc (fun _ => hf) hk
      simpa [listing, this] using hnot
    · by_cases hin : cfg.step ∈ listing (crashed cfg d k)
      · right
        obtain ⟨hS, _, htorn⟩ := crash_safe_orbax hI hb hf k
        refine ⟨rfl, by omega, (orbax_rejects_iff _ hb ho).mpr hin, ?_⟩
        obtain ⟨e, he, hes⟩ := Files.mem_steps.mp hin
        obtain ⟨x, cnt⟩ := e
        simp only at hes
        subst hes
        have hget := (Files.get_eq_some_iff hS _ _).mpr he
        cases cnt with
        | torn =>
          right
          exact ⟨by simp [restoreStep, hget], htorn _ he rfl⟩
        | complete p =>
          left
          -- a complete entry at the saved step after the crash is the new one: the step was not listed before
          have hp : p = cfg.payload := by
            rcases crashed_shape hI.sorted hc (fun _ => hf) k with h | ⟨j, h | ⟨_, y, _, h⟩⟩
            · rw [h] at he
              exact absurd (Files.mem_steps.mpr ⟨_, he, rfl⟩) hnot
            · rw [h] at he
              rcases (Files.mem_put_of_sorted hI.sorted _).mp (Files.mem_delAll.mp he).1 with h1 | ⟨h1, _⟩
              · cases h1; rfl
              · exact absurd (Files.mem_steps.mpr ⟨_, h1, rfl⟩) hnot
            · rw [h] at he
              have hSG := Files.sorted_delAll ((removals cfg.keep cfg.everyN cfg.overwrite cfg.step
                (d.ckpts.put cfg.step (.complete cfg.payload)).steps).take j)
                (Files.sorted_put cfg.step (.complete cfg.payload) hI.sorted)
              rcases Files.mem_damage hSG y _ he with ⟨h1, _⟩ | ⟨h1, _⟩
              · cases h1
              · rcases (Files.mem_put_of_sorted hI.sorted _).mp (Files.mem_delAll.mp h1).1 with h2 | ⟨h2, _⟩
                · cases h2; rfl
                · exact absurd (Files.mem_steps.mpr ⟨_, h2, rfl⟩) hnot
          subst hp
          simp [restoreStep, hget]
      · exact Or.inl (hfree hin)

/-- both outcomes of `retry_after_crash_orbax` occur -/
example : ∃ d'', save { backend := .orbax, step := 5, payload := 5, keep := 2, everyN := 0, overwrite := false }
    (crashed { backend := .orbax, step := 5, payload := 5, keep := 2, everyN := 0, overwrite := false }
      { ckpts := [(3, .complete 3), (4, .complete 4)] } 2) = .ok d'' := ⟨_, rfl⟩
example : save { backend := .orbax, step := 5, payload := 5, keep := 2, everyN := 0, overwrite := false }
    (crashed { backend := .orbax, step := 5, payload := 5, keep := 2, everyN := 0, overwrite := false }
      { ckpts := [(3, .complete 3), (4, .complete 4)] } 4) = .error .destinationExists := rfl

/-- **crash, then continue** (legacy back-end): from any reachable directory, after a crash at any point of
any save, any later step saves normally and re-establishes the retention policy; the result is again reachable,
so this can be repeated for ever. -/
theorem crash_then_continue {d : Dir} (h : Reachable d) {cfg : Cfg} (hb : cfg.backend = .legacy) (k : Nat)
    (cfg2 : Cfg) (hlater : ∀ x ∈ listing (crashed cfg d k), x < cfg2.step) :
    ∃ d'', save cfg2 (crashed cfg d k) = .ok d'' ∧ Reachable d'' ∧ Inv d'' ∧
      listing d'' = policy cfg2.keep cfg2.everyN cfg2.overwrite cfg2.step (listing (crashed cfg d k)) ∧
      restoreLatest d'' = .ok (some cfg2.payload) := by
  have hr : Reachable (crashed cfg d k) := Reachable.crashedLegacy k h hb
  have hI := reachable_inv hr
  obtain ⟨d'', h1, h2, _, _, h5⟩ := save_later_step (cfg := cfg2) hI.sorted hlater
  exact ⟨d'', h1, Reachable.saved hr h1, save_preserves_inv hI h1, h2, h5⟩

/-- the same for an interrupted Orbax save (nothing deleted in place): a later step saves normally, the listing
is the policy's, and the new checkpoint is the latest, complete -/
theorem crash_then_continue_orbax {d : Dir} (hI : Inv d) {cfg : Cfg} (hb : cfg.backend = .orbax)
    (hf : InPlaceFree cfg d) (k : Nat) (cfg2 : Cfg) (hlater : ∀ x ∈ listing (crashed cfg d k), x < cfg2.step) :
    ∃ d'', save cfg2 (crashed cfg d k) = .ok d'' ∧
      listing d'' = policy cfg2.keep cfg2.everyN cfg2.overwrite cfg2.step (listing (crashed cfg d k)) ∧
      latest d'' = some (cfg2.step, .complete cfg2.payload) ∧
      restoreLatest d'' = .ok (some cfg2.payload) := by
  obtain ⟨d'', h1, h2, _, h4, h5⟩ :=
    save_later_step (cfg := cfg2) (crash_safe_orbax hI hb hf k).1 hlater
  exact ⟨d'', h1, h2, h4, h5⟩

/-- a legacy configuration for the examples -/
def exCfg (s : Int) (p : Nat) : Cfg :=
  { backend := .legacy, step := s, payload := p, keep := 2, everyN := 0, overwrite := false }

/-- saves of steps 3 and 4, then a save of step 5 that dies inside the write of the temp file: reachable, and the
crashed directory still lists 3 and 4 while holding a partial temp file -/
example : Reachable (crashed (exCfg 5 5) { ckpts := [(3, .complete 3), (4, .complete 4)] } 2) :=
  Reachable.crashedLegacy 2
    (Reachable.saved (d := { ckpts := [(3, .complete 3)] }) (cfg := exCfg 4 4)
      (Reachable.saved (d := Dir.empty) (cfg := exCfg 3 3) Reachable.empty rfl) rfl) rfl

example : crashed (exCfg 5 5) { ckpts := [(3, .complete 3), (4, .complete 4)] } 2 =
    { ckpts := [(3, .complete 3), (4, .complete 4)], tmp := some .torn } := by decide

example : crashed (exCfg 5 5) { ckpts := [(3, .complete 3), (4, .complete 4)] } 4 =
    { ckpts := [(3, .complete 3), (4, .complete 4), (5, .complete 5)] } := by decide

example : save (exCfg 5 5) { ckpts := [(3, .complete 3), (4, .complete 4)], tmp := some .torn } =
    .ok { ckpts := [(4, .complete 4), (5, .complete 5)] } := by rfl


/-! ## AsyncManager: every schedule leaves the directory of the synchronous execution -/

/-- what is still to happen in a state: the pending steps, then the queued saves one after the other -/
private def finishDir (st : AState) : Dir := runHistory st.queue (run st.pending st.dir)
private def finishErrs (st : AState) : List (Option Err) :=
  st.errs ++ historyErrs st.queue (run st.pending st.dir)

private theorem aux_save_of_steps (c : Cfg) (d : Dir) :
    save c d = match saveSteps c d with
      | .error e => .error e
      | .ok st => .ok (run st d) := rfl

private theorem aux_amove_preserves {m : Move} {st st' : AState} (h : amove true m st = some st') :
    finishDir st' = finishDir st ∧ finishErrs st' = finishErrs st := by
  cases m with
  | worker =>
    simp only [amove] at h
    cases hp : st.pending with
    | nil => rw [hp] at h; cases h
    | cons x r =>
      rw [hp] at h
      simp only [Option.some.injEq] at h
      subst h
      simp [finishDir, finishErrs, hp, run_cons]
  | caller =>
    simp only [amove] at h
    cases hq : st.queue with
    | nil => rw [hq] at h; cases h
    | cons c q =>
      rw [hq] at h
      simp only at h
      cases hp : st.pending with
      | cons x r => rw [hp] at h; simp at h
      | nil =>
        rw [hp] at h
        simp only [List.isEmpty_nil, Bool.not_true, Bool.and_false, Bool.false_eq_true, if_false,
          List.nil_append] at h
        cases hs : saveSteps c st.dir with
        | error e =>
          rw [hs] at h
          simp only [Option.some.injEq] at h
          subst h
          simp [finishDir, finishErrs, hq, hp, run_nil, runHistory, historyErrs, aux_save_of_steps, hs]
        | ok steps =>
          rw [hs] at h
          simp only [Option.some.injEq] at h
          subst h
          simp [finishDir, finishErrs, hq, hp, run_nil, runHistory, historyErrs, aux_save_of_steps, hs]

private theorem aux_aexec_preserves (sched : List Move) :
    ∀ st, finishDir (aexec true sched st) = finishDir st ∧ finishErrs (aexec true sched st) = finishErrs st := by
  induction sched with
  | nil => intro st; exact ⟨rfl, rfl⟩
  | cons m ms ih =>
    intro st
    simp only [aexec]
    cases hm : amove true m st with
    | none => exact ih st
    | some st' =>
      have h1 := aux_amove_preserves hm
      have h2 := ih st'
      exact ⟨h2.1.trans h1.1, h2.2.trans h1.2⟩

/-- For every schedule of the caller and the worker (one pending task; the caller blocks in
`wait_previous_save` while a save is pending): once everything is done, the directory and the errors seen by the
caller are those of the same saves performed synchronously. -/
theorem async_eq_sync (sched : List Move) (d : Dir) (q : List Cfg)
    (hdone : (aexec true sched (ainit d q)).done = true) :
    (aexec true sched (ainit d q)).dir = runHistory q d ∧
    (aexec true sched (ainit d q)).errs = historyErrs q d := by
  have h := aux_aexec_preserves sched (ainit d q)
  simp only [AState.done, Bool.and_eq_true, List.isEmpty_iff] at hdone
  have h1 : finishDir (aexec true sched (ainit d q)) = (aexec true sched (ainit d q)).dir := by
    simp [finishDir, hdone.1, hdone.2, run_nil, runHistory]
  have h2 : finishErrs (aexec true sched (ainit d q)) = (aexec true sched (ainit d q)).errs := by
    simp [finishErrs, hdone.1, hdone.2, historyErrs]
  rw [← h1, ← h2, h.1, h.2]
  simp [finishDir, finishErrs, ainit, run_nil]

/-- non-vacuity: a schedule that interleaves and finishes -/
example : (aexec true [.caller, .worker, .caller, .worker, .worker, .worker, .caller, .worker, .worker, .worker,
    .worker, .worker] (ainit Dir.empty [exCfg 1 1, exCfg 2 2])).done = true := by decide

/-- the wait is what makes it true: without it, two saves of the same step both pass the overwrite check and the
second silently replaces the first, where the synchronous execution raises -/
theorem async_without_wait_differs :
    ∃ sched q, (aexec false sched (ainit Dir.empty q)).done = true ∧
      (aexec false sched (ainit Dir.empty q)).dir ≠ runHistory q Dir.empty :=
  ⟨[.caller, .caller, .worker, .worker, .worker, .worker, .worker, .worker, .worker, .worker, .worker],
   [exCfg 1 1, exCfg 1 2], by decide, by decide⟩

/-! ## the defects the model is not allowed to have, as counter-examples -/

/-- finding F10 (repaired in /repo): the shipped `_remove_invalid_ckpts` counted the temporary directory of an
interrupted Orbax save; with steps 3, 4 saved and a leftover of step 5, saving step 6 with `keep=2` left a
single checkpoint.  The repaired definition keeps two. -/
theorem f10_orig_counts_temp :
    (saveOrig { backend := .orbax, step := 6, payload := 6, keep := 2, everyN := 0, overwrite := false }
      { ckpts := [(3, .complete 3), (4, .complete 4)], otmps := [(5, .torn)] }).map listing = .ok [6] ∧
    (save { backend := .orbax, step := 6, payload := 6, keep := 2, everyN := 0, overwrite := false }
      { ckpts := [(3, .complete 3), (4, .complete 4)], otmps := [(5, .torn)] }).map listing = .ok [4, 6] :=
  ⟨rfl, rfl⟩

/-- … and the shipped `_check_overwrite_error` rejected a step that was never committed -/
theorem f10_orig_rejects_uncommitted_step :
    saveOrig { backend := .legacy, step := 5, payload := 5, keep := 2, everyN := 0, overwrite := false }
      { ckpts := [(3, .complete 3), (4, .complete 4)], otmps := [(5, .torn)] } = .error .invalidCheckpoint ∧
    (save { backend := .legacy, step := 5, payload := 5, keep := 2, everyN := 0, overwrite := false }
      { ckpts := [(3, .complete 3), (4, .complete 4)], otmps := [(5, .torn)] }).map listing = .ok [4, 5] :=
  ⟨rfl, rfl⟩

/-- finding F15 (known, not repaired): the hypothesis `InPlaceFree` of `crash_safe_orbax` cannot be dropped.
Orbax's `save(force=True)` deletes the destination before writing: overwriting the only checkpoint and dying
before the rename leaves no checkpoint at all. -/
theorem orbax_overwrite_crash_loses_latest :
    latest (crashed { backend := .orbax, step := 15, payload := 2, keep := 1, everyN := 0, overwrite := true }
      { ckpts := [(15, .complete 1)] } 3) = none := by decide

/-- … and `_remove_invalid_ckpts` deletes newer directories in place: dying inside the `rmtree` of the newest one
leaves a half-deleted latest checkpoint. -/
theorem orbax_overwrite_newer_crash_corrupts_latest :
    latest (crashed { backend := .orbax, step := 5, payload := 9, keep := 2, everyN := 0, overwrite := true }
      { ckpts := [(5, .complete 1), (7, .complete 2)] } 6) = some (7, .torn) := by decide

/-- the same history on the legacy back-end is safe (files are replaced and unlinked atomically) -/
example : latest (crashed { backend := .legacy, step := 5, payload := 9, keep := 2, everyN := 0, overwrite := true }
      { ckpts := [(5, .complete 1), (7, .complete 2)] } 4) = some (7, .complete 2) := by decide

/-- non-vacuity of `InPlaceFree` with `overwrite=True` -/
example : InPlaceFree { backend := .orbax, step := 9, payload := 9, keep := 2, everyN := 0, overwrite := true }
    { ckpts := [(5, .complete 1), (7, .complete 2)] } := by
  intro h
  obtain ⟨_, x, hx, hle⟩ := h
  simp [listing, Files.steps] at hx
  simp only at hle
  rcases hx with rfl | rfl <;> omega

/-! ## the positional code and the value-based model agree on a sorted listing -/

/-- `checkpoint_files[index(path)+1:]` / `[:index+1]` on an ascending list are the elements above / up to `s` -/
theorem newerOf_eq_drop {l : List Int} (hl : Asc l) {s : Int} (hs : s ∈ l) :
    l.filter (fun x => decide (s < x)) = l.drop (l.idxOf s + 1) ∧
    l.filter (fun x => decide (x ≤ s)) = l.take (l.idxOf s + 1) := by
  induction l with
  | nil => simp at hs
  | cons a r ih =>
    have ha := List.pairwise_cons.mp hl
    by_cases has : a = s
    · subst has
      have h1 : r.filter (fun x => decide (a < x)) = r :=
        List.filter_eq_self.mpr (fun x hx => by simpa using ha.1 x hx)
      have h2 : r.filter (fun x => decide (x ≤ a)) = [] :=
        List.filter_eq_nil_iff.mpr (fun x hx => by have := ha.1 x hx; simp; omega)
      simp [List.filter_cons, h1, h2]
    · have hsr : s ∈ r := by
        rcases List.mem_cons.mp hs with e | e
        · exact absurd e.symm has
        · exact e
      have hlt : a < s := ha.1 s hsr
      have := ih ha.2 hsr
      have hidx : (a :: r).idxOf s = r.idxOf s + 1 := by
        have hne : (a == s) = false := by simpa using has
        simp [List.idxOf_cons, hne]
      rw [hidx]
      constructor
      · simp only [List.filter_cons, List.drop_succ_cons]
        have : ¬ s < a := by omega
        simp only [this, decide_false, Bool.false_eq_true, if_false]
        exact ‹_ ∧ _›.1
      · simp only [List.filter_cons, List.take_succ_cons]
        have : a ≤ s := by omega
        simp only [this, decide_true, if_true]
        congr 1
        exact ‹_ ∧ _›.2

/-! ## a reader concurrent with an asynchronous save -/

private theorem aux_take_succ {α} : ∀ (steps : List α) (k : Nat) (x : α) (r : List α),
    steps.drop k = x :: r → steps.take (k + 1) = steps.take k ++ [x] ∧ steps.drop (k + 1) = r := by
  intro steps
  induction steps with
  | nil => intro k x r h; simp at h
  | cons a t ih =>
    intro k x r h
    cases k with
    | zero =>
      simp only [List.drop_zero, List.cons.injEq] at h
      obtain ⟨rfl, rfl⟩ := h
      simp
    | succ k' =>
      simp only [List.drop_succ_cons] at h
      obtain ⟨h1, h2⟩ := ih k' x r h
      simp only [List.take_succ_cons, List.drop_succ_cons, List.cons_append]
      exact ⟨by rw [h1], h2⟩

/-- the state invariant of the two-party machine when every queued save uses the legacy back-end -/
private def AInv (st : AState) : Prop :=
  (∀ c ∈ st.queue, c.backend = .legacy) ∧
  ((st.pending = [] ∧ Reachable st.dir) ∨
   (∃ d0 cfg steps k, Reachable d0 ∧ cfg.backend = .legacy ∧ saveSteps cfg d0 = .ok steps ∧
      st.dir = run (steps.take k) d0 ∧ st.pending = steps.drop k))

private theorem aux_ainv_reachable {st : AState} (h : AInv st) : Reachable st.dir := by
  rcases h.2 with ⟨_, h⟩ | ⟨d0, cfg, steps, k, hr, hb, hs, hd, _⟩
  · exact h
  · have : st.dir = crashed cfg d0 k := by simp [crashed, hs, hd]
    rw [this]
    exact Reachable.crashedLegacy k hr hb

private theorem aux_ainv_move {m : Move} {st st' : AState} (hI : AInv st) (h : amove true m st = some st') :
    AInv st' := by
  cases m with
  | worker =>
    simp only [amove] at h
    cases hp : st.pending with
    | nil => rw [hp] at h; cases h
    | cons x r =>
      rw [hp] at h
      simp only [Option.some.injEq] at h
      subst h
      refine ⟨hI.1, ?_⟩
      rcases hI.2 with ⟨h0, _⟩ | ⟨d0, cfg, steps, k, hr, hb, hs, hd, hpend⟩
      · rw [h0] at hp; cases hp
      · right
        rw [hp] at hpend
        obtain ⟨h1, h2⟩ := aux_take_succ steps k x r hpend.symm
        refine ⟨d0, cfg, steps, k + 1, hr, hb, hs, ?_, h2.symm⟩
        simp only
        rw [h1, run_append, ← hd]
        rfl
  | caller =>
    simp only [amove] at h
    cases hq : st.queue with
    | nil => rw [hq] at h; cases h
    | cons c q =>
      rw [hq] at h
      simp only at h
      have hqleg : ∀ c' ∈ q, c'.backend = .legacy := fun c' hc' => hI.1 c' (by rw [hq]; exact List.mem_cons_of_mem _ hc')
      have hcleg : c.backend = .legacy := hI.1 c (by rw [hq]; exact List.mem_cons_self)
      cases hp : st.pending with
      | cons x r => rw [hp] at h; simp at h
      | nil =>
        rw [hp] at h
        simp only [List.isEmpty_nil, Bool.not_true, Bool.and_false, Bool.false_eq_true, if_false,
          List.nil_append] at h
        have hreach := aux_ainv_reachable hI
        cases hs : saveSteps c st.dir with
        | error e =>
          rw [hs] at h
          simp only [Option.some.injEq] at h
          subst h
          exact ⟨hqleg, Or.inl ⟨rfl, hreach⟩⟩
        | ok steps =>
          rw [hs] at h
          simp only [Option.some.injEq] at h
          subst h
          exact ⟨hqleg, Or.inr ⟨st.dir, c, steps, 0, hreach, hcleg, hs, by simp [run_nil], by simp⟩⟩

/-- At every moment of every schedule of asynchronous legacy saves the directory is one a crash could have left
(it is `Reachable`): a reader running concurrently with the worker — `latest_checkpoint`, `restore_checkpoint` —
finds complete checkpoints only, the previous latest or the new one. -/
theorem async_reader_safe (sched : List Move) (d : Dir) (q : List Cfg) (hd : Reachable d)
    (hq : ∀ c ∈ q, c.backend = .legacy) :
    Reachable (aexec true sched (ainit d q)).dir ∧ Inv (aexec true sched (ainit d q)).dir := by
  have key : ∀ (sched : List Move) (st : AState), AInv st → AInv (aexec true sched st) := by
    intro sched
    induction sched with
    | nil => intro st h; exact h
    | cons m ms ih =>
      intro st h
      simp only [aexec]
      cases hm : amove true m st with
      | none => exact ih st h
      | some st' => exact ih st' (aux_ainv_move h hm)
  have h0 : AInv (ainit d q) := ⟨hq, Or.inl ⟨rfl, hd⟩⟩
  have := aux_ainv_reachable (key sched _ h0)
  exact ⟨this, reachable_inv this⟩

/-! ## step values may be scaled: the model's integers stand for any rational step values -/

private theorem aux_keepCond_scale (D : Int) (hD : 0 < D) (n : Int) (last : Option Int) (x : Int) :
    keepCond (n * D) (last.map (· * D)) (x * D) = keepCond n last x := by
  have hD0 : D ≠ 0 := by omega
  have h1 : (n * D ≠ 0) ↔ (n ≠ 0) := by simp [Int.mul_eq_zero, hD0]
  have h2 : (x * D ≠ 0) ↔ (x ≠ 0) := by simp [Int.mul_eq_zero, hD0]
  unfold keepCond
  cases last with
  | none => simp only [Option.map_none]; rw [decide_eq_decide.mpr h1, decide_eq_decide.mpr h2]
  | some l =>
    simp only [Option.map_some]
    have h3 : (n * D ≤ x * D - l * D) ↔ (n ≤ x - l) := by
      rw [← Int.sub_mul]; exact Int.mul_le_mul_right hD
    rw [decide_eq_decide.mpr h1, decide_eq_decide.mpr h2, decide_eq_decide.mpr h3]

theorem greedyKeep_scale (D : Int) (hD : 0 < D) (n : Int) (last : Option Int) (xs : List Int) :
    greedyKeep (n * D) (last.map (· * D)) (xs.map (· * D)) = (greedyKeep n last xs).map (· * D) := by
  induction xs generalizing last with
  | nil => simp [greedyKeep]
  | cons a r ih =>
    simp only [List.map_cons, greedyKeep, aux_keepCond_scale D hD]
    by_cases hc : keepCond n last a = true
    · simp only [hc, if_true, List.map_cons]
      have := ih (some a)
      simp only [Option.map_some] at this
      rw [this]
    · have hc' : keepCond n last a = false := by simpa using hc
      simp only [hc', Bool.false_eq_true, if_false]
      exact ih last

private theorem aux_insertStep_scale (D : Int) (hD : 0 < D) (s : Int) (l : List Int) :
    insertStep (s * D) (l.map (· * D)) = (insertStep s l).map (· * D) := by
  have hD0 : D ≠ 0 := by omega
  induction l with
  | nil => simp [insertStep]
  | cons a r ih =>
    simp only [List.map_cons, insertStep]
    have h1 : (s * D < a * D) ↔ (s < a) := Int.mul_lt_mul_right hD
    have h2 : (s * D = a * D) ↔ (s = a) := Int.mul_eq_mul_right_iff hD0
    by_cases c1 : s < a
    · simp [c1, h1.mpr c1]
    · have c1' : ¬ s * D < a * D := fun h => c1 (h1.mp h)
      by_cases c2 : s = a
      · simp [c1, c1', c2]
      · have c2' : ¬ s * D = a * D := fun h => c2 (h2.mp h)
        simp only [c1, c1', c2, c2', if_false, List.map_cons, ih]

/-- The policy commutes with scaling every step value and `keep_every_n_steps` by a positive factor: only the
order of the step values, whether one is zero, and whether a difference reaches `n` matter.  (The harness maps the
rational step values of a history to integers by their common denominator.) -/
theorem policy_scale (D : Int) (hD : 0 < D) (keep : Nat) (n : Int) (ovw : Bool) (s : Int) (before : List Int) :
    policy keep (n * D) ovw (s * D) (before.map (· * D)) = (policy keep n ovw s before).map (· * D) := by
  unfold policy
  simp only [aux_insertStep_scale D hD]
  have hf : ∀ l : List Int, (l.map (· * D)).filter (fun x => decide (x ≤ s * D)) =
      (l.filter (fun x => decide (x ≤ s))).map (· * D) := by
    intro l
    rw [List.filter_map]
    congr 1
    apply List.filter_congr
    intro x _
    simp only [Function.comp]
    exact decide_eq_decide.mpr (Int.mul_le_mul_right hD)
  cases ovw with
  | false =>
    simp only [Bool.false_eq_true, if_false]
    split
    · rfl
    · have := greedyKeep_scale D hD n none
      simp only [Option.map_none] at this
      simp only [List.length_map, ← List.map_take, ← List.map_drop, this, List.map_append]
  | true =>
    simp only [if_true, hf]
    split
    · rfl
    · have := greedyKeep_scale D hD n none
      simp only [Option.map_none] at this
      simp only [List.length_map, ← List.map_take, ← List.map_drop, this, List.map_append]

example : policy 2 (3 * 4) false (9 * 4) ([2, 4, 5, 8].map (· * 4)) = (policy 2 3 false 9 [2, 4, 5, 8]).map (· * 4) := by
  decide


/-! ## the hypotheses of the theorems above are satisfiable by non-trivial instances -/

example : Inv { ckpts := [(5, .complete 1), (7, .complete 2)], tmp := some .torn, otmps := [(8, .torn)] } :=
  ⟨by simp [Files.Sorted], by intro e he; simp at he; rcases he with rfl | rfl <;> simp⟩

-- `crash_safe_orbax`: an Orbax save of a new latest step into a directory with a leftover temp dir
example : InPlaceFree { backend := .orbax, step := 8, payload := 3, keep := 1, everyN := 0, overwrite := false }
    { ckpts := [(5, .complete 1), (7, .complete 2)], otmps := [(8, .torn)] } := by
  intro h; simp at h

-- … and its conclusion is about real torn states: dying inside the rmtree of an old checkpoint
example : crashed { backend := .orbax, step := 8, payload := 3, keep := 1, everyN := 0, overwrite := false }
    { ckpts := [(5, .complete 1), (7, .complete 2)], otmps := [(8, .torn)] } 6 =
    { ckpts := [(5, .torn), (7, .complete 2), (8, .complete 3)] } := by decide

-- `save_later_step` / `crash_then_continue`
example : ∀ x ∈ listing { ckpts := [(5, .complete 1), (7, .complete 2)], tmp := some .torn }, x < (exCfg 9 9).step := by
  intro x hx; simp [listing, Files.steps] at hx; rcases hx with rfl | rfl <;> simp [exCfg]

-- `retry_after_crash_legacy`: both outcomes occur
example : ∃ d'', save (exCfg 5 5) (crashed (exCfg 5 5) { ckpts := [(3, .complete 3), (4, .complete 4)] } 3) = .ok d'' :=
  ⟨_, rfl⟩
example : save (exCfg 5 5) (crashed (exCfg 5 5) { ckpts := [(3, .complete 3), (4, .complete 4)] } 4) =
    .error .invalidCheckpoint := rfl

-- `policy_keeps_newest`
example : (8 : Int) ∈ uptoOf false 9 (insertStep 9 [2, 4, 5, 8]) ∧
    ((uptoOf false 9 (insertStep 9 [2, 4, 5, 8])).filter (fun y => decide ((8 : Int) < y))).length < 2 := by decide

-- `async_reader_safe`
example : Reachable Dir.empty ∧ ∀ c ∈ [exCfg 1 1, exCfg 2 2], c.backend = .legacy :=
  ⟨Reachable.empty, by intro c hc; simp at hc; rcases hc with rfl | rfl <;> rfl⟩


/-! ## natural_sort orders printed integer steps by value (the part of A-NAT that is flax's own code)

Character-level model `Flax/Model/NatSort.lean` of `SIGNED_FLOAT_RE.split`, `maybe_num` and `sorted(key=…)`.
Guard: the last character of what precedes the printed step (directory, separator and prefix together) is *inert*:
not a digit, not `+`/`-`, not `.`, not `e`/`E`.  Nothing is required of the earlier characters (temp-dir names with
digits, dots, signs are fine).  Steps are Python ints, printed by `str`. -/

open Flax.NatSort in
/-- the key of `<anything ending in an inert character><printed int>`: the tokens of the part before the number and
the pending text do not depend on the step; then come the step as one number token and an empty text -/
theorem natural_sort_key_of_step_name (Q : List Char) (c : Char) (hc : Inert c) :
    ∃ K A, ∀ n : Int,
      natKey (stepName (Q ++ [c]) n) = K ++ [KElem.str A, KElem.num (decOf (showInt n)), KElem.str []] := by
  obtain ⟨toks, acc', h⟩ := scan_stable c hc Q 0 [] (Nat.zero_le _)
  refine ⟨toks.map keyOfTok, acc' ++ [c], fun n => ?_⟩
  have : stepName (Q ++ [c]) n = Q ++ c :: showInt n := by simp [stepName]
  rw [this]
  simp only [natKey, tokens, h, scan_showInt, List.map_append, List.map_cons, List.map_nil, keyOfTok]

open Flax.NatSort in
/-- Python's comparison of the two keys is the comparison of the two step values -/
theorem natural_sort_compares_by_value (Q : List Char) (c : Char) (hc : Inert c) (a b : Int) :
    keyCmp (natKey (stepName (Q ++ [c]) a)) (natKey (stepName (Q ++ [c]) b)) = compare a b := by
  obtain ⟨K, A, h⟩ := natural_sort_key_of_step_name Q c hc
  rw [h a, h b, keyCmp_append_left]
  have ha := decOf_showInt a
  have hb := decOf_showInt b
  simp only [keyCmp, elemCmp, strCmp_self, decCmp, ha.1, hb.1, ha.2, hb.2, if_true]
  rcases int_compare_cases a b with ⟨h1, _⟩ | ⟨h1, _⟩ | ⟨h1, _⟩ <;> simp [h1]

open Flax.NatSort in
/-- `natural_sort` of any list of such names (any order, repetitions allowed) is the list sorted by step value -/
theorem natural_sort_orders_by_value (Q : List Char) (c : Char) (hc : Inert c) (ns : List Int) :
    natSort (ns.map (stepName (Q ++ [c]))) = (sortBy intLe ns).map (stepName (Q ++ [c])) ∧
    (sortBy intLe ns).Pairwise (· ≤ ·) ∧ (∀ x, x ∈ sortBy intLe ns ↔ x ∈ ns) := by
  refine ⟨?_, sorted_sortBy_int ns, fun x => mem_sortBy intLe x ns⟩
  unfold natSort
  apply sortBy_map
  intro a b
  simp only [natLe, natural_sort_compares_by_value Q c hc, intLe]
  rcases int_compare_cases a b with ⟨h1, h2⟩ | ⟨h1, h2⟩ | ⟨h1, h2⟩
  · have : a ≤ b := by omega
    simp [h1, this]
  · have : a ≤ b := by omega
    simp [h1, this]
  · have : ¬ a ≤ b := by omega
    simp [h1, this]

open Flax.NatSort in
/-- `latest_checkpoint` (the last name of the natural_sort) is the name of the numerically largest step -/
theorem natural_sort_latest_is_max (Q : List Char) (c : Char) (hc : Inert c) (ns : List Int) (hne : ns ≠ []) :
    ∃ m ∈ ns, (∀ x ∈ ns, x ≤ m) ∧
      (natSort (ns.map (stepName (Q ++ [c])))).getLast? = some (stepName (Q ++ [c]) m) := by
  obtain ⟨h1, h2, h3⟩ := natural_sort_orders_by_value Q c hc ns
  cases hl : (sortBy intLe ns).getLast? with
  | none =>
    have : sortBy intLe ns = [] := List.getLast?_eq_none_iff.mp hl
    obtain ⟨x, hx⟩ := List.exists_mem_of_ne_nil _ hne
    have := (h3 x).mpr hx
    simp_all
  | some m =>
    refine ⟨m, (h3 m).mp (List.mem_of_getLast? hl), ?_, ?_⟩
    · intro x hx
      exact le_getLast_of_sorted h2 hl x ((h3 x).mpr hx)
    · rw [h1, List.getLast?_map, hl]; rfl

open Flax.NatSort in
/-- `<prefix>tmp` (any non-empty suffix free of number characters) sorts after every numbered name of the same prefix:
this is what `_check_overwrite_error` relies on when it pops a trailing temp file -/
theorem natural_sort_tmp_sorts_last (Q : List Char) (c : Char) (hc : Inert c) (T : List Char) (hT : ∀ x ∈ T, Inert x)
    (hne : T ≠ []) (n : Int) :
    keyCmp (natKey (stepName (Q ++ [c]) n)) (natKey (Q ++ [c] ++ T)) = .lt := by
  obtain ⟨toks, acc', h⟩ := scan_stable c hc Q 0 [] (Nat.zero_le _)
  have h1 : stepName (Q ++ [c]) n = Q ++ c :: showInt n := by simp [stepName]
  have h2 : Q ++ [c] ++ T = Q ++ c :: T := by simp
  rw [h1, h2]
  simp only [natKey, tokens, h, scan_showInt, scan_inert T hT, List.map_append, List.map_cons, List.map_nil, keyOfTok,
    keyCmp_append_left]
  cases T with
  | nil => exact absurd rfl hne
  | cons x r =>
    have hlt : strCmp (acc' ++ [c]) (acc' ++ c :: x :: r) = .lt := by
      have := strCmp_proper_prefix (acc' ++ [c]) x r
      simpa using this
    simp [keyCmp, elemCmp, hlt]

open Flax.NatSort in
example : ∀ x ∈ "tmp".toList, Inert x := by
  intro x hx
  simp at hx
  rcases hx with rfl | rfl | rfl <;> exact ⟨by decide, by decide, by decide, by decide⟩

open Flax.NatSort in
/-- **The two models composed.**  The directory model keeps the final names ascending by step value; this is exactly what
`natural_sort` returns for their printed names, in whatever order `listdir` hands them over (`ns`), and the last of
them is the name of `latest`.  (Integer steps; guard on the character before the number as above.) -/
theorem listing_is_natural_sort (Q : List Char) (c : Char) (hc : Inert c) {d : Dir} (hS : d.ckpts.Sorted)
    (ns : List Int) (hp : ns.Perm (listing d)) :
    natSort (ns.map (stepName (Q ++ [c]))) = (listing d).map (stepName (Q ++ [c])) ∧
    (natSort (ns.map (stepName (Q ++ [c])))).getLast? = (latest d).map (fun e => stepName (Q ++ [c]) e.1) := by
  obtain ⟨h1, h2, h3⟩ := natural_sort_orders_by_value Q c hc ns
  have hasc : Asc (listing d) := (Files.sorted_iff_steps _).mp hS
  have hnd : (sortBy intLe ns).Nodup :=
    (sortBy_perm intLe ns).nodup_iff.mpr (hp.nodup_iff.mpr (asc_nodup hasc))
  have hasc2 : Asc (sortBy intLe ns) :=
    List.Pairwise.imp (fun {a b} (h : a ≤ b ∧ a ≠ b) => by omega) (List.Pairwise.and h2 hnd)
  have heq : sortBy intLe ns = listing d :=
    asc_ext hasc2 hasc (fun x => (h3 x).trans hp.mem_iff)
  rw [h1, heq]
  refine ⟨rfl, ?_⟩
  simp only [listing, Files.steps, latest, List.getLast?_map, Option.map_map]
  rfl

open Flax.NatSort in
/-- the guard is met by the usual prefixes (here the last character of `checkpoint_`, of a path separator, of a letter) -/
example : Inert '_' ∧ Inert '/' ∧ Inert 't' ∧ Inert 'l' := by
  refine ⟨?_, ?_, ?_, ?_⟩ <;> exact ⟨by decide, by decide, by decide, by decide⟩

open Flax.NatSort in
example : natSort ["/tmp/a1.5-x/checkpoint_10".toList, "/tmp/a1.5-x/checkpoint_-3".toList, "/tmp/a1.5-x/checkpoint_9".toList] =
    ["/tmp/a1.5-x/checkpoint_-3".toList, "/tmp/a1.5-x/checkpoint_9".toList, "/tmp/a1.5-x/checkpoint_10".toList] := by decide

open Flax.NatSort in
/-- finding F6 (known, not repaired), now a statement about the tokeniser: with a prefix ending in `-` the sign is
read into the number, `ckpt-10` has the key `["ckpt", -10, ""]`, sorts *before* `ckpt-5`, and the latest of steps 5 and 10
is step 5.  The guard of the theorems above cannot be dropped; the same happens for `.`, a digit, and `e` after a digit. -/
theorem natural_sort_sign_prefix_misorders :
    tokens "ckpt-10".toList = [Tok.text "ckpt".toList, Tok.num "-10".toList, Tok.text []] ∧
    natSort ["ckpt-5".toList, "ckpt-10".toList] = ["ckpt-10".toList, "ckpt-5".toList] ∧
    (natSort ["ckpt-5".toList, "ckpt-10".toList]).getLast? = some "ckpt-5".toList := by decide

open Flax.NatSort in
example : natSort ["v.5".toList, "v.10".toList] = ["v.10".toList, "v.5".toList] := by decide        -- `.10` < `.5`
open Flax.NatSort in
example : natSort ["v25".toList, "v210".toList, "v23".toList] = ["v23".toList, "v25".toList, "v210".toList] := by decide  -- prefix `v2`, steps 5, 10, 3
open Flax.NatSort in
example : natSort ["r2e3".toList, "r2e10".toList, "r2e-1".toList] = ["r2e-1".toList, "r2e3".toList, "r2e10".toList] := by decide  -- read as 2e3, 2e10, 2e-1: happens to agree; but
open Flax.NatSort in
example : natSort ["r2e3".toList, "r2e-4".toList] = ["r2e-4".toList, "r2e3".toList] ∧
    tokens "r2e3".toList = [Tok.text "r".toList, Tok.num "2e3".toList, Tok.text []] := by decide  -- the step is not a token of its own


/-! ## natural_sort on printed floats and exponent notation; `_checkpoint_path_step`

The step may now be any printed number `[-+]?digits(.digits*)?([eE][-+]?digits)?` (`IsNumLit`: what `str(int)` and
`repr(float)` print for finite values), valued exactly as the decimal `± m · 10^e` it denotes (`decOf`).  What is left
of assumption A-NAT for such steps is only that Python's `float()` orders these literals as their decimal values do
(A-FLOAT).  The guard on the prefix is unchanged: its last character is inert; it may contain digits. -/

open Flax.NatSort in
/-- every printed number is one whole token for the regex -/
theorem printed_number_is_one_token {l : List Char} (h : IsNumLit l) : FullMatch l := fullMatch_of_isNumLit h

open Flax.NatSort in
theorem natural_sort_key_of_number_name (Q : List Char) (c : Char) (hc : Inert c) :
    ∃ K A, ∀ l, FullMatch l →
      natKey (Q ++ [c] ++ l) = K ++ [KElem.str A, KElem.num (decOf l), KElem.str []] := by
  obtain ⟨toks, acc', h⟩ := scan_stable c hc Q 0 [] (Nat.zero_le _)
  refine ⟨toks.map keyOfTok, acc' ++ [c], fun l hl => ?_⟩
  have : Q ++ [c] ++ l = Q ++ c :: l := by simp
  rw [this]
  simp only [natKey, tokens, h, scan_fullMatch hl, List.map_append, List.map_cons, List.map_nil, keyOfTok]

open Flax.NatSort in
/-- Python's comparison of the keys of two such names is the exact comparison of the two printed numbers -/
theorem natural_sort_compares_numbers_by_value (Q : List Char) (c : Char) (hc : Inert c) {a b : List Char}
    (ha : FullMatch a) (hb : FullMatch b) :
    keyCmp (natKey (Q ++ [c] ++ a)) (natKey (Q ++ [c] ++ b)) = decCmp (decOf a) (decOf b) := by
  obtain ⟨K, A, h⟩ := natural_sort_key_of_number_name Q c hc
  rw [h a ha, h b hb, keyCmp_append_left]
  simp only [keyCmp, elemCmp, strCmp_self]
  cases decCmp (decOf a) (decOf b) <;> rfl

open Flax.NatSort in
/-- `decCmp` is the order of the values: for any common exponent `E0` below both it compares the integers
`value · 10^(-E0)` -/
theorem decCmp_is_value_order (a b : Dec) (hclose : (a.e - b.e).natAbs ≤ 4096) {E0 : Int}
    (ha : E0 ≤ a.e) (hb : E0 ≤ b.e) : decCmp a b = compare (a.scaled E0) (b.scaled E0) :=
  decCmp_eq_compare_scaled a b hclose ha hb

/-- the value of a printed number times `10^(-E0)` -/
def valAt (E0 : Int) (l : List Char) : Int := (NatSort.decOf l).scaled E0

open Flax.NatSort in
/-- `natural_sort` of any list of names `<…inert char><printed number>` (ints, floats, exponent notation mixed; any
order; repetitions and equal values allowed) is the stable sort by decimal value; the result is ascending by value
and a permutation.  `E0` is any exponent below all of them, within 4096 of all of them (doubles: within 700). -/
theorem natural_sort_orders_numbers_by_value (Q : List Char) (c : Char) (hc : Inert c) (E0 : Int)
    (ls : List (List Char)) (hfm : ∀ l ∈ ls, FullMatch l)
    (hlo : ∀ l ∈ ls, E0 ≤ (decOf l).e) (hhi : ∀ l ∈ ls, (decOf l).e ≤ E0 + 4096) :
    natSort (ls.map (fun l => Q ++ [c] ++ l)) = (sortBy (keyLe (valAt E0)) ls).map (fun l => Q ++ [c] ++ l) ∧
    (sortBy (keyLe (valAt E0)) ls).Pairwise (fun x y => valAt E0 x ≤ valAt E0 y) ∧
    (sortBy (keyLe (valAt E0)) ls).Perm ls := by
  refine ⟨?_, sorted_sortBy_key _ _, sortBy_perm _ _⟩
  unfold natSort
  rw [sortBy_map (fun l => Q ++ [c] ++ l) (fun a b => natLe (Q ++ [c] ++ a) (Q ++ [c] ++ b)) natLe (fun _ _ => rfl)]
  congr 1
  apply sortBy_congr
  intro a ha b hb
  have hcl : ((decOf a).e - (decOf b).e).natAbs ≤ 4096 := by
    have := hlo a ha; have := hlo b hb; have := hhi a ha; have := hhi b hb; omega
  simp only [natLe, natural_sort_compares_numbers_by_value Q c hc (hfm a ha) (hfm b hb),
    decCmp_eq_compare_scaled _ _ hcl (hlo a ha) (hlo b hb), keyLe, valAt]
  rcases int_compare_cases ((decOf a).scaled E0) ((decOf b).scaled E0) with ⟨h1, h2⟩ | ⟨h1, h2⟩ | ⟨h1, h2⟩
  · have : (decOf a).scaled E0 ≤ (decOf b).scaled E0 := by omega
    simp [h1, this]
  · have : (decOf a).scaled E0 ≤ (decOf b).scaled E0 := by omega
    simp [h1, this]
  · have : ¬ (decOf a).scaled E0 ≤ (decOf b).scaled E0 := by omega
    simp [h1, this]

open Flax.NatSort in
/-- `latest_checkpoint` for such names: the last name of the natural sort is the name of a step of largest value -/
theorem natural_sort_latest_is_max_number (Q : List Char) (c : Char) (hc : Inert c) (E0 : Int)
    (ls : List (List Char)) (hne : ls ≠ []) (hfm : ∀ l ∈ ls, FullMatch l)
    (hlo : ∀ l ∈ ls, E0 ≤ (decOf l).e) (hhi : ∀ l ∈ ls, (decOf l).e ≤ E0 + 4096) :
    ∃ m ∈ ls, (∀ x ∈ ls, valAt E0 x ≤ valAt E0 m) ∧
      (natSort (ls.map (fun l => Q ++ [c] ++ l))).getLast? = some (Q ++ [c] ++ m) := by
  obtain ⟨h1, h2, h3⟩ := natural_sort_orders_numbers_by_value Q c hc E0 ls hfm hlo hhi
  cases hl : (sortBy (keyLe (valAt E0)) ls).getLast? with
  | none =>
    have hnil : sortBy (keyLe (valAt E0)) ls = [] := List.getLast?_eq_none_iff.mp hl
    rw [hnil] at h3
    exact absurd h3.symm.eq_nil hne
  | some m =>
    refine ⟨m, h3.mem_iff.mp (List.mem_of_getLast? hl), ?_, ?_⟩
    · intro x hx
      exact le_getLast_of_sorted_key _ h2 hl x (h3.mem_iff.mpr hx)
    · rw [h1, List.getLast?_map, hl]; rfl

open Flax.NatSort in
/-- non-vacuity: what Python prints for finite floats is in the class -/
example : IsNumLit "-2.5e+16".toList :=
  ⟨['-'], ['2'], ['.', '5'], ['e', '+', '1', '6'], rfl, Or.inr (Or.inr rfl), by simp,
    by intro c hc; simp at hc; subst hc; decide,
    Or.inr ⟨['5'], rfl, by intro c hc; simp at hc; subst hc; decide⟩,
    Or.inr ⟨'e', ['+'], ['1', '6'], rfl, by decide, Or.inr (Or.inl rfl), by simp,
      by intro c hc; simp at hc; rcases hc with rfl | rfl <;> decide⟩⟩

open Flax.NatSort in
example : FullMatch "1e-05".toList ∧ FullMatch "100000.0".toList ∧ FullMatch "0.5".toList ∧ FullMatch "-7".toList ∧
    FullMatch "3e+20".toList ∧ FullMatch "5.".toList := by
  simp only [FullMatch]; decide

open Flax.NatSort in
example : decOf "1e-05".toList = { neg := false, m := 1, e := -5 } ∧
    decOf "-2.5e+16".toList = { neg := true, m := 25, e := 15 } ∧
    decOf "100000.0".toList = { neg := false, m := 1000000, e := -1 } := by decide

open Flax.NatSort in
example : natSort ["ck_1e-05".toList, "ck_-2.5e+16".toList, "ck_0.5".toList, "ck_3".toList, "ck_1e+16".toList, "ck_-1.0".toList] =
    ["ck_-2.5e+16".toList, "ck_-1.0".toList, "ck_1e-05".toList, "ck_0.5".toList, "ck_3".toList, "ck_1e+16".toList] := by decide

open Flax.NatSort in
/-- **`_checkpoint_path_step`.**  The step the retention code reads off a path is the LAST number of the whole path:
for a name `<anything ending in an inert character><printed number>` — digits in the directory or in the prefix
(`run2_`, `/tmp/tmp81x/ckpt_`) notwithstanding — it is the printed step. -/
theorem checkpoint_path_step_is_the_step (Q : List Char) (c : Char) (hc : Inert c) {l : List Char}
    (hl : FullMatch l) : pathStep (Q ++ [c] ++ l) = some (decOf l) := by
  obtain ⟨toks, acc', h⟩ := scan_stable c hc Q 0 [] (Nat.zero_le _)
  have : Q ++ [c] ++ l = Q ++ c :: l := by simp
  rw [this]
  simp only [pathStep, pathStepTok, tokens, h, scan_fullMatch hl, lastNum_append_num, Option.map_some]

open Flax.NatSort in
/-- for integer steps: the value read is the step -/
theorem checkpoint_path_step_of_int (Q : List Char) (c : Char) (hc : Inert c) (n : Int) :
    ∃ d, pathStep (stepName (Q ++ [c]) n) = some d ∧ d.e = 0 ∧ d.signed = n := by
  refine ⟨decOf (showInt n), ?_, (decOf_showInt n).1, (decOf_showInt n).2⟩
  exact checkpoint_path_step_is_the_step Q c hc (fullMatch_showInt n)

/-- the variant "first number of the name" (seeded change C11_e) -/
def firstNum : List NatSort.Tok → Option (List Char)
  | [] => none
  | .num s :: _ => some s
  | .text _ :: r => firstNum r

open Flax.NatSort in
/-- closed counter-example: with the prefix `run2_`, the step of `run2_7` is 7 (last number, as coded); the first
number is the 2 of the prefix — every checkpoint would read as step 2 and `keep_every_n_steps` would retain nothing
after the first -/
theorem checkpoint_path_step_first_number_differs :
    pathStepTok "run2_7".toList = some "7".toList ∧ firstNum (tokens "run2_7".toList) = some "2".toList ∧
    pathStepTok "/tmp/a1.5-x/run2_7".toList = some "7".toList := by decide

open Flax.NatSort in
/-- and natural_sort itself is sound for such a prefix (instance of the theorems above: last character `_`) -/
example : natSort ["run2_10".toList, "run2_9".toList, "run2_-1".toList] =
    ["run2_-1".toList, "run2_9".toList, "run2_10".toList] := by decide

end Flax.C11
