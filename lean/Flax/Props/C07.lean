/-
C07 — Lifted vjp / jvp / grad / value_and_grad / custom_vjp equal JAX autodiff of the pure apply function.
(partial: automatic differentiation itself is JAX's and enters as the abstract structure `AD`, assumption A-AD.)

What is flax's, and proved here about the model `Flax/Model/LiftAD.lean` (+ `pack` from `Flax/Model/Lift.lean`):
the function handed to `jax.vjp / jax.jvp` *is* the pure apply function of the selected collections and the inputs,
everything else being closed over; cotangents come back for exactly the selected collections and the inputs; the
forward pass's side effects are published exactly once and equal those of the plain call; `has_aux` and
`value_and_grad` plumbing; `custom_vjp` leaves the forward value alone.
-/
import Flax.Model.LiftAD
import Flax.Proofs.Lift
import Flax.Proofs.ModScopes

namespace Flax.C07
open Flax.Filter Flax.Lift Flax.LiftAD

/-- `fn` run on a fresh root scope holding `variables` — what `module.apply(variables, *x, mutable=m, rngs=r)`
executes (collections in `readOnly` are the ones passed as FrozenDict) -/
def applyPure (attrs : List (String × Int)) (f : Fn) (variables : Vars) (m : LFilter) (readOnly : List String)
    (r : Rngs) (ctr : Counters) (x : List Int) : Except Err (Out × ScopeSt) :=
  runFn attrs f x ⟨variables, m, readOnly, r, ctr⟩

/-- the differentiated group and the closed-over group `_partial_pack` builds for `lift.vjp` -/
def selGroup (s : ScopeSt) (vjpF : LFilter) : Vars := s.vars.filter (fun kv => inFilter vjpF kv.1)
def restGroup (s : ScopeSt) (vjpF varF : LFilter) : Vars :=
  (s.vars.filter (fun kv => !(inFilter vjpF kv.1))).filter (fun kv => inFilter varF kv.1)

private theorem aux_groups (s : ScopeSt) (vjpF varF : LFilter) :
    groupBy s.vars [vjpF, varF] = [selGroup s vjpF, restGroup s vjpF varF] := by
  simp [groupBy, selGroup, restGroup]

/-- **vjp_closure_is_pure_apply.** For every body, scope, filters, `has_aux` flag: the function `lift.vjp` hands to
`jax.vjp` is, at *every* point `(V_sel, x)` (not only the primal one), the pure apply function of the variables
`V_sel ∪ V_rest` and the inputs `x`, followed by `repack`: the selected collections are an argument, all other
collections (`V_rest`, fixed by the scope) are closed over.  Its mutability is the scope's, restricted to the
`variables` filter. -/
theorem vjp_closure_is_pure_apply (vjpF varF rngF : LFilter) (hasAux : Bool) (nY : Nat) (attrs : List (String × Int))
    (f : Fn) (s : ScopeSt) (ctr : Counters) (vsel : Vars) (x : List Int) :
    vjpClosure attrs f hasAux nY (partialPack [vjpF, varF] [varF] [rngF] s) (restGroup s vjpF varF) ctr (vsel, x) =
      match applyPure attrs f (vsel ++ restGroup s vjpF varF)
          (intersect (intersect s.mutable (unionAll [varF])) .tt)
          (frozenNames (groupBy s.vars [vjpF, varF]) [varF]) (groupBy s.rngs [rngF]).flatten ctr x with
      | .error e => .error e
      | .ok (y, s') =>
        match repack [varF] s' with
        | .error e => .error e
        | .ok out => .ok ((splitAux hasAux nY y.vals).1, (splitAux hasAux nY y.vals).2, out, s'.counters) := by
  simp only [vjpClosure, runInner, partialPack, scopeFn, applyPure, List.flatten_cons, List.flatten_nil,
    List.append_nil]
  cases runFn attrs f x _ with
  | error e => rfl
  | ok r =>
    obtain ⟨y, s'⟩ := r
    simp only
    cases repack [varF] s' <;> rfl

/-- `lift.vjp` *is* `jax.vjp` of that closure at `(selected collections of the scope, primals)` followed by one
`publish`; and (A-AD, automatic in Lean) any function with the same extension gives the same result — in
particular the user-level `lambda V_sel, x: module.apply({**V_rest, **V_sel}, x)`. -/
theorem vjp_is_ad_of_pure_apply (ad : AD) (vjpF varF rngF : LFilter) (hasAux : Bool) (nY : Nat)
    (attrs : List (String × Int)) (f : Fn) (args : List Int) (s : ScopeSt)
    (g : DIn → Except Err (DOut × DAux))
    (hg : ∀ x, g x = vjpClosure attrs f hasAux nY (partialPack [vjpF, varF] [varF] [rngF] s) (restGroup s vjpF varF) s.counters x) :
    liftVjp ad vjpF varF rngF hasAux nY attrs f args s =
      match ad.vjp g (selGroup s vjpF, args) with
      | .error e => .error e
      | .ok (y, bwd, (aux, out, ctr')) =>
        match publish { s with counters := ctr' } out with
        | .error e => .error e
        | .ok s' => .ok (⟨y, bwd, if hasAux then some aux else none⟩, s') := by
  have : g = vjpClosure attrs f hasAux nY (partialPack [vjpF, varF] [varF] [rngF] s) (restGroup s vjpF varF) s.counters :=
    funext hg
  subst this
  simp only [liftVjp, pack]
  have hg2 : (partialPack [vjpF, varF] [varF] [rngF] s).varGroups = [selGroup s vjpF, restGroup s vjpF varF] := by
    simp [partialPack, aux_groups]
  rw [hg2]
  simp only
  cases ad.vjp _ (selGroup s vjpF, args) with
  | error e => rfl
  | ok r =>
    obtain ⟨y, bwd, aux, out, ctr'⟩ := r
    rfl

private theorem aux_keys_filter (p : String → Bool) (xs : List (String × α)) :
    keys (xs.filter (fun kv => p kv.1)) = (keys xs).filter p := by
  induction xs with
  | nil => rfl
  | cons x r ih =>
    simp only [List.filter_cons, keys, List.map_cons] at ih ⊢
    cases p x.1 <;> simp [ih]

/-- **gradient key set = selected collections.** Whatever cotangent is fed to the returned `bwd`, the variable
cotangent has an entry for exactly the scope's collections matched by `vjp_variables` (with exactly their variable
names) — no entry exists for any other collection — and one cotangent per primal input. -/
theorem vjp_grad_keys (ad : AD) (vjpF varF rngF : LFilter) (hasAux : Bool) (nY : Nat) (attrs : List (String × Int))
    (f : Fn) (args : List Int) (s s' : ScopeSt) (r : VjpRes)
    (h : liftVjp ad vjpF varF rngF hasAux nY attrs f args s = .ok (r, s')) (ct : DOut) :
    (r.bwd ct).1.map (fun kv => (kv.1, keys kv.2)) = (selGroup s vjpF).map (fun kv => (kv.1, keys kv.2)) ∧
    keys (r.bwd ct).1 = (keys s.vars).filter (fun c => inFilter vjpF c) ∧
    (r.bwd ct).2.length = args.length := by
  rw [vjp_is_ad_of_pure_apply ad vjpF varF rngF hasAux nY attrs f args s _ (fun _ => rfl)] at h
  cases hv : ad.vjp (vjpClosure attrs f hasAux nY (partialPack [vjpF, varF] [varF] [rngF] s) (restGroup s vjpF varF) s.counters)
      (selGroup s vjpF, args) with
  | error e => simp [hv] at h
  | ok q =>
    obtain ⟨y, bwd, aux, out, ctr'⟩ := q
    simp only [hv] at h
    cases hp : publish { s with counters := ctr' } out with
    | error e => simp [hp] at h
    | ok s2 =>
      simp only [hp, Except.ok.injEq, Prod.mk.injEq] at h
      obtain ⟨hr, _⟩ := h
      subst hr
      have hs := ad.vjp_shape _ _ _ _ _ ct hv
      refine ⟨hs.1, ?_, hs.2⟩
      have := congrArg (List.map Prod.fst) hs.1
      simp only [List.map_map, Function.comp_def] at this
      simp only [keys]
      rw [this]
      exact aux_keys_filter (fun c => inFilter vjpF c) s.vars

/-- the relation between the lifted AD call and the lifted identity call over the same filters: same forward pass -/
private theorem aux_vjp_forward (ad : AD) (vjpF varF rngF : LFilter) (hasAux : Bool) (nY : Nat)
    (attrs : List (String × Int)) (f : Fn) (args : List Int) (s : ScopeSt) :
    match liftVjp ad vjpF varF rngF hasAux nY attrs f args s, liftId [vjpF, varF] [varF] [rngF] .tt attrs f args s with
    | .ok (r, s1), .ok (y, s2) =>
        r.y = (splitAux hasAux nY y.vals).1 ∧ r.aux = (if hasAux then some (splitAux hasAux nY y.vals).2 else none) ∧ s1 = s2
    | .error e, .error e' => e = e'
    | _, _ => False := by
  rw [vjp_is_ad_of_pure_apply ad vjpF varF rngF hasAux nY attrs f args s _ (fun _ => rfl)]
  have hval := ad.vjp_val (vjpClosure attrs f hasAux nY (partialPack [vjpF, varF] [varF] [rngF] s) (restGroup s vjpF varF) s.counters)
    (selGroup s vjpF, args)
  have hg2 : (partialPack [vjpF, varF] [varF] [rngF] s).varGroups = [selGroup s vjpF, restGroup s vjpF varF] := by
    simp [partialPack, aux_groups]
  simp only [liftId, pack]
  rw [hg2]
  cases hv : ad.vjp (vjpClosure attrs f hasAux nY (partialPack [vjpF, varF] [varF] [rngF] s) (restGroup s vjpF varF) s.counters)
      (selGroup s vjpF, args) with
  | error e =>
    rw [hv] at hval
    simp only [vjpClosure] at hval
    cases hr : runInner attrs f args LFilter.tt (partialPack [vjpF, varF] [varF] [rngF] s)
        [selGroup s vjpF, restGroup s vjpF varF] (partialPack [vjpF, varF] [varF] [rngF] s).rngGroups s.counters with
    | error e' => simp only [hr] at hval; simp only; exact (Except.error.inj hval)
    | ok q => obtain ⟨y, out, c⟩ := q; simp [hr] at hval
  | ok q =>
    obtain ⟨y, bwd, aux, out, ctr'⟩ := q
    rw [hv] at hval
    simp only [vjpClosure] at hval
    cases hr : runInner attrs f args LFilter.tt (partialPack [vjpF, varF] [varF] [rngF] s)
        [selGroup s vjpF, restGroup s vjpF varF] (partialPack [vjpF, varF] [varF] [rngF] s).rngGroups s.counters with
    | error e' => simp [hr] at hval
    | ok q2 =>
      obtain ⟨y2, out2, c2⟩ := q2
      simp only [hr, Except.ok.injEq, Prod.mk.injEq] at hval
      obtain ⟨h1, h2, h3, h4⟩ := hval
      subst h1; subst h2; subst h3; subst h4
      simp only
      cases publish { s with counters := ctr' } out with
      | error e => trivial
      | ok s3 => exact ⟨rfl, rfl, rfl⟩

/-- **forward_effects_published_once** (with **has_aux_plumbing** and the primal-output clause).  If the `variables`
filters cover what the body touches and writes, then `nn.vjp` returns the plain call's output (split into `y` and
`aux` exactly as `has_aux` says, nothing swapped), fails exactly when and how the plain call fails, and leaves every
collection, and the rng counters, exactly as *one* plain execution of the body leaves them (a counter incremented in
the body is incremented once). -/
theorem forward_effects_published_once (ad : AD) (vjpF varF rngF : LFilter) (hasAux : Bool) (nY : Nat)
    (attrs : List (String × Int)) (f : Fn) (args : List Int) (s : ScopeSt) (hwf : VarsWF s.vars) (hfz : s.FrozenOk)
    (hin : ∀ c, c ∈ cols f.body → (inFilter vjpF c || inFilter varF c) = true)
    (hout : ∀ c, c ∈ wcols f.body → inFilter s.mutable c = true → inFilter varF c = true)
    (hrng : ∀ r, r ∈ rngDeps f.body → (alookup r s.rngs).isSome = true → inFilter rngF r = true) :
    match runFn attrs f args s, liftVjp ad vjpF varF rngF hasAux nY attrs f args s with
    | .ok (y, s1), .ok (r, s2) =>
        r.y = (splitAux hasAux nY y.vals).1 ∧ r.aux = (if hasAux then some (splitAux hasAux nY y.vals).2 else none) ∧
        SameVars s1.vars s2.vars ∧ s1.counters = s2.counters
    | .error e, .error e' => e = e'
    | _, _ => False := by
  have h1 := aux_vjp_forward ad vjpF varF rngF hasAux nY attrs f args s
  have h2 := liftId_agree [vjpF, varF] [varF] [rngF] .tt attrs f args s hwf hfz
    (by intro c hc; simpa [anyMatch] using hin c hc)
    (by intro c hc hm; simp [anyMatch, hout c hc hm, inFilter])
    (by intro r hr hs; simp [anyMatch, hrng r hr hs])
  cases hp : runFn attrs f args s with
  | error e =>
    cases hl : liftId [vjpF, varF] [varF] [rngF] .tt attrs f args s with
    | ok q => obtain ⟨y, s2⟩ := q; simp [hp, hl, Agree] at h2
    | error e' =>
      simp only [hp, hl, Agree] at h2
      cases hv : liftVjp ad vjpF varF rngF hasAux nY attrs f args s with
      | ok q => obtain ⟨r, s2⟩ := q; simp [hv, hl] at h1
      | error e'' => simp only [hv, hl] at h1; simp only; rw [h2, h1]
  | ok q0 =>
    obtain ⟨y0, s0⟩ := q0
    cases hl : liftId [vjpF, varF] [varF] [rngF] .tt attrs f args s with
    | error e' => simp [hp, hl, Agree] at h2
    | ok q =>
      obtain ⟨y, s2⟩ := q
      simp only [hp, hl, Agree] at h2
      cases hv : liftVjp ad vjpF varF rngF hasAux nY attrs f args s with
      | error e'' => simp [hv, hl] at h1
      | ok q2 =>
        obtain ⟨r, s3⟩ := q2
        simp only [hv, hl] at h1
        simp only
        obtain ⟨a1, a2, a3⟩ := h1
        subst a3
        rw [h2.1]
        exact ⟨a1, a2, h2.2.1, h2.2.2.1⟩

/-- **has_aux_plumbing**, stated on its own: without `has_aux` nothing is split off and no aux is returned; with
it, `aux` is what the function returned after its first `nY` values -/
theorem has_aux_plumbing (vals : List Int) (nY : Nat) :
    splitAux false nY vals = (vals, []) ∧
    (splitAux true nY vals).1 ++ (splitAux true nY vals).2 = vals ∧ ((splitAux true nY vals).1).length = min nY vals.length := by
  simp [splitAux]

/-- **jvp_empty_tangent_dropped.** `lift.jvp` differentiates exactly the collections that have a *non-empty*
tangent dict: a collection whose tangent dict is empty (or absent) is not in the differentiated group (it is
closed over like every other variable), so the primal and tangent trees given to `jax.jvp` have the same keys. -/
theorem jvp_empty_tangent_dropped (vt : Vars) (c : String) :
    (inFilter (jvpTarget vt) c = true ↔ ∃ coll, (c, coll) ∈ vt ∧ coll ≠ []) ∧
    (∀ s : ScopeSt, c ∈ keys (selGroup s (jvpTarget vt)) ↔ (c ∈ keys s.vars ∧ inFilter (jvpTarget vt) c = true)) := by
  constructor
  · simp only [jvpTarget, inFilter, jvpTangents, decide_eq_true_eq, keys, List.mem_map, List.mem_filter]
    constructor
    · rintro ⟨x, ⟨hx, hne⟩, rfl⟩
      exact ⟨x.2, hx, by simpa using hne⟩
    · rintro ⟨coll, hm, hne⟩
      exact ⟨(c, coll), ⟨hm, by simpa using hne⟩, rfl⟩
  · intro s
    rw [selGroup, aux_keys_filter (fun c => inFilter (jvpTarget vt) c)]
    simp [List.mem_filter]

/-- the differentiated group of `lift.jvp` has the keys of the filtered tangents when those name collections of the
scope — the situation in which `jax.jvp` accepts the pair (documented requirement of `variable_tangents`) -/
theorem jvp_groups (ad : AD) (vt : Vars) (varF rngF : LFilter) (attrs : List (String × Int)) (f : Fn)
    (args tangents : List Int) (s : ScopeSt) :
    liftJvp ad vt varF rngF attrs f args tangents s =
      match ad.jvp (vjpClosure attrs f false 0 (partialPack [jvpTarget vt, varF] [varF] [rngF] s)
          (restGroup s (jvpTarget vt) varF) s.counters) (selGroup s (jvpTarget vt), args) (jvpTangents vt, tangents) with
      | .error e => .error e
      | .ok (y, ty, (_, out, ctr')) =>
        match publish { s with counters := ctr' } out with
        | .error e => .error e
        | .ok s' => .ok ((y, ty), s') := by
  simp only [liftJvp, pack]
  have hg2 : (partialPack [jvpTarget vt, varF] [varF] [rngF] s).varGroups =
      [selGroup s (jvpTarget vt), restGroup s (jvpTarget vt) varF] := by
    simp [partialPack, aux_groups]
  rw [hg2]
  simp only
  cases ad.jvp _ (selGroup s (jvpTarget vt), args) (jvpTangents vt, tangents) with
  | error e => rfl
  | ok r => obtain ⟨y, ty, aux, out, ctr'⟩ := r; rfl

private theorem aux_jvp_forward (ad : AD) (vt : Vars) (varF rngF : LFilter)
    (attrs : List (String × Int)) (f : Fn) (args tangents : List Int) (s : ScopeSt) :
    match liftJvp ad vt varF rngF attrs f args tangents s, liftId [jvpTarget vt, varF] [varF] [rngF] .tt attrs f args s with
    | .ok (r, s1), .ok (y, s2) => r.1 = y.vals ∧ s1 = s2
    | .error e, .error e' => e = e'
    | _, _ => False := by
  rw [jvp_groups]
  have hval := ad.jvp_val (vjpClosure attrs f false 0 (partialPack [jvpTarget vt, varF] [varF] [rngF] s)
    (restGroup s (jvpTarget vt) varF) s.counters) (selGroup s (jvpTarget vt), args) (jvpTangents vt, tangents)
  have hg2 : (partialPack [jvpTarget vt, varF] [varF] [rngF] s).varGroups =
      [selGroup s (jvpTarget vt), restGroup s (jvpTarget vt) varF] := by
    simp [partialPack, aux_groups]
  simp only [liftId, pack]
  rw [hg2]
  cases hv : ad.jvp (vjpClosure attrs f false 0 (partialPack [jvpTarget vt, varF] [varF] [rngF] s)
      (restGroup s (jvpTarget vt) varF) s.counters) (selGroup s (jvpTarget vt), args) (jvpTangents vt, tangents) with
  | error e =>
    rw [hv] at hval
    simp only [vjpClosure] at hval
    cases hr : runInner attrs f args LFilter.tt (partialPack [jvpTarget vt, varF] [varF] [rngF] s)
        [selGroup s (jvpTarget vt), restGroup s (jvpTarget vt) varF]
        (partialPack [jvpTarget vt, varF] [varF] [rngF] s).rngGroups s.counters with
    | error e' => simp only [hr] at hval; simp only; exact (Except.error.inj hval)
    | ok q => obtain ⟨y, out, c⟩ := q; simp [hr] at hval
  | ok q =>
    obtain ⟨y, ty, aux, out, ctr'⟩ := q
    rw [hv] at hval
    simp only [vjpClosure] at hval
    cases hr : runInner attrs f args LFilter.tt (partialPack [jvpTarget vt, varF] [varF] [rngF] s)
        [selGroup s (jvpTarget vt), restGroup s (jvpTarget vt) varF]
        (partialPack [jvpTarget vt, varF] [varF] [rngF] s).rngGroups s.counters with
    | error e' => simp [hr] at hval
    | ok q2 =>
      obtain ⟨y2, out2, c2⟩ := q2
      simp only [hr, Except.ok.injEq, Prod.mk.injEq, splitAux] at hval
      obtain ⟨h1, h2, h3, h4⟩ := hval
      subst h1; subst h3; subst h4
      simp only
      cases publish { s with counters := ctr' } out with
      | error e => trivial
      | ok s3 => exact ⟨rfl, rfl⟩

/-- `nn.jvp`: the primal output is the plain call's, and the forward pass's side effects are published exactly once
(same hypotheses as for `nn.vjp`, the differentiated collections being those with a non-empty tangent) -/
theorem jvp_forward_effects_published_once (ad : AD) (vt : Vars) (varF rngF : LFilter)
    (attrs : List (String × Int)) (f : Fn) (args tangents : List Int) (s : ScopeSt) (hwf : VarsWF s.vars) (hfz : s.FrozenOk)
    (hin : ∀ c, c ∈ cols f.body → (inFilter (jvpTarget vt) c || inFilter varF c) = true)
    (hout : ∀ c, c ∈ wcols f.body → inFilter s.mutable c = true → inFilter varF c = true)
    (hrng : ∀ r, r ∈ rngDeps f.body → (alookup r s.rngs).isSome = true → inFilter rngF r = true) :
    match runFn attrs f args s, liftJvp ad vt varF rngF attrs f args tangents s with
    | .ok (y, s1), .ok (r, s2) => r.1 = y.vals ∧ SameVars s1.vars s2.vars ∧ s1.counters = s2.counters
    | .error e, .error e' => e = e'
    | _, _ => False := by
  have h1 := aux_jvp_forward ad vt varF rngF attrs f args tangents s
  have h2 := liftId_agree [jvpTarget vt, varF] [varF] [rngF] .tt attrs f args s hwf hfz
    (by intro c hc; simpa [anyMatch] using hin c hc)
    (by intro c hc hm; simp [anyMatch, hout c hc hm, inFilter])
    (by intro r hr hs; simp [anyMatch, hrng r hr hs])
  cases hp : runFn attrs f args s with
  | error e =>
    cases hl : liftId [jvpTarget vt, varF] [varF] [rngF] .tt attrs f args s with
    | ok q => obtain ⟨y, s2⟩ := q; simp [hp, hl, Agree] at h2
    | error e' =>
      simp only [hp, hl, Agree] at h2
      cases hv : liftJvp ad vt varF rngF attrs f args tangents s with
      | ok q => obtain ⟨r, s2⟩ := q; simp [hv, hl] at h1
      | error e'' => simp only [hv, hl] at h1; simp only; rw [h2, h1]
  | ok q0 =>
    obtain ⟨y0, s0⟩ := q0
    cases hl : liftId [jvpTarget vt, varF] [varF] [rngF] .tt attrs f args s with
    | error e' => simp [hp, hl, Agree] at h2
    | ok q =>
      obtain ⟨y, s2⟩ := q
      simp only [hp, hl, Agree] at h2
      cases hv : liftJvp ad vt varF rngF attrs f args tangents s with
      | error e'' => simp [hv, hl] at h1
      | ok q2 =>
        obtain ⟨r, s3⟩ := q2
        simp only [hv, hl] at h1
        simp only
        obtain ⟨a1, a3⟩ := h1
        subst a3
        rw [h2.1]
        exact ⟨a1, h2.2.1, h2.2.2.1⟩

/-- **value_and_grad_inputs_only.** `nn.value_and_grad` / `nn.grad` differentiate with respect to the inputs only:
the function handed to `jax.vjp` takes no variable argument (all lifted collections are closed over), and the
result carries exactly one gradient per primal input. -/
theorem value_and_grad_inputs_only (ad : AD) (varF rngF : LFilter) (hasAux : Bool) (nY : Nat)
    (attrs : List (String × Int)) (f : Fn) (args : List Int) (s s' : ScopeSt) (r : VagRes)
    (h : liftValueAndGrad ad varF rngF hasAux nY attrs f args s = .ok (r, s')) :
    r.grads.length = args.length ∧ (hasAux = false → r.aux = none) := by
  simp only [liftValueAndGrad, pack] at h
  split at h
  · cases h
  · rename_i y0 out ctr hin
    split at hin
    · cases hin
    · rename_i y bwd aux out2 ctr2 hv
      simp only [Except.ok.injEq, Prod.mk.injEq] at hin
      obtain ⟨hr, _, _⟩ := hin
      split at h
      · cases h
      · simp only [Except.ok.injEq, Prod.mk.injEq] at h
        obtain ⟨h1, _⟩ := h
        subst h1; subst hr
        have hs := ad.vjp_shape _ _ _ _ _ (y.map (fun _ => 1)) hv
        refine ⟨hs.2, ?_⟩
        intro hf; simp [hf]

private theorem aux_vag_forward (ad : AD) (varF rngF : LFilter) (hasAux : Bool) (nY : Nat)
    (attrs : List (String × Int)) (f : Fn) (args : List Int) (s : ScopeSt) :
    match liftValueAndGrad ad varF rngF hasAux nY attrs f args s, liftId [varF] [varF] [rngF] .tt attrs f args s with
    | .ok (r, s1), .ok (y, s2) =>
        r.y = (splitAux hasAux nY y.vals).1 ∧ r.aux = (if hasAux then some (splitAux hasAux nY y.vals).2 else none) ∧ s1 = s2
    | .error e, .error e' => e = e'
    | _, _ => False := by
  simp only [liftValueAndGrad, liftId, pack]
  have hval := ad.vjp_val (vagClosure attrs f hasAux nY (partialPack [varF] [varF] [rngF] s) s.counters) ([], args)
  cases hv : ad.vjp (vagClosure attrs f hasAux nY (partialPack [varF] [varF] [rngF] s) s.counters) ([], args) with
  | error e =>
    rw [hv] at hval
    simp only [vagClosure] at hval
    cases hr : runInner attrs f args LFilter.tt (partialPack [varF] [varF] [rngF] s)
        (partialPack [varF] [varF] [rngF] s).varGroups (partialPack [varF] [varF] [rngF] s).rngGroups s.counters with
    | error e' => simp only [hr] at hval; simp only; exact (Except.error.inj hval)
    | ok q => obtain ⟨y, out, c⟩ := q; simp [hr] at hval
  | ok q =>
    obtain ⟨y, bwd, aux, out, ctr'⟩ := q
    rw [hv] at hval
    simp only [vagClosure] at hval
    cases hr : runInner attrs f args LFilter.tt (partialPack [varF] [varF] [rngF] s)
        (partialPack [varF] [varF] [rngF] s).varGroups (partialPack [varF] [varF] [rngF] s).rngGroups s.counters with
    | error e' => simp [hr] at hval
    | ok q2 =>
      obtain ⟨y2, out2, c2⟩ := q2
      simp only [hr, Except.ok.injEq, Prod.mk.injEq] at hval
      obtain ⟨h1, h2, h3, h4⟩ := hval
      subst h1; subst h2; subst h3; subst h4
      simp only
      cases publish { s with counters := ctr' } out with
      | error e => trivial
      | ok s3 => exact ⟨rfl, rfl, rfl⟩

/-- `nn.value_and_grad` / `nn.grad`: value and aux are the plain call's, the forward pass's side effects are published
exactly once -/
theorem vag_forward_effects_published_once (ad : AD) (varF rngF : LFilter) (hasAux : Bool) (nY : Nat)
    (attrs : List (String × Int)) (f : Fn) (args : List Int) (s : ScopeSt) (hwf : VarsWF s.vars) (hfz : s.FrozenOk)
    (hin : ∀ c, c ∈ cols f.body → inFilter varF c = true)
    (hrng : ∀ r, r ∈ rngDeps f.body → (alookup r s.rngs).isSome = true → inFilter rngF r = true) :
    match runFn attrs f args s, liftValueAndGrad ad varF rngF hasAux nY attrs f args s with
    | .ok (y, s1), .ok (r, s2) =>
        r.y = (splitAux hasAux nY y.vals).1 ∧ r.aux = (if hasAux then some (splitAux hasAux nY y.vals).2 else none) ∧
        SameVars s1.vars s2.vars ∧ s1.counters = s2.counters
    | .error e, .error e' => e = e'
    | _, _ => False := by
  have h1 := aux_vag_forward ad varF rngF hasAux nY attrs f args s
  have h2 := liftId_agree [varF] [varF] [rngF] .tt attrs f args s hwf hfz
    (by intro c hc; simp [anyMatch, hin c hc])
    (by intro c hc _; simp [anyMatch, hin c (wcols_sub_cols _ c hc), inFilter])
    (by intro r hr hs; simp [anyMatch, hrng r hr hs])
  cases hp : runFn attrs f args s with
  | error e =>
    cases hl : liftId [varF] [varF] [rngF] .tt attrs f args s with
    | ok q => obtain ⟨y, s2⟩ := q; simp [hp, hl, Agree] at h2
    | error e' =>
      simp only [hp, hl, Agree] at h2
      cases hv : liftValueAndGrad ad varF rngF hasAux nY attrs f args s with
      | ok q => obtain ⟨r, s2⟩ := q; simp [hv, hl] at h1
      | error e'' => simp only [hv, hl] at h1; simp only; rw [h2, h1]
  | ok q0 =>
    obtain ⟨y0, s0⟩ := q0
    cases hl : liftId [varF] [varF] [rngF] .tt attrs f args s with
    | error e' => simp [hp, hl, Agree] at h2
    | ok q =>
      obtain ⟨y, s2⟩ := q
      simp only [hp, hl, Agree] at h2
      cases hv : liftValueAndGrad ad varF rngF hasAux nY attrs f args s with
      | error e'' => simp [hv, hl] at h1
      | ok q2 =>
        obtain ⟨r, s3⟩ := q2
        simp only [hv, hl] at h1
        simp only
        obtain ⟨a1, a2, a3⟩ := h1
        subst a3
        rw [h2.1]
        exact ⟨a1, a2, h2.2.1, h2.2.2.1⟩

/-- **custom_vjp_forward_value.** Outside differentiation `nn.custom_vjp(fn, forward_fn, backward_fn)` computes
`fn`: for *every* forward rule, residual encoding and backward rule the call equals the identity-lifted `fn`
(`pack` with groups `(grad_vars, True)`), which needs no covering hypothesis — every collection and stream is
lifted — hence it agrees with the plain call of `fn` on every scope. -/
theorem custom_vjp_forward_value {ρ : Type} (gradF : LFilter) (attrs : List (String × Int)) (fn fwdFn : Fn) (nY : Nat)
    (mkRes : List Int → ρ) (bwdFn : ρ → DOut → DIn) (args : List Int) (s : ScopeSt)
    (hwf : VarsWF s.vars) (hfz : s.FrozenOk) :
    liftCustomVjp gradF attrs fn fwdFn nY mkRes bwdFn args s = liftId [gradF, .tt] [gradF, .tt] [.tt] .tt attrs fn args s ∧
    Agree (runFn attrs fn args s) (liftCustomVjp gradF attrs fn fwdFn nY mkRes bwdFn args s) := by
  have key : liftCustomVjp gradF attrs fn fwdFn nY mkRes bwdFn args s =
      liftId [gradF, .tt] [gradF, .tt] [.tt] .tt attrs fn args s := by
    simp only [liftCustomVjp, liftId, pack, CustomVjp.call]
    have hg : (partialPack [gradF, .tt] [gradF, .tt] [.tt] s).varGroups =
        [selGroup s gradF, restGroup s gradF .tt] := by simp [partialPack, aux_groups]
    rw [hg]
  refine ⟨key, ?_⟩
  rw [key]
  apply liftId_agree
  · exact hwf
  · exact hfz
  · intro c _; simp [anyMatch, inFilter]
  · intro c _ _; simp [anyMatch, inFilter]
  · intro r _ _; simp [anyMatch, inFilter]

/-- the backward rule is used by, and only by, differentiation: `call` never looks at `fwd`/`bwd`; `vjp` returns
`bwd` applied to the forward rule's residual as the pullback -/
theorem custom_vjp_rule_only_under_ad {ρ β : Type} (cv : CustomVjp ρ β) (x : DIn) :
    cv.call x = cv.f x ∧
    (∀ y res, cv.fwd x = .ok (y, res) → cv.vjp x = .ok (y, cv.bwd res)) := by
  refine ⟨rfl, ?_⟩
  intro y res h
  simp [CustomVjp.vjp, h]

/-! ## several scopes (`nn.vjp(..., multi_scope=True)`) -/

/-- **multi_scope_cotangent_positions.** `lift.vjp` over a module that holds other bound modules returns one
variable-cotangent dict per collected scope, in `get_module_scopes` order (`_bwd_wrapper` unflattens with the scope
list's treedef).  Position `k` of that list belongs to the `k`-th owner, and `set_module_scopes` gives that same owner
the inner scope made from its own scope — for every module tree, field order, nesting and sharing.  So the `k`-th
cotangent dict is the cotangent of the variables of the module that is bound to the `k`-th scope inside the lifted
function. -/
theorem multi_scope_cotangent_positions (ord : List (String × Flax.ModScopes.Node) → List (String × Flax.ModScopes.Node))
    (m : Flax.ModScopes.Node) (ρ : Nat → Nat) (k : Nat) (o : Flax.ModScopes.Owner)
    (h : (Flax.ModScopes.getOwners ord m)[k]? = some o) :
    (Flax.ModScopes.setAssign ord m ((Flax.ModScopes.getOwners ord m).map (fun o => ρ o.scope))).1[k]? =
      some (o, some (ρ o.scope)) ∧
    (Flax.ModScopes.setAssign ord m ((Flax.ModScopes.getOwners ord m).map (fun o => ρ o.scope))).2 = true := by
  rw [Flax.ModScopes.setAssign_getOwners]
  simp [h]

example : (Flax.ModScopes.getOwners Flax.ModScopes.sortKeys
    (.mod 0 (some 9) [("pair_other", .mod 1 (some 4) [])]))[0]? = some (.m 1 4) := by decide

/-! ## non-vacuity -/

/-- `y = w·x² + b·z + n·w`, `n += 1`, aux `2w` -/
def exFn : Fn :=
  { body := .seq (.get "params" "w") (.seq (.get "consts" "b") (.seq (.get "stats" "n")
      (.put "stats" "n" (.add (.reg 2) (.lit 1)))))
    ret := [.add (.add (.mul (.reg 0) (.mul (.arg 0) (.arg 0))) (.mul (.reg 1) (.arg 1))) (.mul (.reg 2) (.reg 0)),
            .mul (.lit 2) (.reg 0)] }

def exScope : ScopeSt :=
  { vars := [("params", [("w", 3)]), ("consts", [("b", 5)]), ("stats", [("n", 2)])]
    mutable := .name "stats", frozen := [], rngs := [], counters := [] }

-- the hypotheses of `forward_effects_published_once` hold for `vjp_variables='params'`, `variables=True`
example : match runFn [] exFn [2, 7] exScope, liftVjp zeroAD (.name "params") .tt .tt true 1 [] exFn [2, 7] exScope with
    | .ok (y, s1), .ok (r, s2) =>
        r.y = (splitAux true 1 y.vals).1 ∧ r.aux = (if true then some (splitAux true 1 y.vals).2 else none) ∧
        SameVars s1.vars s2.vars ∧ s1.counters = s2.counters
    | .error e, .error e' => e = e'
    | _, _ => False :=
  forward_effects_published_once zeroAD _ _ _ _ _ _ _ _ _
    ⟨by decide, by
      intro c coll h
      simp [exScope] at h
      rcases h with h | h | h <;> (cases h.2; decide)⟩
    (by intro c hc; simp [exScope] at hc) (by decide) (by decide) (by decide)

-- the plain run is a genuine success: y = 53, aux = 6, the counter goes from 2 to 3
example : (runFn [] exFn [2, 7] exScope).toOption.map (fun r => (r.1.vals, getVar r.2.vars "stats" "n")) =
    some ([53, 6], some 3) := by decide

-- the formal derivative (third voice): d y / d w = x² + n = 6, d y / d x = 2wx = 12, d y / d z = b = 5
example : (jvpApply [] exFn [2, 7] [0, 0] exScope [("params", [("w", 1)])]).toOption.map (fun r => r.1.head?) =
    some (some (53, 6)) := by decide
example : (jvpApply [] exFn [2, 7] [1, 0] exScope []).toOption.map (fun r => r.1.head?) = some (some (53, 12)) := by
  decide
example : (jvpApply [] exFn [2, 7] [0, 1] exScope []).toOption.map (fun r => r.1.head?) = some (some (53, 5)) := by
  decide

-- an empty tangent collection is dropped from the differentiated group
example : inFilter (jvpTarget [("params", [("w", 1)]), ("consts", [])]) "consts" = false ∧
    inFilter (jvpTarget [("params", [("w", 1)]), ("consts", [])]) "params" = true := by decide

end Flax.C07
