/-
C13 — Attention and RNNs: stepwise equals whole-sequence; padding and masks are inert.
Property theorems over `Flax/Model/Seq.lean` (helper lemmas are `private` and prefixed `aux_`).
-/
import Flax.Model.Seq

namespace Flax.C13
open Flax.Seq

/-! ## Attention -/

section Attn
variable {Q K V B S O X : Type}

/-- A-SOFTMAX as a hypothesis on the abstract row function: softmax-then-weighted-sum sees a row only
through its allowed (logit, value) pairs. (For the real code: `exp(finfo.min - max)` underflows to exactly 0
when at least one entry is allowed, `0 * v = 0` for finite `v`, and `x + 0 = x`.) -/
def SeesOnlyVisible (cfg : AttnCfg Q K V B S O) : Prop :=
  ∀ r r' : List (Option S × V), visible r = visible r' → cfg.attend r = cfg.attend r'

private theorem aux_visible_append (a b : List (Option S × V)) :
    visible (a ++ b) = visible a ++ visible b := by
  simp [visible, List.filterMap_append]

private theorem aux_slotsFrom_append (bias : Nat → B) (mask : Nat → Bool) (a b : List (K × V)) :
    ∀ j, slotsFrom bias mask j (a ++ b) = slotsFrom bias mask j a ++ slotsFrom bias mask (j + a.length) b := by
  induction a with
  | nil => intro j; simp [slotsFrom]
  | cons x a ih =>
    intro j
    simp only [List.cons_append, slotsFrom, ih, List.length_cons]
    congr 3; omega

private theorem aux_rowOf_append (score : Q → K → S) (addBias : S → B → S) (q : Q) (a b : List (Slot K V B)) :
    rowOf score addBias q (a ++ b) = rowOf score addBias q a ++ rowOf score addBias q b := by
  simp [rowOf]

/-- a stretch of positions that the mask excludes contributes nothing -/
private theorem aux_visible_masked (score : Q → K → S) (addBias : S → B → S) (q : Q) (bias : Nat → B)
    (mask : Nat → Bool) (l : List (K × V)) :
    ∀ j, (∀ k, k < l.length → mask (j + k) = false) →
      visible (rowOf score addBias q (slotsFrom bias mask j l)) = [] := by
  induction l with
  | nil => intro j _; simp [slotsFrom, rowOf, visible]
  | cons x l ih =>
    intro j h
    have h0 : mask j = false := by simpa using h 0 (by simp)
    have := ih (j + 1) (fun k hk => by have := h (k + 1) (by simp; omega); rwa [show j + 1 + k = j + (k + 1) by omega])
    simp only [slotsFrom, rowOf, List.map_cons, visible, List.filterMap_cons, h0] at this ⊢
    simpa using this

/-- two stretches that agree wherever the mask allows give the same visible pairs -/
private theorem aux_visible_congr (score : Q → K → S) (addBias : S → B → S) (q : Q)
    (bias bias' : Nat → B) (mask mask' : Nat → Bool) (l : List (K × V)) :
    ∀ (l' : List (K × V)) (j : Nat), l.length = l'.length →
      (∀ k, k < l.length → mask (j + k) = mask' (j + k)) →
      (∀ k, k < l.length → mask (j + k) = true → bias (j + k) = bias' (j + k)) →
      (∀ k, k < l.length → mask (j + k) = true → l[k]? = l'[k]?) →
      visible (rowOf score addBias q (slotsFrom bias mask j l)) =
        visible (rowOf score addBias q (slotsFrom bias' mask' j l')) := by
  induction l with
  | nil =>
    intro l' j hl _ _ _
    have : l' = [] := by cases l' with | nil => rfl | cons _ _ => simp at hl
    subst this; rfl
  | cons x l ih =>
    intro l' j hl hm hb hkv
    cases l' with
    | nil => simp at hl
    | cons x' l' =>
      have hm0 : mask j = mask' j := by simpa using hm 0 (by simp)
      have ih' := ih l' (j + 1) (by simpa using hl)
        (fun k hk => by have := hm (k + 1) (by simp; omega); rwa [show j + (k + 1) = j + 1 + k by omega] at this)
        (fun k hk hmk => by
          have := hb (k + 1) (by simp; omega) (by rwa [show j + (k + 1) = j + 1 + k by omega])
          rwa [show j + (k + 1) = j + 1 + k by omega] at this)
        (fun k hk hmk => by
          have := hkv (k + 1) (by simp; omega) (by rwa [show j + (k + 1) = j + 1 + k by omega])
          simpa using this)
      simp only [slotsFrom, rowOf, List.map_cons, visible, List.filterMap_cons] at ih' ⊢
      rw [← hm0]
      cases hmj : mask j with
      | false => simpa using ih'
      | true =>
        have hb0 : bias j = bias' j := by simpa using hb 0 (by simp) (by simpa using hmj)
        have hx : x = x' := by simpa using hkv 0 (by simp) (by simpa using hmj)
        subst hx
        simpa [hb0] using ih'

/-- **Masked positions are inert** (whole-sequence form). If two key/value sequences (and biases) agree at every
position that the mask allows for a query, that query's output is the same — for every row function that sees
only the allowed pairs, every mask, every query. -/
theorem masked_positions_inert (cfg : AttnCfg Q K V B S O) (h : SeesOnlyVisible cfg) (q : Q)
    (kvs kvs' : List (K × V)) (hlen : kvs.length = kvs'.length) (bias bias' : Nat → B) (mask : Nat → Bool)
    (hkv : ∀ j, j < kvs.length → mask j = true → kvs[j]? = kvs'[j]? ∧ bias j = bias' j) :
    attnRow cfg q kvs bias mask = attnRow cfg q kvs' bias' mask := by
  unfold attnRow
  apply h
  apply aux_visible_congr _ _ _ _ _ _ _ _ _ 0 hlen
  · intro k _; rfl
  · intro k hk hm; simpa using (hkv k hk (by simpa using hm)).2
  · intro k hk hm; simpa using (hkv k hk (by simpa using hm)).1

private theorem aux_whole_getElem (cfg : AttnCfg Q K V B S O) (kvs : List (K × V)) (bias : Nat → Nat → B)
    (mask : Nat → Nat → Bool) (qs : List Q) :
    ∀ (i0 i : Nat), (attnWholeFrom cfg kvs bias mask i0 qs)[i]? =
      (qs[i]?).map fun q => attnRow cfg q kvs (bias (i0 + i)) (mask (i0 + i)) := by
  induction qs with
  | nil => intro i0 i; simp [attnWholeFrom]
  | cons q qs ih =>
    intro i0 i
    cases i with
    | zero => simp [attnWholeFrom]
    | succ i => simp [attnWholeFrom, ih, show i0 + 1 + i = i0 + (i + 1) by omega]

/-- the output at query position `i` is attention of query `i` alone over the keys/values with row `i` of
the bias and of the mask: no other query can influence it -/
theorem attn_whole_row (cfg : AttnCfg Q K V B S O) (qs : List Q) (kvs : List (K × V)) (bias : Nat → Nat → B)
    (mask : Nat → Nat → Bool) (i : Nat) :
    (attnWhole cfg qs kvs bias mask)[i]? = (qs[i]?).map fun q => attnRow cfg q kvs (bias i) (mask i) := by
  unfold attnWhole
  simpa using aux_whole_getElem cfg kvs bias mask qs 0 i

theorem attn_whole_length (cfg : AttnCfg Q K V B S O) (qs : List Q) (kvs : List (K × V)) (bias : Nat → Nat → B)
    (mask : Nat → Nat → Bool) : (attnWhole cfg qs kvs bias mask).length = qs.length := by
  unfold attnWhole
  generalize 0 = i0
  induction qs generalizing i0 with
  | nil => simp [attnWholeFrom]
  | cons q qs ih => simp [attnWholeFrom, ih]

private theorem aux_set_append_replicate {α : Type} (done : List α) (z kv : α) (n : Nat) :
    (done ++ List.replicate (n + 1) z).set done.length kv = done ++ kv :: List.replicate n z := by
  induction done with
  | nil => simp [List.replicate_succ]
  | cons x done ih => simp [ih]

private theorem aux_decode (cfg : AttnCfg Q K V B S O) (h : SeesOnlyVisible cfg) (bias : Nat → Nat → B)
    (user : Nat → Nat → Bool) (zero : K × V) (L : Nat) (rest : List (Q × (K × V))) :
    ∀ done : List (K × V), done.length + rest.length ≤ L →
      decodeRun cfg bias user ⟨done ++ List.replicate (L - done.length) zero, done.length⟩ rest =
        attnWholeFrom cfg (done ++ rest.map Prod.snd) bias (causal user) done.length (rest.map Prod.fst) := by
  induction rest with
  | nil => intro done _; simp [decodeRun, attnWholeFrom]
  | cons s r ih =>
    intro done hL
    obtain ⟨q, kv⟩ := s
    simp only [List.length_cons] at hL
    have hn : L - done.length = (L - done.length - 1) + 1 := by omega
    have hmin : min done.length ((done ++ List.replicate (L - done.length) zero).length - 1) = done.length := by
      simp; omega
    have hw : (Cache.write ⟨done ++ List.replicate (L - done.length) zero, done.length⟩ kv : Cache K V) =
        ⟨(done ++ [kv]) ++ List.replicate (L - (done ++ [kv]).length) zero, (done ++ [kv]).length⟩ := by
      simp only [Cache.write, hmin]
      rw [hn, aux_set_append_replicate]
      simp [Nat.sub_sub]
    simp only [decodeRun, decodeStep, attnWholeFrom, List.map_cons, hw]
    congr 1
    · unfold attnRow
      apply h
      have e1 : done ++ kv :: r.map Prod.snd = (done ++ [kv]) ++ r.map Prod.snd := by simp
      rw [e1, aux_slotsFrom_append, aux_slotsFrom_append (a := done ++ [kv]), aux_rowOf_append, aux_rowOf_append,
        aux_visible_append, aux_visible_append]
      have hc : (fun j => decide (j ≤ done.length) && user done.length j) = causal user done.length := rfl
      rw [hc, aux_visible_masked (l := List.replicate _ zero), aux_visible_masked (l := r.map Prod.snd)]
      · intro k _; simp [causal]; omega
      · intro k _; simp [causal]; omega
    · have := ih (done ++ [kv]) (by simp; omega)
      simpa using this

/-- **Decode = causal.** Feeding a sequence of `T ≤ max_length` positions one at a time through the decode
cache (zero-initialised, any `max_length`, any per-step user mask and bias rows) produces exactly the outputs
of whole-sequence attention with `combine_masks(user, causal)` — for *every* score function, bias and
row function that sees only the allowed pairs. -/
theorem decode_eq_causal (cfg : AttnCfg Q K V B S O) (h : SeesOnlyVisible cfg) (bias : Nat → Nat → B)
    (user : Nat → Nat → Bool) (zero : K × V) (L : Nat) (steps : List (Q × (K × V))) (hL : steps.length ≤ L) :
    decodeRun cfg bias user (Cache.init zero L) steps =
      attnWhole cfg (steps.map Prod.fst) (steps.map Prod.snd) bias (causal user) := by
  have := aux_decode cfg h bias user zero L steps [] (by simpa using hL)
  simpa [Cache.init, attnWhole] using this

private theorem aux_set_mid' {β : Type} (a b : List β) (x y : β) : (a ++ x :: b).set a.length y = a ++ y :: b := by
  induction a with
  | nil => rfl
  | cons c a ih => simp [ih]

private theorem aux_decode_any (cfg : AttnCfg Q K V B S O) (h : SeesOnlyVisible cfg) (bias : Nat → Nat → B)
    (user : Nat → Nat → Bool) (rest : List (Q × (K × V))) :
    ∀ (done tail : List (K × V)), rest.length ≤ tail.length →
      decodeRun cfg bias user ⟨done ++ tail, done.length⟩ rest =
        attnWholeFrom cfg (done ++ rest.map Prod.snd) bias (causal user) done.length (rest.map Prod.fst) := by
  induction rest with
  | nil => intro done tail _; simp [decodeRun, attnWholeFrom]
  | cons s r ih =>
    intro done tail hL
    obtain ⟨q, kv⟩ := s
    cases tail with
    | nil => simp at hL
    | cons x tail' =>
      simp only [List.length_cons] at hL
      have hmin : min done.length ((done ++ x :: tail').length - 1) = done.length := by simp
      have hw : (Cache.write ⟨done ++ x :: tail', done.length⟩ kv : Cache K V) =
          ⟨(done ++ [kv]) ++ tail', (done ++ [kv]).length⟩ := by
        simp only [Cache.write, hmin, aux_set_mid']
        simp
      simp only [decodeRun, decodeStep, attnWholeFrom, List.map_cons, hw]
      congr 1
      · unfold attnRow
        apply h
        have e1 : done ++ kv :: r.map Prod.snd = (done ++ [kv]) ++ r.map Prod.snd := by simp
        rw [e1, aux_slotsFrom_append, aux_slotsFrom_append (a := done ++ [kv]), aux_rowOf_append, aux_rowOf_append,
          aux_visible_append, aux_visible_append]
        have hc : (fun j => decide (j ≤ done.length) && user done.length j) = causal user done.length := rfl
        rw [hc, aux_visible_masked (l := tail'), aux_visible_masked (l := r.map Prod.snd)]
        · intro k _; simp [causal]; omega
        · intro k _; simp [causal]; omega
      · have := ih (done ++ [kv]) tail' (by omega)
        simpa using this

/-- **Not-yet-written cache slots are inert**: whatever the `max_length` cache slots hold before decoding starts
(zeros as `init` leaves them, or any junk), feeding `T ≤ max_length` positions gives the outputs of the
whole-sequence run under `causal ∧ user mask` — the cache-validity mask `arange(max_length) <= cache_index` is
*combined* with the caller's mask, never replaced by it. -/
theorem decode_unwritten_slots_inert (cfg : AttnCfg Q K V B S O) (h : SeesOnlyVisible cfg) (bias : Nat → Nat → B)
    (user : Nat → Nat → Bool) (junk : List (K × V)) (steps : List (Q × (K × V))) (hL : steps.length ≤ junk.length) :
    decodeRun cfg bias user ⟨junk, 0⟩ steps =
      attnWhole cfg (steps.map Prod.fst) (steps.map Prod.snd) bias (causal user) := by
  have := aux_decode_any cfg h bias user steps [] junk hL
  simpa [attnWhole] using this

/-- **Decode step `t` with a user mask = row `t` of the whole-sequence run under (causal ∧ user mask)**: the
output of the call made when `cache_index = t` is attention of query `t` over the keys/values fed so far *and
later* (`kvs` is the whole sequence), with mask `j ≤ t ∧ user t j` and bias row `t` — for padding masks, arbitrary
per-step masks and masks that already encode `≤ t` alike, from any initial cache content. -/
theorem decode_step_eq_row_with_mask (cfg : AttnCfg Q K V B S O) (h : SeesOnlyVisible cfg) (bias : Nat → Nat → B)
    (user : Nat → Nat → Bool) (junk : List (K × V)) (steps : List (Q × (K × V))) (hL : steps.length ≤ junk.length)
    (t : Nat) :
    (decodeRun cfg bias user ⟨junk, 0⟩ steps)[t]? =
      ((steps.map Prod.fst)[t]?).map fun q =>
        attnRow cfg q (steps.map Prod.snd) (bias t) (fun j => decide (j ≤ t) && user t j) := by
  rw [decode_unwritten_slots_inert cfg h bias user junk steps hL, attn_whole_row]
  rfl

/-- the same statement without any assumption on softmax: at every step the list of allowed
(logit, value) pairs handed to the row function is that of row `t` of the causal whole-sequence computation -/
theorem decode_visible_eq_causal (score : Q → K → S) (addBias : S → B → S) (bias : Nat → Nat → B)
    (user : Nat → Nat → Bool) (zero : K × V) (L : Nat) (steps : List (Q × (K × V))) (hL : steps.length ≤ L) :
    decodeRun ⟨score, addBias, visible⟩ bias user (Cache.init zero L) steps =
      attnWhole ⟨score, addBias, visible⟩ (steps.map Prod.fst) (steps.map Prod.snd) bias (causal user) :=
  decode_eq_causal _ (fun _ _ hr => hr) bias user zero L steps hL

/-- decoding is incremental: the outputs of the first steps do not depend on what is fed afterwards -/
theorem decode_prefix (cfg : AttnCfg Q K V B S O) (bias : Nat → Nat → B) (user : Nat → Nat → Bool)
    (a b : List (Q × (K × V))) : ∀ c : Cache K V,
    (decodeRun cfg bias user c (a ++ b)).take a.length = decodeRun cfg bias user c a := by
  induction a with
  | nil => intro c; simp [decodeRun]
  | cons s a ih => intro c; obtain ⟨q, kv⟩ := s; simp [decodeRun, ih]

/-- **Self-attention: ignored positions are inert.** If two inputs differ only at positions `j` marked
`ignored`, and no non-ignored query is allowed to see an ignored position, then the outputs at all non-ignored
positions coincide (bias may differ at masked entries too). -/
theorem self_attention_inert (cfg : AttnCfg Q K V B S O) (h : SeesOnlyVisible cfg) (fq : X → Q) (fk : X → K)
    (fv : X → V) (xs xs' : List X) (hlen : xs.length = xs'.length) (ignored : Nat → Bool)
    (bias : Nat → Nat → B) (mask : Nat → Nat → Bool)
    (hx : ∀ j, ignored j = false → xs[j]? = xs'[j]?)
    (hm : ∀ i j, ignored i = false → ignored j = true → mask i j = false)
    (i : Nat) (hi : ignored i = false) :
    (selfAttn cfg fq fk fv xs bias mask)[i]? = (selfAttn cfg fq fk fv xs' bias mask)[i]? := by
  unfold selfAttn
  rw [attn_whole_row, attn_whole_row]
  have hq : xs[i]? = xs'[i]? := hx i hi
  simp only [List.getElem?_map, hq]
  cases hxi : xs'[i]? with
  | none => rfl
  | some x =>
    simp only [Option.map_some]
    congr 1
    apply masked_positions_inert cfg h
    · simp [hlen]
    · intro j _ hmj
      refine ⟨?_, rfl⟩
      cases hig : ignored j with
      | true => have := hm i j hi hig; simp [this] at hmj
      | false => simp [List.getElem?_map, hx j hig]

/-- **Positions after a causal position are inert** (whole-sequence form): under a causal mask (combined with
any user mask) the outputs at positions `< p` depend only on the inputs at positions `< p`. -/
theorem causal_future_inert (cfg : AttnCfg Q K V B S O) (h : SeesOnlyVisible cfg) (fq : X → Q) (fk : X → K)
    (fv : X → V) (xs xs' : List X) (hlen : xs.length = xs'.length) (bias : Nat → Nat → B)
    (user : Nat → Nat → Bool) (p : Nat) (hx : ∀ j, j < p → xs[j]? = xs'[j]?) (i : Nat) (hi : i < p) :
    (selfAttn cfg fq fk fv xs bias (causal user))[i]? = (selfAttn cfg fq fk fv xs' bias (causal user))[i]? := by
  apply self_attention_inert cfg h fq fk fv xs xs' hlen (fun j => decide (p ≤ j))
  · intro j hj; exact hx j (by simpa using hj)
  · intro i j hi hj; simp at hi hj; simp [causal]; intro _; omega
  · simpa using hi

/-- the allowed pairs of a row are exactly: for each allowed slot, in order, (score + bias, value) — the bias
enters before the mask, masked slots contribute neither their key, their bias nor their value -/
theorem visible_row_spec (score : Q → K → S) (addBias : S → B → S) (q : Q) (slots : List (Slot K V B)) :
    visible (rowOf score addBias q slots) =
      (slots.filter (·.allowed)).map fun s => (addBias (score q s.key) s.bias, s.val) := by
  induction slots with
  | nil => rfl
  | cons s slots ih =>
    simp only [rowOf, visible, List.map_cons, List.filterMap_cons, List.filter_cons] at ih ⊢
    cases hs : s.allowed <;> simp [ih]

/-- a softmax-free instance of the row function used in the examples: Σ score·value over the allowed pairs -/
def sumCfg : AttnCfg Int Int Int Int Int Int :=
  ⟨fun q k => q * k, fun s b => s + b, fun row => ((visible row).map fun p => p.1 * p.2).foldl (· + ·) 0⟩

/-- the hypothesis of the attention theorems is satisfiable by a non-trivial row function … -/
theorem sumCfg_sees_only_visible : SeesOnlyVisible sumCfg := by
  intro r r' h; simp [sumCfg, h]

/-- … and it is needed: a row function that also reads masked values is *not* inert -/
theorem masked_inert_needs_hypothesis :
    let leaky : AttnCfg Int Int Int Int Int Int := ⟨fun q k => q * k, fun s b => s + b, fun row => (row.map (·.2)).foldl (· + ·) 0⟩
    attnRow leaky 1 [(1, 1), (1, 5)] (fun _ => 0) (fun j => decide (j = 0)) ≠
      attnRow leaky 1 [(1, 1), (1, 7)] (fun _ => 0) (fun j => decide (j = 0)) := by
  decide

example : attnRow sumCfg 2 [(3, 10), (4, 100), (5, 1000)] (fun _ => 1) (fun j => decide (j ≠ 1)) = 7 * 10 + 11 * 1000 := by
  decide

-- masked_positions_inert / self_attention_inert: concrete non-trivial instances of the hypotheses
example : attnRow sumCfg 2 [(3, 10), (4, 100), (5, 1000)] (fun _ => 1) (fun j => decide (j ≠ 1)) =
    attnRow sumCfg 2 [(3, 10), (-77, 12345), (5, 1000)] (fun j => if j = 1 then 99 else 1) (fun j => decide (j ≠ 1)) :=
  masked_positions_inert sumCfg sumCfg_sees_only_visible 2 [(3, 10), (4, 100), (5, 1000)]
    [(3, 10), (-77, 12345), (5, 1000)] rfl (fun _ => 1) (fun j => if j = 1 then 99 else 1) (fun j => decide (j ≠ 1))
    (by intro j hj; have : j = 0 ∨ j = 1 ∨ j = 2 := by simp at hj; omega
        rcases this with h | h | h <;> subst h <;> simp)

-- self_attention_inert: position 1 is ignored (masked for queries 0 and 2) and holds different inputs
example : (selfAttn sumCfg (fun x : Int => x + 1) (fun x => 2 * x) (fun x => x * x) [3, 4, 5] (fun _ _ => 0)
      (fun _ j => decide (j ≠ 1)))[2]? =
    (selfAttn sumCfg (fun x : Int => x + 1) (fun x => 2 * x) (fun x => x * x) [3, -1000, 5] (fun _ _ => 0)
      (fun _ j => decide (j ≠ 1)))[2]? :=
  self_attention_inert sumCfg sumCfg_sees_only_visible _ _ _ [3, 4, 5] [3, -1000, 5] rfl (fun j => decide (j = 1)) _ _
    (by intro j hj; have hj' : j ≠ 1 := by simpa using hj
        match j, hj' with
        | 0, _ => rfl
        | 2, _ => rfl
        | j + 3, _ => rfl)
    (by intro i j _ hj; simpa using hj) 2 (by decide)

-- decode_step_eq_row_with_mask: a key-padding mask [1,1,1,0] over 4 cache slots holding junk: step 0 sees slot 0 only
example : (decodeRun sumCfg (fun _ _ => 0) (fun _ j => decide (j < 3)) ⟨[(9, 9), (9, 9), (9, 9), (9, 9)], 0⟩
      [(1, (2, 3)), (4, (5, 6))])[0]? = some 6 ∧
    (decodeRun sumCfg (fun _ _ => 0) (fun _ j => decide (j < 3)) ⟨[(9, 9), (9, 9), (9, 9), (9, 9)], 0⟩
      [(1, (2, 3)), (4, (5, 6))])[1]? = some 144 := by decide

-- decode_eq_causal: three steps through a cache of max_length 4, user mask hiding position 0 from step 2
example : decodeRun sumCfg (fun _ _ => 0) (fun i j => !(decide (i = 2) && decide (j = 0))) (Cache.init (0, 0) 4)
      [(1, (2, 3)), (4, (5, 6)), (7, (8, 9))] = [6, 144, 714] ∧
    attnWhole sumCfg [1, 4, 7] [(2, 3), (5, 6), (8, 9)] (fun _ _ => 0)
      (causal fun i j => !(decide (i = 2) && decide (j = 0))) = [6, 144, 714] := by
  decide

/-! ### `dot_product_attention_weights` / `dot_product_attention`: the plumbing around softmax -/

section Weights
variable {W : Type}

/-- **the logits handed to softmax**: position `j` holds `(q / √d) · k_j + bias_j` where the mask allows it and
`finfo.min` elsewhere — scaling acts on the query, the bias is added before the mask and is discarded with the
logit at masked positions, softmax runs over the key axis, dropout comes last. In terms of `rowOf`: the
masked-logit row with `none ↦ finfo.min`. -/
theorem weights_row_spec (scaleQ : Q → Q) (dotp : Q → K → S) (addBias : S → B → S) (ops : SoftmaxOps S W V O)
    (dropout : List W → List W) (q : Q) (slots : List (Slot K V B)) :
    weightsRow scaleQ dotp addBias ops dropout q slots =
      dropout (ops.softmax ((rowOf (fun q k => dotp (scaleQ q) k) addBias q slots).map fun p => p.1.getD ops.bigNeg)) := by
  simp only [weightsRow, rowOf, List.map_map]
  congr 2
  apply List.map_congr_left
  intro s _
  cases hs : s.allowed <;> simp [hs]

/-- `dot_product_attention` (deterministic) = weighted sum of the values with exactly those weights -/
theorem attention_is_weighted_sum (scaleQ : Q → Q) (dotp : Q → K → S) (addBias : S → B → S) (ops : SoftmaxOps S W V O)
    (q : Q) (kvs : List (K × V)) (bias : Nat → B) (mask : Nat → Bool) :
    attnRow ⟨fun q k => dotp (scaleQ q) k, addBias, attendOf ops⟩ q kvs bias mask =
      ops.wsum ((weightsRow scaleQ dotp addBias ops id q (slotsFrom bias mask 0 kvs)).zip
        ((slotsFrom bias mask 0 kvs).map (·.val))) := by
  simp only [attnRow, attendOf, weights_row_spec, id]
  congr 2
  simp [rowOf]

private theorem aux_scatter_wsum (ops : SoftmaxOps S W V O) (zero : W)
    (h2 : ∀ (a b : List (W × V)) (v : V), ops.wsum (a ++ (zero, v) :: b) = ops.wsum (a ++ b))
    (row : List (Option S × V)) : ∀ (ws : List W) (acc : List (W × V)),
    ws.length = (visible row).length →
    ops.wsum (acc ++ (scatter zero (row.map (·.1)) ws).zip (row.map (·.2))) =
      ops.wsum (acc ++ ws.zip ((visible row).map (·.2))) := by
  induction row with
  | nil => intro ws acc h; simp [scatter, visible]
  | cons p row ih =>
    intro ws acc h
    obtain ⟨s, v⟩ := p
    cases s with
    | none =>
      simp only [List.map_cons, scatter, List.zip_cons_cons, visible, List.filterMap_cons, Option.map_none] at h ⊢
      rw [h2]
      exact ih ws acc h
    | some s =>
      cases ws with
      | nil => simp [visible] at h
      | cons w ws =>
        simp only [List.map_cons, scatter, List.zip_cons_cons, visible, List.filterMap_cons, Option.map_some,
          List.length_cons] at h ⊢
        have := ih ws (acc ++ [(w, v)]) (by simpa [visible] using h)
        simpa [visible] using this

/-- **A-SOFTMAX reduced to two primitive facts.** If (1) on a row of logits whose masked entries were replaced
by `finfo.min`, softmax gives weight `zero` to the masked positions and gives the allowed positions the weights
`sm` computes from the allowed logits alone, and (2) the weighted sum ignores terms of weight `zero`, then
softmax·V sees a row only through its allowed (logit, value) pairs — the hypothesis of every attention theorem
above. (For the real float softmax (1) holds on rows with at least one allowed entry: `exp(finfo.min - max)`
underflows to 0; a fully masked row gets uniform weights and is outside the property.) -/
theorem attend_sees_only_visible (score : Q → K → S) (addBias : S → B → S) (ops : SoftmaxOps S W V O) (zero : W)
    (sm : List S → List W) (hsm : ∀ l, (sm l).length = l.length)
    (h1 : ∀ row : List (Option S), ops.softmax (row.map (·.getD ops.bigNeg)) = scatter zero row (sm (row.filterMap id)))
    (h2 : ∀ (a b : List (W × V)) (v : V), ops.wsum (a ++ (zero, v) :: b) = ops.wsum (a ++ b)) :
    SeesOnlyVisible (⟨score, addBias, attendOf ops⟩ : AttnCfg Q K V B S O) := by
  have key : ∀ row : List (Option S × V), attendOf ops row =
      ops.wsum ((sm ((visible row).map (·.1))).zip ((visible row).map (·.2))) := by
    intro row
    have hf : (row.map (·.1)).filterMap id = (visible row).map (·.1) := by
      induction row with
      | nil => rfl
      | cons p row ih =>
        obtain ⟨s, v⟩ := p
        cases s <;> simp [visible] at ih ⊢ <;> exact ih
    have := h1 (row.map (·.1))
    simp only [List.map_map] at this
    simp only [attendOf]
    rw [show (row.map fun p => p.1.getD ops.bigNeg) = row.map ((fun x : Option S => x.getD ops.bigNeg) ∘ fun p => p.1) from rfl,
      this, hf]
    have := aux_scatter_wsum ops zero h2 row (sm ((visible row).map (·.1))) [] (by simp [hsm])
    simpa using this
  intro r r' h
  show attendOf ops r = attendOf ops r'
  rw [key, key, h]

-- the two primitive facts are satisfiable together (weights = logits, `finfo.min` := 0, Σ w·v)
example : SeesOnlyVisible (⟨fun (q k : Nat) => q * k, fun s (b : Nat) => s + b,
    attendOf ⟨0, id, fun l => (l.map fun p : Nat × Nat => p.1 * p.2).sum⟩⟩ : AttnCfg Nat Nat Nat Nat Nat Nat) :=
  attend_sees_only_visible _ _ ⟨0, id, fun l => (l.map fun p : Nat × Nat => p.1 * p.2).sum⟩ 0 id (fun _ => rfl)
    (by
      intro row
      induction row with
      | nil => rfl
      | cons s r ih => cases s <;> simp_all [scatter])
    (by intro a b v; simp)

end Weights

end Attn

/-! ## Mask combinators -/

/-- is position `(i, j)` allowed by the mask (absent entries count as not allowed) -/
def allowedAt (m : Mask) (i j : Nat) : Bool := (entry m i j).any truthy

/-- `make_attention_mask` is the pairwise function applied to query element `i` and key element `j` -/
theorem make_attention_mask_spec (f : Int → Int → Int) (qs ks : List Int) (i j : Nat) :
    entry (makeAttentionMask f qs ks) i j = (qs[i]?).bind fun q => (ks[j]?).map fun k => f q k := by
  simp only [entry, makeAttentionMask, List.getElem?_map]
  cases qs[i]? <;> simp

/-- `make_causal_mask` allows exactly `j ≤ i` -/
theorem make_causal_mask_spec (n i j : Nat) (hi : i < n) (hj : j < n) :
    entry (makeCausalMask n) i j = some (if j ≤ i then 1 else 0) ∧
    allowedAt (makeCausalMask n) i j = decide (j ≤ i) := by
  have e : entry (makeCausalMask n) i j = some (if j ≤ i then 1 else 0) := by
    simp only [makeCausalMask, make_attention_mask_spec, arange, List.getElem?_map, List.getElem?_range hi,
      List.getElem?_range hj, Option.map_some, Option.bind_some, geI]
    simp
  refine ⟨e, ?_⟩
  simp only [allowedAt, e, Option.any_some, truthy]
  by_cases h : j ≤ i <;> simp [h]

theorem make_causal_mask_shape (n : Nat) :
    (makeCausalMask n).map List.length = List.replicate n n := by
  apply List.ext_getElem <;> simp [makeCausalMask, makeAttentionMask, arange]

private theorem aux_entry_land (a b : Mask) (i j : Nat) :
    entry (land a b) i j = (entry a i j).bind fun x => (entry b i j).map fun y => landI x y := by
  simp only [entry, land, List.getElem?_zipWith]
  cases a[i]? <;> cases b[i]? <;> simp [List.getElem?_zipWith]
  rename_i ra rb
  cases ra[j]? <;> cases rb[j]? <;> simp

private theorem aux_allowed_land (a b : Mask) (i j : Nat) :
    allowedAt (land a b) i j = (allowedAt a i j && allowedAt b i j) := by
  simp only [allowedAt, aux_entry_land]
  cases entry a i j <;> cases entry b i j <;> simp [truthy, landI]

private theorem aux_allowed_foldl (rest : List Mask) : ∀ (m : Mask) (i j : Nat),
    allowedAt (rest.foldl land m) i j = (allowedAt m i j && rest.all (allowedAt · i j)) := by
  induction rest with
  | nil => intro m i j; simp
  | cons x rest ih => intro m i j; simp [ih, aux_allowed_land, Bool.and_assoc]

private theorem aux_shape_land (a b : Mask) (h : sameShape a b = true) :
    (land a b).map List.length = a.map List.length := by
  simp only [sameShape, decide_eq_true_eq] at h
  simp only [land]
  induction a generalizing b with
  | nil => simp
  | cons r a ih =>
    cases b with
    | nil => simp at h
    | cons r' b =>
      simp only [List.map_cons, List.cons.injEq] at h
      simp [ih b h.2, h.1]

private theorem aux_shape_foldl (rest : List Mask) : ∀ m : Mask, rest.all (sameShape m) = true →
    (rest.foldl land m).map List.length = m.map List.length := by
  induction rest with
  | nil => intro m _; rfl
  | cons x rest ih =>
    intro m h
    simp only [List.all_cons, Bool.and_eq_true] at h
    have hs := aux_shape_land m x h.1
    simp only [List.foldl_cons]
    rw [ih (land m x), hs]
    simp only [List.all_eq_true] at h ⊢
    intro y hy
    have := h.2 y hy
    simp only [sameShape, decide_eq_true_eq] at this ⊢
    rw [hs]; exact this

/-- `combine_masks` returns `None` exactly when every argument is `None` -/
theorem combine_masks_none (ms : List (Option Mask)) :
    combineMasks ms = .ok none ↔ ∀ m ∈ ms, m = none := by
  unfold combineMasks
  constructor
  · intro h
    split at h
    · rename_i hnil
      intro m hm
      cases m with
      | none => rfl
      | some v =>
        have : v ∈ ms.filterMap id := by simp [List.mem_filterMap]; exact hm
        rw [hnil] at this; cases this
    · split at h <;> simp at h
  · intro h
    have : ms.filterMap id = [] := by
      rw [List.filterMap_eq_nil_iff]
      intro m hm; rw [h m hm]; rfl
    simp [this]

/-- `combine_masks` of the masks that are not `None` (same shapes) is their pointwise conjunction, with the
shape of the first; a single mask is returned unchanged. -/
theorem combine_masks_spec (ms : List (Option Mask)) (m : Mask) (rest : List Mask)
    (hp : ms.filterMap id = m :: rest) (hs : rest.all (sameShape m) = true) :
    ∃ r, combineMasks ms = .ok (some r) ∧ r.map List.length = m.map List.length ∧
      (rest = [] → r = m) ∧
      ∀ i j, allowedAt r i j = (m :: rest).all (allowedAt · i j) := by
  refine ⟨rest.foldl land m, ?_, aux_shape_foldl rest m hs, ?_, ?_⟩
  · simp [combineMasks, hp, hs]
  · intro h; subst h; rfl
  · intro i j; simp [aux_allowed_foldl]

/-- masks of different shapes are rejected, not silently truncated -/
theorem combine_masks_shape_error (ms : List (Option Mask)) (m : Mask) (rest : List Mask)
    (hp : ms.filterMap id = m :: rest) (hs : rest.all (sameShape m) = false) :
    combineMasks ms = .error "MaskShape" := by
  simp [combineMasks, hp, hs]

example : combineMasks [some (makeCausalMask 3), none, some [[1, 1, 0], [5, 1, 0], [1, 0, 7]]]
    = .ok (some [[1, 0, 0], [1, 1, 0], [1, 0, 1]]) := by rfl


/-! ## Recurrent layers -/

section RNN
variable {α C X Y : Type}

private theorem aux_scan_acc (cell : C → X → C × Y) (xs : List X) : ∀ (c : C) (acc : List (C × Y)),
    xs.foldl (fun (st : C × List (C × Y)) x => let r := cell st.1 x; (r.1, st.2 ++ [(r.1, r.2)])) (c, acc) =
      ((scanCell cell c xs).1, acc ++ (scanCell cell c xs).2) := by
  induction xs with
  | nil => intro c acc; simp [scanCell]
  | cons x xs ih =>
    intro c acc
    simp only [List.foldl_cons, scanCell]
    rw [ih, ih (cell c x).1 ([] ++ [((cell c x).1, (cell c x).2)])]
    simp

private theorem aux_scan_cons (cell : C → X → C × Y) (c : C) (x : X) (xs : List X) :
    scanCell cell c (x :: xs) =
      ((scanCell cell (cell c x).1 xs).1, ((cell c x).1, (cell c x).2) :: (scanCell cell (cell c x).1 xs).2) := by
  simp only [scanCell, List.foldl_cons]
  rw [aux_scan_acc]
  simp [scanCell]

/-- **`RNN` (scan) = the Python loop**: same final carry, same outputs, for every cell, carry and sequence. -/
theorem rnn_loop_eq_scan (cell : C → X → C × Y) (xs : List X) : ∀ c : C,
    pyLoop cell c xs = ((scanCell cell c xs).1, (scanCell cell c xs).2.map Prod.snd) := by
  induction xs with
  | nil => intro c; simp [pyLoop, scanCell]
  | cons x xs ih => intro c; simp [pyLoop, aux_scan_cons, ih]

/-- **stepwise = whole-sequence**: running a prefix, keeping the carry, and continuing on the rest gives the
same carry and outputs as one run over the whole sequence (in particular one step at a time). -/
theorem rnn_stepwise (cell : C → X → C × Y) (a b : List X) : ∀ c : C,
    pyLoop cell c (a ++ b) =
      ((pyLoop cell (pyLoop cell c a).1 b).1, (pyLoop cell c a).2 ++ (pyLoop cell (pyLoop cell c a).1 b).2) := by
  induction a with
  | nil => intro c; simp [pyLoop]
  | cons x a ih => intro c; simp [pyLoop, ih]

theorem pyLoop_length (cell : C → X → C × Y) (xs : List X) : ∀ c : C, (pyLoop cell c xs).2.length = xs.length := by
  induction xs with
  | nil => intro c; simp [pyLoop]
  | cons x xs ih => intro c; simp [pyLoop, ih]

private theorem aux_scan_length (cell : C → X → C × Y) (xs : List X) : ∀ c : C,
    (scanCell cell c xs).2.length = xs.length := by
  induction xs with
  | nil => intro c; simp [scanCell]
  | cons x xs ih => intro c; simp [aux_scan_cons, ih]

private theorem aux_scan_append (cell : C → X → C × Y) (a b : List X) : ∀ c : C,
    scanCell cell c (a ++ b) =
      ((scanCell cell (scanCell cell c a).1 b).1, (scanCell cell c a).2 ++ (scanCell cell (scanCell cell c a).1 b).2) := by
  induction a with
  | nil => intro c; simp [scanCell]
  | cons x a ih => intro c; simp [aux_scan_cons, ih]

private theorem aux_scan_take (cell : C → X → C × Y) (c : C) (xs : List X) (n : Nat) :
    (scanCell cell c xs).2.take n = (scanCell cell c (xs.take n)).2 := by
  by_cases hn : n ≤ xs.length
  · conv => lhs; rw [← List.take_append_drop n xs]
    rw [aux_scan_append]
    exact List.take_left' (by rw [aux_scan_length]; simp; omega)
  · rw [List.take_of_length_le (by rw [aux_scan_length]; omega), List.take_of_length_le (by omega)]

private theorem aux_scan_last (cell : C → X → C × Y) (xs : List X) : ∀ c : C, xs ≠ [] →
    ((scanCell cell c xs).2.map Prod.fst)[xs.length - 1]? = some (scanCell cell c xs).1 := by
  induction xs with
  | nil => intro c h; exact absurd rfl h
  | cons x xs ih =>
    intro c _
    rw [aux_scan_cons]
    cases xs with
    | nil => simp [scanCell]
    | cons y ys =>
      have := ih (cell c x).1 (by simp)
      simp only [List.length_cons, Nat.add_sub_cancel, List.map_cons] at this ⊢
      simpa using this

private theorem aux_select_last (cell : C → X → C × Y) (c : C) (xs : List X) (l : Nat) (h1 : 1 ≤ l)
    (h2 : l ≤ xs.length) :
    selectLast ((scanCell cell c xs).2.map Prod.fst) l = some (scanCell cell c (xs.take l)).1 := by
  have hlen : ((scanCell cell c xs).2.map Prod.fst).length = xs.length := by simp [aux_scan_length]
  simp only [selectLast, hlen, h1, h2, and_self, ↓reduceIte]
  have ht : (xs.take l).length = l := by simp; omega
  have hne : xs.take l ≠ [] := by intro h; rw [h] at ht; simp at ht; omega
  have := aux_scan_last cell (xs.take l) c hne
  rw [ht, ← aux_scan_take, List.getElem?_map, List.getElem?_take] at this
  rw [List.getElem?_map]
  simpa [show l - 1 < l by omega] using this

/-! ### `flip_sequences` -/

private theorem aux_flipIdx_lt (T l t : Nat) (ht : t < l) (hl : l ≤ T) : flipIdx T l t = l - 1 - t := by
  unfold flipIdx
  rw [show T - 1 - t + l = T + (l - 1 - t) by omega, Nat.add_mod_left, Nat.mod_eq_of_lt (by omega)]

private theorem aux_flipIdx_ge (T l t : Nat) (hl : l ≤ t) (ht : t < T) : flipIdx T l t = T - 1 - t + l := by
  unfold flipIdx
  exact Nat.mod_eq_of_lt (by omega)

theorem flip_length (len : Option Nat) (xs : List α) : (flipSeq len xs).length = xs.length := by
  cases len <;> simp [flipSeq]

/-- **`flip_sequences` re-indexes time exactly as follows**: position `t < len` reads position `len-1-t`
(reversal inside the valid length); a padding position `t ≥ len` reads the padding position
`T-1-(t-len)` (so padding stays at the end — the code reverses the padding block too, it is *not* the identity
there). Without `seq_lengths` it is plain reversal. -/
theorem flip_sequences_spec (xs : List α) (l t : Nat) (hl : l ≤ xs.length) (ht : t < xs.length) :
    (flipSeq (some l) xs)[t]? = (if t < l then xs[l - 1 - t]? else xs[xs.length - 1 - (t - l)]?) ∧
    (l ≤ t → l ≤ xs.length - 1 - (t - l) ∧ xs.length - 1 - (t - l) < xs.length) ∧
    (flipSeq none xs)[t]? = xs[xs.length - 1 - t]? := by
  refine ⟨?_, fun h => by omega, ?_⟩
  · simp only [flipSeq, List.getElem?_ofFn, ht, ↓reduceDIte]
    by_cases h : t < l
    · simp [h, aux_flipIdx_lt _ _ _ h hl]
    · have h' : l ≤ t := by omega
      have e : xs.length - 1 - t + l = xs.length - 1 - (t - l) := by omega
      simp only [h, ↓reduceIte, aux_flipIdx_ge _ _ _ h' ht, e]
      rw [List.getElem?_eq_getElem]
  · simp only [flipSeq]
    rw [List.getElem?_reverse ht]

/-- closed form: the valid prefix reversed, followed by the padding block reversed -/
theorem flip_closed_form (xs : List α) (l : Nat) (hl : l ≤ xs.length) :
    flipSeq (some l) xs = (xs.take l).reverse ++ (xs.drop l).reverse := by
  apply List.ext_getElem?
  intro t
  by_cases ht : t < xs.length
  · rw [(flip_sequences_spec xs l t hl ht).1]
    by_cases h : t < l
    · have h1 : t < (xs.take l).reverse.length := by simp; omega
      rw [List.getElem?_append_left h1, List.getElem?_reverse (by simpa using h1)]
      simp only [h, ↓reduceIte, List.length_take, List.getElem?_take]
      rw [show min l xs.length = l by omega]
      simp [show l - 1 - t < l by omega]
    · have h1 : (xs.take l).reverse.length ≤ t := by simp; omega
      rw [List.getElem?_append_right h1, List.getElem?_reverse (by simp; omega)]
      simp only [h, ↓reduceIte, List.length_reverse, List.length_take, List.length_drop, List.getElem?_drop]
      rw [show min l xs.length = l by omega]
      congr 1; omega
  · rw [List.getElem?_eq_none (by rw [flip_length]; omega), List.getElem?_eq_none (by simp; omega)]

/-- `flip_sequences` is an involution (so `keep_order` restores the original time order) -/
theorem flip_involution (xs : List α) (len : Option Nat) (hl : ∀ l, len = some l → l ≤ xs.length) :
    flipSeq len (flipSeq len xs) = xs := by
  cases len with
  | none => simp [flipSeq]
  | some l =>
    have hl := hl l rfl
    rw [flip_closed_form _ l (by rw [flip_length]; exact hl), flip_closed_form xs l hl]
    have h1 : ((xs.take l).reverse ++ (xs.drop l).reverse).take l = (xs.take l).reverse :=
      List.take_left' (by simp; omega)
    have h2 : ((xs.take l).reverse ++ (xs.drop l).reverse).drop l = (xs.drop l).reverse :=
      List.drop_left' (by simp; omega)
    rw [h1, h2]; simp

/-! ### `RNN.__call__` -/

/-- the loop over the *valid* part of one row: left to right, or right to left when `reverse` -/
def validCore (cell : C → X → C × Y) (c0 : C) (xs : List X) (l : Nat) (reverse : Bool) : C × List Y :=
  pyLoop cell c0 (if reverse then (xs.take l).reverse else xs.take l)

private theorem aux_take_flip (xs : List α) (l : Nat) (hl : l ≤ xs.length) :
    (flipSeq (some l) xs).take l = (xs.take l).reverse := by
  rw [flip_closed_form xs l hl]
  exact List.take_left' (by simp; omega)

/-- **What `RNN` computes on a padded row** (`1 ≤ seq_length ≤ T`, all flag combinations): the returned carry
is the carry of the loop over the valid inputs only (in reversed order when `reverse`), the outputs at the
valid positions `t < seq_length` are that loop's outputs — in processing order, or flipped back to input order
when `keep_order` — and the output keeps the full length `T`. -/
theorem rnn_valid_spec (cell : C → X → C × Y) (c0 : C) (xs : List X) (l : Nat) (h1 : 1 ≤ l) (h2 : l ≤ xs.length)
    (reverse keepOrder : Bool) :
    (rnnRow cell c0 xs (some l) reverse keepOrder).1 = some (validCore cell c0 xs l reverse).1 ∧
    (rnnRow cell c0 xs (some l) reverse keepOrder).2.take l =
      (if reverse && keepOrder then (validCore cell c0 xs l reverse).2.reverse
       else (validCore cell c0 xs l reverse).2) ∧
    (rnnRow cell c0 xs (some l) reverse keepOrder).2.length = xs.length := by
  have hx1len : (if reverse then flipSeq (some l) xs else xs).length = xs.length := by
    cases reverse <;> simp [flip_length]
  have hx1take : (if reverse then flipSeq (some l) xs else xs).take l =
      (if reverse then (xs.take l).reverse else xs.take l) := by
    cases reverse <;> simp [aux_take_flip xs l h2]
  have hys : ((scanCell cell c0 (if reverse then flipSeq (some l) xs else xs)).2.map Prod.snd).take l =
      (validCore cell c0 xs l reverse).2 := by
    rw [← List.map_take, aux_scan_take, hx1take, validCore, rnn_loop_eq_scan]
  have hyslen : ((scanCell cell c0 (if reverse then flipSeq (some l) xs else xs)).2.map Prod.snd).length
      = xs.length := by simp [aux_scan_length, hx1len]
  refine ⟨?_, ?_, ?_⟩
  · simp only [rnnRow]
    rw [aux_select_last cell c0 _ l h1 (by rw [hx1len]; exact h2), hx1take, validCore, rnn_loop_eq_scan]
  · simp only [rnnRow]
    cases hrk : (reverse && keepOrder) with
    | false => simpa using hys
    | true =>
      simp only [↓reduceIte]
      rw [aux_take_flip _ l (by rw [hyslen]; exact h2), hys]
  · simp only [rnnRow]
    cases hrk : (reverse && keepOrder) <;> simp [flip_length, aux_scan_length, hx1len]

/-- without `seq_lengths` the whole row is valid: plain loop, or loop over the reversed sequence; `keep_order`
flips the outputs back -/
theorem rnn_full_spec (cell : C → X → C × Y) (c0 : C) (xs : List X) (reverse keepOrder : Bool) :
    rnnRow cell c0 xs none reverse keepOrder =
      (some (pyLoop cell c0 (if reverse then xs.reverse else xs)).1,
       if reverse && keepOrder then (pyLoop cell c0 (if reverse then xs.reverse else xs)).2.reverse
       else (pyLoop cell c0 (if reverse then xs.reverse else xs)).2) := by
  simp only [rnnRow, rnn_loop_eq_scan]
  cases reverse <;> cases keepOrder <;> simp [flipSeq]

/-- **Padding is inert.** Two rows that agree on the first `seq_length` positions (whatever the padding holds)
give the same final carry and the same outputs at all valid positions, for every cell, every initial carry and
every combination of `reverse` / `keep_order`. -/
theorem rnn_padding_inert (cell : C → X → C × Y) (c0 : C) (xs xs' : List X) (l : Nat) (h1 : 1 ≤ l)
    (h2 : l ≤ xs.length) (hlen : xs.length = xs'.length) (hx : xs.take l = xs'.take l)
    (reverse keepOrder : Bool) :
    (rnnRow cell c0 xs (some l) reverse keepOrder).1 = (rnnRow cell c0 xs' (some l) reverse keepOrder).1 ∧
    (rnnRow cell c0 xs (some l) reverse keepOrder).2.take l =
      (rnnRow cell c0 xs' (some l) reverse keepOrder).2.take l := by
  have a := rnn_valid_spec cell c0 xs l h1 h2 reverse keepOrder
  have b := rnn_valid_spec cell c0 xs' l h1 (by omega) reverse keepOrder
  have hc : validCore cell c0 xs l reverse = validCore cell c0 xs' l reverse := by simp [validCore, hx]
  rw [a.1, b.1, a.2.1, b.2.1, hc]
  exact ⟨rfl, rfl⟩

/-- the returned carry is a real carry (`select_last_carry` never falls outside the stacked carries) and it is
the carry *after* position `seq_length - 1`, not after the padding -/
theorem rnn_carry_at_last_valid (cell : C → X → C × Y) (c0 : C) (xs : List X) (l : Nat) (h1 : 1 ≤ l)
    (h2 : l ≤ xs.length) :
    (rnnRow cell c0 xs (some l) false false).1 = some (pyLoop cell c0 (xs.take l)).1 := by
  simpa [validCore] using (rnn_valid_spec cell c0 xs l h1 h2 false false).1

/-! ### `Bidirectional` -/

/-- **Bidirectional = forward ⊕ reversed-with-keep-order**: at every valid position the output is the merge
of the forward loop's output and of the backward loop's output for the same input position; the carry is the
pair (forward carry after the last valid input, backward carry after the first input). -/
theorem bidirectional_spec {CF CB YF YB : Type} (cellF : CF → X → CF × YF) (cellB : CB → X → CB × YB)
    (merge : YF → YB → Y) (c0f : CF) (c0b : CB) (xs : List X) (l : Nat) (h1 : 1 ≤ l) (h2 : l ≤ xs.length) :
    (bidirRow cellF cellB merge c0f c0b xs (some l)).1 =
      (some (pyLoop cellF c0f (xs.take l)).1, some (pyLoop cellB c0b (xs.take l).reverse).1) ∧
    (bidirRow cellF cellB merge c0f c0b xs (some l)).2.take l =
      List.zipWith merge (pyLoop cellF c0f (xs.take l)).2 (pyLoop cellB c0b (xs.take l).reverse).2.reverse ∧
    (bidirRow cellF cellB merge c0f c0b xs (some l)).2.length = xs.length := by
  have f := rnn_valid_spec cellF c0f xs l h1 h2 false false
  have b := rnn_valid_spec cellB c0b xs l h1 h2 true true
  simp only [validCore] at f b
  refine ⟨?_, ?_, ?_⟩
  · simp only [bidirRow, f.1, b.1]; simp
  · simp only [bidirRow, List.take_zipWith, f.2.1, b.2.1]; simp
  · simp only [bidirRow, List.length_zipWith, f.2.2, b.2.2]; simp

/-- Bidirectional without `seq_lengths` -/
theorem bidirectional_full_spec {CF CB YF YB : Type} (cellF : CF → X → CF × YF) (cellB : CB → X → CB × YB)
    (merge : YF → YB → Y) (c0f : CF) (c0b : CB) (xs : List X) :
    bidirRow cellF cellB merge c0f c0b xs none =
      ((some (pyLoop cellF c0f xs).1, some (pyLoop cellB c0b xs.reverse).1),
       List.zipWith merge (pyLoop cellF c0f xs).2 (pyLoop cellB c0b xs.reverse).2.reverse) := by
  simp [bidirRow, rnn_full_spec]

/-- **flag resolution**: a call-time value wins over the constructor attribute; without one the attribute is used -/
theorem resolve_flag_spec (ctor v : Bool) : resolveFlag (some v) ctor = v ∧ resolveFlag none ctor = ctor := ⟨rfl, rfl⟩

/-- **Bidirectional uses one resolved `time_major` for both directions**: the result depends on the constructor
attribute and the call-time argument only through the resolved flag — in particular a call-time value that
disagrees with the constructor (either way) gives exactly what a layer constructed with that value gives, and both
the forward and the backward half are the `rnnBatch` runs with that same flag. -/
theorem bidirectional_time_major_resolved {CF CB YF YB : Type} (cellF : CF → X → CF × YF) (cellB : CB → X → CB × YB)
    (merge : YF → YB → Y) (ctor v : Bool) (T : Nat) (c0fs : List CF) (c0bs : List CB) (inputs : List (List X))
    (lens : Option (List Nat)) :
    bidirBatch cellF cellB merge ctor (some v) T c0fs c0bs inputs lens =
      bidirBatch cellF cellB merge v none T c0fs c0bs inputs lens ∧
    bidirBatch cellF cellB merge ctor (some v) T c0fs c0bs inputs lens =
      (do let f ← rnnBatch cellF v T c0fs inputs lens false false
          let b ← rnnBatch cellB v T c0bs inputs lens true true
          pure ((f.1, b.1), List.zipWith (List.zipWith merge) f.2 b.2)) := ⟨rfl, rfl⟩

/-- padding is inert for `Bidirectional` too -/
theorem bidirectional_padding_inert {CF CB YF YB : Type} (cellF : CF → X → CF × YF) (cellB : CB → X → CB × YB)
    (merge : YF → YB → Y) (c0f : CF) (c0b : CB) (xs xs' : List X) (l : Nat) (h1 : 1 ≤ l) (h2 : l ≤ xs.length)
    (hlen : xs.length = xs'.length) (hx : xs.take l = xs'.take l) :
    (bidirRow cellF cellB merge c0f c0b xs (some l)).1 = (bidirRow cellF cellB merge c0f c0b xs' (some l)).1 ∧
    (bidirRow cellF cellB merge c0f c0b xs (some l)).2.take l =
      (bidirRow cellF cellB merge c0f c0b xs' (some l)).2.take l := by
  have a := bidirectional_spec cellF cellB merge c0f c0b xs l h1 h2
  have b := bidirectional_spec cellF cellB merge c0f c0b xs' l h1 (by omega)
  rw [a.1, b.1, a.2.1, b.2.1, hx]
  exact ⟨rfl, rfl⟩

/-! ### batches and `time_major` -/

private theorem aux_column_getElem (rows : List (List α)) (t : Nat) (h : ∀ r ∈ rows, t < r.length) :
    ∀ b : Nat, (column rows t)[b]? = (rows[b]?).bind (·[t]?) := by
  induction rows with
  | nil => intro b; simp [column]
  | cons r rows ih =>
    intro b
    have hr : t < r.length := h r (by simp)
    have ih' := ih (fun r' hr' => h r' (by simp [hr']))
    simp only [column, List.filterMap_cons, List.getElem?_eq_getElem hr] at ih' ⊢
    cases b with
    | zero => simp [List.getElem?_eq_getElem hr]
    | succ b => simpa using ih' b

private theorem aux_column_length (rows : List (List α)) (t : Nat) (h : ∀ r ∈ rows, t < r.length) :
    (column rows t).length = rows.length := by
  induction rows with
  | nil => simp [column]
  | cons r rows ih =>
    have hr : t < r.length := h r (by simp)
    have ih' := ih (fun r' hr' => h r' (by simp [hr']))
    simp only [column, List.filterMap_cons, List.getElem?_eq_getElem hr] at ih' ⊢
    simp [ih']

private theorem aux_range_filterMap_getElem (l : List α) : ∀ n, l.length = n →
    (List.range n).filterMap (fun t => l[t]?) = l := by
  induction l with
  | nil => intro n h; subst h; simp
  | cons a l ih =>
    intro n h
    cases n with
    | zero => simp at h
    | succ n =>
      rw [List.range_succ_eq_map, List.filterMap_cons]
      simp only [List.getElem?_cons_zero, List.filterMap_map]
      congr 1
      have := ih n (by simpa using h)
      simpa [Function.comp_def] using this

private theorem aux_filterMap_congr {β : Type} (f g : α → Option β) (l : List α) (h : ∀ x ∈ l, f x = g x) :
    l.filterMap f = l.filterMap g := by
  induction l with
  | nil => rfl
  | cons a l ih =>
    simp only [List.filterMap_cons, h a (by simp)]
    rw [ih (fun x hx => h x (by simp [hx]))]

private theorem aux_isRect {r c : Nat} {m : List (List α)} (h : isRect r c m = true) :
    m.length = r ∧ ∀ row ∈ m, row.length = c := by
  simpa [isRect] using h

private theorem aux_transpose_rect (B T : Nat) (rows : List (List α)) (h : isRect B T rows = true) :
    isRect T B (transposeN T rows) = true := by
  obtain ⟨hB, hT⟩ := aux_isRect h
  simp only [isRect, transposeN, List.length_map, List.length_range, decide_true, Bool.true_and, List.all_map,
    List.all_eq_true, List.mem_range, Function.comp_apply, decide_eq_true_eq]
  intro t ht
  rw [aux_column_length rows t (fun r hr => by rw [hT r hr]; exact ht), hB]

private theorem aux_transpose_transpose (B T : Nat) (rows : List (List α)) (h : isRect B T rows = true) :
    transposeN B (transposeN T rows) = rows := by
  obtain ⟨hB, hT⟩ := aux_isRect h
  apply List.ext_getElem?
  intro b
  by_cases hb : b < B
  · have hb' : b < rows.length := by omega
    simp only [transposeN, List.getElem?_map, List.getElem?_range hb, Option.map_some,
      List.getElem?_eq_getElem hb']
    congr 1
    simp only [column, List.filterMap_map]
    have : ∀ t ∈ List.range T, ((fun x : List α => x[b]?) ∘ column rows) t = (rows[b])[t]? := by
      intro t ht
      simp only [List.mem_range] at ht
      simp only [Function.comp_apply]
      rw [aux_column_getElem rows t (fun r hr => by rw [hT r hr]; exact ht)]
      simp [List.getElem?_eq_getElem hb']
    rw [aux_filterMap_congr _ _ _ this]
    exact aux_range_filterMap_getElem _ T (hT _ (List.getElem_mem hb'))
  · rw [List.getElem?_eq_none (by simp [transposeN]; omega), List.getElem?_eq_none (by omega)]

/-- **`time_major` only moves the time axis**: running on the `[time][batch]` layout gives the result of the
`[batch][time]` run with the outputs transposed back, and the same carries — for all flags, lengths, cells. -/
theorem time_major_spec (cell : C → X → C × Y) (T : Nat) (c0s : List C) (inputs : List (List X))
    (lens : Option (List Nat)) (reverse keepOrder : Bool) (h : isRect c0s.length T inputs = true) :
    rnnBatch cell true T c0s (transposeN T inputs) lens reverse keepOrder =
      (rnnBatch cell false T c0s inputs lens reverse keepOrder).map fun p => (p.1, transposeN T p.2) := by
  simp only [rnnBatch, aux_transpose_rect _ _ _ h, h, aux_transpose_transpose _ _ _ h, ↓reduceIte,
    Bool.false_eq_true, Bool.not_true, Bool.false_or]
  cases lens with
  | none => simp [Except.map]
  | some ls =>
    simp only []
    by_cases hc : ls.length = c0s.length
    · simp [hc, Except.map]
    · simp [hc, Except.map]

private theorem aux_zip3_getElem (as : List α) (cs : List C) (xs : List X) : ∀ b : Nat,
    (zip3 as cs xs)[b]? = (as[b]?).bind fun a => (cs[b]?).bind fun c => (xs[b]?).map fun x => (a, c, x) := by
  induction as generalizing cs xs with
  | nil => intro b; simp [zip3]
  | cons a as ih =>
    intro b
    cases cs with
    | nil => cases as[b]? <;> cases (a :: as)[b]? <;> simp [zip3]
    | cons c cs =>
      cases xs with
      | nil =>
        simp only [zip3, List.getElem?_nil, Option.map_none]
        cases (a :: as)[b]? <;> simp
      | cons x xs =>
        cases b with
        | zero => simp [zip3]
        | succ b => simp [zip3, ih]

private theorem aux_zip3_length (as : List α) (cs : List C) (xs : List X) (n : Nat) (h1 : as.length = n)
    (h2 : cs.length = n) (h3 : xs.length = n) : (zip3 as cs xs).length = n := by
  induction as generalizing cs xs n with
  | nil => simp at h1; subst h1; simp [zip3]
  | cons a as ih =>
    cases cs with
    | nil => simp at h2; subst h2; simp at h1
    | cons c cs =>
      cases xs with
      | nil => simp at h3; subst h3; simp at h1
      | cons x xs =>
        cases n with
        | zero => simp at h1
        | succ n => simp [zip3, ih cs xs n (by simpa using h1) (by simpa using h2) (by simpa using h3)]

/-- **batch rows are independent**: in the `[batch][time]` layout, row `b` of the result is `RNN` applied to
row `b` alone with its own initial carry and its own `seq_lengths[b]` -/
theorem rnn_batch_row (cell : C → X → C × Y) (T : Nat) (c0s : List C) (inputs : List (List X))
    (lens : List Nat) (reverse keepOrder : Bool) (h : isRect c0s.length T inputs = true)
    (hl : lens.length = c0s.length) :
    ∃ carries outs, rnnBatch cell false T c0s inputs (some lens) reverse keepOrder = .ok (carries, outs) ∧
      carries.length = c0s.length ∧ outs.length = c0s.length ∧
      ∀ (b : Nat) (c0 : C) (xs : List X) (l : Nat), c0s[b]? = some c0 → inputs[b]? = some xs → lens[b]? = some l →
        carries[b]? = some (rnnRow cell c0 xs (some l) reverse keepOrder).1 ∧
        outs[b]? = some (rnnRow cell c0 xs (some l) reverse keepOrder).2 := by
  obtain ⟨hB, _⟩ := aux_isRect h
  refine ⟨((zip3 (lens.map some) c0s inputs).map fun x => rnnRow cell x.2.1 x.2.2 x.1 reverse keepOrder).map Prod.fst,
    ((zip3 (lens.map some) c0s inputs).map fun x => rnnRow cell x.2.1 x.2.2 x.1 reverse keepOrder).map Prod.snd,
    ?_, ?_, ?_, ?_⟩
  · simp only [rnnBatch, h, hl, List.length_map, ne_eq, not_true_eq_false, decide_false, Bool.not_true,
      Bool.or_self, Bool.false_eq_true, ↓reduceIte]
  · simp only [List.length_map]
    exact aux_zip3_length _ _ _ c0s.length (by simp [hl]) rfl hB
  · simp only [List.length_map]
    exact aux_zip3_length _ _ _ c0s.length (by simp [hl]) rfl hB
  · intro b c0 xs l hc hx hlb
    simp only [List.getElem?_map, aux_zip3_getElem, hc, hx, hlb]
    simp

/-- lengths outside the documented domain `[1, T]` are outside the model -/
theorem select_last_domain (cs : List C) (l : Nat) : (selectLast cs l).isSome = true ↔ 1 ≤ l ∧ l ≤ cs.length := by
  unfold selectLast
  by_cases h : 1 ≤ l ∧ l ≤ cs.length
  · simp only [h, and_self, ↓reduceIte, iff_true]
    rw [List.getElem?_eq_getElem (by omega)]; rfl
  · simp [h]

/-- **repaired `_select_last_carry`, two batch axes**: entry `(i, j)` is `selectLast` of the carries of batch
element `(i, j)` alone -/
theorem select_last2_spec (cs : List (List (List C))) (lens : List (List Nat)) (i j : Nat) (row : List Nat) (l : Nat)
    (hr : lens[i]? = some row) (hl : row[j]? = some l)
    (hc : ∀ t, t < cs.length → ∃ c, ((cs[t]?).bind (·[i]?)).bind (·[j]?) = some c) :
    ((selectLast2 cs lens)[i]?).bind (·[j]?) =
      some (selectLast (cs.filterMap fun (step : List (List C)) => (step[i]?).bind (·[j]?)) l) := by
  have hi : i < lens.length := by
    rcases Nat.lt_or_ge i lens.length with h | h
    · exact h
    · rw [List.getElem?_eq_none h] at hr; cases hr
  have hj : j < row.length := by
    rcases Nat.lt_or_ge j row.length with h | h
    · exact h
    · rw [List.getElem?_eq_none h] at hl; cases hl
  have hrow : lens[i] = row := by rw [List.getElem?_eq_getElem hi] at hr; exact Option.some.inj hr
  have hlv : row[j] = l := by rw [List.getElem?_eq_getElem hj] at hl; exact Option.some.inj hl
  -- the per-element carry series is the stacked carries read at (i, j)
  have hser : ∀ (cs' : List (List (List C))), (∀ t, t < cs'.length → ∃ c, ((cs'[t]?).bind (·[i]?)).bind (·[j]?) = some c) →
      (cs'.filterMap fun (step : List (List C)) => (step[i]?).bind (·[j]?)).length = cs'.length ∧
      ∀ t : Nat, (cs'.filterMap fun (step : List (List C)) => (step[i]?).bind (·[j]?))[t]? =
        ((cs'[t]?).bind (·[i]?)).bind (·[j]?) := by
    intro cs'
    induction cs' with
    | nil => intro _; simp
    | cons s rest ih =>
      intro h
      obtain ⟨c, hc0⟩ := h 0 (by simp)
      simp only [List.getElem?_cons_zero, Option.bind_some] at hc0
      have ih' := ih (fun t ht => by simpa using h (t + 1) (by simp; omega))
      simp only [List.filterMap_cons, hc0]
      refine ⟨by simp [ih'.1], ?_⟩
      intro t
      cases t with
      | zero => simp [hc0]
      | succ t => simpa using ih'.2 t
  obtain ⟨hlen, hget⟩ := hser cs hc
  simp only [selectLast2, List.getElem?_mapIdx, List.getElem?_eq_getElem hi, Option.map_some, Option.bind_some,
    hrow, List.getElem?_eq_getElem hj, hlv, selectLast, hlen]
  by_cases hd : 1 ≤ l ∧ l ≤ cs.length
  · simp only [hd, and_self, ↓reduceIte]
    rw [hget]
  · simp [hd]

example : ((selectLast2 [[[111, 112], [121, 122]], [[211, 212], [221, 222]]] [[1, 2], [2, 1]])[0]?).bind (·[1]?)
    = some (selectLast [112, 212] 2) := by decide

/-- **finding (fixed in /repo): the shipped `_select_last_carry` is wrong for two batch axes.** For batch shape
`(2, 2)` it returns, per batch element, a *row* of carries read at the wrong batch index (so the returned carry
has shape `(2, 2, 2, …)` instead of `(2, 2, …)`); for batch shape `(2, 3)` the index arrays do not broadcast
and the call raises. The repaired function returns the carry after the last valid step of each element. -/
theorem select_last2_orig_wrong :
    let cs : List (List (List Int)) := [[[111, 112], [121, 122]], [[211, 212], [221, 222]]]
    selectLast2Orig cs [[1, 2], [2, 1]] = some [[some [111, 112], some [221, 222]], [some [211, 212], some [121, 122]]] ∧
    selectLast2 cs [[1, 2], [2, 1]] = [[some 111, some 212], [some 221, some 122]] ∧
    selectLast2Orig [[[1, 2, 3], [4, 5, 6]]] [[1, 1, 1], [1, 1, 1]] = none := by
  decide

end RNN

/-! ## `flip_sequences` / `_select_last_carry` with any number of batch axes, both layouts -/

section NDim
variable {α : Type}

/-- in-bounds multi-index: same rank, every coordinate below the extent -/
inductive InB : List Nat → List Nat → Prop
  | nil : InB [] []
  | cons {i d : Nat} {is ds : List Nat} : i < d → InB is ds → InB (i :: is) (d :: ds)

private theorem aux_inb_length {idx shape : List Nat} (h : InB idx shape) : idx.length = shape.length := by
  induction h with
  | nil => rfl
  | cons _ _ ih => simp [ih]

private theorem aux_bcast_inb {idx shape : List Nat} (h : InB idx shape) : bcastIdx shape idx = idx := by
  induction h with
  | nil => rfl
  | cons hlt _ ih =>
    simp only [bcastIdx, List.zipWith_cons_cons] at ih ⊢
    rw [ih]
    split
    · congr 1; omega
    · rfl

private theorem aux_bcast_append (sa sb a b : List Nat) (h : a.length = sa.length) :
    bcastIdx (sa ++ sb) (a ++ b) = bcastIdx sa a ++ bcastIdx sb b := by
  simp only [bcastIdx]
  exact List.zipWith_append (by omega)

private theorem aux_bcast_length (s idx : List Nat) (h : idx.length = s.length) : (bcastIdx s idx).length = s.length := by
  simp [bcastIdx, h]

private theorem aux_bshape_ones (s : List Nat) : bshape2 (List.replicate s.length 1) s = s := by
  induction s with
  | nil => rfl
  | cons d s ih => simp only [bshape2, List.length_cons, List.replicate_succ, List.zipWith_cons_cons] at ih ⊢; simp [ih]

private theorem aux_tdim (T : Nat) : (if T = 1 then 1 else T) = T := by split <;> omega

private theorem aux_bcoord (T t : Nat) (ht : t < T) : (if T = 1 then 0 else t) = t := by split <;> omega

private theorem aux_set_last {β : Type} (a : List β) (x y : β) : (a ++ [x]).set a.length y = a ++ [y] := by
  induction a with
  | nil => rfl
  | cons b a ih => simp [ih]

private theorem aux_set_mid {β : Type} (a b : List β) (x y : β) : (a ++ x :: b).set a.length y = a ++ y :: b := by
  induction a with
  | nil => rfl
  | cons c a ih => simp [ih]

/-- time-major pieces -/
private theorem aux_tm_sl (lens : ND Nat) (is : List Nat) (t : Nat) (his : InB is lens.shape) :
    (lens.expandDims 0).bget (t :: is) = lens.get is := by
  simp only [ND.bget, ND.expandDims, List.insertIdx_zero, bcastIdx, List.zipWith_cons_cons, ↓reduceIte,
    List.eraseIdx_cons_zero]
  have := aux_bcast_inb his
  simp only [bcastIdx] at this
  rw [this]

private theorem aux_tm_ar (T nb t : Nat) (is : List Nat) (ht : t < T) :
    (arangeRevAt T (nb + 1) 0).bget (t :: is) = T - 1 - t := by
  simp only [ND.bget, arangeRevAt, List.replicate_succ, List.set_cons_zero, bcastIdx, List.zipWith_cons_cons,
    List.getElem?_cons_zero, Option.getD_some, aux_bcoord T t ht]

/-- batch-major pieces -/
private theorem aux_bm_sl (lens : ND Nat) (is : List Nat) (t : Nat) (his : InB is lens.shape) :
    (lens.expandDims lens.shape.length).bget (is ++ [t]) = lens.get is := by
  have hlen := aux_inb_length his
  simp only [ND.bget, ND.expandDims]
  rw [show lens.shape.insertIdx lens.shape.length 1 = lens.shape ++ [1] by simp [List.insertIdx_length_self],
    aux_bcast_append _ _ _ _ hlen, aux_bcast_inb his]
  simp only [bcastIdx, List.zipWith_cons_cons, ↓reduceIte, List.zipWith_nil_left]
  rw [← hlen, List.eraseIdx_append_of_length_le (by omega)]
  simp

private theorem aux_bm_ar (T t : Nat) (is : List Nat) (ht : t < T) :
    (arangeRevAt T (is.length + 1) is.length).bget (is ++ [t]) = T - 1 - t := by
  simp only [ND.bget, arangeRevAt]
  have hs : (List.replicate (is.length + 1) 1).set is.length T = List.replicate is.length 1 ++ [T] := by
    rw [List.replicate_succ']
    have := aux_set_last (List.replicate is.length 1) 1 T
    simp only [List.length_replicate] at this
    exact this
  rw [hs, aux_bcast_append _ _ _ _ (by simp)]
  have hl : (bcastIdx (List.replicate is.length 1) is).length = is.length := by simp [bcastIdx]
  rw [List.getElem?_append_right (by omega), hl]
  simp [bcastIdx, aux_bcoord T t ht]

theorem flip_nd_spec (inputs : ND α) (lens : ND Nat) (tm : Bool) (T : Nat) (fshape is fs : List Nat) (t : Nat)
    (hshape : inputs.shape = layout tm lens.shape T fshape)
    (his : InB is lens.shape) (ht : t < T) :
    (flipND inputs (some lens) lens.shape.length tm).get (layout tm is t fs) =
      inputs.get (layout tm is (flipIdx T (lens.get is) t) fs) := by
  have hlen := aux_inb_length his
  cases tm with
  | true =>
    simp only [layout, ↓reduceIte] at hshape ⊢
    have hT : (inputs.shape[0]?).getD 0 = T := by rw [hshape]; simp
    simp only [flipND, ↓reduceIte, hT, List.set_cons_zero]
    congr 2
    have hS : bshape2 (arangeRevAt T (lens.shape.length + 1) 0).shape (lens.expandDims 0).shape = T :: lens.shape := by
      simp only [arangeRevAt, ND.expandDims, List.replicate_succ, List.set_cons_zero, List.insertIdx_zero, bshape2,
        List.zipWith_cons_cons, aux_tdim]
      have := aux_bshape_ones lens.shape
      simp only [bshape2] at this
      rw [this]
    rw [hS]
    simp only [ND.bget, List.length_cons]
    have hb : bcastIdx (T :: lens.shape ++ List.replicate (inputs.shape.length - (lens.shape.length + 1)) 1) (t :: (is ++ fs))
        = (t :: is) ++ bcastIdx (List.replicate (inputs.shape.length - (lens.shape.length + 1)) 1) fs := by
      rw [show T :: lens.shape ++ List.replicate (inputs.shape.length - (lens.shape.length + 1)) 1
          = (T :: lens.shape) ++ List.replicate (inputs.shape.length - (lens.shape.length + 1)) 1 from rfl,
        show t :: (is ++ fs) = (t :: is) ++ fs from rfl, aux_bcast_append _ _ _ _ (by simp [hlen]),
        aux_bcast_inb (InB.cons ht his)]
    rw [hb, List.take_left' (by simp [hlen])]
    have h1 := aux_tm_ar T lens.shape.length t is ht
    have h2 := aux_tm_sl lens is t his
    simp only [ND.bget] at h1 h2
    rw [h1, h2]
    rfl
  | false =>
    simp only [layout, Bool.false_eq_true, ↓reduceIte] at hshape ⊢
    have hT : (inputs.shape[lens.shape.length]?).getD 0 = T := by rw [hshape]; simp
    simp only [flipND, Bool.false_eq_true, ↓reduceIte, hT]
    have hS : bshape2 (arangeRevAt T (lens.shape.length + 1) lens.shape.length).shape
        (lens.expandDims lens.shape.length).shape = lens.shape ++ [T] := by
      simp only [arangeRevAt, ND.expandDims]
      have hsl := aux_set_last (List.replicate lens.shape.length 1) 1 T
      simp only [List.length_replicate] at hsl
      rw [List.replicate_succ', hsl, show lens.shape.insertIdx lens.shape.length 1 = lens.shape ++ [1] by
        simp [List.insertIdx_length_self]]
      simp only [bshape2]
      rw [List.zipWith_append (by simp)]
      have := aux_bshape_ones lens.shape
      simp only [bshape2] at this
      rw [this]
      simp [aux_tdim]
    rw [hS]
    simp only [ND.bget, List.length_append, List.length_cons, List.length_nil]
    have hb : bcastIdx (lens.shape ++ [T] ++ List.replicate (inputs.shape.length - (lens.shape.length + 0 + 1)) 1) (is ++ t :: fs)
        = (is ++ [t]) ++ bcastIdx (List.replicate (inputs.shape.length - (lens.shape.length + 0 + 1)) 1) fs := by
      rw [show is ++ t :: fs = (is ++ [t]) ++ fs by simp, aux_bcast_append _ _ _ _ (by simp [hlen]),
        aux_bcast_append _ _ _ _ hlen, aux_bcast_inb his]
      congr 2
      simp [bcastIdx, aux_bcoord T t ht]
    rw [hb, List.take_left' (by simp [hlen])]
    have h1 := aux_bm_ar T t is ht
    have h2 := aux_bm_sl lens is t his
    rw [hlen] at h1
    simp only [ND.bget] at h1 h2
    rw [h1, h2, ← hlen]
    congr 1
    rw [aux_set_mid]
    rfl

/-- without `seq_lengths`: plain reversal of the time axis, in both layouts -/
theorem flip_nd_none_spec (inputs : ND α) (nb : Nat) (tm : Bool) (T : Nat) (bshape fshape is fs : List Nat) (t : Nat)
    (hshape : inputs.shape = layout tm bshape T fshape) (hnb : bshape.length = nb) (his : is.length = nb) :
    (flipND inputs none nb tm).get (layout tm is t fs) = inputs.get (layout tm is (T - 1 - t) fs) := by
  cases tm with
  | true =>
    simp only [layout, ↓reduceIte] at hshape ⊢
    simp [flipND, hshape]
  | false =>
    simp only [layout, Bool.false_eq_true, ↓reduceIte] at hshape ⊢
    have hT : (inputs.shape[nb]?).getD 0 = T := by rw [hshape, ← hnb]; simp
    simp only [flipND, Bool.false_eq_true, ↓reduceIte, hT]
    rw [← his, aux_set_mid]
    simp

private theorem aux_flipSeq_map {β γ : Type} (f : β → γ) (len : Option Nat) (xs : List β) :
    flipSeq len (xs.map f) = (flipSeq len xs).map f := by
  cases len with
  | none => simp [flipSeq]
  | some l =>
    apply List.ext_getElem?
    intro t
    simp only [flipSeq, List.getElem?_ofFn, List.length_map, List.getElem?_map]
    by_cases h : t < xs.length
    · simp only [h, ↓reduceDIte, Option.map_some, List.getElem_map]
      rfl
    · simp [h]

/-- **the one-row model is what every batch element sees**: the time series of batch element `is` of
`flip_sequences(inputs, seq_lengths, …)` is `flipSeq` of that element's own series with its own length
`seq_lengths[is]` — any number of batch axes, both layouts, with or without lengths. -/
theorem flip_nd_row (inputs : ND α) (lens : Option (ND Nat)) (tm : Bool) (T : Nat) (bshape is : List Nat)
    (hshape : inputs.shape = layout tm bshape T []) (his : InB is bshape)
    (hl : ∀ l, lens = some l → l.shape = bshape) :
    rowND (flipND inputs lens bshape.length tm) tm is T =
      flipSeq (lens.map (·.get is)) (rowND inputs tm is T) := by
  have hrl : (rowND inputs tm is T).length = T := by simp [rowND]
  apply List.ext_getElem?
  intro t
  by_cases ht : t < T
  · cases lens with
    | none =>
      simp only [Option.map_none, flipSeq]
      rw [List.getElem?_reverse (by omega), hrl]
      simp only [rowND, List.getElem?_map, List.getElem?_range ht, Option.map_some,
        List.getElem?_range (show T - 1 - t < T by omega)]
      rw [flip_nd_none_spec inputs bshape.length tm T bshape [] is [] t hshape rfl (aux_inb_length his)]
    | some l =>
      have hls := hl l rfl
      simp only [Option.map_some, flipSeq, List.getElem?_ofFn, hrl, ht, ↓reduceDIte]
      simp only [rowND, List.getElem?_map, List.getElem?_range ht, Option.map_some, List.getElem_map,
        List.getElem_range]
      rw [← hls] at his hshape ⊢
      rw [flip_nd_spec inputs l tm T [] is [] t hshape his ht]
  · rw [List.getElem?_eq_none (by simp [rowND]; omega),
      List.getElem?_eq_none (by rw [flip_length, hrl]; omega)]

private theorem aux_range_getD (l : List Nat) : (List.range l.length).map (fun k => (l[k]?).getD 0) = l := by
  apply List.ext_getElem?
  intro k
  by_cases h : k < l.length
  · simp [List.getElem?_range h, List.getElem?_eq_getElem h]
  · have h' : l.length ≤ k := by omega
    simp [List.getElem?_eq_none h']
    exact h'

/-- **repaired `_select_last_carry`, any number of batch axes**: batch element `is` gets the stacked carry of
its own series at its own `seq_lengths[is] - 1` -/
theorem select_last_nd_spec (x : ND α) (lens : ND Nat) (is fs : List Nat) (his : is.length = lens.shape.length) :
    (selectLastND x lens).get (is ++ fs) = x.get ((lens.get is - 1) :: (is ++ fs)) := by
  simp only [selectLastND, ← his, List.take_left', List.drop_left']
  rw [aux_range_getD]

private theorem aux_rnnRow_snd {C X Y : Type} (cell : C → X → C × Y) (c0 : C) (xs : List X) (len : Option Nat)
    (rev keep : Bool) :
    (rnnRow cell c0 xs len rev keep).2 =
      (if rev && keep then flipSeq len ((scanCell cell c0 (if rev then flipSeq len xs else xs)).2.map Prod.snd)
       else (scanCell cell c0 (if rev then flipSeq len xs else xs)).2.map Prod.snd) := by
  cases len <;> rfl

private theorem aux_rnnRow_fst {C X Y : Type} (cell : C → X → C × Y) (c0 : C) (xs : List X) (len : Option Nat)
    (rev keep : Bool) :
    (rnnRow cell c0 xs len rev keep).1 =
      (match len with
       | none => some (scanCell cell c0 (if rev then flipSeq len xs else xs)).1
       | some l => selectLast ((scanCell cell c0 (if rev then flipSeq len xs else xs)).2.map Prod.fst) l) := by
  cases len <;> rfl

-- flip_nd_spec, concretely: time-major [T=3, 2, 2] input holding 100·t + 10·i + j, lengths [[1, 3], [2, 1]]:
-- element (0, 1) (length 3) is reversed, element (1, 0) (length 2) swaps its first two steps, element (0, 0) keeps step 0
example :
    let inp : ND Nat := ⟨[3, 2, 2], fun idx => 100 * idx[0]! + 10 * idx[1]! + idx[2]!⟩
    let lens : ND Nat := ⟨[2, 2], fun is => [[1, 3], [2, 1]][is[0]!]![is[1]!]!⟩
    (flipND inp (some lens) 2 true).get [0, 0, 1] = 201 ∧ (flipND inp (some lens) 2 true).get [0, 1, 0] = 110 ∧
    (flipND inp (some lens) 2 true).get [0, 0, 0] = 0 ∧ (flipND inp (some lens) 2 true).get [2, 1, 0] = 210 ∧
    InB [0, 1] lens.shape := by
  refine ⟨by decide, by decide, by decide, by decide, ?_⟩
  exact InB.cons (by decide) (InB.cons (by decide) InB.nil)

private theorem aux_unlayout (tm : Bool) (is : List Nat) (t : Nat) :
    unlayout tm is.length (layout tm is t []) = (is, t) := by
  cases tm <;> simp [unlayout, layout]

private theorem aux_range_map_getElem? {β γ : Type} (l : List β) (f : β → γ) (n : Nat) (h : l.length = n) :
    (List.range n).map (fun t => (l[t]?).map f) = (l.map f).map some := by
  apply List.ext_getElem?
  intro t
  by_cases ht : t < n
  · have ht' : t < l.length := by omega
    simp [List.getElem?_range ht, List.getElem?_eq_getElem ht']
  · have h1 : n ≤ t := by omega
    simp [h, h1]

/-- **`RNN` on any number of batch axes, both layouts = the one-row model applied to every batch element with
its own initial carry and its own `seq_lengths` entry.** For an input `[*batch, T]` (or `[T, *batch]` when
`time_major`), every flag combination, with or without lengths: the output series of batch element `is` and its
returned carry are exactly `rnnRow` of that element's input series. Together with `rnn_valid_spec` /
`rnn_padding_inert` this lifts every one-row theorem to arbitrary batch shapes and to `time_major`. -/
theorem rnn_nd_spec {C X Y : Type} (cell : C → X → C × Y) (c0 : ND C) (inputs : ND X) (lens : Option (ND Nat))
    (tm rev keep : Bool) (T : Nat) (bshape is : List Nat)
    (hshape : inputs.shape = layout tm bshape T []) (his : InB is bshape)
    (hl : ∀ l, lens = some l → l.shape = bshape) :
    rowND (rnnND cell c0 inputs lens bshape.length T tm rev keep).2 tm is T =
      (rnnRow cell (c0.get is) (rowND inputs tm is T) (lens.map (·.get is)) rev keep).2.map some ∧
    (rnnND cell c0 inputs lens bshape.length T tm rev keep).1.get is =
      (rnnRow cell (c0.get is) (rowND inputs tm is T) (lens.map (·.get is)) rev keep).1 := by
  have hisl := aux_inb_length his
  have hrl : (rowND inputs tm is T).length = T := by simp [rowND]
  -- the series the scan sees for this batch element
  have hx1 : rowND (if rev then flipND inputs lens bshape.length tm else inputs) tm is T =
      (if rev then flipSeq (lens.map (·.get is)) (rowND inputs tm is T) else rowND inputs tm is T) := by
    cases rev
    · rfl
    · simp only [↓reduceIte]; exact flip_nd_row inputs lens tm T bshape is hshape his hl
  have hx1len : (if rev then flipSeq (lens.map (·.get is)) (rowND inputs tm is T) else rowND inputs tm is T).length = T := by
    cases rev <;> simp [flip_length, hrl]
  refine ⟨?_, ?_⟩
  · -- outputs
    have houts : ∀ (o : ND (Option Y)),
        (o = ⟨inputs.shape, fun idx =>
            ((scanCell cell (c0.get (unlayout tm bshape.length idx).1)
              (rowND (if rev then flipND inputs lens bshape.length tm else inputs) tm (unlayout tm bshape.length idx).1 T)).2[(unlayout tm bshape.length idx).2]?).map Prod.snd⟩) →
        rowND o tm is T = ((scanCell cell (c0.get is)
          (if rev then flipSeq (lens.map (·.get is)) (rowND inputs tm is T) else rowND inputs tm is T)).2.map Prod.snd).map some := by
      intro o ho
      subst ho
      simp only [rowND]
      have : ∀ t, unlayout tm bshape.length (layout tm is t []) = (is, t) := by
        intro t; rw [← hisl]; exact aux_unlayout tm is t
      simp only [this]
      have hx1' := hx1
      simp only [rowND] at hx1'
      rw [hx1']
      exact aux_range_map_getElem? _ _ T (by rw [aux_scan_length]; exact hx1len)
    simp only [rnnND, aux_rnnRow_snd]
    cases hrk : (rev && keep) with
    | false =>
      simp only [Bool.false_eq_true, ↓reduceIte]
      exact houts _ rfl
    | true =>
      simp only [↓reduceIte]
      rw [flip_nd_row (⟨inputs.shape, _⟩ : ND (Option Y)) lens tm T bshape is hshape his hl, houts _ rfl,
        aux_flipSeq_map]
  · -- carry
    simp only [rnnND, aux_rnnRow_fst]
    cases lens with
    | none =>
      simp only [Option.map_none] at hx1 ⊢
      rw [hx1]
    | some l =>
      have hls := hl l rfl
      simp only [Option.map_some] at hx1 hx1len ⊢
      by_cases hd : 1 ≤ l.get is ∧ l.get is ≤ T
      · have := select_last_nd_spec (⟨T :: c0.shape, fun idx =>
            ((scanCell cell (c0.get idx.tail)
              (rowND (if rev then flipND inputs (some l) bshape.length tm else inputs) tm idx.tail T)).2[idx.headD 0]?).map Prod.fst⟩ : ND (Option C))
          l is [] (by rw [hls]; exact hisl)
        simp only [List.append_nil, List.tail_cons, List.headD_cons, hx1] at this
        simp only [hd, and_self, ↓reduceIte, this, selectLast, List.length_map, aux_scan_length, hx1len,
          List.getElem?_map]
      · simp only [hd, ↓reduceIte, selectLast, List.length_map, aux_scan_length, hx1len]

end NDim

/-! ## Cells: OptimizedLSTMCell computes LSTMCell's recurrence -/

section Cells
variable {R : Type} [Add R] [Mul R] [OfNat R 0]

private theorem aux_dense_append (A B : List (List R)) (x : List R) : dense (A ++ B) x = dense A x ++ dense B x := by
  simp [dense]

private theorem aux_dense_length (A : List (List R)) (x : List R) : (dense A x).length = A.length := by
  simp [dense]

private theorem aux_denseB_append (A B : List (List R)) (ba bb : List R) (h : List R) (hl : A.length = ba.length) :
    denseB (A ++ B) (ba ++ bb) h = denseB A ba h ++ denseB B bb h := by
  simp only [denseB, vadd, aux_dense_append]
  exact List.zipWith_append (by simp [aux_dense_length, hl])

private theorem aux_denseB_length (A : List (List R)) (b : List R) (h : List R) (hl : A.length = b.length) :
    (denseB A b h).length = A.length := by
  simp [denseB, vadd, aux_dense_length, hl]

private theorem aux_blocks {α : Type} (n : Nat) (a0 a1 a2 a3 : List α) (h0 : a0.length = n) (h1 : a1.length = n)
    (h2 : a2.length = n) (h3 : a3.length = n) :
    ((a0 ++ a1 ++ a2 ++ a3).drop (0 * n)).take n = a0 ∧ ((a0 ++ a1 ++ a2 ++ a3).drop (1 * n)).take n = a1 ∧
    ((a0 ++ a1 ++ a2 ++ a3).drop (2 * n)).take n = a2 ∧ ((a0 ++ a1 ++ a2 ++ a3).drop (3 * n)).take n = a3 := by
  refine ⟨?_, ?_, ?_, ?_⟩
  · simp only [Nat.zero_mul, List.drop_zero, List.append_assoc]
    exact List.take_left' h0
  · rw [show a0 ++ a1 ++ a2 ++ a3 = a0 ++ (a1 ++ (a2 ++ a3)) by simp, List.drop_left' (by omega)]
    exact List.take_left' h1
  · rw [show a0 ++ a1 ++ a2 ++ a3 = (a0 ++ a1) ++ (a2 ++ a3) by simp, List.drop_left' (by simp; omega)]
    exact List.take_left' h2
  · rw [List.drop_left' (by simp; omega)]
    rw [← h3]; exact List.take_length

omit [Mul R] [OfNat R 0] in
private theorem aux_vadd_comm (hcomm : ∀ a b : R, a + b = b + a) (a b : List R) : vadd a b = vadd b a := by
  simp only [vadd]
  induction a generalizing b with
  | nil => cases b <;> rfl
  | cons x a ih =>
    cases b with
    | nil => rfl
    | cons y b => simp [hcomm x y, ih b]

/-- **OptimizedLSTMCell = LSTMCell** for the same parameters: concatenating the four kernels (and biases),
doing one matmul and splitting the result back gives exactly the four separate dense layers — for every
gate/activation function, hidden size `n` and input size; the Linen summation order (`dense_h + dense_i`) needs
commutativity of `+` (true of IEEE addition), the NNX order needs nothing. -/
theorem lstm_optimized_eq (σ τ : R → R) (hFirst : Bool) (n : Nat) (p : LstmParams R)
    (hk : p.ii.length = n ∧ p.iF.length = n ∧ p.ig.length = n ∧ p.io.length = n ∧
          p.hi.length = n ∧ p.hf.length = n ∧ p.hg.length = n ∧ p.ho.length = n)
    (hb : p.bi.length = n ∧ p.bf.length = n ∧ p.bg.length = n ∧ p.bo.length = n)
    (hcomm : hFirst = true → ∀ a b : R, a + b = b + a) (carry : List R × List R) (x : List R) :
    lstmStepOpt σ τ hFirst n p carry x = lstmStep σ τ p carry x := by
  obtain ⟨k1, k2, k3, k4, k5, k6, k7, k8⟩ := hk
  obtain ⟨b1, b2, b3, b4⟩ := hb
  have hyi : dense (p.ii ++ p.iF ++ p.ig ++ p.io) x = dense p.ii x ++ dense p.iF x ++ dense p.ig x ++ dense p.io x := by
    simp [aux_dense_append]
  have hyh : denseB (p.hi ++ p.hf ++ p.hg ++ p.ho) (p.bi ++ p.bf ++ p.bg ++ p.bo) carry.2 =
      denseB p.hi p.bi carry.2 ++ denseB p.hf p.bf carry.2 ++ denseB p.hg p.bg carry.2 ++ denseB p.ho p.bo carry.2 := by
    rw [aux_denseB_append _ _ _ _ _ (by simp; omega), aux_denseB_append _ _ _ _ _ (by simp; omega),
      aux_denseB_append _ _ _ _ _ (by omega)]
  have bi_ := aux_blocks n (dense p.ii x) (dense p.iF x) (dense p.ig x) (dense p.io x)
    (by simp [aux_dense_length, k1]) (by simp [aux_dense_length, k2]) (by simp [aux_dense_length, k3])
    (by simp [aux_dense_length, k4])
  have bh_ := aux_blocks n (denseB p.hi p.bi carry.2) (denseB p.hf p.bf carry.2) (denseB p.hg p.bg carry.2)
    (denseB p.ho p.bo carry.2)
    (by rw [aux_denseB_length _ _ _ (by omega)]; exact k5) (by rw [aux_denseB_length _ _ _ (by omega)]; exact k6)
    (by rw [aux_denseB_length _ _ _ (by omega)]; exact k7) (by rw [aux_denseB_length _ _ _ (by omega)]; exact k8)
  simp only [lstmStepOpt, lstmStep, hyi, hyh, bi_.1, bi_.2.1, bi_.2.2.1, bi_.2.2.2, bh_.1, bh_.2.1, bh_.2.2.1, bh_.2.2.2]
  cases hFirst with
  | false => simp
  | true =>
    have c := hcomm rfl
    simp only [↓reduceIte, aux_vadd_comm c (denseB p.hi p.bi carry.2), aux_vadd_comm c (denseB p.hf p.bf carry.2),
      aux_vadd_comm c (denseB p.hg p.bg carry.2), aux_vadd_comm c (denseB p.ho p.bo carry.2)]

example : lstmStepOpt (fun v : Int => v + 1) (fun v => 2 * v - 1) true 1
      ⟨[[1, -1]], [[0, 1]], [[1, 1]], [[-1, 0]], [[1]], [[-1]], [[0]], [[1]], [1], [0], [-1], [1]⟩ ([2], [-1]) [1, 2] =
    lstmStep (fun v : Int => v + 1) (fun v => 2 * v - 1)
      ⟨[[1, -1]], [[0, 1]], [[1, 1]], [[-1, 0]], [[1]], [[-1]], [[0]], [[1]], [1], [0], [-1], [1]⟩ ([2], [-1]) [1, 2] := by
  decide

/-! ### the documented recurrences, as written in the docstrings, and the code's plumbing

`W x` is `dense W x`; `+`, `*` on vectors are element-wise. The statements are over any scalar type with the
stated laws (they are exact-arithmetic statements; floats satisfy commutativity but not associativity, which
is why the float comparison in the harness carries a tolerance). -/

/-- LSTM docstring: `i = σ(W_ii x + W_hi h + b_hi)`, `f = σ(W_if x + W_hf h + b_hf)`, `g = tanh(W_ig x + W_hg h + b_hg)`,
`o = σ(W_io x + W_ho h + b_ho)`, `c' = f * c + i * g`, `h' = o * tanh(c')` -/
def lstmDoc (σ τ : R → R) (p : LstmParams R) (c h x : List R) : List R × List R :=
  let i := (vadd (vadd (dense p.ii x) (dense p.hi h)) p.bi).map σ
  let f := (vadd (vadd (dense p.iF x) (dense p.hf h)) p.bf).map σ
  let g := (vadd (vadd (dense p.ig x) (dense p.hg h)) p.bg).map τ
  let o := (vadd (vadd (dense p.io x) (dense p.ho h)) p.bo).map σ
  let c' := vadd (vmul f c) (vmul i g)
  (c', vmul o (c'.map τ))

omit [Mul R] [OfNat R 0] in
private theorem aux_vadd_assoc (hassoc : ∀ a b c : R, a + b + c = a + (b + c)) (a b c : List R) :
    vadd (vadd a b) c = vadd a (vadd b c) := by
  simp only [vadd]
  induction a generalizing b c with
  | nil => simp
  | cons x a ih =>
    cases b with
    | nil => simp
    | cons y b =>
      cases c with
      | nil => simp
      | cons z c => simp [hassoc x y z, ih b c]

/-- **LSTMCell follows its documented recurrence** (Linen and NNX share the body): the code adds the bias to the
hidden-state projection first (`Dense(use_bias=True)` on `h`), the docstring writes it last — equal by
associativity of `+`. New carry `(c', h')`, output `h'`. -/
theorem lstm_follows_doc (σ τ : R → R) (p : LstmParams R) (hassoc : ∀ a b c : R, a + b + c = a + (b + c))
    (c h x : List R) :
    lstmStep σ τ p (c, h) x = (lstmDoc σ τ p c h x, (lstmDoc σ τ p c h x).2) := by
  simp only [lstmStep, lstmDoc, denseB, aux_vadd_assoc hassoc]

end Cells

section Cells2
variable {R : Type} [Add R] [Mul R] [Sub R] [OfNat R 0] [OfNat R 1]

/-- GRU docstring: `r = σ(W_ir x + b_ir + W_hr h)`, `z = σ(W_iz x + b_iz + W_hz h)`,
`n = tanh(W_in x + b_in + r * (W_hn h + b_hn))`, `h' = (1 - z) * n + z * h` (`b_hn` absent in NNX) -/
def gruDoc (σ τ : R → R) (p : GruParams R) (h x : List R) : List R :=
  let r := (vadd (vadd (dense p.ir x) p.bir) (dense p.hr h)).map σ
  let z := (vadd (vadd (dense p.iz x) p.biz) (dense p.hz h)).map σ
  let whn := match p.bhn with
    | some b => vadd (dense p.hn h) b
    | none => dense p.hn h
  let n := (vadd (vadd (dense p.iN x) p.biN) (vmul r whn)).map τ
  vadd (vmul (z.map (1 - ·)) n) (vmul z h)

/-- **Linen GRUCell follows its documented recurrence**, including where `b_hn` sits (inside the product with
`r`); no algebraic law is needed: the code is the formula. Carry and output are both `h'`. -/
theorem gru_follows_doc (σ τ : R → R) (p : GruParams R) (h x : List R) :
    gruStep σ τ p h x = (gruDoc σ τ p h x, gruDoc σ τ p h x) := by
  cases hb : p.bhn <;> simp [gruStep, gruDoc, denseB, denseO, hb]

private theorem aux_blocks3 {α : Type} (n : Nat) (a0 a1 a2 : List α) (h0 : a0.length = n) (h1 : a1.length = n)
    (h2 : a2.length = n) :
    ((a0 ++ a1 ++ a2).drop (0 * n)).take n = a0 ∧ ((a0 ++ a1 ++ a2).drop (1 * n)).take n = a1 ∧
    ((a0 ++ a1 ++ a2).drop (2 * n)).take n = a2 := by
  refine ⟨?_, ?_, ?_⟩
  · simp only [Nat.zero_mul, List.drop_zero, List.append_assoc]
    exact List.take_left' h0
  · rw [show a0 ++ a1 ++ a2 = a0 ++ (a1 ++ a2) by simp, List.drop_left' (by omega)]
    exact List.take_left' h1
  · rw [List.drop_left' (by simp; omega)]
    rw [← h2]; exact List.take_length

/-- **nnx.GRUCell's layout** — one `3n`-wide input layer with bias, one `3n`-wide hidden layer *without* bias,
each split into `r, z, n` blocks — computes the documented recurrence with the three kernels concatenated in
the order `r, z, n` and **no `b_hn`** (the NNX docstring shows a `b_hn` that the cell does not have). -/
theorem gru_nnx_follows_doc (σ τ : R → R) (n : Nat) (p : GruParams R) (hnone : p.bhn = none)
    (hk : p.ir.length = n ∧ p.iz.length = n ∧ p.iN.length = n ∧ p.hr.length = n ∧ p.hz.length = n ∧ p.hn.length = n)
    (hb : p.bir.length = n ∧ p.biz.length = n ∧ p.biN.length = n) (h x : List R) :
    gruStepNnx σ τ n (p.ir ++ p.iz ++ p.iN) (p.bir ++ p.biz ++ p.biN) (p.hr ++ p.hz ++ p.hn) h x =
      (gruDoc σ τ p h x, gruDoc σ τ p h x) := by
  obtain ⟨k1, k2, k3, k4, k5, k6⟩ := hk
  obtain ⟨b1, b2, b3⟩ := hb
  have hx : denseB (p.ir ++ p.iz ++ p.iN) (p.bir ++ p.biz ++ p.biN) x =
      denseB p.ir p.bir x ++ denseB p.iz p.biz x ++ denseB p.iN p.biN x := by
    simp only [denseB, vadd, dense, List.map_append]
    rw [List.zipWith_append (by simp; omega), List.zipWith_append (by simp; omega)]
  have hh : dense (p.hr ++ p.hz ++ p.hn) h = dense p.hr h ++ dense p.hz h ++ dense p.hn h := by simp [dense]
  have bx := aux_blocks3 n (denseB p.ir p.bir x) (denseB p.iz p.biz x) (denseB p.iN p.biN x)
    (by simp [denseB, vadd, dense]; omega) (by simp [denseB, vadd, dense]; omega) (by simp [denseB, vadd, dense]; omega)
  have bh := aux_blocks3 n (dense p.hr h) (dense p.hz h) (dense p.hn h) (by simp [dense, k4]) (by simp [dense, k5])
    (by simp [dense, k6])
  simp only [gruStepNnx, hx, hh, bx.1, bx.2.1, bx.2.2, bh.1, bh.2.1, bh.2.2]
  simp only [gruDoc, hnone, denseB]

/-- SimpleCell docstring: `h' = tanh(W_i x + b_i + W_h h)`, with `residual`: `tanh(W_i x + b_i + W_h h + h)` -/
def simpleDoc (τ : R → R) (residual : Bool) (wi : List (List R)) (bi : List R) (wh : List (List R)) (h x : List R) :
    List R :=
  if residual then (vadd (vadd (vadd (dense wi x) bi) (dense wh h)) h).map τ
  else (vadd (vadd (dense wi x) bi) (dense wh h)).map τ

omit [Sub R] [OfNat R 1] in
/-- **SimpleCell follows its documented recurrence** (Linen and NNX share the body) -/
theorem simple_follows_doc (τ : R → R) (residual : Bool) (wi : List (List R)) (bi : List R) (wh : List (List R))
    (h x : List R) :
    simpleStep τ residual wi bi wh h x = (simpleDoc τ residual wi bi wh h x, simpleDoc τ residual wi bi wh h x) := by
  cases residual <;> simp [simpleStep, simpleDoc, denseB]

/-- MGU docstring: `f = σ(W_if x + b_if + W_hf h)`, `n = tanh(W_in x + b_in + f * (W_hn h + b_hn))`
(without `reset_gate`: `n = tanh(W_in x + b_in + W_hn h)`), `h' = (1 - f) * n + f * h` -/
def mguDoc (σ τ : R → R) (resetGate : Bool) (wxf : List (List R)) (bxf : List R) (whf : List (List R))
    (wxn : List (List R)) (bxn : List R) (whn : List (List R)) (bhn : List R) (h x : List R) : List R :=
  let f := (vadd (vadd (dense wxf x) bxf) (dense whf h)).map σ
  let n := if resetGate then (vadd (vadd (dense wxn x) bxn) (vmul f (vadd (dense whn h) bhn))).map τ
           else (vadd (vadd (dense wxn x) bxn) (dense whn h)).map τ
  vadd (vmul (f.map (1 - ·)) n) (vmul f h)

omit [Add R] [Sub R] [OfNat R 0] [OfNat R 1] in
private theorem aux_vmul_comm (hcomm : ∀ a b : R, a * b = b * a) (a b : List R) : vmul a b = vmul b a := by
  simp only [vmul]
  induction a generalizing b with
  | nil => cases b <;> rfl
  | cons x a ih =>
    cases b with
    | nil => rfl
    | cons y b => simp [hcomm x y, ih b]

/-- **MGUCell follows its documented recurrence**: the code multiplies `(W_hn h + b_hn)` by `f` on the right
(`x *= f`), the docstring on the left — commutativity of `*`; the bias `b_hn` exists exactly when `reset_gate`. -/
theorem mgu_follows_doc (σ τ : R → R) (resetGate : Bool) (hcomm : ∀ a b : R, a * b = b * a)
    (wxf : List (List R)) (bxf : List R) (whf : List (List R)) (wxn : List (List R)) (bxn : List R)
    (whn : List (List R)) (bhn : List R) (h x : List R) :
    mguStep σ τ resetGate wxf bxf whf wxn bxn whn bhn h x =
      (mguDoc σ τ resetGate wxf bxf whf wxn bxn whn bhn h x, mguDoc σ τ resetGate wxf bxf whf wxn bxn whn bhn h x) := by
  cases resetGate
  · simp [mguStep, mguDoc, denseB]
  · simp only [mguStep, mguDoc, denseB, ↓reduceIte]
    rw [aux_vmul_comm hcomm (vadd (dense whn h) bhn)]

end Cells2

/-! ### non-vacuity: a concrete integer cell with a pair carry -/

/-- `c1' = (3·c1 + x) mod 101`, `c2' = (c2 + 2·c1') mod 101`, `y = c1' + 2·c2'` -/
def demoCell (c : Int × Int) (x : Int) : (Int × Int) × Int :=
  let c1 := (3 * c.1 + x) % 101
  let c2 := (c.2 + 2 * c1) % 101
  ((c1, c2), c1 + 2 * c2)

example : rnnRow demoCell (0, 0) [1, 2, 3, 40, 50] (some 3) false false
    = (some (18, 48), [5, 29, 114, 162, 213]) := by decide
example : rnnRow demoCell (0, 0) [1, 2, 3, -9, 77] (some 3) false false
    = (some (18, 48), [5, 29, 114, 119, 124]) := by decide
example : rnnRow demoCell (0, 0) [1, 2, 3, 40, 50] (some 3) true true
    = (some (34, 96), [226, 67, 15, 250, 245]) := by decide
example : (rnnRow demoCell (0, 0) [1, 2, 3, 40, 50] (some 3) true false).2.take 3 = [15, 67, 226] := by decide
example : flipSeq (some 2) [10, 20, 30, 40, 50] = [20, 10, 50, 40, 30] := by decide
example : flipSeq (some 5) [10, 20, 30, 40, 50] = [50, 40, 30, 20, 10] ∧
    flipSeq (none : Option Nat) [10, 20, 30] = [30, 20, 10] := by decide
example : bidirRow demoCell demoCell (fun a b => 1000 * a + b) (0, 0) (0, 0) [1, 2, 3, 40, 50] (some 3)
    = ((some (18, 48), some (34, 96)), [5226, 29067, 114015, 162250, 213245]) := by decide
example : rnnBatch demoCell true 3 [(0, 0), (1, 1)] [[1, 4], [2, 5], [3, 6]] (some [3, 2]) false false
    = .ok ([some (18, 48), some (26, 67)], [[5, 37], [29, 160], [114, 150]]) := by rfl
example : isRect 2 3 [[1, 2, 3], [4, 5, 6]] = true ∧ transposeN 3 [[1, 2, 3], [4, 5, 6]] = [[1, 4], [2, 5], [3, 6]] := by
  decide

end Flax.C13
