/- C04 — placeholder while the harness is brought up; replaced by the real theorems -/
import Flax.Model.NnxProtocol

namespace Flax.C04
open Flax.Heap Flax.Graph Flax.Nnx

theorem wrap32_small : wrap32 5 = 5 := by decide

end Flax.C04
