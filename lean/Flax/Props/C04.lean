/-
C04 — NNX transforms keep Python reference semantics: same result and state as eager.

Property theorems over `Flax/Model/NnxProtocol.lean` (the four-step `update_context` protocol of
flax/nnx/graph.py, `extract.to_tree / from_tree`, jit / remat / cond / switch / fori_loop / while_loop /
cached_partial) on the explicit heap of `Heap.lean` and the graph model of `Graph.lean` (C03).  Heavy lemmas live
in `Flax/Proofs/Nnx*.lean`: the simulation of `flatten` + `outer_index` stamps by `unflatten` with
`outer_index_outer_ref` (`simO`, which generalises C03's `sim`), the invariance of DSL programs under heap
isomorphism (`runFn_sim`), and the assembly (`proto_refines_eager`).

Reading guide
* the caller's heap is `h`; `runFn f h args` is `f(*args)` as plain Python; `jitCall / rematCall / switchCall /
  condCall / foriCall / whileCall` are the calls under the transform;
* `IsoM h2 r h4 r' ψ`: the rooted heaps are isomorphic via the injective address map `ψ` (objects compared as
  Python objects: class and attribute MAP, Variable type / value / metadata);
* "the caller's own objects carry the changes" is `ψ a = some c → a < h.length → c = a`: every object that existed
  before the call is mapped to ITSELF; objects created by the function are mapped to new addresses.
* the roots compared are `(cleared arguments, results)`: everything reachable from the arguments and the results
  after the call.  An object the function detached from the arguments is outside the statement (the outer merge
  never sees it) -- see SPEC['assumptions'] of harness/props/c04.py.
-/
import Flax.Model.Heap
import Flax.Model.Graph
import Flax.Model.NnxProtocol
import Flax.Proofs.NnxRel
import Flax.Proofs.NnxSim
import Flax.Proofs.NnxProg
import Flax.Proofs.NnxJit
import Flax.Proofs.NnxCond
import Flax.Proofs.NnxCanon
import Flax.Proofs.NnxIter
import Flax.Proofs.NnxErase
import Flax.Proofs.NnxCache
import Flax.Proofs.NnxTotal
import Flax.Proofs.NnxAccept

namespace Flax.C04
open Flax.Heap Flax.Graph Flax.Nnx

/-- what "same effect as eager, on the caller's own objects" means for a call on the heap `h` with arguments `args`:
eager outcome `(rets, h2)`, outcome under the transform `(outs, h4)` -/
structure RefinesEager (h : Heap) (args rets : List PVal) (h2 : Heap) (outs : List PVal) (h4 : Heap)
    (ψ : Addr → Option Addr) : Prop where
  /-- everything reachable from (arguments, results) is isomorphic: values, attributes, aliasing, cycles -/
  iso : IsoM h2 (.seq true (args.map clearArg ++ rets)) h4 (.seq true (args.map clearArg ++ outs)) ψ
  /-- it is the caller's own objects that carry the changes; created objects are new on both sides -/
  ident : ∀ (a c : Nat), ψ a = some c → (a < h.length → c = a) ∧ (h.length ≤ a → h.length ≤ c)
  /-- the caller's objects the call does not reach are untouched -/
  frame : ∀ (c : Nat), c < h.length → (∀ (a : Nat), ψ a ≠ some c) → h4[c]? = h[c]?
  /-- nothing of the caller's heap disappears -/
  grows : h.length ≤ h4.length

private theorem refines_of_proto {raw : Bool} {f : Fn} {h : Heap} {args rets : List PVal} {h2 : Heap}
    (he : runFn f h args = .ok (rets, h2)) {roots4 : List PVal} {h4 : Heap}
    (hp : protoCall raw f h args = .ok (roots4, h4)) :
    ∃ ψ, RefinesEager h args rets h2 (roots4.drop args.length) h4 ψ := by
  obtain ⟨ψ, hiso, hid, hfr, hgr, hargs⟩ := proto_refines_eager raw f h args rets h2 he roots4 h4 hp
  have hroot : ValsRel ψ (args.map clearArg ++ rets) roots4 := by
    cases hiso.root with
    | seq hs => exact hs
  obtain ⟨h1, _⟩ := valsRel_split hroot
  simp only [List.length_map] at h1
  have htake : roots4.take args.length = args.map clearArg :=
    valsRel_id_eq h1 (fun a c ha hac => (hid a c hac).1 (hargs a ha))
  have hsplit : roots4 = args.map clearArg ++ roots4.drop args.length := by
    rw [← htake]; exact (List.take_append_drop _ _).symm
  exact ⟨ψ, ⟨by rw [← hsplit]; exact hiso, hid, hfr, hgr⟩⟩

/-! ## jit / remat -/

/-- **`nnx.jit(f)(*args)` has the same effect as `f(*args)`.**  For every heap, every argument tuple (arguments may
alias each other in any way), every body of the mutation DSL (reads, Variable updates, attribute add / delete /
re-bind, new nodes and Variables, new aliasing): if the eager call returns `(rets, h2)` and the call under `jit`
returns `(outs, h4)`, then everything reachable from (arguments, results) is isomorphic, the isomorphism is the
identity on every object of the caller, and objects created by the function are fresh on both sides. -/
theorem jit_refines_eager (f : Fn) (h : Heap) (args rets : List PVal) (h2 : Heap)
    (he : runFn f h args = .ok (rets, h2)) (outs : List PVal) (h4 : Heap)
    (hj : jitCall f h args = .ok (outs, h4)) : ∃ ψ, RefinesEager h args rets h2 outs h4 ψ := by
  unfold jitCall at hj
  split at hj
  · cases hj
  · next roots4 h4' hp =>
    simp at hj; obtain ⟨rfl, rfl⟩ := hj
    exact refines_of_proto he hp

/-- the same for `nnx.remat` (`split_inputs ∘ jax.checkpoint ∘ merge_inputs`: VariableState leaves) -/
theorem remat_refines_eager (f : Fn) (h : Heap) (args rets : List PVal) (h2 : Heap)
    (he : runFn f h args = .ok (rets, h2)) (outs : List PVal) (h4 : Heap)
    (hj : rematCall f h args = .ok (outs, h4)) : ∃ ψ, RefinesEager h args rets h2 outs h4 ψ := by
  unfold rematCall at hj
  split at hj
  · cases hj
  · next roots4 h4' hp =>
    simp at hj; obtain ⟨rfl, rfl⟩ := hj
    exact refines_of_proto he hp

/-- **unconditional form: `jit` fails exactly when the body fails.**  On a closed heap (no dangling reference: always true
of real Python objects), if the eager call succeeds then the call under `jit` succeeds and refines it; if the eager
call raises `e` (e.g. `AttributeError`) the call under `jit` raises the same `e`.  So the model's `jit` has no
failure mode of its own. -/
theorem jit_total (f : Fn) (h : Heap) (args : List PVal) (hc : HeapClosed h) (ha : ∀ v ∈ args, ValClosed h v) :
    (∀ rets h2, runFn f h args = .ok (rets, h2) →
      ∃ outs h4 ψ, jitCall f h args = .ok (outs, h4) ∧ RefinesEager h args rets h2 outs h4 ψ) ∧
    (∀ e, runFn f h args = .error e → jitCall f h args = .error e) := by
  obtain ⟨t1, t2⟩ := proto_total true f h args hc ha
  constructor
  · intro rets h2 he
    obtain ⟨roots4, h4, hp⟩ := t1 rets h2 he
    obtain ⟨ψ, hr⟩ := refines_of_proto he hp
    exact ⟨roots4.drop args.length, h4, ψ, by simp [jitCall, hp], hr⟩
  · intro e he
    simp [jitCall, t2 e he]

/-- the same for `remat` -/
theorem remat_total (f : Fn) (h : Heap) (args : List PVal) (hc : HeapClosed h) (ha : ∀ v ∈ args, ValClosed h v) :
    (∀ rets h2, runFn f h args = .ok (rets, h2) →
      ∃ outs h4 ψ, rematCall f h args = .ok (outs, h4) ∧ RefinesEager h args rets h2 outs h4 ψ) ∧
    (∀ e, runFn f h args = .error e → rematCall f h args = .error e) := by
  obtain ⟨t1, t2⟩ := proto_total false f h args hc ha
  constructor
  · intro rets h2 he
    obtain ⟨roots4, h4, hp⟩ := t1 rets h2 he
    obtain ⟨ψ, hr⟩ := refines_of_proto he hp
    exact ⟨roots4.drop args.length, h4, ψ, by simp [rematCall, hp], hr⟩
  · intro e he
    simp [rematCall, t2 e he]

/-- consequences spelled out: after the call, every attribute path from (arguments, results) resolves alike under
the transform and eagerly, and two paths reach ONE object under the transform iff they do eagerly (aliasing,
including new aliasing made by the function, ends up identical) -/
theorem refines_paths {h : Heap} {args rets : List PVal} {h2 : Heap} {outs : List PVal} {h4 : Heap}
    {ψ : Addr → Option Addr} (r : RefinesEager h args rets h2 outs h4 ψ) (p q : Path) (a b : Nat)
    (hp : resolve h2 (.seq true (args.map clearArg ++ rets)) p = some (.ref a))
    (hq : resolve h2 (.seq true (args.map clearArg ++ rets)) q = some (.ref b)) :
    ∃ (a' b' : Nat), resolve h4 (.seq true (args.map clearArg ++ outs)) p = some (.ref a') ∧
      resolve h4 (.seq true (args.map clearArg ++ outs)) q = some (.ref b') ∧ (a = b ↔ a' = b') ∧
      (a < h.length → a' = a) := by
  rcases resolveM_corr r.iso p r.iso.root with ⟨e, _⟩ | ⟨v, v', e1, e2, hv⟩
  · rw [hp] at e; cases e
  rcases resolveM_corr r.iso q r.iso.root with ⟨e, _⟩ | ⟨w, w', f1, f2, hw⟩
  · rw [hq] at e; cases e
  rw [hp] at e1; cases e1
  rw [hq] at f1; cases f1
  cases hv with
  | ref ha =>
    cases hw with
    | ref hb =>
      rename_i a' b'
      refine ⟨a', b', e2, f2, ⟨?_, ?_⟩, fun hlt => (r.ident a a' ha).1 hlt⟩
      · intro e; subst e; rw [ha] at hb; exact Option.some.inj hb
      · intro e; subst e; exact r.iso.inj _ _ _ ha hb

/-! ## aliasing across arguments -/

/-- **inputs that alias each other across arguments are one object inside, not duplicated.**  The inner merge
(step 2, the objects the traced function sees) builds an isomorphic copy of the WHOLE argument tuple: two
attribute paths -- through the same or through different arguments (`p = [.int i, …]` starts at argument `i`) --
reach one object inside exactly when they reach one object of the caller. -/
theorem alias_across_args_one_object (raw : Bool) (h : Heap) (args : List PVal) (gds : List GDef)
    (fss : List FlatState) (idx1 : RefIndex) (hf : flattenRoots h args [] = .ok (gds, fss, idx1)) :
    ∃ args' G ir,
      unflattenRootsO (fun _ => Option.none) (gds.map (stampWith (fun _ => Option.none))) (fss.map (convLeaves raw)) [] [] =
        .ok (args', G, ir) ∧
      IsoM h (.seq true args) G (.seq true args') (phi idx1 ir) ∧
      ∀ (p q : Path) (a b : Nat), resolve h (.seq true args) p = some (.ref a) → resolve h (.seq true args) q = some (.ref b) →
        ∃ (a' b' : Nat), resolve G (.seq true args') p = some (.ref a') ∧ resolve G (.seq true args') q = some (.ref b') ∧
          (a = b ↔ a' = b') := by
  obtain ⟨args', G, ir, hu, Gd, R, hv, _⟩ := inner_copy raw hf
  have iso : IsoM h (.seq true args) G (.seq true args') (phi idx1 ir) := ⟨.seq hv, R.inj, R.obj⟩
  refine ⟨args', G, ir, hu, iso, ?_⟩
  intro p q a b hp hq
  rcases resolveM_corr iso p iso.root with ⟨e, _⟩ | ⟨v, v', e1, e2, hv1⟩
  · rw [hp] at e; cases e
  rcases resolveM_corr iso q iso.root with ⟨e, _⟩ | ⟨w, w', f1, f2, hw⟩
  · rw [hq] at e; cases e
  rw [hp] at e1; cases e1
  rw [hq] at f1; cases f1
  cases hv1 with
  | ref ha =>
    cases hw with
    | ref hb =>
      rename_i a' b'
      refine ⟨a', b', e2, f2, ?_, ?_⟩
      · intro e; subst e; rw [ha] at hb; exact Option.some.inj hb
      · intro e; subst e; exact iso.inj _ _ _ ha hb

/-! ## cond / switch -/

/-- **`nnx.switch` (and `nnx.cond`) have the same effect as running the selected branch eagerly.**  Whenever the call
is accepted (all branches traced, equal output structures: A-COND), the outcome refines the eager run of branch
`clampIndex index` exactly as for `jit`. -/
theorem cond_switch_refine (fs : List Fn) (index : Int) (h : Heap) (args : List PVal) (outs : List PVal) (h4 : Heap)
    (hs : switchCall fs index h args = .ok (outs, h4)) :
    ∃ f, fs[clampIndex index fs.length]? = some f ∧
      ∀ (rets : List PVal) (h2 : Heap), runFn f h args = .ok (rets, h2) → ∃ ψ, RefinesEager h args rets h2 outs h4 ψ := by
  obtain ⟨f, roots4, hf, hp, rfl⟩ := switchCall_inv hs
  exact ⟨f, hf, fun rets h2 he => refines_of_proto he hp⟩

/-- `nnx.cond(pred, t, f, *operands)`: the true branch when `pred`, else the false branch -/
theorem cond_refine (t f : Fn) (pred : Bool) (h : Heap) (args : List PVal) (outs : List PVal) (h4 : Heap)
    (hs : condCall t f pred h args = .ok (outs, h4)) (rets : List PVal) (h2 : Heap)
    (he : runFn (if pred then t else f) h args = .ok (rets, h2)) : ∃ ψ, RefinesEager h args rets h2 outs h4 ψ := by
  unfold condCall at hs
  obtain ⟨g, hg, hall⟩ := cond_switch_refine [t, f] _ h args outs h4 hs
  cases pred with
  | true =>
    simp [clampIndex] at hg; subst hg
    exact hall rets h2 he
  | false =>
    simp [clampIndex] at hg; subst hg
    exact hall rets h2 he

/-- **a structure change that not every branch makes is rejected** (on both sides of the theorem above: such a
call has no outcome under the transform): if all branches trace but two output graphdefs differ, the call
returns `structureMismatch` and the caller's heap is not an output at all -/
theorem switch_rejects_structure_change (fs : List Fn) (index : Int) (h : Heap) (args : List PVal)
    (gds : List GDef) (lss : List (List Leaf)) (idx1 : RefIndex) (hs1 : step1 false h args = .ok (gds, lss, idx1))
    (o : List ODef × List (List Leaf)) (os : List (List ODef × List (List Leaf)))
    (htr : traceBranches gds lss fs = .ok (o :: os)) (o' : List ODef × List (List Leaf)) (hmem : o' ∈ os)
    (hne : o'.1 ≠ o.1) : switchCall fs index h args = .error .structureMismatch :=
  switchCall_mismatch hs1 htr hmem hne

/-! ## cond / switch: exactly when a call is accepted, rejected, or raises -/

/-- **unconditional form for switch (and cond).**  On a closed heap with at least one branch:
* if some branch fails eagerly, the call raises the error of the FIRST such branch in trace order, whichever branch
  is selected (all branches are traced: A-COND);
* if every branch succeeds eagerly and all traced output structures coincide, the call succeeds and refines the
  eager run of the selected branch;
* if every branch succeeds eagerly and two traced output structures differ, the call is `structureMismatch`.
The three cases are exhaustive, so this says exactly when `structureMismatch` is returned.  `tracedDefs f h args` is
characterised in eager terms by `traced_output_is_flatten_of_eager`. -/
theorem switch_total (fs : List Fn) (index : Int) (h : Heap) (args : List PVal) (hc : HeapClosed h)
    (ha : ∀ v ∈ args, ValClosed h v) (hne : fs ≠ []) :
    (∀ pre f post e, fs = pre ++ f :: post → (∀ g ∈ pre, ∃ r, runFn g h args = .ok r) → runFn f h args = .error e →
      switchCall fs index h args = .error e) ∧
    ((∀ f ∈ fs, ∃ r, runFn f h args = .ok r) →
      ((∀ f ∈ fs, ∀ g ∈ fs, tracedDefs f h args = tracedDefs g h args) →
        ∃ outs h4 f, switchCall fs index h args = .ok (outs, h4) ∧ fs[clampIndex index fs.length]? = some f ∧
          ∀ rets h2, runFn f h args = .ok (rets, h2) → ∃ ψ, RefinesEager h args rets h2 outs h4 ψ) ∧
      ((∃ f ∈ fs, ∃ g ∈ fs, tracedDefs f h args ≠ tracedDefs g h args) →
        switchCall fs index h args = .error .structureMismatch)) := by
  refine ⟨fun pre f post e hfs hpre hf => switch_error hc ha hfs hpre hf, fun hall => ?_⟩
  obtain ⟨hacc, hrej⟩ := switch_all_ok (index := index) hc ha hne hall
  refine ⟨fun heq => ?_, hrej⟩
  obtain ⟨outs, h4, hs⟩ := hacc heq
  obtain ⟨f, hf, href⟩ := cond_switch_refine fs index h args outs h4 hs
  exact ⟨outs, h4, f, hs, hf, href⟩

/-- `nnx.cond` on a closed heap: the two-branch instance of `switch_total` (true branch traced first) -/
theorem cond_total (t f : Fn) (pred : Bool) (h : Heap) (args : List PVal) (hc : HeapClosed h) (ha : ∀ v ∈ args, ValClosed h v) :
    (∀ e, runFn t h args = .error e → condCall t f pred h args = .error e) ∧
    (∀ r e, runFn t h args = .ok r → runFn f h args = .error e → condCall t f pred h args = .error e) ∧
    (∀ rt rf, runFn t h args = .ok rt → runFn f h args = .ok rf →
      (tracedDefs t h args = tracedDefs f h args →
        ∃ outs h4, condCall t f pred h args = .ok (outs, h4) ∧
          ∀ rets h2, runFn (if pred then t else f) h args = .ok (rets, h2) → ∃ ψ, RefinesEager h args rets h2 outs h4 ψ) ∧
      (tracedDefs t h args ≠ tracedDefs f h args → condCall t f pred h args = .error .structureMismatch)) := by
  obtain ⟨herr, hok⟩ := switch_total [t, f] (if pred then 0 else 1) h args hc ha (by simp)
  refine ⟨fun e he => herr [] t [f] e rfl (by simp) he, fun r e hr he => herr [t] f [] e rfl (fun g hg => by simp at hg; subst hg; exact ⟨r, hr⟩) he,
    fun rt rf hrt hrf => ?_⟩
  obtain ⟨hacc, hrej⟩ := hok (by
    intro g hg
    simp at hg
    rcases hg with rfl | rfl
    · exact ⟨rt, hrt⟩
    · exact ⟨rf, hrf⟩)
  constructor
  · intro heq
    obtain ⟨outs, h4, g, hs, _, _⟩ := hacc (by
      intro a ha' b hb'
      simp at ha' hb'
      rcases ha' with rfl | rfl <;> rcases hb' with rfl | rfl <;> first | rfl | exact heq | exact heq.symm)
    exact ⟨outs, h4, hs, fun rets h2 he => cond_refine t f pred h args outs h4 hs rets h2 he⟩
  · intro hne'
    exact hrej ⟨t, by simp, f, by simp, hne'⟩

/-- **what "the traced output structure" is, in eager terms**: the pure value the traced function returns is the
`flatten` of the eager result `(cleared arguments, results)`, every definition stamped with the position its object
had in the input `ref_index` (`none` for objects created by the function).  So two branches have the same
`tracedDefs` iff their eager results have the same graphdef AND keep / create / re-bind the same caller objects at
the same places. -/
theorem traced_output_is_flatten_of_eager (raw keep : Bool) (f : Fn) (pre : List PVal) (hpre : ∀ v ∈ pre, ∃ d, v = PVal.array d)
    (h : Heap) (vals : List PVal) (gds : List GDef) (fss : List FlatState) (idx1 : RefIndex)
    (hf : FlatRoots h vals [] gds fss idx1) (nh : AttrsNodup h) (rets : List PVal) (h2 : Heap)
    (he : runFn f h (pre ++ vals) = .ok (rets, h2)) (o : List ODef × List (List Leaf))
    (ho : pureRun raw keep f pre gds (fss.map (convLeaves raw)) = .ok o) :
    ∃ gdsE fssE idxE, FlatRoots h2 ((if keep then vals.map clearArg else []) ++ rets) [] gdsE fssE idxE ∧
      o = (gdsE.map (stampWith (fun i => (idxE[i]?).bind (fun a => indexOf? a idx1))), fssE.map (convLeaves raw)) :=
  pureRun_is_eager_canon raw keep f hpre hf nh he ho

/-! ## loops -/

/-- **`nnx.fori_loop(lower, lower + n, body, init)` equals the unrolled Python loop**
`for i in range(lower, lower + n): val = body(i, val)`, for every trip count (induction on `n`), every well-formed heap
(`Heap.wf`, C03's hypothesis: Python dicts have distinct keys; every DSL statement preserves it), every carried tuple (graph nodes, Variables, arrays; aliasing allowed)
and every body the transform accepts (the structure check demands that the carry keeps its graphdef and its
reference structure).  The address map is the identity: the caller's own objects hold the final values, and the
final carry consists of the caller's objects. -/
theorem loops_refine_unrolled (f : Fn) (lower : Int) (n : Nat) (h : Heap) (vals : List PVal) (hw : Heap.wf h = true)
    (roots : List PVal) (h4 : Heap) (hc : foriCall f lower n h vals = .ok (roots, h4))
    (valsE : List PVal) (hE : Heap) (he : foriEager f n lower h vals = .ok (valsE, hE)) :
    ∃ χ, LoopRefines h valsE hE roots h4 χ :=
  fori_refines f lower n h vals (attrsNodup_of_wf hw) roots h4 hc valsE hE he

/-- **`nnx.while_loop(cond, body, init)` equals `while cond(val): val = body(val)`** (induction on the number of
iterations), for a predicate that only reads its argument -/
theorem while_refines_unrolled (c f : Fn) (hro : c.readOnly = true) (fuel : Nat) (h : Heap) (vals : List PVal)
    (hw : Heap.wf h = true) (roots : List PVal) (h4 : Heap) (hc : whileCall c f fuel h vals = .ok (roots, h4))
    (valsE : List PVal) (hE : Heap) (he : whileEager c f fuel h vals = .ok (valsE, hE)) :
    ∃ χ, LoopRefines h valsE hE roots h4 χ :=
  while_refines c f hro fuel h vals (attrsNodup_of_wf hw) roots h4 hc valsE hE he

/-- **a loop body is accepted exactly when the eager body gives the carry back with the same graphdef and the same
objects in the same order; it raises exactly the eager body's error; otherwise it is `structureMismatch`** -/
theorem loop_body_outcome (f : Fn) (pre : List PVal) (hpre : ∀ v ∈ pre, ∃ d, v = PVal.array d)
    (h : Heap) (vals : List PVal) (gds : List GDef) (fss : List FlatState) (idx1 : RefIndex)
    (hf : FlatRoots h vals [] gds fss idx1) (nh : AttrsNodup h) :
    (∀ e, runFn f h (pre ++ vals) = .error e → bodyPure f pre gds (fss.map (convLeaves false)) = .error e) ∧
    (∀ rets h2, runFn f h (pre ++ vals) = .ok (rets, h2) →
      ((∃ fssK, FlatRoots h2 rets [] gds fssK idx1) → ∃ lss', bodyPure f pre gds (fss.map (convLeaves false)) = .ok lss') ∧
      ((¬ ∃ fssK, FlatRoots h2 rets [] gds fssK idx1) →
        bodyPure f pre gds (fss.map (convLeaves false)) = .error .structureMismatch)) :=
  body_outcome hpre hf nh

/-- **unconditional form for fori_loop**: if the traced first application and every iteration of the unrolled Python
loop succeed and give the carry back with the same graphdef and objects (`KeepsCarry`), the call under the transform
succeeds, the unrolled loop succeeds, and they agree with the identity address map -/
theorem fori_loop_total (f : Fn) (lower : Int) (n : Nat) (h : Heap) (vals : List PVal) (hw : Heap.wf h = true)
    (gds : List GDef) (fss : List FlatState) (idx1 : RefIndex) (hf : flattenRoots h vals [] = .ok (gds, fss, idx1))
    (htrace : KeepsCarry f gds idx1 1 lower h vals) (hk : KeepsCarry f gds idx1 n lower h vals) :
    ∃ roots h4 valsE hE χ, foriCall f lower n h vals = .ok (roots, h4) ∧ foriEager f n lower h vals = .ok (valsE, hE) ∧
      LoopRefines h valsE hE roots h4 χ :=
  fori_total f lower n h vals (attrsNodup_of_wf hw) gds fss idx1 hf htrace hk

/-- the traced first application decides rejection (also for zero trips): an eager failure is raised as is, a carry that
does not come back with the same graphdef and objects is `structureMismatch` -/
theorem fori_loop_rejects (f : Fn) (lower : Int) (n : Nat) (h : Heap) (vals : List PVal) (hw : Heap.wf h = true)
    (gds : List GDef) (fss : List FlatState) (idx1 : RefIndex) (hf : flattenRoots h vals [] = .ok (gds, fss, idx1)) :
    (∀ e, runFn f h (PVal.array (wrap32 lower) :: vals) = .error e → foriCall f lower n h vals = .error e) ∧
    (∀ rets h2, runFn f h (PVal.array (wrap32 lower) :: vals) = .ok (rets, h2) →
      (¬ ∃ fssK, FlatRoots h2 rets [] gds fssK idx1) → foriCall f lower n h vals = .error .structureMismatch) :=
  fori_trace_outcome f lower n h vals (attrsNodup_of_wf hw) gds fss idx1 hf

/-- **unconditional form for while_loop** (read-only predicate returning one array; the loop ends within the budget) -/
theorem while_loop_total (c f : Fn) (hro : c.readOnly = true) (fuel : Nat) (h : Heap) (vals : List PVal)
    (hw : Heap.wf h = true) (gds : List GDef) (fss : List FlatState) (idx1 : RefIndex)
    (hf : flattenRoots h vals [] = .ok (gds, fss, idx1)) (d0 : Data) (htc : runFn c h vals = .ok ([.array d0], h))
    (htb : ∃ vals1 h1 fss1, runFn f h vals = .ok (vals1, h1) ∧ FlatRoots h1 vals1 [] gds fss1 idx1)
    (hk : KeepsCarryW c f gds idx1 fuel h vals) :
    ∃ roots h4 valsE hE χ, whileCall c f fuel h vals = .ok (roots, h4) ∧ whileEager c f fuel h vals = .ok (valsE, hE) ∧
      LoopRefines h valsE hE roots h4 χ :=
  while_total c f hro fuel h vals (attrsNodup_of_wf hw) gds fss idx1 hf d0 htc htb hk

/-- the pure value a traced body returns is the canonical form (`flatten`) of what the eager body leaves behind:
same graphdef, same leaves, same `ref_index` -/
theorem traced_body_is_flatten_of_eager (f : Fn) (pre : List PVal) (hpre : ∀ v ∈ pre, ∃ d, v = PVal.array d)
    (h : Heap) (vals : List PVal) (gds : List GDef) (fss : List FlatState) (idx1 : RefIndex)
    (hf : FlatRoots h vals [] gds fss idx1) (nh : AttrsNodup h) (rets : List PVal) (h2 : Heap)
    (he : runFn f h (pre ++ vals) = .ok (rets, h2)) (lss' : List (List Leaf))
    (hb : bodyPure f pre gds (fss.map (convLeaves false)) = .ok lss') :
    ∃ fss', FlatRoots h2 rets [] gds fss' idx1 ∧ lss' = fss'.map (convLeaves false) := by
  obtain ⟨fss', h1, h2', _, _⟩ := body_step hpre hf nh he hb
  exact ⟨fss', h1, h2'⟩

/-! ## the trace cache -/

/-- **a cache hit is sound.**  Whatever calls came before (any heaps, any arguments: the caller may edit anything
between calls), a call of the same `nnx.jit`-wrapped function through the trace cache -- hit or miss -- returns
exactly what a fresh, uncached `jit` call returns, and so refines the eager call (`jit_refines_eager`).  The reason
(`pureRun_shape`): the output graphdefs of the traced function, `outer_index` stamps included, are a function of
the static key alone; payloads cannot influence them. -/
theorem cache_hit_sound (f : Fn) (calls : List (Heap × List PVal)) :
    callsFrom f { entries := [], traces := 0 } calls = calls.map (fun p => jitCall f p.1 p.2) :=
  callsFrom_sound f calls _ (cacheOK_empty f 0)

/-- one call, from any cache state reachable by calls of `f` -/
theorem cache_call_sound (f : Fn) (c : JitCache) (hc : CacheOK f c) (h : Heap) (args : List PVal) :
    (jitCached f c h args).1 = jitCall f h args ∧ CacheOK f (jitCached f c h args).2 :=
  jitCached_sound f c h args hc

/-- the static key contains the full input graphdef: two argument tuples have the same key iff `flatten` gives them
the same graphdefs (classes, attribute names, static attribute values, Variable types and metadata, sharing
structure).  A structural edit between calls therefore changes the key, and the call is a miss. -/
theorem cache_key_is_graphdef (gds gds' : List GDef) :
    gds.map (stampWith (fun _ => Option.none)) = gds'.map (stampWith (fun _ => Option.none)) ↔ gds = gds' :=
  ⟨stamp_inj_defs, fun h => by rw [h]⟩

/-- the Python body runs again exactly when the key is new -/
theorem cache_traces_on_miss_only (f : Fn) (c : JitCache) (h : Heap) (args : List PVal) (gds : List GDef)
    (lss : List (List Leaf)) (idx1 : RefIndex) (hs1 : step1 true h args = .ok (gds, lss, idx1)) :
    (jitCached f c h args).2.traces =
      if (c.entries.find? (fun t => decide (t.key = gds.map (stampWith (fun _ => Option.none))))).isSome then c.traces
      else c.traces + 1 :=
  jitCached_traces f c h args gds lss idx1 hs1

/-! ## cached_partial -/

/-- **one index per object.**  The `ref_index` built by `flatten` over a tuple of arguments (any sharing inside or across
arguments: tied Variables, the same Variable twice in a list, shared sub-nodes) registers every object exactly once
(`Nodup`), and the graphdefs carry exactly one definition per registered object, numbered `0, 1, …` in registration
order; a second visit is a `NodeRef`.  `cached_partial`'s `StaticCache.new_ref_index` (built by `graph.fingerprint`) has
to be this very table for the cached graphdef to be usable; the model has no second table -- it uses `flatten`'s. -/
theorem flatten_one_index_per_object (h : Heap) (args : List PVal) (gds : List GDef) (fss : List FlatState) (idx : RefIndex)
    (hf : flattenRoots h args [] = .ok (gds, fss, idx)) :
    idx.Nodup ∧ defIdxRoots gds = List.range' 0 idx.length := by
  obtain ⟨_, _, _, _, Gd, _, _, _⟩ := inner_copy true hf
  obtain ⟨_, hd⟩ := flatRoots_defIdx (flatRoots_of_flattenRoots h args [] gds fss idx hf)
  exact ⟨Gd.nodup, by simpa using hd⟩

/-- tied weights `m.emb = m.head = Param`, then `m.scale`: three attributes, two objects after the root, indices 0, 1, 2 -/
example : (flattenRoots [.node "A" [(.str "emb", .ref 1), (.str "head", .ref 1), (.str "scale", .ref 2)],
      .var ["Param"] 1 [], .var ["Param"] 10 []] [.ref 0] []).toOption.map (fun r => (r.2.2, defIdxRoots r.1)) =
    some ([0, 1, 2], [0, 1, 2]) := by decide


/-- **`cached_partial` detects structure changes and otherwise behaves as `jit`**: an accepted call returns what the
`jit` call returns; a call whose final graphdefs of the cached arguments differ from
`graphdef.with_same_outer_index()` is rejected with `cacheMutated` (the first `ncached` arguments are the cached ones,\nthe others are passed at each call) -/
theorem cached_partial_detects (f : Fn) (ncached : Nat) (h : Heap) (args : List PVal) :
    (∀ r, cachedPartialCall f ncached h args = .ok r → jitCall f h args = .ok r) ∧
    (∀ gds lss idx1 gdsO lssO, step1 true h args = .ok (gds, lss, idx1) → pureRun true true f [] gds lss = .ok (gdsO, lssO) →
      gdsO.take ncached ≠ (gds.take ncached).map (stampWith (fun i => some i)) →
      cachedPartialCall f ncached h args = .error .cacheMutated) := by
  constructor
  · intro r hr
    unfold cachedPartialCall at hr
    unfold jitCall protoCall
    cases hs1 : step1 true h args with
    | error e => rw [hs1] at hr; cases hr
    | ok p =>
      obtain ⟨gds, lss, idx1⟩ := p
      rw [hs1] at hr
      simp only at hr ⊢
      cases hpr : pureRun true true f [] gds lss with
      | error e => rw [hpr] at hr; cases hr
      | ok q =>
        obtain ⟨gdsO, lssO⟩ := q
        rw [hpr] at hr
        simp only at hr ⊢
        split at hr
        · exact hr
        · cases hr
  · intro gds lss idx1 gdsO lssO hs1 hpr hne
    unfold cachedPartialCall
    rw [hs1]
    simp only [hpr]
    rw [if_neg hne]

/-! ## plain dict attributes: key order is irrelevant -/

/-- **`flatten` of a dict does not depend on insertion order**: the pytree node for `dict` iterates `sorted(d.items())`,
so two dicts with the same items inserted in different orders give the same graphdef, the same leaves in the same
order and the same `ref_index` -- which is what lets `split` (one traversal) and `merge` (leaves sorted by path)
agree on which leaf belongs to which Variable -/
theorem dict_flatten_order_independent (fuel : Nat) (h : Heap) (path : Path) (kvs kvs' : List (Key × PVal)) (idx : RefIndex)
    (hp : kvs.Perm kvs') (hn : keysNodup kvs) :
    flattenVal fuel h path (.dict kvs) idx = flattenVal fuel h path (.dict kvs') idx := by
  have hs : sortKV kvs' = sortKV kvs :=
    sortBy_of_perm Key.strictTotal (hp.symm.trans (sortBy_perm kvs).symm) (sortKV_ssorted hn)
  cases fuel with
  | zero => rfl
  | succ n => simp only [flattenVal, hs]

/-- **merge ∘ split is the identity on a dict-valued attribute, as a map**: rebuilding what `flatten` emitted for a dict
(whatever its insertion order, with raw or `VariableState` leaves) consumes exactly the emitted leaves and yields a
dict with the same keys whose values correspond under the address map (`ValRel.dict` compares dicts after sorting
by key); every Variable inside gets its own leaf -/
theorem dict_roundtrip (raw : Bool) (fuel : Nat) (h : Heap) (kvs : List (Key × PVal)) (gd : GDef) (ls : FlatState)
    (idx : RefIndex) (hf : flattenVal fuel h [] (.dict kvs) [] = .ok (gd, ls, idx)) :
    ∃ v' H' ir', unflattenO (fun _ => Option.none) (stampWith (fun _ => Option.none) gd) (convLeaves raw ls) [] [] =
        .ok (v', [], H', ir') ∧ ValRel (phi idx ir') (.dict kvs) v' := by
  obtain ⟨v', H', ir', hu, _, _, hv⟩ := (simO (reuse_none h) raw (fun _ => Option.none) (fun _ => Option.none) idx
    (fun _ _ _ => rfl) fuel).1 [] (.dict kvs) [] gd ls idx hf ⟨[], by simp⟩ [] [] [] (GoodO.nil _ _)
  exact ⟨v', H', ir', by simpa using hu, hv⟩

/-- `m.stats = {}; m.stats['total'] = Variable(100); m.stats['count'] = Variable(0)` (non-alphabetical insertion) and the
same dict built in the other order flatten identically: the leaves come out as `count`, `total` -/
example : (flattenVal 10 [.var ["Variable"] 100 [], .var ["Variable"] 0 []] []
      (.dict [(.str "total", .ref 0), (.str "count", .ref 1)]) []).toOption.map (fun r => r.2.1.map (·.1)) =
    some [[.str "count"], [.str "total"]] := by decide

/-! ## the excluded region, stated (findings F31, F32) -/

/-- `m.c.w = Param(1)` -/
def exDetachHeap : Heap :=
  [ .node "A" [(.str "c", .ref 1)], .node "A" [(.str "w", .ref 2)], .var ["Param", "Variable"] 1 [] ]

/-- `def f(m): c = m.c; w = c.w; x = w.value; w.value = x + 1; del m.c` -/
def exDetachFn : Fn :=
  { body := [.getAttr 0 (.str "c"), .getAttr 1 (.str "w"), .readVar 2, .setVar 2 (.add (.reg 3) (.const 1)),
             .delAttr 0 (.str "c")], ret := [] }

/-- **F31, on the model: an object the function detaches from its arguments is outside the refinement.**  Eagerly the
caller's `c.w` (address 2) becomes 2; under `jit` it keeps its old value 1, because after the call it is not
reachable from the arguments, so the outer merge never sees it (`RefinesEager.frame` says exactly that: a caller
object outside the range of `ψ` is left as it was BEFORE the call).  The attribute deletion itself is propagated. -/
theorem detached_object_update_lost :
    (runFn exDetachFn exDetachHeap [.ref 0]).toOption.map (fun r => (r.2[0]?, r.2[2]?)) =
      some (some (.node "A" []), some (.var ["Param", "Variable"] 2 [])) ∧
    (jitCall exDetachFn exDetachHeap [.ref 0]).toOption.map (fun r => (r.2[0]?, r.2[2]?)) =
      some (some (.node "A" []), some (.var ["Param", "Variable"] 1 [])) := by
  decide

/-- **F32, on the model: a metadata edit of an existing Variable does not cross the `jit` boundary.**  Suppose the inner
Variable that stands for the caller's Variable `a` (outer index 0) comes back with new metadata `md'` and value `d`.
With raw leaves (`nnx.jit`: `ctx.flatten(with_paths=False)`) the outer merge assigns only `raw_value`: the caller's
Variable keeps its OLD metadata `md0`.  With `VariableState` leaves (remat / cond / loops: `update_from_state`) it
takes `md'`.  (The mutation DSL has no metadata-edit statement, which is why `jit_refines_eager` holds.) -/
theorem metadata_edit_dropped_by_raw_leaves (h : Heap) (a : Nat) (ty : VType) (v0 d : Data) (md0 md' : Meta)
    (ha : h[a]? = some (.var ty v0 md0)) :
    step4 h [a] [.var ty 0 (some 0) md'] [[.arr d]] = .ok ([.ref a], write h a (.var ty d md0)) ∧
    step4 h [a] [.var ty 0 (some 0) md'] [[.vstate ty d md']] = .ok ([.ref a], write h a (.var ty d md')) := by
  constructor <;> simp [step4, unflattenRootsO, unflattenO, ha]

/-- every DSL statement keeps attribute keys distinct (so `Heap.wf`'s distinct-keys part is an invariant of any call) -/
theorem dsl_preserves_distinct_keys (f : Fn) (h : Heap) (args rets : List PVal) (h1 : Heap) (n : AttrsNodup h)
    (hr : runFn f h args = .ok (rets, h1)) : AttrsNodup h1 :=
  runFn_nodup n hr

/-! ## non-vacuity -/

/-- `m = A(); m.w = Param(3); m.c = B(); m.c.w = m.w; m.c.p = m; m.s = 5` -/
def exHeap : Heap :=
  [ .node "A" [(.str "w", .ref 2), (.str "c", .ref 1), (.str "s", .static "i:5")],
    .node "B" [(.str "w", .ref 2), (.str "p", .ref 0)],
    .var ["Param", "Variable"] 3 [] ]

/-- `def f(m, n): w = m.w; x = w.value; w.value = x + 1; v = Param(x * 2); n.new = v; k = B(); m.k = k; k.v = v;
del m.s; return k, x` -/
def exFn : Fn :=
  { body := [.getAttr 0 (.str "w"), .readVar 2, .setVar 2 (.add (.reg 3) (.const 1)),
             .newVar ["Param", "Variable"] (.mul (.reg 3) (.const 2)) [], .setAttr 1 (.str "new") 4,
             .newNode "B", .setAttr 0 (.str "k") 5, .setAttr 5 (.str "v") 4, .delAttr 0 (.str "s")],
    ret := [5, 3] }

/-- eager: the caller's `m`, `m.c`, `m.w` are mutated in place, two objects are created -/
example : (runFn exFn exHeap [.ref 0, .ref 1]).toOption =
    some ([.ref 4, .array 3],
      [ .node "A" [(.str "w", .ref 2), (.str "c", .ref 1), (.str "k", .ref 4)],
        .node "B" [(.str "w", .ref 2), (.str "p", .ref 0), (.str "new", .ref 3)],
        .var ["Param", "Variable"] 4 [], .var ["Param", "Variable"] 6 [], .node "B" [(.str "v", .ref 3)] ]) := by
  decide

/-- under `jit` (aliased arguments `m` and `m.c`): the SAME caller objects 0, 1, 2 carry the changes -/
example : (jitCall exFn exHeap [.ref 0, .ref 1]).toOption =
    some ([.ref 4, .array 3],
      [ .node "A" [(.str "c", .ref 1), (.str "k", .ref 4), (.str "w", .ref 2)],
        .node "B" [(.str "new", .ref 3), (.str "p", .ref 0), (.str "w", .ref 2)],
        .var ["Param", "Variable"] 4 [], .var ["Param", "Variable"] 6 [], .node "B" [(.str "v", .ref 3)] ]) := by
  decide

/-- and under `remat` -/
example : (rematCall exFn exHeap [.ref 0, .ref 1]).toOption = (jitCall exFn exHeap [.ref 0, .ref 1]).toOption := by
  decide

/-- the hypothesis of `alias_across_args_one_object`: the arguments `(m, m.c)` share `m.c`, `m.w`, and `m` itself -/
example : (flattenRoots exHeap [.ref 0, .ref 1] []).toOption.map (fun r => r.2.2) = some [0, 1, 2] := by decide

/-- value-only branches: `cond` is accepted and selects -/
def exT : Fn := { body := [.getAttr 0 (.str "w"), .readVar 1, .setVar 1 (.add (.reg 2) (.const 1))], ret := [2] }
def exF : Fn := { body := [.getAttr 0 (.str "w"), .readVar 1, .setVar 1 (.mul (.reg 2) (.const 2))], ret := [2] }

example : (condCall exT exF false exHeap [.ref 0]).toOption.map (fun r => (r.1, r.2[2]?)) =
    some ([.array 3], some (.var ["Param", "Variable"] 6 [])) := by decide

/-- one branch adds an attribute: rejected -/
def exS : Fn := { body := [.litStatic "i:1", .setAttr 0 (.str "z") 1, .data (.const 0)], ret := [2] }

example : (match condCall exT exS true exHeap [.ref 0] with | .error e => some e | .ok _ => Option.none) =
    some Err.structureMismatch := by decide

/-- `def f(m): box = B(); hd = m.c; w = hd.w; w.value = w.value + 1; box.item = hd; del m.c; return box`: the pre-existing
sub-object `m.c` is detached from the argument and moved into a node created by the function.  It is reachable from
the RESULTS after the call, so `jit_refines_eager` covers it (`ident`: every pre-existing object in the domain of `ψ`
is mapped to itself): under `jit` the returned new node (address 3) holds the caller's own object 1, and its Variable
(address 2) carries the update -/
def exMove : Fn :=
  { body := [.newNode "B", .getAttr 0 (.str "c"), .getAttr 2 (.str "w"), .readVar 3, .setVar 3 (.add (.reg 4) (.const 1)),
             .setAttr 1 (.str "item") 2, .delAttr 0 (.str "c")], ret := [1] }

example : (jitCall exMove exHeap [.ref 0]).toOption.map (fun r => (r.1, r.2[3]?, r.2[2]?)) =
    some ([.ref 3], some (.node "B" [(.str "item", .ref 1)]), some (.var ["Param", "Variable"] 4 [])) ∧
    (runFn exMove exHeap [.ref 0]).toOption.map (fun r => (r.1, r.2[3]?, r.2[2]?)) =
    some ([.ref 3], some (.node "B" [(.str "item", .ref 1)]), some (.var ["Param", "Variable"] 4 [])) := by decide

/-- the hypotheses of `jit_total`: the example heap is closed -/
example : HeapClosed exHeap ∧ ∀ v ∈ [PVal.ref 0, PVal.ref 1], ValClosed exHeap v := by
  constructor
  · intro a cls attrs hg b hb
    match a, hg with
    | 0, hg => simp [exHeap] at hg; obtain ⟨_, rfl⟩ := hg; simp [deepRefsKV, deepRefs] at hb; rcases hb with rfl | rfl <;> decide
    | 1, hg => simp [exHeap] at hg; obtain ⟨_, rfl⟩ := hg; simp [deepRefsKV, deepRefs] at hb; rcases hb with rfl | rfl <;> decide
    | 2, hg => simp [exHeap] at hg
    | n + 3, hg => simp [exHeap] at hg
  · intro v hv b hb
    simp at hv
    rcases hv with rfl | rfl <;> (simp [deepRefs] at hb; subst hb; decide)

/-- an erroring body: `getattr(m, 'missing')` raises `AttributeError` eagerly and under `jit` -/
def exBad : Fn := { body := [.getAttr 0 (.str "missing")], ret := [] }

example : (match runFn exBad exHeap [.ref 0] with | .error e => some e | .ok _ => Option.none) = some Err.attrError ∧
    (match jitCall exBad exHeap [.ref 0] with | .error e => some e | .ok _ => Option.none) = some Err.attrError := by decide

/-- the hypothesis of the loop theorems: `vars(obj)` has distinct keys -/
example : Heap.wf exHeap = true := by decide

/-- `def body(i, (m, n)): w = m.w; x = w.value; w.value = x + i; return m, n` over the aliased carry `(m, m.c)` -/
def exBody : Fn :=
  { body := [.getAttr 1 (.str "w"), .readVar 3, .setVar 3 (.add (.reg 4) (.reg 0))], ret := [1, 2] }

example : (foriCall exBody 2 3 exHeap [.ref 0, .ref 1]).toOption.map (fun r => (r.1, r.2[2]?)) =
    some ([.ref 0, .ref 1], some (.var ["Param", "Variable"] 12 [])) := by decide

example : (foriEager exBody 3 2 exHeap [.ref 0, .ref 1]).toOption.map (fun r => (r.1, r.2[2]?)) =
    some ([.ref 0, .ref 1], some (.var ["Param", "Variable"] 12 [])) := by decide

/-- the hypotheses of `fori_loop_total` hold for `exBody` on the aliased carry `(m, m.c)`: three iterations keep the carry -/
example : ∃ gds fss idx1, flattenRoots exHeap [.ref 0, .ref 1] [] = .ok (gds, fss, idx1) ∧
    KeepsCarry exBody gds idx1 3 2 exHeap [.ref 0, .ref 1] :=
  ⟨_, _, _, rfl, _, _, _, rfl, flatRoots_of_flattenRoots _ _ _ _ _ _ rfl,
    _, _, _, rfl, flatRoots_of_flattenRoots _ _ _ _ _ _ rfl,
    _, _, _, rfl, flatRoots_of_flattenRoots _ _ _ _ _ _ rfl, trivial⟩

/-- the hypothesis of `switch_total` / `cond_total`: the two value-only branches announce the same output structure,
the structure-changing branch a different one -/
example : tracedDefs exT exHeap [.ref 0] = tracedDefs exF exHeap [.ref 0] := rfl

example : (match tracedDefs exT exHeap [.ref 0], tracedDefs exS exHeap [.ref 0] with
    | .ok a, .ok b => decide (a = b) | _, _ => true) = false := by decide

/-- `while n < 3: m.w.value += n; n += 1` -/
def exCond : Fn := { body := [.data (.lt (.reg 1) (.const 3))], ret := [2] }
def exWBody : Fn :=
  { body := [.getAttr 0 (.str "w"), .readVar 2, .setVar 2 (.add (.reg 3) (.reg 1)), .data (.add (.reg 1) (.const 1))],
    ret := [0, 4] }

example : exCond.readOnly = true := by decide

example : (whileCall exCond exWBody 10 exHeap [.ref 0, .array 0]).toOption.map (fun r => (r.1, r.2[2]?)) =
    some ([.ref 0, .array 3], some (.var ["Param", "Variable"] 6 [])) := by decide

/-- a history with a hit: the second call finds the key of the first (value-only body, same structure) -/
example : ((callsFrom exT { entries := [], traces := 0 } [(exHeap, [.ref 0]), (exHeap, [.ref 0])]).map
    (fun r => r.toOption.map (fun x => x.1))) = [some [.array 3], some [.array 3]] := by decide

example : CacheOK exT { entries := [], traces := 0 } := cacheOK_empty exT 0

/-- `cached_partial`: a value-only function is accepted, a structure change is detected -/
example : (cachedPartialCall exT 1 exHeap [.ref 0]).toOption.map (fun r => r.1) = some [.array 3] := by decide

example : (match cachedPartialCall exS 1 exHeap [.ref 0] with | .error e => some e | .ok _ => Option.none) =
    some Err.cacheMutated := by decide

end Flax.C04
