/-
C06 — Lifted scan and vmap equal the explicit loop and the per-example stack.

Model: Flax/Model/LiftLoop.lean (axes_scan.scan, lift.scan, lift.vmap, lift.remat_scan transcribed).
Specification side: Flax/Proofs/LiftLoopSpec.lean (`loopSpec`, `loopCore`, `loopStep`: the explicit Python loop
over `jnp.take` slices, roles by first matching filter, `Key.split k n i` per index).
Helper lemmas live in Flax/Proofs/LiftLoop*.lean; this file holds the property's theorems.

Named assumptions (DESIGN.md §5): A-SCAN (`laxScan`), A-VMAP (`jaxVmap`), A-RNG (`Key` is a free term
algebra), A-CONV (`Arr.take/stack/transpose`), A-REMAT (lift.remat = identity).  The constancy check of the
broadcast pass and jax.vmap's unbatchedness check enter by their verdict only.
-/
import Flax.Model.LiftLoop
import Flax.Proofs.LiftLoopAxes
import Flax.Proofs.LiftLoopArr
import Flax.Proofs.LiftLoopLeaf
import Flax.Proofs.LiftLoopSpec
import Flax.Proofs.LiftLoopScanMain
import Flax.Proofs.LiftLoopVmap
import Flax.Proofs.LiftLoopRemat
import Flax.Proofs.LiftLoopFlat
import Flax.Proofs.LiftLoopErrors
import Flax.Proofs.LiftLoopDict
import Flax.Proofs.LiftLoopRematFlat

set_option linter.unusedSectionVars false

namespace Flax.C06
open Flax.Filter Flax.LiftLoop

/-! ## 1. `transpose_to_front` / `transpose_from_front` (axes_scan.py:93-121) -/

/-- **For every rank and every axis in `[-rank, rank)`** (Python negative-axis normalisation):
`transpose_to_front` puts the chosen axis first and keeps the others in order, and the two transposes are
mutually inverse — stated on an arbitrary list of per-axis data (shape, axis names, index tuples …). -/
theorem transpose_front_inverse {β : Type} (xs : List β) (ax : Int)
    (hlo : -(xs.length : Int) ≤ ax) (hhi : ax < xs.length) :
    ∃ (n : Nat) (h : n < xs.length), normAxis xs.length ax = some n ∧
      ((n : Int) = if ax < 0 then ax + xs.length else ax) ∧
      axesToFront ax xs = .ok (xs[n] :: xs.eraseIdx n) ∧
      (axesToFront ax xs >>= axesFromFront ax) = .ok xs ∧
      (axesFromFront ax xs >>= axesToFront ax) = .ok xs := by
  obtain ⟨n, hn⟩ := normAxis_isSome hlo hhi
  obtain ⟨hlt, hto⟩ := axesToFront_eq xs ax n hn
  have hval : (n : Int) = if ax < 0 then ax + xs.length else ax := by
    unfold normAxis at hn
    split at hn
    · injection hn with hn; split <;> omega
    · split at hn
      · injection hn with hn; split <;> omega
      · cases hn
  refine ⟨n, hlt, hn, hval, hto, ?_, ?_⟩
  · rw [hto]
    have hlen : (xs.eraseIdx n).length + 1 = xs.length := by
      rw [List.length_eraseIdx]; simp [hlt]; omega
    have := axesFromFront_eq xs[n] (xs.eraseIdx n) ax n (by rw [hlen]; exact hn)
    simp only [bind, Except.bind, this]
    congr 1
    exact insertIdx_eraseIdx_self xs n hlt
  · cases xs with
    | nil => simp at hlt
    | cons y rest =>
      have hf := axesFromFront_eq y rest ax n (by simpa using hn)
      simp only [bind, Except.bind, hf]
      have hlen : (rest.insertIdx n y).length = (y :: rest).length := by
        rw [List.length_insertIdx]; simp at hlt ⊢; omega
      obtain ⟨hlt', hto'⟩ := axesToFront_eq (rest.insertIdx n y) ax n (by rw [hlen]; exact hn)
      rw [hto']
      congr 1
      rw [List.getElem_insertIdx_self, List.eraseIdx_insertIdx_self]

example : axesToFront (-2) ["b", "h", "w", "c"] = .ok ["w", "b", "h", "c"] ∧
    axesFromFront (-2) ["w", "b", "h", "c"] = .ok ["b", "h", "w", "c"] := ⟨rfl, rfl⟩

/-- outside `[-rank, rank)` the first transpose raises (np.delete's IndexError) -/
theorem transpose_to_front_out_of_range {β : Type} (xs : List β) (ax : Int) (h0 : ax ≠ 0)
    (h : ax < -(xs.length : Int) ∨ (xs.length : Int) ≤ ax) :
    axesToFront ax xs = .error .axisOutOfBounds := by
  have hn : normAxis xs.length ax = none := by
    unfold normAxis
    rcases h with h | h
    · have h1 : ¬ (0 ≤ ax ∧ ax < (xs.length : Int)) := by omega
      have h2 : ¬ (-(xs.length : Int) ≤ ax ∧ ax < 0) := by omega
      simp [h1, h2]
    · have h1 : ¬ (0 ≤ ax ∧ ax < (xs.length : Int)) := by omega
      have h2 : ¬ (-(xs.length : Int) ≤ ax ∧ ax < 0) := by omega
      simp [h1, h2]
  simp [axesToFront, h0, toFrontPerm, hn, bind, Except.bind]

/-- on arrays: **slice `i` along the leading axis of the transposed array is slice `i` of the original
along the declared axis** — what iteration `i` of `lax.scan` is given -/
theorem transpose_front_slice {α : Type} [Inhabited α] (A F : Arr α) (ax : Int)
    (hF : A.toFront ax = .ok F) (i : Nat) : F.take 0 i = takeAt ax i A :=
  take_front_eq A F ax hF i

/-- on arrays: **stacking the per-iteration results along axis 0 and transposing from the front is stacking
along the declared (possibly negative) out axis** -/
theorem transpose_front_stack {α : Type} [Inhabited α] (sh : List Nat) (ls : List (Arr α)) (ax : Int) (n : Nat)
    (hn : normAxis (sh.length + 1) ax = some n) :
    stackFront ax sh ls = Arr.stack sh n ls ∨ ∃ e, Arr.stack sh 0 ls = .error e := by
  cases hS : Arr.stack sh 0 ls with
  | error e => exact Or.inr ⟨e, rfl⟩
  | ok S =>
    left
    simp only [stackFront, hS, bind, Except.bind]
    exact Arr.fromFront_stack sh ls ax n hn S hS

/-- and slice `i` of a stack along the declared axis is the `i`-th stacked value: an axis collection
holds one slice per iteration along its axis -/
theorem stack_slice {α : Type} [Inhabited α] [DecidableEq α] (sh : List Nat) (ls : List (Arr α)) (ax : Int)
    (S : Arr α) (hS : stackAt ax sh ls = .ok S) (hwf : ∀ y ∈ ls, Arr.WF y = true) (i : Nat) (hi : i < ls.length) :
    takeAt ax i S = .ok ls[i] := by
  unfold stackAt at hS
  cases hn : normAxis (sh.length + 1) ax with
  | none => simp [hn] at hS
  | some n =>
    simp only [hn] at hS
    have hrank : S.rank = sh.length + 1 := by
      have hle : n ≤ sh.length := by have := normAxis_lt hn; omega
      simp only [Arr.stack] at hS
      split at hS
      · injection hS with hS; subst hS; simp [Arr.rank, List.length_insertIdx, hle]
      · cases hS
    simp only [takeAt, hrank, hn]
    exact Arr.take_stack sh n ls S hS hwf i hi

/-! ## 2. `lift.scan` = the explicit loop -/

/-- **`scan_eq_loop`.** For every loop body (any function of the inner scope), every assignment of collections
to broadcast / carry / axis roles through arbitrary filters (first match wins), every axis, `In`/`Out`
restriction, length, direction, unroll factor, in/out axes tree, split flags, scope mutability and verdict of
the constancy check: `lift.scan` succeeds exactly when the explicit loop `loopSpec` does, with the same final
scope variables, final carry and stacked outputs.  (`loopSpec`: slice `i` of every axis collection along its
declared axis ↔ iteration `i`; broadcast collections initialised once and passed unchanged to every
iteration; carried collections and carry threaded in processing order; outputs stacked by index along the
declared out axes; split streams get `Key.split k n i`.)  Both values of `check_constancy_invariants` are
covered: `cfg.checkConst = false` selects `simple_scan_fn` in the model and `loopCoreSimple` in the loop — the
same iterations in the same direction, but the broadcast collections are inputs only (no one-time
initialisation, no constancy verdict) and `broadcast` out axes are refused. -/
theorem scan_eq_loop {α : Type} [Inhabited α] (cfg : ScanCfg) (verdict : Bool) (body : Body α)
    (scopeMut : LFilter) (outer : Vars α) (rngs : Rngs) (init : List (Arr α)) (args : List (Arr α)) :
    opt (liftScan cfg verdict body scopeMut outer rngs init args) =
      loopSpec cfg verdict body scopeMut outer rngs init args :=
  liftScan_opt cfg verdict body scopeMut outer rngs init args

/-! non-vacuity: a concrete loop (reverse direction, a carried counter collection `K`, a per-iteration weight
collection `P` scanned along axis `-1`, one scanned argument) on which the explicit loop — hence, by
`scan_eq_loop` / `axesScan_opt`, the model of the implementation — succeeds with a non-trivial result -/

def exScalar (v : Int) : Arr Int := Arr.ofFn [] (fun _ => v)
def exVec (l : List Int) : Arr Int := Arr.ofFn [l.length] (fun i => l.getD (i.getD 0 0) 0)

/-- `c ← c + w·x`, `n ← n + 1`, output the old carry -/
def exBody : Body Int := fun _ vars _ c xs =>
  match c, xs, (dget vars "K").bind (dget · "n"), (dget vars "P").bind (dget · "w") with
  | [c0], [x], some n, some w =>
    .ok (putVar vars "K" "n" (exScalar (n.getD [] + 1)),
         [exScalar (c0.getD [] + w.getD [] * x.getD [])], [exScalar (c0.getD [])])
  | _, _, _, _ => .error (.body "KeyError")

def exCfg : ScanCfg :=
  { bcast := .ff, carry := .name "K", axes := [⟨.name "P", -1, true, true⟩], splitRngs := [],
    inAxes := .uniform (some 0), outAxes := .uniform (some 0), length := none, reverse := true, unroll := 2,
    checkConst := true }

def exOuter : Vars Int := [("P", [("w", exVec [1, 10, 100])]), ("K", [("n", exScalar 0)])]

example :
    let r := loopCore exCfg true (.names ["K", "P"]) exBody exOuter [] [exScalar 0] [exVec [1, 2, 3]] [some 0] 3
    r.map (·.2.1.1) = some [("K", [("n", exScalar 3)])] ∧ r.map (·.2.1.2) = some [exScalar 321] ∧
      r.map (·.2.2.1) = some [exVec [320, 300, 0]] := by decide

example :
    let r := opt (axesScan true exCfg.length exCfg.reverse true false (exCfg.inAx.map (·.axis)) [some 0] exCfg.outAxes
      (exCfg.outAx.map (·.axis)) (scanned (.names ["K", "P"]) exCfg.outFs exBody)
      (roleGroup exOuter exCfg.inFs 0) (roleGroup exOuter exCfg.inFs 1, [exScalar 0])
      (axisGroups exOuter exCfg.inFs exCfg.inAx.length) [] [exVec [1, 2, 3]])
    r.map (·.2.1.1) = some [("K", [("n", exScalar 3)])] ∧ r.map (·.2.1.2) = some [exScalar 321] ∧
      r.map (·.2.2.1) = some [exVec [320, 300, 0]] := by decide

/-- non-vacuity for `check_constancy_invariants=False` (reverse direction, same loop as above) -/
example :
    let r := loopCoreSimple { exCfg with checkConst := false } (.names ["K", "P"]) exBody exOuter []
      [exScalar 0] [exVec [1, 2, 3]] [some 0] 3
    r.map (·.2.1.2) = some [exScalar 321] ∧ r.map (·.2.2.1) = some [exVec [320, 300, 0]] := by decide

/-- when the constancy check of the broadcast pass rejects the body (a broadcast collection or a
`broadcast` output depends on the carry or on scanned data), `lift.scan` never returns a value -/
theorem scan_rejects_broadcast_dependency {α : Type} [Inhabited α] (cfg : ScanCfg)
    (hcc : cfg.checkConst = true) (body : Body α) (scopeMut : LFilter) (outer : Vars α) (rngs : Rngs) (init : List (Arr α)) (args : List (Arr α)) :
    opt (liftScan cfg false body scopeMut outer rngs init args) = none := by
  rw [scan_eq_loop]
  have hcore : ∀ inArgAxes dLength,
      loopCore cfg false (innerMutable scopeMut cfg.outFs) body outer rngs init args inArgAxes dLength = none := by
    intro inArgAxes dLength
    unfold loopCore
    rw [hcc]
    simp only [if_true]
    unfold loopCoreChecked
    cases loopDims cfg outer rngs inArgAxes args dLength with
    | none => rfl
    | some dims =>
      simp only [Option.bind_some]
      cases opt (jaxLength cfg.length dims) with
      | none => rfl
      | some n =>
        simp only [Option.bind_some]
        split
        · rfl
        · cases loopStep cfg (innerMutable scopeMut cfg.outFs) body outer rngs inArgAxes args dLength
            (roleGroup outer cfg.inFs 0) (roleGroup outer cfg.inFs 1, init)
            (if cfg.reverse then n - 1 else 0) with
          | none => rfl
          | some r0 =>
            simp only [Option.bind_some]
            cases opt (cfg.outAxes.expand r0.2.2.1.length) with
            | none => rfl
            | some oy => rfl
  unfold loopSpec
  simp only [hcore, Option.map_none]
  cases opt (argSizes cfg.inAxes args) with
  | none => rfl
  | some sizes =>
    simp only [Option.bind_some]
    cases opt (decideLength cfg.length sizes) with
    | none => rfl
    | some dLength =>
      simp only [Option.bind_some]
      cases opt (cfg.inAxes.expand args.length) <;> rfl

/-- `unroll` never matters (A-SCAN: it is not even an input of `lax.scan`'s meaning) -/
theorem scan_unroll_irrelevant {α : Type} [Inhabited α] (cfg : ScanCfg) (u : Nat) (verdict : Bool)
    (body : Body α) (scopeMut : LFilter) (outer : Vars α) (rngs : Rngs) (init args : List (Arr α)) :
    liftScan { cfg with unroll := u } verdict body scopeMut outer rngs init args =
      liftScan cfg verdict body scopeMut outer rngs init args := rfl

/-- the iterations of the explicit loop, made explicit: the states form a chain — **iteration `p + 1` starts
from the carried collections and carry that iteration `p` produced**, every iteration keeps the carry
structure, and the output recorded for position `p` is tagged with the index processed there -/
theorem loop_carry_threaded {σ ω : Type} (step : σ → Nat → Option (σ × ω)) (same : σ → σ → Bool) :
    ∀ (order : List Nat) (s sf : σ) (recs : List (Nat × ω)), loopRun step same s order = some (sf, recs) →
    ∃ states : List σ, states.length = order.length + 1 ∧ states[0]? = some s ∧
      states[order.length]? = some sf ∧ recs.length = order.length ∧
      ∀ p (hp : p < order.length), ∃ s1 s2 y, states[p]? = some s1 ∧ states[p + 1]? = some s2 ∧
        step s1 order[p] = some (s2, y) ∧ same s1 s2 = true ∧ recs[p]? = some (order[p], y) := by
  intro order
  induction order with
  | nil =>
    intro s sf recs h
    simp [loopRun] at h
    obtain ⟨rfl, rfl⟩ := h
    exact ⟨[s], by simp⟩
  | cons i is ih =>
    intro s sf recs h
    simp only [loopRun] at h
    cases hs : step s i with
    | none => simp [hs] at h
    | some r =>
      simp only [hs] at h
      by_cases hsame : same s r.1 = true
      · simp only [hsame, if_true] at h
        cases hr : loopRun step same r.1 is with
        | none => simp [hr] at h
        | some rest =>
          simp [hr] at h
          obtain ⟨rfl, rfl⟩ := h
          obtain ⟨states, hl, h0, hlast, hrl, hsteps⟩ := ih r.1 rest.1 rest.2 (by rw [hr])
          refine ⟨s :: states, by simp [hl], by simp, by simpa using hlast, by simp [hrl], ?_⟩
          intro p hp
          cases p with
          | zero => exact ⟨s, r.1, r.2, by simp, by simpa using h0, by simpa using hs, hsame, by simp⟩
          | succ p =>
            obtain ⟨s1, s2, y, e1, e2, e3, e4, e5⟩ := hsteps p (by simpa using hp)
            exact ⟨s1, s2, y, by simpa using e1, by simpa using e2, by simpa using e3, e4, by simpa using e5⟩
      · simp [hsame] at h

/-- **either direction**: whatever the processing order, output `i` of the loop is the output of the iteration
that processed index `i` (for `reverse=True` the collected outputs are re-reversed) -/
theorem loop_outputs_by_index {ω : Type} (n : Nat) (recs : List (Nat × ω)) (outs : List ω)
    (h : byIndex n recs = some outs) :
    outs.length = n ∧ ∀ i (_ : i < n) (h2 : i < outs.length), recs.lookup i = some outs[i] := by
  have := mapO_eq_some h
  refine ⟨by simpa using this.1, ?_⟩
  intro i hi h2
  have := this.2 i (by simpa using hi) h2
  simpa using this

example : byIndex 3 [(2, "c"), (1, "b"), (0, "a")] = some ["a", "b", "c"] := by decide

/-! ## 3. length inference (lift.py:964-981, 798-817) -/

/-- **`scan_length_inference`**: `d_length` is the explicit `length` if given, else the single size found on
the scanned arguments; two different sizes are an error whatever `length` says; no size and no `length` is an
error — exactly the four-way case split of the code, for every list of observed sizes. -/
theorem scan_length_inference (explicit : Option Nat) (sizes : List Nat) :
    (decideLength explicit sizes = .error .inconsistentLengths ↔ ∃ a ∈ sizes, ∃ b ∈ sizes, a ≠ b) ∧
    (decideLength explicit sizes = .error .lengthUnspecified ↔ explicit = none ∧ sizes = []) ∧
    (∀ n, decideLength explicit sizes = .ok n ↔
      (¬ (∃ a ∈ sizes, ∃ b ∈ sizes, a ≠ b)) ∧
      ((explicit = some n) ∨ (explicit = none ∧ n ∈ sizes))) := by
  have hmem : ∀ a, a ∈ sizes.eraseDups ↔ a ∈ sizes := fun a => List.mem_eraseDups
  cases hs : sizes.eraseDups with
  | nil =>
    have hnil : sizes = [] := by
      cases sizes with
      | nil => rfl
      | cons x t => have := (hmem x).2 (by simp); rw [hs] at this; cases this
    subst hnil
    cases explicit <;> simp [decideLength]
  | cons a t =>
    cases t with
    | nil =>
      have hall : ∀ x ∈ sizes, x = a := by
        intro x hx; have := (hmem x).2 hx; rw [hs] at this; simpa using this
      have ha : a ∈ sizes := (hmem a).1 (by rw [hs]; simp)
      have hne : sizes ≠ [] := by intro h; subst h; cases ha
      have hno : ¬ ∃ x ∈ sizes, ∃ y ∈ sizes, x ≠ y := by
        rintro ⟨x, hx, y, hy, hxy⟩; exact hxy ((hall x hx).trans (hall y hy).symm)
      cases explicit with
      | none =>
        simp only [decideLength, hs, hno, hne]
        refine ⟨by simp, by simp, ?_⟩
        intro n
        constructor
        · intro h; injection h with h; subst h; simp [ha]
        · rintro ⟨_, h | ⟨_, h⟩⟩
          · cases h
          · rw [hall n h]
      | some l =>
        simp only [decideLength, hs, hno, hne]
        refine ⟨by simp, by simp, ?_⟩
        intro n
        constructor
        · intro h; injection h with h; subst h; simp
        · rintro ⟨_, h | ⟨h, _⟩⟩
          · injection h with h; rw [h]
          · cases h
    | cons b t' =>
      have hab : a ≠ b := by
        cases sizes with
        | nil => simp at hs
        | cons x rest =>
          rw [List.eraseDups_cons] at hs
          injection hs with h1 h2
          subst h1
          have : b ∈ (rest.filter (fun y => !(y == x))).eraseDups := by rw [h2]; simp
          have := List.mem_eraseDups.1 this
          simp only [List.mem_filter, Bool.not_eq_eq_eq_not, Bool.not_true, beq_eq_false_iff_ne] at this
          exact fun h => this.2 h.symm
      have ha : a ∈ sizes := (hmem a).1 (by rw [hs]; simp)
      have hb : b ∈ sizes := (hmem b).1 (by rw [hs]; simp)
      have hne : sizes ≠ [] := by intro h; subst h; cases ha
      have hyes : ∃ x ∈ sizes, ∃ y ∈ sizes, x ≠ y := ⟨a, ha, b, hb, hab⟩
      cases explicit <;> simp [decideLength, hs, hyes, hne]

example : decideLength none [3, 3, 3] = .ok 3 ∧ decideLength (some 5) [] = .ok 5 ∧
    decideLength (some 3) [3, 4] = .error .inconsistentLengths ∧
    decideLength none ([] : List Nat) = .error .lengthUnspecified := ⟨rfl, rfl, rfl, rfl⟩

/-- what lax.scan makes of it: with an explicit `length` every scanned leaf must have that size, otherwise
all must agree — and when both flax and lax.scan are content, the loop runs `d_length` iterations -/
theorem scan_iterations_eq_d_length {α : Type} [Inhabited α] (cfg : ScanCfg) (outer : Vars α) (rngs : Rngs)
    (inArgAxes : List (Option Int)) (args : List (Arr α)) (sizes : List Nat) (dLength : Nat)
    (dims : List Nat) (n : Nat)
    (hsizes : argSizes cfg.inAxes args = .ok sizes) (hdl : decideLength cfg.length sizes = .ok dLength)
    (hexp : cfg.inAxes.expand args.length = .ok inArgAxes)
    (hd : loopDims cfg outer rngs inArgAxes args dLength = some dims)
    (hj : jaxLength cfg.length dims = .ok n) : n = dLength ∧ ∀ d ∈ dims, d = n :=
  ⟨n_eq_dLength cfg outer rngs inArgAxes args sizes dLength dims n hsizes hdl hexp hd hj, jaxLength_all hj⟩

/-! ## 4. RNG streams -/

/-- **`rng_split_distinct_unsplit_equal`** (A-RNG).  Take a stream `s` with key `k` whose first matching
`split_rngs` entry is number `g` with flag `sp`.  Then group `g` of the rngs handed to index `i` holds `s`
with `random.split(k, n)[i]` if `sp`, and with `k` itself otherwise; so a split stream gives pairwise
different keys to different indices and an unsplit stream the same key to all.  The second part ties this
to the implementation side: slicing row `i` out of the key arrays flax builds gives exactly these groups. -/
theorem rng_split_distinct_unsplit_equal (sr : List (LFilter × Bool)) (rngs : Rngs) (n : Nat)
    (g : Nat) (f : LFilter) (sp : Bool) (hg : sr[g]? = some (f, sp)) (s : String) (k : Key)
    (hm : (s, k) ∈ roleGroup rngs (sr.map (·.1)) g) :
    (∀ i, ∃ G, (iterRngGroups sr rngs n i)[g]? = some G ∧ (s, if sp then Key.split k n i else k) ∈ G) ∧
    (sp = true → ∀ i j, i ≠ j → Key.split k n i ≠ Key.split k n j) ∧
    (sp = false → ∀ i j, (if sp then Key.split k n i else k) = (if sp then Key.split k n j else k)) ∧
    (∀ i, i < n → mapE (RngG.at i) (splitGroups (groupDict rngs (sr.map (·.1))) (sr.map (·.2)) n) =
      .ok (iterRngGroups sr rngs n i)) := by
  have hlt : g < sr.length := by
    cases h : sr[g]? with
    | none => rw [h] at hg; cases hg
    | some v => exact (List.getElem?_eq_some_iff.1 h).1
  refine ⟨?_, ?_, ?_, ?_⟩
  · intro i
    refine ⟨(roleGroup rngs (sr.map (·.1)) g).map (fun sk => (sk.1, if sp then Key.split sk.2 n i else sk.2)), ?_, ?_⟩
    · simp only [iterRngGroups]
      rw [List.getElem?_map]
      have : ((List.range sr.length).zip sr)[g]? = some (g, (f, sp)) :=
        List.getElem?_zip_eq_some.2 ⟨List.getElem?_range hlt, hg⟩
      rw [this]
      rfl
    · exact List.mem_map.2 ⟨(s, k), hm, rfl⟩
  · intro _ i j hij h
    injection h with _ _ h
    exact hij h
  · intro h i j; simp [h]
  · intro i hi
    exact rngAt_splitGroups sr rngs n i hi

example : iterRngGroups [(.name "dropout", true), (.tt, false)]
    [("params", .seed "params"), ("dropout", .seed "dropout")] 3 1
    = [[("dropout", .split (.seed "dropout") 3 1)], [("params", .seed "params")]] := by decide


/-! ## 5. `lift.vmap` = one call per index -/

/-- **`vmap_eq_map`.** For every mapped function, every assignment of collections to an axis or to `None`
through arbitrary filters (first match wins, `In`/`Out` restrictions), every in/out axes tree, `axis_size`,
split flags, scope mutability and verdict of jax's unbatchedness check: `lift.vmap` succeeds exactly when
`mapSpec` does, with the same results.  (`mapSpec`: index `i` sees slice `i` of every axis collection and
mapped argument along its declared axis and every `None`-axis collection whole; results are stacked along
the declared out axes, `None`-axis results are the shared value; split streams get `Key.split k n i`.) -/
theorem vmap_eq_map {α : Type} [Inhabited α] (cfg : VmapCfg) (verdict : Bool) (body : Body α)
    (scopeMut : LFilter) (outer : Vars α) (rngs : Rngs) (args : List (Arr α)) :
    opt (liftVmap cfg verdict body scopeMut outer rngs args) =
      mapSpec cfg verdict body scopeMut outer rngs args :=
  liftVmap_opt cfg verdict body scopeMut outer rngs args

/-- non-vacuity: two calls on the two slices of a mapped collection `P` (axis 0) with a shared collection `K` -/
def exVmapCfg : VmapCfg :=
  { axes := [⟨.name "P", some 0, true, true⟩, ⟨.name "K", none, true, true⟩], splitRngs := [(.tt, true)],
    inAxes := .uniform (some (-1)), outAxes := .uniform (some 0), axisSize := none }

/-- `y = w·x + a`, shared counter `n ← n + 1` -/
def exMapBody : Body Int := fun _ vars _ _ xs =>
  match xs, (dget vars "K").bind (dget · "n"), (dget vars "P").bind (dget · "w") with
  | [a, x], some n, some w =>
    .ok (putVar vars "K" "n" (exScalar (n.getD [] + 1)), [], [exScalar (w.getD [] * x.getD [] + a.getD [])])
  | _, _, _ => .error (.body "KeyError")

def exVmapCall (i : Nat) : Option (List (Arr Int) × List (Vars Int)) :=
  mapCall exVmapCfg (.names ["K", "P"]) exMapBody [("P", [("w", exVec [10, 100])]), ("K", [("n", exScalar 7)])]
    [("s", .seed "s")] [none, some (-1)] [exScalar 1, exVec [2, 3]] 2 i

example : (exVmapCall 0).map (·.1) = some [exScalar 21] := by decide
example : (exVmapCall 1).map (·.1) = some [exScalar 301] := by decide
example : (exVmapCall 0).map (fun x => x.2.getD 0 []) = some [("P", [("w", exScalar 10)])] := by decide
example : (exVmapCall 1).map (fun x => x.2.getD 0 []) = some [("P", [("w", exScalar 100)])] := by decide
example : (exVmapCall 1).map (fun x => x.2.getD 1 []) = some [("K", [("n", exScalar 8)])] := by decide

/-- `None`-axis collections are shared: every index is handed the very same group, and a `None`-axis result
group is the (unbatched) value itself, not a stack -/
theorem vmap_none_axis_shared {α : Type} [Inhabited α] (g : Vars α) (o0 : List (Vars α))
    (outs : List (List (Arr α) × List (Vars α))) (k : Nat) :
    (∀ i, groupTakeAt i (none, g) = .ok g) ∧ vmapV o0 outs (k, none) = .ok (o0.getD k []) :=
  ⟨fun _ => rfl, rfl⟩

/-- an axis collection is sliced per index: index `i` gets `jnp.take(leaf, i, axis)` of every leaf -/
theorem vmap_axis_sliced {α : Type} [Inhabited α] (g : Vars α) (ax : Int) (i : Nat) :
    groupTakeAt i (some ax, g) = Vars.mapE (takeAt ax i) g := rfl

/-- when flax's `axis_size` inference and jax.vmap's own check both pass, the number of calls is the size flax
used for splitting the rngs -/
theorem vmap_calls_eq_axis_size {α : Type} [Inhabited α] (cfg : VmapCfg) (outer : Vars α) (rngs : Rngs)
    (inArgAxes : List (Option Int)) (args : List (Arr α)) (sizes : List Nat) (dSize : Nat)
    (dims : List Nat) (n : Nat)
    (hsizes : vmapSizes (cfg.inAx.map (·.axis)) (roleGroups outer (cfg.inAx.map (·.filter))) cfg.inAxes args
      = .ok sizes)
    (hdl : decideLength cfg.axisSize sizes = .ok dSize)
    (hexp : cfg.inAxes.expand args.length = .ok inArgAxes)
    (hd : mapDims cfg outer rngs inArgAxes args dSize = some dims)
    (hj : jaxLength cfg.axisSize dims = .ok n) : n = dSize :=
  vmap_n_eq_dSize cfg outer rngs inArgAxes args sizes dSize dims n hsizes hdl hexp hd hj

/-! ## 6. grouping: roles are decided by the first matching filter -/

/-- the groups `_partial_pack` hands to the transform are exactly the first-match role groups, and the
groups `repack_fn` hands back are the mutable collections sorted the same way — nothing is lost to the
"unmapped output variables" error, because a collection is mutable inside only if some out filter matches -/
theorem roles_first_match {α : Type} (fs : List LFilter) (d : Vars α) (m : LFilter) (vars' : Vars α) :
    groupDict d fs = (List.range fs.length).map (roleGroup d fs) ∧
    repack (innerMutable m fs) fs vars' =
      .ok ((List.range fs.length).map (roleGroup (vars'.filter (fun kv => inFilter (innerMutable m fs) kv.1)) fs)) ∧
    (∀ c, inFilter (innerMutable m fs) c = (inFilter m c && fs.any (fun f => inFilter f c))) :=
  ⟨groupDict_eq fs d, repack_eq m fs vars', in_innerMutable m fs⟩

example : groupDict [("params", 1), ("cache", 2), ("stats", 3)] [.name "cache", .deny (.name "params"), .tt]
    = [[("cache", 2)], [("stats", 3)], [("params", 1)]] := by decide

/-! ## 6b. `publish_results_fn`: what is written back into the outer scope -/

/-- **`publish_writes_every_mutable_collection`.** `publish_results_fn` is the sequence of writes
`publishWrites`: one `put_variable` per variable of every MUTABLE collection of every out group, in order.
Read-only collections contribute nothing and do not affect their siblings in the same group: every variable of
every mutable collection of every group is among the writes; the last write to a `(collection, variable)` is
what the scope holds afterwards; what no write touches is unchanged. -/
theorem publish_writes_every_mutable_collection {α : Type} (m : LFilter) (outer : Vars α)
    (groups : List (Vars α)) :
    publish m outer groups = (publishWrites m groups).foldl (fun o w => putVar o w.1 w.2.1 w.2.2) outer ∧
    (∀ g ∈ groups, ∀ cc ∈ g, inFilter m cc.1 = true → ∀ nv ∈ cc.2,
      (cc.1, nv.1, nv.2) ∈ publishWrites m groups) ∧
    (∀ pre w post, publishWrites m groups = pre ++ w :: post →
      (∀ w' ∈ post, ¬ (w'.1 = w.1 ∧ w'.2.1 = w.2.1)) →
      getVar (publish m outer groups) w.1 w.2.1 = some w.2.2) ∧
    (∀ c n, (∀ w ∈ publishWrites m groups, ¬ (w.1 = c ∧ w.2.1 = n)) →
      getVar (publish m outer groups) c n = getVar outer c n) := by
  refine ⟨publish_eq_writes m outer groups, ?_, ?_, ?_⟩
  · intro g hg cc hcc hm nv hnv
    simp only [publishWrites, List.mem_flatMap]
    exact ⟨g, hg, cc, hcc, by simp only [hm, if_true]; exact List.mem_map.2 ⟨nv, hnv, rfl⟩⟩
  · intro pre w post hw hpost
    rw [publish_eq_writes, hw, List.foldl_append, List.foldl_cons, foldl_put_preserve _ _ post _ hpost]
    exact getVar_putVar_self _ _ _ _
  · intro c n h
    rw [publish_eq_writes]
    exact foldl_put_preserve c n _ _ h

/-- the defective variant seeded as C06_f: skip a whole out group as soon as one of its collections is
read-only -/
def publishGroupSkip {α : Type} (scopeMut : LFilter) (outer : Vars α) (groups : List (Vars α)) : Vars α :=
  groups.foldl (fun o g =>
    if g.all (fun cc => inFilter scopeMut cc.1) then
      g.foldl (fun o cc => cc.2.foldl (fun o nv => putVar o cc.1 nv.1 nv.2) o) o
    else o) outer

/-- closed counter-example: group `{stats (mutable), params (read-only)}` — `publish_results_fn` writes the new
`stats` value back, the group-level skip loses it -/
theorem publish_group_skip_loses_updates :
    let outer : Vars Int := [("params", [("w", exScalar 1)]), ("stats", [("n", exScalar 0)])]
    let group : Vars Int := [("stats", [("n", exScalar 5)]), ("params", [("w", exScalar 1)])]
    getVar (publish (.name "stats") outer [group]) "stats" "n" = some (exScalar 5) ∧
    getVar (publishGroupSkip (.name "stats") outer [group]) "stats" "n" = some (exScalar 0) := by
  decide

/-! ## 6c. the broadcast output of one call of the lifted body (lift.py:1017-1022) -/

/-- **`broadcast_readd_only_missing`.** The broadcast output handed back to `axes_scan` is the body's broadcast
output followed by exactly those broadcast INPUT collections it lacks (the immutable ones, which `repack_fn`
does not return) — nothing the body produced is ever overwritten: a collection present in the body's output keeps
the body's value (with all its variables, including lazily created ones), an absent one gets the input's. -/
theorem broadcast_readd_only_missing {α : Type} (bIn bOut : Vars α) (hnd : (bIn.map (·.1)).Nodup) :
    reinject bIn bOut = bOut ++ bIn.filter (fun cc => (dget bOut cc.1).isNone) ∧
    (∀ k v, dget bOut k = some v → dget (reinject bIn bOut) k = some v) ∧
    (∀ k, dget bOut k = none → dget (reinject bIn bOut) k = dget bIn k) := by
  have heq : reinject bIn bOut = bOut ++ bIn.filter (fun cc => (dget bOut cc.1).isNone) := reinject_eq bIn bOut hnd
  refine ⟨heq, ?_, ?_⟩
  · intro k v hk
    rw [heq]; unfold dget at hk ⊢
    rw [List.lookup_append, hk]; rfl
  · intro k hk
    rw [heq]; unfold dget at hk ⊢
    rw [List.lookup_append, hk]
    simp only [Option.none_or]
    -- looking `k` up in the input collections that are missing from the output = looking it up in the input
    have : ∀ (l : Vars α), (l.filter (fun cc => (List.lookup cc.1 bOut).isNone)).lookup k = l.lookup k := by
      intro l
      induction l with
      | nil => rfl
      | cons x xs ih =>
        obtain ⟨kx, vx⟩ := x
        simp only [List.filter_cons]
        by_cases hkx : k = kx
        · subst hkx
          simp [hk]
        · have hb : (k == kx) = false := by simpa using hkx
          split
          · simp [List.lookup_cons, hb, ih]
          · simp [List.lookup_cons, hb, ih]
    exact this bIn

/-- the defective variant seeded as C06_g: `out_group.update(in_group)` -/
def reinjectUpdate {α : Type} (bIn bOut : Vars α) : Vars α := dupdate bOut bIn

/-- closed counter-example: the mutable broadcast collection `consts` holds `scale` on entry and the body lazily
creates `shift` in it; re-adding only what is missing keeps both variables, `update()` throws `shift` away -/
theorem broadcast_update_loses_lazy_init :
    let bIn : Vars Int := [("consts", [("scale", exScalar 2)])]
    let bOut : Vars Int := [("consts", [("scale", exScalar 2), ("shift", exScalar 7)])]
    getVar (reinject bIn bOut) "consts" "shift" = some (exScalar 7) ∧
    getVar (reinjectUpdate bIn bOut) "consts" "shift" = none := by
  decide

/-! ## 7. error classes: which errors are flax's own, and exactly when they are raised

`scan_eq_loop` / `vmap_eq_map` compare success and result.  The theorems below add the error side for the
errors flax itself raises: 'Inconsistent scan lengths' / 'Inconsistent batch axis sizes'
(`inconsistentLengths`), 'length / axis_size should be specified manually' (`lengthUnspecified`),
'broadcasted variable has a data dependency on the scan body' (`broadcastDependency`), 'unmapped output
variables' (`unmappedOutput`).  Every other error of the model is *foreign* (`Err.foreign`): JAX's
(axis out of range, transposition, lax.scan / jax.vmap size mismatch or nothing to scan, carry structure,
unbatched output expected), a structure check of the model, or the body's own (`.body tag`: e.g.
ModifyScopeVariableError when the body writes a collection that the inner mutability filter of
`roles_first_match` excludes).  Which foreign class is raised stays tied by the correspondence run only. -/

/-- **every error of `lift.scan`, classified** (bodies raise only their own errors): flax's length errors come
from `decideLength` on the sizes read off the arguments, before anything else; the broadcast-dependency error
is raised exactly when the constancy check fails after a broadcast pass that itself went through; anything
else is foreign -/
theorem scan_error_classes {α : Type} [Inhabited α] (cfg : ScanCfg) (hcc : cfg.checkConst = true)
    (verdict : Bool) (body : Body α) (hb : BodyForeign body) (m : LFilter) (outer : Vars α) (rngs : Rngs) (init args : List (Arr α)) (e : Err)
    (h : liftScan cfg verdict body m outer rngs init args = .error e) :
    (∃ sizes, argSizes cfg.inAxes args = .ok sizes ∧ decideLength cfg.length sizes = .error e ∧
        (e = .inconsistentLengths ∨ e = .lengthUnspecified)) ∨
    (e = .broadcastDependency ∧ verdict = false ∧
        ∃ r, liftScanCore cfg verdict true body m outer rngs init args = .ok r) ∨
    e.foreign = true :=
  liftScan_err cfg hcc verdict body hb m outer rngs init args e h

/-- **'Inconsistent scan lengths' / 'length should be specified manually', exactly**: `lift.scan` raises the
first iff the scanned arguments show two different sizes, the second iff they show none and no `length` is
given (whatever the body, the collections and the rngs are) -/
theorem scan_length_errors_iff {α : Type} [Inhabited α] (cfg : ScanCfg) (hcc : cfg.checkConst = true)
    (verdict : Bool) (body : Body α) (hb : BodyForeign body) (m : LFilter) (outer : Vars α) (rngs : Rngs) (init args : List (Arr α))
    (sizes : List Nat) (hs : argSizes cfg.inAxes args = .ok sizes) :
    (liftScan cfg verdict body m outer rngs init args = .error .inconsistentLengths ↔
      ∃ a ∈ sizes, ∃ b ∈ sizes, a ≠ b) ∧
    (liftScan cfg verdict body m outer rngs init args = .error .lengthUnspecified ↔
      cfg.length = none ∧ sizes = []) := by
  have hfwd : ∀ e, decideLength cfg.length sizes = .error e →
      liftScan cfg verdict body m outer rngs init args = .error e := by
    intro e he
    unfold liftScan liftScanCore
    rw [hs]
    show (decideLength cfg.length sizes >>= _) = _
    rw [he]; rfl
  have hbwd : ∀ e, (e = .inconsistentLengths ∨ e = .lengthUnspecified) →
      liftScan cfg verdict body m outer rngs init args = .error e → decideLength cfg.length sizes = .error e := by
    intro e he h
    rcases liftScan_err cfg hcc verdict body hb m outer rngs init args e h with ⟨s', hs', hd, _⟩ | ⟨hbd, _⟩ | hf
    · rw [hs] at hs'; injection hs' with hs'; subst hs'; exact hd
    · rcases he with he | he <;> (rw [he] at hbd; cases hbd)
    · rcases he with he | he <;> (rw [he] at hf; cases hf)
  have hinf := scan_length_inference cfg.length sizes
  exact ⟨⟨fun h => hinf.1.1 (hbwd _ (Or.inl rfl) h), fun h => hfwd _ (hinf.1.2 h)⟩,
         ⟨fun h => hinf.2.1.1 (hbwd _ (Or.inr rfl) h), fun h => hfwd _ (hinf.2.1.2 h)⟩⟩

/-- **the broadcast-dependency error, exactly**: raised iff the constancy check rejects (`verdict = false`)
and everything up to and including the broadcast pass succeeds -/
theorem scan_broadcast_dependency_iff {α : Type} [Inhabited α] (cfg : ScanCfg) (hcc : cfg.checkConst = true)
    (verdict : Bool) (body : Body α) (hb : BodyForeign body) (m : LFilter) (outer : Vars α) (rngs : Rngs) (init args : List (Arr α)) :
    liftScan cfg verdict body m outer rngs init args = .error .broadcastDependency ↔
      (verdict = false ∧ ∃ r, liftScanCore cfg verdict true body m outer rngs init args = .ok r) := by
  constructor
  · intro h
    rcases liftScan_err cfg hcc verdict body hb m outer rngs init args _ h with ⟨_, _, _, he⟩ | ⟨_, hv, hr⟩ | hf
    · rcases he with he | he <;> cases he
    · exact ⟨hv, hr⟩
    · cases hf
  · rintro ⟨hv, r, hr⟩
    subst hv
    exact liftScan_reject cfg hcc body m outer rngs init args r hr

/-- **'unmapped output variables' cannot come out of `lift.scan` or `lift.vmap`**: a collection is mutable in
the inner scope only if some out filter matches it -/
theorem unmapped_output_never {α : Type} [Inhabited α] (body : Body α) (hb : BodyForeign body) (m : LFilter)
    (outer : Vars α) (rngs : Rngs) (init args : List (Arr α)) (verdict : Bool) :
    (∀ cfg : ScanCfg, cfg.checkConst = true →
      liftScan cfg verdict body m outer rngs init args ≠ .error .unmappedOutput) ∧
    (∀ cfg : VmapCfg, liftVmap cfg verdict body m outer rngs args ≠ .error .unmappedOutput) := by
  constructor
  · intro cfg hcc h
    rcases liftScan_err cfg hcc verdict body hb m outer rngs init args _ h with ⟨_, _, _, he⟩ | ⟨he, _⟩ | hf
    · rcases he with he | he <;> cases he
    · cases he
    · cases hf
  · intro cfg h
    rcases liftVmap_err cfg verdict body hb m outer rngs args _ h with ⟨_, _, _, he⟩ | hf
    · rcases he with he | he <;> cases he
    · cases hf

/-- **`vmap_axis_size_inference`** (`find_axis_size`, lift.py:798-817): `lift.vmap` raises 'Inconsistent batch
axis sizes' iff the sizes read off the first leaf of every mapped group and off the mapped arguments show two
different values, and 'axis_size should be specified manually' iff they show none and no `axis_size` is given;
its other errors are foreign -/
theorem vmap_axis_size_inference {α : Type} [Inhabited α] (cfg : VmapCfg) (verdict : Bool) (body : Body α)
    (hb : BodyForeign body) (m : LFilter) (outer : Vars α) (rngs : Rngs) (args : List (Arr α))
    (sizes : List Nat)
    (hs : vmapSizes (cfg.inAx.map (·.axis)) (groupDict outer (cfg.inAx.map (·.filter))) cfg.inAxes args = .ok sizes) :
    (liftVmap cfg verdict body m outer rngs args = .error .inconsistentLengths ↔ ∃ a ∈ sizes, ∃ b ∈ sizes, a ≠ b) ∧
    (liftVmap cfg verdict body m outer rngs args = .error .lengthUnspecified ↔ cfg.axisSize = none ∧ sizes = []) ∧
    (∀ e, liftVmap cfg verdict body m outer rngs args = .error e →
      e = .inconsistentLengths ∨ e = .lengthUnspecified ∨ e.foreign = true) := by
  have hfwd : ∀ e, decideLength cfg.axisSize sizes = .error e →
      liftVmap cfg verdict body m outer rngs args = .error e := by
    intro e he
    unfold liftVmap
    simp only []
    rw [hs]
    show (decideLength cfg.axisSize sizes >>= _) = _
    rw [he]; rfl
  have hbwd : ∀ e, (e = .inconsistentLengths ∨ e = .lengthUnspecified) →
      liftVmap cfg verdict body m outer rngs args = .error e → decideLength cfg.axisSize sizes = .error e := by
    intro e he h
    rcases liftVmap_err cfg verdict body hb m outer rngs args e h with ⟨s', hs', hd, _⟩ | hf
    · rw [hs] at hs'; injection hs' with hs'; subst hs'; exact hd
    · rcases he with he | he <;> (rw [he] at hf; cases hf)
  have hinf := scan_length_inference cfg.axisSize sizes
  refine ⟨⟨fun h => hinf.1.1 (hbwd _ (Or.inl rfl) h), fun h => hfwd _ (hinf.1.2 h)⟩,
          ⟨fun h => hinf.2.1.1 (hbwd _ (Or.inr rfl) h), fun h => hfwd _ (hinf.2.1.2 h)⟩, ?_⟩
  intro e h
  rcases liftVmap_err cfg verdict body hb m outer rngs args e h with ⟨_, _, _, he⟩ | hf
  · rcases he with he | he
    · exact Or.inl he
    · exact Or.inr (Or.inl he)
  · exact Or.inr (Or.inr hf)

/-- the sizes `find_axis_size` reads: one per mapped group with leaves (the first leaf in jax's sorted
flattening order, along the group's axis) and those of the mapped arguments -/
theorem vmap_sizes_read {α : Type} (iv : List (Option Int)) (groups : List (Vars α)) (t : AxesTree)
    (args : List (Arr α)) :
    vmapSizes iv groups t args =
      (do let l1 ← mapE groupSizeOpt (iv.zip groups); let l2 ← argSizes t args; pure (l1.filterMap id ++ l2)) ∧
    (∀ g : Vars α, groupSizeOpt (none, g) = .ok none) ∧
    (∀ ax (g : Vars α) a, firstLeaf g = some a → groupSizeOpt (some ax, g) = (shapeAt a ax).map some) :=
  ⟨rfl, fun _ => rfl, fun ax g a h => by simp [groupSizeOpt, h]⟩

/-! ## 8. `lift.remat_scan` -/

/-- **nested loops = one flat loop** (the loop-combinator core of `remat_scan_eq_flat_loop`): a nest of threaded
loops with `lengths = [l₁, …, l_k]`, the body called at the full multi-index, is ONE threaded loop of
`∏ lengths` iterations over the multi-indices in row-major order (`allIdx lengths`, i.e. flat index
`((i₁·l₂)+i₂)·…`): same final carry, same outputs under the same multi-indices.  Needs the carry-structure
check to be reflexive and transitive (it is an equality of shapes). -/
theorem nested_loops_eq_flat_loop {σ ω : Type} (step : σ → Ix → Option (σ × ω)) (same : σ → σ → Bool)
    (hrefl : ∀ s, same s s = true) (htrans : ∀ a b c, same a b = true → same b c = true → same a c = true)
    (lengths : List Nat) (s : σ) :
    nestRun step same lengths [] s = runG step same s (allIdx lengths) ∧
    (allIdx lengths).length = lengths.foldr (· * ·) 1 := by
  refine ⟨?_, allIdx_length lengths⟩
  have := nestRun_eq_flat step same hrefl htrans lengths [] s
  simpa using this

example : allIdx [2, 3] = [[0, 0], [0, 1], [0, 2], [1, 0], [1, 1], [1, 2]] := by decide

/-- the carry-structure check of the model is reflexive and transitive, and each level of a nest is a
`loopRun`, which is `runG` at index type `Nat` -/
theorem same_struct_equiv {α : Type} :
    (∀ s : Vars α × List (Arr α), sameStruct s s = true) ∧
    (∀ a b c : Vars α × List (Arr α), sameStruct a b = true → sameStruct b c = true → sameStruct a c = true) ∧
    (∀ {σ ω : Type} (step : σ → Nat → Option (σ × ω)) (same : σ → σ → Bool) (order : List Nat) (s : σ),
      loopRun step same s order = runG step same s order) := by
  refine ⟨?_, ?_, fun step same order s => loopRun_eq_runG step same order s⟩
  · intro s; simp [sameStruct]
  · intro a b c h1 h2
    simp only [sameStruct, Bool.and_eq_true, decide_eq_true_eq] at h1 h2 ⊢
    exact ⟨h1.1.trans h2.1, h1.2.trans h2.2⟩

/-- the key a split stream has at nesting depth `path.length`: every level of `remat_scan` splits the key it was
handed once more (`rng_split_distinct_unsplit_equal`, level by level) -/
def nestedKey : Key → List (Nat × Nat) → Key
  | k, [] => k
  | k, (l, i) :: rest => nestedKey (Key.split k l i) rest

/-- **split streams under `remat_scan`**: the keys of two different multi-indices differ (A-RNG), for any
`lengths` -/
theorem remat_split_keys_distinct (k : Key) (lengths : List Nat) (idx idx' : Ix)
    (h1 : idx.length = lengths.length) (h2 : idx'.length = lengths.length) (hne : idx ≠ idx') :
    nestedKey k (lengths.zip idx) ≠ nestedKey k (lengths.zip idx') := by
  have key : ∀ (p p' : List (Nat × Nat)) (k k' : Key), p.length = p'.length →
      nestedKey k p = nestedKey k' p' → p.map (·.1) = p'.map (·.1) → k = k' ∧ p = p' := by
    intro p
    induction p with
    | nil =>
      intro p' k k' hl h _
      cases p' with
      | nil => exact ⟨h, rfl⟩
      | cons q qs => simp at hl
    | cons q qs ih =>
      intro p' k k' hl h hm
      cases p' with
      | nil => simp at hl
      | cons q' qs' =>
        obtain ⟨l, i⟩ := q
        obtain ⟨l', i'⟩ := q'
        simp only [List.map_cons, List.cons.injEq] at hm
        simp only [nestedKey] at h
        obtain ⟨hk, hq⟩ := ih qs' _ _ (by simpa using hl) h hm.2
        injection hk with hk1 hk2 hk3
        subst hk1; subst hk2; subst hk3; subst hq
        exact ⟨rfl, rfl⟩
  intro h
  have := key (lengths.zip idx) (lengths.zip idx') k k (by simp [h1, h2]) h (by
    rw [List.map_fst_zip (by omega), List.map_fst_zip (by omega)])
  apply hne
  have h3 := congrArg (fun p => p.map (·.2)) this.2
  rwa [List.map_snd_zip (by omega), List.map_snd_zip (by omega)] at h3

/-- the key a stream has at nesting depth `path.length` when its `split_rngs` flag is `sp`: `rematScan` hands the
SAME `split_rngs` to every level (`RematCfg.scanCfg` does not depend on the level), so every level applies the
same flag -/
def nestedKeyFlag (sp : Bool) : Key → List (Nat × Nat) → Key
  | k, [] => k
  | k, (l, i) :: rest => nestedKeyFlag sp (if sp then Key.split k l i else k) rest

/-- **unsplit streams under `remat_scan`**: a stream declared unsplit keeps its key at EVERY nesting level — all
`∏ lengths` iterations get the very same key; a split one gets the nested split key of
`remat_split_keys_distinct`.  And the model threads `split_rngs` to all levels: the scan configuration of a
level is the same for every level but for its length. -/
theorem remat_unsplit_keys_equal (k : Key) (path path' : List (Nat × Nat)) (rc : RematCfg) (l l' : Nat) :
    nestedKeyFlag false k path = k ∧ nestedKeyFlag false k path = nestedKeyFlag false k path' ∧
    nestedKeyFlag true k path = nestedKey k path ∧
    (rc.scanCfg l).splitRngs = rc.splitRngs ∧ (rc.scanCfg l).splitRngs = (rc.scanCfg l').splitRngs := by
  have h1 : ∀ (p : List (Nat × Nat)) (k : Key), nestedKeyFlag false k p = k := by
    intro p
    induction p with
    | nil => intro k; rfl
    | cons q qs ih => intro k; obtain ⟨a, b⟩ := q; simp [nestedKeyFlag, ih]
  have h2 : ∀ (p : List (Nat × Nat)) (k : Key), nestedKeyFlag true k p = nestedKey k p := by
    intro p
    induction p with
    | nil => intro k; rfl
    | cons q qs ih => intro k; obtain ⟨a, b⟩ := q; simp [nestedKeyFlag, nestedKey, ih]
  exact ⟨h1 path k, by rw [h1, h1], h2 path k, rfl, rfl⟩

/-- one level of the nest hands the next level exactly these keys: group `g` of the rngs of index `i` holds every
stream of that group with `Key.split k l i` if the group's flag says split and with `k` itself otherwise -/
theorem remat_level_keys (sr : List (LFilter × Bool)) (rngs : Rngs) (l i : Nat) :
    iterRngGroups sr rngs l i = ((List.range sr.length).zip sr).map (fun p =>
      (roleGroup rngs (sr.map (·.1)) p.1).map (fun sk => (sk.1, nestedKeyFlag p.2.2 sk.2 [(l, i)]))) := by
  unfold iterRngGroups
  apply List.map_congr_left
  intro p _
  apply List.map_congr_left
  intro sk _
  cases p.2.2 <;> rfl

example : nestedKey (.seed "params") ([2, 3].zip [1, 2]) = .split (.split (.seed "params") 2 1) 3 2 := rfl

/-! ### the scope plumbing between two nesting levels -/

/-- **merge, then regroup by the same filters = identity**: `scope_fn` of one level merges the groups into the
inner scope, `group_collections` of the next level splits that scope by the same filters; when every key of
group `g` has `g` as its first matching filter and keys are distinct, the groups come back unchanged -/
theorem regroup_after_merge_identity {β : Type} (fs : List LFilter) (gs : List (List (String × β)))
    (hrole : ∀ j (hj : j < gs.length), ∀ kv ∈ gs[j], firstIdx fs kv.1 = some j)
    (hnd : (gs.flatten.map (·.1)).Nodup) :
    mergeGroups gs = gs.flatten ∧ ∀ g, roleGroup (mergeGroups gs) fs g = gs.getD g [] :=
  ⟨mergeGroups_flatten gs hnd, regroup_after_merge fs gs hrole hnd⟩

example : mergeGroups [[("params", 1)], [("cache", 2), ("stats", 3)]] = [("params", 1), ("cache", 2), ("stats", 3)] ∧
    roleGroup (mergeGroups [[("params", 1)], [("cache", 2), ("stats", 3)]]) [.name "params", .tt] 1
      = [("cache", 2), ("stats", 3)] := by decide

/-- **publish, then re-filter = identity** for a structure-preserving out group: if the out group `G` has exactly
the scope's collections with exactly their variable names in the same order (what the carry-structure check of
`lax.scan` enforces for carried collections), names are distinct and all its collections are mutable, then
`publish_results_fn` turns the scope into `G` itself — so filtering the mutable collections and regrouping them
one level up returns `G` -/
theorem publish_refilter_identity {α : Type} (m : LFilter) (V G : Vars α)
    (hs : V.map (fun cc => (cc.1, cc.2.map (·.1))) = G.map (fun cc => (cc.1, cc.2.map (·.1))))
    (hnd : (G.map (·.1)).Nodup) (hvn : ∀ cc ∈ G, (cc.2.map (·.1)).Nodup) (hm : ∀ cc ∈ G, inFilter m cc.1 = true) :
    publish m V [G] = G ∧ (publish m V [G]).filter (fun kv => inFilter m kv.1) = G := by
  have h : publish m V [G] = G := by
    simp only [publish, List.foldl_cons, List.foldl_nil]
    exact publish_same_structure m V G hs hnd hvn hm
  exact ⟨h, by rw [h]; exact List.filter_eq_self.2 hm⟩

example : publish (.name "stats") [("stats", [("n", exScalar 0), ("s", exScalar 1)])]
    [[("stats", [("n", exScalar 5), ("s", exScalar 6)])]] = [("stats", [("n", exScalar 5), ("s", exScalar 6)])] := by
  decide

/-- **nested stacking and nested slicing are inverse at the multi-index**: stacking per-inner-iteration values
along the axis, then the per-outer-iteration stacks along the axis again, and slicing twice gives the value of
iteration `(i₀, i₁)` back -/
theorem nested_stack_slice {α : Type} [Inhabited α] [DecidableEq α] (sh : List Nat) (ax : Int)
    (rows : List (List (Arr α))) (inner : List (Arr α)) (S : Arr α) (i0 i1 : Nat)
    (hin : mapE (fun row => stackAt ax sh row) rows = .ok inner)
    (hS : stackAt ax ((inner.head?.map (·.shape)).getD []) inner = .ok S)
    (hwf : ∀ row ∈ rows, ∀ y ∈ row, Arr.WF y = true)
    (h0 : i0 < rows.length) (h1 : i1 < (rows.getD i0 []).length) :
    ∃ R, takeAt ax i0 S = .ok R ∧ takeAt ax i1 R = .ok ((rows.getD i0 []).getD i1 default) := by
  obtain ⟨hlen, hrows⟩ := mapE_eq_ok hin
  have hi0 : i0 < inner.length := by omega
  have hrow := hrows i0 h0 hi0
  have hwfi : ∀ y ∈ inner, Arr.WF y = true := by
    intro y hy
    obtain ⟨k, hk, rfl⟩ := List.getElem_of_mem hy
    have := hrows k (by omega) hk
    unfold stackAt at this
    split at this
    · simp only [Arr.stack] at this
      split at this
      · injection this with this; rw [← this]; exact Arr.wf_ofFn _ _
      · cases this
    · cases this
  refine ⟨inner[i0], stack_slice _ inner ax S hS hwfi i0 hi0, ?_⟩
  have hr : rows.getD i0 [] = rows[i0] := by simp [List.getD_eq_getElem?_getD, h0]
  rw [hr] at h1 ⊢
  have := stack_slice sh rows[i0] ax inner[i0] hrow (hwf _ (List.getElem_mem h0)) i1 h1
  rw [this]
  simp [List.getD_eq_getElem?_getD, h1]

/-! ### `remat_scan` = ONE flat loop, when only carried collections, carry and rngs are lifted -/

/-- **`remat_scan_eq_flat_loop` for configurations without axis and without broadcast collections**
(`variable_axes = {}`, `variable_broadcast = False`; any `variable_carry`, any `split_rngs`, any `lengths` with
positive entries, any body).  The scope holds the carried collections (distinct collection and variable names).
Then `lift.remat_scan(body, lengths)` is ONE threaded loop of `∏ lengths` iterations over the multi-indices in
row-major order: iteration `idx` calls the body on the current carried collections and carry, with the
mutability filter of depth `len(lengths)` and the rng streams regrouped / split once per level along `idx`
(`rngsAt`); the carried collections of the body's result (its mutable carry-role collections) and its carry are
threaded, the carry-structure check applies at every step.  All the plumbing between the levels (merge and
regroup, publish and re-filter, the per-level broadcast pass) is proved to be the identity here. -/
theorem remat_scan_eq_flat_loop_carry_only {α : Type} [Inhabited α] (rc : RematCfg) (hax : rc.axes = [])
    (hb : rc.bcast = .ff) (body : Body α) (lengths : List Nat) (hne : lengths ≠ []) (hnz : ∀ l ∈ lengths, l ≠ 0)
    (m : LFilter) (V : Vars α) (hV : InvC rc V) (r : Rngs) (c xs : List (Arr α)) :
    opt (rematScan rc true body lengths m V r c xs) =
      (runG (flatStep rc body m r lengths) sameStruct (V, c) (allIdx lengths)).map
        (fun res => (res.1.1, res.1.2, [])) ∧
    (allIdx lengths).length = lengths.foldr (· * ·) 1 := by
  refine ⟨?_, allIdx_length lengths⟩
  rw [rematScan_opt]
  have := nested_eq_flat_carryOnly rc hax hb body m r lengths lengths [] [] rfl rfl hne hnz V c hV
  simp only [List.length_nil, mAt, List.zip_nil_left, rngsAt, List.nil_append, List.map_id'] at this
  rw [this]
  cases runG (flatStep rc body m r lengths) sameStruct (V, c) (allIdx lengths) <;> rfl

/-- the hypotheses are satisfiable: a scope with one carried counter collection -/
example : InvC (α := Int) { bcast := .ff, carry := .name "K", axes := [], splitRngs := [(.tt, true)] }
    [("K", [("n", exScalar 0)])] := by
  refine ⟨by decide, ?_, ?_⟩
  · intro cc hcc; simp at hcc; subst hcc; decide
  · intro cc hcc; simp at hcc; subst hcc; decide

/- Full statement aimed at (DESIGN.md `remat_scan_eq_flat_loop`):
     `remat_scan(body, lengths)` equals ONE explicit loop of `∏ lengths` iterations in lexicographic index
     order, iteration `(i₀, i₁, …)` seeing slice `[i₀][i₁]…` of every axis collection and the key
     `split(split(k, l₀)[i₀], l₁)[i₁] …` of every split stream.
   Proved: (a) `remat_scan` is the nest of explicit loops, one per entry of `lengths` (the theorem below);
   (b) `nested_loops_eq_flat_loop`: a nest of threaded loops is one flat loop in row-major order;
   (c) `remat_scan_eq_flat_loop_carry_only`: (a) and (b) glued — ONE flat loop — for configurations that lift no
   axis and no broadcast collection; (d) the three plumbing identities in general form:
   `regroup_after_merge_identity`, `publish_refilter_identity`, `nested_stack_slice`.
   Still missing for the general statement: threading (d) through `loopSpec` for AXIS collections (the per-level
   slices of the slices, and the published stacked results, whose variable order may differ from the scope's
   when the body creates variables — needs dict equality up to key order, or the hypothesis that the body keeps
   the variable names of every axis collection), `In`/`Out`-restricted axes (in- and out-roles differ), and
   idempotence of the per-level broadcast pass for BROADCAST collections (needs the hypothesis that the body's
   broadcast outputs on an already initialised scope are that scope's broadcast collections).
   Tied by the correspondence run (flat-loop oracle) in those cases. -/
theorem remat_scan_eq_nested_loops_partial {α : Type} [Inhabited α] (rc : RematCfg) (verdict : Bool)
    (body : Body α) (lengths : List Nat) (m : LFilter) (v : Vars α) (r : Rngs) (c xs : List (Arr α)) :
    opt (rematScan rc verdict body lengths m v r c xs) =
      (nestedLoops rc verdict body lengths m v r c).map (fun x => (x.1, x.2, [])) :=
  rematScan_opt rc verdict body lengths m v r c xs

end Flax.C06
