/-
C18 — Linen <-> NNX bridge wrappers behave like the module they wrap.

Property theorems over `Flax/Model/Bridge.lean`. Helper lemmas live in `Flax/Proofs/Bridge*.lean`.
Reading guide:
  * `leafAtF d p` is the leaf of the nested dict `d` at path `p`; `Equiv a b` (same leaf at every path)
    is equality of Python dicts up to empty sub-dicts (dict equality ignores insertion order);
  * `WFF` (keys distinct at every level) is the representation invariant of Python dicts;
  * `VarsOk r V` / `AttrsOk r A` are the well-formedness conditions the generator's valid stream satisfies:
    collections are dicts without empty sub-dicts, leaves are boxes `to_linen_var` can produce, attribute
    paths of different collections neither coincide nor nest.
-/
import Flax.Proofs.BridgeExample
import Flax.Proofs.BridgeHier
import Flax.Proofs.BridgeRng
import Flax.Proofs.BridgeAxis

namespace Flax.C18
open Flax.Bridge

variable {α ι ο μ : Type}

/-! ## what `Equiv` means -/

/-- **`Equiv` is equality of the flattened dicts as finite maps**: two dicts with distinct keys have the
same leaf at every path exactly when `flatten_mapping` gives the same set of `(path, leaf)` items for
both (each path once; a Python dict compares equal regardless of insertion order). -/
theorem equiv_iff_same_flat_dict (a b : Forest α) (ha : WFF a) (hb : WFF b) :
    Equiv a b ↔ (flattenF a).Perm (flattenF b) := by
  have nd : ∀ (f : Forest α), WFF f → (flattenF f).Nodup := fun f hf =>
    nodup_of_map Prod.fst _ (flattenF_nodup f hf)
  rw [List.perm_ext_iff_of_nodup (nd a ha) (nd b hb)]
  constructor
  · intro h pb
    rw [show pb = (pb.1, pb.2) from rfl, flattenF_mem a ha, flattenF_mem b hb, h pb.1]
  · intro h q
    apply option_ext
    intro x
    rw [← flattenF_mem a ha, ← flattenF_mem b hb]
    exact h (q, x)

/-! ## tree transpositions are mutually inverse -/

/-- **variables → attributes → variables is the identity** (collection-major Linen variables through
`linen_vars_to_nnx_attrs` and back through `nnx_attrs_to_linen_vars`), for every variables dict that
satisfies `VarsOk` and every one-to-one registry. Unknown collection names are registered on the way
(the registry only grows and stays one-to-one). Moreover every attribute leaf is a Variable of the type
registered for the collection it came from, holds the same array, and carries the axis names of a
`Partitioned` box as its `sharding` metadata. -/
theorem vars_attrs_inverse (r : Reg) (hi : r.Inj) (hb : r.Bounded) (V : Forest (LBox α)) (hV : VarsOk r V) :
    ∃ r' A V', linenVarsToNnxAttrs r V = .ok (r', A) ∧ nnxAttrsToLinenVars r' A = .ok V' ∧
      Equiv V' V ∧ WFF V' ∧ NoEmptyF V' ∧ WFF A ∧
      r'.Inj ∧ (∀ e ∈ r.cache, e ∈ r'.cache) ∧
      (∀ q v, leafAtF A q = some v →
        ∃ c x, leafAtF V (c :: q) = some x ∧ r'.typeOf c = some v.vtype ∧ v.value = x.value ∧
          (∀ n, x.names? = some n → Meta.get? v.md "sharding" = some n)) := by
  obtain ⟨r', A, V', h1, h2, h3, _, h5, h6, h7, h8, h9, h10⟩ := vars_attrs_vars r hi hb V hV
  refine ⟨r', A, V', h1, h2, h9, h7, h8, h6, h3, h5, ?_⟩
  intro q v hl
  obtain ⟨c, x, a, b, c', d, _⟩ := h10 q v hl
  exact ⟨c, x, a, b, c', d⟩

/-- **attributes → variables → attributes is the identity**, for every attribute tree of Variables that
`to_nnx_var` can produce whose types are registered; the registry is left as it was, and every Linen leaf
sits in the collection named after its Variable's type. -/
theorem attrs_vars_inverse (r : Reg) (hi : r.Inj) (hb : r.Bounded) (A : Forest (NVar α)) (hA : AttrsOk r A) :
    ∃ V A', nnxAttrsToLinenVars r A = .ok V ∧ linenVarsToNnxAttrs r V = .ok (r, A') ∧ Equiv A' A ∧
      WFF A' ∧ WFF V ∧ NoEmptyF V ∧
      (∀ c q x, leafAtF V (c :: q) = some x →
        ∃ v, leafAtF A q = some v ∧ r.nameOf v.vtype = some c ∧ v.value = x.value) := by
  obtain ⟨V, A', h1, h2, h3, h4, h5, h6, h7⟩ := attrs_vars_attrs r hi hb A hA
  exact ⟨V, A', h1, h2, h6, h5, h3.wf, h4, h7⟩

/-- the `VarsOk` guard is not decoration: a variable `x` in `params` and a variable `x` in `batch_stats` of
the same module end up in one attribute, and the later collection (sorted order) silently wins -/
theorem name_clash_loses_a_variable :
    let r : Reg := ⟨[("params", .user 0 "Param"), ("batch_stats", .user 1 "BatchStat")], 0⟩
    let V : Forest (LBox Nat) := [("params", .node [("x", .leaf (.plain 1))]),
                                   ("batch_stats", .node [("x", .leaf (.plain 2))])]
    (linenVarsToNnxAttrs r V).toOption.map (fun p => leafAtF p.2 ["x"])
      = some (some ⟨.user 0 "Param", 1, []⟩) := by
  decide

/-! ## registry -/

/-- **the name ↔ type registry is a bijection** in every state reachable from a one-to-one registry by
any history of `variable_type_from_name`, `variable_name_from_type` and `register_variable_name` calls
(with any flags, failing calls included) in which no call mentions a class that does not exist yet and
no class is registered under a second name. -/
theorem registry_bijection (r0 : Reg) (h0 : r0.Inj) (hb0 : r0.Bounded) (ops : List RegOp)
    (hg : Guarded r0 ops) :
    (∀ n t, (r0.run ops).typeOf n = some t → (r0.run ops).nameOf t = some n) ∧
    (∀ t n, (r0.run ops).nameOf t = some n → (r0.run ops).typeOf n = some t) :=
  Reg.bijection_of_inj _ (Reg.run_inj ops r0 h0 hb0 hg).1

/-- flax's own initial registry -/
def builtinReg : Reg :=
  ⟨[("params", .user 0 "Param"), ("batch_stats", .user 1 "BatchStat"), ("cache", .user 2 "Cache"),
    ("intermediates", .user 3 "Intermediate"), ("perturbations", .user 4 "Perturbation")], 0⟩

theorem builtinReg_ok : builtinReg.Inj ∧ builtinReg.Bounded := by
  refine ⟨⟨by decide, by decide⟩, ?_⟩
  intro e he s n hs
  simp only [builtinReg, List.mem_cons, List.not_mem_nil, or_false] at he
  rcases he with rfl | rfl | rfl | rfl | rfl <;> cases hs

/-- a history the guard accepts: a new collection name, a user class registered by its `__name__`, an
explicit registration, a failing duplicate registration, an overwrite -/
example : Guarded builtinReg
    [.typeFromName "counter" true, .nameFromType (.user 9 "Counter") true,
     .register "losses" (.user 10 "Loss") false, .register "params" (.user 11 "P2") false,
     .register "losses" (.user 12 "Loss2") true, .typeFromName "nope" false] := by
  have user : ∀ (r : Reg) (n : String) (i : Nat) (nm : String) (ow : Bool),
      (∀ e ∈ r.cache, e.2 = VType.user i nm → e.1 = n) → (RegOp.register n (.user i nm) ow).Guard r :=
    fun r n i nm ow h => ⟨fun s n' hs => (by cases hs), fun n' hm => h (n', _) hm rfl⟩
  simp only [Guarded]
  refine ⟨trivial, fun s n h => (by cases h), ?_, ?_, ?_, trivial, trivial⟩
  · exact user _ _ _ _ _ (by decide)
  · exact user _ _ _ _ _ (by decide)
  · exact user _ _ _ _ _ (by decide)

/-- the guard is needed, and `register_variable_name` does not enforce it: registering `Param` under a
second name is accepted, after which the collection `alias` converts to `Param` Variables that convert
back into the collection `params` -/
theorem register_alias_breaks_bijection :
    ∃ r, builtinReg.register "alias" (.user 0 "Param") false = .ok r ∧
      r.typeOf "alias" = some (.user 0 "Param") ∧ r.nameOf (.user 0 "Param") = some "params" := by
  exact ⟨_, rfl, by decide, by decide⟩

private theorem typeOf_setAssoc (l : List (String × VType)) (n : String) (t : VType) (nx : Nat) :
    Reg.typeOf ⟨setAssoc l n t, nx⟩ n = some t := by
  induction l with
  | nil => simp [setAssoc, Reg.typeOf]
  | cons hd r ih =>
    obtain ⟨k0, v0⟩ := hd
    unfold setAssoc
    by_cases h : n = k0
    · subst h; simp [Reg.typeOf]
    · have h' : ¬ k0 = n := fun e => h e.symm
      simp only [h, ↓reduceIte, Reg.typeOf, List.find?_cons, h', decide_false]
      exact ih

/-- **`to_nnx_var` asks the registry as it is now, for every collection name**: the Variable made for a
leaf of collection `col` has the type the current registry gives `col` (standard names are not special),
in particular the type a caller has just put there with `register_variable_name(col, T, overwrite=True)`;
an unknown name is registered on the way and afterwards names the Variable's type. -/
theorem to_nnx_var_uses_registry (r : Reg) (col : String) (x : LBox α) (r' : Reg) (v : NVar α)
    (h : toNnxVar r col x = .ok (r', v)) :
    r'.typeOf col = some v.vtype ∧
    (∀ t, r.typeOf col = some t → v.vtype = t ∧ r' = r) ∧
    (∀ (r0 : Reg) (t : VType) (ow : Bool), r0.register col t ow = .ok r → v.vtype = t) := by
  simp only [toNnxVar, bind_ok, pure, Except.pure, Except.ok.injEq, Prod.mk.injEq] at h
  obtain ⟨⟨r1, t1⟩, htf, v1, hconv, rfl, rfl⟩ := h
  have hv : v1.vtype = t1 := by
    cases x with
    | nnxMeta vt a md =>
      simp only [toNnxVarWith] at hconv
      split at hconv
      · rename_i e; cases hconv; exact e.symm
      · cases hconv
    | plain a => cases hconv; rfl
    | partitioned a n m => cases hconv; rfl
    | logical a n m ru => cases hconv; rfl
    | box c a f => cases hconv; rfl
  have hcur : ∀ t, r.typeOf col = some t → t1 = t ∧ r1 = r := by
    intro t ht
    simp only [Reg.typeFromName, ht, Except.ok.injEq, Prod.mk.injEq] at htf
    exact ⟨htf.2.symm, htf.1.symm⟩
  refine ⟨?_, ?_, ?_⟩
  · rw [hv]
    cases ht : r.typeOf col with
    | some t => obtain ⟨rfl, rfl⟩ := hcur t ht; exact ht
    | none =>
      simp only [Reg.typeFromName, ht, ↓reduceIte, Except.ok.injEq, Prod.mk.injEq] at htf
      obtain ⟨rfl, rfl⟩ := htf
      have hnone : (r.cache.find? fun e => e.1 = col) = none := by
        simpa [Reg.typeOf] using ht
      simp [Reg.typeOf, List.find?_append, hnone]
  · intro t ht; rw [hv]; exact hcur t ht
  · intro r0 t ow hreg
    rw [hv]
    have : r.typeOf col = some t := by
      unfold Reg.register at hreg
      split at hreg
      · cases hreg
      · simp only [Except.ok.injEq] at hreg; subst hreg; exact typeOf_setAssoc _ _ _ _
    exact (hcur t this).1

/-- re-pointing a standard name: after `register_variable_name('cache', KVCache, overwrite=True)` a leaf
of collection `cache` becomes a `KVCache` Variable, and the name ↔ type round trip holds for it -/
example : ∃ r, builtinReg.register "cache" (.user 30 "KVCache") true = .ok r ∧
    ((toNnxVar r "cache" (LBox.plain (7 : Nat))).toOption.map fun p => (p.2.vtype, p.1.nameOf p.2.vtype))
      = some (.user 30 "KVCache", some "cache") := ⟨_, rfl, by decide⟩

/-! ## variable boxes -/

/-- **box round trip**: `to_linen_var(to_nnx_var(col, x)) = x` for plain arrays, `Partitioned`,
`LogicallyPartitioned`, `NNXMeta` and generic metadata boxes; the Variable has the collection's type and
the same array; axis names become the `sharding` metadata. -/
theorem box_roundtrip (t : VType) (x : LBox α) (h : x.Ok t) :
    ∃ v, toNnxVarWith t x = .ok v ∧ v.vtype = t ∧ v.value = x.value ∧ toLinenVar v = .ok x ∧
      (∀ n, x.names? = some n → Meta.get? v.md "sharding" = some n) :=
  box_roundtrip_aux t x h

/-- the converse: `to_nnx_var(col, to_linen_var(v)) = v` for every Variable `to_nnx_var` can produce -/
theorem var_roundtrip (v : NVar α) (h : v.Canon) :
    ∃ x, toLinenVar v = .ok x ∧ x.Ok v.vtype ∧ toNnxVarWith v.vtype x = .ok v :=
  var_roundtrip_aux v h

example : (LBox.partitioned (7 : Nat) (.names [some "a", none]) .none).Ok (.user 0 "Param") := trivial
example : (LBox.nnxMeta (.user 0 "Param") (7 : Nat) [("tag", .str "x")]).Ok (.user 0 "Param") := by
  refine ⟨rfl, by decide, by decide⟩
example : (⟨.user 0 "Param", (7 : Nat), [("tagx", .str "zz"), ("linen_meta_type", .cls "MyBox")]⟩ : NVar Nat).Canon :=
  Or.inr (Or.inr (Or.inr (Or.inr ⟨"MyBox", [("tagx", .str "zz")], rfl, by decide, by decide, by decide⟩)))

/-- the excluded `NNXMeta` boxes are really excluded: blank metadata comes back as a plain array -/
theorem nnxmeta_blank_not_roundtrip :
    (toNnxVarWith (.user 0 "Param") (LBox.nnxMeta (.user 0 "Param") (7 : Nat) [])).toOption.bind
      (fun v => (toLinenVar v).toOption) = some (.plain 7) := by decide

/-- **`to_nnx_var` does not write its argument** (after the repair of finding F4: `dict(vars(self))`) -/
theorem to_nnx_metadata_frame (o : BoxObj α) : (toNnxMetadata o).2 = o := rfl

/-- the shipped `Partitioned.to_nnx_metadata` popped `names` out of the caller's box -/
theorem orig_to_nnx_metadata_mutates :
    let o : BoxObj Nat := ⟨7, [("names", .names [some "a"]), ("mesh", .none)]⟩
    Meta.get? (toNnxMetadataOrig o).2.attrs "names" = none ∧
    (toNnxMetadataOrig o).1 = (toNnxMetadata o).1 := by decide

/-- the shipped `to_linen_var` could not give back a generic metadata box at all (`linen_meta_type` was
passed to the box constructor): every such Variable was rejected (found while building this check;
repaired by the second `fix:` commit of C18) -/
theorem orig_generic_box_rejected (t : VType) (c : String) (v : α) (fields : Meta)
    (h : (LBox.box c v fields).Ok t) :
    ∃ w, toNnxVarWith t (.box c v fields) = .ok w ∧ toLinenVarOrig w = .error .badBox := by
  obtain ⟨h1, h2, h3⟩ := h
  refine ⟨⟨t, v, fields ++ [("linen_meta_type", .cls c)]⟩, rfl, ?_⟩
  have hg : Meta.get? (fields ++ [("linen_meta_type", MetaVal.cls c)]) "linen_meta_type" = some (.cls c) := by
    rw [Meta.get?_append, h3]; simp [Meta.get?]
  simp only [toLinenVarOrig, hg]
  simp [h1, h2]

/-! ## merging `mutable` updates -/

/-- **`_recursive_merge`: later wins per leaf, every other leaf is kept** — for all dicts whose leaf
paths do not nest properly -/
theorem recursive_merge_per_leaf (a b : Forest α) (ha : WFF a) (hb : WFF b) (hc : Compat a b) :
    ∃ g, recursiveMerge a b = .ok g ∧ WFF g ∧
      (∀ q x, leafAtF b q = some x → leafAtF g q = some x) ∧
      (∀ q, leafAtF b q = none → leafAtF g q = leafAtF a q) := by
  obtain ⟨g, h1, h2, h3, _⟩ := recursiveMerge_spec a b ha hb hc
  exact ⟨g, h1, h3, fun q x h => by rw [h2, h]; rfl, fun q h => by rw [h2, h]; rfl⟩

/-- **the updates of a `mutable` call are merged into the wrapper leaf by leaf**: every updated leaf is
stored (as a Variable of the type registered for its collection, same array, converting back to the
update), every leaf the update does not mention keeps its Variable -/
theorem merge_updates_per_leaf (s : ToNNX α) (hi : s.reg.Inj) (hb : s.reg.Bounded) (hw : WFF s.attrs)
    (U : Forest (LBox α)) (hU : VarsOk s.reg U)
    (hc : ∀ q q', leafAtF s.attrs q ≠ none → (∃ c, leafAtF U (c :: q') ≠ none) →
      (q <+: q' ∨ q' <+: q) → q = q') :
    ∃ s', s.absorb U = .ok s' ∧ WFF s'.attrs ∧ s'.rngs = s.rngs ∧ s'.reg.Inj ∧
      (∀ c q x, leafAtF U (c :: q) = some x →
        ∃ v, leafAtF s'.attrs q = some v ∧ s'.reg.typeOf c = some v.vtype ∧ v.value = x.value ∧
          toLinenVar v = .ok x) ∧
      (∀ q, (∀ c, leafAtF U (c :: q) = none) → leafAtF s'.attrs q = leafAtF s.attrs q) := by
  obtain ⟨s', h1, h2, _, _, h5, h6, _, h8, h9⟩ := absorb_spec s hi hb hw U hU hc
  refine ⟨s', h1, h6, h5, h2, ?_, h9⟩
  intro c q x hx
  obtain ⟨v, a, b, c', d, _⟩ := h8 c q x hx
  exact ⟨v, a, b, c', d⟩

/-- the wrapper of finding F13's report: `Net → Block → (Dense, BatchNorm)` after `lazy_init` -/
def f13State : ToNNX Nat :=
  { attrs := [("Block_0", .node [("BatchNorm_0", .node [("bias", .leaf ⟨.user 0 "Param", 0, []⟩),
                                                         ("mean", .leaf ⟨.user 1 "BatchStat", 0, []⟩),
                                                         ("scale", .leaf ⟨.user 0 "Param", 1, []⟩),
                                                         ("var", .leaf ⟨.user 1 "BatchStat", 1, []⟩)]),
                                  ("Dense_0", .node [("kernel", .leaf ⟨.user 0 "Param", 5, []⟩)])])],
    reg := builtinReg, rngs := ⟨[], 0⟩ }

/-- the updates of one call with `mutable=['batch_stats']` -/
def f13Updates : Forest (LBox Nat) :=
  [("batch_stats", .node [("Block_0", .node [("BatchNorm_0", .node [("mean", .leaf (.plain 3)),
                                                                     ("var", .leaf (.plain 4))])])])]

/-- **finding F13**: the shipped shallow `original_tree | value` dropped `scale` and `bias` of a
BatchNorm nested two levels deep; the repaired merge keeps them and stores the new statistics -/
theorem shallow_merge_loses_leaves :
    ((f13State.absorbOrig f13Updates).toOption.map fun s =>
        (leafAtF s.attrs ["Block_0", "BatchNorm_0", "scale"], leafAtF s.attrs ["Block_0", "BatchNorm_0", "mean"]))
      = some (none, some ⟨.user 1 "BatchStat", 3, []⟩) ∧
    ((f13State.absorb f13Updates).toOption.map fun s =>
        (leafAtF s.attrs ["Block_0", "BatchNorm_0", "scale"], leafAtF s.attrs ["Block_0", "BatchNorm_0", "mean"],
         leafAtF s.attrs ["Block_0", "Dense_0", "kernel"]))
      = some (some ⟨.user 0 "Param", 1, []⟩, some ⟨.user 1 "BatchStat", 3, []⟩, some ⟨.user 0 "Param", 5, []⟩) := by
  decide

/-! ## ToNNX refines plain Linen use of the wrapped module -/

/-- **a call returns what `apply` returns on the variables the wrapper holds** (with the keys drawn from
the wrapper's `rngs`), whatever the module -/
theorem tonnx_call_output (m : LinenMod α ι ο μ) (s : ToNNX α) (mu : Option μ) (x : ι) (o : ο) (s' : ToNNX α)
    (h : s.call m mu x = .ok (o, s')) :
    ∃ V U, s.heldVars = .ok V ∧ m.apply V s.rngs.draw.1 mu x = .ok (o, U) ∧ s'.rngs = s.rngs.draw.2 ∧
      (mu = none → s'.attrs = s.attrs) := by
  simp only [ToNNX.call, bind_ok] at h
  obtain ⟨V, hV, ⟨o1, U⟩, happ, h⟩ := h
  refine ⟨V, U, hV, ?_⟩
  cases mu with
  | none =>
    simp only [pure, Except.pure, Except.ok.injEq, Prod.mk.injEq] at h
    obtain ⟨rfl, rfl⟩ := h
    exact ⟨happ, rfl, fun _ => rfl⟩
  | some mv =>
    simp only [bind_ok, pure, Except.pure, Except.ok.injEq, Prod.mk.injEq] at h
    obtain ⟨s1, habs, rfl, rfl⟩ := h
    refine ⟨happ, ?_, fun e => by cases e⟩
    simp only [ToNNX.absorb, bind_ok, pure, Except.pure, Except.ok.injEq] at habs
    obtain ⟨_, _, _, _, rfl⟩ := habs
    rfl

private theorem absorb_rngs (s s' : ToNNX α) (U : Forest (LBox α)) (h : s.absorb U = .ok s') : s'.rngs = s.rngs := by
  simp only [ToNNX.absorb, bind_ok, pure, Except.pure, Except.ok.injEq] at h
  obtain ⟨_, _, _, _, rfl⟩ := h
  rfl

/-- **which `Rngs` the keys come from**: a call that is handed a non-empty `rngs=` draws the keys for
`apply` from *that* object — one key per stream, the object's counters advance by one, every key carries its
identity — and leaves the wrapper's own streams untouched; a call without (or with an empty) `rngs=` draws
from the wrapper's own `rngs`, which advance, and is the same as `ToNNX.call`. -/
theorem tonnx_call_uses_given_rngs (m : LinenMod α ι ο μ) (s : ToNNX α) (given : Option Rngs) (mu : Option μ) (x : ι)
    (o : ο) (s' : ToNNX α) (given' : Option Rngs) (h : s.callR m given mu x = .ok (o, s', given')) :
    (∀ g, given = some g → g.streams ≠ [] →
      ∃ V U, s.heldVars = .ok V ∧ m.apply V g.draw.1 mu x = .ok (o, U) ∧ given' = some g.draw.2 ∧
        s'.rngs = s.rngs ∧ ∀ e ∈ g.draw.1, e.2.src = g.src) ∧
    ((given = none ∨ ∃ g, given = some g ∧ g.streams = []) →
      ∃ V U, s.heldVars = .ok V ∧ m.apply V s.rngs.draw.1 mu x = .ok (o, U) ∧ given' = given ∧
        s'.rngs = s.rngs.draw.2 ∧ s.call m mu x = .ok (o, s')) := by
  simp only [ToNNX.callR, bind_ok] at h
  obtain ⟨V, hV, ⟨o1, U⟩, happ, h⟩ := h
  refine ⟨?_, ?_⟩
  · intro g hg hne
    subst hg
    have hc : chooseRngs (some g) = true := by
      simp only [chooseRngs, Bool.not_eq_true', List.isEmpty_eq_false_iff]; exact hne
    simp only [hc, ↓reduceIte, Option.getD_some] at happ h
    refine ⟨V, U, hV, ?_, ?_, ?_, ?_⟩
    · cases mu with
      | none => simp only [pure, Except.pure, Except.ok.injEq, Prod.mk.injEq] at h; rw [← h.1]; exact happ
      | some mv =>
        simp only [bind_ok, pure, Except.pure, Except.ok.injEq, Prod.mk.injEq] at h
        obtain ⟨_, _, rfl, _⟩ := h; exact happ
    · cases mu with
      | none => simp only [pure, Except.pure, Except.ok.injEq, Prod.mk.injEq] at h; exact h.2.2.symm
      | some mv =>
        simp only [bind_ok, pure, Except.pure, Except.ok.injEq, Prod.mk.injEq] at h
        obtain ⟨_, _, _, _, rfl⟩ := h; rfl
    · cases mu with
      | none => simp only [pure, Except.pure, Except.ok.injEq, Prod.mk.injEq] at h; rw [← h.2.1]
      | some mv =>
        simp only [bind_ok, pure, Except.pure, Except.ok.injEq, Prod.mk.injEq] at h
        obtain ⟨s1, habs, _, rfl, _⟩ := h
        exact absorb_rngs _ _ U habs
    · intro e he
      simp only [Rngs.draw, List.mem_map] at he
      obtain ⟨nc, _, rfl⟩ := he; rfl
  · intro hg
    have hc : chooseRngs given = false := by
      rcases hg with rfl | ⟨g, rfl, hge⟩
      · rfl
      · simp [chooseRngs, hge]
    simp only [hc, Bool.false_eq_true, ↓reduceIte] at happ h
    refine ⟨V, U, hV, ?_⟩
    cases mu with
    | none =>
      simp only [pure, Except.pure, Except.ok.injEq, Prod.mk.injEq] at h
      obtain ⟨rfl, rfl, rfl⟩ := h
      refine ⟨happ, rfl, rfl, ?_⟩
      simp only [ToNNX.call, hV, bind, Except.bind, happ, pure, Except.pure]
    | some mv =>
      simp only [bind_ok, pure, Except.pure, Except.ok.injEq, Prod.mk.injEq] at h
      obtain ⟨s1, habs, rfl, rfl, rfl⟩ := h
      refine ⟨happ, rfl, by rw [absorb_rngs _ _ U habs], ?_⟩
      simp only [ToNNX.call, hV, bind, Except.bind, happ, pure, Except.pure]
      have habs' : ({ attrs := s.attrs, reg := s.reg, rngs := s.rngs.draw.snd } : ToNNX α).absorb U = .ok s1 := habs
      rw [habs']

/-- **`lazy_init`** returns `init`'s output; afterwards the wrapper is in step with a caller who keeps
`init`'s variables, and every collection is stored under the Variable type registered for it (same
array, axis names as `sharding`) -/
theorem tonnx_lazy_init (m : LinenMod α ι ο μ) (hm : ModOk m) (s : ToNNX α) (hi : s.reg.Inj) (hb : s.reg.Bounded)
    (hempty : s.attrs = []) (x : ι) (o : ο) (V : Forest (LBox α))
    (hinit : m.init (renameDefault s.rngs.draw.1) x = .ok (o, V)) :
    ∃ s', s.lazyInit m x = .ok (o, s') ∧ Sim s' { vars := V, rngs := s.rngs.draw.2 } ∧
      (∀ q v, leafAtF s'.attrs q = some v →
        ∃ c b, leafAtF V (c :: q) = some b ∧ s'.reg.typeOf c = some v.vtype ∧ v.value = b.value ∧
          (∀ n, b.names? = some n → Meta.get? v.md "sharding" = some n)) := by
  obtain ⟨s', h1, h2, h3⟩ := lazyInit_sim m hm s hi hb hempty x o V hinit
  refine ⟨s', h1, h2, ?_⟩
  intro q v hl
  obtain ⟨c, b, a1, a2, a3, a4, _⟩ := h3 q v hl
  exact ⟨c, b, a1, a2, a3, a4⟩

/-- **ToNNX refines Linen, for every module and every sequence of calls**: started in step (`Sim`, as
`lazy_init` leaves them), the wrapper returns on every history of calls — `mutable` on or off per call —
exactly the outputs a Linen user gets who applies the module to variables he keeps himself and merges
the returned updates into them leaf by leaf; and they are in step again afterwards, so the wrapper holds
(up to dict order) the variables the Linen user holds. -/
theorem tonnx_refines_linen (m : LinenMod α ι ο μ) (hm : ModOk m) (hist : List (Option μ × ι))
    (s : ToNNX α) (ref : LinenRef α) (hsim : Sim s ref) (outs : List ο) (ref' : LinenRef α)
    (h : runRef m ref hist = .ok (outs, ref')) :
    ∃ s', runWrapper m s hist = .ok (outs, s') ∧ Sim s' ref' :=
  run_sim m hm hist s ref hsim outs ref' h

/-- non-vacuity of the refinement: the toy module (`y = w·x + c`, the counter `c` goes up on `mutable`
calls) satisfies `ModOk`; `lazy_init` of an empty wrapper puts it in step with a Linen user, and the
theorem then applies to a history with `mutable` on, off, on -/
example : ∃ s, Sim s ⟨toyVars 2 0, (⟨[("params", 0)], 0⟩ : Rngs).draw.2⟩ ∧
    ∃ s', runWrapper toyMod s [(some (), 3), (none, 4), (some (), 5)] = .ok ([6, 9, 11], s') := by
  have hreg := builtinReg_ok
  obtain ⟨s, _, hsim, _⟩ := tonnx_lazy_init toyMod toyMod_ok ⟨[], builtinReg, ⟨[("params", 0)], 0⟩⟩ hreg.1 hreg.2 rfl
    1 2 (toyVars 2 0) rfl
  refine ⟨s, hsim, ?_⟩
  have href : ∃ ref', runRef toyMod ⟨toyVars 2 0, (⟨[("params", 0)], 0⟩ : Rngs).draw.2⟩
      [(some (), 3), (none, 4), (some (), 5)] = .ok ([6, 9, 11], ref') := by
    have hd : (runRef toyMod ⟨toyVars 2 0, (⟨[("params", 0)], 0⟩ : Rngs).draw.2⟩
        [(some (), 3), (none, 4), (some (), 5)]).toOption.map Prod.fst = some [6, 9, 11] := by decide
    cases hr : runRef toyMod ⟨toyVars 2 0, (⟨[("params", 0)], 0⟩ : Rngs).draw.2⟩
        [(some (), 3), (none, 4), (some (), 5)] with
    | error e => rw [hr] at hd; simp [Except.toOption] at hd
    | ok p =>
      rw [hr] at hd
      simp only [Except.toOption, Option.map_some, Option.some.injEq] at hd
      exact ⟨p.2, by rw [← hd]⟩
  obtain ⟨ref', href⟩ := href
  obtain ⟨s', hs', _⟩ := tonnx_refines_linen toyMod toyMod_ok _ s _ hsim _ ref' href
  exact ⟨s', hs'⟩

example : VarsOk builtinReg (toyVars 2 0) ∧ AttrsOk builtinReg f13State.attrs := by
  refine ⟨toyVars_ok _ 2 0, by simp [f13State, WFF, Tree.WF, dkeys], ?_, ?_⟩
  · intro q v h
    have := flattenF_complete _ q v h
    simp [f13State, flattenF, Tree.flatten] at this
    rcases this with ⟨_, rfl⟩ | ⟨_, rfl⟩ | ⟨_, rfl⟩ | ⟨_, rfl⟩ | ⟨_, rfl⟩ <;> exact Or.inl rfl
  · intro q v h
    have := flattenF_complete _ q v h
    simp [f13State, flattenF, Tree.flatten] at this
    rcases this with ⟨_, rfl⟩ | ⟨_, rfl⟩ | ⟨_, rfl⟩ | ⟨_, rfl⟩ | ⟨_, rfl⟩ <;>
      first | exact ⟨"params", by decide⟩ | exact ⟨"batch_stats", by decide⟩

/-! ## ToLinen -/

/-- **what `ToLinen` exposes**: `_update_variables` puts every Variable of the NNX state at its own path
under the collection named after its type, converted with `to_linen_var` (same array), and only into
mutable collections; nothing else is put. The registry is untouched when the types are registered. -/
theorem tolinen_exposes_by_type (r : Reg) (isMutable : String → Bool) (S : Forest (NVar α)) (hS : AttrsOk r S) :
    ∃ U, encodeState r isMutable S = .ok (r, U) ∧ WFF U ∧
      ∀ c q x, leafAtF U (c :: q) = some x ↔
        (isMutable c = true ∧ ∃ v, leafAtF S q = some v ∧ r.nameOf v.vtype = some c ∧ toLinenVar v = .ok x) := by
  obtain ⟨U, h1, h2, _, h4⟩ := encodeState_spec r isMutable S hS.wf (by
    intro q v hl
    obtain ⟨n, hn⟩ := hS.named q v hl
    obtain ⟨x, hx, _⟩ := var_roundtrip_aux v (hS.canon q v hl)
    exact ⟨n, x, hn, hx⟩)
  refine ⟨U, h1, h2, ?_⟩
  intro c q x
  rw [h4]
  constructor
  · rintro ⟨c', q', v, hp, hl, hn, hx, hm⟩
    simp only [List.cons.injEq] at hp
    obtain ⟨rfl, rfl⟩ := hp
    exact ⟨hm, v, hl, hn, hx⟩
  · rintro ⟨hm, v, hl, hn, hx⟩
    exact ⟨c, q, v, rfl, hl, hn, hx, hm⟩

/-- **exact type, not a base**: `_update_variables` sorts the state's Variable types most-derived-first
(`sort_variable_types`) and splits by first match; over every class hierarchy in which a proper base
class has a strictly shorter MRO, every Variable falls into the bucket of its *own* type — so a Variable of
a sub-class `S` of `T` is exposed under the collection named after `S` and never under `T`'s, whichever of
the two collections is mutable — and the bucketed `_update_variables` is `encodeState`, to which
`tolinen_exposes_by_type` applies. -/
theorem tolinen_exposes_by_exact_type (h : Hier) (hh : HierOk h) (r : Reg) (isMutable : String → Bool)
    (S : Forest (NVar α)) :
    (∀ q v, leafAtF S q = some v →
      bucketOf h (sortVariableTypes h (typesOf S)) v.vtype = some v.vtype) ∧
    encodeStateTyped h r isMutable S = encodeState r isMutable S := by
  refine ⟨?_, encodeStateTyped_eq h hh r isMutable S⟩
  intro q v hl
  exact bucket_exact h hh _ _ (mem_typesOf S (q, v) (flattenF_complete S q v hl))

/-- a hierarchy `BatchStat ⊃ SubStat ⊃ SubSubStat` satisfies the hypothesis; sorted ascending instead
(the order a careless edit would produce) the sub-class Variable lands in the base bucket -/
example :
    let bs := VType.user 1 "BatchStat"; let s := VType.user 20 "SubStat"; let ss := VType.user 21 "SubSubStat"
    let h : Hier := ⟨fun t => if t = ss then [ss, s, bs] else if t = s then [s, bs] else [t]⟩
    HierOk h ∧ bucketOf h (sortVariableTypes h [bs, ss, s]) ss = some ss ∧ bucketOf h [bs, s, ss] ss = some bs := by
  refine ⟨⟨?_, ?_⟩, by decide, by decide⟩
  · intro t; simp only; split
    · simp [*]
    · split <;> simp [*]
  · intro a b hb hne
    simp only [Hier.count] at *
    split at hb
    · rename_i h1; subst h1
      simp only [List.mem_cons, List.not_mem_nil, or_false] at hb
      rcases hb with rfl | rfl | rfl
      · exact absurd rfl hne
      · decide
      · decide
    · split at hb
      · rename_i h1 h2; subst h2
        simp only [List.mem_cons, List.not_mem_nil, or_false] at hb
        rcases hb with rfl | rfl
        · exact absurd rfl hne
        · decide
      · simp only [List.mem_cons, List.not_mem_nil, or_false] at hb
        exact absurd hb hne

/-- **`sort_variable_types` puts every strict sub-type before its super-types**: with the key "number of
Variable classes anywhere in the MRO" (a proper base has strictly fewer), no class in the sorted list is
preceded by one of its proper bases — whatever else (plain mixins, in any position of the bases) the MRO
contains, since only the Variable classes are counted. -/
theorem sort_types_subtype_first (h : Hier) (hh : HierOk h) (types : List VType) :
    (sortVariableTypes h types).Pairwise fun a b => ¬ (h.isSub b a = true ∧ b ≠ a) := by
  refine List.Pairwise.imp ?_ (sortVariableTypes_spec h types).1
  intro a b hle ⟨hsub, hne⟩
  simp only [Hier.isSub, decide_eq_true_eq] at hsub
  have := hh.shorter b a hsub (fun e => hne e.symm)
  omega

/-- the key of a careless edit — count only the *leading run* of Variable classes in the MRO — is wrong
for `class Calib(Tagged, nnx.Param)` (MRO: Calib, Tagged, Param, Variable): Calib counts 1, Param 2, Param
sorts first and its filter takes the Calib Variables; with the real key Calib keeps its own bucket -/
example :
    let var := VType.user 40 "Variable"; let param := VType.user 0 "Param"; let calib := VType.user 41 "Calib"
    let h : Hier := ⟨fun t => if t = calib then [calib, param, var] else if t = param then [param, var] else [t]⟩
    let leadingRun : Hier := ⟨fun t => if t = calib then [calib] else if t = param then [param, var] else [t]⟩
    bucketOf h (sortVariableTypes h [param, calib]) calib = some calib ∧
    bucketOf h (sortVariableTypes leadingRun [param, calib]) calib = some param := by
  decide

/-- **state → Linen collections → state is the identity**: the state `ToLinen`'s apply path rebuilds from
the collections `_update_variables` wrote (all collections mutable) has the Variables of the original
state at the same paths; no type is named `nnx` (that collection holds the graph definition). -/
theorem tolinen_state_roundtrip (r : Reg) (hi : r.Inj) (hb : r.Bounded) (S : Forest (NVar α)) (hS : AttrsOk r S)
    (hnn : ∀ q v, leafAtF S q = some v → r.nameOf v.vtype ≠ some "nnx") :
    ∃ V S', encodeState r (fun _ => true) S = .ok (r, V) ∧ decodeVars r V = .ok (r, S') ∧ Equiv S' S := by
  have hconv : ∀ q v, leafAtF S q = some v → ∃ n x, r.nameOf v.vtype = some n ∧ toLinenVar v = .ok x ∧
      toNnxVarWith v.vtype x = .ok v := by
    intro q v hl
    obtain ⟨n, hn⟩ := hS.named q v hl
    obtain ⟨x, hx, _, hback⟩ := var_roundtrip_aux v (hS.canon q v hl)
    exact ⟨n, x, hn, hx, hback⟩
  obtain ⟨V, hV, hwV, hnV, hleafV⟩ := encodeState_spec r (fun _ => true) S hS.wf (by
    intro q v hl
    obtain ⟨n, x, hn, hx, _⟩ := hconv q v hl
    exact ⟨n, x, hn, hx⟩)
  have hleafV' : ∀ p x, leafAtF V p = some x ↔
      ∃ c q v, p = c :: q ∧ leafAtF S q = some v ∧ r.nameOf v.vtype = some c ∧ toLinenVar v = .ok x := by
    intro p x; rw [hleafV]; simp
  obtain ⟨hVok, hreg⟩ := varsOk_of_attrs r hi S hS V hwV hnV hleafV'
  obtain ⟨r', S', hdec, _, _, _, hsame, _, hleafS'⟩ := decodeVars_spec r hi hb V hVok
  have hr : r' = r := hsame hreg
  subst hr
  refine ⟨V, S', hV, hdec, ?_⟩
  intro q
  cases hq : leafAtF S q with
  | some v =>
    obtain ⟨n, x, hn, hx, hback⟩ := hconv q v hq
    exact (hleafS' q v).mpr ⟨n, x, v.vtype, fun e => hnn q v hq (e ▸ hn),
      (hleafV' _ x).mpr ⟨n, q, v, rfl, hq, hn, hx⟩, Reg.typeOf_of_nameOf r' hi n _ hn, hback⟩
  | none =>
    cases hq' : leafAtF S' q with
    | none => rfl
    | some v' =>
      obtain ⟨c, x, t, _, hl, _, _⟩ := (hleafS' q v').mp hq'
      obtain ⟨c', q', v, hp, hl', _⟩ := (hleafV' _ x).mp hl
      simp only [List.cons.injEq] at hp
      rw [← hp.2, hq] at hl'; cases hl'

/-- **an `apply` returns what the NNX module returns on the state rebuilt from the caller's collections**,
merged with the graph definition read from the `nnx` collection and reseeded with the keys Linen's
`make_rng` derives from the rngs of *this* apply call at the wrapper's scope; the new graph definition is
written back exactly when `nnx` is mutable -/
theorem tolinen_apply_output {γ : Type} (m : NnxMod α ι ο γ) (r : Reg) (path : Path) (lv : LinenVars α γ)
    (rngs : Keys) (isMutable : String → Bool) (x : ι) (o : ο) (r2 : Reg) (g? : Option γ) (upd : Forest (LBox α))
    (h : toLinenApply m r path lv rngs isMutable x = .ok (o, r2, g?, upd)) :
    ∃ g r1 S g' S', lv.gdef = some g ∧ decodeVars r lv.vars = .ok (r1, S) ∧
      m.call g (m.reseed S (linenRngsDict path rngs)) x = .ok (o, g', S') ∧
      encodeState r1 isMutable S' = .ok (r2, upd) ∧ g? = (if isMutable "nnx" then some g' else none) := by
  simp only [toLinenApply] at h
  cases hg : lv.gdef with
  | none => simp [hg, bind, Except.bind] at h
  | some g =>
    cases hdec : decodeVars r lv.vars with
    | error e => simp [hg, hdec, bind, Except.bind, pure, Except.pure] at h
    | ok p1 =>
      obtain ⟨r1, S⟩ := p1
      cases hcall : m.call g (m.reseed S (linenRngsDict path rngs)) x with
      | error e => simp [hg, hdec, hcall, bind, Except.bind, pure, Except.pure] at h
      | ok p2 =>
        obtain ⟨o1, g', S'⟩ := p2
        cases henc : encodeState r1 isMutable S' with
        | error e => simp [hg, hdec, hcall, henc, bind, Except.bind, pure, Except.pure] at h
        | ok p3 =>
          obtain ⟨r2', upd'⟩ := p3
          simp only [hg, hdec, hcall, henc, bind, Except.bind, pure, Except.pure, Except.ok.injEq, Prod.mk.injEq] at h
          obtain ⟨rfl, rfl, rfl, rfl⟩ := h
          exact ⟨g, r1, S, g', S', rfl, rfl, hcall, henc, rfl⟩

/-- **`init` of a ToLinen module** returns what the freshly constructed NNX module returns and leaves the
caller holding the graph definition and collections that expose the constructed state (`LSim`) -/
theorem tolinen_init {γ : Type} (m : NnxMod α ι ο γ) (r : Reg) (hi : r.Inj) (hb : r.Bounded) (path : Path)
    (rngs : Keys) (x : ι) (g : γ) (S : Forest (NVar α))
    (hc : m.construct (linenRngsDict path rngs) = .ok (g, S)) (hS : AttrsOk r S) (hnn : NoNnx r S)
    (o : ο) (g' : γ) (S' : Forest (NVar α)) (hcall : m.call g S x = .ok (o, g', S')) :
    ∃ lv, toLinenInit m r path rngs x = .ok (o, r, lv) ∧ LSim r lv ⟨g, S⟩ :=
  linit_sim m r hi hb path rngs x g S hc hS hnn o g' S' hcall

/-- **ToLinen refines NNX, for every module and every sequence of calls**: started in step (`LSim`, as `init`
leaves them), a Linen caller who applies the wrapper with per-call rngs and `mutable` filters and folds the
returned collections back into his variables leaf by leaf gets, on every history, exactly the outputs of
an NNX user who holds the module itself, reseeds it with the same derived keys, calls it, and keeps the new
values of the Variables whose collection was mutable (and the new graph definition when `nnx` was); they
are in step again afterwards: the caller's collections expose the user's state, each Variable under the
collection named after its exact type (`tolinen_exposes_by_exact_type`), and hold his graph definition. -/
theorem tolinen_refines_nnx {γ : Type} (m : NnxMod α ι ο γ) (hm : NModOk m) (r : Reg) (path : Path)
    (hist : List (LCall ι)) (lv : LinenVars α γ) (u : NnxUser α γ) (hsim : LSim r lv u)
    (outs : List ο) (u' : NnxUser α γ) (h : runNnxUser m r path u hist = .ok (outs, u')) :
    ∃ lv', runLinenCaller m r path lv hist = .ok (outs, lv') ∧ LSim r lv' u' :=
  lrun_sim m hm r path hist lv u hsim outs u' h

/-- non-vacuity: the toy NNX module (`y = w·x + c`, every call bumps `c` and the graph definition)
satisfies `NModOk`; `init` puts a caller in step, and the theorem applies to a history in which
`batch_stats` and `nnx` are mutable in turn -/
example : ∃ lv lv', LSim builtinReg lv ⟨0, toyNState⟩ ∧
    runLinenCaller toyN builtinReg [] lv
      [([], fun c => c == "batch_stats", 3), ([], fun _ => false, 4), ([], fun _ => true, 5)] = .ok ([6, 9, 11], lv') := by
  have hreg := builtinReg_ok
  have hS : AttrsOk builtinReg toyNState := by
    refine ⟨by simp [toyNState, WFF, Tree.WF, dkeys], ?_, ?_⟩
    · intro q v h
      have := flattenF_complete _ q v h
      simp [toyNState, flattenF, Tree.flatten] at this
      rcases this with ⟨_, rfl⟩ | ⟨_, rfl⟩ <;> exact Or.inl rfl
    · intro q v h
      have := flattenF_complete _ q v h
      simp [toyNState, flattenF, Tree.flatten] at this
      rcases this with ⟨_, rfl⟩ | ⟨_, rfl⟩
      · exact ⟨"params", by decide⟩
      · exact ⟨"batch_stats", by decide⟩
  have hnn : NoNnx builtinReg toyNState := by
    intro q v h
    have := flattenF_complete _ q v h
    simp [toyNState, flattenF, Tree.flatten] at this
    rcases this with ⟨_, rfl⟩ | ⟨_, rfl⟩ <;> decide
  obtain ⟨lv, _, hsim⟩ := tolinen_init toyN builtinReg hreg.1 hreg.2 [] [] 1 0 _ rfl hS hnn 2 1 _ rfl
  have href : ∃ u', runNnxUser toyN builtinReg [] ⟨0, toyNState⟩
      [([], fun c => c == "batch_stats", 3), ([], fun _ => false, 4), ([], fun _ => true, 5)] = .ok ([6, 9, 11], u') := by
    have hd : (runNnxUser toyN builtinReg [] ⟨0, toyNState⟩
        [([], fun c => c == "batch_stats", 3), ([], fun _ => false, 4), ([], fun _ => true, 5)]).toOption.map Prod.fst
        = some [6, 9, 11] := by decide
    cases hr : runNnxUser toyN builtinReg [] ⟨0, toyNState⟩
        [([], fun c => c == "batch_stats", 3), ([], fun _ => false, 4), ([], fun _ => true, 5)] with
    | error e => rw [hr] at hd; simp [Except.toOption] at hd
    | ok p =>
      rw [hr] at hd
      simp only [Except.toOption, Option.map_some, Option.some.injEq] at hd
      exact ⟨p.2, by rw [← hd]⟩
  obtain ⟨u', href⟩ := href
  obtain ⟨lv', hlv', _⟩ := tolinen_refines_nnx toyN toyN_ok builtinReg [] _ lv _ hsim _ u' href
  exact ⟨lv, lv', hsim, hlv'⟩

/-! ## random keys, as symbolic terms -/

/-- **ToLinen: no stale keys.** Whatever keys and counters the module's streams carried (from
construction or from an earlier call), after `apply`'s reseed the `j`-th key a stream named in the Linen
rngs hands out is `fold_in(make_rng-key of this apply's rngs at the wrapper's scope, j)`: a function of
the rngs passed to *this* call, the scope path and `j` only. Streams not named keep going. -/
theorem tolinen_reseed_fresh (ss : List (String × RngStream)) (path : Path) (rngs : Keys) (n : String) (s : RngStream)
    (hs : (n, s) ∈ ss) :
    (∀ k, (rngs.find? fun e => e.1 = n) = some (n, k) →
      ∃ s', (n, s') ∈ reseedStreams ss (linenRngsDict path rngs) ∧
        ∀ m, drawN s' m = (List.range m).map fun j => KeyT.fold (.linen (.base k) path 0) j) ∧
    ((rngs.find? fun e => e.1 = n) = none → (n, s) ∈ reseedStreams ss (linenRngsDict path rngs)) := by
  refine ⟨?_, ?_⟩
  · intro k hk
    refine ⟨⟨.linen (.base k) path 0, 0⟩, ?_, ?_⟩
    · simp only [reseedStreams, List.mem_map]
      refine ⟨(n, s), hs, ?_⟩
      simp only [find?_linenRngsDict, hk, Option.map_some]
    · intro m; rw [drawN_eq]; simp
  · intro hk
    simp only [reseedStreams, List.mem_map]
    exact ⟨(n, s), hs, by simp only [find?_linenRngsDict, hk, Option.map_none]⟩

/-- **ToLinen called several times inside one Linen `init`/`apply`**: the scope's `make_rng` counters are
state threaded through the calls of the instance, so (from fresh counters) the `k`-th call reseeds stream
`n` with `make_rng` key number `k` at the wrapper's scope, the `j`-th key the NNX module then draws is
`fold_in(that key, j)`, and two different calls never see a key in common. -/
theorem tolinen_repeated_calls_fresh_keys (path : Path) (rngs : Keys) (hn : (rngs.map Prod.fst).Nodup) (m : Nat) :
    callKeyDicts path rngs m [] =
      ((List.range m).map fun k => rngs.map fun e => (e.1, KeyT.linen (.base e.2) path k)) ∧
    (∀ (k k' : Nat) (key : Key) (j j' : Nat), k ≠ k' →
      KeyT.fold (.linen (.base key) path k) j ≠ KeyT.fold (.linen (.base key) path k') j') := by
  refine ⟨?_, ?_⟩
  · have := callKeyDicts_spec path rngs hn m [] 0 (by intro n _; rfl)
    simpa using this
  · intro k k' key j j' hk h
    injection h with h1 _
    injection h1 with _ _ h3
    exact hk h3

example : callKeyDicts ["inner"] [("dropout", ⟨"dropout", 0, 9⟩)] 3 []
    = [[("dropout", .linen (.base ⟨"dropout", 0, 9⟩) ["inner"] 0)], [("dropout", .linen (.base ⟨"dropout", 0, 9⟩) ["inner"] 1)],
       [("dropout", .linen (.base ⟨"dropout", 0, 9⟩) ["inner"] 2)]] := by decide

/-- **ToNNX: keys are never reused.** The `i`-th draw from the wrapper's `rngs` (one per `lazy_init` or
call) hands stream `n` the key `(n, c + i)`; with distinct stream names, two different calls never give
the wrapped module a key in common. -/
theorem tonnx_keys_never_reused (r : Rngs) (hn : (r.streams.map Prod.fst).Nodup) (i j : Nat) (hij : i ≠ j) :
    (r.after i).draw.1 = (r.streams.map fun nc => (nc.1, (⟨nc.1, nc.2 + i, r.src⟩ : Key))) ∧
    ∀ e ∈ (r.after i).draw.1, ∀ e' ∈ (r.after j).draw.1, e.2 ≠ e'.2 := by
  have hd : ∀ i, (r.after i).draw.1 = (r.streams.map fun nc => (nc.1, (⟨nc.1, nc.2 + i, r.src⟩ : Key))) := by
    intro i; simp [Rngs.draw, Rngs.after_streams, Rngs.after_src, List.map_map, Function.comp_def]
  refine ⟨hd i, ?_⟩
  intro e he e' he' heq
  rw [hd i] at he; rw [hd j] at he'
  obtain ⟨a, ha, rfl⟩ := List.mem_map.mp he
  obtain ⟨b, hb, rfl⟩ := List.mem_map.mp he'
  simp only [Key.mk.injEq] at heq
  have hab : a = b := eq_of_fst_eq r.streams hn a ha b hb heq.1
  subst hab
  omega

example : (⟨[("params", 0), ("dropout", 3)], 7⟩ : Rngs).after 2 |>.draw.1
    = [("params", ⟨"params", 2, 7⟩), ("dropout", ⟨"dropout", 5, 7⟩)] := by decide

/-! ## NNXMeta boxes under Linen's lifted transforms -/

/-- **`NNXMeta.add_axis` keeps the `sharding` annotation aligned with the stacked value**: for every
annotation — the empty tuple of a rank-0 Variable included — and every index a transform can pass
(`-(rank+1) ≤ index ≤ rank`), the new tuple has exactly one more entry, the axis name sits at the new
axis, and `remove_axis` with the same arguments gives the old tuple back. -/
theorem nnxmeta_axis_aligned (ns : List (Option String)) (index : Int) (axis : String)
    (h : AxisIndexOk ns.length index) :
    (insertAxis ns index axis).length = ns.length + 1 ∧
    (insertAxis ns index axis)[addIndex ns.length index]? = some (some axis) ∧
    removeAxis (insertAxis ns index axis) index axis = .ok ns := by
  have hk := addIndex_le ns.length index h
  rw [insertAxis_eq ns index axis h]
  refine ⟨insertAt_length ns _ _ hk, insertAt_get ns _ _ hk, ?_⟩
  rw [← insertAxis_eq ns index axis h]
  exact removeAxis_insertAxis ns index axis h

/-- on the box's metadata: an annotated Variable (whatever the tuple, `()` too) gets the new tuple and
everything else is kept; a Variable without a `sharding` annotation stays unannotated -/
theorem nnxmeta_add_axis_meta (md : Meta) (index : Int) (axis : String) :
    (∀ ns, Meta.get? md "sharding" = some (.names ns) →
      nnxMetaAddAxis md index axis = setAssoc md "sharding" (.names (insertAxis ns index axis))) ∧
    (Meta.get? md "sharding" = none → nnxMetaAddAxis md index axis = md ∧ nnxMetaRemoveAxis md index axis = .ok md) := by
  refine ⟨fun ns h => by simp [nnxMetaAddAxis, h], fun h => by simp [nnxMetaAddAxis, nnxMetaRemoveAxis, h]⟩

/-- the rank-0 case: inserting at 0 (or at -1) into the empty annotation; a rank-1 `(None,)`; and the
truthiness test of a careless edit (`if not sharding`) would have skipped exactly the first one -/
example : AxisIndexOk 0 0 ∧ insertAxis [] 0 "layers" = [some "layers"] ∧ insertAxis [] (-1) "layers" = [some "layers"] ∧
    insertAxis [none] 0 "layers" = [some "layers", none] ∧
    nnxMetaAddAxis [("sharding", .names [])] 0 "layers" = [("sharding", .names [some "layers"])] ∧
    (nnxMetaRemoveAxis [("sharding", .names [some "layers"])] 0 "layers").toOption = some [("sharding", .names [])] ∧
    nnxMetaAddAxis [("tag", .str "s")] 0 "layers" = [("tag", .str "s")] := by
  refine ⟨⟨by decide, by decide⟩, by decide, by decide, by decide, by decide, by decide, by decide⟩

end Flax.C18
