/-
Line protocol shared by every per-property driver.
One JSON object per input line  {"id": n, "fn": "<name>", "args": <json>}
One JSON object per output line {"id": n, "ok": <json>}  or  {"id": n, "err": "<enum>"}
Only core `Lean.Data.Json` is imported, so drivers stay Mathlib-free.
-/
import Lean.Data.Json

namespace Flax.Proto
open Lean

abbrev Handler := String → Json → Except String Json

def reply (id : Json) (r : Except String Json) : String :=
  match r with
  | .ok v    => (Json.mkObj [("id", id), ("ok", v)]).compress
  | .error e => (Json.mkObj [("id", id), ("err", Json.str e)]).compress

def handleLine (h : Handler) (line : String) : String :=
  match Json.parse line with
  | .error e => (Json.mkObj [("id", Json.null), ("err", Json.str ("bad-json: " ++ e))]).compress
  | .ok j =>
    let id := (j.getObjVal? "id").toOption.getD Json.null
    match j.getObjValAs? String "fn" with
    | .error _ => reply id (.error "bad-op")
    | .ok fn =>
      let args := (j.getObjVal? "args").toOption.getD Json.null
      reply id (h fn args)

partial def loop (h : Handler) (inp : IO.FS.Stream) (out : IO.FS.Stream) : IO Unit := do
  let line ← inp.getLine
  if line.isEmpty then
    out.flush
    return ()
  let t := line.trimAscii.toString
  if t.isEmpty then
    loop h inp out
  else
    out.putStrLn (handleLine h t)
    loop h inp out

def serve (h : Handler) : IO Unit := do
  let inp ← IO.getStdin
  let out ← IO.getStdout
  loop h inp out

/-- small helpers for argument decoding -/
def arr (j : Json) : Except String (Array Json) :=
  match j with
  | .arr a => .ok a
  | _ => .error "bad-args"

def argAt (j : Json) (i : Nat) : Except String Json := do
  let a ← arr j
  match a[i]? with
  | some v => .ok v
  | none => .error "bad-args"

def asStr (j : Json) : Except String String :=
  match j with
  | .str s => .ok s
  | _ => .error "bad-args"

def asNat (j : Json) : Except String Nat :=
  match j.getNat? with
  | .ok n => .ok n
  | .error _ => .error "bad-args"

def asInt (j : Json) : Except String Int :=
  match j.getInt? with
  | .ok n => .ok n
  | .error _ => .error "bad-args"

def asBool (j : Json) : Except String Bool :=
  match j with
  | .bool b => .ok b
  | _ => .error "bad-args"

def asList (f : Json → Except String α) (j : Json) : Except String (List α) := do
  let a ← arr j
  a.toList.mapM f

end Flax.Proto
