/- line-protocol driver for the NNX graph model (C03) -/
import Flax.Base.Proto
import Flax.Model.Heap
import Flax.Model.Graph

namespace Flax.Driver.C03
open Lean Flax.Proto Flax.Heap Flax.Graph
open Flax.Filter (NFilter)

/-! JSON forms
  Key    : number | string
  PVal   : null | {"s": str} | {"a": int} | {"r": addr} | {"l": [PVal]} | {"t": [PVal]} | {"d": [[Key, PVal]]}
  Obj    : {"cls": str, "attrs": [[Key, PVal]]} | {"vt": [str], "val": int, "md": [[str, str]]}
  Leaf   : {"vt": [str], "val": int, "md": [[str,str]]} | {"arr": int}
  GDef   : {"ref": [ty, idx]} | {"var": [vt, idx, md]} | {"node": [kind, idx|null, [[Key, GDef]]]} | {"s": str} | "array"
  kind   : {"obj": cls} | "list" | "tuple" | "dict" | "none"
  STree  : {"leaf": Leaf} | {"node": [[Key, STree]]}
-/

def keyOfJson : Json → Except String Key
  | .str s => .ok (.str s)
  | j => match j.getInt? with
    | .ok i => .ok (.int i)
    | .error _ => .error "bad-args"

def keyToJson : Key → Json
  | .int i => Json.num (JsonNumber.fromInt i)
  | .str s => .str s

def pairOf (f : Json → Except String α) (g : Json → Except String β) (j : Json) : Except String (α × β) := do
  let a ← f (← argAt j 0)
  let b ← g (← argAt j 1)
  .ok (a, b)

def mdOfJson (j : Json) : Except String Meta := asList (pairOf asStr asStr) j

def mdToJson (m : Meta) : Json := .arr (m.map (fun (k, v) => Json.arr #[.str k, .str v])).toArray

def intToJson (i : Int) : Json := Json.num (JsonNumber.fromInt i)

def get (j : Json) (k : String) : Except String Json := (j.getObjVal? k).mapError (fun _ => "bad-args")

partial def pvOfJson : Json → Except String PVal
  | .null => .ok .none
  | j@(.obj _) =>
    match j.getObjVal? "s", j.getObjVal? "a", j.getObjVal? "r", j.getObjVal? "l", j.getObjVal? "t", j.getObjVal? "d" with
    | .ok s, _, _, _, _, _ => do .ok (.static (← asStr s))
    | _, .ok a, _, _, _, _ => do .ok (.array (← asInt a))
    | _, _, .ok r, _, _, _ => do .ok (.ref (← asNat r))
    | _, _, _, .ok l, _, _ => do .ok (.seq false (← asList pvOfJson l))
    | _, _, _, _, .ok t, _ => do .ok (.seq true (← asList pvOfJson t))
    | _, _, _, _, _, .ok d => do .ok (.dict (← asList (pairOf keyOfJson pvOfJson) d))
    | _, _, _, _, _, _ => .error "bad-args"
  | _ => .error "bad-args"

partial def pvToJson : PVal → Json
  | .none => .null
  | .static s => Json.mkObj [("s", .str s)]
  | .array d => Json.mkObj [("a", intToJson d)]
  | .ref a => Json.mkObj [("r", Json.num a)]
  | .seq false xs => Json.mkObj [("l", .arr (xs.map pvToJson).toArray)]
  | .seq true xs => Json.mkObj [("t", .arr (xs.map pvToJson).toArray)]
  | .dict kvs => Json.mkObj [("d", .arr (kvs.map (fun (k, v) => Json.arr #[keyToJson k, pvToJson v])).toArray)]

def attrsToJson (l : List (Key × PVal)) : Json := .arr (l.map (fun (k, v) => Json.arr #[keyToJson k, pvToJson v])).toArray

def objOfJson (j : Json) : Except String Obj :=
  match j.getObjVal? "cls" with
  | .ok c => do
    let attrs ← asList (pairOf keyOfJson pvOfJson) (← get j "attrs")
    .ok (.node (← asStr c) attrs)
  | .error _ => do
    let vt ← asList asStr (← get j "vt")
    let val ← asInt (← get j "val")
    let md ← mdOfJson (← get j "md")
    .ok (.var vt val md)

def objToJson : Obj → Json
  | .node cls attrs => Json.mkObj [("cls", .str cls), ("attrs", attrsToJson attrs)]
  | .var vt val md => Json.mkObj [("vt", .arr (vt.map Json.str).toArray), ("val", intToJson val), ("md", mdToJson md)]

def heapOfJson (j : Json) : Except String Heap := asList objOfJson j
def heapToJson (h : Heap) : Json := .arr (h.map objToJson).toArray

def leafOfJson (j : Json) : Except String Leaf :=
  match j.getObjVal? "arr" with
  | .ok a => do .ok (.arr (← asInt a))
  | .error _ => do
    let vt ← asList asStr (← get j "vt")
    let val ← asInt (← get j "val")
    let md ← mdOfJson (← get j "md")
    .ok (.vstate vt val md)

def leafToJson : Leaf → Json
  | .arr d => Json.mkObj [("arr", intToJson d)]
  | .vstate vt val md => Json.mkObj [("vt", .arr (vt.map Json.str).toArray), ("val", intToJson val), ("md", mdToJson md)]

def pathOfJson (j : Json) : Except String Path := asList keyOfJson j
def pathToJson (p : Path) : Json := .arr (p.map keyToJson).toArray

def flatOfJson (j : Json) : Except String FlatState := asList (pairOf pathOfJson leafOfJson) j
def flatToJson (fs : FlatState) : Json := .arr (fs.map (fun (p, l) => Json.arr #[pathToJson p, leafToJson l])).toArray
def statesToJson (ss : List FlatState) : Json := .arr (ss.map flatToJson).toArray

def kindOfJson : Json → Except String NKind
  | .str "list" => .ok (.seq false)
  | .str "tuple" => .ok (.seq true)
  | .str "dict" => .ok .dict
  | .str "none" => .ok .none
  | j => do .ok (.obj (← asStr (← get j "obj")))

def kindToJson : NKind → Json
  | .seq false => .str "list"
  | .seq true => .str "tuple"
  | .dict => .str "dict"
  | .none => .str "none"
  | .obj c => Json.mkObj [("obj", .str c)]

partial def gdOfJson : Json → Except String GDef
  | .str "array" => .ok .array
  | j@(.obj _) =>
    match j.getObjVal? "ref", j.getObjVal? "var", j.getObjVal? "node", j.getObjVal? "s" with
    | .ok r, _, _, _ => do .ok (.ref (← asStr (← argAt r 0)) (← asNat (← argAt r 1)))
    | _, .ok v, _, _ => do .ok (.var (← asList asStr (← argAt v 0)) (← asNat (← argAt v 1)) (← mdOfJson (← argAt v 2)))
    | _, _, .ok n, _ => do
      let kind ← kindOfJson (← argAt n 0)
      let idx ← match (← argAt n 1) with
        | .null => pure Option.none
        | x => do pure (some (← asNat x))
      let attrs ← asList (pairOf keyOfJson gdOfJson) (← argAt n 2)
      .ok (.node kind idx attrs)
    | _, _, _, .ok s => do .ok (.static (← asStr s))
    | _, _, _, _ => .error "bad-args"
  | _ => .error "bad-args"

partial def gdToJson : GDef → Json
  | .array => .str "array"
  | .static s => Json.mkObj [("s", .str s)]
  | .ref ty i => Json.mkObj [("ref", Json.arr #[.str ty, Json.num i])]
  | .var vt i md => Json.mkObj [("var", Json.arr #[.arr (vt.map Json.str).toArray, Json.num i, mdToJson md])]
  | .node kind idx attrs =>
    Json.mkObj [("node", Json.arr #[kindToJson kind,
      (match idx with | some i => Json.num i | Option.none => Json.null),
      .arr (attrs.map (fun (k, g) => Json.arr #[keyToJson k, gdToJson g])).toArray])]

partial def stOfJson (j : Json) : Except String STree :=
  match j.getObjVal? "leaf" with
  | .ok l => do .ok (.leaf (← leafOfJson l))
  | .error _ => do .ok (.node (← asList (pairOf keyOfJson stOfJson) (← get j "node")))

/-- NNX filters: same JSON as the C14 driver; path keys are given already encoded ("#3", "$name") -/
partial def nfOfJson : Json → Except String NFilter
  | .str "everything" => .ok .everything
  | .str "nothing" => .ok .nothing
  | j@(.obj _) =>
    match j.getObjVal? "tag", j.getObjVal? "type", j.getObjVal? "contains", j.getObjVal? "pathin",
          j.getObjVal? "any", j.getObjVal? "all", j.getObjVal? "not" with
    | .ok t, _, _, _, _, _, _ => do .ok (.withTag (← asStr t))
    | _, .ok t, _, _, _, _, _ => do .ok (.ofType (← asStr t))
    | _, _, .ok k, _, _, _, _ => do .ok (.pathContains (← asStr k))
    | _, _, _, .ok ps, _, _, _ => do .ok (.pathIn (← asList (asList asStr) ps))
    | _, _, _, _, .ok fs, _, _ => do .ok (.any (← asList nfOfJson fs))
    | _, _, _, _, _, .ok fs, _ => do .ok (.allOf (← asList nfOfJson fs))
    | _, _, _, _, _, _, .ok f => do .ok (.not (← nfOfJson f))
    | _, _, _, _, _, _, _ => .error "bad-args"
  | _ => .error "bad-args"

def errName (e : Err) : String := (reprStr e).replace "Flax.Graph.Err." ""

def lift (r : Except Err α) (f : α → Json) : Except String Json :=
  match r with
  | .ok a => .ok (f a)
  | .error e => .error (errName e)

def irToJson (ir : IndexRef) : Json := .arr (ir.map (fun (i, a) => Json.arr #[Json.num i, Json.num a])).toArray

/-- apply a permutation given as a list of positions -/
def permute (ss : List FlatState) (perm : List Nat) : List FlatState := perm.filterMap (fun i => ss[i]?)

def handle : Handler := fun fn args =>
  match fn with
  | "flatten" => do
      let h ← heapOfJson (← argAt args 0)
      let r ← pvOfJson (← argAt args 1)
      lift (flatten h r) (fun (gd, fs, idx) =>
        Json.mkObj [("gd", gdToJson gd), ("leaves", flatToJson fs), ("idx", .arr (idx.map (fun (a : Nat) => Json.num a)).toArray)])
  | "unflatten" => do
      let gd ← gdOfJson (← argAt args 0)
      let ls ← asList leafOfJson (← argAt args 1)
      let h ← heapOfJson (← argAt args 2)
      lift (unflatten gd ls h) (fun (v, H, ir) => Json.mkObj [("root", pvToJson v), ("heap", heapToJson H), ("ir", irToJson ir)])
  | "split" => do
      let h ← heapOfJson (← argAt args 0)
      let r ← pvOfJson (← argAt args 1)
      let fs ← asList nfOfJson (← argAt args 2)
      lift (split h r fs) (fun (gd, ss) => Json.mkObj [("gd", gdToJson gd), ("states", statesToJson ss)])
  | "merge" => do
      let gd ← gdOfJson (← argAt args 0)
      let ss ← asList flatOfJson (← argAt args 1)
      let h ← heapOfJson (← argAt args 2)
      lift (merge gd ss h) (fun (v, H, _) => Json.mkObj [("root", pvToJson v), ("heap", heapToJson H)])
  | "roundtrip" => do
      -- split with filters, merge the states in the order given by `perm`
      let h ← heapOfJson (← argAt args 0)
      let r ← pvOfJson (← argAt args 1)
      let fs ← asList nfOfJson (← argAt args 2)
      let perm ← asList asNat (← argAt args 3)
      match split h r fs with
      | .error e => .error (errName e)
      | .ok (gd, ss) =>
        lift (merge gd (permute ss perm) h) (fun (v, H, _) =>
          Json.mkObj [("gd", gdToJson gd), ("states", statesToJson ss), ("root", pvToJson v), ("heap", heapToJson H)])
  | "clone" => do
      let h ← heapOfJson (← argAt args 0)
      let r ← pvOfJson (← argAt args 1)
      lift (clone h r) (fun (v, H, _) => Json.mkObj [("root", pvToJson v), ("heap", heapToJson H)])
  | "state" => do
      let h ← heapOfJson (← argAt args 0)
      let r ← pvOfJson (← argAt args 1)
      let fs ← asList nfOfJson (← argAt args 2)
      lift (state h r fs) statesToJson
  | "update" => do
      let h ← heapOfJson (← argAt args 0)
      let r ← pvOfJson (← argAt args 1)
      let s ← stOfJson (← argAt args 2)
      lift (update h r s) heapToJson
  | "pop" => do
      let fixed ← asBool (← argAt args 0)
      let h ← heapOfJson (← argAt args 1)
      let r ← pvOfJson (← argAt args 2)
      let fs ← asList nfOfJson (← argAt args 3)
      lift (pop fixed h r fs) (fun (H, ss) => Json.mkObj [("heap", heapToJson H), ("states", statesToJson ss)])
  | "iter" => do
      let h ← heapOfJson (← argAt args 0)
      let r ← pvOfJson (← argAt args 1)
      lift (iterGraph h r) (fun ys => .arr (ys.map (fun (p, v) => Json.arr #[pathToJson p, pvToJson v])).toArray)
  | "merge_flat" => do
      let ss ← asList flatOfJson (← argAt args 0)
      lift (mergeFlat ss) (fun ls => .arr (ls.map leafToJson).toArray)
  | _ => .error "bad-op"

end Flax.Driver.C03

def main : IO Unit := Flax.Proto.serve Flax.Driver.C03.handle
