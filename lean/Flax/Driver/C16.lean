/- line-protocol driver for the traverse / State models (C16) -/
import Flax.Base.Proto
import Flax.Model.Traverse
import Flax.Model.State

namespace Flax.Driver.C16
open Lean Flax.Proto Flax.Traverse Flax.State

/-! JSON forms
  tree   : {"L": int} | {"D": [[key, tree], ...]}          (dict items in insertion order)
  key    : "str"  (traverse functions: always a string)  |  "str" / int  (State functions)
  fval   : {"V": tree} | "E"                                (E = empty_node)
  isLeaf : "none" | "always" | {"depth": n} | {"last": key} | {"haskey": key}
  pred   : "all" | "none" | {"contains": key} | {"pathin": [path...]} | {"lt": int} | {"mod": [m, r]}
-/

def intJson (i : Int) : Json := Json.num (JsonNumber.fromInt i)

def strKey (j : Json) : Except String String := asStr j

def stKey (j : Json) : Except String Key :=
  match j with
  | .str s => .ok (.str s)
  | _ => do .ok (.int (← asInt j))

def stKeyJson : Key → Json
  | .str s => .str s
  | .int n => intJson n

partial def treeOfJson {κ : Type} (key : Json → Except String κ) (j : Json) : Except String (Tree κ Int) :=
  match j.getObjVal? "L", j.getObjVal? "D" with
  | .ok l, _ => do .ok (.leaf (← asInt l))
  | _, .ok d => do
      let items ← asList (fun it => do
        let k ← key (← argAt it 0)
        let t ← treeOfJson key (← argAt it 1)
        pure (k, t)) d
      .ok (.dict items)
  | _, _ => .error "bad-args"

partial def treeToJson {κ : Type} (key : κ → Json) : Tree κ Int → Json
  | .leaf v => Json.mkObj [("L", intJson v)]
  | .dict kvs => Json.mkObj [("D", Json.arr (kvs.map (fun kv => Json.arr #[key kv.1, treeToJson key kv.2])).toArray)]

def kvsToJson {κ : Type} (key : κ → Json) (kvs : List (κ × Tree κ Int)) : Json := treeToJson key (.dict kvs)

def kvsOfJson {κ : Type} (key : Json → Except String κ) (j : Json) : Except String (List (κ × Tree κ Int)) := do
  match ← treeOfJson key j with
  | .dict kvs => .ok kvs
  | .leaf _ => .error "bad-args"

def fvalOfJson {κ : Type} (key : Json → Except String κ) (j : Json) : Except String (FVal κ Int) :=
  match j with
  | .str "E" => .ok .emptyNode
  | _ => do
      let v ← (j.getObjVal? "V").mapError (fun _ => "bad-args")
      .ok (.val (← treeOfJson key v))

def fvalToJson {κ : Type} (key : κ → Json) : FVal κ Int → Json
  | .emptyNode => .str "E"
  | .val t => Json.mkObj [("V", treeToJson key t)]

def isLeafOfJson (j : Json) : Except String (Path String → Tree String Int → Bool) :=
  match j with
  | .str "none" => .ok noLeaf
  | .str "always" => .ok (fun _ _ => true)
  | _ =>
    match j.getObjVal? "depth", j.getObjVal? "last", j.getObjVal? "haskey" with
    | .ok n, _, _ => do
        let n ← asNat n
        .ok (fun p _ => decide (p.length = n))
    | _, .ok k, _ => do
        let k ← asStr k
        .ok (fun p _ => decide (p.getLast? = some k))
    | _, _, .ok k => do
        let k ← asStr k
        .ok (fun _ t => match t with
          | .dict kvs => (Dict.get kvs k).isSome
          | .leaf _ => false)
    | _, _, _ => .error "bad-args"

def errJson {β : Type} (r : Except Err β) : Except String β :=
  match r with
  | .ok v => .ok v
  | .error e => .error e.name

def serrJson {β : Type} (r : Except SErr β) : Except String β :=
  match r with
  | .ok v => .ok v
  | .error e => .error e.name

def pathJson (p : Path String) : Json := Json.arr (p.map Json.str).toArray
def spathJson (p : SPath) : Json := Json.arr (p.map stKeyJson).toArray

def flatJson (m : List (Path String × FVal String Int)) : Json :=
  Json.arr (m.map (fun pv => Json.arr #[pathJson pv.1, fvalToJson Json.str pv.2])).toArray

def flatSepJson (m : List (String × FVal String Int)) : Json :=
  Json.arr (m.map (fun pv => Json.arr #[Json.str pv.1, fvalToJson Json.str pv.2])).toArray

def flatOfJson (j : Json) : Except String (List (Path String × FVal String Int)) :=
  asList (fun it => do
    let p ← asList asStr (← argAt it 0)
    let v ← fvalOfJson strKey (← argAt it 1)
    pure (p, v)) j

def flatSepOfJson (j : Json) : Except String (List (String × FVal String Int)) :=
  asList (fun it => do
    let p ← asStr (← argAt it 0)
    let v ← fvalOfJson strKey (← argAt it 1)
    pure (p, v)) j

def sepOf (j : Json) : Option String :=
  match j with
  | .str s => some s
  | _ => none

/-- the functions `f(path, leaf)` the harness uses for `path_aware_map` -/
def fOfJson (j : Json) : Except String (Path String → Tree String Int → Tree String Int) :=
  match j.getObjVal? "affine", j.getObjVal? "wrap" with
  | .ok m, _ => do
      let m ← asInt m
      .ok (fun p t => match t with
        | .leaf v => .leaf (v + m * p.length + (if "a" ∈ p then 7 else 0))
        | t => t)
  | _, .ok k => do
      let k ← asStr k
      .ok (fun p t => match t with
        | .leaf v => if p.getLast? = some k then .dict [("w", .leaf v), ("n", .leaf p.length)] else .leaf (v + 1)
        | t => t)
  | _, _ => .error "bad-args"

def flatStJson (m : Flat Int) : Json :=
  Json.arr (m.map (fun pa => Json.arr #[spathJson pa.1, intJson pa.2])).toArray

def flatStOfJson (j : Json) : Except String (Flat Int) :=
  asList (fun it => do
    let p ← asList stKey (← argAt it 0)
    let v ← asInt (← argAt it 1)
    pure (p, v)) j

/-- `types`: for every leaf (identified by its value) the class names in the MRO of its variable type -/
def typesTable (j : Json) : Except String (List (Int × List String)) :=
  asList (fun it => do
    let v ← asInt (← argAt it 0)
    let ts ← asList asStr (← argAt it 1)
    pure (v, ts)) j

def typesOfTable (tbl : List (Int × List String)) (a : Int) : List String :=
  match tbl.find? (fun e => e.1 == a) with
  | some e => e.2
  | none => []

def predOfJson (tbl : List (Int × List String)) (j : Json) : Except String (SPath → Int → Bool) :=
  match j with
  | .str "all" => .ok (fun _ _ => true)
  | .str "none" => .ok (fun _ _ => false)
  | _ =>
    match j.getObjVal? "type" with
    | .ok t => do
        let t ← asStr t
        .ok (ofType (typesOfTable tbl) t)
    | _ =>
    match j.getObjVal? "contains", j.getObjVal? "pathin", j.getObjVal? "lt", j.getObjVal? "mod" with
    | .ok k, _, _, _ => do
        let k ← stKey k
        .ok (fun p _ => decide (k ∈ p))
    | _, .ok ps, _, _ => do
        let ps ← asList (asList stKey) ps
        .ok (fun p _ => decide (p ∈ ps))
    | _, _, .ok n, _ => do
        let n ← asInt n
        .ok (fun _ a => decide (a < n))
    | _, _, _, .ok mr => do
        let m ← asInt (← argAt mr 0)
        let r ← asInt (← argAt mr 1)
        .ok (fun _ a => decide (a % m = r))
    | _, _, _, _ => .error "bad-args"

def smapsJson (l : List (SMap Int)) : Json := Json.arr (l.map (kvsToJson stKeyJson)).toArray

def handle : Handler := fun fn args =>
  match fn with
  | "flatten" => do
      let t ← treeOfJson strKey (← argAt args 0)
      let keep ← asBool (← argAt args 1)
      let il ← isLeafOfJson (← argAt args 2)
      match sepOf (← argAt args 3) with
      | none => do .ok (flatJson (← errJson (flatten keep il t)))
      | some sep => do .ok (flatSepJson (← errJson (flattenSep sep keep il t)))
  | "unflatten" => do
      match sepOf (← argAt args 1) with
      | none => do
          let m ← flatOfJson (← argAt args 0)
          .ok (treeToJson Json.str (← errJson (unflatten m)))
      | some sep => do
          let m ← flatSepOfJson (← argAt args 0)
          .ok (treeToJson Json.str (← errJson (unflattenSep sep m)))
  | "roundtrip" => do
      let t ← treeOfJson strKey (← argAt args 0)
      let keep ← asBool (← argAt args 1)
      let il ← isLeafOfJson (← argAt args 2)
      match sepOf (← argAt args 3) with
      | none => do .ok (treeToJson Json.str (← errJson (flatten keep il t >>= unflatten)))
      | some sep => do .ok (treeToJson Json.str (← errJson (flattenSep sep keep il t >>= unflattenSep sep)))
  | "fr" => do  -- flatten and round trip in one call: [flat | {"err":..}, tree | {"err":..}]
      let t ← treeOfJson strKey (← argAt args 0)
      let keep ← asBool (← argAt args 1)
      let il ← isLeafOfJson (← argAt args 2)
      let wrap := fun (r : Except Err Json) => match r with
        | .ok v => Json.mkObj [("ok", v)]
        | .error e => Json.mkObj [("err", Json.str e.name)]
      match sepOf (← argAt args 3) with
      | none =>
          let f := flatten keep il t
          .ok (Json.arr #[wrap (f.map flatJson), wrap ((f >>= unflatten).map (treeToJson Json.str))])
      | some sep =>
          let f := flattenSep sep keep il t
          .ok (Json.arr #[wrap (f.map flatSepJson), wrap ((f >>= unflattenSep sep).map (treeToJson Json.str))])
  | "to_seq" => do
      let t ← treeOfJson strKey (← argAt args 0)
      let il ← isLeafOfJson (← argAt args 1)
      .ok (flatJson (← errJson (flattenToSeq il t)))
  | "norm" => do
      let t ← kvsOfJson strKey (← argAt args 0)
      let keep ← asBool (← argAt args 1)
      let il ← isLeafOfJson (← argAt args 2)
      .ok (kvsToJson Json.str (normKvs keep il t))
  | "path_aware_map" => do
      let t ← treeOfJson strKey (← argAt args 0)
      let f ← fOfJson (← argAt args 1)
      .ok (treeToJson Json.str (← errJson (pathAwareMap f t)))
  | "map_with_path" => do
      let t ← treeOfJson strKey (← argAt args 0)
      let f ← fOfJson (← argAt args 1)
      .ok (treeToJson Json.str (mapWithPath f t))
  | "path_aware_calls" => do
      let t ← treeOfJson strKey (← argAt args 0)
      let calls ← errJson (pathAwareCalls t)
      .ok (Json.arr (calls.map (fun pc => Json.arr #[pathJson pc.1, treeToJson Json.str pc.2])).toArray)
  | "split_str" => do
      let sep ← asStr (← argAt args 0)
      let s ← asStr (← argAt args 1)
      .ok (Json.arr ((← errJson (splitS sep s)).map Json.str).toArray)
  | "join_str" => do
      let sep ← asStr (← argAt args 0)
      let p ← asList asStr (← argAt args 1)
      .ok (Json.str (joinS sep p))
  | "to_flat" => do
      let s ← kvsOfJson stKey (← argAt args 0)
      .ok (flatStJson (toFlat s))
  | "from_flat" => do
      let m ← flatStOfJson (← argAt args 0)
      .ok (kvsToJson stKeyJson (← serrJson (fromFlat m)))
  | "to_pure" => do
      let s ← kvsOfJson stKey (← argAt args 0)
      .ok (kvsToJson stKeyJson (← serrJson (toPure (fun a => a) s)))
  | "replace_pure" => do
      let s ← kvsOfJson stKey (← argAt args 0)
      let pd ← kvsOfJson stKey (← argAt args 1)
      .ok (kvsToJson stKeyJson (← serrJson (replaceByPure tryConvertInt (fun _ v => v) s pd)))
  | "replace_pure_orig" => do
      let s ← kvsOfJson stKey (← argAt args 0)
      let pd ← kvsOfJson stKey (← argAt args 1)
      .ok (kvsToJson stKeyJson (← serrJson (replaceByPureOrig tryConvertInt (fun _ v => v) s pd)))
  | "split" => do
      let tbl ← match argAt args 2 with
        | .ok t => typesTable t
        | .error _ => pure []
      let preds ← asList (predOfJson tbl) (← argAt args 0)
      let s ← kvsOfJson stKey (← argAt args 1)
      .ok (smapsJson (← serrJson (splitState preds s)))
  | "filter" => do
      let tbl ← match argAt args 2 with
        | .ok t => typesTable t
        | .error _ => pure []
      let preds ← asList (predOfJson tbl) (← argAt args 0)
      let s ← kvsOfJson stKey (← argAt args 1)
      .ok (smapsJson (← serrJson (filterState preds s)))
  | "merge" => do
      let ss ← asList (kvsOfJson stKey) (← argAt args 0)
      match ss with
      | [] => .error "bad-args"
      | s :: rest => .ok (kvsToJson stKeyJson (← serrJson (mergeState s rest)))
  | "or" => do
      let a ← kvsOfJson stKey (← argAt args 0)
      let b ← kvsOfJson stKey (← argAt args 1)
      .ok (kvsToJson stKeyJson (← serrJson (stateOr a b)))
  | "diff" => do
      let a ← kvsOfJson stKey (← argAt args 0)
      let b ← kvsOfJson stKey (← argAt args 1)
      .ok (kvsToJson stKeyJson (← serrJson (diff a b)))
  | "diff_orig" => do
      let a ← kvsOfJson stKey (← argAt args 0)
      let b ← kvsOfJson stKey (← argAt args 1)
      .ok (kvsToJson stKeyJson (← serrJson (diffOrig a b)))
  | "conv_int" => do
      let k ← stKey (← argAt args 0)
      .ok (stKeyJson (tryConvertInt k))
  | _ => .error "bad-op"

end Flax.Driver.C16

def main : IO Unit := Flax.Proto.serve Flax.Driver.C16.handle
