/- line-protocol driver for the filter model (C14) -/
import Flax.Base.Proto
import Flax.Model.Filter

namespace Flax.Driver.C14
open Lean Flax.Proto Flax.Filter

partial def lfOfJson : Json → Except String LFilter
  | .bool true => .ok .tt
  | .bool false => .ok .ff
  | .str s => .ok (.name s)
  | .arr a => do
      let xs ← a.toList.mapM asStr
      .ok (.names xs)
  | j@(.obj _) => do
      let d ← (j.getObjVal? "deny").mapError (fun _ => "bad-args")
      let f ← lfOfJson d
      .ok (.deny f)
  | _ => .error "bad-args"

def lfToJson : LFilter → Json
  | .tt => .bool true
  | .ff => .bool false
  | .name s => .str s
  | .names xs => .arr (xs.map Json.str).toArray
  | .deny f => Json.mkObj [("deny", lfToJson f)]

partial def nfOfJson : Json → Except String NFilter
  | .str "everything" => .ok .everything
  | .str "nothing" => .ok .nothing
  | j@(.obj _) =>
    match j.getObjVal? "tag", j.getObjVal? "type", j.getObjVal? "contains", j.getObjVal? "pathin",
          j.getObjVal? "any", j.getObjVal? "all", j.getObjVal? "not" with
    | .ok t, _, _, _, _, _, _ => do .ok (.withTag (← asStr t))
    | _, .ok t, _, _, _, _, _ => do .ok (.ofType (← asStr t))
    | _, _, .ok k, _, _, _, _ => do .ok (.pathContains (← asStr k))
    | _, _, _, .ok ps, _, _, _ => do .ok (.pathIn (← asList (asList asStr) ps))
    | _, _, _, _, .ok fs, _, _ => do .ok (.any (← asList nfOfJson fs))
    | _, _, _, _, _, .ok fs, _ => do .ok (.allOf (← asList nfOfJson fs))
    | _, _, _, _, _, _, .ok f => do .ok (.not (← nfOfJson f))
    | _, _, _, _, _, _, _ => .error "bad-args"
  | _ => .error "bad-args"

partial def sfOfJson : Json → Except String SFilter
  | .bool b => .ok (.bool b)
  | .null => .ok .none_
  | .str "ellipsis" => .ok .ellipsis
  | j@(.obj _) =>
    match j.getObjVal? "str", j.getObjVal? "type", j.getObjVal? "seq", j.getObjVal? "any",
          j.getObjVal? "all", j.getObjVal? "not", j.getObjVal? "pred" with
    | .ok t, _, _, _, _, _, _ => do .ok (.str (← asStr t))
    | _, .ok t, _, _, _, _, _ => do .ok (.type (← asStr t))
    | _, _, .ok fs, _, _, _, _ => do .ok (.seq (← asList sfOfJson fs))
    | _, _, _, .ok fs, _, _, _ => do .ok (.any (← asList sfOfJson fs))
    | _, _, _, _, .ok fs, _, _ => do .ok (.allOf (← asList sfOfJson fs))
    | _, _, _, _, _, .ok f, _ => do .ok (.not (← sfOfJson f))
    | _, _, _, _, _, _, .ok f => do .ok (.pred (← nfOfJson f))
    | _, _, _, _, _, _, _ => .error "bad-args"
  | _ => .error "bad-args"

def infoOfJson (j : Json) : Except String VarInfo := do
  let ts ← (j.getObjVal? "types").mapError (fun _ => "bad-args")
  let types ← asList asStr ts
  let tag ← match j.getObjVal? "tag" with
    | .ok (.str s) => pure (some s)
    | _ => pure none
  .ok { types, tag }

def itemOfJson (j : Json) : Except String (Path × VarInfo) := do
  let p ← asList asStr (← argAt j 0)
  let x ← infoOfJson (← argAt j 1)
  .ok (p, x)

def handle : Handler := fun fn args =>
  match fn with
  | "in" => do
      let f ← lfOfJson (← argAt args 0)
      let cs ← asList asStr (← argAt args 1)
      .ok (.arr (cs.map (fun c => Json.bool (inFilter f c))).toArray)
  | "empty" => do .ok (.bool (isFilterEmpty (← lfOfJson (← argAt args 0))))
  | "empty_orig" => do .ok (.bool (isFilterEmptyOrig (← lfOfJson (← argAt args 0))))
  | "union" => do .ok (lfToJson (union (← lfOfJson (← argAt args 0)) (← lfOfJson (← argAt args 1))))
  | "subtract" => do .ok (lfToJson (subtract (← lfOfJson (← argAt args 0)) (← lfOfJson (← argAt args 1))))
  | "intersect" => do .ok (lfToJson (intersect (← lfOfJson (← argAt args 0)) (← lfOfJson (← argAt args 1))))
  | "group" => do
      let cols ← asList asStr (← argAt args 0)
      let fs ← asList lfOfJson (← argAt args 1)
      .ok (.arr ((groupCollections cols fs).map (fun g => Json.arr (g.map Json.str).toArray)).toArray)
  | "nnx_denote" => do
      let f ← nfOfJson (← argAt args 0)
      let items ← asList itemOfJson (← argAt args 1)
      .ok (.arr (items.map (fun it => Json.bool (denote f it.1 it.2))).toArray)
  | "nnx_split" => do
      let fs ← asList nfOfJson (← argAt args 0)
      let items ← asList itemOfJson (← argAt args 1)
      .ok (.arr (items.map (fun it => (firstMatch fs it.1 it.2 : Nat) |> fun n => Json.num n)).toArray)
  | "lit_denote" => do
      let f ← sfOfJson (← argAt args 0)
      let items ← asList itemOfJson (← argAt args 1)
      .ok (.arr (items.map (fun it => Json.bool (denote (toPredicate f) it.1 it.2))).toArray)
  | "lit_split" => do
      let fs ← asList sfOfJson (← argAt args 0)
      let items ← asList itemOfJson (← argAt args 1)
      match filtersToPredicates fs with
      | none => .ok (.str "ValueError")
      | some ps => .ok (.arr (items.map (fun it => Json.num (firstMatch ps it.1 it.2 : Nat))).toArray)
  | "ellipsis_ok" => do
      let es ← asList asBool (← argAt args 0)
      .ok (.bool (ellipsisOk es))
  | _ => .error "bad-op"

end Flax.Driver.C14

def main : IO Unit := Flax.Proto.serve Flax.Driver.C14.handle
