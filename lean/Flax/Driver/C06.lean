/- line-protocol driver for the lifted scan / vmap model (C06) -/
import Flax.Base.Proto
import Flax.Model.LiftLoop

namespace Flax.Driver.C06
open Lean Flax.Proto Flax.Filter Flax.LiftLoop

/-! ### element domain: exact integers, symbolic keys, and `unk` (jax's "unknown" in the partial
evaluation that implements the constancy / unbatchedness checks) -/

inductive DVal where
  | int (v : Int)
  | key (k : Key)
  | unk
  deriving Repr, DecidableEq

instance : Inhabited DVal := ⟨.unk⟩

abbrev A := Arr DVal

/-! ### JSON codecs -/

def bad {β : Type} : Except String β := .error "bad-args"

partial def lfOfJson : Json → Except String LFilter
  | .bool true => .ok .tt
  | .bool false => .ok .ff
  | .str s => .ok (.name s)
  | .arr a => do .ok (.names (← a.toList.mapM asStr))
  | j@(.obj _) => do
      let d ← (j.getObjVal? "deny").mapError (fun _ => "bad-args")
      .ok (.deny (← lfOfJson d))
  | _ => bad

partial def keyOfJson (j : Json) : Except String Key :=
  match j.getObjVal? "seed", j.getObjVal? "split" with
  | .ok s, _ => do .ok (.seed (← asStr s))
  | _, .ok sp => do
      let k ← keyOfJson (← argAt sp 0)
      .ok (.split k (← asNat (← argAt sp 1)) (← asNat (← argAt sp 2)))
  | _, _ => bad

def keyToJson : Key → Json
  | .seed s => Json.mkObj [("seed", .str s)]
  | .split k n i => Json.mkObj [("split", .arr #[keyToJson k, .num n, .num i])]

def dvalOfJson (j : Json) : Except String DVal :=
  match j with
  | .str "?" => .ok .unk
  | .obj _ => do
      let k ← (j.getObjVal? "k").mapError (fun _ => "bad-args")
      .ok (.key (← keyOfJson k))
  | _ => do .ok (.int (← asInt j))

def dvalToJson : DVal → Json
  | .int v => .num (JsonNumber.fromInt v)
  | .key k => Json.mkObj [("k", keyToJson k)]
  | .unk => .str "?"

def arrOfJson (j : Json) : Except String A := do
  let sh ← asList asNat (← (j.getObjVal? "s").mapError (fun _ => "bad-args"))
  let d ← asList dvalOfJson (← (j.getObjVal? "d").mapError (fun _ => "bad-args"))
  let idx := allIdx sh
  if idx.length ≠ d.length then bad else .ok ⟨sh, idx.zip d⟩

def arrToJson (a : A) : Json :=
  Json.mkObj [("s", .arr (a.shape.map (fun (n : Nat) => Json.num n)).toArray),
              ("d", .arr ((allIdx a.shape).map (fun i => dvalToJson (a.getD i))).toArray)]

def pairsOfJson {β : Type} (f : Json → Except String β) (j : Json) : Except String (List (String × β)) :=
  asList (fun p => do .ok (← asStr (← argAt p 0), ← f (← argAt p 1))) j

def pairsToJson {β : Type} (f : β → Json) (l : List (String × β)) : Json :=
  .arr (l.map (fun kv => Json.arr #[.str kv.1, f kv.2])).toArray

def varsOfJson : Json → Except String (Vars DVal) := pairsOfJson (pairsOfJson arrOfJson)
def varsToJson : Vars DVal → Json := pairsToJson (pairsToJson arrToJson)
def rngsOfJson : Json → Except String Rngs := pairsOfJson keyOfJson

def optInt (j : Json) : Except String (Option Int) :=
  match j with
  | .null => .ok none
  | _ => do .ok (some (← asInt j))

def optNat (j : Json) : Except String (Option Nat) :=
  match j with
  | .null => .ok none
  | _ => do .ok (some (← asNat j))

def axesTreeOfJson (j : Json) : Except String AxesTree :=
  match j with
  | .arr a => do .ok (.perArg (← a.toList.mapM optInt))
  | _ => do .ok (.uniform (← optInt j))

def fld (j : Json) (k : String) : Except String Json := (j.getObjVal? k).mapError (fun _ => "bad-args")

def splitOfJson (j : Json) : Except String (List (LFilter × Bool)) :=
  asList (fun p => do .ok (← lfOfJson (← argAt p 0), ← asBool (← argAt p 1))) j

/-- `[filter, axis, mode]` with mode "both" | "in" | "out" -/
def axisSpecOfJson (j : Json) : Except String AxisSpec := do
  let f ← lfOfJson (← argAt j 0)
  let ax ← asInt (← argAt j 1)
  let m ← asStr (← argAt j 2)
  .ok { filter := f, axis := ax, isIn := m != "out", isOut := m != "in" }

def vaxisSpecOfJson (j : Json) : Except String VAxisSpec := do
  let f ← lfOfJson (← argAt j 0)
  let ax ← optInt (← argAt j 1)
  let m ← asStr (← argAt j 2)
  .ok { filter := f, axis := ax, isIn := m != "out", isOut := m != "in" }

def scanCfgOfJson (j : Json) : Except String ScanCfg := do
  .ok { bcast := ← lfOfJson (← fld j "bcast"), carry := ← lfOfJson (← fld j "carry"),
        axes := ← asList axisSpecOfJson (← fld j "axes"), splitRngs := ← splitOfJson (← fld j "split"),
        inAxes := ← axesTreeOfJson (← fld j "in_axes"), outAxes := ← axesTreeOfJson (← fld j "out_axes"),
        length := ← optNat (← fld j "length"), reverse := ← asBool (← fld j "reverse"),
        unroll := ← asNat (← fld j "unroll"),
        checkConst := ← (match j.getObjVal? "check_const" with | .ok b => asBool b | .error _ => .ok true) }

def vmapCfgOfJson (j : Json) : Except String VmapCfg := do
  .ok { axes := ← asList vaxisSpecOfJson (← fld j "axes"), splitRngs := ← splitOfJson (← fld j "split"),
        inAxes := ← axesTreeOfJson (← fld j "in_axes"), outAxes := ← axesTreeOfJson (← fld j "out_axes"),
        axisSize := ← optNat (← fld j "axis_size") }

def rematCfgOfJson (j : Json) : Except String RematCfg := do
  .ok { bcast := ← lfOfJson (← fld j "bcast"), carry := ← lfOfJson (← fld j "carry"),
        axes := ← asList axisSpecOfJson (← fld j "axes"), splitRngs := ← splitOfJson (← fld j "split") }

/-! ### the loop-body DSL (integer element-wise programs over one shape) -/

inductive Expr where
  | c (k : Nat) | x (k : Nat) | reg (r : String) | const (v : Int)
  | add (a b : Expr) | mul (a b : Expr) | sub (a b : Expr)
  | bc (e : Expr) (extra : List Nat)   -- e[..., None, …] + arange(prod(extra)).reshape(extra): a higher-rank leaf
  deriving Repr

inductive Stmt where
  | var (reg col name : String) (init : Expr)   -- reg = self.variable(col, name, lambda: init).value
  | set (col name : String) (e : Expr)          -- self.variable(col, name).value = e
  | rng (reg stream : String)                   -- reg = self.make_rng(stream)
  | bind (reg : String) (e : Expr)
  deriving Repr

structure Prog where
  shape : List Nat
  stmts : List Stmt
  carry : List Expr
  ys : List Expr
  deriving Repr

partial def exprOfJson (j : Json) : Except String Expr := do
  let tag ← asStr (← argAt j 0)
  match tag with
  | "c" => .ok (.c (← asNat (← argAt j 1)))
  | "x" => .ok (.x (← asNat (← argAt j 1)))
  | "r" => .ok (.reg (← asStr (← argAt j 1)))
  | "k" => .ok (.const (← asInt (← argAt j 1)))
  | "+" => .ok (.add (← exprOfJson (← argAt j 1)) (← exprOfJson (← argAt j 2)))
  | "*" => .ok (.mul (← exprOfJson (← argAt j 1)) (← exprOfJson (← argAt j 2)))
  | "-" => .ok (.sub (← exprOfJson (← argAt j 1)) (← exprOfJson (← argAt j 2)))
  | "bc" => .ok (.bc (← exprOfJson (← argAt j 1)) (← asList asNat (← argAt j 2)))
  | _ => bad

def stmtOfJson (j : Json) : Except String Stmt := do
  let tag ← asStr (← argAt j 0)
  match tag with
  | "var" => .ok (.var (← asStr (← argAt j 1)) (← asStr (← argAt j 2)) (← asStr (← argAt j 3)) (← exprOfJson (← argAt j 4)))
  | "set" => .ok (.set (← asStr (← argAt j 1)) (← asStr (← argAt j 2)) (← exprOfJson (← argAt j 3)))
  | "rng" => .ok (.rng (← asStr (← argAt j 1)) (← asStr (← argAt j 2)))
  | "let" => .ok (.bind (← asStr (← argAt j 1)) (← exprOfJson (← argAt j 2)))
  | _ => bad

def progOfJson (j : Json) : Except String Prog := do
  .ok { shape := ← asList asNat (← fld j "shape"), stmts := ← asList stmtOfJson (← fld j "stmts"),
        carry := ← asList exprOfJson (← fld j "carry"), ys := ← asList exprOfJson (← fld j "ys") }

def binop (f : Int → Int → Int) (a b : A) : Except Err A :=
  if a.shape ≠ b.shape then .error (.body "TypeError") else
  let r := Arr.ofFn a.shape (fun i => match a.getD i, b.getD i with
    | .int u, .int v => DVal.int (f u v)
    | .key _, _ => DVal.key (.seed "!bad")
    | _, .key _ => DVal.key (.seed "!bad")
    | _, _ => DVal.unk)
  if r.data.any (fun p => p.2 == DVal.key (.seed "!bad")) then .error (.body "TypeError") else .ok r

/-- row-major position of a multi-index inside a block of the given dims -/
def ravelIdx (idx dims : List Nat) : Nat :=
  (idx.zip dims).foldl (fun acc p => acc * p.2 + p.1) 0

def expandArr (a : A) (extra : List Nat) : Except Err A :=
  let r := Arr.ofFn (a.shape ++ extra) (fun i => match a.getD (i.take a.shape.length) with
    | .int u => DVal.int (u + (ravelIdx (i.drop a.shape.length) extra : Nat))
    | .key _ => DVal.key (.seed "!bad")
    | .unk => DVal.unk)
  if r.data.any (fun p => p.2 == DVal.key (.seed "!bad")) then .error (.body "TypeError") else .ok r

structure St where
  regs : List (String × A)
  vars : Vars DVal

def evalExpr (p : Prog) (st : St) (c xs : List A) : Expr → Except Err A
  | .c k => match c[k]? with | some a => .ok a | none => .error (.body "IndexError")
  | .x k => match xs[k]? with | some a => .ok a | none => .error (.body "IndexError")
  | .reg r => match st.regs.lookup r with | some a => .ok a | none => .error (.body "NameError")
  | .const v => .ok (Arr.ofFn p.shape (fun _ => DVal.int v))
  | .add a b => do binop (· + ·) (← evalExpr p st c xs a) (← evalExpr p st c xs b)
  | .mul a b => do binop (· * ·) (← evalExpr p st c xs a) (← evalExpr p st c xs b)
  | .sub a b => do binop (· - ·) (← evalExpr p st c xs a) (← evalExpr p st c xs b)
  | .bc e extra => do expandArr (← evalExpr p st c xs e) extra

def execStmt (p : Prog) (mutF : LFilter) (rngs : Rngs) (c xs : List A) (st : St) : Stmt → Except Err St
  | .var reg col name init =>
    match (dget st.vars col).bind (fun cc => dget cc name) with
    | some a => .ok { st with regs := dset st.regs reg a }
    | none =>
      if inFilter mutF col then do
        let a ← evalExpr p st c xs init
        .ok { regs := dset st.regs reg a, vars := putVar st.vars col name a }
      else if ((dget st.vars col).getD []).isEmpty then .error (.body "ScopeCollectionNotFound")
      else .error (.body "ScopeVariableNotFoundError")
  | .set col name e =>
    if inFilter mutF col then do
      let a ← evalExpr p st c xs e
      .ok { st with vars := putVar st.vars col name a }
    else .error (.body "ModifyScopeVariableError")
  | .rng reg stream =>
    match rngs.lookup stream with
    | some k => .ok { st with regs := dset st.regs reg (Arr.ofFn [] (fun _ => DVal.key k)) }
    | none =>
      match rngs.lookup "params" with
      | some k => .ok { st with regs := dset st.regs reg (Arr.ofFn [] (fun _ => DVal.key k)) }
      | none => .error (.body "InvalidRngError")
  | .bind reg e => do
      let a ← evalExpr p st c xs e
      .ok { st with regs := dset st.regs reg a }

/-- the DSL program as a `Body` of the model -/
def runProg (p : Prog) : Body DVal := fun mutF vars rngs c xs =>
  match foldE (execStmt p mutF rngs c xs) { regs := [], vars := vars } p.stmts with
  | .error e => .error e
  | .ok st =>
    match mapE (evalExpr p st c xs) p.carry with
    | .error e => .error e
    | .ok c' =>
      match mapE (evalExpr p st c xs) p.ys with
      | .error e => .error e
      | .ok ys => .ok (st.vars, c', ys)

/-! ### verdict of the constancy / unbatchedness checks: a second, "tainted" run -/

def taintArr (a : A) : A := Arr.ofFn a.shape (fun _ => DVal.unk)
def taintVars (f : String → Bool) (v : Vars DVal) : Vars DVal :=
  v.map (fun cc => if f cc.1 then (cc.1, cc.2.map (fun nv => (nv.1, taintArr nv.2))) else cc)

def arrTainted (a : A) : Bool := a.data.any (fun p => match p.2 with
  | .unk => true
  | .key (.split _ _ _) => true       -- a row of a split stream is per-iteration data
  | _ => false)

def varsTainted (f : String → Bool) (v : Vars DVal) : Bool :=
  v.any (fun cc => f cc.1 && cc.2.any (fun nv => arrTainted nv.2))

def role (fs : List LFilter) (c : String) : Option Nat := firstIdx fs c

/-- known (= not data-dependent on carry / scanned inputs) unless the tainted run shows otherwise -/
def scanVerdict (cfg : ScanCfg) (p : Prog) (scopeMut : LFilter) (outer : Vars DVal) (rngs : Rngs)
    (init args : List A) : Bool :=
  if !cfg.checkConst then true else
  let tOuter := taintVars (fun c => match role cfg.inFs c with | some 0 => false | some _ => true | none => false) outer
  let tInit := init.map taintArr
  let inAxes := (cfg.inAxes.expand args.length).toOption.getD []
  let tArgs := (args.zip inAxes).map (fun q => match q.2 with | some _ => taintArr q.1 | none => q.1)
  let tArgs := if tArgs.length = args.length then tArgs else args
  match liftScanCore cfg true true (runProg p) scopeMut tOuter rngs tInit tArgs with
  | .error _ => true
  | .ok r =>
    let outYAxes := (cfg.outAxes.expand r.ys.length).toOption.getD []
    let badY := (r.ys.zip outYAxes).any (fun q => match q.2 with | none => arrTainted q.1 | some _ => false)
    let badV := varsTainted (fun c => role cfg.outFs c == some 0) r.vars
    !(badY || badV)

def vmapVerdict (cfg : VmapCfg) (p : Prog) (scopeMut : LFilter) (outer : Vars DVal) (rngs : Rngs)
    (args : List A) : Bool :=
  let inFs := cfg.inAx.map (·.filter)
  let outFs := cfg.outAx.map (·.filter)
  let axOf (l : List VAxisSpec) (fs : List LFilter) (c : String) : Option Int :=
    match role fs c with | some g => (l.map (·.axis)).getD g none | none => none
  let tOuter := taintVars (fun c => (axOf cfg.inAx inFs c).isSome) outer
  let inAxes := (cfg.inAxes.expand args.length).toOption.getD []
  let tArgs := (args.zip inAxes).map (fun q => match q.2 with | some _ => taintArr q.1 | none => q.1)
  let tArgs := if tArgs.length = args.length then tArgs else args
  match liftVmap cfg true (runProg p) scopeMut tOuter rngs tArgs with
  | .error _ => true
  | .ok r =>
    let outYAxes := (cfg.outAxes.expand r.ys.length).toOption.getD []
    let badY := (r.ys.zip outYAxes).any (fun q => match q.2 with | none => arrTainted q.1 | some _ => false)
    let badV := varsTainted (fun c => (role outFs c).isSome && (axOf cfg.outAx outFs c).isNone) r.vars
    !(badY || badV)

def rematVerdict (rc : RematCfg) (p : Prog) (lengths : List Nat) (scopeMut : LFilter) (outer : Vars DVal)
    (rngs : Rngs) (init : List A) : Bool :=
  let cfg := rc.scanCfg 1
  let tOuter := taintVars (fun c => match role cfg.inFs c with | some 0 => false | some _ => true | none => false) outer
  let inner : Body DVal := match lengths with
    | [] => fun _ _ _ _ _ => .error .axisOutOfBounds
    | [_] => fun m v r c xs => match runProg p m v r c xs with
        | .error e => .error e
        | .ok o => .ok (o.1, o.2.1, [])
    | _ :: ls => rematScan rc true (runProg p) ls
  match liftScanCore (rc.scanCfg (lengths.headD 1)) true true inner scopeMut tOuter rngs (init.map taintArr) [] with
  | .error _ => true
  | .ok r => !(varsTainted (fun c => role cfg.outFs c == some 0) r.vars)

/-! ### replies -/

def resultToJson (r : Result DVal) : Json :=
  Json.mkObj [("vars", varsToJson r.vars), ("carry", .arr (r.carry.map arrToJson).toArray),
              ("ys", .arr (r.ys.map arrToJson).toArray)]

def liftErr {β : Type} (r : Except Err β) : Except String β :=
  match r with
  | .ok v => .ok v
  | .error e => .error e.cls

def natsToJson (l : List Nat) : Json := .arr (l.map (fun (n : Nat) => Json.num n)).toArray

def handle : Handler := fun fn args =>
  match fn with
  | "norm_axis" => do
      match normAxis (← asNat (← argAt args 0)) (← asInt (← argAt args 1)) with
      | some n => .ok (.num n)
      | none => .ok .null
  | "axes_to_front" => do
      let ax ← asInt (← argAt args 0)
      let xs ← asList asNat (← argAt args 1)
      .ok (natsToJson (← liftErr (axesToFront ax xs)))
  | "axes_from_front" => do
      let ax ← asInt (← argAt args 0)
      let xs ← asList asNat (← argAt args 1)
      .ok (natsToJson (← liftErr (axesFromFront ax xs)))
  | "arr_to_front" => do
      .ok (arrToJson (← liftErr (Arr.toFront (← asInt (← argAt args 0)) (← arrOfJson (← argAt args 1)))))
  | "arr_from_front" => do
      .ok (arrToJson (← liftErr (Arr.fromFront (← asInt (← argAt args 0)) (← arrOfJson (← argAt args 1)))))
  | "take" => do
      .ok (arrToJson (← liftErr (takeAt (← asInt (← argAt args 1)) (← asNat (← argAt args 2)) (← arrOfJson (← argAt args 0)))))
  | "stack" => do
      let ls ← asList arrOfJson (← argAt args 1)
      let sh := (ls.head?.map (·.shape)).getD []
      .ok (arrToJson (← liftErr (stackAt (← asInt (← argAt args 0)) sh ls)))
  | "move_axis" => do
      -- what axes_scan.scan does to one scanned leaf whose slices are passed through unchanged
      let a ← arrOfJson (← argAt args 0)
      let axIn ← asInt (← argAt args 1)
      let axOut ← asInt (← argAt args 2)
      let rev ← asBool (← argAt args 3)
      let f ← liftErr (Arr.toFront axIn a)
      let n ← liftErr (leadDim f)
      let r ← liftErr (laxScan (σ := Unit) n rev (fun i => f.take 0 i) (fun _ x => .ok ((), x)) (fun _ _ => true) ())
      let sh := (r.2.head?.map (·.shape)).getD []
      .ok (arrToJson (← liftErr (stackFront axOut sh r.2)))
  | "decide_length" => do
      let ex ← optNat (← argAt args 0)
      let sizes ← asList asNat (← argAt args 1)
      .ok (.num (← liftErr (decideLength ex sizes)))
  | "scan" => do
      let cfg ← scanCfgOfJson (← argAt args 0)
      let p ← progOfJson (← argAt args 1)
      let sm ← lfOfJson (← argAt args 2)
      let outer ← varsOfJson (← argAt args 3)
      let rngs ← rngsOfJson (← argAt args 4)
      let init ← asList arrOfJson (← argAt args 5)
      let xs ← asList arrOfJson (← argAt args 6)
      let verdict := scanVerdict cfg p sm outer rngs init xs
      let r ← liftErr (liftScan cfg verdict (runProg p) sm outer rngs init xs)
      .ok (Json.mkObj [("verdict", .bool verdict), ("res", resultToJson r)])
  | "vmap" => do
      let cfg ← vmapCfgOfJson (← argAt args 0)
      let p ← progOfJson (← argAt args 1)
      let sm ← lfOfJson (← argAt args 2)
      let outer ← varsOfJson (← argAt args 3)
      let rngs ← rngsOfJson (← argAt args 4)
      let xs ← asList arrOfJson (← argAt args 5)
      let verdict := vmapVerdict cfg p sm outer rngs xs
      let r ← liftErr (liftVmap cfg verdict (runProg p) sm outer rngs xs)
      .ok (Json.mkObj [("verdict", .bool verdict), ("res", resultToJson r)])
  | "remat_scan" => do
      let rc ← rematCfgOfJson (← argAt args 0)
      let lengths ← asList asNat (← argAt args 1)
      let p ← progOfJson (← argAt args 2)
      let sm ← lfOfJson (← argAt args 3)
      let outer ← varsOfJson (← argAt args 4)
      let rngs ← rngsOfJson (← argAt args 5)
      let init ← asList arrOfJson (← argAt args 6)
      let verdict := rematVerdict rc p lengths sm outer rngs init
      let r ← liftErr (rematScan rc verdict (runProg p) lengths sm outer rngs init [])
      .ok (Json.mkObj [("verdict", .bool verdict),
        ("res", resultToJson { vars := r.1, carry := r.2.1, ys := [] })])
  | _ => .error "bad-op"

end Flax.Driver.C06

def main : IO Unit := Flax.Proto.serve Flax.Driver.C06.handle
