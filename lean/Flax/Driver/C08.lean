/- line-protocol driver for the NNX vmap / scan / grad model (C08) -/
import Flax.Base.Proto
import Flax.Model.NnxLoop

namespace Flax.Driver.C08
open Lean Flax.Proto Flax.Filter Flax.LiftLoop Flax.NnxLoop

abbrev A := Arr Int

def bad {β : Type} : Except String β := .error "bad-args"

def fld (j : Json) (k : String) : Except String Json := (j.getObjVal? k).mapError (fun _ => "bad-args")

/-! ### JSON codecs -/

partial def nfOfJson : Json → Except String NFilter
  | .str "everything" => .ok .everything
  | .str "nothing" => .ok .nothing
  | j@(.obj _) =>
    match j.getObjVal? "tag", j.getObjVal? "type", j.getObjVal? "contains", j.getObjVal? "pathin",
          j.getObjVal? "any", j.getObjVal? "all", j.getObjVal? "not" with
    | .ok t, _, _, _, _, _, _ => do .ok (.withTag (← asStr t))
    | _, .ok t, _, _, _, _, _ => do .ok (.ofType (← asStr t))
    | _, _, .ok k, _, _, _, _ => do .ok (.pathContains (← asStr k))
    | _, _, _, .ok ps, _, _, _ => do .ok (.pathIn (← asList (asList asStr) ps))
    | _, _, _, _, .ok fs, _, _ => do .ok (.any (← asList nfOfJson fs))
    | _, _, _, _, _, .ok fs, _ => do .ok (.allOf (← asList nfOfJson fs))
    | _, _, _, _, _, _, .ok f => do .ok (.not (← nfOfJson f))
    | _, _, _, _, _, _, _ => bad
  | _ => bad

def infoOfJson (j : Json) : Except String VarInfo := do
  let types ← asList asStr (← fld j "types")
  let tag ← match j.getObjVal? "tag" with
    | .ok (.str s) => pure (some s)
    | _ => pure none
  .ok { types, tag }

def infoToJson (x : VarInfo) : Json :=
  Json.mkObj [("types", .arr (x.types.map Json.str).toArray),
              ("tag", match x.tag with | some t => .str t | none => .null)]

def arrOfJson (j : Json) : Except String A := do
  let sh ← asList asNat (← fld j "s")
  let d ← asList asInt (← fld j "d")
  let idx := allIdx sh
  if idx.length ≠ d.length then bad else .ok ⟨sh, idx.zip d⟩

def arrToJson (a : A) : Json :=
  Json.mkObj [("s", .arr (a.shape.map (fun (n : Nat) => Json.num n)).toArray),
              ("d", .arr ((allIdx a.shape).map (fun i => Json.num (JsonNumber.fromInt (a.getD i)))).toArray)]

def pathToJson (p : Path) : Json := .arr (p.map Json.str).toArray

def axOfJson (j : Json) : Except String Ax :=
  match j with
  | .null => .ok .bcast
  | .str "carry" => .ok .carry
  | _ => do .ok (.axis (← asInt j))

def prefixOfJson (j : Json) : Except String Prefix :=
  match j.getObjVal? "sa" with
  | .ok items => do
      let s ← asList (fun it => do .ok (← nfOfJson (← argAt it 0), ← axOfJson (← argAt it 1))) items
      .ok (.sa s)
  | .error _ => do .ok (.ax (← axOfJson j))

def axesSpecOfJson (j : Json) : Except String AxesSpec :=
  match j.getObjVal? "u", j.getObjVal? "t" with
  | .ok p, _ => do .ok (.uniform (← prefixOfJson p))
  | _, .ok ps => do .ok (.perArg (← asList prefixOfJson ps))
  | _, _ => bad

def entryOfJson (j : Json) : Except String Entry := do
  .ok { path := ← asList asStr (← argAt j 0), id := ← asNat (← argAt j 1), info := ← infoOfJson (← argAt j 2) }

def argOfJson (j : Json) : Except String (Arg Int) :=
  match j.getObjVal? "node", j.getObjVal? "arr" with
  | .ok es, _ => do .ok (.node (← asList entryOfJson es))
  | _, .ok a => do .ok (.arr (← arrOfJson a))
  | _, _ => bad

def storeOfJson (j : Json) : Except String (Store Int) :=
  asList (fun p => do .ok (← asNat (← argAt p 0), ← arrOfJson (← argAt p 1))) j

def storeToJson (s : Store Int) : Json :=
  .arr (s.map (fun p => Json.arr #[.num p.1, arrToJson p.2])).toArray

def flatOfJson (j : Json) : Except String (Flat Int) :=
  asList (fun x => do
    .ok (← asList asStr (← argAt x 0), ← infoOfJson (← argAt x 1), ← arrOfJson (← argAt x 2))) j

def flatToJson (f : Flat Int) : Json :=
  .arr (f.map (fun x => Json.arr #[pathToJson x.1, infoToJson x.2.1, arrToJson x.2.2])).toArray

def outOfJson (j : Json) : Except String (Out Int) :=
  match j.getObjVal? "arr", j.getObjVal? "node", j.getObjVal? "ref" with
  | .ok a, _, _ => do .ok (.arr (← arrOfJson a))
  | _, .ok vs, _ => do .ok (.node (← flatOfJson vs))
  | _, _, .ok k => do .ok (.argRef (← asNat k))
  | _, _, _ => bad

def outToJson : Out Int → Json
  | .arr a => Json.mkObj [("arr", arrToJson a)]
  | .node vs => Json.mkObj [("node", flatToJson vs)]
  | .argRef k => Json.mkObj [("ref", .num k)]

def stateToJson (s : State Int) : Json :=
  .arr (s.map (fun pv => Json.arr #[pathToJson pv.1, arrToJson pv.2])).toArray

def optNat (j : Json) : Except String (Option Nat) :=
  match j with
  | .null => .ok none
  | _ => do .ok (some (← asNat j))

/-! ### the traced function as a finite table

A row is `[[store, arrays], [store', outs]]` or `[[store, arrays], "Tag"]` (the function raised).  The function is
undefined (an error of class `BodyUndefined`) on every input that is not a row: the model must hand the traced function
exactly the values the reference run handed it. -/

structure Row where
  inStore : Store Int
  inArrs : List A
  out : Except String (Store Int × List (Out Int))

def rowOfJson (j : Json) : Except String Row := do
  let i ← argAt j 0
  let o ← argAt j 1
  let inStore ← storeOfJson (← argAt i 0)
  let inArrs ← asList arrOfJson (← argAt i 1)
  match o with
  | .str tag => .ok ⟨inStore, inArrs, .error tag⟩
  | _ => do
    let st ← storeOfJson (← argAt o 0)
    let outs ← asList outOfJson (← argAt o 1)
    .ok ⟨inStore, inArrs, .ok (st, outs)⟩

def tableBody (rows : List Row) : NnxLoop.Body Int := fun st arrs =>
  match rows.find? (fun r => decide (r.inStore = st) && decide (r.inArrs = arrs)) with
  | some r =>
    match r.out with
    | .ok v => .ok v
    | .error tag => .error (.body tag)
  | none => .error (.body "BodyUndefined")

def resToJson (r : Except NnxLoop.Err (Store Int × List (Out Int))) : Except String Json :=
  match r with
  | .ok (st, outs) => .ok (Json.mkObj [("store", storeToJson st), ("outs", .arr (outs.map outToJson).toArray)])
  | .error e => .error e.cls

/-! ### a lawful instance of the A-AD contract: zero gradients of the right structure (the *values* of gradients are
JAX's; the driver reports which leaves are differentiated, the value, the aux and the forward pass's side effects) -/

def zeroLike : DIn Int → DIn Int
  | .state s => .state (s.map (fun pv => (pv.1, Arr.ofFn pv.2.shape (fun _ => 0))))
  | .arr a => .arr (Arr.ofFn a.shape (fun _ => 0))

theorem zeroLike_struct (d : DIn Int) : (zeroLike d).struct = d.struct := by
  cases d with
  | state s =>
    simp only [zeroLike, DIn.struct, List.map_map]
    congr 2
  | arr a => rfl

def zeroAD : AD Int where
  vag := fun f x => match f x with
    | .ok r => .ok (r, x.map zeroLike)
    | .error e => .error e
  vag_val := by
    intro β f x
    cases f x <;> rfl
  vag_struct := by
    intro β f x r g h
    cases hf : f x with
    | error e => simp [hf] at h
    | ok v =>
      simp only [hf] at h
      injection h with h
      injection h with _ h
      subst h
      simp [List.map_map, Function.comp_def, zeroLike_struct]

def dinToJson : DIn Int → Json
  | .state s => Json.mkObj [("state", stateToJson s)]
  | .arr a => Json.mkObj [("arr", arrToJson a)]

def diffArgOfJson (j : Json) : Except String DiffArg :=
  match j.getObjVal? "diff" with
  | .ok d => do .ok ⟨← asNat (← argAt d 0), some (← nfOfJson (← argAt d 1))⟩
  | .error _ => do .ok ⟨← asNat j, none⟩

def handle : Handler := fun fn args =>
  match fn with
  | "map_prefix" => do
      -- [state_axes_items, [[path, info], …]] → per item: axis / null / "carry" / {"err": cls}
      let p ← prefixOfJson (← argAt args 0)
      let items ← asList (fun it => do .ok (← asList asStr (← argAt it 0), ← infoOfJson (← argAt it 1))) (← argAt args 1)
      .ok (.arr (items.map (fun it =>
        match p.at ⟨it.1, 0, it.2⟩ with
        | .ok (.axis k) => Json.num (JsonNumber.fromInt k)
        | .ok .bcast => .null
        | .ok .carry => .str "carry"
        | .error e => Json.mkObj [("err", .str e.cls)])).toArray)
  | "aliasing" => do
      -- [[prefix, entries], …] → true (consistent) / false / {"err": cls}
      let leaves ← asList (fun l => do .ok (← prefixOfJson (← argAt l 0), ← asList entryOfJson (← argAt l 1))) args
      let r := leaves.foldl (fun (acc : Except NnxLoop.Err NodePrefixes) l =>
        match acc with
        | .error e => .error e
        | .ok np => checkAliasing l.1 l.2 np) (.ok [])
      match r with
      | .ok _ => .ok (.bool true)
      | .error .inconsistentAliasing => .ok (.bool false)
      | .error e => .ok (Json.mkObj [("err", .str e.cls)])
  | "scan_setup" => do
      let ia ← axesSpecOfJson (← argAt args 0)
      let oa ← axesSpecOfJson (← argAt args 1)
      match scanSetup ia oa with
      | .ok _ => .ok (.str "ok")
      | .error e => .ok (.str (reprStr e))
  | "vmap" => do
      let ia ← axesSpecOfJson (← fld args "in_axes")
      let oa ← axesSpecOfJson (← fld args "out_axes")
      let asz ← optNat (← fld args "axis_size")
      let verdict ← asBool (← fld args "verdict")
      let rows ← asList rowOfJson (← fld args "body")
      let as ← asList argOfJson (← fld args "args")
      let st ← storeOfJson (← fld args "store")
      resToJson (nnxVmap ia oa asz verdict (tableBody rows) as st)
  | "scan" => do
      let ia ← axesSpecOfJson (← fld args "in_axes")
      let oa ← axesSpecOfJson (← fld args "out_axes")
      let len ← optNat (← fld args "length")
      let rev ← asBool (← fld args "reverse")
      let nOuts ← asNat (← fld args "n_outs")
      let rows ← asList rowOfJson (← fld args "body")
      let as ← asList argOfJson (← fld args "args")
      let st ← storeOfJson (← fld args "store")
      resToJson (nnxScan ia oa len rev nOuts (tableBody rows) as st)
  | "grad" => do
      let argnums ← asList diffArgOfJson (← fld args "argnums")
      let hasAux ← asBool (← fld args "has_aux")
      let rows ← asList rowOfJson (← fld args "body")
      let as ← asList argOfJson (← fld args "args")
      let st ← storeOfJson (← fld args "store")
      match nnxGrad zeroAD argnums hasAux (tableBody rows) as st with
      | .error e => .error e.cls
      | .ok r =>
        .ok (Json.mkObj [("store", storeToJson r.store), ("loss", arrToJson r.loss),
          ("grads", .arr (r.grads.map dinToJson).toArray), ("aux", .arr (r.aux.map outToJson).toArray)])
  | _ => .error "bad-op"

end Flax.Driver.C08

def main : IO Unit := Flax.Proto.serve Flax.Driver.C08.handle
