/- line-protocol driver for the sequence model (C13) -/
import Flax.Base.Proto
import Flax.Model.Seq

namespace Flax.Driver.C13
open Lean Flax.Proto Flax.Seq

def jInt (n : Int) : Json := Json.num (JsonNumber.fromInt n)
def jList (f : α → Json) (xs : List α) : Json := Json.arr (xs.map f).toArray
def jMat (m : List (List Int)) : Json := jList (jList jInt) m
def jOpt (f : α → Json) : Option α → Json
  | none => Json.null
  | some a => f a

def asOpt (f : Json → Except String α) (j : Json) : Except String (Option α) :=
  match j with
  | .null => .ok none
  | _ => (f j).map some

def asMat (j : Json) : Except String (List (List Int)) := asList (asList asInt) j

def asPair (j : Json) : Except String (Int × Int) := do
  let a ← asInt (← argAt j 0)
  let b ← asInt (← argAt j 1)
  .ok (a, b)

def jPair (p : Int × Int) : Json := Json.arr #[jInt p.1, jInt p.2]

/-- a 0/1 matrix as a predicate; entries outside the matrix are `false` -/
def matPred (m : List (List Int)) (i j : Nat) : Bool :=
  match (m[i]?).bind (·[j]?) with
  | some v => decide (v ≠ 0)
  | none => false

def matVal (m : List (List Int)) (i j : Nat) : Int :=
  match (m[i]?).bind (·[j]?) with
  | some v => v
  | none => 0

def pairFn (name : String) : Except String (Int → Int → Int) :=
  match name with
  | "mul" => .ok (· * ·)
  | "ge" => .ok geI
  | "eq" => .ok fun a b => if a = b then 1 else 0
  | "gt" => .ok fun a b => if b < a then 1 else 0
  | _ => .error "bad-args"

/-- the instance used for exact comparison: a logit is the triple [query token, key token, bias], the row
function returns the allowed (logit, value) pairs themselves -/
def traceCfg : AttnCfg Int Int Int Int (List Int) (List (List Int × Int)) :=
  ⟨fun q k => [q, k], fun s b => s ++ [b], visible⟩

def jVisible (row : List (List Int × Int)) : Json :=
  jList (fun p => Json.arr #[jList jInt p.1, jInt p.2]) row

def cellOf (j : Json) : Except String ((Int × Int) → Int → (Int × Int) × Int) := do
  let a ← asInt (← argAt j 0)
  let b ← asInt (← argAt j 1)
  let m ← asInt (← argAt j 2)
  if m ≤ 0 then .error "bad-args" else .ok (affCell a b m)

def sigmaI (x : Int) : Int := x + 1
def tauI (x : Int) : Int := 2 * x - 1

def getMat (o : Json) (k : String) : Except String (List (List Int)) := do
  asMat (← (o.getObjVal? k).mapError fun _ => "bad-args")
def getVec (o : Json) (k : String) : Except String (List Int) := do
  asList asInt (← (o.getObjVal? k).mapError fun _ => "bad-args")

def lstmParams (o : Json) : Except String (LstmParams Int) := do
  .ok { ii := ← getMat o "ii", iF := ← getMat o "if", ig := ← getMat o "ig", io := ← getMat o "io",
        hi := ← getMat o "hi", hf := ← getMat o "hf", hg := ← getMat o "hg", ho := ← getMat o "ho",
        bi := ← getVec o "bi", bf := ← getVec o "bf", bg := ← getVec o "bg", bo := ← getVec o "bo" }

def gruParams (o : Json) : Except String (GruParams Int) := do
  .ok { ir := ← getMat o "ir", iz := ← getMat o "iz", iN := ← getMat o "in",
        bir := ← getVec o "bir", biz := ← getVec o "biz", biN := ← getVec o "bin",
        hr := ← getMat o "hr", hz := ← getMat o "hz", hn := ← getMat o "hn",
        bhn := ← asOpt (asList asInt) (← (o.getObjVal? "bhn").mapError fun _ => "bad-args") }

def jVec (v : List Int) : Json := jList jInt v

def handle : Handler := fun fn args =>
  match fn with
  | "make_attention_mask" => do
      let f ← pairFn (← asStr (← argAt args 0))
      let qs ← asList asInt (← argAt args 1)
      let ks ← asList asInt (← argAt args 2)
      .ok (jMat (makeAttentionMask f qs ks))
  | "make_causal_mask" => do .ok (jMat (makeCausalMask (← asNat (← argAt args 0))))
  | "combine_masks" => do
      let ms ← asList (asOpt asMat) (← argAt args 0)
      match combineMasks ms with
      | .ok r => .ok (jOpt jMat r)
      | .error e => .error e
  | "attn_whole" => do
      let qs ← asList asInt (← argAt args 0)
      let kvs ← asList asPair (← argAt args 1)
      let bias ← asMat (← argAt args 2)
      let mask ← asMat (← argAt args 3)
      .ok (jList jVisible (attnWhole traceCfg qs kvs (matVal bias) (matPred mask)))
  | "attn_causal" => do
      let qs ← asList asInt (← argAt args 0)
      let kvs ← asList asPair (← argAt args 1)
      let bias ← asMat (← argAt args 2)
      let user ← asMat (← argAt args 3)
      .ok (jList jVisible (attnWhole traceCfg qs kvs (matVal bias) (causal (matPred user))))
  | "decode" => do
      let L ← asNat (← argAt args 0)
      let qs ← asList asInt (← argAt args 1)
      let kvs ← asList asPair (← argAt args 2)
      let bias ← asMat (← argAt args 3)
      let user ← asMat (← argAt args 4)
      if qs.length ≠ kvs.length then .error "Shape" else
      .ok (jList jVisible (decodeRun traceCfg (matVal bias) (matPred user) (Cache.init (0, 0) L) (qs.zip kvs)))
  | "decode_cache" => do
      let L ← asNat (← argAt args 0)
      let kvs ← asList asPair (← argAt args 1)
      let c := kvs.foldl Cache.write (Cache.init ((0, 0) : Int × Int) L)
      .ok (Json.arr #[jList jPair c.slots, Json.num c.index])
  | "flip" => do
      let len ← asOpt asNat (← argAt args 0)
      let xs ← asList asInt (← argAt args 1)
      .ok (jVec (flipSeq len xs))
  | "py_loop" => do
      let cell ← cellOf (← argAt args 0)
      let c0 ← asPair (← argAt args 1)
      let xs ← asList asInt (← argAt args 2)
      let r := pyLoop cell c0 xs
      .ok (Json.arr #[jPair r.1, jVec r.2])
  | "rnn_row" => do
      let cell ← cellOf (← argAt args 0)
      let c0 ← asPair (← argAt args 1)
      let xs ← asList asInt (← argAt args 2)
      let len ← asOpt asNat (← argAt args 3)
      let rev ← asBool (← argAt args 4)
      let keep ← asBool (← argAt args 5)
      let r := rnnRow cell c0 xs len rev keep
      .ok (Json.arr #[jOpt jPair r.1, jVec r.2])
  | "rnn_batch" => do
      let cell ← cellOf (← argAt args 0)
      let tm ← asBool (← argAt args 1)
      let T ← asNat (← argAt args 2)
      let c0s ← asList asPair (← argAt args 3)
      let inputs ← asMat (← argAt args 4)
      let lens ← asOpt (asList asNat) (← argAt args 5)
      let rev ← asBool (← argAt args 6)
      let keep ← asBool (← argAt args 7)
      match rnnBatch cell tm T c0s inputs lens rev keep with
      | .ok r => .ok (Json.arr #[jList (jOpt jPair) r.1, jMat r.2])
      | .error e => .error e
  | "bidir_row" => do
      let cf ← cellOf (← argAt args 0)
      let cb ← cellOf (← argAt args 1)
      let c0f ← asPair (← argAt args 2)
      let c0b ← asPair (← argAt args 3)
      let xs ← asList asInt (← argAt args 4)
      let len ← asOpt asNat (← argAt args 5)
      let r := bidirRow cf cb (fun a b => [a, b]) c0f c0b xs len
      .ok (Json.arr #[Json.arr #[jOpt jPair r.1.1, jOpt jPair r.1.2], jMat r.2])
  | "lstm" => do
      let p ← lstmParams (← argAt args 0)
      let c ← asList asInt (← argAt args 1)
      let h ← asList asInt (← argAt args 2)
      let x ← asList asInt (← argAt args 3)
      let r := lstmStep sigmaI tauI p (c, h) x
      .ok (Json.arr #[jVec r.1.1, jVec r.1.2, jVec r.2])
  | "lstm_opt" => do
      let p ← lstmParams (← argAt args 0)
      let c ← asList asInt (← argAt args 1)
      let h ← asList asInt (← argAt args 2)
      let x ← asList asInt (← argAt args 3)
      let hFirst ← asBool (← argAt args 4)
      let r := lstmStepOpt sigmaI tauI hFirst h.length p (c, h) x
      .ok (Json.arr #[jVec r.1.1, jVec r.1.2, jVec r.2])
  | "simple" => do
      let o ← argAt args 0
      let h ← asList asInt (← argAt args 1)
      let x ← asList asInt (← argAt args 2)
      let residual ← asBool (← argAt args 3)
      let r := simpleStep tauI residual (← getMat o "i") (← getVec o "bi") (← getMat o "h") h x
      .ok (Json.arr #[jVec r.1, jVec r.2])
  | "gru" => do
      let p ← gruParams (← argAt args 0)
      let h ← asList asInt (← argAt args 1)
      let x ← asList asInt (← argAt args 2)
      let r := gruStep sigmaI tauI p h x
      .ok (Json.arr #[jVec r.1, jVec r.2])
  | "gru_nnx" => do
      let o ← argAt args 0
      let h ← asList asInt (← argAt args 1)
      let x ← asList asInt (← argAt args 2)
      let r := gruStepNnx sigmaI tauI h.length (← getMat o "wi") (← getVec o "bi") (← getMat o "wh") h x
      .ok (Json.arr #[jVec r.1, jVec r.2])
  | "mgu" => do
      let o ← argAt args 0
      let h ← asList asInt (← argAt args 1)
      let x ← asList asInt (← argAt args 2)
      let reset ← asBool (← argAt args 3)
      let r := mguStep sigmaI tauI reset (← getMat o "if") (← getVec o "bif") (← getMat o "hf")
        (← getMat o "in") (← getVec o "bin") (← getMat o "hn") (← getVec o "bhn") h x
      .ok (Json.arr #[jVec r.1, jVec r.2])
  | _ => .error "bad-op"

end Flax.Driver.C13

def main : IO Unit := Flax.Proto.serve Flax.Driver.C13.handle
