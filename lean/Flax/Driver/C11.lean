/- line-protocol driver for the checkpoint-directory model (C11) -/
import Flax.Base.Proto
import Flax.Model.Ckpt
import Flax.Model.NatSort

namespace Flax.Driver.C11
open Lean Flax.Proto Flax.Ckpt

/-- step values travel as decimal strings (they can exceed 2^64 after scaling) or JSON integers -/
def asBigInt (j : Json) : Except String Int :=
  match j with
  | .str s => match s.toInt? with
    | some i => .ok i
    | none => .error "bad-args"
  | _ => asInt j

def intJ (i : Int) : Json := .str (toString i)

def contentOfJson (j : Json) : Except String Content := do
  let i ← asInt j
  if i < 0 then .ok .torn else .ok (.complete i.toNat)

def contentJ : Content → Json
  | .complete p => Json.num (p : Nat)
  | .torn => Json.num (-1 : Int)

def filesOfJson (j : Json) : Except String Files :=
  asList (fun e => do
    let s ← asBigInt (← argAt e 0)
    let c ← contentOfJson (← argAt e 1)
    pure (s, c)) j

def filesJ (f : Files) : Json := .arr (f.map (fun e => Json.arr #[intJ e.1, contentJ e.2])).toArray

def field (j : Json) (k : String) : Except String Json :=
  (j.getObjVal? k).mapError (fun _ => "bad-args")

def dirOfJson (j : Json) : Except String Dir := do
  let ck ← filesOfJson (← field j "ckpts")
  let ot ← filesOfJson (← field j "otmps")
  let tmp ← match j.getObjVal? "tmp" with
    | .ok .null => pure none
    | .ok v => do pure (some (← contentOfJson v))
    | .error _ => pure none
  pure { ckpts := ck, tmp := tmp, otmps := ot }

def dirJ (d : Dir) : Json :=
  Json.mkObj [("ckpts", filesJ d.ckpts), ("otmps", filesJ d.otmps),
    ("tmp", match d.tmp with | none => Json.null | some c => contentJ c)]

def cfgOfJson (j : Json) : Except String Cfg := do
  let b ← asStr (← field j "backend")
  let backend ← match b with
    | "legacy" => pure Backend.legacy
    | "orbax" => pure Backend.orbax
    | _ => .error "bad-args"
  let step ← asBigInt (← field j "step")
  let payload ← asNat (← field j "payload")
  let keep ← asNat (← field j "keep")
  let everyN ← asBigInt (← field j "every")
  let overwrite ← asBool (← field j "overwrite")
  pure { backend, step, payload, keep, everyN, overwrite }

def errJ : Err → String
  | .invalidCheckpoint => "InvalidCheckpoint"
  | .destinationExists => "DestinationExists"
  | .notFound => "NotFound"
  | .corrupt => "Corrupt"

def nameJ : Ckpt.Name → Json
  | .ckpt s => Json.arr #[.str "ckpt", intJ s]
  | .tmp => Json.arr #[.str "tmp"]
  | .otmp s => Json.arr #[.str "otmp", intJ s]

def stepJ : FsStep → Json
  | .mkdir => Json.arr #[.str "mkdir"]
  | .create n => Json.arr #[.str "create", nameJ n]
  | .writeAll n _ => Json.arr #[.str "write", nameJ n]
  | .rename a b => Json.arr #[.str "rename", nameJ a, nameJ b]
  | .remove n => Json.arr #[.str "remove", nameJ n]
  | .damage n => Json.arr #[.str "damage", nameJ n]

/-- observable reading API of a directory -/
def readJ (d : Dir) : Json :=
  Json.mkObj [
    ("listing", .arr ((listing d).map intJ).toArray),
    ("latest", match latest d with | none => Json.null | some e => intJ e.1),
    ("restore", match restoreLatest d with
      | .ok none => Json.null
      | .ok (some p) => Json.num (p : Nat)
      | .error e => .str (errJ e))]

/-- one save from `d`: synchronous error, or the steps, every crash state and the final directory -/
def saveJ (orig : Bool) (cfg : Cfg) (d : Dir) : Json × Dir :=
  match (if orig then saveStepsOrig cfg d else saveSteps cfg d) with
  | .error e => (Json.mkObj [("err", .str (errJ e))], d)
  | .ok st =>
    let crash := (List.range (st.length + 1)).map (fun k => dirJ (run (st.take k) d))
    let fin := run st d
    (Json.mkObj [("steps", .arr (st.map stepJ).toArray), ("crash", .arr crash.toArray),
      ("final", dirJ fin), ("read", readJ fin)], fin)

def historyJ (orig : Bool) : List Cfg → Dir → List Json
  | [], _ => []
  | c :: cs, d =>
    let (j, d') := saveJ orig c d
    j :: historyJ orig cs d'

def moveOfJson (j : Json) : Except String Move := do
  let s ← asStr j
  match s with
  | "w" => pure .worker
  | "c" => pure .caller
  | _ => .error "bad-args"

def tokJ : NatSort.Tok → Json
  | .text s => Json.arr #[.str "t", .str (String.ofList s)]
  | .num s => Json.arr #[.str "n", .str (String.ofList s)]

def ordJ : Ordering → Json
  | .lt => .num (-1 : Int)
  | .eq => .num (0 : Int)
  | .gt => .num (1 : Int)

def handle : Handler := fun fn args =>
  match fn with
  | "tokens" => do
      let ss ← asList asStr (← argAt args 0)
      .ok (.arr (ss.map (fun s => Json.arr ((NatSort.tokens s.toList).map tokJ).toArray)).toArray)
  | "natsort" => do
      let ss ← asList asStr (← argAt args 0)
      .ok (.arr ((NatSort.natSort (ss.map String.toList)).map (fun s => Json.str (String.ofList s))).toArray)
  | "keycmp" => do
      let a ← asStr (← argAt args 0)
      let b ← asStr (← argAt args 1)
      .ok (ordJ (NatSort.keyCmp (NatSort.natKey a.toList) (NatSort.natKey b.toList)))
  | "path_step" => do
      let ss ← asList asStr (← argAt args 0)
      .ok (.arr (ss.map (fun s => match NatSort.pathStepTok s.toList with
        | some t => Json.str (String.ofList t)
        | none => Json.null)).toArray)
  | "show_int" => do
      let ns ← asList asBigInt (← argAt args 0)
      .ok (.arr (ns.map (fun n => Json.str (String.ofList (NatSort.showInt n)))).toArray)
  | "history" => do
      let cfgs ← asList cfgOfJson (← argAt args 0)
      let d ← dirOfJson (← argAt args 1)
      .ok (.arr (historyJ false cfgs d).toArray)
  | "history_orig" => do
      let cfgs ← asList cfgOfJson (← argAt args 0)
      let d ← dirOfJson (← argAt args 1)
      .ok (.arr (historyJ true cfgs d).toArray)
  | "read" => do
      let d ← dirOfJson (← argAt args 0)
      .ok (readJ d)
  | "restore_step" => do
      let d ← dirOfJson (← argAt args 0)
      let s ← asBigInt (← argAt args 1)
      match restoreStep d s with
      | .ok p => .ok (Json.num (p : Nat))
      | .error e => .ok (.str (errJ e))
  | "policy" => do
      let keep ← asNat (← argAt args 0)
      let n ← asBigInt (← argAt args 1)
      let ovw ← asBool (← argAt args 2)
      let s ← asBigInt (← argAt args 3)
      let before ← asList asBigInt (← argAt args 4)
      .ok (.arr ((policy keep n ovw s before).map intJ).toArray)
  | "async" => do
      let cfgs ← asList cfgOfJson (← argAt args 0)
      let d ← dirOfJson (← argAt args 1)
      let sched ← asList moveOfJson (← argAt args 2)
      let waits ← asBool (← argAt args 3)
      let st := aexec waits sched (ainit d cfgs)
      .ok (Json.mkObj [("dir", dirJ st.dir), ("done", .bool st.done),
        ("errs", .arr (st.errs.map (fun e => match e with | none => Json.null | some e => .str (errJ e))).toArray)])
  | _ => .error "bad-op"

end Flax.Driver.C11

def main : IO Unit := Flax.Proto.serve Flax.Driver.C11.handle
