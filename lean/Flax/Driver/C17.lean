/- line-protocol driver for the optimizer-wrapper and metrics models (C17) -/
import Flax.Base.Proto
import Flax.Model.Filter
import Flax.Model.Optim
import Flax.Model.Metrics

namespace Flax.Driver.C17
open Lean Flax.Proto Flax.Filter Flax.Optim Flax.Metrics

/-! ### codecs -/

def ratOfJson (j : Json) : Except String Rat := do
  let n ← asInt (← argAt j 0)
  let d ← asInt (← argAt j 1)
  if d = 0 then .error "bad-args" else .ok ((n : Rat) / (d : Rat))

def ratToJson (r : Rat) : Json := .arr #[Json.num (JsonNumber.fromInt r.num), Json.num (JsonNumber.fromNat r.den)]

abbrev Arr := List Rat
instance : Add Arr := ⟨fun a b => List.zipWith (· + ·) a b⟩

def arrOfJson (j : Json) : Except String Arr := asList ratOfJson j
def arrToJson (a : Arr) : Json := .arr (a.map ratToJson).toArray

def field (j : Json) (k : String) : Except String Json := (j.getObjVal? k).mapError (fun _ => "bad-args")

def optField (j : Json) (k : String) : Option Json :=
  match j.getObjVal? k with
  | .ok .null => none
  | .ok v => some v
  | .error _ => none

/-- NNX filter, same JSON as the C14 driver -/
partial def nfOfJson : Json → Except String NFilter
  | .str "everything" => .ok .everything
  | .str "nothing" => .ok .nothing
  | j@(.obj _) =>
    match j.getObjVal? "tag", j.getObjVal? "type", j.getObjVal? "contains", j.getObjVal? "pathin",
          j.getObjVal? "any", j.getObjVal? "all", j.getObjVal? "not" with
    | .ok t, _, _, _, _, _, _ => do .ok (.withTag (← asStr t))
    | _, .ok t, _, _, _, _, _ => do .ok (.ofType (← asStr t))
    | _, _, .ok k, _, _, _, _ => do .ok (.pathContains (← asStr k))
    | _, _, _, .ok ps, _, _, _ => do .ok (.pathIn (← asList (asList asStr) ps))
    | _, _, _, _, .ok fs, _, _ => do .ok (.any (← asList nfOfJson fs))
    | _, _, _, _, _, .ok fs, _ => do .ok (.allOf (← asList nfOfJson fs))
    | _, _, _, _, _, _, .ok f => do .ok (.not (← nfOfJson f))
    | _, _, _, _, _, _, _ => .error "bad-args"
  | _ => .error "bad-args"

def infoOfJson (j : Json) : Except String VarInfo := do
  let types ← asList asStr (← field j "types")
  let tag ← match j.getObjVal? "tag" with
    | .ok (.str s) => pure (some s)
    | _ => pure none
  .ok { types, tag }

def infoToJson (i : VarInfo) : Json :=
  Json.mkObj [("types", .arr (i.types.map Json.str).toArray), ("tag", match i.tag with | some t => .str t | none => .null)]

def errName : Optim.Err → String
  | .keyError => "KeyError"
  | .typeError => "TypeError"
  | .structureMismatch => "ValueError"
  | .unknownField => "TypeError"
  | .outsideModel => "outsideModel"
  | .tx n => s!"Tx{n}"

/-! nested-dict pytrees -/

partial def ptOfJson : Json → Except String (PT Arr)
  | j@(.arr _) => do .ok (.leaf (← arrOfJson j))
  | .obj kvs => do
      -- keys are sent sorted (jax flattens dicts in sorted key order)
      let items ← kvs.toList.mapM (fun (k, v) => do .ok (k, ← ptOfJson v))
      .ok (.dict items)
  | _ => .error "bad-args"

partial def ptToJson : PT Arr → Json
  | .leaf a => arrToJson a
  | .dict kvs => Json.mkObj (kvs.map (fun (k, v) => (k, ptToJson v)))

def leavesOfJson (j : Json) : Except String (List Arr) := asList arrOfJson j
def leavesToJson (s : List Arr) : Json := .arr (s.map arrToJson).toArray

def txResult {P S : Type} (pOf : Json → Except String P) (sOf : Json → Except String S) (j : Json) :
    Except String (Except Optim.Err (P × S)) :=
  match j.getObjVal? "raise" with
  | .ok (.num n) => .ok (.error (.tx n.mantissa.toNat))
  | _ => do
    let u ← pOf (← field j "updates")
    let s ← sOf (← field j "state")
    .ok (.ok (u, s))

def tableOfJson {P S : Type} (pOf : Json → Except String P) (sOf : Json → Except String S) (j : Json) :
    Except String (List ((P × S × P) × Except Optim.Err (P × S))) :=
  asList (fun e => do
    let g ← pOf (← field e "grads")
    let s ← sOf (← field e "in_state")
    let p ← pOf (← field e "params")
    let r ← txResult pOf sOf e
    .ok ((g, s, p), r)) j

def initTableOfJson {P S : Type} (pOf : Json → Except String P) (sOf : Json → Except String S) (j : Json) :
    Except String (List (P × S)) :=
  asList (fun e => do .ok (← pOf (← field e "params"), ← sOf (← field e "state"))) j

def fieldsOfJson (j : Json) : Except String (List (String × Int)) :=
  asList (fun e => do .ok (← asStr (← argAt e 0), ← asInt (← argAt e 1))) j

def fieldsToJson (fs : List (String × Int)) : Json :=
  .arr (fs.map (fun (k, v) => Json.arr #[.str k, Json.num (JsonNumber.fromInt v)])).toArray

/-! NNX states -/

def nstateOfJson (j : Json) : Except String (NState Arr) :=
  asList (fun e => do
    let p ← asList asStr (← argAt e 0)
    let i ← infoOfJson (← argAt e 1)
    let v ← arrOfJson (← argAt e 2)
    .ok (p, { info := i, value := v })) j

def nstateToJson (s : NState Arr) : Json :=
  .arr (s.map (fun (p, v) => Json.arr #[.arr (p.map Json.str).toArray, infoToJson v.info, arrToJson v.value])).toArray

def optLeafOfJson (j : Json) : Except String (OptLeaf Arr) :=
  match j.getObjVal? "vs", j.getObjVal? "arr" with
  | .ok v, _ => do .ok (.vstate (← infoOfJson (← argAt v 0)) (← arrOfJson (← argAt v 1)))
  | _, .ok a => do .ok (.arr (← arrOfJson a))
  | _, _ => .error "bad-args"

def optLeafToJson : OptLeaf Arr → Json
  | .vstate i v => Json.mkObj [("vs", .arr #[infoToJson i, arrToJson v])]
  | .arr v => Json.mkObj [("arr", arrToJson v)]

def optStateOfJson (j : Json) : Except String (List (OptLeaf Arr)) := asList optLeafOfJson j
def optStateToJson (s : List (OptLeaf Arr)) : Json := .arr (s.map optLeafToJson).toArray

def modelOfJson (j : Json) : Except String (Model Arr) :=
  asList (fun e => do
    let p ← asList asStr (← argAt e 0)
    let i ← infoOfJson (← argAt e 1)
    let v ← arrOfJson (← argAt e 2)
    .ok { path := p, info := i, value := v }) j

def modelToJson (m : Model Arr) : Json :=
  .arr (m.map (fun v => Json.arr #[.arr (v.path.map Json.str).toArray, infoToJson v.info, arrToJson v.value])).toArray

/-! metrics -/

def batchOfJson (j : Json) : Except String Batch :=
  match j.getObjVal? "s", j.getObjVal? "a" with
  | .ok v, _ => do .ok (.scalar (← ratOfJson v))
  | _, .ok a => do .ok (.array (← arrOfJson a))
  | _, _ => .error "bad-args"

def argOfJson (j : Json) : Except String Arg :=
  match j.getObjVal? "num", j.getObjVal? "rows", j.getObjVal? "ints" with
  | .ok b, _, _ => do .ok (.num (← batchOfJson b))
  | _, .ok r, _ => do .ok (.rows (← asList arrOfJson r))
  | _, _, .ok l => do .ok (.ints (← asList asInt l))
  | _, _, _ => .error "bad-args"

def kwargsOfJson (j : Json) : Except String Kwargs :=
  asList (fun e => do .ok (← asStr (← argAt e 0), ← argOfJson (← argAt e 1))) j

def metricOfJson (j : Json) : Except String Metric := do
  let kind ← asStr (← field j "kind")
  let an ← asStr (← field j "argname")
  match kind with
  | "average" => .ok (.average an AvgState.init)
  | "welford" => .ok (.welford an (some WState.init))
  | "accuracy" =>
      let th ← match optField j "threshold" with
        | some t => do pure (some (← ratOfJson t))
        | none => pure none
      .ok (.accuracy th an AvgState.init)
  | _ => .error "bad-args"

def optRatToJson : Option Rat → Json
  | some r => ratToJson r
  | none => .null

def valueToJson : Value → Json
  | .avg v => Json.mkObj [("avg", optRatToJson v)]
  | .stats s => Json.mkObj [("mean", ratToJson s.mean), ("variance", optRatToJson s.variance), ("count", Json.num (JsonNumber.fromNat s.count))]
  | .nanStats => .str "nan"

def metricStateToJson : Metric → Json
  | .average _ s => Json.mkObj [("total", ratToJson s.total), ("count", Json.num (JsonNumber.fromNat s.count))]
  | .accuracy _ _ s => Json.mkObj [("total", ratToJson s.total), ("count", Json.num (JsonNumber.fromNat s.count))]
  | .welford _ (some s) => Json.mkObj [("count", Json.num (JsonNumber.fromNat s.count)), ("mean", ratToJson s.mean), ("m2", ratToJson s.m2)]
  | .welford _ none => .str "nan"

def metricErrName : Metrics.Err → String
  | .typeError => "TypeError"
  | .valueError => "ValueError"
  | .outsideModel => "outsideModel"

inductive MOp where
  | update (kw : Kwargs)
  | reset
  | compute

def mopOfJson (j : Json) : Except String MOp :=
  match j with
  | .str "reset" => .ok .reset
  | .str "compute" => .ok .compute
  | _ => do .ok (.update (← kwargsOfJson (← field j "update")))

/-- runs a history on a MultiMetric; the trace has one entry per op: the `compute()` dict after it,
or the exception of that op (the object state is then kept: only used with single-member multis,
where no partial update exists) -/
def multiTrace : Multi → List MOp → List Json
  | _, [] => []
  | ms, op :: ops =>
    let (ms', out) : Multi × Json := match op with
      | .reset => (multiReset ms, Json.str "ok")
      | .compute =>
          (ms, Json.mkObj [("compute", .arr ((multiCompute ms).map (fun (n, v) => Json.arr #[.str n, valueToJson v])).toArray),
                           ("state", .arr (ms.map (fun (n, m) => Json.arr #[.str n, metricStateToJson m])).toArray)])
      | .update kw =>
          match multiUpdate ms kw with
          | .error e => (ms, Json.mkObj [("raise", .str (metricErrName e))])
          | .ok ms1 => (ms1, Json.str "ok")
    out :: multiTrace ms' ops

def widthOf (a : Json) : Except String Width :=
  match optField a "width" with
  | none => .ok none
  | some j => do .ok (some (← asNat j))

def step0Of (a : Json) : Except String (Option Nat) :=
  match optField a "step0" with
  | none => .ok none
  | some j => do .ok (some (← asNat j))

/-! ### handler -/

def handle : Handler := fun fn args =>
  match fn with
  | "avg_run" => do
      let bs ← asList batchOfJson (← argAt args 0)
      let s := avgRun AvgState.init bs
      .ok (Json.mkObj [("total", ratToJson s.total), ("count", Json.num (JsonNumber.fromNat s.count)),
                       ("compute", optRatToJson (avgCompute s))])
  | "welford_run" => do
      let bs ← asList batchOfJson (← argAt args 0)
      match welfordRun WState.init bs with
      | none => .ok (.str "nan")
      | some s => .ok (Json.mkObj [("state", metricStateToJson (.welford "" (some s))), ("compute", valueToJson (.stats (welfordCompute s)))])
  | "multi_trace" => do
      let ms ← asList (fun e => do .ok (← asStr (← argAt e 0), ← metricOfJson (← argAt e 1))) (← argAt args 0)
      let ops ← asList mopOfJson (← argAt args 1)
      .ok (.arr (multiTrace ms ops).toArray)
  | "trainstate_run" => do
      let a ← argAt args 0
      let owg ← asStr (← field a "owg")
      let w ← widthOf a
      let st0 ← step0Of a
      let params ← ptOfJson (← field a "params")
      let fields ← fieldsOfJson (← field a "fields")
      let initTbl ← initTableOfJson ptOfJson leavesOfJson (← field a "init_table")
      let tbl ← tableOfJson ptOfJson leavesOfJson (← field a "table")
      let tx : Tx (PT Arr) (List Arr) := tableTx [[(-1 : Rat)]] initTbl tbl
      let steps ← asList (fun e => do .ok (← ptOfJson (← field e "grads"), ← fieldsOfJson (← field e "kwargs"))) (← field a "steps")
      match TrainState.create owg tx params fields with
      | .error e => .ok (Json.mkObj [("raise", .str (errName e)), ("at", .str "create")])
      | .ok s00 =>
        let s0 := match st0 with | some n => { s00 with step := n } | none => s00  -- `.replace(step=…)` by the caller
        let rec go (s : TrainState Arr (List Arr) Int) (i : Nat) : List (PT Arr × List (String × Int)) → Json
          | [] => Json.mkObj [("step", Json.num (JsonNumber.fromNat s.step)), ("params", ptToJson s.params),
                              ("opt_state", leavesToJson s.optState), ("fields", fieldsToJson s.fields)]
          | (g, kw) :: rest =>
            match s.applyGradients w owg tx g kw with
            | .error e => Json.mkObj [("raise", .str (errName e)), ("at", Json.num (JsonNumber.fromNat i)),
                                      ("step", Json.num (JsonNumber.fromNat s.step)), ("params", ptToJson s.params),
                                      ("opt_state", leavesToJson s.optState), ("fields", fieldsToJson s.fields)]
            | .ok s' => go s' (i + 1) rest
        .ok (go s0 0 steps)
  | "ntrainstate_run" => do
      let a ← argAt args 0
      let params ← nstateOfJson (← field a "params")
      let step0 ← asNat (← field a "step")
      let w ← widthOf a
      let fields ← fieldsOfJson (← field a "fields")
      let initTbl ← initTableOfJson nstateOfJson optStateOfJson (← field a "init_table")
      let tbl ← tableOfJson nstateOfJson optStateOfJson (← field a "table")
      let tx : NTx Arr := tableTx [.arr [(-1 : Rat)]] initTbl tbl
      let steps ← asList (fun e => do .ok (← nstateOfJson (← field e "grads"), ← fieldsOfJson (← field e "kwargs"))) (← field a "steps")
      let s0 : NTrainState (NState Arr) (List (OptLeaf Arr)) Int := NTrainState.create tx params step0 fields
      let rec goN (s : NTrainState (NState Arr) (List (OptLeaf Arr)) Int) (i : Nat) : List (NState Arr × List (String × Int)) → Json
        | [] => Json.mkObj [("step", Json.num (JsonNumber.fromNat s.step)), ("params", nstateToJson s.params),
                            ("opt_state", optStateToJson s.optState), ("fields", fieldsToJson s.fields)]
        | (g, kw) :: rest =>
          match s.applyGradients w tx applyUpdatesN g kw with
          | .error e => Json.mkObj [("raise", .str (errName e)), ("at", Json.num (JsonNumber.fromNat i)),
                                    ("step", Json.num (JsonNumber.fromNat s.step)), ("params", nstateToJson s.params),
                                    ("opt_state", optStateToJson s.optState), ("fields", fieldsToJson s.fields)]
          | .ok s' => goN s' (i + 1) rest
      .ok (goN s0 0 steps)
  | "optimizer_run" => do
      let a ← argAt args 0
      let model ← modelOfJson (← field a "model")
      let wrt ← nfOfJson (← field a "wrt")
      let w ← widthOf a
      let st0 ← step0Of a
      let initTbl ← initTableOfJson nstateOfJson optStateOfJson (← field a "init_table")
      let tbl ← tableOfJson nstateOfJson optStateOfJson (← field a "table")
      let tx : NTx Arr := tableTx [.arr [(-1 : Rat)]] initTbl tbl
      let grads ← asList nstateOfJson (← field a "grads")
      let sel := fun p i => denote wrt p i
      let o00 := Optimizer.create tx sel model
      let o0 := match st0 with | some n => { o00 with step := n } | none => o00  -- `opt.step.value = …` by the caller
      let rec goO (o : Optimizer Arr) (i : Nat) : List (NState Arr) → Optimizer Arr × Json
        | [] => (o, Json.null)
        | g :: rest =>
          match o.update w tx sel g with
          | (o', some e) => (o', Json.mkObj [("raise", .str (errName e)), ("at", Json.num (JsonNumber.fromNat i))])
          | (o', none) => goO o' (i + 1) rest
      let (o, err) := goO o0 0 grads
      .ok (Json.mkObj [("step", Json.num (JsonNumber.fromNat o.step)), ("model", modelToJson o.model),
                       ("opt_state", optStateToJson (o.optState.map unwrapLeaf)),
                       ("kinds", .arr (o.optState.map (fun x => match x with
                          | .optVariable _ _ => Json.str "OptVariable" | .optArray _ => Json.str "OptArray")).toArray),
                       ("init_state", optStateToJson (o0.optState.map unwrapLeaf)),
                       ("selected", nstateToJson (stateOf sel model)),
                       ("error", err)])
  | "state_of" => do
      let model ← modelOfJson (← argAt args 0)
      let wrt ← nfOfJson (← argAt args 1)
      .ok (nstateToJson (stateOf (fun p i => denote wrt p i) model))
  | _ => .error "bad-op"

end Flax.Driver.C17

def main : IO Unit := Flax.Proto.serve Flax.Driver.C17.handle
